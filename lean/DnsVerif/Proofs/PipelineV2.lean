/-
The pipeline theorem for C01, v2 key layout (RocksDB with reversed, sorted keys).

`Pipeline.compile .rdbV2` runs the same line codec as the v1 configurations with
`useV2Keys := true`: every resource-record pair is written under
`marker ++ putreverseddom owner ++ loc` instead of `loc ++ putdom owner`, with the same value.
This file relates the two runs pair by pair (`RelL`), shows that the v2-compiled store is canonical
(`ServeV2.V2Canonical`) and holds, under `Key (reverse owner) loc`, exactly the rows of the records
`Pipeline.zoneOf` declares — so that `serve` on it is `serve` on the v1 store `v1Of store₂`
(`ServeV2.serve_v2_eq_v1'`), which is `Spec.answer` (`ServeRefine.serve_v1_full`).

One hypothesis is new and forced: `putreverseddom` writes a label of 256 bytes or more WHOLE after
its truncated length byte (`putdom` truncates the label too), so the v2 key of such an owner is not
the reversed wire form of the name the v1 key holds (`LinesV2OK`: every owner label is shorter than
256 bytes).
-/
import DnsVerif.Proofs.Pipeline
import DnsVerif.Proofs.ServeV2

namespace DnsVerif.PipelineV2
open DnsVerif DnsVerif.Net DnsVerif.Codec DnsVerif.Serve DnsVerif.Name DnsVerif.ServeRefine
open DnsVerif.Pipeline DnsVerif.Loc DnsVerif.Rearr DnsVerif.Spec DnsVerif.PipelineProofs

/-! ### names: `putreverseddom` on short labels -/

/-- every dot-separated label of the lower-cased domain text is shorter than 256 bytes -/
def DomShort (d : Bytes) : Prop := ∀ s ∈ splitDots (toLower d), s.length < 256

instance (d : Bytes) : Decidable (DomShort d) := by unfold DomShort; infer_instance

theorem flatMap_putLabelRev : ∀ (L : List Bytes), (∀ s ∈ L, s.length < 256) →
    L.flatMap putLabelRev =
      (L.filterMap fun s => if s.length % 256 = 0 then none else some (s.take (s.length % 256))).flatMap
        (fun l => UInt8.ofNat l.length :: l)
  | [], _ => rfl
  | s :: L, h => by
    have hs : s.length < 256 := h s (by simp)
    have hm : s.length % 256 = s.length := Nat.mod_eq_of_lt hs
    rw [List.flatMap_cons, flatMap_putLabelRev L (fun x hx => h x (List.mem_cons_of_mem _ hx)),
      List.filterMap_cons]
    unfold putLabelRev
    by_cases h0 : s.length % 256 = 0
    · simp [h0]
    · have h0' : ¬ s.length = 0 := by rwa [hm] at h0
      simp [hm, h0']

theorem putreverseddom_eq (d : Bytes) (h : ∀ s ∈ splitDots d, s.length < 256) :
    putreverseddom d = pack (domLabels d).reverse := by
  unfold putreverseddom pack domLabels
  rw [flatMap_putLabelRev _ (fun s hs => h s (List.mem_reverse.1 hs)), List.filterMap_reverse]

theorem labelsOK_nameOK {ls : List Bytes} (h : LabelsOK ls) : RevOrder.NameOK ls := by
  intro l hl
  have := h l hl
  exact ⟨List.length_pos_iff.2 this.1, this.2⟩

theorem nameOK_rev {ls : List Bytes} (h : ServeRefine.NameOK ls) : RevOrder.NameOK ls :=
  labelsOK_nameOK (nameOK_labelsOK h)

/-! ### the v2 pair of a record; the relation between the two codec runs -/

/-- the (key, value) pair of a declared record under the v2 key layout -/
def rrPairV2 (r : Rec) : KV := (RevOrder.Key r.owner.reverse r.loc, rowOfRec r)

/-- map keys of the v2 layout (`\000M` / `\0008` + reversed name + `=`/`*`): never under the marker -/
def IsMapKeyV2 (k : Bytes) : Prop := ∃ t rest, k = 0 :: t :: rest ∧ (t = 0x4d ∨ t = 0x38)

/-- the same declaration written by the v1 (`zoneOf`) and the v2 codec configuration -/
def Rel (kv1 kv2 : KV) : Prop :=
  (∃ r, EmitOK r ∧ kv1 = rrPair r ∧ kv2 = rrPairV2 r) ∨ (IsMapKey kv1.1 ∧ IsMapKeyV2 kv2.1)

inductive RelL : List KV → List KV → Prop
  | nil : RelL [] []
  | cons {a b : KV} {as bs : List KV} : Rel a b → RelL as bs → RelL (a :: as) (b :: bs)

theorem RelL.append {a1 a2 b1 b2 : List KV} (h1 : RelL a1 a2) (h2 : RelL b1 b2) :
    RelL (a1 ++ b1) (a2 ++ b2) := by
  induction h1 with
  | nil => exact h2
  | cons h _ ih => exact .cons h ih

theorem RelL.mem_right {l1 l2 : List KV} (h : RelL l1 l2) {b : KV} (hb : b ∈ l2) :
    ∃ a ∈ l1, Rel a b := by
  induction h with
  | nil => cases hb
  | cons h _ ih =>
    rcases List.mem_cons.1 hb with rfl | hb
    · exact ⟨_, List.mem_cons_self .., h⟩
    · obtain ⟨a, ha, hr⟩ := ih hb
      exact ⟨a, List.mem_cons_of_mem _ ha, hr⟩

theorem domainKey_v2 (cfg : Cfg) (hv : cfg.useV2Keys = true) (dom : Bytes) (lo : Option Bytes)
    (hd : DomShort dom) :
    domainKey cfg dom lo = RevOrder.Key (domLabels (toLower dom)).reverse (putloc lo) := by
  unfold domainKey
  rw [hv]
  show Generated.dnsdata_ResourceRecordsKeyMarker ++ putreverseddom (toLower dom) ++ putloc lo = _
  rw [putreverseddom_eq _ hd]
  rfl

/-- a resource-record pair of the v1 run and the pair the v2 run writes for the same `domainKey`
arguments -/
theorem rel_of_shaped (cfg1 cfg2 : Cfg) (hv1 : cfg1.useV2Keys = false) (hv2 : cfg2.useV2Keys = true)
    (dom : Bytes) (lo : Option Bytes) (hlo : LocOpt lo) (hd : DomShort dom) (v : Bytes)
    (hs : RRShaped (domainKey cfg1 dom lo, v)) :
    Rel (domainKey cfg1 dom lo, v) (domainKey cfg2 dom lo, v) := by
  obtain ⟨r, hr, he⟩ := hs
  refine Or.inl ⟨r, hr, he, ?_⟩
  rw [domainKey_v1 cfg1 hv1] at he
  unfold rrPair at he
  simp only [Prod.mk.injEq] at he
  obtain ⟨hk, hval⟩ := he
  have := List.append_inj hk (by rw [putloc_length lo hlo, hr.1.2.2.1])
  have ho : domLabels (toLower dom) = r.owner :=
    PipelineProofs.pack_inj _ _ (domLabels_ok _) hr.2.1 this.2
  rw [domainKey_v2 cfg2 hv2 dom lo hd, ho, this.1, hval]
  rfl

/-! ### the two runs, line type by line type -/

/-- the domain texts a line hands to `makedomainkey` (owner of every pair it emits) -/
def lineDoms (text : Bytes) : List Bytes :=
  let f := fields text
  match text with
  | [] => []
  | t :: _ =>
    if t = 0x5a ∨ t = 0x5e ∨ t = 0x3a then [unq (fld f 0)]
    else if t = 0x2e ∨ t = 0x26 then
      [unq (fld f 0), expandName (unq (fld f 2)) "ns".toUTF8.toList (unq (fld f 0))]
    else if t = 0x40 then [unq (fld f 0), expandName (unq (fld f 2)) "mx".toUTF8.toList (unq (fld f 0))]
    else if t = 0x53 then [unq (fld f 0), expandName (unq (fld f 2)) "srv".toUTF8.toList (unq (fld f 0))]
    else if t = 0x2b ∨ t = 0x43 ∨ t = 0x27 ∨ t = 0x42 ∨ t = 0x48 then [(getdom (fld f 0)).1]
    else if t = 0x3d then [(getdom (fld f 0)).1, reverseAddr (parseIP (fld f 1))]
    else []

/-- every owner label of the line is shorter than 256 bytes -/
def LineV2OK (text : Bytes) : Prop := ∀ d ∈ lineDoms text, DomShort d

instance (text : Bytes) : Decidable (LineV2OK text) := by unfold LineV2OK; infer_instance

section Runs
variable (s : Nat) (svcb1 svcb2 : SvcbFn) (rest : Bytes) (lo1 lo2 : LineOut)

/-- the configuration of `compile .rdbV2` -/
abbrev cfg2 (s : Nat) : Cfg := ⟨s, true, true, true⟩

theorem addrRecord_rel (dom : Bytes) (wild : Bool) (ip : Option (List UInt8)) (ttl : Nat)
    (lo : Option Bytes) (weight : Nat) (hlo : LocOpt lo) (hd : DomShort dom)
    (hs : ∀ kv ∈ addrRecord (cfgZ s) dom wild ip ttl lo weight, RRShaped kv) :
    RelL (addrRecord (cfgZ s) dom wild ip ttl lo weight) (addrRecord (cfg2 s) dom wild ip ttl lo weight) := by
  unfold addrRecord at hs ⊢
  cases ip with
  | none => exact .nil
  | some ip =>
    simp only [] at hs ⊢
    by_cases h4 : isV4 ip = true
    · simp only [if_pos h4] at hs ⊢
      exact .cons (rel_of_shaped (cfgZ s) (cfg2 s) rfl rfl _ _ hlo hd _ (hs _ (List.mem_singleton.2 rfl))) .nil
    · simp only [if_neg h4] at hs ⊢
      exact .cons (rel_of_shaped (cfgZ s) (cfg2 s) rfl rfl _ _ hlo hd _ (hs _ (List.mem_singleton.2 rfl))) .nil

theorem rel_Z (h1 : convertLine (cfgZ s) svcb1 (0x5a :: rest) = .ok lo1)
    (h2 : convertLine (cfg2 s) svcb2 (0x5a :: rest) = .ok lo2) (hd : LineV2OK (0x5a :: rest)) :
    RelL lo1.kvs lo2.kvs := by
  have hs := shaped_Z (cfgZ s) rfl svcb1 rest lo1 h1
  cl_open h1
  cl_open h2
  split at h2
  · cases h2
  · rename_i lo hloc
    rw [hloc] at h1
    simp only [] at h1
    cases h1
    cases h2
    exact .cons (rel_of_shaped (cfgZ s) (cfg2 s) rfl rfl _ _ (getloc_ok hloc) (hd _ (by simp [lineDoms])) _
      (hs _ (List.mem_singleton.2 rfl))) .nil

theorem rel_amp (h1 : convertLine (cfgZ s) svcb1 (0x26 :: rest) = .ok lo1)
    (h2 : convertLine (cfg2 s) svcb2 (0x26 :: rest) = .ok lo2) (hd : LineV2OK (0x26 :: rest)) :
    RelL lo1.kvs lo2.kvs := by
  have hs := shaped_amp (cfgZ s) rfl svcb1 rest lo1 h1
  cl_open h1
  cl_open h2
  split at h2
  · cases h2
  · rename_i lo hloc
    rw [hloc] at h1
    simp only [] at h1
    cases h1
    cases h2
    exact RelL.append
      (.cons (rel_of_shaped (cfgZ s) (cfg2 s) rfl rfl _ _ (getloc_ok hloc) (hd _ (by simp [lineDoms])) _
        (hs _ (List.mem_append_left _ (List.mem_singleton.2 rfl)))) .nil)
      (addrRecord_rel s _ _ _ _ _ _ (getloc_ok hloc) (hd _ (by simp [lineDoms]))
        (fun kv hkv => hs kv (List.mem_append_right _ hkv)))

theorem rel_plus (h1 : convertLine (cfgZ s) svcb1 (0x2b :: rest) = .ok lo1)
    (h2 : convertLine (cfg2 s) svcb2 (0x2b :: rest) = .ok lo2) (hd : LineV2OK (0x2b :: rest)) :
    RelL lo1.kvs lo2.kvs := by
  have hs := shaped_plus (cfgZ s) rfl svcb1 rest lo1 h1
  cl_open h1
  cl_open h2
  split at h2
  · cases h2
  · rename_i lo hloc
    rw [hloc] at h1
    simp only [] at h1
    cases h1
    cases h2
    exact addrRecord_rel s _ _ _ _ _ _ (getloc_ok hloc) (hd _ (by simp [lineDoms])) hs

theorem rel_dot (h1 : convertLine (cfgZ s) svcb1 (0x2e :: rest) = .ok lo1)
    (h2 : convertLine (cfg2 s) svcb2 (0x2e :: rest) = .ok lo2) (hd : LineV2OK (0x2e :: rest)) :
    RelL lo1.kvs lo2.kvs := by
  have hs := shaped_dot (cfgZ s) rfl svcb1 rest lo1 h1
  cl_open h1
  cl_open h2
  split at h2
  · cases h2
  · rename_i lo hloc
    rw [hloc] at h1
    simp only [] at h1
    cases h1
    cases h2
    exact RelL.append (RelL.append
      (.cons (rel_of_shaped (cfgZ s) (cfg2 s) rfl rfl _ _ (getloc_ok hloc) (hd _ (by simp [lineDoms])) _
        (hs _ (List.mem_append_left _ (List.mem_append_left _ (List.mem_singleton.2 rfl))))) .nil)
      (.cons (rel_of_shaped (cfgZ s) (cfg2 s) rfl rfl _ _ (getloc_ok hloc) (hd _ (by simp [lineDoms])) _
        (hs _ (List.mem_append_left _ (List.mem_append_right _ (List.mem_singleton.2 rfl))))) .nil))
      (addrRecord_rel s _ _ _ _ _ _ (getloc_ok hloc) (hd _ (by simp [lineDoms]))
        (fun kv hkv => hs kv (List.mem_append_right _ hkv)))

theorem rel_eq (h1 : convertLine (cfgZ s) svcb1 (0x3d :: rest) = .ok lo1)
    (h2 : convertLine (cfg2 s) svcb2 (0x3d :: rest) = .ok lo2) (hd : LineV2OK (0x3d :: rest)) :
    RelL lo1.kvs lo2.kvs := by
  have hs := shaped_eq (cfgZ s) rfl svcb1 rest lo1 h1
  cl_open h1
  cl_open h2
  split at h2
  · cases h2
  · rename_i lo hloc
    rw [hloc] at h1
    simp only [] at h1
    cases h1
    cases h2
    exact RelL.append
      (addrRecord_rel s _ _ _ _ _ _ (getloc_ok hloc) (hd _ (by simp [lineDoms]))
        (fun kv hkv => hs kv (List.mem_append_left _ hkv)))
      (.cons (rel_of_shaped (cfgZ s) (cfg2 s) rfl rfl _ _ (getloc_ok hloc) (hd _ (by simp [lineDoms])) _
        (hs _ (List.mem_append_right _ (List.mem_singleton.2 rfl)))) .nil)

theorem rel_at (h1 : convertLine (cfgZ s) svcb1 (0x40 :: rest) = .ok lo1)
    (h2 : convertLine (cfg2 s) svcb2 (0x40 :: rest) = .ok lo2) (hd : LineV2OK (0x40 :: rest)) :
    RelL lo1.kvs lo2.kvs := by
  have hs := shaped_at (cfgZ s) rfl svcb1 rest lo1 h1
  cl_open h1
  cl_open h2
  split at h2
  · cases h2
  · rename_i lo hloc
    rw [hloc] at h1
    simp only [] at h1
    cases h1
    cases h2
    exact RelL.append
      (.cons (rel_of_shaped (cfgZ s) (cfg2 s) rfl rfl _ _ (getloc_ok hloc) (hd _ (by simp [lineDoms])) _
        (hs _ (List.mem_append_left _ (List.mem_singleton.2 rfl)))) .nil)
      (addrRecord_rel s _ _ _ _ _ _ (getloc_ok hloc) (hd _ (by simp [lineDoms]))
        (fun kv hkv => hs kv (List.mem_append_right _ hkv)))

theorem rel_S (h1 : convertLine (cfgZ s) svcb1 (0x53 :: rest) = .ok lo1)
    (h2 : convertLine (cfg2 s) svcb2 (0x53 :: rest) = .ok lo2) (hd : LineV2OK (0x53 :: rest)) :
    RelL lo1.kvs lo2.kvs := by
  have hs := shaped_S (cfgZ s) rfl svcb1 rest lo1 h1
  cl_open h1
  cl_open h2
  split at h2
  · cases h2
  · rename_i lo hloc
    rw [hloc] at h1
    simp only [] at h1
    cases h1
    cases h2
    exact RelL.append
      (.cons (rel_of_shaped (cfgZ s) (cfg2 s) rfl rfl _ _ (getloc_ok hloc) (hd _ (by simp [lineDoms])) _
        (hs _ (List.mem_append_left _ (List.mem_singleton.2 rfl)))) .nil)
      (addrRecord_rel s _ _ _ _ _ _ (getloc_ok hloc) (hd _ (by simp [lineDoms]))
        (fun kv hkv => hs kv (List.mem_append_right _ hkv)))

theorem rel_C (h1 : convertLine (cfgZ s) svcb1 (0x43 :: rest) = .ok lo1)
    (h2 : convertLine (cfg2 s) svcb2 (0x43 :: rest) = .ok lo2) (hd : LineV2OK (0x43 :: rest)) :
    RelL lo1.kvs lo2.kvs := by
  have hs := shaped_C (cfgZ s) rfl svcb1 rest lo1 h1
  cl_open h1
  cl_open h2
  split at h2
  · cases h2
  · rename_i lo hloc
    rw [hloc] at h1
    simp only [] at h1
    cases h1
    cases h2
    exact .cons (rel_of_shaped (cfgZ s) (cfg2 s) rfl rfl _ _ (getloc_ok hloc) (hd _ (by simp [lineDoms])) _
      (hs _ (List.mem_singleton.2 rfl))) .nil

theorem rel_caret (h1 : convertLine (cfgZ s) svcb1 (0x5e :: rest) = .ok lo1)
    (h2 : convertLine (cfg2 s) svcb2 (0x5e :: rest) = .ok lo2) (hd : LineV2OK (0x5e :: rest)) :
    RelL lo1.kvs lo2.kvs := by
  have hs := shaped_caret (cfgZ s) rfl svcb1 rest lo1 h1
  cl_open h1
  cl_open h2
  split at h2
  · cases h2
  · rename_i lo hloc
    rw [hloc] at h1
    simp only [] at h1
    cases h1
    cases h2
    exact .cons (rel_of_shaped (cfgZ s) (cfg2 s) rfl rfl _ _ (getloc_ok hloc) (hd _ (by simp [lineDoms])) _
      (hs _ (List.mem_singleton.2 rfl))) .nil

theorem rel_txt (h1 : convertLine (cfgZ s) svcb1 (0x27 :: rest) = .ok lo1)
    (h2 : convertLine (cfg2 s) svcb2 (0x27 :: rest) = .ok lo2) (hd : LineV2OK (0x27 :: rest)) :
    RelL lo1.kvs lo2.kvs := by
  have hs := shaped_txt (cfgZ s) rfl svcb1 rest lo1 h1
  cl_open h1
  cl_open h2
  split at h2
  · cases h2
  · rename_i lo hloc
    rw [hloc] at h1
    simp only [] at h1
    cases h1
    cases h2
    exact .cons (rel_of_shaped (cfgZ s) (cfg2 s) rfl rfl _ _ (getloc_ok hloc) (hd _ (by simp [lineDoms])) _
      (hs _ (List.mem_singleton.2 rfl))) .nil

theorem rel_colon (hg : GenericOK (0x3a :: rest)) (h1 : convertLine (cfgZ s) svcb1 (0x3a :: rest) = .ok lo1)
    (h2 : convertLine (cfg2 s) svcb2 (0x3a :: rest) = .ok lo2) (hd : LineV2OK (0x3a :: rest)) :
    RelL lo1.kvs lo2.kvs := by
  have hs := shaped_colon (cfgZ s) rfl svcb1 rest lo1 hg h1
  cl_open h1
  cl_open h2
  split at h2
  · cases h2
  · rename_i lo hloc
    rw [hloc] at h1
    simp only [] at h1
    cases h1
    cases h2
    exact .cons (rel_of_shaped (cfgZ s) (cfg2 s) rfl rfl _ _ (getloc_ok hloc) (hd _ (by simp [lineDoms])) _
      (hs _ (List.mem_singleton.2 rfl))) .nil

theorem mapKey_v2 (cfg : Cfg) (t : UInt8) (ht : t = 0x4d ∨ t = 0x38) (dom : Bytes) :
    IsMapKeyV2 (mapKey cfg [0, t] dom) := by
  unfold mapKey
  split
  rename_i d sfx _
  refine ⟨t, (if cfg.useV2Keys = true then putreverseddom (toLower d) else putdom (toLower d)) ++ [sfx], ?_, ht⟩
  simp

theorem rel_M (h1 : convertLine (cfgZ s) svcb1 (0x4d :: rest) = .ok lo1)
    (h2 : convertLine (cfg2 s) svcb2 (0x4d :: rest) = .ok lo2) : RelL lo1.kvs lo2.kvs := by
  have hs := shaped_M (cfgZ s) rfl svcb1 rest lo1 h1
  cl_open h1
  cl_open h2
  cases h1
  cases h2
  exact .cons (Or.inr ⟨hs _ (List.mem_singleton.2 rfl), mapKey_v2 _ 0x4d (Or.inl rfl) _⟩) .nil

theorem rel_8 (h1 : convertLine (cfgZ s) svcb1 (0x38 :: rest) = .ok lo1)
    (h2 : convertLine (cfg2 s) svcb2 (0x38 :: rest) = .ok lo2) : RelL lo1.kvs lo2.kvs := by
  have hs := shaped_8 (cfgZ s) rfl svcb1 rest lo1 h1
  cl_open h1
  cl_open h2
  cases h1
  cases h2
  exact .cons (Or.inr ⟨hs _ (List.mem_singleton.2 rfl), mapKey_v2 _ 0x38 (Or.inr rfl) _⟩) .nil

end Runs

/-- **The two runs agree pair by pair**: the pairs one line yields under `zoneOf`'s configuration and
under the configuration of `compile .rdbV2` are, position by position, the v1 pair and the v2 pair of
one emittable record, or a v1 map pair and a v2 map pair. -/
theorem convertLine_rel2 (s : Nat) (svcb : SvcbFn) (text : Bytes) (lo1 lo2 : LineOut)
    (hg : GenericOK text) (hd : LineV2OK text)
    (h1 : convertLine (cfgZ s) (fun _ => none) text = .ok lo1)
    (h2 : convertLine (cfg2 s) svcb text = .ok lo2) : RelL lo1.kvs lo2.kvs := by
  match text, hg, hd, h1, h2 with
  | [], _, _, h1, _ => cases h1
  | t :: rest, hg, hd, h1, h2 =>
    by_cases h25 : t = 0x25
    · subst h25
      have a1 := convertLine_pct _ _ rest lo1 h1
      have a2 := convertLine_pct _ _ rest lo2 h2
      rw [a1.1 rfl, a2.1 rfl]
      exact .nil
    by_cases h2' : t = 0x5a
    · subst h2'; exact rel_Z s _ svcb rest lo1 lo2 h1 h2 hd
    by_cases h3 : t = 0x2e
    · subst h3; exact rel_dot s _ svcb rest lo1 lo2 h1 h2 hd
    by_cases h4 : t = 0x26
    · subst h4; exact rel_amp s _ svcb rest lo1 lo2 h1 h2 hd
    by_cases h5 : t = 0x2b
    · subst h5; exact rel_plus s _ svcb rest lo1 lo2 h1 h2 hd
    by_cases h6 : t = 0x3d
    · subst h6; exact rel_eq s _ svcb rest lo1 lo2 h1 h2 hd
    by_cases h7 : t = 0x40
    · subst h7; exact rel_at s _ svcb rest lo1 lo2 h1 h2 hd
    by_cases h8 : t = 0x53
    · subst h8; exact rel_S s _ svcb rest lo1 lo2 h1 h2 hd
    by_cases h9 : t = 0x43
    · subst h9; exact rel_C s _ svcb rest lo1 lo2 h1 h2 hd
    by_cases h10 : t = 0x5e
    · subst h10; exact rel_caret s _ svcb rest lo1 lo2 h1 h2 hd
    by_cases h11 : t = 0x27
    · subst h11; exact rel_txt s _ svcb rest lo1 lo2 h1 h2 hd
    by_cases h12 : t = 0x3a
    · subst h12; exact rel_colon s _ svcb rest lo1 lo2 hg h1 h2 hd
    by_cases h13 : t = 0x4d
    · subst h13; exact rel_M s _ svcb rest lo1 lo2 h1 h2
    by_cases h14 : t = 0x38
    · subst h14; exact rel_8 s _ svcb rest lo1 lo2 h1 h2
    by_cases hBH : t = 0x42 ∨ t = 0x48
    · exact absurd h1 (convertLine_BH_none _ t hBH rest lo1)
    exfalso
    have h15 : ¬ t = 0x42 := fun h => hBH (Or.inl h)
    have h16 : ¬ t = 0x48 := fun h => hBH (Or.inr h)
    unfold convertLine at h1
    simp only [if_neg h25, if_neg h2', h3, h4, false_or, if_false, if_neg h5, if_neg h6, if_neg h7, if_neg h8,
      if_neg h9, if_neg h10, if_neg h11, if_neg h12, if_neg h13, if_neg h14, h15, h16] at h1
    cases h1

/-! ### the fold over the lines -/

/-- every owner label in the file is shorter than 256 bytes (decidable; forced for the v2 layout) -/
def LinesV2OK (lines : List Bytes) : Prop :=
  ∀ raw ∈ lines, match filterLine raw with
    | none => True
    | some l => LineV2OK l

instance (lines : List Bytes) : Decidable (LinesV2OK lines) := by
  unfold LinesV2OK
  have : ∀ raw : Bytes, Decidable (match filterLine raw with | none => True | some l => LineV2OK l) := by
    intro raw
    cases filterLine raw <;> simp only [] <;> infer_instance
  infer_instance

theorem collect_rel2 (s : Nat) (svcb : SvcbFn) :
    ∀ (lines : List Bytes) (a1 a2 r1 r2 : List KV × List Subnet), LinesOK lines → LinesV2OK lines →
      collect (cfgZ s) (fun _ => none) lines a1 = some r1 →
      collect (cfg2 s) svcb lines a2 = some r2 →
      RelL a1.1 a2.1 → RelL r1.1 r2.1
  | [], a1, a2, r1, r2, _, _, h1, h2, ha => by
    rw [collect_nil] at h1 h2
    cases h1; cases h2; exact ha
  | raw :: lines, a1, a2, r1, r2, hl, hl2, h1, h2, ha => by
    rw [collect_cons] at h1 h2
    unfold step at h1 h2
    have hl' : LinesOK lines := fun x hx => hl x (List.mem_cons_of_mem _ hx)
    have hl2' : LinesV2OK lines := fun x hx => hl2 x (List.mem_cons_of_mem _ hx)
    have hraw := hl raw (by simp)
    have hraw2 := hl2 raw (by simp)
    cases hf : filterLine raw with
    | none =>
      rw [hf] at h1 h2
      exact collect_rel2 s svcb lines a1 a2 r1 r2 hl' hl2' h1 h2 ha
    | some l =>
      rw [hf] at h1 h2 hraw hraw2
      simp only [] at h1 h2 hraw hraw2
      cases hc1 : convertLine (cfgZ s) (fun _ => none) l with
      | error e => rw [hc1] at h1; cases h1
      | ok lo1 =>
        cases hc2 : convertLine (cfg2 s) svcb l with
        | error e => rw [hc2] at h2; cases h2
        | ok lo2 =>
          rw [hc1] at h1; rw [hc2] at h2
          exact collect_rel2 s svcb lines _ _ r1 r2 hl' hl2' h1 h2
            (ha.append (convertLine_rel2 s svcb l lo1 lo2 hraw hraw2 hc1 hc2))

/-! ### keys -/

theorem key_eq (a : List Bytes) (loc : Bytes) : RevOrder.Key a loc = 0 :: 111 :: (pack a ++ loc) := rfl

theorem mapKeyV2_ne_key {k : Bytes} (h : IsMapKeyV2 k) (a : List Bytes) (loc : Bytes) : k ≠ RevOrder.Key a loc := by
  obtain ⟨t, rest, rfl, ht⟩ := h
  rw [key_eq]
  intro he
  simp only [List.cons.injEq, true_and] at he
  rcases ht with rfl | rfl
  · exact absurd he.1 (by decide)
  · exact absurd he.1 (by decide)

theorem rangeKey_ne_key {k rest : Bytes} (h : k = 0 :: 0 :: 0 :: 33 :: rest) (a : List Bytes) (loc : Bytes) :
    k ≠ RevOrder.Key a loc := by
  rw [key_eq, h]
  intro he
  simp only [List.cons.injEq, true_and] at he
  exact absurd he.1 (by decide)

theorem features_ne_key (cfg : Cfg) (a : List Bytes) (ha : LabelsOK a) (loc : Bytes) :
    (featuresKV cfg).1 ≠ RevOrder.Key a loc := by
  have hk : (featuresKV cfg).1 = [0, 111, 95, 102, 101, 97, 116, 117, 114, 101, 115] := by
    show Generated.dnsdata_FeaturesKey = _
    decide
  rw [hk, key_eq]
  intro h
  simp only [List.cons.injEq, true_and] at h
  cases a with
  | nil => rw [ServeRefine.pack_nil] at h; exact absurd (List.cons.inj h).1 (by decide)
  | cons x t =>
    rw [ServeRefine.pack_cons] at h
    simp only [List.cons_append, List.cons.injEq] at h
    have hx := ha x (by simp)
    have h1 : (UInt8.ofNat x.length).toNat = 95 := by rw [← h.1]; rfl
    rw [ServeRefine.toNat_ofNat_lt _ hx.2] at h1
    have h2 := congrArg List.length h.2
    simp only [List.length_append, List.length_cons, List.length_nil] at h2
    omega

theorem key_inj {a b : List Bytes} (ha : LabelsOK a) (hb : LabelsOK b) {l l' : Bytes} (hl : l.length = 2)
    (hl' : l'.length = 2) (h : RevOrder.Key a.reverse l = RevOrder.Key b.reverse l') : a = b ∧ l = l' := by
  have := ServeV2.Key_inj (labelsOK_nameOK ha).reverse (labelsOK_nameOK hb).reverse hl hl' h
  exact ⟨List.reverse_inj.1 this.1, this.2⟩

/-- selecting one owner and tag: the v2 run by its v2 key, the v1 run by its v1 key -/
theorem filter_rel (l : Bytes) (hl : TagOK l) (ls : List Bytes) (hn : LabelsOK ls) {kvs1 kvs2 : List KV}
    (h : RelL kvs1 kvs2) :
    (kvs2.filter fun kv => decide (kv.1 = RevOrder.Key ls.reverse l)).map (·.2) =
      (kvs1.filter fun kv => decide (kv.1 = l ++ pack ls)).map (·.2) := by
  induction h with
  | nil => rfl
  | @cons a b as bs hab _ ih =>
    rcases hab with ⟨r, hr, rfl, rfl⟩ | ⟨h1, h2⟩
    · by_cases hm : r.owner = ls ∧ r.loc = l
      · have e1 : (rrPair r).1 = l ++ pack ls := by unfold rrPair; rw [hm.1, hm.2]
        have e2 : (rrPairV2 r).1 = RevOrder.Key ls.reverse l := by unfold rrPairV2; rw [hm.1, hm.2]
        rw [List.filter_cons_of_pos (by simpa using e2), List.filter_cons_of_pos (by simpa using e1),
          List.map_cons, List.map_cons, ih]
        rfl
      · have e1 : (rrPair r).1 ≠ l ++ pack ls := by
          unfold rrPair
          intro he
          have := List.append_inj he (by rw [hl.1, hr.1.2.2.1])
          exact hm ⟨PipelineProofs.pack_inj _ _ hr.2.1 hn this.2, this.1⟩
        have e2 : (rrPairV2 r).1 ≠ RevOrder.Key ls.reverse l := by
          unfold rrPairV2
          intro he
          exact hm (key_inj hr.2.1 hn hr.1.2.2.1 hl.1 he)
        rw [List.filter_cons_of_neg (by simpa using e2), List.filter_cons_of_neg (by simpa using e1), ih]
    · have e1 : a.1 ≠ l ++ pack ls := by
        intro he; rw [he] at h1; exact key_not_map l ls hl h1
      have e2 : b.1 ≠ RevOrder.Key ls.reverse l := mapKeyV2_ne_key h2 _ _
      rw [List.filter_cons_of_neg (by simpa using e2), List.filter_cons_of_neg (by simpa using e1), ih]

/-! ### entries of a store built by `ofKVs` -/

theorem mem_insert_key {s : Store} {k v : Bytes} {e : Bytes × List Bytes} (h : e ∈ s.insert k v) :
    (∃ e' ∈ s, e'.1 = e.1) ∨ e.1 = k := by
  unfold Store.insert at h
  split at h
  · obtain ⟨e', he', hm⟩ := List.mem_map.1 h
    left
    refine ⟨e', he', ?_⟩
    obtain ⟨k', vs⟩ := e'
    simp only [] at hm
    split at hm <;> (rw [← hm])
  · rcases List.mem_append.1 h with h | h
    · exact Or.inl ⟨e, h, rfl⟩
    · right
      rw [List.mem_singleton] at h
      rw [h]

theorem mem_foldl_insert_key (kvs : List KV) : ∀ (s : Store) {e : Bytes × List Bytes},
    e ∈ kvs.foldl (fun s kv => s.insert kv.1 kv.2) s → (∃ e' ∈ s, e'.1 = e.1) ∨ ∃ kv ∈ kvs, kv.1 = e.1 := by
  induction kvs with
  | nil => intro s e h; exact Or.inl ⟨e, h, rfl⟩
  | cons kv kvs ih =>
    intro s e h
    rw [List.foldl_cons] at h
    rcases ih _ h with ⟨e', he', hk⟩ | ⟨kv', hkv', hk⟩
    · rcases mem_insert_key he' with ⟨e'', he'', hk'⟩ | hk'
      · exact Or.inl ⟨e'', he'', hk'.trans hk⟩
      · exact Or.inr ⟨kv, List.mem_cons_self .., hk'.symm.trans hk⟩
    · exact Or.inr ⟨kv', List.mem_cons_of_mem _ hkv', hk⟩

theorem mem_ofKVs_key {kvs : List KV} {e : Bytes × List Bytes} (h : e ∈ Store.ofKVs kvs) :
    ∃ kv ∈ kvs, kv.1 = e.1 := by
  rcases mem_foldl_insert_key kvs [] h with ⟨_, h', _⟩ | h'
  · cases h'
  · exact h'

/-! ### the compiled v2 store -/

theorem nameOK_labelsOK' {a : List Bytes} (h : RevOrder.NameOK a) : LabelsOK a := by
  intro x hx
  have := h x hx
  exact ⟨List.length_pos_iff.1 this.1, this.2⟩

/-- what `compile .rdbV2` and `zoneOf` build from one file, side by side -/
theorem compile_v2_unfold (svcb : SvcbFn) (lines : List Bytes) (store : Store) (z : Zone)
    (hc : compile .rdbV2 svcb lines = some store) (hz : zoneOf lines = some z)
    (hg : LinesOK lines) (hg2 : LinesV2OK lines) :
    ∃ (kvsZ kvs2 acc : List KV), RelL kvsZ kvs2 ∧ (∀ kv ∈ kvsZ, RRShaped kv ∨ IsMapKey kv.1) ∧
      z.recs = (kvsZ.map decodeKV).filterMap (·.1) ∧
      store = Store.ofKVs (kvs2 ++ acc ++ [featuresKV (cfgFor .rdbV2)]) ∧
      ∀ kv ∈ acc, ∃ rest, kv.1 = 0 :: 0 :: 0 :: 33 :: rest := by
  rw [compile_eq] at hc
  rw [zoneOf_eq] at hz
  cases hcz : collect (cfgZ serial) (fun _ => none) lines ([], []) with
  | none => rw [hcz] at hz; cases hz
  | some rz =>
    rw [hcz] at hz
    simp only [Option.map_some, Option.some.injEq] at hz
    cases hcc : collect (cfgFor .rdbV2) svcb lines ([], []) with
    | none => rw [hcc] at hc; cases hc
    | some rc =>
      rw [hcc] at hc
      obtain ⟨kvsC, subsC⟩ := rc
      obtain ⟨kvsZ, subsZ⟩ := rz
      simp only [] at hc
      cases hr : rangePointKVs subsC with
      | none => rw [hr] at hc; cases hc
      | some acc =>
        rw [hr] at hc
        simp only [Option.map_some, Option.some.injEq] at hc
        exact ⟨kvsZ, kvsC, acc, collect_rel2 serial svcb lines ([], []) ([], []) _ _ hg hg2 hcz hcc .nil,
          collect_shaped serial lines ([], []) (kvsZ, subsZ) hg hcz (by simp), by rw [← hz], hc.symm,
          rangePoint_keys subsC acc hr⟩

/-- **Pipeline theorem, v2 layout.** The store `compile .rdbV2` builds from a data file holds, under
the v2 key `marker ++ pack (reverse owner) ++ l` of every `NameOK` owner and admissible tag `l`,
exactly the rows of the records `zoneOf` declares for that owner and tag, in file order. -/
theorem compile_v2_get (svcb : SvcbFn) (lines : List Bytes) (store : Store) (z : Zone)
    (hc : compile .rdbV2 svcb lines = some store) (hz : zoneOf lines = some z)
    (hg : LinesOK lines) (hg2 : LinesV2OK lines) (l : Bytes) (hl : TagOK l) (ls : List Bytes)
    (hn : ServeRefine.NameOK ls) :
    store.get (RevOrder.Key ls.reverse l) = (recsAt z.recs ls l).map rowOfRec := by
  obtain ⟨kvsZ, kvs2, acc, hrel, hsh, hrecs, hstore, hacc⟩ := compile_v2_unfold svcb lines store z hc hz hg hg2
  rw [hstore, store_get_kvs kvs2 acc _ _
      (fun kv hkv => by obtain ⟨rest, hr⟩ := hacc kv hkv; exact rangeKey_ne_key hr _ _)
      (features_ne_key _ _ (fun x hx => nameOK_labelsOK hn x (List.mem_reverse.1 hx)) _),
    hrecs, rows_of_shaped l hl ls hn kvsZ hsh, filter_rel l hl ls (nameOK_labelsOK hn) hrel]

/-- **The compiled v2 store is canonical**: every key under the resource-record marker is the key of
a well-formed owner with a 2-byte location, except the features key. -/
theorem compile_v2_canonical (svcb : SvcbFn) (lines : List Bytes) (store : Store) (z : Zone)
    (hc : compile .rdbV2 svcb lines = some store) (hz : zoneOf lines = some z)
    (hg : LinesOK lines) (hg2 : LinesV2OK lines) : ServeV2.V2Canonical store := by
  obtain ⟨kvsZ, kvs2, acc, hrel, _, _, hstore, hacc⟩ := compile_v2_unfold svcb lines store z hc hz hg hg2
  have hmk : RevOrder.marker = [0, 111] := rfl
  intro e he hm
  rw [hstore] at he
  obtain ⟨kv, hkv, hk⟩ := mem_ofKVs_key he
  rw [← hk] at hm ⊢
  rcases List.mem_append.1 hkv with hkv | hkv
  · rcases List.mem_append.1 hkv with hkv | hkv
    · obtain ⟨a, _, hab⟩ := hrel.mem_right hkv
      rcases hab with ⟨r, hr, _, rfl⟩ | ⟨_, t, rest, hk2, ht⟩
      · left
        show (ServeV2.decodeKey (RevOrder.Key r.owner.reverse r.loc)).isSome = true
        rw [ServeV2.decodeKey_key (labelsOK_nameOK hr.2.1).reverse hr.1.2.2.1]
        rfl
      · exfalso
        rw [hk2, hmk] at hm
        have : t = 111 := by simpa using hm
        rcases ht with rfl | rfl <;> exact absurd this (by decide)
    · obtain ⟨rest, hr⟩ := hacc kv hkv
      rw [hr, hmk] at hm
      simp at hm
  · rw [List.mem_singleton] at hkv
    right
    rw [hkv]
    decide

/-- every row the compiled v2 store holds under the key of a well-formed owner and an admissible tag
is the row of a declared record with that tag -/
theorem compile_v2_rows (svcb : SvcbFn) (lines : List Bytes) (store : Store) (z : Zone)
    (hc : compile .rdbV2 svcb lines = some store) (hz : zoneOf lines = some z)
    (hg : LinesOK lines) (hg2 : LinesV2OK lines) (loc : Bytes) (hl : TagOK loc) (a : List Bytes)
    (ha : RevOrder.NameOK a) (row : Bytes) (hrow : row ∈ store.get (RevOrder.Key a.reverse loc)) :
    ∃ r ∈ z.recs, r.loc = loc ∧ r.owner = a ∧ RecOK r ∧ row = rowOfRec r := by
  obtain ⟨kvsZ, kvs2, acc, hrel, _, hrecs, hstore, hacc⟩ := compile_v2_unfold svcb lines store z hc hz hg hg2
  have hla := nameOK_labelsOK' ha
  rw [hstore, store_get_kvs kvs2 acc _ _
      (fun kv hkv => by obtain ⟨rest, hr⟩ := hacc kv hkv; exact rangeKey_ne_key hr _ _)
      (features_ne_key _ _ (fun x hx => hla x (List.mem_reverse.1 hx)) _)] at hrow
  obtain ⟨kv, hkv, rfl⟩ := List.mem_map.1 hrow
  obtain ⟨hkv, hk⟩ := List.mem_filter.1 hkv
  have hk : kv.1 = RevOrder.Key a.reverse loc := by simpa using hk
  obtain ⟨kv1, hkv1, hab⟩ := hrel.mem_right hkv
  rcases hab with ⟨r, hr, rfl, rfl⟩ | ⟨_, h2⟩
  · obtain ⟨ho, hloc⟩ := key_inj hr.2.1 hla hr.1.2.2.1 hl.1 hk
    refine ⟨r, ?_, hloc, ho, hr.1, rfl⟩
    rw [hrecs, List.mem_filterMap]
    refine ⟨decodeKV (rrPair r), List.mem_map.2 ⟨_, hkv1, rfl⟩, ?_⟩
    have hnm : ¬ IsMapKey (rrPair r).1 := by
      unfold rrPair
      rw [hloc]
      exact key_not_map loc r.owner hl
    show (decodeKV ((rrPair r).1, (rrPair r).2)).1 = some r
    rw [decodeKV_not_map _ _ hnm, decodeRR_rrPair r hr]
  · exact absurd hk (mapKeyV2_ne_key h2 _ _)

/-! ### `serve`, v2 = v1, with the additional-section hypothesis on the reply only

`ServeV2.serve_v2_eq_v1'` asks of every NS / MX row the client can see that its target lower-cases to
a wire name (`TargetsOKAt`). When the v1 reply is known, it is enough to ask this of the records in
its answer and authority sections — the only ones whose targets the handler looks up. -/

section Reply
open DnsVerif.ServeV2 DnsVerif.RevOrder
variable {s₁ s₂ : Store} {rows : Rows}

theorem fin_v2_eq_v1_rrok (hrep1 : RepRRV1 s₁ rows) (hrep2 : RepRRV2 s₂ rows) {L : Bytes} (hL : L.length = 2)
    (rq : Query) (cut : Cut) (z : List Bytes) (hz : RevOrder.NameOK z) (hcz : cut.zoneCut = pack z) (a : Ans)
    (ha : ∀ rr ∈ a.rrs, RROK rr) (hns : ∀ rr ∈ nsSecOf ⟨.rdbV1, s₁, L⟩ rq cut a, RROK rr) :
    fin ⟨.rdbV2, s₂, L⟩ rq cut a = fin ⟨.rdbV1, s₁, L⟩ rq cut a := by
  have hns' : nsSecOf ⟨.rdbV2, s₂, L⟩ rq cut a = nsSecOf ⟨.rdbV1, s₁, L⟩ rq cut a := by
    unfold nsSecOf findSOA getNs
    rw [hcz, rowsOf_v2_eq_v1' hrep1 hrep2 hL z hz]
  unfold fin
  rw [hns', additionalFor_v2_eq_v1 hrep1 hrep2 hL rq.qclass a.rrs ha,
    additionalFor_v2_eq_v1 hrep1 hrep2 hL rq.qclass _ hns]

theorem tail_eq (v : View) (q : Query) (cut : Cut) (z : List Bytes) (hcz : cut.zoneCut = pack z) :
    ServeV2.tail v q cut =
      match ServeV2.ansOf v q cut with
      | .panic => .panic
      | .err => .noReply
      | .ok a => fin v q cut a := by
  unfold ServeV2.tail
  have : cut.zoneCut.isEmpty = false := by
    rw [hcz]
    cases hp : pack z with
    | nil => exact absurd hp (ServeV2.pack_ne_nil z)
    | cons _ _ => rfl
  rw [this]
  rfl

/-- **`serve`, v2 = v1, from the v1 reply.** Stores holding the same rows in the two layouts, rows the
client can see never make the row parser panic, a query with labels of 1…63 bytes and at most 256
octets: if the handler over the v1 layout replies `R` and the NS / MX / HTTPS records of `R`'s answer and
authority sections have targets that lower-case to well-formed wire names (`RROK`), the handler over
the v2 layout replies `R` too. -/
theorem serve_v2_eq_v1_of_reply (hrep1 : RepRRV1 s₁ rows) (hrep2 : RepRRV2 s₂ rows) {L : Bytes}
    (hok : RowsOKAt rows L) (hL : L.length = 2) (ql : List Bytes) (hq : NameOK64 ql)
    (hlen : (pack ql).length ≤ 256) (rq : Query) (hqn : rq.qname = pack ql) (R : Response)
    (hR : serve ⟨.rdbV1, s₁, L⟩ rq = .reply R) (hrr : ∀ rr ∈ R.answer ++ R.ns, RROK rr) :
    serve ⟨.rdbV2, s₂, L⟩ rq = .reply R := by
  obtain ⟨N, A, z1, hz1, h2, h1⟩ := isAuth_both hrep1 hrep2 hok hL ql hq hlen
  rw [serve_unfold, hqn, h1] at hR
  rw [serve_unfold, hqn, h2]
  simp only [] at hR ⊢
  by_cases hc : ¬ N = true ∧ ¬ A = true
  · rw [if_pos hc] at hR ⊢
    exact hR
  · rw [if_neg hc] at hR ⊢
    obtain ⟨c', z', hz', hcz', hd2, hd1⟩ :=
      dsStep_both hrep1 hrep2 hok hL ql hq hlen rq hqn ⟨N, A, pack z1⟩ z1 hz1 rfl
    rw [hd1] at hR
    rw [hd2]
    simp only [] at hR ⊢
    have hzok : RevOrder.NameOK z' := by
      obtain ⟨t, ht⟩ := hz'
      exact (ht ▸ hq.ok : RevOrder.NameOK (t ++ z')).of_append_right
    have hfa : ServeV2.ansOf ⟨.rdbV2, s₂, L⟩ rq c' = ServeV2.ansOf ⟨.rdbV1, s₁, L⟩ rq c' := by
      unfold ServeV2.ansOf
      by_cases hau : c'.auth = true
      · rw [if_pos hau, if_pos hau]
        have hv2 : View.v2 ⟨.rdbV2, s₂, L⟩ = true := rfl
        have hv1 : ¬ View.v2 ⟨.rdbV1, s₁, L⟩ = true := by simp [View.v2]
        rw [if_pos hv2, if_neg hv1, hqn, hcz']
        exact findAnswerV2_eq_V1' rq.qnameOut rq.qtype hrep1 hrep2 hL ql z' hq hlen hz'
      · rw [if_neg hau, if_neg hau]
    rw [tail_eq _ _ _ z' hcz'] at hR ⊢
    rw [hfa]
    cases hans : ServeV2.ansOf ⟨.rdbV1, s₁, L⟩ rq c' with
    | ok a =>
      rw [hans] at hR
      simp only [] at hR ⊢
      have hfin : fin ⟨.rdbV1, s₁, L⟩ rq c' a = .reply R := hR
      have hRa : R.answer = a.rrs ∧ R.ns = nsSecOf ⟨.rdbV1, s₁, L⟩ rq c' a := by
        unfold fin at hfin
        cases hfin
        exact ⟨rfl, rfl⟩
      rw [fin_v2_eq_v1_rrok hrep1 hrep2 hL rq c' z' hzok hcz' a
        (fun rr h => hrr rr (List.mem_append_left _ (hRa.1 ▸ h)))
        (fun rr h => hrr rr (List.mem_append_right _ (hRa.2 ▸ h)))]
      exact hfin
    | err => rw [hans] at hR; cases hR
    | panic => rw [hans] at hR; cases hR

end Reply

/-- the records of a spec answer whose lower-cased targets are storable have `RROK` targets -/
theorem rrok_of_targetsLowOK (rrs : List OutRR) (h : TargetsLowOK rrs) :
    ∀ rr ∈ rrs.map ofSpecRR, ServeV2.RROK rr := by
  intro rr' hrr'
  obtain ⟨rr, hrr, rfl⟩ := List.mem_map.1 hrr'
  intro n hn
  rw [additionalTarget_ofSpec] at hn
  cases hraw : rawTarget rr with
  | none => rw [hraw] at hn; cases hn
  | some tn =>
    rw [hraw] at hn
    simp only [Option.map_some, Option.some.injEq] at hn
    subst hn
    obtain ⟨tl, hlow, himp⟩ := lowTarget_some rr tn hraw
    have hmem : tl ∈ targetsOf rrs := by
      rw [targetsOf_eq, List.mem_filterMap]
      exact ⟨rr, hrr, hlow⟩
    have hn := h.1 tl hmem
    exact ServeV2.lowerOK_of_eq (nameOK_rev hn) (toLower_pack_of tn tl (himp hn.1) hn)

/-! ### the compiled v2 store and its v1 counterpart -/

theorem rowOK_rowOfRec (r : Rec) (hok : RecOK r) : RevOrder.rowOK (rowOfRec r) = true := by
  unfold RevOrder.rowOK
  rw [extractRR_rowOfRec r hok false]
  by_cases hw : false ≠ r.wild
  · rw [if_pos hw]
  · rw [if_neg hw]

theorem nameOK64 {q : List Bytes} (h : ServeRefine.NameOK q) : RevOrder.NameOK64 q := by
  intro x hx
  have := h.1 x hx
  exact ⟨List.length_pos_iff.2 this.1, this.2.1⟩

/-- **The compiled v2 store represents the declared zone.** With `rows := rowsV2 store` (the rows under
the canonical keys): the store is a v2 representation of `rows`, `v1Of store` (the same rows re-keyed
`loc ++ pack owner`) a v1 representation; the rows a client at `l` can see are rows of declared
records (they never make the row parser panic); and `v1Of store` holds, under the untagged key space
and the tag `l`, exactly the rows of the declared records (`RepresentsAt`). -/
theorem compile_v2_represents (svcb : SvcbFn) (lines : List Bytes) (store : Store) (z : Zone)
    (hc : compile .rdbV2 svcb lines = some store) (hz : zoneOf lines = some z)
    (hg : LinesOK lines) (hg2 : LinesV2OK lines) (l : Bytes) (hl : TagOK l) :
    RevOrder.RepRRV1 (ServeV2.v1Of store) (ServeV2.rowsV2 store) ∧
      RevOrder.RepRRV2 store (ServeV2.rowsV2 store) ∧ RevOrder.RowsOKAt (ServeV2.rowsV2 store) l ∧
      RepresentsAt (ServeV2.v1Of store) z.recs [0, 0] ∧ RepresentsAt (ServeV2.v1Of store) z.recs l := by
  have hcan := compile_v2_canonical svcb lines store z hc hz hg hg2
  have htag : ∀ loc, loc = l ∨ loc = [0, 0] → TagOK loc := by
    intro loc h
    rcases h with rfl | rfl
    · exact hl
    · decide
  have hok : RevOrder.RowsOKAt (ServeV2.rowsV2 store) l := by
    intro a ha loc hloc row hrow
    obtain ⟨r, _, _, _, hrok, rfl⟩ :=
      compile_v2_rows svcb lines store z hc hz hg hg2 loc (htag loc hloc) a ha row hrow
    exact rowOK_rowOfRec r hrok
  have hrep : ∀ loc, TagOK loc → RepresentsAt (ServeV2.v1Of store) z.recs loc := by
    intro loc hloc ls hn
    rw [ServeV2.repV1_v1Of store ls loc (nameOK_rev hn) hloc.1]
    exact compile_v2_get svcb lines store z hc hz hg hg2 loc hloc ls hn
  exact ⟨ServeV2.repV1_v1Of store, ServeV2.repV2_rowsV2 hcan, hok, hrep [0, 0] (by decide), hrep l hl⟩

/-- on the compiled v2 store the handler gives the reply it gives over the v1 layout on
`v1Of store`, provided the targets in that reply's answer and authority sections are `RROK` -/
theorem compile_v2_serve_of_reply (svcb : SvcbFn) (lines : List Bytes) (store : Store) (z : Zone)
    (hc : compile .rdbV2 svcb lines = some store) (hz : zoneOf lines = some z)
    (hg : LinesOK lines) (hg2 : LinesV2OK lines) (l : Bytes) (hl : TagOK l)
    (q : List Bytes) (hq : ServeRefine.NameOK q) (qtype qclass maxAns : Nat) (R : Response)
    (hR : serve ⟨.rdbV1, ServeV2.v1Of store, l⟩ ⟨pack q, pack q, qtype, qclass, maxAns⟩ = .reply R)
    (hrr : ∀ rr ∈ R.answer ++ R.ns, ServeV2.RROK rr) :
    serve ⟨.rdbV2, store, l⟩ ⟨pack q, pack q, qtype, qclass, maxAns⟩ = .reply R := by
  obtain ⟨h1, h2, hok, _, _⟩ := compile_v2_represents svcb lines store z hc hz hg hg2 l hl
  exact serve_v2_eq_v1_of_reply h1 h2 hok hl.1 q (nameOK64 hq) (Nat.le_succ_of_le hq.2)
    ⟨pack q, pack q, qtype, qclass, maxAns⟩ rfl R hR hrr

end DnsVerif.PipelineV2
