/-
C16, `Dump` on a written file: `dumpRecords` walks the record area of `writeFile es` from offset
2048 up to the position of table 0 (first header word) and prints every record, in order.
-/
import DnsVerif.Proofs.CdbFile

namespace DnsVerif.Cdb

/-! ### the text of the records (without the final empty line) -/

def recsText : List Entry → Bytes
  | [] => []
  | e :: es =>
    [0x2b] ++ natDigits e.key.length ++ [0x2c] ++ natDigits e.val.length ++ [0x3a] ++ e.key
      ++ [0x2d, 0x3e] ++ e.val ++ [0x0a] ++ recsText es

theorem recsText_dumpText (es : List Entry) :
    recsText es ++ [0x0a] = dumpText (es.map fun e => (e.key, e.val)) := by
  induction es with
  | nil => rfl
  | cons e es ih =>
    rw [List.map_cons, dumpText, recsText, ← ih]
    simp only [List.append_assoc]

/-! ### one record -/

theorem lenGe_of_le {l : Bytes} {n : Nat} (h : n ≤ l.length) : lenGe l n = true :=
  (lenGe_iff l n).mpr h

/-- one iteration of `Dump`'s loop over a well-formed record -/
theorem dumpRecords_step (fuel : Nat) (k d rest : Bytes) (pos eod : Nat)
    (hk : k.length < u32) (hd : d.length < u32) (hlt : pos < eod) :
    dumpRecords (fuel + 1) (putNum k.length ++ (putNum d.length ++ (k ++ (d ++ rest)))) pos eod =
      match dumpRecords fuel rest ((pos + 8 + k.length + d.length) % u32) eod with
      | some out =>
        some ([0x2b] ++ natDigits k.length ++ [0x2c] ++ natDigits d.length ++ [0x3a] ++ k
          ++ [0x2d, 0x3e] ++ d ++ [0x0a] ++ out)
      | none => none := by
  have h8 : lenGe (putNum k.length ++ (putNum d.length ++ (k ++ (d ++ rest)))) 8 = true :=
    lenGe_of_le (by simp only [List.length_append, putNum_length]; omega)
  have hkl : getNum (putNum k.length ++ (putNum d.length ++ (k ++ (d ++ rest)))) = k.length :=
    getNum_putNum hk _
  have hd4 : (putNum k.length ++ (putNum d.length ++ (k ++ (d ++ rest)))).drop 4
      = putNum d.length ++ (k ++ (d ++ rest)) := List.drop_left' (putNum_length _)
  have hdl : getNum (putNum d.length ++ (k ++ (d ++ rest))) = d.length := getNum_putNum hd _
  have hd8 : (putNum k.length ++ (putNum d.length ++ (k ++ (d ++ rest)))).drop 8
      = k ++ (d ++ rest) := by
    rw [← List.append_assoc]
    exact List.drop_left' (by rw [List.length_append, putNum_length, putNum_length])
  have hbody : lenGe (k ++ (d ++ rest)) (k.length + d.length) = true :=
    lenGe_of_le (by simp only [List.length_append]; omega)
  have hk' : (k ++ (d ++ rest)).take k.length = k := List.take_left' rfl
  have hdk : (k ++ (d ++ rest)).drop k.length = d ++ rest := List.drop_left' rfl
  have hd' : (d ++ rest).take d.length = d := List.take_left' rfl
  have hrest : (k ++ (d ++ rest)).drop (k.length + d.length) = rest := by
    rw [← List.append_assoc]
    exact List.drop_left' (by rw [List.length_append])
  rw [dumpRecords, if_pos hlt, if_pos h8]
  simp only [hkl, hd4, hdl, hd8]
  rw [if_pos hbody, hk', hdk, hd', hrest]
  cases dumpRecords fuel rest ((pos + 8 + k.length + d.length) % u32) eod <;> rfl

/-- the record bytes in the shape `dumpRecords_step` wants -/
theorem recordBytes_append (e : Entry) (hk : e.key.length < u32) (hd : e.val.length < u32)
    (rest : Bytes) :
    recordBytes e ++ rest
      = putNum e.key.length ++ (putNum e.val.length ++ (e.key ++ (e.val ++ rest))) := by
  rw [recordBytes, Nat.mod_eq_of_lt hk, Nat.mod_eq_of_lt hd]
  simp only [List.append_assoc]

/-! ### the whole record area -/

/-- `Dump`'s loop over the record area: starting at the first record with `eod` the end of the
records (no 32-bit overflow), it prints every record in order and stops exactly at `eod` -/
theorem dumpRecords_records : ∀ (es : List Entry) (fuel pos eod : Nat) (tail : Bytes),
    pos + recsLen es = eod → eod < u32 → es.length < fuel →
    dumpRecords fuel (es.flatMap recordBytes ++ tail) pos eod = some (recsText es) := by
  intro es
  induction es with
  | nil =>
    intro fuel pos eod tail hpos _ hf
    obtain ⟨f, rfl⟩ : ∃ f, fuel = f + 1 := ⟨fuel - 1, by simp only [List.length_nil] at hf; omega⟩
    have : ¬ pos < eod := by simp only [recsLen] at hpos; omega
    rw [dumpRecords, if_neg this]
    rfl
  | cons e es ih =>
    intro fuel pos eod tail hpos heod hf
    obtain ⟨f, rfl⟩ : ∃ f, fuel = f + 1 := ⟨fuel - 1, by simp only [List.length_cons] at hf; omega⟩
    have hrl : recsLen (e :: es) = 8 + e.key.length + e.val.length + recsLen es := rfl
    rw [hrl] at hpos
    have hk : e.key.length < u32 := by omega
    have hd : e.val.length < u32 := by omega
    rw [List.flatMap_cons, List.append_assoc, recordBytes_append e hk hd,
      dumpRecords_step f _ _ _ pos eod hk hd (by omega),
      Nat.mod_eq_of_lt (by omega),
      ih f (pos + 8 + e.key.length + e.val.length) eod tail (by omega) heod
        (by simp only [List.length_cons] at hf; omega)]
    rfl

/-! ### the written file -/

theorem length_le_recsLen (es : List Entry) : es.length ≤ recsLen es := by
  induction es with
  | nil => exact Nat.le_refl _
  | cons e es ih => rw [recsLen, recLen, List.length_cons]; omega

theorem hdrBytes_cons (h : Nat × Nat) (t : List (Nat × Nat)) :
    hdrBytes (h :: t) = putNum h.1 ++ (putNum h.2 ++ hdrBytes t) := by
  simp only [hdrBytes, List.flatMap_cons, List.append_assoc]

/-- the end of the record area, in the size regime of the format -/
theorem finOf_eq {es : List Entry} (hsz : (writeFile es).length < u32) :
    finOf es = 2048 + recsLen es := by
  rw [writeFile_length] at hsz
  exact (recs_spec es headerSize (by unfold headerSize; omega)).1

theorem positions_snd_lt : ∀ (es : List Entry) (pos : Nat), pos < u32 →
    (positions pos es).2 < u32 := by
  intro es
  induction es with
  | nil => intro pos h; exact h
  | cons e es ih =>
    intro pos _
    rw [positions_cons]
    exact ih _ (Nat.mod_lt _ (by decide))

theorem finOf_lt (es : List Entry) : finOf es < u32 :=
  positions_snd_lt es headerSize (by decide)

/-- the first header word of a written file is the writer's position after the last record (the
position of table 0, also when that table — or every table — is empty); no size hypothesis -/
theorem getNum_writeFile (es : List Entry) : getNum (writeFile es) = finOf es := by
  have hlt := finOf_lt es
  rw [writeFile_eq, tables_succ es (psOf es) 255 (finOf es) hlt]
  simp only
  rw [hdrBytes_cons, List.append_assoc, List.append_assoc]
  exact getNum_putNum hlt _

/-- what follows the 2048 header bytes -/
theorem drop_header_writeFile (es : List Entry) :
    (writeFile es).drop headerSize
      = es.flatMap recordBytes ++ (tables es (psOf es) 256 (finOf es)).2 := by
  rw [writeFile_eq, List.append_assoc]
  exact List.drop_left' (by rw [hdrBytes_length, tables_fst_length]; rfl)

/-- **`Dump` of a written file** prints exactly the records, in insertion order, then the empty
line -/
theorem dump_written_core (es : List Entry) (hsz : (writeFile es).length < u32) :
    dump (writeFile es) = some (dumpText (es.map fun e => (e.key, e.val))) := by
  have hlen := writeFile_length es
  have hfin := finOf_eq hsz
  have hge : lenGe (writeFile es) headerSize = true :=
    lenGe_of_le (by rw [hlen]; unfold headerSize; omega)
  have hle := length_le_recsLen es
  rw [dump, hge, getNum_writeFile, drop_header_writeFile,
    dumpRecords_records es _ headerSize (finOf es) _ (by rw [hfin]; rfl) (by omega) (by omega)]
  simp only [Bool.not_true, Bool.false_eq_true, if_false]
  rw [recsText_dumpText]

/-! ### sizes -/

/-- a file below 2^32 bytes has keys and data below 2^32 bytes -/
theorem lengths_lt_of_fileSize : ∀ (es : List Entry), fileSize es < u32 →
    ∀ e ∈ es, e.key.length < u32 ∧ e.val.length < u32 := by
  intro es
  induction es with
  | nil => intro _ e he; simp at he
  | cons a es ih =>
    intro h e he
    unfold fileSize at h ih
    rw [List.map_cons, List.sum_cons] at h
    rcases List.mem_cons.mp he with rfl | he
    · omega
    · exact ih (by omega) e he

/-! ### beyond 2^32: the writer's position wraps and `Dump` stops early -/

/-- when the writer's 32-bit position after the last record has wrapped to at most 2048, `Dump`
prints no record at all -/
theorem dump_of_finOf_le (es : List Entry) (h : finOf es ≤ headerSize) :
    dump (writeFile es) = some [0x0a] := by
  have hge : lenGe (writeFile es) headerSize = true :=
    lenGe_of_le (by rw [writeFile_length]; unfold headerSize; omega)
  rw [dump, hge, getNum_writeFile, dumpRecords, if_neg (show ¬ headerSize < finOf es by omega)]
  rfl

theorem finOf_single (e : Entry) :
    finOf [e] = (headerSize + 8 + e.key.length + e.val.length) % u32 := rfl

theorem fileSize_single (e : Entry) : fileSize [e] = 2048 + (24 + e.key.length + e.val.length) := by
  unfold fileSize
  rw [List.map_cons, List.map_nil, List.sum_cons, List.sum_nil, Nat.add_zero]

/-- one record whose end is exactly at offset 2^32: the position wraps to 0 -/
theorem finOf_wrap {e : Entry} (hk : e.key.length = u32 - 2056) (hv : e.val.length = 0) :
    finOf [e] = 0 := by
  rw [finOf_single, hk, hv]
  decide

theorem dumpText_ne_nl (p : Bytes × Bytes) (ps : List (Bytes × Bytes)) :
    dumpText (p :: ps) ≠ [0x0a] := by
  obtain ⟨k, d⟩ := p
  rw [dumpText_cons]
  intro h
  exact absurd (List.cons.inj h).1 (by decide)

end DnsVerif.Cdb
