/-
Helper lemmas for C09, names with empty labels (`Props/C09.lean`, `Proofs/MarshalNorm.lean`):
`Bquote` is a homomorphism at every ASCII byte of its input, a printable `.` / `*` is written as it
is, and a `.` / `*` of the quoted text is always a `.` / `*` of the input. Built on the per-token
facts of C17 (`Proofs/QuoteMain.lean`).
-/
import DnsVerif.Proofs.QuoteMain

set_option linter.unusedSimpArgs false

namespace DnsVerif.Quote
open DnsVerif

/-! ### an ASCII byte is always a token boundary of `strconv.Quote` -/

theorem decodeRune_append_ascii (b0 : UInt8) (t0 : Bytes) (c : UInt8) (y : Bytes)
    (h0 : 0x80 ≤ b0.toNat) (hc : c.toNat < 0x80) :
    decodeRune (b0 :: t0 ++ c :: y) = decodeRune (b0 :: t0) := by
  rcases decodeRune_cases b0 t0 h0 with hinv | hok
  · rw [hinv]
    rcases decodeRune_cases b0 (t0 ++ c :: y) h0 with hinv' | hok'
    · exact hinv'
    · exfalso
      generalize hr : (decodeRune (b0 :: (t0 ++ c :: y))).1 = r at hok'
      generalize hw : (decodeRune (b0 :: (t0 ++ c :: y))).2 = w at hok'
      have hbytes := encodeRune_ge r hok'.r_ge hok'.valid
      rw [hok'.enc] at hbytes
      by_cases hle : w ≤ (b0 :: t0).length
      · have e : (b0 :: (t0 ++ c :: y)).take w = (b0 :: t0).take w := by
          rw [← List.cons_append, List.take_append_of_le_length hle]
        have hst := hok'.stable ((b0 :: t0).drop w)
        rw [e, List.take_append_drop, hinv] at hst
        have := hok'.w_ge
        simp only [Prod.mk.injEq] at hst
        omega
      · have hm : c ∈ (b0 :: (t0 ++ c :: y)).take w := by
          rw [← List.cons_append, List.take_append]
          apply List.mem_append_right
          have : 0 < w - (b0 :: t0).length := by omega
          match hk : w - (b0 :: t0).length, this with
          | k + 1, _ => simp
        have := hbytes c hm
        omega
  · have hst := hok.stable ((b0 :: t0).drop (decodeRune (b0 :: t0)).2 ++ c :: y)
    rw [← List.append_assoc, List.take_append_drop] at hst
    rw [hst]

theorem quoteStep_append_ascii (isPrint : Nat → Bool) (b0 : UInt8) (t0 : Bytes) (c : UInt8) (y : Bytes)
    (hc : c.toNat < 0x80) :
    quoteStep isPrint (b0 :: t0 ++ c :: y) = quoteStep isPrint (b0 :: t0) := by
  by_cases hlt : b0.toNat < 0x80
  · simp only [quoteStep, List.cons_append, hlt, if_true]
  · have h0 : 0x80 ≤ b0.toNat := by omega
    have := decodeRune_append_ascii b0 t0 c y h0 hc
    simp only [List.cons_append] at this
    simp only [quoteStep, List.cons_append, hlt, if_false, this]

/-- the fuel of `quoteBody` only has to cover the input -/
theorem quoteBody_fuel (isPrint : Nat → Bool) : ∀ (f1 f2 : Nat) (s : Bytes), s.length ≤ f1 → s.length ≤ f2 →
    quoteBody isPrint f1 s = quoteBody isPrint f2 s := by
  intro f1
  induction f1 with
  | zero =>
    intro f2 s h1 _
    have : s = [] := by simpa using h1
    subst this
    cases f2 <;> simp [quoteBody]
  | succ f1 ih =>
    intro f2 s h1 h2
    match s, h1, h2 with
    | [], _, _ => cases f2 <;> simp [quoteBody]
    | b0 :: t0, h1, h2 =>
      match f2, h2 with
      | f2 + 1, h2 =>
        have ok := stepOK isPrint b0 t0
        rw [quoteBody_cons, quoteBody_cons]
        congr 1
        have hw := ok.w_pos
        apply ih
        · simp only [List.length_drop, List.length_cons] at h1 ⊢; omega
        · simp only [List.length_drop, List.length_cons] at h2 ⊢; omega

/-- `strconv.Quote` body with exactly enough fuel -/
def qb (isPrint : Nat → Bool) (s : Bytes) : Bytes := quoteBody isPrint s.length s

theorem qb_cons (isPrint : Nat → Bool) (b0 : UInt8) (t0 : Bytes) :
    qb isPrint (b0 :: t0) = (quoteStep isPrint (b0 :: t0)).1
      ++ qb isPrint ((b0 :: t0).drop (quoteStep isPrint (b0 :: t0)).2) := by
  unfold qb
  rw [List.length_cons, quoteBody_cons]
  congr 1
  have ok := stepOK isPrint b0 t0
  have hw := ok.w_pos
  apply quoteBody_fuel
  · simp only [List.length_drop, List.length_cons]; omega
  · exact Nat.le_refl _

theorem qb_append_ascii (isPrint : Nat → Bool) (c : UInt8) (y : Bytes) (hc : c.toNat < 0x80) :
    ∀ (n : Nat) (x : Bytes), x.length ≤ n → qb isPrint (x ++ c :: y) = qb isPrint x ++ qb isPrint (c :: y) := by
  intro n
  induction n with
  | zero =>
    intro x hx
    have : x = [] := by simpa using hx
    subst this
    simp [qb, quoteBody]
  | succ n ih =>
    intro x hx
    match x, hx with
    | [], _ => simp [qb, quoteBody]
    | b0 :: t0, hx =>
      have ok := stepOK isPrint b0 t0
      have hw := ok.w_pos
      have hwl := ok.w_le
      have e : (b0 :: t0) ++ c :: y = b0 :: (t0 ++ c :: y) := rfl
      rw [e, qb_cons, ← e, quoteStep_append_ascii isPrint b0 t0 c y hc, qb_cons isPrint b0 t0,
        List.drop_append_of_le_length hwl, ih _ (by simp only [List.length_drop, List.length_cons] at hx ⊢; omega),
        List.append_assoc]

theorem bquote_qb (isPrint : Nat → Bool) (b : Bytes) : bquote isPrint b = post (qb isPrint b) :=
  bquote_eq isPrint b

theorem post_append_qb (isPrint : Nat → Bool) (a s : Bytes) :
    post (a ++ qb isPrint s) = post a ++ post (qb isPrint s) := by
  unfold post
  rw [pre_append]
  exact replacePair_append _ _ _ _ (pre_quoteBody_head isPrint _ _) _

/-- `Bquote` is a homomorphism at every ASCII byte of the input (no token of `strconv.Quote`
straddles one) -/
theorem bquote_append_ascii (isPrint : Nat → Bool) (x : Bytes) (c : UInt8) (y : Bytes) (hc : c.toNat < 0x80) :
    bquote isPrint (x ++ c :: y) = bquote isPrint x ++ bquote isPrint (c :: y) := by
  rw [bquote_qb, bquote_qb, bquote_qb, qb_append_ascii isPrint c y hc x.length x (Nat.le_refl _), post_append_qb]

theorem bquote_nil (isPrint : Nat → Bool) : bquote isPrint [] = [] := by
  rw [bquote_qb]; rfl

/-- a printable `.` / `*` is written as it is -/
theorem bquote_cons_plain (isPrint : Nat → Bool) (c : UInt8) (hcc : c = 0x2e ∨ c = 0x2a)
    (hp : isPrint c.toNat = true) (y : Bytes) :
    bquote isPrint (c :: y) = c :: bquote isPrint y := by
  rw [bquote_qb, bquote_qb, qb_cons]
  have hq : quoteStep isPrint (c :: y) = ([c], 1) := by
    rcases hcc with rfl | rfl
    · have hp' : isPrint 0x2e = true := hp
      simp (decide := true) [quoteStep, escapedRune, hp', encodeRune, runeError]
    · have hp' : isPrint 0x2a = true := hp
      simp (decide := true) [quoteStep, escapedRune, hp', encodeRune, runeError]
  rw [hq]
  simp only [List.drop_succ_cons, List.drop_zero]
  rw [post_append_qb]
  have : post [c] = [c] := by rcases hcc with rfl | rfl <;> decide
  rw [this]; rfl

/-! ### `.` and `*` occur in a quoted text only as themselves -/

def IsPlain (c : UInt8) : Prop := c = 0x2e ∨ c = 0x2a

theorem post_preserves_plain (c0 : UInt8) (hc : IsPlain c0) (t : Bytes) (h : c0 ∉ t) : c0 ∉ post t := by
  unfold post pre
  apply replacePair_preserves_not_mem _ _ _ _ (by rcases hc with rfl | rfl <;> decide)
  apply replaceByte_preserves_not_mem _ _ _ _ (by rcases hc with rfl | rfl <;> decide)
  exact replaceByte_preserves_not_mem _ _ _ _ (by rcases hc with rfl | rfl <;> decide) h

theorem ascii_plain : ∀ (b : Fin 128) (p : Bool),
    ((0x2e : UInt8) ∈ escapedRune (fun _ => p) b.val → b.val = 0x2e) ∧
    ((0x2a : UInt8) ∈ escapedRune (fun _ => p) b.val → b.val = 0x2a) := by
  decide +kernel

theorem lowerhex_plain (n : Nat) (h : n < 16) : lowerhex n ≠ 0x2e ∧ lowerhex n ≠ 0x2a := by
  have key : ∀ k : Fin 16, lowerhex k.val ≠ 0x2e ∧ lowerhex k.val ≠ 0x2a := by decide
  exact key ⟨n, h⟩

theorem escapedRune_high (isPrint : Nat → Bool) (r : Nat) (hr : 0x80 ≤ r) (hv : validRune r = true)
    (x : UInt8) (hx : x ∈ escapedRune isPrint r) :
    0x80 ≤ x.toNat ∨ x = bslash ∨ x = 0x75 ∨ x = 0x55 ∨ ∃ n, n < 16 ∧ x = lowerhex n := by
  unfold escapedRune at hx
  rw [if_neg (by omega)] at hx
  by_cases hp : isPrint r = true
  · rw [if_pos hp] at hx
    exact Or.inl (encodeRune_ge r hr hv x hx)
  · rw [if_neg hp, if_neg (by omega), if_neg (by omega), if_neg (by omega), if_neg (by omega),
      if_neg (by omega), if_neg (by omega), if_neg (by omega), if_neg (by omega)] at hx
    simp only [hv, if_true] at hx
    by_cases h16 : r < 0x10000
    · rw [if_pos h16] at hx
      simp only [List.mem_cons, List.not_mem_nil, or_false] at hx
      rcases hx with rfl | rfl | rfl | rfl | rfl | rfl
      · exact Or.inr (Or.inl rfl)
      · exact Or.inr (Or.inr (Or.inl rfl))
      all_goals exact Or.inr (Or.inr (Or.inr (Or.inr ⟨_, Nat.mod_lt _ (by decide), rfl⟩)))
    · rw [if_neg h16] at hx
      simp only [List.mem_cons, List.not_mem_nil, or_false] at hx
      rcases hx with rfl | rfl | rfl | rfl | rfl | rfl | rfl | rfl | rfl | rfl
      · exact Or.inr (Or.inl rfl)
      · exact Or.inr (Or.inr (Or.inr (Or.inl rfl)))
      all_goals exact Or.inr (Or.inr (Or.inr (Or.inr ⟨_, Nat.mod_lt _ (by decide), rfl⟩)))

/-- the token of an input byte contains a `.` / `*` only when the byte is that character -/
theorem tok_plain (isPrint : Nat → Bool) (c0 : UInt8) (hc : IsPlain c0) (b0 : UInt8) (t0 : Bytes)
    (h : c0 ∈ (quoteStep isPrint (b0 :: t0)).1) : b0 = c0 := by
  by_cases hlt : b0.toNat < 0x80
  · have hq : quoteStep isPrint (b0 :: t0) = (escapedRune (fun _ => isPrint b0.toNat) b0.toNat, 1) := by
      unfold quoteStep
      simp only [hlt, if_true]
      rw [if_neg (by simp [runeError]; omega), ← escapedRune_congr]
    rw [hq] at h
    have key := ascii_plain ⟨b0.toNat, hlt⟩ (isPrint b0.toNat)
    simp only at key
    rcases hc with rfl | rfl
    · exact UInt8.toNat_inj.mp (key.1 h)
    · exact UInt8.toNat_inj.mp (key.2 h)
  · have h0 : 0x80 ≤ b0.toNat := by omega
    have hb0 := b0.toNat_lt
    exfalso
    rcases decodeRune_cases b0 t0 h0 with hinv | hok
    · have hq : quoteStep isPrint (b0 :: t0)
          = ([bslash, 0x78, lowerhex (b0.toNat / 16), lowerhex (b0.toNat % 16)], 1) := by
        unfold quoteStep
        simp only [hlt, if_false, hinv]
        rw [if_pos (by simp)]
      rw [hq] at h
      have l1 := lowerhex_plain (b0.toNat / 16) (by omega)
      have l2 := lowerhex_plain (b0.toNat % 16) (by omega)
      simp only [List.mem_cons, List.not_mem_nil, or_false] at h
      rcases hc with rfl | rfl
      · rcases h with h | h | h | h
        · revert h; decide
        · revert h; decide
        · exact l1.1 h.symm
        · exact l2.1 h.symm
      · rcases h with h | h | h | h
        · revert h; decide
        · revert h; decide
        · exact l1.2 h.symm
        · exact l2.2 h.symm
    · have hw := hok.w_ge
      have hqs : quoteStep isPrint (b0 :: t0)
          = (escapedRune isPrint (decodeRune (b0 :: t0)).1, (decodeRune (b0 :: t0)).2) := by
        unfold quoteStep
        simp only [hlt, if_false]
        rw [if_neg (by omega)]
      rw [hqs] at h
      rcases escapedRune_high isPrint _ hok.r_ge hok.valid c0 h with h1 | h1 | h1 | h1 | ⟨n, hn, h1⟩
      · rcases hc with rfl | rfl <;> simp at h1
      · rcases hc with rfl | rfl <;> (revert h1; decide)
      · rcases hc with rfl | rfl <;> (revert h1; decide)
      · rcases hc with rfl | rfl <;> (revert h1; decide)
      · have := lowerhex_plain n hn
        rcases hc with rfl | rfl
        · exact this.1 h1.symm
        · exact this.2 h1.symm


theorem qb_plain_mem (isPrint : Nat → Bool) (c0 : UInt8) (hc : IsPlain c0) :
    ∀ (n : Nat) (s : Bytes), s.length ≤ n → c0 ∈ qb isPrint s → c0 ∈ s := by
  intro n
  induction n with
  | zero =>
    intro s hs h
    have : s = [] := by simpa using hs
    subst this
    simp [qb, quoteBody] at h
  | succ n ih =>
    intro s hs h
    match s, hs with
    | [], _ => simp [qb, quoteBody] at h
    | b0 :: t0, hs =>
      have ok := stepOK isPrint b0 t0
      have hw := ok.w_pos
      rw [qb_cons, List.mem_append] at h
      rcases h with h | h
      · rw [tok_plain isPrint c0 hc b0 t0 h]; simp
      · exact List.mem_of_mem_drop
          (ih _ (by simp only [List.length_drop, List.length_cons] at hs ⊢; omega) h)

/-- a `.` / `*` in the quoted text is a `.` / `*` of the input -/
theorem bquote_plain_mem (isPrint : Nat → Bool) (c0 : UInt8) (hc : IsPlain c0) (s : Bytes)
    (h : c0 ∈ bquote isPrint s) : c0 ∈ s := by
  rw [bquote_qb] at h
  apply qb_plain_mem isPrint c0 hc s.length s (Nat.le_refl _)
  apply Classical.byContradiction
  intro hn
  exact post_preserves_plain c0 hc _ hn h

theorem bquote_mem_plain (isPrint : Nat → Bool) (c0 : UInt8) (hc : IsPlain c0)
    (hp : isPrint c0.toNat = true) (s : Bytes) (h : c0 ∈ s) : c0 ∈ bquote isPrint s := by
  obtain ⟨x, y, rfl⟩ := List.append_of_mem h
  have hlt : c0.toNat < 0x80 := by rcases hc with rfl | rfl <;> decide
  rw [bquote_append_ascii isPrint x c0 y hlt, bquote_cons_plain isPrint c0 hc hp]
  simp

/-- a quoted text that begins with `.` / `*` quotes an input that does -/
theorem bquote_head_plain (isPrint : Nat → Bool) (c0 : UInt8) (hc : IsPlain c0) (s r : Bytes)
    (h : bquote isPrint s = c0 :: r) : ∃ t, s = c0 :: t := by
  match s with
  | [] => rw [bquote_nil] at h; cases h
  | b0 :: t0 =>
    have ok := stepOK isPrint b0 t0
    rw [bquote_qb, qb_cons, post_append_qb] at h
    have hne := post_ne_of_pre_ne _ ok.pre_ne
    match hp : post (quoteStep isPrint (b0 :: t0)).1, hne with
    | x :: xs, _ =>
      rw [hp] at h
      simp only [List.cons_append, List.cons.injEq] at h
      have hm : c0 ∈ post (quoteStep isPrint (b0 :: t0)).1 := by rw [hp, ← h.1]; simp
      have hm2 : c0 ∈ (quoteStep isPrint (b0 :: t0)).1 := by
        apply Classical.byContradiction
        intro hn
        exact post_preserves_plain c0 hc _ hn hm
      exact ⟨t0, by rw [tok_plain isPrint c0 hc b0 t0 hm2]⟩

/-! ### a quoted text is at most four times as long as the input -/

theorem replacePair_length_le (a b : UInt8) : ∀ s : Bytes, (replacePair a b [dquote] s).length ≤ s.length := by
  intro s
  induction s using replacePair.induct a b with
  | case1 => simp [replacePair]
  | case2 x => simp [replacePair]
  | case3 x y rest hxy ih =>
    simp only [replacePair, hxy, and_self, if_true, List.length_append, List.length_cons, List.length_nil]
    omega
  | case4 x y rest hxy ih =>
    simp only [replacePair, hxy, if_false, List.length_cons] at ih ⊢
    omega

/-- Go's `strconv.IsPrint` holds the ASCII characters `0x20 … 0x7e` printable -/
def PrintsAscii (isPrint : Nat → Bool) : Prop := ∀ r, 0x20 ≤ r → r < 0x7f → isPrint r = true

theorem ascii_tok_len : ∀ (b : Fin 128) (p : Bool), (0x20 ≤ b.val → b.val < 0x7f → p = true) →
    (post (escapedRune (fun _ => p) b.val)).length ≤ 4 := by
  decide +kernel

theorem escapedRune_high_len (isPrint : Nat → Bool) (r : Nat) (hr : 0x80 ≤ r) (hv : validRune r = true) :
    (escapedRune isPrint r).length = (encodeRune r).length ∨
    ((escapedRune isPrint r).length = 6 ∧ r < 0x10000) ∨
    ((escapedRune isPrint r).length = 10 ∧ (encodeRune r).length = 4) := by
  unfold escapedRune
  rw [if_neg (by omega)]
  by_cases hp : isPrint r = true
  · rw [if_pos hp]; exact Or.inl rfl
  · rw [if_neg hp, if_neg (by omega), if_neg (by omega), if_neg (by omega), if_neg (by omega),
      if_neg (by omega), if_neg (by omega), if_neg (by omega), if_neg (by omega)]
    simp only [hv, if_true]
    by_cases h16 : r < 0x10000
    · rw [if_pos h16]; exact Or.inr (Or.inl ⟨rfl, h16⟩)
    · rw [if_neg h16]
      refine Or.inr (Or.inr ⟨rfl, ?_⟩)
      unfold encodeRune
      rw [if_neg (by omega), if_neg (by omega), if_neg (by simp [hv]), if_neg h16]
      rfl

theorem post_tok_len (isPrint : Nat → Bool) (hpa : PrintsAscii isPrint) (b0 : UInt8) (t0 : Bytes) :
    (post (quoteStep isPrint (b0 :: t0)).1).length ≤ 4 * (quoteStep isPrint (b0 :: t0)).2 := by
  by_cases hlt : b0.toNat < 0x80
  · have hq : quoteStep isPrint (b0 :: t0) = (escapedRune (fun _ => isPrint b0.toNat) b0.toNat, 1) := by
      unfold quoteStep
      simp only [hlt, if_true]
      rw [if_neg (by simp [runeError]; omega), ← escapedRune_congr]
    rw [hq]
    exact ascii_tok_len ⟨b0.toNat, hlt⟩ (isPrint b0.toNat) (hpa b0.toNat)
  · have h0 : 0x80 ≤ b0.toNat := by omega
    have hb0 := b0.toNat_lt
    rcases decodeRune_cases b0 t0 h0 with hinv | hok
    · have hq : quoteStep isPrint (b0 :: t0)
          = ([bslash, 0x78, lowerhex (b0.toNat / 16), lowerhex (b0.toNat % 16)], 1) := by
        unfold quoteStep
        simp only [hlt, if_false, hinv]
        rw [if_pos (by simp)]
      obtain ⟨_, _, i3⟩ := invalid_tokens ⟨b0.toNat - 128, by omega⟩
      have e : 128 + (b0.toNat - 128) = b0.toNat := by omega
      simp only [e] at i3
      rw [hq, i3]
      simp
    · have hw := hok.w_ge
      have hwl := hok.w_le
      have hqs : quoteStep isPrint (b0 :: t0)
          = (escapedRune isPrint (decodeRune (b0 :: t0)).1, (decodeRune (b0 :: t0)).2) := by
        unfold quoteStep
        simp only [hlt, if_false]
        rw [if_neg (by omega)]
      rw [hqs]
      simp only []
      generalize (decodeRune (b0 :: t0)).1 = r at hok
      generalize (decodeRune (b0 :: t0)).2 = w at hok hw hwl
      have hmem := escapedRune_high isPrint r hok.r_ge hok.valid
      have h1 : (0x2c : UInt8) ∉ escapedRune isPrint r := by
        intro hm
        rcases hmem _ hm with h | h | h | h | ⟨n, hn, h⟩
        · simp at h
        · revert h; decide
        · revert h; decide
        · revert h; decide
        · exact (lowerhex_safe n hn).1 h.symm
      have h2 : (0x3a : UInt8) ∉ escapedRune isPrint r := by
        intro hm
        rcases hmem _ hm with h | h | h | h | ⟨n, hn, h⟩
        · simp at h
        · revert h; decide
        · revert h; decide
        · revert h; decide
        · exact (lowerhex_safe n hn).2.1 h.symm
      have hle : (post (escapedRune isPrint r)).length ≤ (escapedRune isPrint r).length := by
        unfold post
        rw [pre_id _ h1 h2]
        exact replacePair_length_le _ _ _
      have henc : (encodeRune r).length = w := by
        rw [hok.enc, List.length_take]; omega
      rcases escapedRune_high_len isPrint r hok.r_ge hok.valid with h | ⟨h, _⟩ | ⟨h, h4⟩
      · omega
      · omega
      · omega

theorem post_qb_len (isPrint : Nat → Bool) (hpa : PrintsAscii isPrint) : ∀ (n : Nat) (s : Bytes), s.length ≤ n →
    (post (qb isPrint s)).length ≤ 4 * s.length := by
  intro n
  induction n with
  | zero =>
    intro s hs
    have : s = [] := by simpa using hs
    subst this
    simp [qb, quoteBody, post, pre, replaceByte, replacePair]
  | succ n ih =>
    intro s hs
    match s, hs with
    | [], _ => simp [qb, quoteBody, post, pre, replaceByte, replacePair]
    | b0 :: t0, hs =>
      have ok := stepOK isPrint b0 t0
      have hw := ok.w_pos
      have hwl := ok.w_le
      rw [qb_cons, post_append_qb, List.length_append]
      have h1 := post_tok_len isPrint hpa b0 t0
      have h2 := ih ((b0 :: t0).drop (quoteStep isPrint (b0 :: t0)).2)
        (by simp only [List.length_drop, List.length_cons] at hs ⊢; omega)
      simp only [List.length_drop] at h2
      omega

/-- the quoted form of `n` bytes has at most `4 n` bytes -/
theorem bquote_length_le (isPrint : Nat → Bool) (hpa : PrintsAscii isPrint) (s : Bytes) :
    (bquote isPrint s).length ≤ 4 * s.length := by
  rw [bquote_qb]; exact post_qb_len isPrint hpa s.length s (Nat.le_refl _)

end DnsVerif.Quote
