/-
C16, byte level: the file image produced by `writeFile`, read back by `findLoop` / `findNext` /
`findAll`.  Layout lemmas (`At`), the reader's loop over an abstract table, and the glue with the
hash-table invariant of `Proofs/Cdb.lean`.
-/
import DnsVerif.Proofs.Cdb

namespace DnsVerif.Cdb

/-! ### little-endian numbers -/

theorem putNum_length (n : Nat) : (putNum n).length = 4 := rfl

theorem getNum_putNum {n : Nat} (h : n < u32) (rest : Bytes) : getNum (putNum n ++ rest) = n := by
  simp only [putNum, List.cons_append, List.nil_append, getNum, UInt8.toNat_ofNat']
  unfold u32 at h
  omega

/-! ### `At L p seg`: the bytes `seg` sit at offset `p` of `L` -/

def At (L : Bytes) (p : Nat) (seg : Bytes) : Prop :=
  ∃ pre post, L = pre ++ seg ++ post ∧ pre.length = p

theorem At.drop {L : Bytes} {p : Nat} {seg : Bytes} (h : At L p seg) :
    ∃ post, L.drop p = seg ++ post := by
  obtain ⟨pre, post, rfl, hp⟩ := h
  exact ⟨post, by rw [List.append_assoc, List.drop_left' hp]⟩

theorem At.le {L : Bytes} {p : Nat} {seg : Bytes} (h : At L p seg) :
    p + seg.length ≤ L.length := by
  obtain ⟨pre, post, rfl, hp⟩ := h
  simp only [List.length_append]; omega

theorem At.self (seg : Bytes) : At seg 0 seg := ⟨[], [], by simp, rfl⟩

theorem At.append_left {L : Bytes} {p : Nat} {seg : Bytes} (pre' : Bytes) (h : At L p seg) :
    At (pre' ++ L) (pre'.length + p) seg := by
  obtain ⟨pre, post, rfl, hp⟩ := h
  exact ⟨pre' ++ pre, post, by simp only [List.append_assoc], by
    simp only [List.length_append]; omega⟩

theorem At.append_right {L : Bytes} {p : Nat} {seg : Bytes} (post' : Bytes) (h : At L p seg) :
    At (L ++ post') p seg := by
  obtain ⟨pre, post, rfl, hp⟩ := h
  exact ⟨pre, post ++ post', by simp only [List.append_assoc], hp⟩

theorem At.sub {L : Bytes} {p q : Nat} {seg s : Bytes} (h : At L p seg) (h' : At seg q s) :
    At L (p + q) s := by
  obtain ⟨pre, post, rfl, hp⟩ := h
  obtain ⟨pre', post', rfl, hq⟩ := h'
  exact ⟨pre ++ pre', post' ++ post, by simp only [List.append_assoc], by
    simp only [List.length_append]; omega⟩

theorem At.fst {L : Bytes} {p : Nat} {a b : Bytes} (h : At L p (a ++ b)) : At L p a :=
  h.sub (q := 0) ⟨[], b, by simp, rfl⟩

theorem At.snd {L : Bytes} {p : Nat} {a b : Bytes} (h : At L p (a ++ b)) :
    At L (p + a.length) b :=
  h.sub ⟨a, [], by simp, rfl⟩

/-- pieces of constant length `c`: piece `i` sits at offset `c * i` -/
theorem At.flatMap {α : Type} (f : α → Bytes) (c : Nat) (hc : ∀ x, (f x).length = c) :
    ∀ (l : List α) (i : Nat) (x : α), l[i]? = some x → At (l.flatMap f) (c * i) (f x) := by
  intro l
  induction l with
  | nil => intro i x h; simp at h
  | cons a t ih =>
    intro i x h
    cases i with
    | zero =>
      simp only [List.getElem?_cons_zero, Option.some.injEq] at h
      subst h
      rw [List.flatMap_cons, Nat.mul_zero]
      exact (At.self _).append_right _
    | succ i =>
      simp only [List.getElem?_cons_succ] at h
      have := (ih i x h).append_left (f a)
      rw [hc a] at this
      rw [List.flatMap_cons, Nat.mul_succ, Nat.add_comm]
      exact this

/-! ### reading the file array -/

theorem getD_toArray_of_drop {L : Bytes} {p j : Nat} {seg : Bytes} (h : L.drop p = seg)
    : L.toArray.getD (p + j) 0 = seg[j]?.getD 0 := by
  rw [Array.getD_eq_getD_getElem?, List.getElem?_toArray, ← h, List.getElem?_drop]

theorem numAt_of_At {L : Bytes} {p n : Nat} (h : At L p (putNum n)) (hn : n < u32) :
    numAt L.toArray p = n := by
  obtain ⟨post, hd⟩ := h.drop
  have h0 := getD_toArray_of_drop (j := 0) hd
  have h1 := getD_toArray_of_drop (j := 1) hd
  have h2 := getD_toArray_of_drop (j := 2) hd
  have h3 := getD_toArray_of_drop (j := 3) hd
  rw [Nat.add_zero] at h0
  unfold numAt
  rw [h0, h1, h2, h3]
  have := getNum_putNum hn post
  simp only [putNum, List.cons_append, List.nil_append, getNum] at this ⊢
  simpa using this

theorem readNums_of_At {L : Bytes} {p x y : Nat} (h : At L p (putNum x ++ putNum y))
    (hx : x < u32) (hy : y < u32) : readNums L.toArray p = some (x, y) := by
  have hle := h.le
  simp only [List.length_append, putNum_length] at hle
  unfold readNums
  rw [if_pos (by simpa using hle), numAt_of_At h.fst hx]
  have := h.snd
  rw [putNum_length] at this
  rw [numAt_of_At this hy]

theorem slice_of_At {L : Bytes} {p : Nat} {seg : Bytes} (h : At L p seg) :
    slice L.toArray p seg.length = seg := by
  obtain ⟨post, hd⟩ := h.drop
  unfold slice
  rw [Array.toList_extract, List.extract_eq_take_drop]
  rw [hd, Nat.add_sub_cancel_left, List.take_left' rfl]

/-! ### layout of the records -/

def recLen (e : Entry) : Nat := 8 + e.key.length + e.val.length

def recsLen : List Entry → Nat
  | [] => 0
  | e :: es => recLen e + recsLen es

theorem recordBytes_length (e : Entry) : (recordBytes e).length = recLen e := by
  simp only [recordBytes, List.length_append, putNum_length, recLen]

theorem flatMap_recordBytes_length (es : List Entry) :
    (es.flatMap recordBytes).length = recsLen es := by
  induction es with
  | nil => rfl
  | cons e es ih =>
    rw [List.flatMap_cons, List.length_append, ih, recordBytes_length]; rfl

theorem positions_cons (pos : Nat) (e : Entry) (es : List Entry) :
    positions pos (e :: es) =
      (pos :: (positions ((pos + 8 + e.key.length + e.val.length) % u32) es).1,
        (positions ((pos + 8 + e.key.length + e.val.length) % u32) es).2) := rfl

/-- without 32-bit overflow every record sits at its recorded position; positions are distinct -/
theorem recs_spec : ∀ (es : List Entry) (pos : Nat), pos + recsLen es < u32 →
    (positions pos es).2 = pos + recsLen es ∧
    (positions pos es).1.length = es.length ∧
    (∀ ep ∈ es.zip (positions pos es).1,
      pos ≤ ep.2 ∧ At (es.flatMap recordBytes) (ep.2 - pos) (recordBytes ep.1)) ∧
    List.Pairwise (fun a b : Entry × Nat => a.2 ≠ b.2) (es.zip (positions pos es).1) := by
  intro es
  induction es with
  | nil =>
    intro pos _
    exact ⟨rfl, rfl, fun ep h => by simp at h, by simp⟩
  | cons e es ih =>
    intro pos h
    have hrl : recsLen (e :: es) = recLen e + recsLen es := rfl
    have hmod : (pos + 8 + e.key.length + e.val.length) % u32 = pos + recLen e := by
      rw [Nat.mod_eq_of_lt (by unfold recLen at hrl; omega)]; unfold recLen; omega
    obtain ⟨h1, h2, h3, h4⟩ := ih (pos + recLen e) (by omega)
    rw [positions_cons, hmod]
    refine ⟨by rw [h1, hrl]; omega, by simp only [List.length_cons, h2], ?_, ?_⟩
    · intro ep hep
      rw [List.zip_cons_cons, List.mem_cons] at hep
      rw [List.flatMap_cons]
      rcases hep with rfl | hep
      · refine ⟨Nat.le_refl _, ?_⟩
        rw [Nat.sub_self]
        exact (At.self _).append_right _
      · obtain ⟨hle, hat⟩ := h3 ep hep
        refine ⟨by omega, ?_⟩
        have := hat.append_left (recordBytes e)
        rw [recordBytes_length] at this
        rw [show ep.2 - pos = recLen e + (ep.2 - (pos + recLen e)) by omega]
        exact this
    · rw [List.zip_cons_cons, List.pairwise_cons]
      refine ⟨?_, h4⟩
      intro ep hep
      have := (h3 ep hep).1
      show pos ≠ ep.2
      unfold recLen at this; omega

/-! ### layout of the 256 tables -/

def tblOf (es : List Entry) (ps : List Nat) (t : Nat) : List Slot :=
  buildTable (bucketSlots es ps t)

def tblsLen (es : List Entry) (ps : List Nat) : Nat → Nat
  | 0 => 0
  | n + 1 => 8 * (tblOf es ps (255 - n)).length + tblsLen es ps n

theorem slotBytes_length (tbl : List Slot) : (slotBytes tbl).length = 8 * tbl.length := by
  induction tbl with
  | nil => rfl
  | cons s t ih =>
    simp only [slotBytes] at ih ⊢
    rw [List.flatMap_cons, List.length_append, ih]
    simp only [List.length_append, putNum_length, List.length_cons]; omega

theorem slotBytes_at {tbl : List Slot} {i : Nat} {s : Slot} (h : tbl[i]? = some s) :
    At (slotBytes tbl) (8 * i) (putNum s.1 ++ putNum s.2) :=
  At.flatMap (fun s : Slot => putNum s.1 ++ putNum s.2) 8 (fun _ => rfl) tbl i s h

theorem buildTable_nil : buildTable [] = [] := rfl

theorem tables_succ (es : List Entry) (ps : List Nat) (n pos : Nat) (hpos : pos < u32) :
    tables es ps (n + 1) pos =
      ((pos, (tblOf es ps (255 - n)).length) ::
          (tables es ps n ((pos + 8 * (tblOf es ps (255 - n)).length) % u32)).1,
        slotBytes (tblOf es ps (255 - n)) ++
          (tables es ps n ((pos + 8 * (tblOf es ps (255 - n)).length) % u32)).2) := by
  rw [tables]
  simp only
  split
  · rename_i hemp
    have : bucketSlots es ps (255 - n) = [] := List.isEmpty_iff.mp hemp
    simp only [tblOf, this, buildTable_nil, List.length_nil, Nat.mul_zero, Nat.add_zero,
      Nat.mod_eq_of_lt hpos, slotBytes, List.flatMap_nil, List.nil_append]
  · rfl

theorem tables_fst_length (es : List Entry) (ps : List Nat) :
    ∀ n pos, (tables es ps n pos).1.length = n := by
  intro n
  induction n with
  | zero => intro pos; rfl
  | succ n ih =>
    intro pos
    rw [tables]
    simp only
    split
    · simp only [List.length_cons, ih]
    · simp only [List.length_cons, ih]

theorem tables_snd_length (es : List Entry) (ps : List Nat) :
    ∀ n pos, (tables es ps n pos).2.length = tblsLen es ps n := by
  intro n
  induction n with
  | zero => intro pos; rfl
  | succ n ih =>
    intro pos
    rw [tables]
    simp only
    split
    · rename_i hemp
      have : bucketSlots es ps (255 - n) = [] := List.isEmpty_iff.mp hemp
      simp only [ih, tblsLen, tblOf, this, buildTable_nil, List.length_nil, Nat.mul_zero,
        Nat.zero_add]
    · simp only [List.length_append, slotBytes_length, ih, tblsLen, tblOf]

/-- without overflow, header entry `i` of the last `n` tables points at the bytes of its table -/
theorem tables_spec (es : List Entry) (ps : List Nat) : ∀ (n pos : Nat), n ≤ 256 →
    pos + tblsLen es ps n < u32 → ∀ i, i < n →
    ∃ off, (tables es ps n pos).1[i]? = some (pos + off, (tblOf es ps (256 - n + i)).length) ∧
      At (tables es ps n pos).2 off (slotBytes (tblOf es ps (256 - n + i))) := by
  intro n
  induction n with
  | zero => intro pos _ _ i hi; omega
  | succ n ih =>
    intro pos hn hsz i hi
    have hl : tblsLen es ps (n + 1) = 8 * (tblOf es ps (255 - n)).length + tblsLen es ps n := rfl
    rw [tables_succ es ps n pos (by omega), Nat.mod_eq_of_lt (by omega)]
    cases i with
    | zero =>
      refine ⟨0, ?_, ?_⟩
      · rw [show 256 - (n + 1) + 0 = 255 - n by omega]; rfl
      · rw [show 256 - (n + 1) + 0 = 255 - n by omega]
        exact (At.self _).append_right _
    | succ i =>
      obtain ⟨off, h1, h2⟩ := ih (pos + 8 * (tblOf es ps (255 - n)).length) (by omega) (by omega)
        i (by omega)
      refine ⟨8 * (tblOf es ps (255 - n)).length + off, ?_, ?_⟩
      · rw [show 256 - (n + 1) + (i + 1) = 256 - n + i by omega, List.getElem?_cons_succ, h1,
          Nat.add_assoc]
      · rw [show 256 - (n + 1) + (i + 1) = 256 - n + i by omega]
        have := h2.append_left (slotBytes (tblOf es ps (255 - n)))
        rw [slotBytes_length] at this
        exact this

/-! ### the file image -/

def psOf (es : List Entry) : List Nat := (positions headerSize es).1
def finOf (es : List Entry) : Nat := (positions headerSize es).2
def hdrBytes (hs : List (Nat × Nat)) : Bytes := hs.flatMap fun h => putNum h.1 ++ putNum h.2

theorem writeFile_eq (es : List Entry) : writeFile es =
    hdrBytes (tables es (psOf es) 256 (finOf es)).1 ++ es.flatMap recordBytes
      ++ (tables es (psOf es) 256 (finOf es)).2 := by
  unfold writeFile psOf finOf hdrBytes
  cases positions headerSize es with
  | mk ps fin =>
    simp only

theorem hdrBytes_length (hs : List (Nat × Nat)) : (hdrBytes hs).length = 8 * hs.length := by
  induction hs with
  | nil => rfl
  | cons s t ih =>
    simp only [hdrBytes] at ih ⊢
    rw [List.flatMap_cons, List.length_append, ih]
    simp only [List.length_append, putNum_length, List.length_cons]; omega

theorem hdrBytes_at {hs : List (Nat × Nat)} {i : Nat} {s : Nat × Nat} (h : hs[i]? = some s) :
    At (hdrBytes hs) (8 * i) (putNum s.1 ++ putNum s.2) :=
  At.flatMap (fun s : Nat × Nat => putNum s.1 ++ putNum s.2) 8 (fun _ => rfl) hs i s h

theorem writeFile_length (es : List Entry) :
    (writeFile es).length = 2048 + recsLen es + tblsLen es (psOf es) 256 := by
  rw [writeFile_eq, List.length_append, List.length_append, hdrBytes_length, tables_fst_length,
    tables_snd_length, flatMap_recordBytes_length]

/-- every record is in the file at its recorded position -/
theorem file_record {es : List Entry} (hsz : (writeFile es).length < u32) :
    (psOf es).length = es.length ∧
    (∀ ep ∈ es.zip (psOf es), 2048 ≤ ep.2 ∧ At (writeFile es) ep.2 (recordBytes ep.1)) ∧
    List.Pairwise (fun a b : Entry × Nat => a.2 ≠ b.2) (es.zip (psOf es)) := by
  rw [writeFile_length] at hsz
  obtain ⟨_, h2, h3, h4⟩ := recs_spec es headerSize (by unfold headerSize; omega)
  refine ⟨h2, ?_, h4⟩
  intro ep hep
  obtain ⟨hle, hat⟩ := h3 ep hep
  have hle' : 2048 ≤ ep.2 := hle
  refine ⟨hle', ?_⟩
  rw [writeFile_eq]
  have := (hat.append_left (hdrBytes (tables es (psOf es) 256 (finOf es)).1)).append_right
    (tables es (psOf es) 256 (finOf es)).2
  rw [hdrBytes_length, tables_fst_length] at this
  rw [show ep.2 = 8 * 256 + (ep.2 - headerSize) by unfold headerSize; omega]
  exact this

/-- header entry `t` holds the position and the length of table `t`, whose bytes are there -/
theorem file_table {es : List Entry} (hsz : (writeFile es).length < u32) {t : Nat} (ht : t < 256) :
    ∃ hpos, At (writeFile es) (8 * t)
        (putNum hpos ++ putNum (tblOf es (psOf es) t).length) ∧
      At (writeFile es) hpos (slotBytes (tblOf es (psOf es) t)) := by
  have hlen := writeFile_length es
  obtain ⟨hfin, _, _, _⟩ := recs_spec es headerSize (by unfold headerSize; omega)
  have hfin' : finOf es = 2048 + recsLen es := hfin
  obtain ⟨off, h1, h2⟩ := tables_spec es (psOf es) 256 (finOf es) (Nat.le_refl _) (by omega) t ht
  rw [show 256 - 256 + t = t by omega] at h1 h2
  refine ⟨finOf es + off, ?_, ?_⟩
  · rw [writeFile_eq]
    exact ((hdrBytes_at h1).append_right _).append_right _
  · rw [writeFile_eq]
    have := h2.append_left
      (hdrBytes (tables es (psOf es) 256 (finOf es)).1 ++ es.flatMap recordBytes)
    rw [List.length_append, hdrBytes_length, tables_fst_length, flatMap_recordBytes_length,
      ← hfin'] at this
    exact this

/-! ### the reader over one table laid out in a file -/

/-- the reader's context after `l` slots of the table at `hpos` have been looked at -/
abbrev ctxAt (hash hpos N l : Nat) : Ctx :=
  { loop := l, khash := hash, kpos := hpos + 8 * cidx N (startOf N hash) l, hpos := hpos,
    hslots := N }

/-- table `tbl` is at `hpos` in `L`, and every occupied slot points at a record -/
structure TableIn (L : Bytes) (hpos : Nat) (tbl : List Slot) (recOf : Nat → Entry) : Prop where
  small : L.length < u32
  tat : At L hpos (slotBytes tbl)
  hlt : ∀ s ∈ tbl, s.1 < u32
  recAt : ∀ s ∈ tbl, s.2 ≠ 0 → At L s.2 (recordBytes (recOf s.2))

theorem readSlot {L : Bytes} {hpos : Nat} {tbl : List Slot} {recOf : Nat → Entry}
    (T : TableIn L hpos tbl recOf) {i : Nat} (hi : i < tbl.length) :
    readNums L.toArray (hpos + 8 * i) = some (slotAt tbl i) := by
  have hm := slotAt_mem hi
  have hat := T.tat.sub (slotBytes_at (getElem?_slotAt hi))
  have h2 : (slotAt tbl i).2 < u32 := by
    by_cases h0 : (slotAt tbl i).2 = 0
    · rw [h0]; decide
    · have := (T.recAt _ hm h0).le
      have := T.small
      omega
  exact readNums_of_At hat (T.hlt _ hm) h2

theorem readRec {L : Bytes} {pos : Nat} {e : Entry} (hs : L.length < u32)
    (h : At L pos (recordBytes e)) :
    readNums L.toArray pos = some (e.key.length, e.val.length) ∧
      At L (pos + 8) e.key ∧ At L (pos + 8 + e.key.length) e.val := by
  have hle := h.le
  rw [recordBytes_length] at hle
  unfold recLen at hle
  unfold recordBytes at h
  rw [Nat.mod_eq_of_lt (by omega), Nat.mod_eq_of_lt (by omega)] at h
  refine ⟨readNums_of_At h.fst.fst (by omega) (by omega), ?_, ?_⟩
  · exact h.fst.snd
  · have := h.snd
    simp only [List.length_append, putNum_length] at this
    rw [show pos + 8 + e.key.length = pos + (4 + 4 + e.key.length) by omega]
    exact this

theorem findLoop_step {L : Bytes} {hpos : Nat} {tbl : List Slot} {recOf : Nat → Entry}
    (T : TableIn L hpos tbl recOf) {key : Bytes} (hk : key.length < u32) (hash : Nat) {l : Nat}
    (hl : l < tbl.length) (fuel : Nat) :
    findLoop L.toArray key (fuel + 1) (ctxAt hash hpos tbl.length l) =
      if (slotAt tbl (cidx tbl.length (startOf tbl.length hash) l)).2 = 0 then .eof
      else if (slotAt tbl (cidx tbl.length (startOf tbl.length hash) l)).1 = hash ∧
          (recOf (slotAt tbl (cidx tbl.length (startOf tbl.length hash) l)).2).key = key then
        .ok ((recOf (slotAt tbl (cidx tbl.length (startOf tbl.length hash) l)).2).val,
          ctxAt hash hpos tbl.length (l + 1))
      else findLoop L.toArray key fuel (ctxAt hash hpos tbl.length (l + 1)) := by
  have hp0 := startOf_lt hash (show 0 < tbl.length by omega)
  have hi := cidx_lt hp0 (Nat.le_of_lt hl)
  rw [findLoop.eq_2, if_pos (show (ctxAt hash hpos tbl.length l).loop
    < (ctxAt hash hpos tbl.length l).hslots from hl)]
  simp only [ctxAt]
  rw [← nxt_cidx hp0 hl]
  generalize cidx tbl.length (startOf tbl.length hash) l = i at *
  have hsmall := T.small
  have hkp : (if (hpos + 8 * i + 8) % u32 = (hpos + tbl.length * 8) % u32 then hpos
      else (hpos + 8 * i + 8) % u32) = hpos + 8 * nxt tbl.length i := by
    have := T.tat.le
    rw [slotBytes_length] at this
    rw [Nat.mod_eq_of_lt (by omega), Nat.mod_eq_of_lt (by omega)]
    unfold nxt
    split <;> split <;> omega
  rw [hkp, readSlot T hi]
  have hm := slotAt_mem hi
  have hrec := T.recAt _ hm
  generalize slotAt tbl i = s at *
  obtain ⟨sh, sp⟩ := s
  simp only
  by_cases h0 : sp = 0
  · rw [if_pos h0, if_pos h0]
  · rw [if_neg h0, if_neg h0]
    by_cases hh : sh = hash
    · rw [if_pos hh]
      have hat := hrec h0
      obtain ⟨r1, r2, r3⟩ := readRec hsmall hat
      have hle := hat.le
      rw [recordBytes_length] at hle
      unfold recLen at hle
      simp only at r1 r2 r3 hle
      rw [r1]
      simp only
      rw [Nat.mod_eq_of_lt hk, Nat.mod_eq_of_lt (show sp + 8 < u32 by omega)]
      by_cases hkl : (recOf sp).key.length = key.length
      · rw [if_pos hkl, if_pos (by rw [List.size_toArray]; omega)]
        have hsl := slice_of_At r2
        rw [hkl] at hsl
        rw [hsl]
        by_cases hke : (recOf sp).key = key
        · rw [if_pos hke, if_pos (show sh = hash ∧ (recOf sp).key = key from ⟨hh, hke⟩), ← hkl,
            Nat.mod_eq_of_lt (by omega),
            if_pos (by rw [List.size_toArray]; omega), slice_of_At r3]
        · rw [if_neg hke, if_neg (fun h => hke h.2)]
      · rw [if_neg hkl, if_neg (fun h => hkl (by rw [h.2]))]
    · rw [if_neg hh, if_neg (fun h => hh h.1)]

/-- The caller's loop `FindStart; for { FindNext }`: from context `c` the successive `findNext`
calls return exactly the values `vs`, one by one, and then EOF. -/
inductive Iter (F : File) (key : Bytes) (hash : Nat) : Ctx → List Bytes → Prop
  | eof {c : Ctx} : findNext F key hash c = .eof → Iter F key hash c []
  | next {c c' : Ctx} {v : Bytes} {vs : List Bytes} : findNext F key hash c = .ok (v, c') →
      Iter F key hash c' vs → Iter F key hash c (v :: vs)

/-! ### iterating `findNext` along the probe path -/

section Scan
variable (key : Bytes) (hash hpos : Nat) (tbl : List Slot) (recOf : Nat → Entry)

/-- the slot at cyclic distance `l` from the start slot of `hash` -/
abbrev slotOn (l : Nat) : Slot := slotAt tbl (cidx tbl.length (startOf tbl.length hash) l)

/-- slot `l` of the path carries the hash, and its record carries the key -/
abbrev isHit (l : Nat) : Prop :=
  (slotOn hash tbl l).1 = hash ∧ (recOf (slotOn hash tbl l).2).key = key

/-- one `findNext`: the first hit among the `k` path slots from `l` on -/
def nextHit : Nat → Nat → Res (Bytes × Ctx)
  | _, 0 => .eof
  | l, k + 1 =>
    if isHit key hash tbl recOf l then
      .ok ((recOf (slotOn hash tbl l).2).val, ctxAt hash hpos tbl.length (l + 1))
    else nextHit (l + 1) k

/-- all hits among the `k` path slots from `l` on -/
def scan : Nat → Nat → List Bytes
  | _, 0 => []
  | l, k + 1 =>
    (if isHit key hash tbl recOf l then [(recOf (slotOn hash tbl l).2).val] else [])
      ++ scan (l + 1) k

theorem scan_length_le : ∀ k l, (scan key hash tbl recOf l k).length ≤ k := by
  intro k
  induction k with
  | zero => intro l; simp [scan]
  | succ k ih =>
    intro l
    have := ih (l + 1)
    simp only [scan, List.length_append]
    split <;> simp only [List.length_cons, List.length_nil] <;> omega

theorem scan_eq_pathVals : ∀ k l, scan key hash tbl recOf l k =
    ((pathVals tbl hash tbl.length (startOf tbl.length hash) l k).filter
      (fun p => (recOf p).key = key)).map (fun p => (recOf p).val) := by
  intro k
  induction k with
  | zero => intro l; rfl
  | succ k ih =>
    intro l
    simp only [scan, pathVals, List.filter_append, List.map_append, ih (l + 1)]
    congr 1
    by_cases h1 : (slotAt tbl (cidx tbl.length (startOf tbl.length hash) l)).1 = hash
    · by_cases h2 : (recOf (slotAt tbl (cidx tbl.length (startOf tbl.length hash) l)).2).key = key
      · rw [if_pos (show isHit key hash tbl recOf l from ⟨h1, h2⟩), if_pos h1]; simp [h2]
      · rw [if_neg (show ¬ isHit key hash tbl recOf l from fun h => h2 h.2), if_pos h1]; simp [h2]
    · rw [if_neg (show ¬ isHit key hash tbl recOf l from fun h => h1 h.1), if_neg h1]; rfl

end Scan

section Reader
variable {L : Bytes} {hpos : Nat} {tbl : List Slot} {recOf : Nat → Entry}
  (T : TableIn L hpos tbl recOf) {key : Bytes} (hk : key.length < u32) (hash : Nat) {de : Nat}
  (hde : de < tbl.length)
  (hfree : ¬ Occ tbl (cidx tbl.length (startOf tbl.length hash) de))
  (hocc : ∀ d, d < de → Occ tbl (cidx tbl.length (startOf tbl.length hash) d))
include T hk hde hfree hocc

theorem findLoop_eq_nextHit : ∀ (k l fuel : Nat), l + k = de → k < fuel →
    findLoop L.toArray key fuel (ctxAt hash hpos tbl.length l)
      = nextHit key hash hpos tbl recOf l k := by
  intro k
  induction k with
  | zero =>
    intro l fuel hlk hf
    obtain ⟨f, rfl⟩ : ∃ f, fuel = f + 1 := ⟨fuel - 1, by omega⟩
    have hl : l = de := by omega
    subst hl
    rw [findLoop_step T hk hash hde f, if_pos (by simpa [Occ] using hfree)]
    rfl
  | succ k ih =>
    intro l fuel hlk hf
    obtain ⟨f, rfl⟩ : ∃ f, fuel = f + 1 := ⟨fuel - 1, by omega⟩
    have hl : l < tbl.length := by omega
    have ho : (slotAt tbl (cidx tbl.length (startOf tbl.length hash) l)).2 ≠ 0 := hocc l (by omega)
    rw [findLoop_step T hk hash hl f, if_neg ho, ih (l + 1) f (by omega) (by omega)]
    rfl

theorem findNext_ctxAt {l : Nat} (hl0 : l ≠ 0) (hl : l ≤ de) :
    findNext L.toArray key hash (ctxAt hash hpos tbl.length l)
      = nextHit key hash hpos tbl recOf l (de - l) := by
  unfold findNext
  rw [if_neg (show ¬ (ctxAt hash hpos tbl.length l).loop = 0 from hl0)]
  exact findLoop_eq_nextHit T hk hash hde hfree hocc (de - l) l _ (by omega)
    (by show de - l < tbl.length + 1; omega)

theorem findNext_start (hhdr : readNums L.toArray ((hash * 8) % 2048) = some (hpos, tbl.length)) :
    findNext L.toArray key hash {} = nextHit key hash hpos tbl recOf 0 de := by
  unfold findNext
  rw [if_pos rfl, hhdr]
  simp only
  rw [if_neg (by omega)]
  have hp0 := startOf_lt hash (show 0 < tbl.length by omega)
  have hle := T.tat.le
  rw [slotBytes_length] at hle
  have hsmall := T.small
  have hkp : (hpos + hash / 256 % tbl.length * 8) % u32
      = hpos + 8 * cidx tbl.length (startOf tbl.length hash) 0 := by
    rw [cidx_zero hp0]
    unfold startOf at hp0 ⊢
    rw [Nat.mod_eq_of_lt (by omega)]; omega
  rw [hkp]
  exact findLoop_eq_nextHit T hk hash hde hfree hocc de 0 _ (by omega) (by omega)

theorem findAll_go_scan : ∀ (k l g : Nat) (acc : List Bytes) (c : Ctx), l + k = de →
    findNext L.toArray key hash c = nextHit key hash hpos tbl recOf l k →
    (scan key hash tbl recOf l k).length < g →
    findAll.go L.toArray key hash g c acc
      = .ok (acc.reverse ++ scan key hash tbl recOf l k) := by
  intro k
  induction k with
  | zero =>
    intro l g acc c _ hc hg
    obtain ⟨g, rfl⟩ : ∃ g', g = g' + 1 := ⟨g - 1, by omega⟩
    rw [findAll.go, hc]
    simp [nextHit, scan]
  | succ k ih =>
    intro l g acc c hlk hc hg
    by_cases hit : isHit key hash tbl recOf l
    · have hs : scan key hash tbl recOf l (k + 1)
          = (recOf (slotOn hash tbl l).2).val :: scan key hash tbl recOf (l + 1) k := by
        simp only [scan]; rw [if_pos hit]; rfl
      rw [hs] at hg ⊢
      simp only [List.length_cons] at hg
      obtain ⟨g, rfl⟩ : ∃ g', g = g' + 1 := ⟨g - 1, by omega⟩
      have hn : nextHit key hash hpos tbl recOf l (k + 1)
          = .ok ((recOf (slotOn hash tbl l).2).val, ctxAt hash hpos tbl.length (l + 1)) := by
        simp only [nextHit]; rw [if_pos hit]
      rw [findAll.go, hc, hn]
      simp only
      have hnext := findNext_ctxAt T hk hash hde hfree hocc (l := l + 1) (by omega) (by omega)
      rw [show de - (l + 1) = k by omega] at hnext
      rw [ih (l + 1) g _ _ (by omega) hnext (by omega)]
      simp
    · have hs : scan key hash tbl recOf l (k + 1) = scan key hash tbl recOf (l + 1) k := by
        simp only [scan]; rw [if_neg hit]; rfl
      have hn : nextHit key hash hpos tbl recOf l (k + 1)
          = nextHit key hash hpos tbl recOf (l + 1) k := by
        simp only [nextHit]; rw [if_neg hit]
      rw [hs] at hg ⊢
      rw [hn] at hc
      exact ih (l + 1) g acc c (by omega) hc hg

theorem iter_scan : ∀ (k l : Nat) (c : Ctx), l + k = de →
    findNext L.toArray key hash c = nextHit key hash hpos tbl recOf l k →
    Iter L.toArray key hash c (scan key hash tbl recOf l k) := by
  intro k
  induction k with
  | zero =>
    intro l c _ hc
    exact Iter.eof hc
  | succ k ih =>
    intro l c hlk hc
    by_cases hit : isHit key hash tbl recOf l
    · have hs : scan key hash tbl recOf l (k + 1)
          = (recOf (slotOn hash tbl l).2).val :: scan key hash tbl recOf (l + 1) k := by
        simp only [scan]; rw [if_pos hit]; rfl
      have hn : nextHit key hash hpos tbl recOf l (k + 1)
          = .ok ((recOf (slotOn hash tbl l).2).val, ctxAt hash hpos tbl.length (l + 1)) := by
        simp only [nextHit]; rw [if_pos hit]
      have hnext := findNext_ctxAt T hk hash hde hfree hocc (l := l + 1) (by omega) (by omega)
      rw [show de - (l + 1) = k by omega] at hnext
      rw [hs]
      exact Iter.next (hc.trans hn) (ih (l + 1) _ (by omega) hnext)
    · have hs : scan key hash tbl recOf l (k + 1) = scan key hash tbl recOf (l + 1) k := by
        simp only [scan]; rw [if_neg hit]; rfl
      have hn : nextHit key hash hpos tbl recOf l (k + 1)
          = nextHit key hash hpos tbl recOf (l + 1) k := by
        simp only [nextHit]; rw [if_neg hit]
      rw [hs]
      exact ih (l + 1) c (by omega) (hc.trans hn)

theorem iter_path (hhdr : readNums L.toArray ((hash * 8) % 2048) = some (hpos, tbl.length)) :
    Iter L.toArray key hash {} (scan key hash tbl recOf 0 de) :=
  iter_scan T hk hash hde hfree hocc de 0 {} (by omega)
    (findNext_start T hk hash hde hfree hocc hhdr)

/-- **The reader over one table**: `findAll` returns the data of the records on the probe path of
`hash` whose slot hash is `hash` and whose stored key is `key`, in probe order. -/
theorem findAll_path (hhdr : readNums L.toArray ((hash * 8) % 2048) = some (hpos, tbl.length)) :
    findAll L.toArray key hash = .ok (scan key hash tbl recOf 0 de) := by
  unfold findAll
  have hle := T.tat.le
  rw [slotBytes_length] at hle
  have hsl := scan_length_le key hash tbl recOf de 0
  have := findAll_go_scan T hk hash hde hfree hocc de 0 (L.toArray.size / 8 + 2) [] {}
    (by omega) (findNext_start T hk hash hde hfree hocc hhdr)
    (by rw [List.size_toArray]; omega)
  simpa using this

end Reader

/-- the reader over one table, in terms of the abstract probe `probeAll` -/
theorem findAll_table {L : Bytes} {hpos : Nat} {tbl : List Slot} {recOf : Nat → Entry}
    (T : TableIn L hpos tbl recOf) {key : Bytes} (hk : key.length < u32) (hash : Nat)
    (hfree : ∃ i, i < tbl.length ∧ ¬ Occ tbl i)
    (hhdr : readNums L.toArray ((hash * 8) % 2048) = some (hpos, tbl.length)) :
    findAll L.toArray key hash = .ok (((probeAll tbl hash).filter
      (fun p => (recOf p).key = key)).map (fun p => (recOf p).val)) := by
  have hN : 0 < tbl.length := by
    obtain ⟨i0, hi0, _⟩ := hfree
    omega
  obtain ⟨de, hde, hfe, hoe⟩ := exists_first_free (startOf_lt hash hN) hfree
  rw [findAll_path T hk hash hde hfe hoe hhdr, scan_eq_pathVals,
    probeAll_eq_pathVals hN hde hfe hoe]

/-- an empty bucket: the header says 0 slots, the reader answers EOF at once -/
theorem findAll_empty {F : File} {key : Bytes} {hash hpos : Nat}
    (hhdr : readNums F ((hash * 8) % 2048) = some (hpos, 0)) :
    findAll F key hash = .ok [] := by
  unfold findAll
  rw [findAll.go]
  unfold findNext
  rw [if_pos rfl, hhdr]
  simp

theorem iter_table {L : Bytes} {hpos : Nat} {tbl : List Slot} {recOf : Nat → Entry}
    (T : TableIn L hpos tbl recOf) {key : Bytes} (hk : key.length < u32) (hash : Nat)
    (hfree : ∃ i, i < tbl.length ∧ ¬ Occ tbl i)
    (hhdr : readNums L.toArray ((hash * 8) % 2048) = some (hpos, tbl.length)) :
    Iter L.toArray key hash {} (((probeAll tbl hash).filter
      (fun p => (recOf p).key = key)).map (fun p => (recOf p).val)) := by
  have hN : 0 < tbl.length := by
    obtain ⟨i0, hi0, _⟩ := hfree
    omega
  obtain ⟨de, hde, hfe, hoe⟩ := exists_first_free (startOf_lt hash hN) hfree
  rw [probeAll_eq_pathVals hN hde hfe hoe, ← scan_eq_pathVals]
  exact iter_path T hk hash hde hfe hoe hhdr

theorem iter_empty {F : File} {key : Bytes} {hash hpos : Nat}
    (hhdr : readNums F ((hash * 8) % 2048) = some (hpos, 0)) :
    Iter F key hash {} [] := by
  apply Iter.eof
  unfold findNext
  rw [if_pos rfl, hhdr]
  rfl

/-! ### what a built table contains -/

theorem probeInsert_go_mem (tbl : List Slot) (s : Slot) (n : Nat) {x : Slot} :
    ∀ (fuel p : Nat), x ∈ probeInsert.go tbl s n fuel p → x ∈ tbl ∨ x = s := by
  intro fuel
  induction fuel with
  | zero => intro p h; rw [probeInsert.go.eq_1] at h; exact Or.inl h
  | succ f ih =>
    intro p h
    rw [probeInsert.go.eq_2] at h
    split at h
    · exact Or.inl h
    · split at h
      · exact ih _ h
      · exact List.mem_or_eq_of_mem_set h

theorem probeInsert_mem {tbl : List Slot} {s x : Slot} (h : x ∈ probeInsert tbl s) :
    x ∈ tbl ∨ x = s := by
  unfold probeInsert at h
  simp only at h
  split at h
  · exact Or.inl h
  · exact probeInsert_go_mem tbl s _ _ _ h

theorem foldl_probeInsert_mem {x : Slot} : ∀ (slots tbl : List Slot),
    x ∈ slots.foldl probeInsert tbl → x ∈ tbl ∨ x ∈ slots := by
  intro slots
  induction slots with
  | nil => intro tbl h; exact Or.inl h
  | cons s r ih =>
    intro tbl h
    rw [List.foldl_cons] at h
    rcases ih _ h with h | h
    · rcases probeInsert_mem h with h | h
      · exact Or.inl h
      · exact Or.inr (by rw [h]; exact List.mem_cons_self)
    · exact Or.inr (List.mem_cons_of_mem _ h)

theorem mem_buildTable {slots : List Slot} {x : Slot} (h : x ∈ buildTable slots) :
    x = (0, 0) ∨ x ∈ slots := by
  unfold buildTable at h
  rcases foldl_probeInsert_mem _ _ h with h | h
  · exact Or.inl (List.eq_of_mem_replicate h)
  · exact Or.inr h

/-! ### from record positions back to entries -/

/-- the entry recorded at position `p` -/
def entAt : List (Entry × Nat) → Nat → Entry
  | [], _ => ⟨[], [], 0⟩
  | ep :: t, p => if ep.2 = p then ep.1 else entAt t p

theorem entAt_of_mem : ∀ (eps : List (Entry × Nat)),
    List.Pairwise (fun a b : Entry × Nat => a.2 ≠ b.2) eps →
    ∀ ep ∈ eps, entAt eps ep.2 = ep.1 := by
  intro eps
  induction eps with
  | nil => intro _ ep h; simp at h
  | cons a t ih =>
    intro hp ep hep
    rw [List.pairwise_cons] at hp
    rw [entAt]
    rcases List.mem_cons.mp hep with rfl | hmem
    · rw [if_pos rfl]
    · rw [if_neg (hp.1 ep hmem)]
      exact ih hp.2 ep hmem

/-- the chain of filters the reader applies, on a list of (entry, position) pairs -/
theorem filters_glue (recOf : Nat → Entry) (key : Bytes) (hash : Nat) :
    ∀ (l : List (Entry × Nat)), (∀ ep ∈ l, recOf ep.2 = ep.1) →
    (∀ ep ∈ l, ep.1.key = key → ep.1.h = hash) →
    ((((((l.filter fun ep => ep.1.h % 256 = hash % 256).map fun ep => (ep.1.h, ep.2)).filter
        (fun s : Slot => s.1 = hash)).map (·.2)).filter
        (fun p => (recOf p).key = key)).map (fun p => (recOf p).val))
      = ((l.map (·.1)).filter (·.key = key)).map (·.val) := by
  intro l
  induction l with
  | nil => intro _ _; rfl
  | cons ep l ih =>
    intro hrec hkey
    have ih' := ih (fun x hx => hrec x (List.mem_cons_of_mem _ hx))
      (fun x hx => hkey x (List.mem_cons_of_mem _ hx))
    have hr := hrec ep List.mem_cons_self
    by_cases hk : ep.1.key = key
    · have hh := hkey ep List.mem_cons_self hk
      simp only [List.filter_cons, List.map_cons, hh, hk, hr, decide_true, if_true, ih']
    · by_cases h1 : ep.1.h % 256 = hash % 256
      · by_cases h2 : ep.1.h = hash
        · simp [h2, hk, hr, ih']
        · simp [h1, h2, hk, ih']
      · simp [h1, hk, ih']

/-! ### end to end -/

/-- the table of `hash`'s bucket as the reader sees it in the written file -/
theorem file_setup (es : List Entry) (key : Bytes) (hash : Nat)
    (hsz : (writeFile es).length < u32) (hh : ∀ e ∈ es, e.h < u32)
    (hkey : ∀ e ∈ es, e.key = key → e.h = hash) :
    ∃ (hpos : Nat) (slots : List Slot) (recOf : Nat → Entry),
      TableIn (writeFile es) hpos (buildTable slots) recOf ∧
      readNums (writeFile es).toArray ((hash * 8) % 2048)
        = some (hpos, (buildTable slots).length) ∧
      ((probeAll (buildTable slots) hash).filter
        (fun p => (recOf p).key = key)).map (fun p => (recOf p).val)
        = (es.filter (·.key = key)).map (·.val) ∧
      (slots ≠ [] → ∃ i, i < (buildTable slots).length ∧ ¬ Occ (buildTable slots) i) := by
  have ht : hash % 256 < 256 := Nat.mod_lt _ (by decide)
  obtain ⟨hlen, hrecs, hpw⟩ := file_record hsz
  obtain ⟨hpos, hhd, htat⟩ := file_table hsz ht
  generalize heps : es.zip (psOf es) = eps at hrecs hpw
  generalize hslots : bucketSlots es (psOf es) (hash % 256) = slots at *
  have htbl : tblOf es (psOf es) (hash % 256) = buildTable slots := by rw [tblOf, hslots]
  rw [htbl] at hhd htat
  have hslot : ∀ s ∈ slots, ∃ ep ∈ eps, s = (ep.1.h, ep.2) := by
    intro s hs
    rw [← hslots, bucketSlots, heps, List.mem_map] at hs
    obtain ⟨ep, hep, rfl⟩ := hs
    exact ⟨ep, (List.mem_filter.mp hep).1, rfl⟩
  have hmemes : ∀ ep ∈ eps, ep.1 ∈ es := by
    intro ep hep
    rw [← heps] at hep
    exact (List.of_mem_zip (a := ep.1) (b := ep.2) hep).1
  have hposnz : ∀ s ∈ slots, s.2 ≠ 0 := by
    intro s hs
    obtain ⟨ep, hep, rfl⟩ := hslot s hs
    have := (hrecs ep hep).1
    show ep.2 ≠ 0
    omega
  have hinv := tblInv_buildTable slots hposnz
  have T : TableIn (writeFile es) hpos (buildTable slots) (entAt eps) :=
    { small := hsz
      tat := htat
      hlt := by
        intro s hs
        rcases mem_buildTable hs with rfl | hs
        · decide
        · obtain ⟨ep, hep, rfl⟩ := hslot s hs
          exact hh _ (hmemes ep hep)
      recAt := by
        intro s hs h0
        rcases mem_buildTable hs with rfl | hs
        · exact absurd rfl h0
        · obtain ⟨ep, hep, rfl⟩ := hslot s hs
          show At _ ep.2 (recordBytes (entAt eps ep.2))
          rw [entAt_of_mem eps hpw ep hep]
          exact (hrecs ep hep).2 }
  have hle := htat.le
  rw [slotBytes_length] at hle
  have hhdr : readNums (writeFile es).toArray ((hash * 8) % 2048)
      = some (hpos, (buildTable slots).length) := by
    rw [show hash * 8 % 2048 = 8 * (hash % 256) by omega]
    exact readNums_of_At hhd (by omega) (by omega)
  have hfinal : ((probeAll (buildTable slots) hash).filter
      (fun p => (entAt eps p).key = key)).map (fun p => (entAt eps p).val)
      = (es.filter (·.key = key)).map (·.val) := by
    rw [hinv.reads hash, ← hslots, bucketSlots, heps,
      filters_glue (entAt eps) key hash eps (entAt_of_mem eps hpw)
        (fun ep hep => hkey ep.1 (hmemes ep hep)),
      ← heps, List.map_fst_zip (by omega)]
  refine ⟨hpos, slots, entAt eps, T, hhdr, hfinal, ?_⟩
  intro hemp
  have hpos' : 0 < slots.length := List.length_pos_iff.mpr hemp
  have hfr := hinv.free
  exact exists_free_of_filter (by omega)

theorem find_written_core (es : List Entry) (key : Bytes) (hash : Nat)
    (hsz : (writeFile es).length < u32) (hh : ∀ e ∈ es, e.h < u32) (hk : key.length < u32)
    (hkey : ∀ e ∈ es, e.key = key → e.h = hash) :
    findAll (writeFile es).toArray key hash = .ok ((es.filter (·.key = key)).map (·.val)) := by
  obtain ⟨hpos, slots, recOf, T, hhdr, hfinal, hfree⟩ := file_setup es key hash hsz hh hkey
  rw [← hfinal]
  by_cases hemp : slots = []
  · subst hemp
    rw [buildTable_nil] at hhdr ⊢
    rw [findAll_empty hhdr]
    rfl
  · exact findAll_table T hk hash (hfree hemp) hhdr

theorem iter_written_core (es : List Entry) (key : Bytes) (hash : Nat)
    (hsz : (writeFile es).length < u32) (hh : ∀ e ∈ es, e.h < u32) (hk : key.length < u32)
    (hkey : ∀ e ∈ es, e.key = key → e.h = hash) :
    Iter (writeFile es).toArray key hash {} ((es.filter (·.key = key)).map (·.val)) := by
  obtain ⟨hpos, slots, recOf, T, hhdr, hfinal, hfree⟩ := file_setup es key hash hsz hh hkey
  rw [← hfinal]
  by_cases hemp : slots = []
  · subst hemp
    rw [buildTable_nil] at hhdr ⊢
    exact iter_empty hhdr
  · exact iter_table T hk hash (hfree hemp) hhdr

/-! ### the size of the file, in closed form (no hypothesis: lengths do not depend on the
32-bit position arithmetic) -/

/-- 2048 header bytes, `8 + klen + dlen` per record, two 8-byte slots per record -/
def fileSize (es : List Entry) : Nat :=
  2048 + (es.map fun e => 24 + e.key.length + e.val.length).sum

theorem positions_length : ∀ (es : List Entry) (pos : Nat),
    (positions pos es).1.length = es.length := by
  intro es
  induction es with
  | nil => intro pos; rfl
  | cons e es ih => intro pos; rw [positions_cons]; simp only [List.length_cons, ih]

theorem probeInsert_go_length (tbl : List Slot) (s : Slot) (n : Nat) :
    ∀ (fuel p : Nat), (probeInsert.go tbl s n fuel p).length = tbl.length := by
  intro fuel
  induction fuel with
  | zero => intro p; rw [probeInsert.go.eq_1]
  | succ f ih =>
    intro p
    rw [probeInsert.go.eq_2]
    split
    · rfl
    · split
      · exact ih _
      · exact List.length_set

theorem probeInsert_length (tbl : List Slot) (s : Slot) :
    (probeInsert tbl s).length = tbl.length := by
  unfold probeInsert
  simp only
  split
  · rfl
  · exact probeInsert_go_length tbl s _ _ _

theorem foldl_probeInsert_length : ∀ (slots tbl : List Slot),
    (slots.foldl probeInsert tbl).length = tbl.length := by
  intro slots
  induction slots with
  | nil => intro tbl; rfl
  | cons s r ih => intro tbl; rw [List.foldl_cons, ih, probeInsert_length]

theorem buildTable_length (slots : List Slot) : (buildTable slots).length = 2 * slots.length := by
  unfold buildTable
  rw [foldl_probeInsert_length, List.length_replicate]

theorem filter_length_split {α : Type} (p q r : α → Bool)
    (h : ∀ x, r x = (p x || q x) ∧ ¬ (p x = true ∧ q x = true)) :
    ∀ l : List α, (l.filter p).length + (l.filter q).length = (l.filter r).length := by
  intro l
  induction l with
  | nil => rfl
  | cons x l ih =>
    obtain ⟨h1, h2⟩ := h x
    simp only [List.filter_cons, h1]
    cases hp : p x <;> cases hq : q x <;> simp_all <;> omega

theorem tblsLen_eq (es : List Entry) (ps : List Nat) : ∀ n, n ≤ 256 →
    tblsLen es ps n
      = 16 * ((es.zip ps).filter fun ep => decide (256 ≤ ep.1.h % 256 + n)).length := by
  intro n
  induction n with
  | zero =>
    intro _
    have : (es.zip ps).filter (fun ep => decide (256 ≤ ep.1.h % 256 + 0)) = [] := by
      rw [List.filter_eq_nil_iff]
      intro ep _
      have := Nat.mod_lt ep.1.h (show 0 < 256 by decide)
      simp only [decide_eq_true_eq]; omega
    rw [this]; rfl
  | succ n ih =>
    intro hn
    rw [tblsLen, ih (by omega), tblOf, buildTable_length, bucketSlots, List.length_map]
    have := filter_length_split (α := Entry × Nat)
      (fun ep => decide (ep.1.h % 256 = 255 - n))
      (fun ep => decide (256 ≤ ep.1.h % 256 + n))
      (fun ep => decide (256 ≤ ep.1.h % 256 + (n + 1)))
      (fun ep => by
        have := Nat.mod_lt ep.1.h (show 0 < 256 by decide)
        constructor
        · rw [Bool.eq_iff_iff]; simp only [Bool.or_eq_true, decide_eq_true_eq]; omega
        · simp only [decide_eq_true_eq]; omega)
      (es.zip ps)
    omega

theorem sum_recs (es : List Entry) :
    (es.map fun e => 24 + e.key.length + e.val.length).sum = recsLen es + 16 * es.length := by
  induction es with
  | nil => rfl
  | cons e es ih =>
    rw [List.map_cons, List.sum_cons, ih, recsLen, recLen, List.length_cons]; omega

/-- the size of the written file -/
theorem writeFile_length_eq (es : List Entry) : (writeFile es).length = fileSize es := by
  rw [writeFile_length, tblsLen_eq es (psOf es) 256 (Nat.le_refl _), fileSize, sum_recs]
  have : (es.zip (psOf es)).filter (fun ep => decide (256 ≤ ep.1.h % 256 + 256)) = es.zip (psOf es) := by
    rw [List.filter_eq_self]
    intro ep _
    simp only [decide_eq_true_eq]; omega
  rw [this, List.length_zip, psOf, positions_length, Nat.min_self, Nat.add_assoc]

/-- `findAll` is the iteration, as long as its fuel exceeds the number of values -/
theorem findAll_go_of_iter {F : File} {key : Bytes} {hash : Nat} {c : Ctx} {vs : List Bytes}
    (h : Iter F key hash c vs) : ∀ (g : Nat) (acc : List Bytes), vs.length < g →
    findAll.go F key hash g c acc = .ok (acc.reverse ++ vs) := by
  induction h with
  | eof hc =>
    intro g acc hg
    obtain ⟨g, rfl⟩ : ∃ g', g = g' + 1 := ⟨g - 1, by omega⟩
    rw [findAll.go, hc]
    simp
  | next hc _ ih =>
    intro g acc hg
    simp only [List.length_cons] at hg
    obtain ⟨g, rfl⟩ : ∃ g', g = g' + 1 := ⟨g - 1, by omega⟩
    rw [findAll.go, hc]
    simp only
    rw [ih g _ (by omega)]
    simp

end DnsVerif.Cdb
