/-
Helper lemmas for C12: Go `fmt` rendering of the cache key is injective; invariants of the
cache / reload protocol machine. Core Lean only.
-/
import DnsVerif.Model.Cache

namespace DnsVerif.Cache

/-! ### decimal rendering -/

/-- value of a little-endian digit list -/
def valueRev : List Nat → Nat
  | [] => 0
  | d :: ds => d + 10 * valueRev ds

theorem valueRev_digitsRev : ∀ (f n : Nat), n < f → valueRev (digitsRev f n) = n
  | 0, n, h => by omega
  | f + 1, n, h => by
    unfold digitsRev
    by_cases h10 : n < 10
    · rw [if_pos h10]; simp [valueRev]
    · rw [if_neg h10]
      have ih := valueRev_digitsRev f (n / 10) (by omega)
      simp only [valueRev, ih]
      omega

theorem digitsRev_lt : ∀ (f n : Nat), ∀ d ∈ digitsRev f n, d < 10
  | 0, n, d, h => by simp [digitsRev] at h
  | f + 1, n, d, h => by
    unfold digitsRev at h
    by_cases h10 : n < 10
    · rw [if_pos h10] at h
      simp at h; omega
    · rw [if_neg h10] at h
      rcases List.mem_cons.1 h with h | h
      · omega
      · exact digitsRev_lt f (n / 10) d h

theorem digitsRev_ne_nil (f n : Nat) : digitsRev (f + 1) n ≠ [] := by
  unfold digitsRev
  by_cases h10 : n < 10
  · rw [if_pos h10]; simp
  · rw [if_neg h10]; simp

/-- `strconv.Atoi`-like reading of a digit string (no validation) -/
def parseDec (bs : Bytes) : Nat := bs.foldl (fun a b => a * 10 + (b.toNat - 48)) 0

theorem digitByte_toNat (d : Nat) (h : d < 10) : (digitByte d).toNat = 48 + d := by
  unfold digitByte
  rw [UInt8.toNat_ofNat']
  omega

theorem foldl_digits (ds : List Nat) (h : ∀ d ∈ ds, d < 10) :
    (ds.reverse.map digitByte).foldl (fun a b => a * 10 + (b.toNat - 48)) 0 = valueRev ds := by
  induction ds with
  | nil => rfl
  | cons d ds ih =>
    have hd : d < 10 := h d (List.mem_cons_self)
    have ih' := ih (fun x hx => h x (List.mem_cons_of_mem _ hx))
    rw [List.reverse_cons, List.map_append, List.foldl_append, ih']
    simp only [List.map_cons, List.map_nil, List.foldl_cons, List.foldl_nil, valueRev]
    rw [digitByte_toNat d hd]
    omega

theorem parseDec_decimal (n : Nat) : parseDec (decimal n) = n := by
  unfold parseDec decimal
  rw [foldl_digits _ (digitsRev_lt _ _)]
  exact valueRev_digitsRev _ _ (by omega)

theorem decimal_injective {a b : Nat} (h : decimal a = decimal b) : a = b := by
  have := congrArg parseDec h
  rwa [parseDec_decimal, parseDec_decimal] at this

theorem decimal_ne_nil (n : Nat) : decimal n ≠ [] := by
  unfold decimal
  intro h
  have := congrArg List.length h
  simp at this
  exact digitsRev_ne_nil n n this

/-- every byte of a decimal rendering is an ASCII digit -/
theorem decimal_digit (n : Nat) : ∀ b ∈ decimal n, 48 ≤ b.toNat ∧ b.toNat ≤ 57 := by
  intro b hb
  unfold decimal at hb
  rcases List.mem_map.1 hb with ⟨d, hd, rfl⟩
  have := digitsRev_lt _ _ d (List.mem_reverse.1 hd)
  rw [digitByte_toNat d this]
  omega

theorem slash_not_mem_decimal (n : Nat) : slash ∉ decimal n := by
  intro h
  have := decimal_digit n slash h
  simp [slash] at this

theorem parseDec_zeros (k : Nat) (l : Bytes) :
    parseDec (List.replicate k (48 : UInt8) ++ l) = parseDec l := by
  unfold parseDec
  rw [List.foldl_append]
  congr 1
  induction k with
  | zero => rfl
  | succ k ih => rw [List.replicate_succ, List.foldl_cons]; simpa using ih

theorem parseDec_decimal3 (n : Nat) : parseDec (decimal3 n) = n := by
  unfold decimal3
  simp only [parseDec_zeros, parseDec_decimal]

theorem decimal3_injective {a b : Nat} (h : decimal3 a = decimal3 b) : a = b := by
  have := congrArg parseDec h
  rwa [parseDec_decimal3, parseDec_decimal3] at this

theorem decimal3_length_lt256 : ∀ n, n < 256 → (decimal3 n).length = 3 := by decide +kernel

theorem decimal3_length_byte (b : UInt8) : (decimal3 b.toNat).length = 3 :=
  decimal3_length_lt256 _ b.toNat_lt


/-! ### the key -/

theorem array3_two (a b : UInt8) :
    array3 [a, b] = (91 : UInt8) :: (decimal3 a.toNat ++ (32 : UInt8) :: (decimal3 b.toNat ++ [(93 : UInt8)])) := by
  simp [array3, joinSp]

theorem array3_two_length (a b : UInt8) : (array3 [a, b]).length = 9 := by
  rw [array3_two]
  simp [decimal3_length_byte]

theorem array3_two_injective {a b a' b' : UInt8} (h : array3 [a, b] = array3 [a', b']) :
    a = a' ∧ b = b' := by
  rw [array3_two, array3_two] at h
  have h1 := List.cons.inj h |>.2
  have hlen : (decimal3 a.toNat).length = (decimal3 a'.toNat).length := by
    rw [decimal3_length_byte, decimal3_length_byte]
  obtain ⟨ha, hr⟩ := List.append_inj h1 hlen
  have h2 := List.cons.inj hr |>.2
  have hlen2 : (decimal3 b.toNat).length = (decimal3 b'.toNat).length := by
    rw [decimal3_length_byte, decimal3_length_byte]
  obtain ⟨hb, _⟩ := List.append_inj h2 hlen2
  exact ⟨UInt8.toNat_inj.1 (decimal3_injective ha), UInt8.toNat_inj.1 (decimal3_injective hb)⟩

/-- two strings cut at the first occurrence of a separator agree piecewise -/
theorem split_at_sep {α} {x : α} : ∀ {l1 l2 r1 r2 : List α},
    x ∉ l1 → x ∉ l2 → l1 ++ x :: r1 = l2 ++ x :: r2 → l1 = l2 ∧ r1 = r2
  | [], [], _, _, _, _, h => ⟨rfl, (List.cons.inj h).2⟩
  | [], b :: l2, _, _, _, h2, h => by
    have := (List.cons.inj h).1
    exact absurd (this ▸ List.mem_cons_self) h2
  | a :: l1, [], _, _, h1, _, h => by
    have := (List.cons.inj h).1
    exact absurd (this ▸ List.mem_cons_self) h1
  | a :: l1, b :: l2, r1, r2, h1, h2, h => by
    obtain ⟨hab, ht⟩ := List.cons.inj h
    obtain ⟨hl, hr⟩ := split_at_sep (fun hx => h1 (List.mem_cons_of_mem _ hx))
      (fun hx => h2 (List.mem_cons_of_mem _ hx)) ht
    exact ⟨by rw [hab, hl], hr⟩

theorem cacheKey_eq (loc : Bytes) (t c : Nat) (n : Bytes) :
    cacheKey loc t c n = array3 loc ++ (slash :: (decimal t ++ (slash :: (decimal c ++ (slash :: n))))) := by
  simp [cacheKey]

theorem cacheKey_inj {a b a' b' : UInt8} {t c t' c' : Nat} {n n' : Bytes}
    (h : cacheKey [a, b] t c n = cacheKey [a', b'] t' c' n') :
    a = a' ∧ b = b' ∧ t = t' ∧ c = c' ∧ n = n' := by
  rw [cacheKey_eq, cacheKey_eq] at h
  have hlen : (array3 [a, b]).length = (array3 [a', b']).length := by
    rw [array3_two_length, array3_two_length]
  obtain ⟨hloc, h1⟩ := List.append_inj h hlen
  obtain ⟨ha, hb⟩ := array3_two_injective hloc
  have h2 := (List.cons.inj h1).2
  obtain ⟨ht, h3⟩ := split_at_sep (slash_not_mem_decimal t) (slash_not_mem_decimal t') h2
  obtain ⟨hc, hn⟩ := split_at_sep (slash_not_mem_decimal c) (slash_not_mem_decimal c') h3
  exact ⟨ha, hb, decimal_injective ht, decimal_injective hc, hn⟩


/-! ### the protocol machine: cache primitives -/

variable {Q R : Type}

theorem mem_cacheErase {c : List (Bytes × Entry R)} {k : Bytes} {p : Bytes × Entry R}
    (h : p ∈ cacheErase c k) : p ∈ c := (List.mem_filter.1 h).1

theorem mem_cachePut {c : List (Bytes × Entry R)} {k : Bytes} {e : Entry R} {p : Bytes × Entry R}
    (h : p ∈ cachePut c k e) : p = (k, e) ∨ p ∈ c := by
  rcases List.mem_cons.1 h with h | h
  · exact Or.inl h
  · exact Or.inr (mem_cacheErase h)

theorem cacheGet_mem {c : List (Bytes × Entry R)} {k : Bytes} {e : Entry R}
    (h : cacheGet c k = some e) : (k, e) ∈ c := by
  unfold cacheGet at h
  cases hf : c.find? (fun p => p.1 == k) with
  | none => rw [hf] at h; cases h
  | some p =>
    rw [hf] at h
    have hk : p.1 = k := by simpa using List.find?_some hf
    have he : p.2 = e := by simpa using h
    have hm := List.mem_of_find?_eq_some hf
    rw [← hk, ← he]; exact hm

theorem cacheGet_nil (k : Bytes) : cacheGet ([] : List (Bytes × Entry R)) k = none := rfl

theorem cacheGet_cachePut_self (c : List (Bytes × Entry R)) (k : Bytes) (e : Entry R) :
    cacheGet (cachePut c k e) k = some e := by
  simp [cacheGet, cachePut]

theorem mem_setPhase {s : St Q R} {i : Nat} {f : Flight Q R} {p : Phase R} {f' : Flight Q R}
    (h : f' ∈ (setPhase s i f p).flights) : f' ∈ s.flights ∨ f' = { f with phase := p } :=
  List.mem_or_eq_of_mem_set h

/-! ### every cache entry is labelled with the current generation -/

def EntriesCurrent (s : St Q R) : Prop := ∀ p ∈ s.cache, p.2.label = s.gen

theorem entriesCurrent_step (P : Params Q R) (hg : P.genCheck = true) (s : St Q R) (st : Step Q)
    (h : EntriesCurrent s) : EntriesCurrent (step P s st) := by
  cases st with
  | start q => exact h
  | acquire i =>
    simp only [step]
    split
    · split <;> exact h
    · exact h
  | lookup i =>
    simp only [step]
    split
    · split
      · split
        · exact h
        · split <;> exact h
      all_goals exact h
    · exact h
  | compute i =>
    simp only [step]
    split
    · split <;> exact h
    · exact h
  | insert i =>
    simp only [step]
    split
    · split
      · rename_i f _ g r _
        split
        · rename_i hc
          intro p hp
          rcases mem_cachePut hp with rfl | hp
          · rw [hg] at hc
            simp at hc
            exact hc.2
          · exact h p hp
        · exact h
      all_goals exact h
    · exact h
  | send i =>
    simp only [step]
    split
    · split <;> exact h
    · exact h
  | reload => intro p hp; cases hp
  | evict k => intro p hp; exact h p (mem_cacheErase hp)

theorem entriesCurrent_runFrom (P : Params Q R) (hg : P.genCheck = true) (steps : List (Step Q)) :
    ∀ s : St Q R, EntriesCurrent s → EntriesCurrent (runFrom P s steps) := by
  induction steps with
  | nil => intro s h; exact h
  | cons st t ih => intro s h; exact ih _ (entriesCurrent_step P hg s st h)


/-! ### every response in the cache or in flight is the uncached response of its label -/

/-- `r` is what the uncached handler computes from generation `label` for some (valid) query with
key `k` that gets as far as the cache (a BADVERS reply is sent before the key is even built) -/
def Justified (P : Params Q R) (V : Q → Prop) (k : Bytes) (label : Nat) (r : R) : Prop :=
  ∃ q, V q ∧ P.kindOf q ≠ .badvers ∧ P.keyOf q = k ∧ r = P.resp label q

theorem insertable_ne_badvers {P : Params Q R} {q : Q} (h : insertable P q = true) :
    P.kindOf q ≠ .badvers := by
  intro hb
  simp [insertable, hb] at h

def PhaseOk (P : Params Q R) (V : Q → Prop) (gen : Nat) (q : Q) : Phase R → Prop
  | .fresh => True
  | .acquired g => g ≤ gen
  | .hit g e => P.kindOf q ≠ .badvers ∧ g ≤ e.label ∧ e.label ≤ gen ∧
      Justified P V (P.keyOf q) e.label e.rsp
  | .missed g _ => g ≤ gen
  | .computed g r => g ≤ gen ∧ r = P.resp g q
  | .inserted g r => g ≤ gen ∧ r = P.resp g q
  | .sent o => o.acq ≤ o.label ∧ o.label ≤ gen ∧
      ((P.kindOf q ≠ .badvers ∧ Justified P V (P.keyOf q) o.label o.rsp) ∨ o.rsp = P.resp o.label q)

def FlightOk (P : Params Q R) (V : Q → Prop) (s : St Q R) (f : Flight Q R) : Prop :=
  V f.q ∧ PhaseOk P V s.gen f.q f.phase

structure Inv (P : Params Q R) (V : Q → Prop) (s : St Q R) : Prop where
  cur : EntriesCurrent s
  just : ∀ p ∈ s.cache, Justified P V p.1 p.2.label p.2.rsp
  fl : ∀ f ∈ s.flights, FlightOk P V s f

/-- only valid queries are started -/
def StepValid (V : Q → Prop) : Step Q → Prop
  | .start q => V q
  | _ => True

theorem PhaseOk.mono {P : Params Q R} {V : Q → Prop} {g g' : Nat} {q : Q} {ph : Phase R}
    (h : PhaseOk P V g q ph) (hle : g ≤ g') : PhaseOk P V g' q ph := by
  cases ph with
  | fresh => trivial
  | acquired a => exact Nat.le_trans h hle
  | hit a e => exact ⟨h.1, h.2.1, Nat.le_trans h.2.2.1 hle, h.2.2.2⟩
  | missed a l => exact Nat.le_trans h hle
  | computed a r => exact ⟨Nat.le_trans h.1 hle, h.2⟩
  | inserted a r => exact ⟨Nat.le_trans h.1 hle, h.2⟩
  | sent o => exact ⟨h.1, Nat.le_trans h.2.1 hle, h.2.2⟩

theorem inv_setPhase {P : Params Q R} {V : Q → Prop} {s : St Q R} {i : Nat} {f : Flight Q R}
    {p : Phase R} (h : Inv P V s) (hf : f ∈ s.flights) (hp : PhaseOk P V s.gen f.q p) :
    Inv P V (setPhase s i f p) :=
  ⟨h.cur, h.just, fun f' hf' => by
    rcases mem_setPhase hf' with hm | rfl
    · exact h.fl f' hm
    · exact ⟨(h.fl f hf).1, hp⟩⟩

theorem inv_step (P : Params Q R) (V : Q → Prop) (hg : P.genCheck = true) (s : St Q R) (st : Step Q)
    (hv : StepValid V st) (h : Inv P V s) : Inv P V (step P s st) := by
  cases st with
  | start q =>
    refine ⟨h.cur, h.just, fun f hf => ?_⟩
    rcases List.mem_append.1 hf with hf | hf
    · exact h.fl f hf
    · rw [List.mem_singleton.1 hf]; exact ⟨hv, trivial⟩
  | acquire i =>
    simp only [step]
    split
    · rename_i f hf
      split
      · exact inv_setPhase h (List.mem_of_getElem? hf) (Nat.le_refl _)
      · exact h
    · exact h
  | lookup i =>
    simp only [step]
    split
    · rename_i f hf
      have hm := List.mem_of_getElem? hf
      split
      · rename_i g hph
        have hok : g ≤ s.gen := by
          have := (h.fl f hm).2
          rw [hph] at this
          exact this
        split
        · exact inv_setPhase h hm hok
        · rename_i hnb
          split
          · rename_i e he
            have hmem := cacheGet_mem he
            have hl : e.label = s.gen := h.cur _ hmem
            refine inv_setPhase h hm ⟨hnb, ?_, ?_, h.just _ hmem⟩
            · rw [hl]; exact hok
            · rw [hl]; exact Nat.le_refl _
          · exact inv_setPhase h hm hok
      all_goals exact h
    · exact h
  | compute i =>
    simp only [step]
    split
    · rename_i f hf
      have hm := List.mem_of_getElem? hf
      split
      · rename_i g l hph
        have hok : g ≤ s.gen := by
          have := (h.fl f hm).2
          rw [hph] at this
          exact this
        exact inv_setPhase h hm ⟨hok, rfl⟩
      all_goals exact h
    · exact h
  | insert i =>
    simp only [step]
    split
    · rename_i f hf
      have hm := List.mem_of_getElem? hf
      split
      · rename_i g r hph
        have hok : g ≤ s.gen ∧ r = P.resp g f.q := by
          have := (h.fl f hm).2
          rw [hph] at this
          exact this
        have h1 : Inv P V (setPhase s i f (.inserted g r)) := inv_setPhase h hm hok
        split
        · rename_i hc
          rw [hg] at hc
          have hgen : g = s.gen := by simp at hc; exact hc.2
          have hins : insertable P f.q = true := by simp at hc; exact hc.1
          refine ⟨?_, ?_, h1.fl⟩
          · intro p hp
            rcases mem_cachePut hp with rfl | hp
            · exact hgen
            · exact h.cur p hp
          · intro p hp
            rcases mem_cachePut hp with rfl | hp
            · exact ⟨f.q, (h.fl f hm).1, insertable_ne_badvers hins, rfl, hok.2⟩
            · exact h.just p hp
        · exact h1
      all_goals exact h
    · exact h
  | send i =>
    simp only [step]
    split
    · rename_i f hf
      have hm := List.mem_of_getElem? hf
      split
      · rename_i g e hph
        have hok : P.kindOf f.q ≠ .badvers ∧ g ≤ e.label ∧ e.label ≤ s.gen ∧
            Justified P V (P.keyOf f.q) e.label e.rsp := by
          have := (h.fl f hm).2
          rw [hph] at this
          exact this
        exact inv_setPhase h hm ⟨hok.2.1, hok.2.2.1, Or.inl ⟨hok.1, hok.2.2.2⟩⟩
      · rename_i g r hph
        have hok : g ≤ s.gen ∧ r = P.resp g f.q := by
          have := (h.fl f hm).2
          rw [hph] at this
          exact this
        exact inv_setPhase h hm ⟨Nat.le_refl _, hok.1, Or.inr hok.2⟩
      all_goals exact h
    · exact h
  | reload =>
    refine ⟨fun p hp => (by cases hp), fun p hp => (by cases hp), fun f hf => ?_⟩
    exact ⟨(h.fl f hf).1, (h.fl f hf).2.mono (Nat.le_succ _)⟩
  | evict k =>
    exact ⟨fun p hp => h.cur p (mem_cacheErase hp), fun p hp => h.just p (mem_cacheErase hp), h.fl⟩

theorem inv_init (P : Params Q R) (V : Q → Prop) : Inv P V ({} : St Q R) :=
  ⟨fun p hp => (by cases hp), fun p hp => (by cases hp), fun f hf => (by cases hf)⟩

theorem inv_runFrom (P : Params Q R) (V : Q → Prop) (hg : P.genCheck = true) (steps : List (Step Q)) :
    ∀ s : St Q R, (∀ st ∈ steps, StepValid V st) → Inv P V s → Inv P V (runFrom P s steps) := by
  induction steps with
  | nil => intro s _ h; exact h
  | cons st t ih =>
    intro s hv h
    exact ih _ (fun x hx => hv x (List.mem_cons_of_mem _ hx))
      (inv_step P V hg s st (hv st List.mem_cons_self) h)


/-! ### sequential histories -/

theorem getElem?_last {α} (fs : List α) (x : α) : (fs ++ [x])[fs.length]? = some x := by simp

/-- the uncached response is determined by the key (on valid queries) -/
def KeyDetermines (P : Params Q R) (V : Q → Prop) : Prop :=
  ∀ g q q', V q → V q' → P.kindOf q ≠ .badvers → P.kindOf q' ≠ .badvers →
    P.keyOf q = P.keyOf q' → P.resp g q = P.resp g q'

theorem run_query (P : Params Q R) (V : Q → Prop) (hdet : KeyDetermines P V)
    (g : Nat) (c : List (Bytes × Entry R)) (fs : List (Flight Q R)) (q : Q) (hv : V q)
    (h : Inv P V ⟨g, c, fs⟩) :
    ∃ c' o, runFrom P ⟨g, c, fs⟩ (querySteps fs.length q) = ⟨g, c', fs ++ [⟨q, .sent o⟩]⟩ ∧
      o.rsp = P.resp g q := by
  simp only [querySteps, runFrom, List.foldl_cons, List.foldl_nil]
  have e1 : step P ⟨g, c, fs⟩ (.start q) = ⟨g, c, fs ++ [⟨q, .fresh⟩]⟩ := rfl
  rw [e1]
  have e2 : step P ⟨g, c, fs ++ [⟨q, .fresh⟩]⟩ (.acquire fs.length) = ⟨g, c, fs ++ [⟨q, .acquired g⟩]⟩ := by
    simp [step, setPhase]
  rw [e2]
  by_cases hb : P.kindOf q = .badvers
  · have e3 : step P ⟨g, c, fs ++ [⟨q, .acquired g⟩]⟩ (.lookup fs.length) = ⟨g, c, fs ++ [⟨q, .missed g false⟩]⟩ := by
      simp [step, setPhase, hb]
    rw [e3]
    have e4 : step P ⟨g, c, fs ++ [⟨q, .missed g false⟩]⟩ (.compute fs.length) = ⟨g, c, fs ++ [⟨q, .computed g (P.resp g q)⟩]⟩ := by
      simp [step, setPhase]
    rw [e4]
    have e5 : step P ⟨g, c, fs ++ [⟨q, .computed g (P.resp g q)⟩]⟩ (.insert fs.length) = ⟨g, c, fs ++ [⟨q, .inserted g (P.resp g q)⟩]⟩ := by
      simp [step, setPhase, insertable, hb]
    rw [e5]
    refine ⟨c, ⟨P.resp g q, g, g, false⟩, ?_, rfl⟩
    simp [step, setPhase]
  · cases hc : cacheGet c (P.keyOf q) with
    | none =>
      have e3 : step P ⟨g, c, fs ++ [⟨q, .acquired g⟩]⟩ (.lookup fs.length) = ⟨g, c, fs ++ [⟨q, .missed g true⟩]⟩ := by
        simp [step, setPhase, hb, hc]
      rw [e3]
      have e4 : step P ⟨g, c, fs ++ [⟨q, .missed g true⟩]⟩ (.compute fs.length) = ⟨g, c, fs ++ [⟨q, .computed g (P.resp g q)⟩]⟩ := by
        simp [step, setPhase]
      rw [e4]
      by_cases hi : insertable P q = true
      · have e5 : step P ⟨g, c, fs ++ [⟨q, .computed g (P.resp g q)⟩]⟩ (.insert fs.length) =
            ⟨g, cachePut c (P.keyOf q) ⟨g, P.resp g q⟩, fs ++ [⟨q, .inserted g (P.resp g q)⟩]⟩ := by
          simp [step, setPhase, hi]
        rw [e5]
        refine ⟨cachePut c (P.keyOf q) ⟨g, P.resp g q⟩, ⟨P.resp g q, g, g, false⟩, ?_, rfl⟩
        simp [step, setPhase]
      · have e5 : step P ⟨g, c, fs ++ [⟨q, .computed g (P.resp g q)⟩]⟩ (.insert fs.length) =
            ⟨g, c, fs ++ [⟨q, .inserted g (P.resp g q)⟩]⟩ := by
          simp [step, setPhase, hi]
        rw [e5]
        refine ⟨c, ⟨P.resp g q, g, g, false⟩, ?_, rfl⟩
        simp [step, setPhase]
    | some e =>
      have e3 : step P ⟨g, c, fs ++ [⟨q, .acquired g⟩]⟩ (.lookup fs.length) = ⟨g, c, fs ++ [⟨q, .hit g e⟩]⟩ := by
        simp [step, setPhase, hb, hc]
      rw [e3]
      have e4 : step P ⟨g, c, fs ++ [⟨q, .hit g e⟩]⟩ (.compute fs.length) = ⟨g, c, fs ++ [⟨q, .hit g e⟩]⟩ := by
        simp [step]
      rw [e4]
      have e5 : step P ⟨g, c, fs ++ [⟨q, .hit g e⟩]⟩ (.insert fs.length) = ⟨g, c, fs ++ [⟨q, .hit g e⟩]⟩ := by
        simp [step]
      rw [e5]
      have hmem := cacheGet_mem hc
      have hl : e.label = g := h.cur _ hmem
      obtain ⟨q', hv', hnb', hk, hr⟩ := h.just _ hmem
      refine ⟨c, ⟨e.rsp, e.label, g, true⟩, ?_, ?_⟩
      · simp [step, setPhase]
      · show e.rsp = P.resp g q
        rw [hr, hl]
        exact hdet g q' q hv' hv hnb' hb hk

/-- `sentList` of a state whose flights have all been answered -/
def AllSent (s : St Q R) (rs : List R) : Prop := sentList s = rs.map some

theorem seq_from (P : Params Q R) (V : Q → Prop) (hg : P.genCheck = true) (hdet : KeyDetermines P V) :
    ∀ (h : List (Item Q)) (s : St Q R) (rs : List R),
      (∀ q, Item.query q ∈ h → V q) → Inv P V s → AllSent s rs →
      AllSent (runFrom P s (seqSteps s.flights.length h)) (rs ++ uncachedSeq P s.gen h) := by
  intro h
  induction h with
  | nil => intro s rs _ _ ha; simpa [seqSteps, uncachedSeq, runFrom] using ha
  | cons it t ih =>
    intro s rs hv hinv ha
    cases it with
    | query q =>
      obtain ⟨g, c, fs⟩ := s
      have hvq : V q := hv q List.mem_cons_self
      obtain ⟨c', o, hrun, ho⟩ := run_query P V hdet g c fs q hvq hinv
      have hinv' : Inv P V (runFrom P ⟨g, c, fs⟩ (querySteps fs.length q)) := by
        refine inv_runFrom P V hg _ _ ?_ hinv
        intro st hst
        simp only [querySteps, List.mem_cons, List.not_mem_nil, or_false] at hst
        rcases hst with rfl | rfl | rfl | rfl | rfl | rfl <;> first | exact hvq | trivial
      simp only [seqSteps, uncachedSeq]
      rw [runFrom, List.foldl_append]
      change AllSent (runFrom P (runFrom P ⟨g, c, fs⟩ (querySteps fs.length q)) (seqSteps (fs.length + 1) t)) _
      rw [hrun] at hinv' ⊢
      have ha' : AllSent (⟨g, c', fs ++ [⟨q, .sent o⟩]⟩ : St Q R) (rs ++ [P.resp g q]) := by
        unfold AllSent sentList at ha ⊢
        simp only [List.map_append, List.map_cons, List.map_nil]
        rw [ha, ho]
      have := ih ⟨g, c', fs ++ [⟨q, .sent o⟩]⟩ (rs ++ [P.resp g q])
        (fun q' hq' => hv q' (List.mem_cons_of_mem _ hq')) hinv' ha'
      simpa [List.append_assoc] using this
    | reload =>
      simp only [seqSteps, uncachedSeq]
      have hinv' := inv_step P V hg s .reload trivial hinv
      exact ih (step P s .reload) rs (fun q' hq' => hv q' (List.mem_cons_of_mem _ hq')) hinv' ha
    | evict k =>
      simp only [seqSteps, uncachedSeq]
      have hinv' := inv_step P V hg s (.evict k) trivial hinv
      exact ih (step P s (.evict k)) rs (fun q' hq' => hv q' (List.mem_cons_of_mem _ hq')) hinv' ha

end DnsVerif.Cache
