/-
C03.4, concrete side: in the family of ranges generated from a well-formed subnet list, the innermost
range that contains an (aligned) address and is no longer than the client prefix carries exactly the
answer of `Spec.lpm`.
-/
import DnsVerif.Proofs.LpmConc
import DnsVerif.Proofs.LpmCdb

namespace DnsVerif.Lpm
open DnsVerif DnsVerif.Rearr DnsVerif.Spec

/- helper lemmas live in `InnerAux` so that they cannot clash with the other C03.4 files -/
namespace InnerAux

/-! ### literals and small arithmetic -/

theorem firstIPv4_val : firstIPv4 = 281470681743360 := rfl
theorem afterIPv4_val : afterIPv4 = 281474976710656 := rfl
theorem TOP_val : TOP = 340282366920938463463374607431768211456 := rfl

theorem isV4Addr_iff (a : Nat) : isV4Addr a = true ↔ firstIPv4 ≤ a ∧ a < afterIPv4 := by
  unfold isV4Addr
  rw [decide_eq_true_iff, firstIPv4_val, afterIPv4_val]
  omega

theorem isV4Addr_false_iff (a : Nat) : isV4Addr a = false ↔ ¬ (firstIPv4 ≤ a ∧ a < afterIPv4) := by
  rw [← isV4Addr_iff]; cases isV4Addr a <;> simp

theorem blockStart_aligned {n o : Nat} (h : n % 2 ^ (128 - o) = 0) : blockStart n o = n := by
  unfold blockStart
  have := Nat.div_add_mod n (2 ^ (128 - o))
  rw [h, Nat.add_zero, Nat.mul_comm] at this
  exact this

theorem maskN_aligned {n o : Nat} (h : n % 2 ^ (128 - o) = 0) : maskN n o = n :=
  blockStart_aligned h

/-- two multiples of `sz` less than `sz` apart are equal -/
theorem mult_between {sz x y : Nat} (hx : x % sz = 0) (hy : y % sz = 0) (h1 : x ≤ y)
    (h2 : y < x + sz) : y = x := by
  have h0 : (y - x) % sz = 0 := Nat.sub_mod_eq_zero_of_mod_eq (by rw [hx, hy])
  rw [Nat.mod_eq_of_lt (by omega)] at h0
  omega

/-- a multiple of `2^(128-req)` is a multiple of the size of every longer block -/
theorem mod_of_longer {a req o : Nat} (ho : o ≤ 128) (hlt : req < o)
    (hal : a % 2 ^ (128 - req) = 0) : a % 2 ^ (128 - o) = 0 := by
  have hk : 2 ^ (128 - req) = 2 ^ (128 - o) * 2 ^ (o - req) := by
    rw [← Nat.pow_add]; congr 1; omega
  rw [hk] at hal
  exact Nat.mod_eq_zero_of_dvd
    (Nat.dvd_trans (Nat.dvd_mul_right _ _) (Nat.dvd_of_mod_eq_zero hal))

/-! ### the ranges of `famOf S`, classified -/

/-- `R` is the block range of subnet `s` -/
def IsBlk (s : SubnetDecl) (R : Rng) : Prop :=
  R.lo = s.net ∧ R.hi = s.net + 2 ^ (128 - s.ones) ∧ R.len = s.ones ∧ R.loc = some s.loc

inductive Cls (S : List SubnetDecl) (R : Rng) : Prop
  | blk (s : SubnetDecl) (hs : s ∈ S) (hb : IsBlk s R)
  | half (s : SubnetDecl) (hs : s ∈ S) (hn : s.net = 0) (ho : s.ones = 0) (hlo : R.lo = afterIPv4)
      (hhi : R.hi = TOP) (hlen : R.len = 0) (hloc : R.loc = some s.loc)
  | r4 (he : R = R4) (hno : ∀ s ∈ S, ¬ (s.net = firstIPv4 ∧ s.ones = 96))
  | r6a (he : R = R6a) (hno : ∀ s ∈ S, ¬ (s.net = 0 ∧ s.ones = 0))
  | r6b (he : R = R6b) (hno : ∀ s ∈ S, ¬ (s.net = 0 ∧ s.ones = 0))

theorem hasV4_false {S : List SubnetDecl} :
    hasV4 S = false ↔ ∀ s ∈ S, ¬ (s.net = firstIPv4 ∧ s.ones = 96) := by
  simp [hasV4]

theorem hasV6_false {S : List SubnetDecl} : hasV6 S = false ↔ ∀ s ∈ S, ¬ (s.net = 0 ∧ s.ones = 0) := by
  simp [hasV6]

theorem mem_rngOf {S : List SubnetDecl} (h : SubsWF S) {s : SubnetDecl} (hs : s ∈ S) {R : Rng}
    (hR : R ∈ rngOf s) : Cls S R := by
  unfold rngOf at hR
  split at hR
  next h0 =>
    obtain ⟨h0, ho⟩ := h0
    rcases List.mem_cons.1 hR with rfl | hR
    · exact .blk s hs ⟨h0.symm, by simp [h0, ho, TOP], rfl, rfl⟩
    · rcases List.mem_cons.1 hR with rfl | hR
      · exact .half s hs h0 ho rfl rfl ho rfl
      · cases hR
  next h0 =>
    split at hR
    next h4 =>
      obtain ⟨h4, ho⟩ := h4
      rcases List.mem_cons.1 hR with rfl | hR
      · exact .blk s hs ⟨h4.symm, by simp [h4, ho, firstIPv4_val, afterIPv4_val], rfl, rfl⟩
      · cases hR
    next h4 =>
      rcases List.mem_cons.1 hR with rfl | hR
      · rw [blockStart_aligned (h.aligned s hs)]
        exact .blk s hs ⟨rfl, rfl, rfl, rfl⟩
      · cases hR

/-- classification of the members of `famOf S` -/
theorem mem_famOf' {S : List SubnetDecl} (h : SubsWF S) {R : Rng} (hR : R ∈ famOf S) : Cls S R := by
  unfold famOf at hR
  rcases List.mem_append.1 hR with hR | hR
  · rcases List.mem_append.1 hR with hR | hR
    · obtain ⟨s, hs, hR⟩ := List.mem_flatMap.1 hR
      exact mem_rngOf h hs hR
    · cases hv : hasV4 S with
      | true => simp [hv] at hR
      | false =>
        simp only [hv, Bool.false_eq_true, if_false, List.mem_singleton] at hR
        exact .r4 hR (hasV4_false.1 hv)
  · cases hv : hasV6 S with
    | true => simp [hv] at hR
    | false =>
      simp only [hv, Bool.false_eq_true, if_false, List.mem_cons, List.not_mem_nil, or_false] at hR
      rcases hR with hR | hR
      · exact .r6a hR (hasV6_false.1 hv)
      · exact .r6b hR (hasV6_false.1 hv)

/-- every subnet has its block range in the family -/
theorem blk_mem {S : List SubnetDecl} (h : SubsWF S) {s : SubnetDecl} (hs : s ∈ S) :
    ∃ R ∈ famOf S, IsBlk s R := by
  have hsub : ∀ R, R ∈ rngOf s → R ∈ famOf S := fun R hR =>
    List.mem_append_left _ (List.mem_append_left _ (List.mem_flatMap.2 ⟨s, hs, hR⟩))
  by_cases h0 : s.net = 0 ∧ s.ones = 0
  · refine ⟨⟨0, TOP, s.ones, some s.loc, none⟩, hsub _ ?_, ?_⟩
    · unfold rngOf; rw [if_pos h0]; exact List.mem_cons_self
    · exact ⟨h0.1.symm, by simp [h0.1, h0.2, TOP], rfl, rfl⟩
  · by_cases h4 : s.net = firstIPv4 ∧ s.ones = 96
    · refine ⟨⟨firstIPv4, afterIPv4, s.ones, some s.loc, some s.loc⟩, hsub _ ?_, ?_⟩
      · unfold rngOf; rw [if_neg h0, if_pos h4]; exact List.mem_singleton.2 rfl
      · exact ⟨h4.1.symm, by simp [h4.1, h4.2, firstIPv4_val, afterIPv4_val], rfl, rfl⟩
    · refine ⟨⟨s.net, s.net + 2 ^ (128 - s.ones), s.ones, some s.loc, none⟩, hsub _ ?_,
        ⟨rfl, rfl, rfl, rfl⟩⟩
      unfold rngOf; rw [if_neg h0, if_neg h4, blockStart_aligned (h.aligned s hs)]
      exact List.mem_singleton.2 rfl

theorem R4_mem {S : List SubnetDecl} (hno : ∀ s ∈ S, ¬ (s.net = firstIPv4 ∧ s.ones = 96)) :
    R4 ∈ famOf S := by
  unfold famOf
  rw [hasV4_false.2 hno]
  exact List.mem_append_left _ (List.mem_append_right _ (List.mem_singleton.2 rfl))

end InnerAux
open InnerAux

/-! ### deliverable 1 -/

set_option linter.unusedVariables false in
theorem align_hA {S : List SubnetDecl} (h : SubsWF S) {a req : Nat} (ha : a < 2 ^ 128)
    (hreq : req < 256) (hal : a % 2 ^ (128 - req) = 0) :
    ∀ R ∈ famOf S, R.lo < a → a < R.hi → R.len ≤ req := by
  intro R hR hlo hhi
  cases mem_famOf' h hR with
  | blk s hs hb =>
    obtain ⟨h1, h2, h3, _⟩ := hb
    rw [h3]
    refine Nat.le_of_not_lt fun hlt => ?_
    have hmod := mod_of_longer (h.ones_le s hs) hlt hal
    have := mult_between (h.aligned s hs) hmod (by omega) (by omega)
    omega
  | half s hs hn ho hlo' hhi' hlen hloc => omega
  | r4 he hno => subst he; exact Nat.zero_le _
  | r6a he hno => subst he; exact Nat.zero_le _
  | r6b he hno => subst he; exact Nat.zero_le _

namespace InnerAux

/-! ### families -/

theorem pairwise_mem_eq {α : Type} {P : α → α → Prop} :
    ∀ {l : List α}, l.Pairwise (fun x y => ¬ P x y) → (∀ x y, P x y → P y x) →
      ∀ x ∈ l, ∀ y ∈ l, P x y → x = y := by
  intro l
  induction l with
  | nil => intro _ _ x hx; cases hx
  | cons c l ih =>
    intro hp hsym x hx y hy hxy
    rw [List.pairwise_cons] at hp
    rcases List.mem_cons.1 hx with hx' | hx' <;> rcases List.mem_cons.1 hy with hy' | hy'
    · rw [hx', hy']
    · rw [hx'] at hxy; exact absurd hxy (hp.1 y hy')
    · rw [hy'] at hxy; exact absurd (hsym _ _ hxy) (hp.1 x hx')
    · exact ih hp.2 hsym x hx' y hy' hxy

theorem w1_eq {S : List SubnetDecl} (h : SubsWF S) {s t : SubnetDecl} (hs : s ∈ S) (ht : t ∈ S)
    (hn : s.net = t.net) (ho : s.ones = t.ones) : s = t :=
  pairwise_mem_eq (P := fun s t => s.net = t.net ∧ s.ones = t.ones) h.w1
    (fun _ _ hxy => ⟨hxy.1.symm, hxy.2.symm⟩) s hs t ht ⟨hn, ho⟩

theorem contains_iff' {S : List SubnetDecl} (h : SubsWF S) {s : SubnetDecl} (hs : s ∈ S) (a : Nat) :
    s.contains a = true ↔ s.net ≤ a ∧ a < s.net + 2 ^ (128 - s.ones) := by
  rw [contains_iff, blockStart_aligned (h.aligned s hs)]; rfl

/-- a subnet that contains `a` is of `a`'s family, except the declared `::/0` for an IPv4 `a` -/
theorem fam_of_contains {S : List SubnetDecl} (h : SubsWF S) {s : SubnetDecl} (hs : s ∈ S) {a : Nat}
    (hc : s.contains a = true) :
    s.isV4 = isV4Addr a ∨ (s.net = 0 ∧ s.ones = 0 ∧ isV4Addr a = true) := by
  have hmk : maskN s.net s.ones = s.net := maskN_aligned (h.aligned s hs)
  by_cases ho : 96 ≤ s.ones
  · left
    have hdiv : a / 2 ^ (128 - s.ones) = s.net / 2 ^ (128 - s.ones) := by
      unfold SubnetDecl.contains at hc
      exact of_decide_eq_true hc
    have hma := (div_eq_iff_maskN_eq a s.net s.ones).1 hdiv
    rw [hmk] at hma
    have h4 := isV4Addr_maskN (a := a) ho
    rw [hma] at h4
    unfold SubnetDecl.isV4
    rw [h4]; simp [ho]
  · have hn4 : isV4Addr s.net = false := not_isV4Addr_of_masked (by omega) hmk
    cases hv : isV4Addr a with
    | false => left; unfold SubnetDecl.isV4; rw [hn4]; rfl
    | true =>
      right
      obtain ⟨h1, h2⟩ := (contains_iff' h hs a).1 hc
      obtain ⟨h3, h4⟩ := (isV4Addr_iff a).1 hv
      have hlam := cidr_laminar s.net s.ones firstIPv4 96 (by omega)
      rw [blockStart_aligned (h.aligned s hs)] at hlam
      have e1 : blockStart firstIPv4 96 = firstIPv4 := rfl
      have e2 : blockSize 96 = 4294967296 := rfl
      have e3 : blockSize s.ones = 2 ^ (128 - s.ones) := rfl
      rw [e1, e2, e3] at hlam
      have hw3 := h.w3 s hs
      by_cases h0 : s.net = 0 ∧ s.ones = 0
      · exact ⟨h0.1, h0.2, rfl⟩
      · exfalso
        apply hw3 h0 (fun hf => by omega)
        rw [firstIPv4_val, afterIPv4_val] at *
        generalize 2 ^ (128 - s.ones) = sz at *
        omega

/-- an aligned IPv4 address has a client prefix of at least 96 bits -/
theorem req_ge_of_v4 {a req : Nat} (hal : a % 2 ^ (128 - req) = 0) (hv : isV4Addr a = true) :
    96 ≤ req := by
  refine Nat.le_of_not_lt fun hlt => ?_
  rw [not_isV4Addr_of_masked hlt (maskN_aligned hal)] at hv
  cases hv

/-- a block that reaches `TOP` from at or below `afterIPv4` is the whole space -/
theorem top_sub {S : List SubnetDecl} (h : SubsWF S) {w : SubnetDecl} (hw : w ∈ S)
    (h1 : w.net ≤ afterIPv4) (h2 : TOP ≤ w.net + 2 ^ (128 - w.ones)) : w.net = 0 ∧ w.ones = 0 := by
  have hal := h.aligned w hw
  have hlt := h.net_lt w hw
  have ho : w.ones = 0 := by
    refine Nat.eq_zero_of_not_pos fun hpos => ?_
    have : 2 ^ (128 - w.ones) ≤ 2 ^ 127 := Nat.pow_le_pow_right (by omega) (by omega)
    rw [TOP_val] at h2; rw [afterIPv4_val] at h1
    omega
  rw [ho] at hal
  exact ⟨by omega, ho⟩

/-- a subnet whose block contains `a` and that is short enough qualifies, except the declared `::/0`
for an IPv4 `a` -/
theorem blk_qual {S : List SubnetDecl} (h : SubsWF S) {m : Bytes} (hm : ∀ s ∈ S, s.mapID = m)
    {s : SubnetDecl} (hs : s ∈ S) {a req : Nat} (h1 : s.net ≤ a)
    (h2 : a < s.net + 2 ^ (128 - s.ones)) (h3 : s.ones ≤ req) :
    Qual m (isV4Addr a) a req s ∨ (s.net = 0 ∧ s.ones = 0 ∧ isV4Addr a = true) := by
  have hc := (contains_iff' h hs a).2 ⟨h1, h2⟩
  rcases fam_of_contains h hs hc with hf | hf
  · exact .inl ⟨hm s hs, hf, h3, hc⟩
  · exact .inr hf

end InnerAux

/-! ### deliverable 2 -/

set_option linter.unusedVariables false in
theorem inner_eq_lpm {S : List SubnetDecl} (h : SubsWF S) {m : Bytes} (hm : ∀ s ∈ S, s.mapID = m)
    {a req : Nat} (ha : a < 2 ^ 128) (hreq : req < 256) (hal : a % 2 ^ (128 - req) = 0) {H : Rng}
    (hH : H ∈ famOf S) (hlo : H.lo ≤ a) (hhi : a < H.hi) (hlen : H.len ≤ req)
    (hin : ∀ X ∈ famOf S, X.lo ≤ a → a < X.hi → X.len ≤ req → X.lo ≤ H.lo ∧ H.hi ≤ X.hi) :
    (H.loc, H.len) = lpmRes S m a req := by
  have hcls := mem_famOf' h hH
  unfold lpmRes
  cases hl : lpm S m (isV4Addr a) a req with
  | some w =>
    show (H.loc, H.len) = (some w.loc, w.ones)
    obtain ⟨hwS, hwq, hwmax⟩ := lpm_some hl
    obtain ⟨_, hwf, hwo, hwc⟩ := hwq
    obtain ⟨hw1, hw2⟩ := (contains_iff' h hwS a).1 hwc
    obtain ⟨B, hB, hB1, hB2, hB3, hB4⟩ := blk_mem h hwS
    obtain ⟨hs1, hs2⟩ := hin B hB (by omega) (by omega) (by omega)
    rw [hB1] at hs1; rw [hB2] at hs2
    cases hcls with
    | blk s hs hb =>
      obtain ⟨b1, b2, b3, b4⟩ := hb
      have hsw : s = w := by
        rcases blk_qual h hm hs (a := a) (req := req) (by omega) (by omega) (by omega) with
          hq | ⟨e1, e2, e3⟩
        · have hle := hwmax s hs hq
          have hpow : 2 ^ (128 - s.ones) ≤ 2 ^ (128 - w.ones) := by omega
          have hexp : 128 - s.ones ≤ 128 - w.ones :=
            (Nat.pow_le_pow_iff_right (by omega : 1 < 2)).1 hpow
          have ho : s.ones = w.ones := by
            have := h.ones_le s hs; have := h.ones_le w hwS; omega
          have hn : s.net = w.net := by rw [ho] at b2; omega
          exact w1_eq h hs hwS hn ho
        · -- `w` starts at `::`, so it is not of the IPv4 family, but `a` is
          exfalso
          have hw0 : w.net = 0 := by omega
          have : w.isV4 = false := by simp [SubnetDecl.isV4, hw0, isV4Addr]
          rw [this, e3] at hwf; cases hwf
      subst hsw; rw [b3, b4]
    | half s hs hn0 ho hlo' hhi' hlen' hloc =>
      obtain ⟨e1, e2⟩ := top_sub h hwS (by omega) (by omega)
      have hsw := w1_eq h hs hwS (by omega) (by omega)
      subst hsw; rw [hloc, hlen', ho]
    | r4 he hno =>
      exfalso; subst he
      have hv : isV4Addr a = true := (isV4Addr_iff a).2 ⟨hlo, hhi⟩
      by_cases h0 : w.net = 0 ∧ w.ones = 0
      · have : w.isV4 = false := by simp [SubnetDecl.isV4, h0.2]
        rw [this, hv] at hwf; cases hwf
      · exact h.w3 w hwS h0 (hno w hwS) ⟨hs1, hs2⟩
    | r6a he hno =>
      subst he
      exact absurd (top_sub h hwS (by rw [Nat.le_zero.1 hs1]; exact Nat.zero_le _) hs2) (hno w hwS)
    | r6b he hno => subst he; exact absurd (top_sub h hwS hs1 hs2) (hno w hwS)
  | none =>
    show (H.loc, H.len) = (none, 0)
    have hn := lpm_none.1 hl
    cases hv : isV4Addr a with
    | true =>
      rw [hv] at hn
      obtain ⟨v1, v2⟩ := (isV4Addr_iff a).1 hv
      have hreq96 := req_ge_of_v4 hal hv
      have hno4 : ∀ s ∈ S, ¬ (s.net = firstIPv4 ∧ s.ones = 96) := by
        intro s hs e'
        obtain ⟨e, ho⟩ := e'
        have e32 : (2 : Nat) ^ (128 - 96) = 4294967296 := rfl
        refine hn s hs ⟨hm s hs, ?_, by omega, (contains_iff' h hs a).2 ⟨by omega, ?_⟩⟩
        · unfold SubnetDecl.isV4; rw [e, ho]; rfl
        · rw [e, ho, e32, firstIPv4_val]; rw [afterIPv4_val] at v2; omega
      obtain ⟨hr1, hr2⟩ := hin R4 (R4_mem hno4) v1 v2 (Nat.zero_le _)
      have hr1' : firstIPv4 ≤ H.lo := hr1
      have hr2' : H.hi ≤ afterIPv4 := hr2
      rw [firstIPv4_val] at hr1'; rw [afterIPv4_val] at hr2'
      cases hcls with
      | blk s hs hb =>
        exfalso
        obtain ⟨b1, b2, b3, b4⟩ := hb
        rcases blk_qual h hm hs (a := a) (req := req) (by omega) (by omega) (by omega) with
          hq | ⟨e1, _, _⟩
        · rw [hv] at hq; exact hn s hs hq
        · omega
      | half s hs hn0 ho hlo' hhi' hlen' hloc => exfalso; rw [hhi', TOP_val] at hr2'; omega
      | r4 he _ => subst he; rfl
      | r6a he _ => subst he; exfalso; have : TOP ≤ _ := hr2'; rw [TOP_val] at this; omega
      | r6b he _ => subst he; exfalso; have : TOP ≤ _ := hr2'; rw [TOP_val] at this; omega
    | false =>
      rw [hv] at hn
      cases hcls with
      | blk s hs hb =>
        exfalso
        obtain ⟨b1, b2, b3, b4⟩ := hb
        rcases blk_qual h hm hs (a := a) (req := req) (by omega) (by omega) (by omega) with
          hq | ⟨_, _, e3⟩
        · rw [hv] at hq; exact hn s hs hq
        · rw [hv] at e3; cases e3
      | half s hs hn0 ho hlo' hhi' hlen' hloc =>
        exfalso
        refine hn s hs ⟨hm s hs, ?_, by omega, (contains_iff' h hs a).2 ⟨by omega, ?_⟩⟩
        · unfold SubnetDecl.isV4; rw [hn0, ho]; rfl
        · rw [hn0, ho]; omega
      | r4 he _ =>
        subst he
        have := (isV4Addr_iff a).2 ⟨hlo, hhi⟩
        rw [hv] at this; cases this
      | r6a he _ => subst he; rfl
      | r6b he _ => subst he; rfl

end DnsVerif.Lpm
