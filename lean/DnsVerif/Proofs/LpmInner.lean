/-
C03.4, concrete side: in the family of ranges generated from a well-formed subnet list, the innermost
range that contains an (aligned) address and is no longer than the client prefix carries exactly the
answer of `Spec.lpm`.
-/
import DnsVerif.Proofs.LpmFamWF
import DnsVerif.Proofs.LpmCdb

namespace DnsVerif.Lpm
open DnsVerif DnsVerif.Rearr DnsVerif.Spec

set_option linter.unusedSimpArgs false

/- helper lemmas live in `InnerAux` so that they cannot clash with the other C03.4 files -/
namespace InnerAux

/-! ### literals and small arithmetic -/

theorem isV4Addr_iff (a : Nat) : isV4Addr a = true ↔ 281470681743360 ≤ a ∧ a < 281474976710656 := by
  unfold isV4Addr
  rw [decide_eq_true_iff]
  omega

theorem blockStart_aligned {n o : Nat} (h : n % 2 ^ (128 - o) = 0) : blockStart n o = n := by
  unfold blockStart
  have := Nat.div_add_mod n (2 ^ (128 - o))
  rw [h, Nat.add_zero, Nat.mul_comm] at this
  exact this

theorem maskN_aligned {n o : Nat} (h : n % 2 ^ (128 - o) = 0) : maskN n o = n :=
  blockStart_aligned h

/-- two multiples of `sz` less than `sz` apart are equal -/
theorem mult_between {sz x y : Nat} (hx : x % sz = 0) (hy : y % sz = 0) (h1 : x ≤ y)
    (h2 : y < x + sz) : y = x := by
  have h0 : (y - x) % sz = 0 := Nat.sub_mod_eq_zero_of_mod_eq (by rw [hx, hy])
  rw [Nat.mod_eq_of_lt (by omega)] at h0
  omega

/-- a multiple of `2^(128-req)` is a multiple of the size of every longer block -/
theorem mod_of_longer {a req o : Nat} (ho : o ≤ 128) (hlt : req < o)
    (hal : a % 2 ^ (128 - req) = 0) : a % 2 ^ (128 - o) = 0 := by
  have hk : 2 ^ (128 - req) = 2 ^ (128 - o) * 2 ^ (o - req) := by
    rw [← Nat.pow_add]; congr 1; omega
  rw [hk] at hal
  exact Nat.mod_eq_zero_of_dvd
    (Nat.dvd_trans (Nat.dvd_mul_right _ _) (Nat.dvd_of_mod_eq_zero hal))

theorem contains_iff' {S : List SubnetDecl} (h : SubsWF S) {s : SubnetDecl} (hs : s ∈ S) (a : Nat) :
    s.contains a = true ↔ s.net ≤ a ∧ a < s.net + 2 ^ (128 - s.ones) := by
  rw [contains_iff, blockStart_aligned (h.aligned s hs)]; rfl

/-- a subnet is of the IPv4 family iff its block lies inside `::ffff:0:0/96` -/
theorem isV4_iff {S : List SubnetDecl} (h : SubsWF S) {s : SubnetDecl} (hs : s ∈ S) :
    s.isV4 = true ↔ 281470681743360 ≤ s.net ∧ s.net + 2 ^ (128 - s.ones) ≤ 281474976710656 := by
  have f := subFacts h hs
  have := f.sz_pos; have := f.ge96; have := f.lam4
  unfold SubnetDecl.isV4
  rw [Bool.and_eq_true, isV4Addr_iff, decide_eq_true_iff]
  constructor
  · rintro ⟨⟨h1, h2⟩, h3⟩
    omega
  · rintro ⟨h1, h2⟩
    omega

/-- an aligned IPv4 address has a client prefix of at least 96 bits -/
theorem req_ge_of_v4 {a req : Nat} (hal : a % 2 ^ (128 - req) = 0) (hv : isV4Addr a = true) :
    96 ≤ req := by
  refine Nat.le_of_not_lt fun hlt => ?_
  rw [not_isV4Addr_of_masked hlt (maskN_aligned hal)] at hv
  cases hv

/-- the IPv4 root of the family: the declared `0.0.0.0/0` or the implicit null range -/
theorem v4_root {S : List SubnetDecl} (h : SubsWF S) :
    ∃ V ∈ famF S, V.lo = 281470681743360 ∧ V.hi = 281474976710656 ∧ V.len ≤ 96 := by
  by_cases hv : ∀ s ∈ S, ¬ (s.net = firstIPv4 ∧ s.ones = 96)
  · exact ⟨R4, (mem_famF h).2 (Or.inr (Or.inr (Or.inl ⟨rfl, hv⟩))), rfl, rfl, Nat.zero_le _⟩
  · have : ∃ s ∈ S, s.net = firstIPv4 ∧ s.ones = 96 := by
      refine Classical.byContradiction fun hn => hv fun s hs e => hn ⟨s, hs, e⟩
    obtain ⟨s, hs, h1, h2⟩ := this
    refine ⟨blk s, (mem_famF h).2 (Or.inl ⟨s, hs, rfl⟩), ?_, ?_, ?_⟩
    · show s.net = _; rw [h1]; rfl
    · show s.net + 2 ^ (128 - s.ones) = _; rw [h1, h2]; rfl
    · show s.ones ≤ 96; omega

end InnerAux
open InnerAux

/-! ### deliverable 1 -/

theorem align_hA {S : List SubnetDecl} (h : SubsWF S) {a req : Nat}
    (hal : a % 2 ^ (128 - req) = 0) :
    ∀ R ∈ famF S, R.lo < a → a < R.hi → R.len ≤ req := by
  intro R hR hlo hhi
  rcases (mem_famF h).1 hR with ⟨s, hs, rfl⟩ | ⟨⟨s, hs, h0, rfl⟩, ns⟩ | ⟨rfl, n4⟩ | ⟨rfl, n6⟩ |
      ⟨rfl, n6, ns⟩
  · show s.ones ≤ req
    refine Nat.le_of_not_lt fun hlt => ?_
    have hmod := mod_of_longer (h.ones_le s hs) hlt hal
    have h1 : s.net < a := hlo
    have h2 : a < s.net + 2 ^ (128 - s.ones) := hhi
    have := mult_between (h.aligned s hs) hmod (by omega) (by omega)
    omega
  · show s.ones ≤ req; omega
  · exact Nat.zero_le _
  · exact Nat.zero_le _
  · exact Nat.zero_le _

/-! ### deliverable 2 -/

theorem inner_eq_lpm {S : List SubnetDecl} (h : SubsWF S) {m : Bytes} (hm : ∀ s ∈ S, s.mapID = m)
    {a req : Nat} (hal : a % 2 ^ (128 - req) = 0) {H : Rng}
    (hH : H ∈ famF S) (hlo : H.lo ≤ a) (hhi : a < H.hi) (hlen : H.len ≤ req)
    (hin : ∀ X ∈ famF S, X.lo ≤ a → a < X.hi → X.len ≤ req → X.lo ≤ H.lo ∧ H.hi ≤ X.hi) :
    (H.loc, H.len) = lpmRes S m a req := by
  -- the IPv4 root, for IPv4 addresses
  have hroot : isV4Addr a = true → 281470681743360 ≤ H.lo ∧ H.hi ≤ 281474976710656 := by
    intro hv
    obtain ⟨v1, v2⟩ := (isV4Addr_iff a).1 hv
    obtain ⟨V, hV, e1, e2, e3⟩ := v4_root h
    have hreq := req_ge_of_v4 hal hv
    have := hin V hV (by omega) (by omega) (by omega)
    omega
  unfold lpmRes
  cases hl : lpm S m (isV4Addr a) a req with
  | some w =>
    show (H.loc, H.len) = (some w.loc, w.ones)
    obtain ⟨hwS, hwq, hwmax⟩ := lpm_some hl
    obtain ⟨_, hwf, hwo, hwc⟩ := hwq
    obtain ⟨hw1, hw2⟩ := (contains_iff' h hwS a).1 hwc
    have hB := hin (blk w) ((mem_famF h).2 (Or.inl ⟨w, hwS, rfl⟩)) hw1 hw2 hwo
    simp only [blk] at hB
    have fw := subFacts h hwS
    have := fw.o_le; have := fw.sz_pos; have := fw.hi_le; have := fw.o0; have := fw.o_pos
    have := fw.sz96
    rcases (mem_famF h).1 hH with ⟨s, hs, rfl⟩ | ⟨⟨s, hs, h0, rfl⟩, ns⟩ | ⟨rfl, n4⟩ | ⟨rfl, n6⟩ |
        ⟨rfl, n6, ns⟩
    · -- a block: its subnet qualifies, hence it is `w`
      simp only [blk] at hlo hhi hlen hB ⊢
      have hsc := (contains_iff' h hs a).2 ⟨hlo, hhi⟩
      have hsv : s.isV4 = isV4Addr a := by
        cases hv : isV4Addr a with
        | true =>
          rw [hv] at hwf
          have := (isV4_iff h hwS).1 hwf
          exact (isV4_iff h hs).2 (by omega)
        | false =>
          cases hs4 : s.isV4 with
          | false => rfl
          | true =>
            have := (isV4_iff h hs).1 hs4
            have : isV4Addr a = true := (isV4Addr_iff a).2 (by omega)
            rw [hv] at this; cases this
      have hle := hwmax s hs ⟨hm s hs, hsv, hlen, hsc⟩
      have p := pairFacts h hs hwS
      have := p.le1; have := p.eqo
      have fs := subFacts h hs
      have := fs.sz_pos
      have ho : s.ones = w.ones := by omega
      have hn : s.net = w.net := by have := p.eqo ho; omega
      have := w1_inj h hs hwS hn ho
      subst this; rfl
    · -- the upper half of `::/0`
      simp only [half, TOP_eq, afterIPv4_eq] at hB ⊢
      have := w1_inj h hs hwS (by omega) (by omega)
      subst this; rfl
    · exfalso
      simp only [R4, firstIPv4_eq, afterIPv4_eq] at hlo hhi hB
      have hv : isV4Addr a = true := (isV4Addr_iff a).2 ⟨hlo, hhi⟩
      rw [hv] at hwf
      have := (isV4_iff h hwS).1 hwf
      have := n4 w hwS
      rw [firstIPv4_eq] at this
      omega
    · exfalso
      simp only [R6a, TOP_eq] at hB
      exact n6 w hwS (by omega)
    · exfalso
      simp only [R6b, TOP_eq, afterIPv4_eq] at hB
      exact n6 w hwS (by omega)
  | none =>
    show (H.loc, H.len) = (none, 0)
    have hn := lpm_none.1 hl
    rcases (mem_famF h).1 hH with ⟨s, hs, rfl⟩ | ⟨⟨s, hs, h0, rfl⟩, ns⟩ | ⟨rfl, n4⟩ | ⟨rfl, n6⟩ |
        ⟨rfl, n6, ns⟩
    · exfalso
      simp only [blk] at hlo hhi hlen hroot
      have hsc := (contains_iff' h hs a).2 ⟨hlo, hhi⟩
      refine hn s hs ⟨hm s hs, ?_, hlen, hsc⟩
      cases hv : isV4Addr a with
      | true => exact (isV4_iff h hs).2 (hroot hv)
      | false =>
        cases hs4 : s.isV4 with
        | false => rfl
        | true =>
          have := (isV4_iff h hs).1 hs4
          have : isV4Addr a = true := (isV4Addr_iff a).2 (by omega)
          rw [hv] at this; cases this
    · exfalso
      simp only [half, TOP_eq, afterIPv4_eq] at hlo hhi hlen
      have hv : isV4Addr a = false := by
        cases hv : isV4Addr a with
        | false => rfl
        | true => have := (isV4Addr_iff a).1 hv; omega
      refine hn s hs ⟨hm s hs, ?_, by omega, (contains_iff' h hs a).2 ⟨by omega, ?_⟩⟩
      · rw [hv]; unfold SubnetDecl.isV4; rw [h0.2]; simp
      · rw [h0.1, h0.2]; show a < 0 + 2 ^ 128; rw [two_pow_128]; omega
    · rfl
    · rfl
    · rfl

end DnsVerif.Lpm
