/-
Helper lemmas for C05: invariants of the generation-switching model `Model/Reload.lean`,
preserved by every step, hence valid after every interleaving.
-/
import DnsVerif.Model.Reload

namespace DnsVerif.Reload

/-! ### structural invariant (every schedule) -/

structure Inv0 (s : Srv) : Prop where
  served_last : s.served + 1 = s.ninst
  served_path : (s.insts s.served).path = s.path
  q_inst : ∀ i, i < s.nq → (s.queries i).inst < s.ninst
  q_sorted : ∀ i j, i < j → j < s.nq → (s.queries i).inst ≤ (s.queries j).inst
  /-- reads through an instance that was never caught up in place all saw its one content -/
  q_frozen : ∀ i, i < s.nq → (s.insts (s.queries i).inst).catchups = 0 →
    ∀ r ∈ (s.queries i).reads, r = (s.insts (s.queries i).inst).gen
  cdb_frozen : s.backend = .cdb → ∀ k, (s.insts k).catchups = 0

theorem inv0_init (b : Backend) (disk : Nat → Option Nat) (p g : Nat) : Inv0 (init b disk p g) where
  served_last := rfl
  served_path := rfl
  q_inst := fun i hi => absurd hi (Nat.not_lt_zero i)
  q_sorted := fun i j _ hj => absurd hj (Nat.not_lt_zero j)
  q_frozen := fun i hi => absurd hi (Nat.not_lt_zero i)
  cdb_frozen := fun _ _ => rfl

theorem inv0_qstart {s : Srv} (h : Inv0 s) : Inv0 (step s .qstart) := by
  have hs : s.served < s.ninst := by have := h.served_last; omega
  refine ⟨h.served_last, h.served_path, ?_, ?_, ?_, h.cdb_frozen⟩
  · intro i hi
    show (setAt s.queries s.nq _ i).inst < s.ninst
    by_cases e : i = s.nq
    · subst e; rw [setAt_same]; exact hs
    · rw [setAt_other _ _ _ _ e]; exact h.q_inst i (by have : i < s.nq + 1 := hi; omega)
  · intro i j hij hj
    show (setAt s.queries s.nq _ i).inst ≤ (setAt s.queries s.nq _ j).inst
    have hj' : j < s.nq + 1 := hj
    have ei : i ≠ s.nq := by omega
    rw [setAt_other _ _ _ _ ei]
    by_cases e : j = s.nq
    · subst e; rw [setAt_same]
      have := h.q_inst i (by omega); have hl := h.served_last
      show (s.queries i).inst ≤ s.served; omega
    · rw [setAt_other _ _ _ _ e]; exact h.q_sorted i j hij (by omega)
  · intro i hi
    show (s.insts (setAt s.queries s.nq _ i).inst).catchups = 0 →
      ∀ r ∈ (setAt s.queries s.nq _ i).reads, r = (s.insts (setAt s.queries s.nq _ i).inst).gen
    by_cases e : i = s.nq
    · subst e; rw [setAt_same]; intro _ r hr; cases hr
    · rw [setAt_other _ _ _ _ e]; exact h.q_frozen i (by have : i < s.nq + 1 := hi; omega)

theorem step_qread_eq (s : Srv) (i : Nat) (hi : i < s.nq) (hd : (s.queries i).done = false) :
    step s (.qread i) =
      { s with queries := (setAt s.queries i
          { (s.queries i) with reads := (s.queries i).reads ++ [(s.insts (s.queries i).inst).gen] }) } := by
  simp only [step]; rw [if_pos ⟨hi, hd⟩]

theorem step_qread_skip (s : Srv) (i : Nat) (h : ¬ (i < s.nq ∧ (s.queries i).done = false)) :
    step s (.qread i) = s := by
  simp only [step]; rw [if_neg h]

theorem inv0_qread {s : Srv} (h : Inv0 s) (i : Nat) : Inv0 (step s (.qread i)) := by
  by_cases c : i < s.nq ∧ (s.queries i).done = false
  · rw [step_qread_eq s i c.1 c.2]
    refine ⟨h.served_last, h.served_path, ?_, ?_, ?_, h.cdb_frozen⟩
    · intro j hj
      show (setAt s.queries i _ j).inst < s.ninst
      by_cases e : j = i
      · subst e; rw [setAt_same]; exact h.q_inst j hj
      · rw [setAt_other _ _ _ _ e]; exact h.q_inst j hj
    · intro a b hab hb
      show (setAt s.queries i _ a).inst ≤ (setAt s.queries i _ b).inst
      have h1 : ∀ x, (setAt s.queries i
          { (s.queries i) with reads := (s.queries i).reads ++ [(s.insts (s.queries i).inst).gen] } x).inst
          = (s.queries x).inst := by
        intro x; by_cases e : x = i
        · subst e; rw [setAt_same]
        · rw [setAt_other _ _ _ _ e]
      rw [h1, h1]; exact h.q_sorted a b hab hb
    · intro j hj
      show (s.insts (setAt s.queries i _ j).inst).catchups = 0 →
        ∀ r ∈ (setAt s.queries i _ j).reads, r = (s.insts (setAt s.queries i _ j).inst).gen
      by_cases e : j = i
      · subst e; rw [setAt_same]
        intro hc r hr
        rcases List.mem_append.1 hr with hr | hr
        · exact h.q_frozen j hj hc r hr
        · exact List.mem_singleton.1 hr
      · rw [setAt_other _ _ _ _ e]; exact h.q_frozen j hj
  · rw [step_qread_skip s i c]; exact h

theorem step_qfinish_eq (s : Srv) (i : Nat) (hi : i < s.nq) :
    step s (.qfinish i) =
      { s with queries := setAt s.queries i { (s.queries i) with done := true } } := by
  simp only [step]; rw [if_pos hi]

theorem step_qfinish_skip (s : Srv) (i : Nat) (h : ¬ i < s.nq) : step s (.qfinish i) = s := by
  simp only [step]; rw [if_neg h]

/-- a query record after `qfinish`/`qread` differs only in `reads`/`done` -/
theorem setAt_done_proj (s : Srv) (i x : Nat) :
    (setAt s.queries i { (s.queries i) with done := true } x).inst = (s.queries x).inst ∧
    (setAt s.queries i { (s.queries i) with done := true } x).reads = (s.queries x).reads ∧
    (setAt s.queries i { (s.queries i) with done := true } x).startGen = (s.queries x).startGen := by
  by_cases e : x = i
  · subst e; rw [setAt_same]; exact ⟨rfl, rfl, rfl⟩
  · rw [setAt_other _ _ _ _ e]; exact ⟨rfl, rfl, rfl⟩

theorem inv0_qfinish {s : Srv} (h : Inv0 s) (i : Nat) : Inv0 (step s (.qfinish i)) := by
  by_cases c : i < s.nq
  · rw [step_qfinish_eq s i c]
    refine ⟨h.served_last, h.served_path, ?_, ?_, ?_, h.cdb_frozen⟩
    · intro j hj
      show (setAt s.queries i _ j).inst < s.ninst
      rw [(setAt_done_proj s i j).1]; exact h.q_inst j hj
    · intro a b hab hb
      show (setAt s.queries i _ a).inst ≤ (setAt s.queries i _ b).inst
      rw [(setAt_done_proj s i a).1, (setAt_done_proj s i b).1]; exact h.q_sorted a b hab hb
    · intro j hj
      show (s.insts (setAt s.queries i _ j).inst).catchups = 0 →
        ∀ r ∈ (setAt s.queries i _ j).reads, r = (s.insts (setAt s.queries i _ j).inst).gen
      rw [(setAt_done_proj s i j).1, (setAt_done_proj s i j).2.1]; exact h.q_frozen j hj
  · rw [step_qfinish_skip s i c]; exact h

theorem inv0_publish {s : Srv} (h : Inv0 s) (p g : Nat) : Inv0 (step s (.publish p g)) :=
  ⟨h.served_last, h.served_path, h.q_inst, h.q_sorted, h.q_frozen, h.cdb_frozen⟩

/-! the two effects of a reload -/

theorem inv0_switchTo {s : Srv} (h : Inv0 s) (p d : Nat) : Inv0 (switchTo s p d) := by
  refine ⟨rfl, ?_, ?_, h.q_sorted, ?_, ?_⟩
  · show (setAt s.insts s.ninst _ s.ninst).path = p
    rw [setAt_same]
  · intro i hi
    have := h.q_inst i hi
    show (s.queries i).inst < s.ninst + 1
    omega
  · intro i hi
    have hlt := h.q_inst i hi
    have e : (s.queries i).inst ≠ s.ninst := by omega
    show (setAt s.insts s.ninst _ (s.queries i).inst).catchups = 0 →
      ∀ r ∈ (s.queries i).reads, r = (setAt s.insts s.ninst _ (s.queries i).inst).gen
    rw [setAt_other _ _ _ _ e]; exact h.q_frozen i hi
  · intro hb k
    show (setAt s.insts s.ninst _ k).catchups = 0
    by_cases e : k = s.ninst
    · subst e; rw [setAt_same]
    · rw [setAt_other _ _ _ _ e]; exact h.cdb_frozen hb k

theorem inv0_catchupServed {s : Srv} (h : Inv0 s) (hb : s.backend = .rdb) (d : Nat) :
    Inv0 (catchupServed s d) := by
  refine ⟨h.served_last, ?_, h.q_inst, h.q_sorted, ?_, ?_⟩
  · show (setAt s.insts s.served _ s.served).path = s.path
    rw [setAt_same]; exact h.served_path
  · intro i hi
    show (setAt s.insts s.served _ (s.queries i).inst).catchups = 0 →
      ∀ r ∈ (s.queries i).reads, r = (setAt s.insts s.served _ (s.queries i).inst).gen
    by_cases e : (s.queries i).inst = s.served
    · rw [e, setAt_same]; intro hc; simp at hc
    · rw [setAt_other _ _ _ _ e]; exact h.q_frozen i hi
  · intro hc; change s.backend = .cdb at hc; rw [hb] at hc; cases hc

theorem isCatchup_rdb {s : Srv} {k : Kind} (h : isCatchup s k = true) :
    s.backend = .rdb ∧ target s k = (s.insts s.served).path := by
  simp only [isCatchup, Bool.and_eq_true, decide_eq_true_eq, beq_iff_eq] at h
  exact h

theorem reload_none {s : Srv} {k : Kind} {o : Outcome} (hd : s.disk (target s k) = none) :
    reload s k o = s := by
  simp only [reload, hd]

theorem reload_catch_eq {s : Srv} {k : Kind} {o : Outcome} {d : Nat}
    (hd : s.disk (target s k) = some d) (hc : isCatchup s k = true) :
    reload s k o = (match o with
      | .ok => { catchupServed s d with path := target s k }
      | .validationKeyMissing => catchupServed s d
      | .timeout => catchupServed s d
      | .missingPath => s
      | .openError => s) := by
  cases o <;> simp only [reload, hd, hc, ↓reduceIte]

theorem reload_switch_eq {s : Srv} {k : Kind} {o : Outcome} {d : Nat}
    (hd : s.disk (target s k) = some d) (hc : isCatchup s k = false) :
    reload s k o = (match o with
      | .ok => switchTo s (target s k) d
      | _ => s) := by
  cases o <;> simp only [reload, hd, hc, Bool.false_eq_true, ↓reduceIte]

/-- what a reload step does, as a case list -/
theorem reload_cases (s : Srv) (k : Kind) (o : Outcome) :
    reload s k o = s ∨
    (∃ d, s.disk (target s k) = some d ∧ isCatchup s k = true ∧
        (o = .validationKeyMissing ∨ o = .timeout) ∧ reload s k o = catchupServed s d) ∨
    (∃ d, s.disk (target s k) = some d ∧ isCatchup s k = true ∧ o = .ok ∧
        reload s k o = { catchupServed s d with path := target s k }) ∨
    (∃ d, s.disk (target s k) = some d ∧ isCatchup s k = false ∧ o = .ok ∧
        reload s k o = switchTo s (target s k) d) := by
  cases hd : s.disk (target s k) with
  | none => exact Or.inl (reload_none hd)
  | some d =>
    cases hc : isCatchup s k with
    | true =>
      have e := reload_catch_eq (o := o) hd hc
      cases o with
      | ok => exact Or.inr (Or.inr (Or.inl ⟨d, rfl, rfl, rfl, e⟩))
      | validationKeyMissing => exact Or.inr (Or.inl ⟨d, rfl, rfl, Or.inl rfl, e⟩)
      | timeout => exact Or.inr (Or.inl ⟨d, rfl, rfl, Or.inr rfl, e⟩)
      | missingPath => exact Or.inl e
      | openError => exact Or.inl e
    | false =>
      have e := reload_switch_eq (o := o) hd hc
      cases o with
      | ok => exact Or.inr (Or.inr (Or.inr ⟨d, rfl, rfl, rfl, e⟩))
      | validationKeyMissing => exact Or.inl e
      | timeout => exact Or.inl e
      | missingPath => exact Or.inl e
      | openError => exact Or.inl e

theorem inv0_reload {s : Srv} (h : Inv0 s) (k : Kind) (o : Outcome) : Inv0 (reload s k o) := by
  rcases reload_cases s k o with e | ⟨d, _, hc, _, e⟩ | ⟨d, _, hc, _, e⟩ | ⟨d, _, _, _, e⟩
  · rw [e]; exact h
  · rw [e]; exact inv0_catchupServed h (isCatchup_rdb hc).1 d
  · rw [e]
    have h' := inv0_catchupServed h (isCatchup_rdb hc).1 d
    refine ⟨h'.served_last, ?_, h'.q_inst, h'.q_sorted, h'.q_frozen, h'.cdb_frozen⟩
    show (setAt s.insts s.served _ s.served).path = target s k
    rw [setAt_same]; exact (isCatchup_rdb hc).2.symm
  · rw [e]; exact inv0_switchTo h _ d

theorem inv0_step {s : Srv} (h : Inv0 s) (st : Step) : Inv0 (step s st) := by
  cases st with
  | qstart => exact inv0_qstart h
  | qread i => exact inv0_qread h i
  | qfinish i => exact inv0_qfinish h i
  | reload k o => exact inv0_reload h k o
  | publish p g => exact inv0_publish h p g

theorem inv0_run {s : Srv} (h : Inv0 s) (steps : List Step) : Inv0 (run s steps) := by
  induction steps generalizing s with
  | nil => exact h
  | cons st rest ih => exact ih (inv0_step h st)

theorem run_append (s : Srv) (a b : List Step) : run s (a ++ b) = run (run s a) b := by
  simp [run, List.foldl_append]

theorem run_cons (s : Srv) (a : Step) (b : List Step) : run s (a :: b) = run (step s a) b := rfl

theorem forward_append (s : Srv) (a b : List Step) :
    forward s (a ++ b) = (forward s a && forward (run s a) b) := by
  induction a generalizing s with
  | nil => simp [forward, run]
  | cons x r ih => simp only [List.cons_append, forward, run_cons, ih, Bool.and_assoc]

/-! ### the backend kind never changes -/

theorem backend_step (s : Srv) (st : Step) : (step s st).backend = s.backend := by
  cases st with
  | qstart => rfl
  | qread i =>
    by_cases c : i < s.nq ∧ (s.queries i).done = false
    · rw [step_qread_eq s i c.1 c.2]
    · rw [step_qread_skip s i c]
  | qfinish i =>
    by_cases c : i < s.nq
    · rw [step_qfinish_eq s i c]
    · rw [step_qfinish_skip s i c]
  | publish p g => rfl
  | reload k o =>
    show (reload s k o).backend = s.backend
    rcases reload_cases s k o with e | ⟨d, _, _, _, e⟩ | ⟨d, _, _, _, e⟩ | ⟨d, _, _, _, e⟩ <;>
      rw [e] <;> rfl

theorem backend_run (s : Srv) (steps : List Step) : (run s steps).backend = s.backend := by
  induction steps generalizing s with
  | nil => rfl
  | cons st rest ih => rw [run_cons, ih, backend_step]

/-! ### ordering invariant (forward-moving operator) -/

structure Inv1 (s : Srv) : Prop where
  disk_ge : ∀ k, k < s.ninst → ∃ d, s.disk (s.insts k).path = some d ∧ (s.insts k).gen ≤ d
  gen_le_served : ∀ k, k < s.ninst → (s.insts k).gen ≤ servedGen s
  q_lo : ∀ i, i < s.nq → ∀ r ∈ (s.queries i).reads, (s.queries i).startGen ≤ r
  q_hi : ∀ i, i < s.nq → ∀ r ∈ (s.queries i).reads, r ≤ (s.insts (s.queries i).inst).gen
  q_start_hi : ∀ i, i < s.nq → (s.queries i).startGen ≤ (s.insts (s.queries i).inst).gen
  q_below : ∀ j, j < s.nq → ∀ k, k < (s.queries j).inst → (s.insts k).gen ≤ (s.queries j).startGen

theorem inv1_init (b : Backend) (disk : Nat → Option Nat) (p g : Nat) : Inv1 (init b disk p g) where
  disk_ge := fun k _ => ⟨g, by simp [init], Nat.le_refl _⟩
  gen_le_served := fun k _ => Nat.le_refl _
  q_lo := fun i hi => absurd hi (Nat.not_lt_zero i)
  q_hi := fun i hi => absurd hi (Nat.not_lt_zero i)
  q_start_hi := fun i hi => absurd hi (Nat.not_lt_zero i)
  q_below := fun i hi => absurd hi (Nat.not_lt_zero i)

theorem inv1_qstart {s : Srv} (h0 : Inv0 s) (h : Inv1 s) : Inv1 (step s .qstart) := by
  have hs : s.served < s.ninst := by have := h0.served_last; omega
  refine ⟨h.disk_ge, h.gen_le_served, ?_, ?_, ?_, ?_⟩
  · intro i hi
    show ∀ r ∈ (setAt s.queries s.nq _ i).reads, (setAt s.queries s.nq _ i).startGen ≤ r
    by_cases e : i = s.nq
    · subst e; rw [setAt_same]; intro r hr; cases hr
    · rw [setAt_other _ _ _ _ e]; exact h.q_lo i (by have : i < s.nq + 1 := hi; omega)
  · intro i hi
    show ∀ r ∈ (setAt s.queries s.nq _ i).reads, r ≤ (s.insts (setAt s.queries s.nq _ i).inst).gen
    by_cases e : i = s.nq
    · subst e; rw [setAt_same]; intro r hr; cases hr
    · rw [setAt_other _ _ _ _ e]; exact h.q_hi i (by have : i < s.nq + 1 := hi; omega)
  · intro i hi
    show (setAt s.queries s.nq _ i).startGen ≤ (s.insts (setAt s.queries s.nq _ i).inst).gen
    by_cases e : i = s.nq
    · subst e; rw [setAt_same]; exact Nat.le_refl _
    · rw [setAt_other _ _ _ _ e]; exact h.q_start_hi i (by have : i < s.nq + 1 := hi; omega)
  · intro i hi
    show ∀ k, k < (setAt s.queries s.nq _ i).inst → (s.insts k).gen ≤ (setAt s.queries s.nq _ i).startGen
    by_cases e : i = s.nq
    · subst e; rw [setAt_same]; intro k hk
      exact h.gen_le_served k (by have : k < s.served := hk; omega)
    · rw [setAt_other _ _ _ _ e]; exact h.q_below i (by have : i < s.nq + 1 := hi; omega)

theorem inv1_qread {s : Srv} (h : Inv1 s) (i : Nat) : Inv1 (step s (.qread i)) := by
  by_cases c : i < s.nq ∧ (s.queries i).done = false
  · rw [step_qread_eq s i c.1 c.2]
    refine ⟨h.disk_ge, h.gen_le_served, ?_, ?_, ?_, ?_⟩
    · intro j hj
      show ∀ r ∈ (setAt s.queries i _ j).reads, (setAt s.queries i _ j).startGen ≤ r
      by_cases e : j = i
      · subst e; rw [setAt_same]; intro r hr
        rcases List.mem_append.1 hr with hr | hr
        · exact h.q_lo j hj r hr
        · rw [List.mem_singleton.1 hr]; exact h.q_start_hi j hj
      · rw [setAt_other _ _ _ _ e]; exact h.q_lo j hj
    · intro j hj
      show ∀ r ∈ (setAt s.queries i _ j).reads, r ≤ (s.insts (setAt s.queries i _ j).inst).gen
      by_cases e : j = i
      · subst e; rw [setAt_same]; intro r hr
        rcases List.mem_append.1 hr with hr | hr
        · exact h.q_hi j hj r hr
        · rw [List.mem_singleton.1 hr]; exact Nat.le_refl _
      · rw [setAt_other _ _ _ _ e]; exact h.q_hi j hj
    · intro j hj
      show (setAt s.queries i _ j).startGen ≤ (s.insts (setAt s.queries i _ j).inst).gen
      by_cases e : j = i
      · subst e; rw [setAt_same]; exact h.q_start_hi j hj
      · rw [setAt_other _ _ _ _ e]; exact h.q_start_hi j hj
    · intro j hj
      show ∀ k, k < (setAt s.queries i _ j).inst → (s.insts k).gen ≤ (setAt s.queries i _ j).startGen
      by_cases e : j = i
      · subst e; rw [setAt_same]; exact h.q_below j hj
      · rw [setAt_other _ _ _ _ e]; exact h.q_below j hj
  · rw [step_qread_skip s i c]; exact h

theorem inv1_qfinish {s : Srv} (h : Inv1 s) (i : Nat) : Inv1 (step s (.qfinish i)) := by
  by_cases c : i < s.nq
  · rw [step_qfinish_eq s i c]
    refine ⟨h.disk_ge, h.gen_le_served, ?_, ?_, ?_, ?_⟩
    · intro j hj
      show ∀ r ∈ (setAt s.queries i _ j).reads, (setAt s.queries i _ j).startGen ≤ r
      rw [(setAt_done_proj s i j).2.1, (setAt_done_proj s i j).2.2]; exact h.q_lo j hj
    · intro j hj
      show ∀ r ∈ (setAt s.queries i _ j).reads, r ≤ (s.insts (setAt s.queries i _ j).inst).gen
      rw [(setAt_done_proj s i j).2.1, (setAt_done_proj s i j).1]; exact h.q_hi j hj
    · intro j hj
      show (setAt s.queries i _ j).startGen ≤ (s.insts (setAt s.queries i _ j).inst).gen
      rw [(setAt_done_proj s i j).2.2, (setAt_done_proj s i j).1]; exact h.q_start_hi j hj
    · intro j hj
      show ∀ k, k < (setAt s.queries i _ j).inst → (s.insts k).gen ≤ (setAt s.queries i _ j).startGen
      rw [(setAt_done_proj s i j).2.2, (setAt_done_proj s i j).1]; exact h.q_below j hj
  · rw [step_qfinish_skip s i c]; exact h

theorem inv1_publish {s : Srv} (h : Inv1 s) (p g : Nat) (hf : fwd1 s (.publish p g) = true) :
    Inv1 (step s (.publish p g)) := by
  refine ⟨?_, h.gen_le_served, h.q_lo, h.q_hi, h.q_start_hi, h.q_below⟩
  intro k hk
  obtain ⟨d, hd, hle⟩ := h.disk_ge k hk
  show ∃ d', (if (s.insts k).path = p then some g else s.disk (s.insts k).path) = some d' ∧ _
  by_cases e : (s.insts k).path = p
  · rw [if_pos e]
    refine ⟨g, rfl, ?_⟩
    simp only [fwd1] at hf
    rw [← e, hd] at hf
    have : d ≤ g := by simpa using hf
    exact Nat.le_trans hle this
  · rw [if_neg e]; exact ⟨d, hd, hle⟩

/-- in-place catch-up of the served instance to what is on disk at its path -/
theorem inv1_catchupServed {s : Srv} (h0 : Inv0 s) (h : Inv1 s) (d : Nat)
    (hd : s.disk (s.insts s.served).path = some d) : Inv1 (catchupServed s d) := by
  have hs : s.served < s.ninst := by have := h0.served_last; omega
  have hge : servedGen s ≤ d := by
    obtain ⟨d', hd', hle⟩ := h.disk_ge s.served hs
    rw [hd] at hd'; cases hd'; exact hle
  have hsg : servedGen (catchupServed s d) = d := by
    show (setAt s.insts s.served _ s.served).gen = d
    rw [setAt_same]
  have hgen : ∀ k, (s.insts k).gen ≤ ((catchupServed s d).insts k).gen := by
    intro k
    show (s.insts k).gen ≤ (setAt s.insts s.served _ k).gen
    by_cases e : k = s.served
    · rw [e, setAt_same]; exact hge
    · rw [setAt_other _ _ _ _ e]; exact Nat.le_refl _
  refine ⟨?_, ?_, h.q_lo, ?_, ?_, ?_⟩
  · intro k hk
    show ∃ d', s.disk (setAt s.insts s.served _ k).path = some d' ∧ (setAt s.insts s.served _ k).gen ≤ d'
    by_cases e : k = s.served
    · rw [e, setAt_same]; exact ⟨d, hd, Nat.le_refl _⟩
    · rw [setAt_other _ _ _ _ e]; exact h.disk_ge k hk
  · intro k hk
    rw [hsg]
    show (setAt s.insts s.served _ k).gen ≤ d
    by_cases e : k = s.served
    · rw [e, setAt_same]; exact Nat.le_refl _
    · rw [setAt_other _ _ _ _ e]; exact Nat.le_trans (h.gen_le_served k hk) hge
  · intro i hi r hr
    exact Nat.le_trans (h.q_hi i hi r hr) (hgen _)
  · intro i hi
    exact Nat.le_trans (h.q_start_hi i hi) (hgen _)
  · intro j hj k hk
    have := h0.q_inst j hj
    have hl := h0.served_last
    have e : k ≠ s.served := by have : k < (s.queries j).inst := hk; omega
    show (setAt s.insts s.served _ k).gen ≤ (s.queries j).startGen
    rw [setAt_other _ _ _ _ e]; exact h.q_below j hj k hk

theorem inv1_switchTo {s : Srv} (h0 : Inv0 s) (h : Inv1 s) (p d : Nat)
    (hd : s.disk p = some d) (hge : servedGen s ≤ d) : Inv1 (switchTo s p d) := by
  have hsg : servedGen (switchTo s p d) = d := by
    show (setAt s.insts s.ninst _ s.ninst).gen = d
    rw [setAt_same]
  have hq : ∀ i, i < s.nq → (switchTo s p d).insts (s.queries i).inst = s.insts (s.queries i).inst := by
    intro i hi
    have := h0.q_inst i hi
    have e : (s.queries i).inst ≠ s.ninst := by omega
    show setAt s.insts s.ninst _ (s.queries i).inst = _
    rw [setAt_other _ _ _ _ e]
  refine ⟨?_, ?_, h.q_lo, ?_, ?_, ?_⟩
  · intro k hk
    show ∃ d', s.disk (setAt s.insts s.ninst _ k).path = some d' ∧ (setAt s.insts s.ninst _ k).gen ≤ d'
    by_cases e : k = s.ninst
    · rw [e, setAt_same]; exact ⟨d, hd, Nat.le_refl _⟩
    · rw [setAt_other _ _ _ _ e]
      exact h.disk_ge k (by have : k < s.ninst + 1 := hk; omega)
  · intro k hk
    rw [hsg]
    show (setAt s.insts s.ninst _ k).gen ≤ d
    by_cases e : k = s.ninst
    · rw [e, setAt_same]; exact Nat.le_refl _
    · rw [setAt_other _ _ _ _ e]
      exact Nat.le_trans (h.gen_le_served k (by have : k < s.ninst + 1 := hk; omega)) hge
  · intro i hi
    show ∀ r ∈ (s.queries i).reads, r ≤ ((switchTo s p d).insts (s.queries i).inst).gen
    rw [hq i hi]; exact h.q_hi i hi
  · intro i hi
    show (s.queries i).startGen ≤ ((switchTo s p d).insts (s.queries i).inst).gen
    rw [hq i hi]; exact h.q_start_hi i hi
  · intro j hj k hk
    have := h0.q_inst j hj
    have e : k ≠ s.ninst := by have : k < (s.queries j).inst := hk; omega
    show (setAt s.insts s.ninst _ k).gen ≤ (s.queries j).startGen
    rw [setAt_other _ _ _ _ e]; exact h.q_below j hj k hk

theorem fwd1_reload_ok {s : Srv} {k : Kind} {d : Nat} (hf : fwd1 s (.reload k .ok) = true)
    (hd : s.disk (target s k) = some d) : servedGen s ≤ d := by
  simp only [fwd1] at hf
  rw [hd] at hf
  simpa using hf

theorem inv1_reload {s : Srv} (h0 : Inv0 s) (h : Inv1 s) (k : Kind) (o : Outcome)
    (hf : fwd1 s (.reload k o) = true) : Inv1 (reload s k o) := by
  rcases reload_cases s k o with e | ⟨d, hd, hc, _, e⟩ | ⟨d, hd, hc, _, e⟩ | ⟨d, hd, _, ho, e⟩
  · rw [e]; exact h
  · rw [e]; rw [(isCatchup_rdb hc).2] at hd; exact inv1_catchupServed h0 h d hd
  · rw [e]; rw [(isCatchup_rdb hc).2] at hd
    have h' := inv1_catchupServed h0 h d hd
    exact ⟨h'.disk_ge, h'.gen_le_served, h'.q_lo, h'.q_hi, h'.q_start_hi, h'.q_below⟩
  · rw [e]; subst ho; exact inv1_switchTo h0 h _ d hd (fwd1_reload_ok hf hd)

theorem inv1_step {s : Srv} (h0 : Inv0 s) (h : Inv1 s) (st : Step) (hf : fwd1 s st = true) :
    Inv1 (step s st) := by
  cases st with
  | qstart => exact inv1_qstart h0 h
  | qread i => exact inv1_qread h i
  | qfinish i => exact inv1_qfinish h i
  | reload k o => exact inv1_reload h0 h k o hf
  | publish p g => exact inv1_publish h p g hf

theorem inv1_run {s : Srv} (h0 : Inv0 s) (h : Inv1 s) (steps : List Step)
    (hf : forward s steps = true) : Inv1 (run s steps) := by
  induction steps generalizing s with
  | nil => exact h
  | cons st rest ih =>
    simp only [forward, Bool.and_eq_true] at hf
    exact ih (inv0_step h0 st) (inv1_step h0 h st hf.1) hf.2

/-! ### monotonicity of what is served and of query bookkeeping -/

theorem nq_step_le (s : Srv) (st : Step) : s.nq ≤ (step s st).nq := by
  cases st with
  | qstart => exact Nat.le_succ _
  | qread i =>
    by_cases c : i < s.nq ∧ (s.queries i).done = false
    · rw [step_qread_eq s i c.1 c.2]; exact Nat.le_refl _
    · rw [step_qread_skip s i c]; exact Nat.le_refl _
  | qfinish i =>
    by_cases c : i < s.nq
    · rw [step_qfinish_eq s i c]; exact Nat.le_refl _
    · rw [step_qfinish_skip s i c]; exact Nat.le_refl _
  | reload k o =>
    show s.nq ≤ (reload s k o).nq
    rcases reload_cases s k o with e | ⟨d, _, _, _, e⟩ | ⟨d, _, _, _, e⟩ | ⟨d, _, _, _, e⟩ <;>
      rw [e] <;> exact Nat.le_refl _
  | publish p g => exact Nat.le_refl _

theorem servedGen_step_le {s : Srv} (h0 : Inv0 s) (h : Inv1 s) (st : Step)
    (hf : fwd1 s st = true) : servedGen s ≤ servedGen (step s st) := by
  have hs : s.served < s.ninst := by have := h0.served_last; omega
  have h1 := inv1_step h0 h st hf
  cases st with
  | qstart => exact Nat.le_refl _
  | qread i =>
    by_cases c : i < s.nq ∧ (s.queries i).done = false
    · rw [step_qread_eq s i c.1 c.2]; exact Nat.le_refl _
    · rw [step_qread_skip s i c]; exact Nat.le_refl _
  | qfinish i =>
    by_cases c : i < s.nq
    · rw [step_qfinish_eq s i c]; exact Nat.le_refl _
    · rw [step_qfinish_skip s i c]; exact Nat.le_refl _
  | publish p g => exact Nat.le_refl _
  | reload k o =>
    show servedGen s ≤ servedGen (reload s k o)
    rcases reload_cases s k o with e | ⟨d, hd, hc, _, e⟩ | ⟨d, hd, hc, _, e⟩ | ⟨d, hd, _, ho, e⟩
    · rw [e]; exact Nat.le_refl _
    · rw [e]
      rw [(isCatchup_rdb hc).2] at hd
      obtain ⟨d', hd', hle⟩ := h.disk_ge s.served hs
      rw [hd] at hd'; cases hd'
      show (s.insts s.served).gen ≤ (setAt s.insts s.served _ s.served).gen
      rw [setAt_same]; exact hle
    · rw [e]
      rw [(isCatchup_rdb hc).2] at hd
      obtain ⟨d', hd', hle⟩ := h.disk_ge s.served hs
      rw [hd] at hd'; cases hd'
      show (s.insts s.served).gen ≤ (setAt s.insts s.served _ s.served).gen
      rw [setAt_same]; exact hle
    · rw [e]; subst ho
      show (s.insts s.served).gen ≤ (setAt s.insts s.ninst _ s.ninst).gen
      rw [setAt_same]; exact fwd1_reload_ok hf hd

/-- `startGen` of a query that already exists is never touched again -/
theorem startGen_step (s : Srv) (st : Step) (i : Nat) (hi : i < s.nq) :
    ((step s st).queries i).startGen = (s.queries i).startGen := by
  cases st with
  | qstart =>
    show (setAt s.queries s.nq _ i).startGen = _
    rw [setAt_other _ _ _ _ (by omega)]
  | qread j =>
    by_cases c : j < s.nq ∧ (s.queries j).done = false
    · rw [step_qread_eq s j c.1 c.2]
      show (setAt s.queries j _ i).startGen = _
      by_cases e : i = j
      · subst e; rw [setAt_same]
      · rw [setAt_other _ _ _ _ e]
    · rw [step_qread_skip s j c]
  | qfinish j =>
    by_cases c : j < s.nq
    · rw [step_qfinish_eq s j c]; exact (setAt_done_proj s j i).2.2
    · rw [step_qfinish_skip s j c]
  | publish p g => rfl
  | reload k o =>
    show ((reload s k o).queries i).startGen = _
    rcases reload_cases s k o with e | ⟨d, _, _, _, e⟩ | ⟨d, _, _, _, e⟩ | ⟨d, _, _, _, e⟩ <;>
      rw [e] <;> rfl

/-- a query created by a step starts at what was served before the step -/
theorem startGen_new (s : Srv) (st : Step) (i : Nat) (hi : s.nq ≤ i) (hi' : i < (step s st).nq) :
    ((step s st).queries i).startGen = servedGen s := by
  cases st with
  | qstart =>
    have : i = s.nq := by have : i < s.nq + 1 := hi'; omega
    subst this
    show (setAt s.queries s.nq _ s.nq).startGen = _
    rw [setAt_same]
  | qread j =>
    exfalso
    by_cases c : j < s.nq ∧ (s.queries j).done = false
    · rw [step_qread_eq s j c.1 c.2] at hi'; exact absurd hi' (by show ¬ i < s.nq; omega)
    · rw [step_qread_skip s j c] at hi'; omega
  | qfinish j =>
    exfalso
    by_cases c : j < s.nq
    · rw [step_qfinish_eq s j c] at hi'; exact absurd hi' (by show ¬ i < s.nq; omega)
    · rw [step_qfinish_skip s j c] at hi'; omega
  | publish p g => exfalso; exact absurd hi' (by show ¬ i < s.nq; omega)
  | reload k o =>
    exfalso
    have : (reload s k o).nq = s.nq := by
      rcases reload_cases s k o with e | ⟨d, _, _, _, e⟩ | ⟨d, _, _, _, e⟩ | ⟨d, _, _, _, e⟩ <;>
        rw [e] <;> rfl
    have hi'' : i < (reload s k o).nq := hi'
    omega

/-- queries started in `post` have `startGen` at least what was served before `post` -/
theorem startGen_ge_of_started_after {s : Srv} (h0 : Inv0 s) (h1 : Inv1 s) (post : List Step)
    (hf : forward s post = true) (g n0 : Nat) (hg : g ≤ servedGen s)
    (hq : ∀ i, n0 ≤ i → i < s.nq → g ≤ (s.queries i).startGen) :
    ∀ i, n0 ≤ i → i < (run s post).nq → g ≤ ((run s post).queries i).startGen := by
  induction post generalizing s with
  | nil => exact hq
  | cons st rest ih =>
    simp only [forward, Bool.and_eq_true] at hf
    rw [run_cons]
    apply ih (inv0_step h0 st) (inv1_step h0 h1 st hf.1) hf.2
    · exact Nat.le_trans hg (servedGen_step_le h0 h1 st hf.1)
    · intro i hn hi
      by_cases c : i < s.nq
      · rw [startGen_step s st i c]; exact hq i hn c
      · rw [startGen_new s st i (by omega) hi]; exact hg

/-! ### only query steps: nothing moves -/

theorem quiet_cons {st : Step} {rest : List Step} (h : quiet (st :: rest) = true) :
    (st = .qstart ∨ (∃ i, st = .qread i) ∨ (∃ i, st = .qfinish i)) ∧ quiet rest = true := by
  cases st with
  | qstart => exact ⟨Or.inl rfl, h⟩
  | qread i => exact ⟨Or.inr (Or.inl ⟨i, rfl⟩), h⟩
  | qfinish i => exact ⟨Or.inr (Or.inr ⟨i, rfl⟩), h⟩
  | reload k o => simp [quiet] at h
  | publish p g => simp [quiet] at h

theorem quiet_exact (s : Srv) (post : List Step) (hqt : quiet post = true) (n0 : Nat)
    (hq : ∀ i, n0 ≤ i → i < s.nq →
      (s.queries i).inst = s.served ∧ ∀ r ∈ (s.queries i).reads, r = servedGen s) :
    ∀ i, n0 ≤ i → i < (run s post).nq → ∀ r ∈ ((run s post).queries i).reads, r = servedGen s := by
  induction post generalizing s with
  | nil => exact fun i hn hi => (hq i hn hi).2
  | cons st rest ih =>
    obtain ⟨hst, hrest⟩ := quiet_cons hqt
    rw [run_cons]
    rcases hst with e | ⟨j, e⟩ | ⟨j, e⟩
    · subst e
      have := ih (step s .qstart) hrest (by
        intro i hn hi
        show (setAt s.queries s.nq _ i).inst = s.served ∧
          ∀ r ∈ (setAt s.queries s.nq _ i).reads, r = servedGen s
        by_cases c : i = s.nq
        · subst c; rw [setAt_same]; exact ⟨rfl, fun r hr => by cases hr⟩
        · rw [setAt_other _ _ _ _ c]; exact hq i hn (by have : i < s.nq + 1 := hi; omega))
      exact this
    · subst e
      by_cases c : j < s.nq ∧ (s.queries j).done = false
      · rw [step_qread_eq s j c.1 c.2]
        have := ih { s with queries := (setAt s.queries j
            { (s.queries j) with reads := (s.queries j).reads ++ [(s.insts (s.queries j).inst).gen] }) }
          hrest (by
            intro i hn hi
            show (setAt s.queries j _ i).inst = s.served ∧
              ∀ r ∈ (setAt s.queries j _ i).reads, r = servedGen s
            by_cases c' : i = j
            · subst c'; rw [setAt_same]
              refine ⟨(hq i hn hi).1, ?_⟩
              intro r hr
              rcases List.mem_append.1 hr with hr | hr
              · exact (hq i hn hi).2 r hr
              · rw [List.mem_singleton.1 hr]
                show (s.insts (s.queries i).inst).gen = (s.insts s.served).gen
                rw [(hq i hn hi).1]
            · rw [setAt_other _ _ _ _ c']; exact hq i hn hi)
        exact this
      · rw [step_qread_skip s j c]; exact ih s hrest hq
    · subst e
      by_cases c : j < s.nq
      · rw [step_qfinish_eq s j c]
        have := ih { s with queries := setAt s.queries j { (s.queries j) with done := true } }
          hrest (by
            intro i hn hi
            show (setAt s.queries j _ i).inst = s.served ∧
              ∀ r ∈ (setAt s.queries j _ i).reads, r = servedGen s
            rw [(setAt_done_proj s j i).1, (setAt_done_proj s j i).2.1]; exact hq i hn hi)
        exact this
      · rw [step_qfinish_skip s j c]; exact ih s hrest hq

/-! ### a finished query is frozen -/

theorem done_step (s : Srv) (st : Step) (i : Nat) (hi : i < s.nq) (hd : (s.queries i).done = true) :
    ((step s st).queries i).done = true ∧ ((step s st).queries i).reads = (s.queries i).reads := by
  cases st with
  | qstart =>
    show (setAt s.queries s.nq _ i).done = true ∧ (setAt s.queries s.nq _ i).reads = _
    rw [setAt_other _ _ _ _ (by omega)]; exact ⟨hd, rfl⟩
  | qread j =>
    by_cases c : j < s.nq ∧ (s.queries j).done = false
    · rw [step_qread_eq s j c.1 c.2]
      show (setAt s.queries j _ i).done = true ∧ (setAt s.queries j _ i).reads = _
      have e : i ≠ j := by intro e; subst e; rw [hd] at c; exact absurd c.2 (by simp)
      rw [setAt_other _ _ _ _ e]; exact ⟨hd, rfl⟩
    · rw [step_qread_skip s j c]; exact ⟨hd, rfl⟩
  | qfinish j =>
    by_cases c : j < s.nq
    · rw [step_qfinish_eq s j c]
      show (setAt s.queries j _ i).done = true ∧ (setAt s.queries j _ i).reads = _
      by_cases e : i = j
      · subst e; rw [setAt_same]; exact ⟨rfl, rfl⟩
      · rw [setAt_other _ _ _ _ e]; exact ⟨hd, rfl⟩
    · rw [step_qfinish_skip s j c]; exact ⟨hd, rfl⟩
  | publish p g => exact ⟨hd, rfl⟩
  | reload k o =>
    show ((reload s k o).queries i).done = true ∧ ((reload s k o).queries i).reads = _
    rcases reload_cases s k o with e | ⟨d, _, _, _, e⟩ | ⟨d, _, _, _, e⟩ | ⟨d, _, _, _, e⟩ <;>
      rw [e] <;> exact ⟨hd, rfl⟩

theorem done_run (s : Srv) (steps : List Step) (i : Nat) (hi : i < s.nq)
    (hd : (s.queries i).done = true) : ((run s steps).queries i).reads = (s.queries i).reads := by
  induction steps generalizing s with
  | nil => rfl
  | cons st rest ih =>
    rw [run_cons]
    have h := done_step s st i hi hd
    rw [ih (step s st) (Nat.lt_of_lt_of_le hi (nq_step_le s st)) h.1, h.2]

/-! ### single generation when catch-ups find no query in flight -/

structure InvQ (s : Srv) : Prop where
  one : ∀ i, i < s.nq → ∀ a ∈ (s.queries i).reads, ∀ b ∈ (s.queries i).reads, a = b
  cur : ∀ i, i < s.nq → (s.queries i).done = false →
    ∀ r ∈ (s.queries i).reads, r = (s.insts (s.queries i).inst).gen

theorem invq_init (b : Backend) (disk : Nat → Option Nat) (p g : Nat) : InvQ (init b disk p g) where
  one := fun i hi => absurd hi (Nat.not_lt_zero i)
  cur := fun i hi => absurd hi (Nat.not_lt_zero i)

theorem quiescent_head {s : Srv} {k : Kind} {o : Outcome} {rest : List Step}
    (h : quiescentCatchups s (.reload k o :: rest) = true) (hc : isCatchup s k = true) :
    ∀ i, i < s.nq → (s.queries i).done = true ∨ (s.queries i).inst ≠ s.served := by
  simp only [quiescentCatchups, Bool.and_eq_true, Bool.or_eq_true, Bool.not_eq_true',
    List.all_eq_true, List.mem_range, bne_iff_ne] at h
  rcases h.1 with h1 | h1
  · rw [hc] at h1; cases h1
  · exact h1

theorem invq_step {s : Srv} (h0 : Inv0 s) (h : InvQ s) (st : Step) (rest : List Step)
    (hq : quiescentCatchups s (st :: rest) = true) : InvQ (step s st) := by
  cases st with
  | qstart =>
    constructor
    · intro i hi
      show ∀ a ∈ (setAt s.queries s.nq _ i).reads, ∀ b ∈ (setAt s.queries s.nq _ i).reads, a = b
      by_cases e : i = s.nq
      · subst e; rw [setAt_same]; intro a ha; cases ha
      · rw [setAt_other _ _ _ _ e]; exact h.one i (by have : i < s.nq + 1 := hi; omega)
    · intro i hi
      show (setAt s.queries s.nq _ i).done = false →
        ∀ r ∈ (setAt s.queries s.nq _ i).reads, r = (s.insts (setAt s.queries s.nq _ i).inst).gen
      by_cases e : i = s.nq
      · subst e; rw [setAt_same]; intro _ r hr; cases hr
      · rw [setAt_other _ _ _ _ e]; exact h.cur i (by have : i < s.nq + 1 := hi; omega)
  | qread j =>
    by_cases c : j < s.nq ∧ (s.queries j).done = false
    · rw [step_qread_eq s j c.1 c.2]
      constructor
      · intro i hi
        show ∀ a ∈ (setAt s.queries j _ i).reads, ∀ b ∈ (setAt s.queries j _ i).reads, a = b
        by_cases e : i = j
        · subst e; rw [setAt_same]
          have hc := h.cur i hi c.2
          intro a ha b hb
          have ha' : a = (s.insts (s.queries i).inst).gen := by
            rcases List.mem_append.1 ha with ha | ha
            · exact hc a ha
            · exact List.mem_singleton.1 ha
          have hb' : b = (s.insts (s.queries i).inst).gen := by
            rcases List.mem_append.1 hb with hb | hb
            · exact hc b hb
            · exact List.mem_singleton.1 hb
          rw [ha', hb']
        · rw [setAt_other _ _ _ _ e]; exact h.one i hi
      · intro i hi
        show (setAt s.queries j _ i).done = false →
          ∀ r ∈ (setAt s.queries j _ i).reads, r = (s.insts (setAt s.queries j _ i).inst).gen
        by_cases e : i = j
        · subst e; rw [setAt_same]
          intro _ r hr
          rcases List.mem_append.1 hr with hr | hr
          · exact h.cur i hi c.2 r hr
          · exact List.mem_singleton.1 hr
        · rw [setAt_other _ _ _ _ e]; exact h.cur i hi
    · rw [step_qread_skip s j c]; exact h
  | qfinish j =>
    by_cases c : j < s.nq
    · rw [step_qfinish_eq s j c]
      constructor
      · intro i hi
        show ∀ a ∈ (setAt s.queries j _ i).reads, ∀ b ∈ (setAt s.queries j _ i).reads, a = b
        rw [(setAt_done_proj s j i).2.1]; exact h.one i hi
      · intro i hi
        show (setAt s.queries j _ i).done = false →
          ∀ r ∈ (setAt s.queries j _ i).reads, r = (s.insts (setAt s.queries j _ i).inst).gen
        by_cases e : i = j
        · subst e; rw [setAt_same]; intro hd; cases hd
        · rw [setAt_other _ _ _ _ e]; exact h.cur i hi
    · rw [step_qfinish_skip s j c]; exact h
  | publish p g => exact ⟨h.one, h.cur⟩
  | reload k o =>
    show InvQ (reload s k o)
    have hcatch : ∀ d, isCatchup s k = true → InvQ (catchupServed s d) := by
      intro d hc
      have hqs := quiescent_head hq hc
      refine ⟨h.one, ?_⟩
      intro i hi hd
      show ∀ r ∈ (s.queries i).reads, r = (setAt s.insts s.served _ (s.queries i).inst).gen
      change (s.queries i).done = false at hd
      rcases hqs i hi with h1 | h1
      · rw [hd] at h1; cases h1
      · rw [setAt_other _ _ _ _ h1]; exact h.cur i hi hd
    rcases reload_cases s k o with e | ⟨d, _, hc, _, e⟩ | ⟨d, _, hc, _, e⟩ | ⟨d, _, _, _, e⟩
    · rw [e]; exact h
    · rw [e]; exact hcatch d hc
    · rw [e]; exact ⟨(hcatch d hc).one, (hcatch d hc).cur⟩
    · rw [e]
      refine ⟨h.one, ?_⟩
      intro i hi hd
      have := h0.q_inst i hi
      have e' : (s.queries i).inst ≠ s.ninst := by omega
      show ∀ r ∈ (s.queries i).reads, r = (setAt s.insts s.ninst _ (s.queries i).inst).gen
      rw [setAt_other _ _ _ _ e']; exact h.cur i hi hd

theorem quiescent_tail {s : Srv} {st : Step} {rest : List Step}
    (h : quiescentCatchups s (st :: rest) = true) : quiescentCatchups (step s st) rest = true := by
  simp only [quiescentCatchups, Bool.and_eq_true] at h
  exact h.2

theorem invq_run {s : Srv} (h0 : Inv0 s) (h : InvQ s) (steps : List Step)
    (hq : quiescentCatchups s steps = true) : InvQ (run s steps) := by
  induction steps generalizing s with
  | nil => exact h
  | cons st rest ih =>
    exact ih (inv0_step h0 st) (invq_step h0 h st rest hq) (quiescent_tail hq)

/-! ### the path a partial reload uses -/

theorem succeeds_path (s : Srv) (k : Kind) (o : Outcome) :
    (reload s k o).path = if succeeds s k o = true then target s k else s.path := by
  rcases reload_cases s k o with e | ⟨d, hd, _, ho, e⟩ | ⟨d, hd, _, ho, e⟩ | ⟨d, hd, _, ho, e⟩
  · rw [e]; split <;> rename_i hs
    · -- a successful reload of an existing path is never the identity by accident: path equal anyway
      simp only [succeeds, Bool.and_eq_true, decide_eq_true_eq] at hs
      obtain ⟨ho, hsome⟩ := hs
      subst ho
      cases hd : s.disk (target s k) with
      | none => rw [hd] at hsome; cases hsome
      | some d =>
        have : (reload s k .ok).path = target s k := by
          unfold reload; simp only [hd]
          split <;> rfl
        rw [e] at this; exact this
    · rfl
  · rw [e]
    have : succeeds s k o = false := by
      rcases ho with ho | ho <;> subst ho <;> rfl
    rw [this]; rfl
  · rw [e]; subst ho
    have : succeeds s k .ok = true := by simp [succeeds, hd]
    rw [this]; rfl
  · rw [e]; subst ho
    have : succeeds s k .ok = true := by simp [succeeds, hd]
    rw [this]; rfl

theorem path_eq_lastSwitch (s : Srv) (steps : List Step) :
    (run s steps).path = lastSwitch s s.path steps := by
  induction steps generalizing s with
  | nil => rfl
  | cons st rest ih =>
    rw [run_cons, ih]
    cases st with
    | qstart => rfl
    | qread i =>
      show lastSwitch _ (step s (.qread i)).path rest = lastSwitch _ s.path rest
      by_cases c : i < s.nq ∧ (s.queries i).done = false
      · rw [step_qread_eq s i c.1 c.2]
      · rw [step_qread_skip s i c]
    | qfinish i =>
      show lastSwitch _ (step s (.qfinish i)).path rest = lastSwitch _ s.path rest
      by_cases c : i < s.nq
      · rw [step_qfinish_eq s i c]
      · rw [step_qfinish_skip s i c]
    | publish p g => rfl
    | reload k o =>
      cases k with
      | full p =>
        show lastSwitch _ (reload s (.full p) o).path rest =
          lastSwitch _ (if succeeds s (.full p) o = true then p else s.path) rest
        rw [succeeds_path]; rfl
      | part =>
        show lastSwitch _ (reload s .part o).path rest = lastSwitch _ s.path rest
        rw [succeeds_path]
        split <;> rfl

end DnsVerif.Reload
