/-
Helper lemmas for C15: the chunk codec of the RocksDB multi-value store.
-/
import DnsVerif.Model.MultiStore
import DnsVerif.Spec.MultiMap

namespace DnsVerif.Rdb
open DnsVerif

/-- canonical stored form of a list of values -/
def encode (vs : List Bytes) : Bytes := appendValues [] vs

def Small (vs : List Bytes) : Prop := ∀ v ∈ vs, v.length < 4294967296

theorem appendValues_eq (d : Bytes) (vs : List Bytes) :
    appendValues d vs = d ++ (vs.flatMap fun v => le32 v.length ++ v) := by
  unfold appendValues
  induction vs generalizing d with
  | nil => simp
  | cons v vs ih => simp [List.append_assoc, List.flatMap]

theorem encode_eq (vs : List Bytes) : encode vs = vs.flatMap fun v => le32 v.length ++ v := by
  simp [encode, appendValues_eq]

theorem encode_nil : encode [] = [] := by simp [encode_eq]

theorem encode_cons (v : Bytes) (vs : List Bytes) :
    encode (v :: vs) = le32 v.length ++ v ++ encode vs := by
  simp [encode_eq]

theorem encode_append (vs ws : List Bytes) : encode (vs ++ ws) = encode vs ++ encode ws := by
  simp [encode_eq]

theorem appendValues_encode (vs ws : List Bytes) :
    appendValues (encode vs) ws = encode (vs ++ ws) := by
  rw [appendValues_eq, encode_append, encode_eq ws]

theorem rd32_le32 (n : Nat) (h : n < 4294967296) (rest : Bytes) :
    rd32 (le32 n ++ rest) = some n := by
  simp only [le32, List.cons_append, List.nil_append, rd32, UInt8.toNat_ofNat']
  congr 1; omega

theorem le32_length (n : Nat) : (le32 n).length = 4 := rfl

theorem encode_cons_ne_nil (v : Bytes) (vs : List Bytes) : encode (v :: vs) ≠ [] := by
  simp [encode_cons, le32]

theorem encode_eq_nil_iff (vs : List Bytes) : encode vs = [] ↔ vs = [] := by
  cases vs with
  | nil => simp [encode_nil]
  | cons v vs => simp [encode_cons_ne_nil]

/-! ### codec round trips -/

theorem chunk_take (v rest : Bytes) :
    ((le32 v.length ++ v ++ rest).take (v.length + 4)).drop 4 = v := by
  have : v.length + 4 = (le32 v.length ++ v).length := by simp [le32_length]; omega
  rw [this, List.take_left', List.drop_left'] <;> rfl

theorem chunk_take' (v rest : Bytes) :
    (le32 v.length ++ v ++ rest).take (v.length + 4) = le32 v.length ++ v := by
  have : v.length + 4 = (le32 v.length ++ v).length := by simp [le32_length]; omega
  rw [this, List.take_left']; rfl

theorem chunk_drop (v rest : Bytes) :
    (le32 v.length ++ v ++ rest).drop (v.length + 4) = rest := by
  have : v.length + 4 = (le32 v.length ++ v).length := by simp [le32_length]; omega
  rw [this, List.drop_left']; rfl

theorem chunk_length (v rest : Bytes) :
    (le32 v.length ++ v ++ rest).length = v.length + 4 + rest.length := by
  simp [le32_length]; omega

theorem readNextChunk_cons (v : Bytes) (h : v.length < 4294967296) (rest : Bytes) :
    readNextChunk (le32 v.length ++ v ++ rest) = .ok (some (v, rest)) := by
  have hne : le32 v.length ++ v ++ rest = (le32 v.length)[0]'(by simp [le32_length]) :: ((le32 v.length).drop 1 ++ v ++ rest) := by
    simp [le32]
  unfold readNextChunk
  rw [hne]
  simp only []
  rw [← hne, List.append_assoc, rd32_le32 _ h, ← List.append_assoc]
  simp only []
  rw [if_neg (by rw [chunk_length]; omega), chunk_take, chunk_drop]

theorem encode_length_cons (v : Bytes) (vs : List Bytes) :
    (encode (v :: vs)).length = v.length + 4 + (encode vs).length := by
  rw [encode_cons, chunk_length]

theorem readAll_encode (vs : List Bytes) (h : Small vs) (fuel : Nat)
    (hf : (encode vs).length ≤ fuel) : readAll fuel (encode vs) = .ok vs := by
  induction vs generalizing fuel with
  | nil => simp [encode_nil, readAll]
  | cons v vs ih =>
    have hv : v.length < 4294967296 := h v (by simp)
    have hs : Small vs := fun w hw => h w (by simp [hw])
    rw [encode_length_cons] at hf
    obtain ⟨fuel, rfl⟩ : ∃ f, fuel = f + 1 := ⟨fuel - 1, by omega⟩
    have hne : encode (v :: vs) ≠ [] := encode_cons_ne_nil v vs
    rw [readAll]
    · rw [encode_cons, readNextChunk_cons v hv]
      simp only []
      rw [ih hs fuel (by omega)]
    · exact hne

theorem delValueGo_encode (value : Bytes) (vs : List Bytes) (h : Small vs) (fuel : Nat) (pre : Bytes)
    (hf : (encode vs).length ≤ fuel) :
    delValueGo value fuel pre (encode vs) =
      if value ∈ vs then .ok (pre ++ encode (vs.erase value)) else .error .nxVal := by
  induction vs generalizing fuel pre with
  | nil => simp [encode_nil, delValueGo]
  | cons v vs ih =>
    have hv : v.length < 4294967296 := h v (by simp)
    have hs : Small vs := fun w hw => h w (by simp [hw])
    rw [encode_length_cons] at hf
    obtain ⟨fuel, rfl⟩ : ∃ f, fuel = f + 1 := ⟨fuel - 1, by omega⟩
    have hne : encode (v :: vs) ≠ [] := encode_cons_ne_nil v vs
    rw [delValueGo]
    · rw [encode_cons, List.append_assoc, rd32_le32 _ hv, ← List.append_assoc]
      simp only []
      rw [if_neg (by rw [chunk_length]; omega), chunk_take, chunk_drop, chunk_take']
      by_cases hvv : v = value
      · subst hvv
        simp
      · rw [if_neg hvv, ih hs fuel _ (by omega)]
        have : (v == value) = false := by simpa using hvv
        by_cases hm : value ∈ vs
        · simp [hm, this, encode_cons]
        · simp [hm, Ne.symm hvv]
    · exact hne

/-! ### the abstract key-value store -/

theorem KV.get_nil (k : Bytes) : KV.get [] k = none := rfl

theorem KV.get_cons (p : Bytes × Bytes) (s : KV) (k : Bytes) :
    KV.get (p :: s) k = if p.1 = k then some p.2 else KV.get s k := by
  unfold KV.get
  by_cases h : p.1 = k <;> simp [h]

theorem KV.get_delete (s : KV) (k k' : Bytes) :
    (s.delete k).get k' = if k' = k then none else s.get k' := by
  induction s with
  | nil => simp [KV.delete, KV.get]
  | cons p s ih =>
    unfold KV.delete at ih ⊢
    rw [List.filter_cons]
    by_cases hp : p.1 = k
    · simp only [hp, ne_eq, not_true_eq_false, decide_false, Bool.false_eq_true, if_false]
      rw [ih, KV.get_cons, hp]
      by_cases hk : k' = k
      · simp [hk]
      · simp [hk, Ne.symm hk]
    · simp only [hp, ne_eq, not_false_eq_true, decide_true, if_true]
      rw [KV.get_cons, KV.get_cons, ih]
      by_cases hk : k' = k
      · subst hk; simp [hp]
      · simp [hk]

theorem KV.get_put (s : KV) (k v k' : Bytes) :
    (s.put k v).get k' = if k' = k then some v else s.get k' := by
  unfold KV.put
  rw [KV.get_cons, KV.get_delete]
  by_cases hk : k' = k
  · simp [hk]
  · simp [hk, Ne.symm hk]

theorem delValue_encode' (vs : List Bytes) (v : Bytes) (h : Small vs) :
    delValue (encode vs) v = if v ∈ vs then .ok (encode (vs.erase v)) else .error .nxVal := by
  unfold delValue
  rw [delValueGo_encode v vs h _ [] (Nat.le_refl _)]
  simp

theorem decode_encode' (vs : List Bytes) (h : Small vs) : decode (encode vs) = .ok vs :=
  readAll_encode vs h _ (Nat.le_refl _)

theorem Small.nil : Small [] := fun _ h => by simp at h
theorem Small.append {vs ws : List Bytes} (h1 : Small vs) (h2 : Small ws) : Small (vs ++ ws) := by
  intro v hv
  rcases List.mem_append.1 hv with h | h
  · exact h1 v h
  · exact h2 v h
theorem Small.erase {vs : List Bytes} (h : Small vs) (v : Bytes) : Small (vs.erase v) :=
  fun w hw => h w (List.mem_of_mem_erase hw)
theorem Small.single {v : Bytes} (h : v.length < 4294967296) : Small [v] := by
  intro w hw; simp at hw; subst hw; exact h

/-! ### the byte order is a strict total order -/

theorem bytesLt_irrefl (a : Bytes) : bytesLt a a = false := by
  induction a with
  | nil => rfl
  | cons x xs ih => simp [bytesLt, ih]

theorem bytesLt_trans {a b c : Bytes} (h1 : bytesLt a b = true) (h2 : bytesLt b c = true) :
    bytesLt a c = true := by
  induction a generalizing b c with
  | nil =>
    cases b with
    | nil => simp [bytesLt] at h1
    | cons y ys =>
      cases c with
      | nil => simp [bytesLt] at h2
      | cons z zs => simp [bytesLt]
  | cons x xs ih =>
    cases b with
    | nil => simp [bytesLt] at h1
    | cons y ys =>
      cases c with
      | nil => simp [bytesLt] at h2
      | cons z zs =>
        simp only [bytesLt] at h1 h2 ⊢
        by_cases hxy : x.toNat < y.toNat
        · by_cases hyz : y.toNat < z.toNat
          · rw [if_pos (by omega)]
          · rw [if_neg hyz] at h2
            by_cases hzy : z.toNat < y.toNat
            · rw [if_pos hzy] at h2; cases h2
            · rw [if_pos (by omega)]
        · rw [if_neg hxy] at h1
          by_cases hyx : y.toNat < x.toNat
          · rw [if_pos hyx] at h1; cases h1
          · rw [if_neg hyx] at h1
            by_cases hyz : y.toNat < z.toNat
            · rw [if_pos (by omega)]
            · rw [if_neg hyz] at h2
              by_cases hzy : z.toNat < y.toNat
              · rw [if_pos hzy] at h2; cases h2
              · rw [if_neg hzy] at h2
                rw [if_neg (by omega), if_neg (by omega)]
                exact ih h1 h2

theorem bytesLt_asymm {a b : Bytes} (h : bytesLt a b = true) : bytesLt b a = false := by
  cases hba : bytesLt b a with
  | false => rfl
  | true =>
    have := bytesLt_trans h hba
    rw [bytesLt_irrefl] at this
    cases this

theorem bytesLt_total {a b : Bytes} (h1 : bytesLt a b = false) (h2 : bytesLt b a = false) :
    a = b := by
  induction a generalizing b with
  | nil =>
    cases b with
    | nil => rfl
    | cons y ys => simp [bytesLt] at h1
  | cons x xs ih =>
    cases b with
    | nil => simp [bytesLt] at h2
    | cons y ys =>
      simp only [bytesLt] at h1 h2
      by_cases hxy : x.toNat < y.toNat
      · rw [if_pos hxy] at h1; cases h1
      · by_cases hyx : y.toNat < x.toNat
        · rw [if_pos hyx] at h2; cases h2
        · rw [if_neg hxy, if_neg hyx] at h1
          rw [if_neg hyx, if_neg hxy] at h2
          have : x = y := UInt8.toNat_inj.1 (by omega)
          rw [this, ih h1 h2]

/-- `a < b ≤ c → a < c` -/
theorem bytesLt_of_lt_of_le {a b c : Bytes} (h1 : bytesLt a b = true) (h2 : bytesLt c b = false) :
    bytesLt a c = true := by
  cases hac : bytesLt a c with
  | true => rfl
  | false =>
    cases hca : bytesLt c a with
    | true => rw [bytesLt_trans hca h1] at h2; cases h2
    | false =>
      have := bytesLt_total hac hca
      subst this
      rw [h1] at h2; cases h2

/-- `a ≤ b < c → a < c` -/
theorem bytesLt_of_le_of_lt {a b c : Bytes} (h1 : bytesLt b a = false) (h2 : bytesLt b c = true) :
    bytesLt a c = true := by
  cases hac : bytesLt a c with
  | true => rfl
  | false =>
    cases hca : bytesLt c a with
    | true => rw [bytesLt_trans h2 hca] at h1; cases h1
    | false =>
      have := bytesLt_total hac hca
      subst this
      rw [h2] at h1; cases h1

/-- `a ≤ b ≤ c → a ≤ c` -/
theorem bytesLe_trans' {a b c : Bytes} (h1 : bytesLt b a = false) (h2 : bytesLt c b = false) :
    bytesLt c a = false := by
  cases hca : bytesLt c a with
  | false => rfl
  | true => rw [bytesLt_of_lt_of_le hca h1] at h2; cases h2

theorem bytesLt_ne {a b : Bytes} (h : bytesLt a b = true) : a ≠ b := by
  intro hab; subst hab; rw [bytesLt_irrefl] at h; cases h

/-! ### sorting -/

/-- key-sorted (non-strictly) w.r.t. the byte order -/
def KeySorted (ps : Pairs) : Prop := ps.Pairwise (fun p q => bytesLt q.1 p.1 = false)

theorem KeySorted.nil : KeySorted [] := List.Pairwise.nil

theorem KeySorted.tail {p : Bytes × Bytes} {ps : Pairs} (h : KeySorted (p :: ps)) : KeySorted ps :=
  (List.pairwise_cons.1 h).2

theorem KeySorted.head {p : Bytes × Bytes} {ps : Pairs} (h : KeySorted (p :: ps)) :
    ∀ q ∈ ps, bytesLt q.1 p.1 = false :=
  (List.pairwise_cons.1 h).1

theorem mem_insertSorted {x p : Bytes × Bytes} {qs : Pairs} :
    x ∈ insertSorted p qs ↔ x = p ∨ x ∈ qs := by
  induction qs with
  | nil => simp [insertSorted]
  | cons q qs ih =>
    unfold insertSorted
    by_cases h : bytesLt p.1 q.1 = true
    · rw [if_pos h]; simp
    · rw [if_neg h]; simp only [List.mem_cons, ih]
      constructor
      · rintro (h | h | h) <;> simp [h]
      · rintro (h | h | h) <;> simp [h]

theorem KeySorted.insertSorted {qs : Pairs} (h : KeySorted qs) (p : Bytes × Bytes) :
    KeySorted (insertSorted p qs) := by
  induction qs with
  | nil => simp [Rdb.insertSorted, KeySorted]
  | cons q qs ih =>
    unfold Rdb.insertSorted
    by_cases hlt : bytesLt p.1 q.1 = true
    · rw [if_pos hlt]
      refine List.pairwise_cons.2 ⟨?_, h⟩
      intro x hx
      rcases List.mem_cons.1 hx with rfl | hx
      · exact bytesLt_asymm hlt
      · exact bytesLt_asymm (bytesLt_of_lt_of_le hlt (h.head x hx))
    · rw [if_neg hlt]
      refine List.pairwise_cons.2 ⟨?_, ih h.tail⟩
      intro x hx
      rcases mem_insertSorted.1 hx with rfl | hx
      · simpa using hlt
      · exact h.head x hx

theorem KeySorted.filter_eq_nil_of_lt {qs : Pairs} {q : Bytes × Bytes} (h : KeySorted (q :: qs))
    {k : Bytes} (hk : bytesLt k q.1 = true) : (q :: qs).filter (·.1 = k) = [] := by
  rw [List.filter_eq_nil_iff]
  intro x hx
  have hle : bytesLt x.1 q.1 = false := by
    rcases List.mem_cons.1 hx with rfl | hx
    · exact bytesLt_irrefl _
    · exact h.head x hx
  have := bytesLt_ne (bytesLt_of_lt_of_le hk hle)
  simpa using Ne.symm this

theorem filter_insertSorted {qs : Pairs} (h : KeySorted qs) (p : Bytes × Bytes) (k : Bytes) :
    (insertSorted p qs).filter (·.1 = k) =
      if p.1 = k then qs.filter (·.1 = k) ++ [p] else qs.filter (·.1 = k) := by
  induction qs with
  | nil => by_cases hp : p.1 = k <;> simp [insertSorted, hp]
  | cons q qs ih =>
    unfold insertSorted
    by_cases hlt : bytesLt p.1 q.1 = true
    · rw [if_pos hlt]
      by_cases hp : p.1 = k
      · rw [if_pos hp, List.filter_cons, if_pos (by simpa using hp),
          h.filter_eq_nil_of_lt (hp ▸ hlt)]
        rfl
      · rw [if_neg hp, List.filter_cons, if_neg (by simpa using hp)]
    · rw [if_neg hlt, List.filter_cons, ih h.tail, List.filter_cons]
      by_cases hq : q.1 = k <;> by_cases hp : p.1 = k <;> simp [hq, hp]

theorem KeySorted.foldl_insertSorted (ps : Pairs) {acc : Pairs} (h : KeySorted acc) :
    KeySorted (ps.foldl (fun acc p => Rdb.insertSorted p acc) acc) := by
  induction ps generalizing acc with
  | nil => exact h
  | cons p ps ih => exact ih (h.insertSorted p)

theorem filter_foldl_insertSorted (ps : Pairs) {acc : Pairs} (h : KeySorted acc) (k : Bytes) :
    (ps.foldl (fun acc p => insertSorted p acc) acc).filter (·.1 = k) =
      acc.filter (·.1 = k) ++ ps.filter (·.1 = k) := by
  induction ps generalizing acc with
  | nil => simp
  | cons p ps ih =>
    rw [List.foldl_cons, ih (h.insertSorted p), filter_insertSorted h, List.filter_cons]
    by_cases hp : p.1 = k <;> simp [hp]

theorem sortPairs_sorted (ps : Pairs) : KeySorted (sortPairs ps) :=
  KeySorted.foldl_insertSorted ps KeySorted.nil

/-- the sort is stable: the pairs of each key keep their order -/
theorem filter_sortPairs (ps : Pairs) (k : Bytes) :
    (sortPairs ps).filter (·.1 = k) = ps.filter (·.1 = k) := by
  unfold sortPairs
  rw [filter_foldl_insertSorted ps KeySorted.nil]; rfl

theorem mem_sortPairs {x : Bytes × Bytes} {ps : Pairs} : x ∈ sortPairs ps ↔ x ∈ ps := by
  have h1 : x ∈ (sortPairs ps).filter (·.1 = x.1) ↔ x ∈ sortPairs ps := by simp
  have h2 : x ∈ ps.filter (·.1 = x.1) ↔ x ∈ ps := by simp
  rw [← h1, ← h2, filter_sortPairs]

theorem sortPairs_length (ps : Pairs) : (sortPairs ps).length = ps.length := by
  have : ∀ acc : Pairs, (ps.foldl (fun acc p => insertSorted p acc) acc).length = acc.length + ps.length := by
    induction ps with
    | nil => simp
    | cons p ps ih =>
      intro acc
      have hl : ∀ qs : Pairs, (insertSorted p qs).length = qs.length + 1 := by
        intro qs
        induction qs with
        | nil => rfl
        | cons q qs ih2 =>
          unfold insertSorted
          by_cases h : bytesLt p.1 q.1 = true
          · rw [if_pos h]; rfl
          · rw [if_neg h]; simp [ih2]
      rw [List.foldl_cons, ih, hl]; simp; omega
  simpa [sortPairs] using this []

/-! ### `getAffectedKeys` -/

def KeyIn (k : Bytes) (a : Pairs) : Prop := ∃ p ∈ a, p.1 = k

theorem keyIn_cons {k : Bytes} {p : Bytes × Bytes} {a : Pairs} :
    KeyIn k (p :: a) ↔ p.1 = k ∨ KeyIn k a := by
  simp [KeyIn]

theorem not_keyIn_nil (k : Bytes) : ¬ KeyIn k [] := by simp [KeyIn]

/-- all keys of `a` are `≥ lk` when `last = some lk` -/
def GeLast (a : Pairs) (last : Option Bytes) : Prop :=
  ∀ lk, last = some lk → ∀ p ∈ a, bytesLt p.1 lk = false

/-- all keys of `a` are `> lk` when `last = some lk` -/
def GtLast (a : Pairs) (last : Option Bytes) : Prop :=
  ∀ lk, last = some lk → ∀ p ∈ a, bytesLt lk p.1 = true

structure AffPost (a d : Pairs) (last : Option Bytes) (rest : List Bytes) : Prop where
  sorted : rest.Pairwise (fun x y => bytesLt x y = true)
  gt : ∀ lk, last = some lk → ∀ k ∈ rest, bytesLt lk k = true
  mem : ∀ k, k ∈ rest ↔ (last ≠ some k ∧ (KeyIn k a ∨ KeyIn k d))

theorem AffPost.symm {a d : Pairs} {last : Option Bytes} {rest : List Bytes}
    (h : AffPost a d last rest) : AffPost d a last rest :=
  ⟨h.sorted, h.gt, fun k => by rw [h.mem k, or_comm]⟩

theorem GtLast.ge {a : Pairs} {last : Option Bytes} (h : GtLast a last) : GeLast a last :=
  fun lk hl p hp => bytesLt_asymm (h lk hl p hp)

theorem GeLast.tail {p : Bytes × Bytes} {a : Pairs} {last : Option Bytes}
    (h : GeLast (p :: a) last) : GeLast a last :=
  fun lk hl q hq => h lk hl q (List.mem_cons_of_mem _ hq)

theorem GeLast.nil (last : Option Bytes) : GeLast [] last := fun _ _ _ h => by simp at h

/-- sorted, all `≥ lk`, head `≠ lk` : all `> lk` -/
theorem GeLast.gt {a : Pairs} {last : Option Bytes} (h : GeLast a last) (hs : KeySorted a)
    (hne : ∀ lk, last = some lk → ∀ ap as, a = ap :: as → lk ≠ ap.1) : GtLast a last := by
  intro lk hl p hp
  cases a with
  | nil => simp at hp
  | cons ap as =>
    have h1 : bytesLt lk ap.1 = true := by
      cases hlt : bytesLt lk ap.1 with
      | true => rfl
      | false => exact absurd (bytesLt_total hlt (h lk hl ap (by simp))) (hne lk hl ap as rfl)
    rcases List.mem_cons.1 hp with rfl | hp
    · exact h1
    · exact bytesLt_of_lt_of_le h1 (hs.head p hp)

/-- skipping a pair whose key equals the last key pushed -/
theorem AffPost.skip {ap : Bytes × Bytes} {as d : Pairs} {lk : Bytes} {rest : List Bytes}
    (h : AffPost as d (some lk) rest) (he : lk = ap.1) : AffPost (ap :: as) d (some lk) rest := by
  refine ⟨h.sorted, h.gt, fun k => ?_⟩
  rw [h.mem k, keyIn_cons]
  constructor
  · rintro ⟨h1, h2 | h2⟩
    · exact ⟨h1, Or.inl (Or.inr h2)⟩
    · exact ⟨h1, Or.inr h2⟩
  · rintro ⟨h1, (h2 | h2) | h2⟩
    · exact absurd (by rw [he, h2]) h1
    · exact ⟨h1, Or.inl h2⟩
    · exact ⟨h1, Or.inr h2⟩

/-- pushing the key of the head of `a` -/
theorem AffPost.push {ap : Bytes × Bytes} {as d : Pairs} {last : Option Bytes} {rest : List Bytes}
    (h : AffPost as d (some ap.1) rest) (hgt : GtLast (ap :: as) last) (hgd : GtLast d last) :
    AffPost (ap :: as) d last (ap.1 :: rest) := by
  refine ⟨List.pairwise_cons.2 ⟨h.gt _ rfl, h.sorted⟩, ?_, fun k => ?_⟩
  · intro lk hl k hk
    have h1 := hgt lk hl ap (by simp)
    rcases List.mem_cons.1 hk with rfl | hk
    · exact h1
    · exact bytesLt_trans h1 (h.gt _ rfl k hk)
  · rw [List.mem_cons, h.mem k, keyIn_cons]
    have hlast : KeyIn k (ap :: as) ∨ KeyIn k d → last ≠ some k := by
      intro hk hl
      have : bytesLt k k = true := by
        rcases hk with ⟨p, hp, rfl⟩ | ⟨p, hp, rfl⟩
        · exact hgt _ hl p hp
        · exact hgd _ hl p hp
      rw [bytesLt_irrefl] at this; cases this
    constructor
    · rintro (rfl | ⟨_, h2 | h2⟩)
      · exact ⟨hlast (Or.inl ⟨ap, by simp, rfl⟩), Or.inl (Or.inl rfl)⟩
      · exact ⟨hlast (Or.inl (keyIn_cons.2 (Or.inr h2))), Or.inl (Or.inr h2)⟩
      · exact ⟨hlast (Or.inr h2), Or.inr h2⟩
    · rintro ⟨_, (h2 | h2) | h2⟩
      · exact Or.inl h2.symm
      · by_cases hk : k = ap.1
        · exact Or.inl hk
        · exact Or.inr ⟨fun h => hk (Option.some.inj h).symm, Or.inl h2⟩
      · by_cases hk : k = ap.1
        · exact Or.inl hk
        · exact Or.inr ⟨fun h => hk (Option.some.inj h).symm, Or.inr h2⟩

theorem AffPost.nil (last : Option Bytes) : AffPost [] [] last [] :=
  ⟨List.Pairwise.nil, fun _ _ _ h => by simp at h, fun k => by simp [not_keyIn_nil]⟩

/-- the statement proved by induction on the fuel -/
def AffGoal (fuel : Nat) : Prop :=
  ∀ (a d : Pairs) (last : Option Bytes) (keys : List Bytes), a.length + d.length ≤ fuel →
    KeySorted a → KeySorted d → GeLast a last → GeLast d last →
    ∃ rest, affectedGo fuel a d last keys = keys ++ rest ∧ AffPost a d last rest

theorem affectedPush_spec {fuel : Nat} (ih : AffGoal fuel) (a d : Pairs) (last : Option Bytes)
    (keys : List Bytes) (hf : a.length + d.length ≤ fuel + 1)
    (hsa : KeySorted a) (hsd : KeySorted d) (hga : GtLast a last) (hgd : GtLast d last) :
    ∃ rest, affectedGo.affectedPush fuel a d keys = keys ++ rest ∧ AffPost a d last rest := by
  have geOfSorted : ∀ (ap : Bytes × Bytes) (as : Pairs), KeySorted (ap :: as) →
      GeLast as (some ap.1) := by
    intro ap as hs lk hl p hp
    cases hl; exact hs.head p hp
  cases a with
  | nil =>
    cases d with
    | nil => exact ⟨[], by simp [affectedGo.affectedPush], AffPost.nil last⟩
    | cons dp ds =>
      rw [affectedGo.affectedPush]
      obtain ⟨rest, h1, h2⟩ := ih [] ds (some dp.1) (keys ++ [dp.1]) (by simp at hf ⊢; omega)
        hsa hsd.tail (GeLast.nil _) (geOfSorted dp ds hsd)
      exact ⟨dp.1 :: rest, by rw [h1]; simp, (h2.symm.push hgd hga).symm⟩
  | cons ap as =>
    cases d with
    | nil =>
      rw [affectedGo.affectedPush]
      obtain ⟨rest, h1, h2⟩ := ih as [] (some ap.1) (keys ++ [ap.1]) (by simp at hf ⊢; omega)
        hsa.tail hsd (geOfSorted ap as hsa) (GeLast.nil _)
      exact ⟨ap.1 :: rest, by rw [h1]; simp, h2.push hga hgd⟩
    | cons dp ds =>
      rw [affectedGo.affectedPush]
      by_cases hlt : bytesLt ap.1 dp.1 = true
      · rw [if_pos hlt]
        have hgd' : GeLast (dp :: ds) (some ap.1) := by
          intro lk hl p hp
          cases hl
          rcases List.mem_cons.1 hp with rfl | hp
          · exact bytesLt_asymm hlt
          · exact bytesLt_asymm (bytesLt_of_lt_of_le hlt (hsd.head p hp))
        obtain ⟨rest, h1, h2⟩ := ih as (dp :: ds) (some ap.1) (keys ++ [ap.1])
          (by simp at hf ⊢; omega) hsa.tail hsd (geOfSorted ap as hsa) hgd'
        exact ⟨ap.1 :: rest, by rw [h1]; simp, h2.push hga hgd⟩
      · rw [if_neg hlt]
        have hlt' : bytesLt ap.1 dp.1 = false := by simpa using hlt
        have hga' : GeLast (ap :: as) (some dp.1) := by
          intro lk hl p hp
          cases hl
          rcases List.mem_cons.1 hp with rfl | hp
          · exact hlt'
          · exact bytesLe_trans' hlt' (hsa.head p hp)
        obtain ⟨rest, h1, h2⟩ := ih (ap :: as) ds (some dp.1) (keys ++ [dp.1])
          (by simp at hf ⊢; omega) hsa hsd.tail hga' (geOfSorted dp ds hsd)
        exact ⟨dp.1 :: rest, by rw [h1]; simp, (h2.symm.push hgd hga).symm⟩

theorem affectedStep_spec {fuel : Nat} (ih : AffGoal fuel) (a d : Pairs) (last : Option Bytes)
    (keys : List Bytes) (hf : a.length + d.length ≤ fuel + 1)
    (hsa : KeySorted a) (hsd : KeySorted d) (hga : GtLast a last) (hgd : GeLast d last) :
    ∃ rest, affectedGo.affectedStep fuel a d last keys = keys ++ rest ∧ AffPost a d last rest := by
  by_cases hskip : ∃ dp ds lk, d = dp :: ds ∧ last = some lk ∧ lk = dp.1
  · obtain ⟨dp, ds, lk, rfl, rfl, he⟩ := hskip
    rw [affectedGo.affectedStep, if_pos he]
    obtain ⟨rest, h1, h2⟩ := ih a ds (some lk) keys (by simp at hf ⊢; omega) hsa hsd.tail
      hga.ge hgd.tail
    exact ⟨rest, h1, (h2.symm.skip he).symm⟩
  · have hpush : affectedGo.affectedStep fuel a d last keys = affectedGo.affectedPush fuel a d keys := by
      rw [affectedGo.affectedStep.eq_def]
      split
      · rename_i dp ds lk
        rw [if_neg (fun he => hskip ⟨dp, ds, lk, rfl, rfl, he⟩)]
      · rfl
    rw [hpush]
    apply affectedPush_spec ih a d last keys hf hsa hsd hga
    exact hgd.gt hsd (fun lk hl dp ds hd he => hskip ⟨dp, ds, lk, hd, hl, he⟩)

theorem affectedGo_spec (fuel : Nat) : AffGoal fuel := by
  induction fuel with
  | zero =>
    intro a d last keys hf _ _ _ _
    have ha : a = [] := List.eq_nil_of_length_eq_zero (by omega)
    have hd : d = [] := List.eq_nil_of_length_eq_zero (by omega)
    subst ha hd
    exact ⟨[], by simp [affectedGo], AffPost.nil last⟩
  | succ fuel ih =>
    intro a d last keys hf hsa hsd hga hgd
    by_cases hnil : a = [] ∧ d = []
    · obtain ⟨rfl, rfl⟩ := hnil
      exact ⟨[], by simp [affectedGo], AffPost.nil last⟩
    by_cases hskip : ∃ ap as lk, a = ap :: as ∧ last = some lk ∧ lk = ap.1
    · obtain ⟨ap, as, lk, rfl, rfl, he⟩ := hskip
      rw [affectedGo.eq_def]
      simp only []
      rw [if_pos he]
      obtain ⟨rest, h1, h2⟩ := ih as d (some lk) keys (by simp at hf ⊢; omega) hsa.tail hsd
        hga.tail hgd
      exact ⟨rest, h1, h2.skip he⟩
    · have hstep : affectedGo (fuel + 1) a d last keys = affectedGo.affectedStep fuel a d last keys := by
        rw [affectedGo.eq_def]
        simp only []
        split
        · exact absurd ⟨rfl, rfl⟩ hnil
        · split
          · rename_i ap as lk _
            rw [if_neg (fun he => hskip ⟨ap, as, lk, rfl, rfl, he⟩)]
          · rfl
      rw [hstep]
      apply affectedStep_spec ih a d last keys hf hsa hsd _ hgd
      exact hga.gt hsa (fun lk hl ap as ha he => hskip ⟨ap, as, lk, ha, hl, he⟩)

/-- the keys computed by `getAffectedKeys` on key-sorted lists: strictly increasing, and exactly
the keys occurring in one of the lists -/
theorem affectedKeys_spec (a d : Pairs) (hsa : KeySorted a) (hsd : KeySorted d) :
    (affectedKeys a d).Pairwise (fun x y => bytesLt x y = true) ∧
    ∀ k, k ∈ affectedKeys a d ↔ (KeyIn k a ∨ KeyIn k d) := by
  obtain ⟨rest, h1, h2⟩ := affectedGo_spec (2 * (a.length + d.length) + 1) a d none []
    (by omega) hsa hsd (fun _ h => by cases h) (fun _ h => by cases h)
  unfold affectedKeys
  rw [h1, List.nil_append]
  exact ⟨h2.sorted, fun k => by rw [h2.mem k]; simp⟩

/-! ### `integrate` -/

/-- sorted list all of whose keys are `≥ k`: the leading run of key `k` is all pairs of key `k` -/
theorem takeWhile_key {a : Pairs} (hs : KeySorted a) (k : Bytes)
    (hge : ∀ p ∈ a, bytesLt p.1 k = false) :
    a.takeWhile (·.1 = k) = a.filter (·.1 = k) ∧
      ∀ p ∈ a.dropWhile (·.1 = k), bytesLt k p.1 = true := by
  induction a with
  | nil => simp
  | cons p as ih =>
    by_cases hp : p.1 = k
    · have := ih hs.tail (fun q hq => hge q (List.mem_cons_of_mem _ hq))
      rw [List.takeWhile_cons, List.filter_cons, List.dropWhile_cons]
      simp only [hp, decide_true, if_true]
      exact ⟨by rw [this.1], this.2⟩
    · have hlt : bytesLt k p.1 = true := by
        cases h : bytesLt k p.1 with
        | true => rfl
        | false => exact absurd (bytesLt_total (hge p (by simp)) h) hp
      have hall : ∀ q ∈ p :: as, bytesLt k q.1 = true := by
        intro q hq
        rcases List.mem_cons.1 hq with rfl | hq
        · exact hlt
        · exact bytesLt_of_lt_of_le hlt (hs.head q hq)
      rw [List.takeWhile_cons, List.dropWhile_cons]
      simp only [hp, decide_false, Bool.false_eq_true, if_false]
      refine ⟨?_, hall⟩
      symm
      rw [List.filter_eq_nil_iff]
      intro q hq
      simpa using Ne.symm (bytesLt_ne (hall q hq))

/-- what `integrate` does for one key -/
def perKey (stored : Bytes) (addsK delsK : Pairs) : Except Err Bytes :=
  delsK.foldlM (fun acc p => delValue acc p.2)
    (addsK.foldl (fun acc p => appendValues acc [p.2]) stored)

/-- run `h` over the keys, stopping at the first error -/
def seqKeys (h : Bytes → Except Err Bytes) : List Bytes → Except Err (List Bytes)
  | [] => .ok []
  | k :: ks =>
    match h k with
    | .error e => .error e
    | .ok v =>
      match seqKeys h ks with
      | .error e => .error e
      | .ok rest => .ok (v :: rest)

theorem seqKeys_congr {h h' : Bytes → Except Err Bytes} {ks : List Bytes}
    (hh : ∀ k ∈ ks, h k = h' k) : seqKeys h ks = seqKeys h' ks := by
  induction ks with
  | nil => rfl
  | cons k ks ih =>
    simp only [seqKeys]
    rw [hh k (by simp), ih (fun k' hk' => hh k' (by simp [hk']))]

theorem seqKeys_ok {h : Bytes → Except Err Bytes} {r : Bytes → Bytes} {ks : List Bytes}
    (hh : ∀ k ∈ ks, h k = .ok (r k)) : seqKeys h ks = .ok (ks.map r) := by
  induction ks with
  | nil => rfl
  | cons k ks ih =>
    simp only [seqKeys]
    rw [hh k (by simp), ih (fun k' hk' => hh k' (by simp [hk']))]
    rfl

theorem seqKeys_error {h : Bytes → Except Err Bytes} {ks : List Bytes} {k : Bytes} {e : Err}
    (hk : k ∈ ks) (hh : h k = .error e) : ∃ e', seqKeys h ks = .error e' := by
  induction ks with
  | nil => simp at hk
  | cons k' ks ih =>
    simp only [seqKeys]
    cases hk' : h k' with
    | error e' => exact ⟨e', rfl⟩
    | ok v =>
      have hk2 : k ∈ ks := by
        rcases List.mem_cons.1 hk with rfl | hk2
        · rw [hh] at hk'; cases hk'
        · exact hk2
      obtain ⟨e', he'⟩ := ih hk2
      exact ⟨e', by rw [he']⟩

theorem integrateGo_spec (g : Bytes → Bytes) (ks : List Bytes) (a d : Pairs)
    (hks : ks.Pairwise (fun x y => bytesLt x y = true))
    (hsa : KeySorted a) (hsd : KeySorted d)
    (hma : ∀ p ∈ a, p.1 ∈ ks) (hmd : ∀ p ∈ d, p.1 ∈ ks) :
    integrateGo ks (ks.map g) a d =
      seqKeys (fun k => perKey (g k) (a.filter (·.1 = k)) (d.filter (·.1 = k))) ks := by
  induction ks generalizing a d with
  | nil =>
    have ha : a = [] := List.eq_nil_iff_forall_not_mem.2 (fun p hp => by simpa using hma p hp)
    have hd : d = [] := List.eq_nil_iff_forall_not_mem.2 (fun p hp => by simpa using hmd p hp)
    subst ha hd
    simp [integrateGo, seqKeys]
  | cons k ks ih =>
    have hgt : ∀ k' ∈ ks, bytesLt k k' = true := (List.pairwise_cons.1 hks).1
    have hge : ∀ (x : Pairs), (∀ p ∈ x, p.1 ∈ k :: ks) → ∀ p ∈ x, bytesLt p.1 k = false := by
      intro x hx p hp
      rcases List.mem_cons.1 (hx p hp) with h | h
      · rw [h]; exact bytesLt_irrefl k
      · exact bytesLt_asymm (hgt _ h)
    -- facts about one of the two lists
    have key : ∀ (x : Pairs), KeySorted x → (∀ p ∈ x, p.1 ∈ k :: ks) →
        x.takeWhile (·.1 = k) = x.filter (·.1 = k) ∧
        KeySorted (x.dropWhile (·.1 = k)) ∧
        (∀ p ∈ x.dropWhile (·.1 = k), p.1 ∈ ks) ∧
        ∀ k' ∈ ks, (x.dropWhile (·.1 = k)).filter (·.1 = k') = x.filter (·.1 = k') := by
      intro x hsx hmx
      obtain ⟨h1, h2⟩ := takeWhile_key hsx k (hge x hmx)
      refine ⟨h1, List.Pairwise.sublist (List.dropWhile_sublist _) hsx, ?_, ?_⟩
      · intro p hp
        have hpx : p ∈ x := (List.dropWhile_sublist _).subset hp
        rcases List.mem_cons.1 (hmx p hpx) with h | h
        · exact absurd h.symm (bytesLt_ne (h2 p hp))
        · exact h
      · intro k' hk'
        have hne : k ≠ k' := bytesLt_ne (hgt k' hk')
        conv => rhs; rw [← List.takeWhile_append_dropWhile (p := (·.1 = k)) (l := x)]
        rw [List.filter_append]
        have : (x.takeWhile (·.1 = k)).filter (·.1 = k') = [] := by
          rw [List.filter_eq_nil_iff]
          intro q hq
          have := List.all_eq_true.1 (List.all_takeWhile (l := x) (p := (·.1 = k))) q hq
          simp only [decide_eq_true_eq] at this ⊢
          rw [this]; exact hne
        rw [this, List.nil_append]
    obtain ⟨a1, a2, a3, a4⟩ := key a hsa hma
    obtain ⟨d1, d2, d3, d4⟩ := key d hsd hmd
    rw [List.map_cons, integrateGo]
    rw [ih _ _ (List.pairwise_cons.1 hks).2 a2 d2 a3 d3, a1, d1]
    simp only [seqKeys]
    rw [seqKeys_congr (h' := fun k' => perKey (g k') (a.filter (·.1 = k')) (d.filter (·.1 = k')))
      (fun k' hk' => by simp only [a4 k' hk', d4 k' hk'])]
    rfl

/-! ### writing the new values back -/

theorem get_writeBack (r : Bytes → Bytes) (ks : List Bytes) (s : KV) (k : Bytes) :
    KV.get ((ks.zip (ks.map r)).foldl
      (fun st kv => if kv.2.isEmpty then st.delete kv.1 else st.put kv.1 kv.2) s) k =
      if k ∈ ks then (if (r k).isEmpty then none else some (r k)) else s.get k := by
  induction ks generalizing s with
  | nil => simp
  | cons k0 ks ih =>
    rw [List.map_cons, List.zip_cons_cons, List.foldl_cons, ih]
    by_cases hk : k ∈ ks
    · simp [hk]
    · simp only [hk, if_false, List.mem_cons, or_false]
      by_cases hk0 : k = k0
      · subst hk0
        by_cases he : (r k).isEmpty = true
        · simp [he, KV.get_delete]
        · simp [he, KV.get_put]
      · by_cases he : (r k0).isEmpty = true
        · simp [he, hk0, KV.get_delete]
        · simp [he, hk0, KV.get_put]

theorem executeBatch_eq (s : KV) (adds dels : Pairs) (hne : ¬ (adds.isEmpty ∧ dels.isEmpty)) :
    executeBatch s adds dels =
      match seqKeys (fun k => perKey ((s.get k).getD []) (adds.filter (·.1 = k))
          (dels.filter (·.1 = k))) (affectedKeys (sortPairs adds) (sortPairs dels)) with
      | .error e => .error e
      | .ok newVals =>
        .ok (((affectedKeys (sortPairs adds) (sortPairs dels)).zip newVals).foldl
          (fun st kv => if kv.2.isEmpty then st.delete kv.1 else st.put kv.1 kv.2) s) := by
  have hsa := sortPairs_sorted adds
  have hsd := sortPairs_sorted dels
  obtain ⟨h1, h2⟩ := affectedKeys_spec _ _ hsa hsd
  unfold executeBatch
  rw [if_neg hne]
  simp only []
  rw [integrateGo_spec (fun k => (s.get k).getD []) _ _ _ h1 hsa hsd
    (fun p hp => (h2 p.1).2 (Or.inl ⟨p, hp, rfl⟩)) (fun p hp => (h2 p.1).2 (Or.inr ⟨p, hp, rfl⟩))]
  simp only [filter_sortPairs]
  rfl

/-! ### one key: the byte level against lists -/

/-- the deletions of one key at the list level -/
def delsKey (cur : List Bytes) (vs : List Bytes) : Option (List Bytes) :=
  vs.foldlM (fun acc v => if v ∈ acc then some (acc.erase v) else none) cur

theorem delsKey_nil (cur : List Bytes) : delsKey cur [] = some cur := rfl

theorem delsKey_cons (cur : List Bytes) (v : Bytes) (vs : List Bytes) :
    delsKey cur (v :: vs) = if v ∈ cur then delsKey (cur.erase v) vs else none := by
  unfold delsKey
  rw [List.foldlM_cons]
  by_cases h : v ∈ cur <;> simp [h]

theorem delsKey_subset {cur vs r : List Bytes} (h : delsKey cur vs = some r) : ∀ x ∈ r, x ∈ cur := by
  induction vs generalizing cur with
  | nil => rw [delsKey_nil] at h; cases h; exact fun _ hx => hx
  | cons v vs ih =>
    rw [delsKey_cons] at h
    by_cases hv : v ∈ cur
    · rw [if_pos hv] at h
      exact fun x hx => List.mem_of_mem_erase (ih h x hx)
    · rw [if_neg hv] at h; cases h

theorem foldl_appendValues_encode (cur : List Bytes) (addsK : Pairs) :
    addsK.foldl (fun acc p => appendValues acc [p.2]) (encode cur) =
      encode (cur ++ addsK.map (·.2)) := by
  induction addsK generalizing cur with
  | nil => simp
  | cons p ps ih => rw [List.foldl_cons, appendValues_encode, ih]; simp

theorem foldlM_delValue_encode (vs : List Bytes) (hs : Small vs) (delsK : Pairs) :
    delsK.foldlM (fun acc p => delValue acc p.2) (encode vs) =
      match delsKey vs (delsK.map (·.2)) with
      | some r => .ok (encode r)
      | none => .error .nxVal := by
  induction delsK generalizing vs with
  | nil => rfl
  | cons p ps ih =>
    rw [List.foldlM_cons, delValue_encode' vs p.2 hs, List.map_cons, delsKey_cons]
    by_cases hm : p.2 ∈ vs
    · rw [if_pos hm, if_pos hm]
      exact ih _ (hs.erase p.2)
    · rw [if_neg hm, if_neg hm]; rfl

theorem perKey_encode (cur : List Bytes) (addsK delsK : Pairs)
    (hs : Small (cur ++ addsK.map (·.2))) :
    perKey (encode cur) addsK delsK =
      match delsKey (cur ++ addsK.map (·.2)) (delsK.map (·.2)) with
      | some r => .ok (encode r)
      | none => .error .nxVal := by
  unfold perKey
  rw [foldl_appendValues_encode, foldlM_delValue_encode _ hs]

end DnsVerif.Rdb

/-! ### the specification, key by key -/

namespace DnsVerif.Spec
open DnsVerif DnsVerif.Rdb

theorem MultiMap.get_set (m : MultiMap) (k k' : Bytes) (vs : List Bytes) :
    (m.set k vs).get k' = if k' = k then vs else m.get k' := rfl

theorem MultiMap.get_foldl_add (m : MultiMap) (adds : List (Bytes × Bytes)) (k : Bytes) :
    (adds.foldl (fun acc p => acc.add p.1 p.2) m).get k =
      m.get k ++ (adds.filter (·.1 = k)).map (·.2) := by
  induction adds generalizing m with
  | nil => simp
  | cons p ps ih =>
    rw [List.foldl_cons, ih, List.filter_cons]
    unfold MultiMap.add
    rw [MultiMap.get_set]
    by_cases hp : p.1 = k
    · simp [hp]
    · simp [hp, Ne.symm hp]

theorem MultiMap.foldlM_del (m : MultiMap) (dels : List (Bytes × Bytes)) :
    match dels.foldlM (fun (acc : MultiMap) p =>
        let cur := acc.get p.1
        if p.2 ∈ cur then some (acc.set p.1 (cur.erase p.2)) else none) m with
    | some m' => ∀ k, delsKey (m.get k) ((dels.filter (·.1 = k)).map (·.2)) = some (m'.get k)
    | none => ∃ k, delsKey (m.get k) ((dels.filter (·.1 = k)).map (·.2)) = none := by
  induction dels generalizing m with
  | nil => intro k; rfl
  | cons p ps ih =>
    rw [List.foldlM_cons]
    by_cases hm : p.2 ∈ m.get p.1
    · simp only [hm, if_true]
      have hstep : ∀ k, delsKey (m.get k) (((p :: ps).filter (·.1 = k)).map (·.2)) =
          delsKey ((m.set p.1 ((m.get p.1).erase p.2)).get k) ((ps.filter (·.1 = k)).map (·.2)) := by
        intro k
        rw [List.filter_cons, MultiMap.get_set]
        by_cases hp : p.1 = k
        · subst hp
          simp [delsKey_cons, hm]
        · simp [hp, Ne.symm hp]
      have := ih (m.set p.1 ((m.get p.1).erase p.2))
      show match (some (m.set p.1 ((m.get p.1).erase p.2)) >>= fun b' => ps.foldlM _ b') with
        | some m' => _ | none => _
      rw [Option.bind_eq_bind, Option.bind_some]
      split at this
      · rename_i m' heq
        rw [heq]
        intro k; rw [hstep]; exact this k
      · rename_i heq
        rw [heq]
        obtain ⟨k, hk⟩ := this
        exact ⟨k, by rw [hstep]; exact hk⟩
    · simp only [hm, if_false]
      refine ⟨p.1, ?_⟩
      simp [delsKey_cons, hm]

end DnsVerif.Spec
