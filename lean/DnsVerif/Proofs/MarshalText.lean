/-
Helper lemmas for C09 (`Props/C09.lean`): the record-level model factors the validated line codec,
field re-splitting, decimal / octal / name / address text round trips.
-/
import DnsVerif.Model.MarshalText
import DnsVerif.Props.C17

namespace DnsVerif.MarshalText
open DnsVerif DnsVerif.Codec DnsVerif.Name DnsVerif.Net

/-! ### `convertLine` factors through `parseRecord` / `recordOut` -/

theorem convertLine_eq (cfg : Cfg) (line : Bytes) (h : line.head? ≠ some 0x21) :
    convertLine cfg svcbOf line = (parseRecord cfg line).map (recordOut cfg) := by
  cases line with
  | nil => rfl
  | cons t rest =>
    have ht : t ≠ 0x21 := by simpa using h
    unfold convertLine parseRecord
    simp only []
    repeat' split
    all_goals first
      | rfl
      | simp_all [recordOut, recordKVs, recordSubnet, nsKVs, Except.map, svcbOf]

end DnsVerif.MarshalText
