/-
Helper lemmas for C09 (`Props/C09.lean`): the record-level model factors the validated line codec,
field re-splitting, decimal / octal / name / address text round trips.
-/
import DnsVerif.Model.MarshalText
import DnsVerif.Props.C17

set_option linter.unusedSimpArgs false

namespace DnsVerif.MarshalText
open DnsVerif DnsVerif.Codec DnsVerif.Name DnsVerif.Net

/-! ### `convertLine` factors through `parseRecord` / `recordOut` -/

macro "cl_simp" : tactic => `(tactic|
  simp (decide := true) only [convertLine, parseRecord, if_true, if_false, ite_true, ite_false,
    ↓reduceIte, or_self, or_false, false_or, true_or, or_true])

macro "cl_loc" : tactic => `(tactic| (cl_simp; split <;> (rename_i h; rw [h]; rfl)))

private theorem cl_net (cfg : Cfg) (rest : Bytes) :
    convertLine cfg svcbOf (0x25 :: rest) = (parseRecord cfg (0x25 :: rest)).map (recordOut cfg) := by
  cl_simp
  split
  · rename_i h; rw [h]; rfl
  · rename_i h; rw [h]
    split
    · rename_i h2; rw [h2]; rfl
    · rename_i h2; rw [h2]
      simp only []
      split
      · rfl
      · rfl

private theorem cl_svcb (cfg : Cfg) (rest : Bytes) :
    convertLine cfg svcbOf (0x42 :: rest) = (parseRecord cfg (0x42 :: rest)).map (recordOut cfg) := by
  cl_simp
  split
  · rename_i h; rw [h]; rfl
  · rename_i h; rw [h]
    simp only [svcbOf]
    cases hp : Svcb.fromText (fld (fields (0x42 :: rest)) 5) <;> rfl

private theorem cl_https (cfg : Cfg) (rest : Bytes) :
    convertLine cfg svcbOf (0x48 :: rest) = (parseRecord cfg (0x48 :: rest)).map (recordOut cfg) := by
  cl_simp
  split
  · rename_i h; rw [h]; rfl
  · rename_i h; rw [h]
    simp only [svcbOf]
    cases hp : Svcb.fromText (fld (fields (0x48 :: rest)) 5) <;> rfl

private theorem cl_other (cfg : Cfg) (t : UInt8) (rest : Bytes)
    (h1 : t ≠ 0x25) (h2 : t ≠ 0x5a) (h3 : t ≠ 0x2e) (h4 : t ≠ 0x26) (h5 : t ≠ 0x2b) (h6 : t ≠ 0x3d)
    (h7 : t ≠ 0x40) (h8 : t ≠ 0x53) (h9 : t ≠ 0x43) (h10 : t ≠ 0x5e) (h11 : t ≠ 0x27) (h12 : t ≠ 0x3a)
    (h13 : t ≠ 0x4d) (h14 : t ≠ 0x38) (h15 : t ≠ 0x42) (h16 : t ≠ 0x48) (h17 : t ≠ 0x21) :
    convertLine cfg svcbOf (t :: rest) = (parseRecord cfg (t :: rest)).map (recordOut cfg) := by
  simp only [convertLine, parseRecord, h1, h2, h3, h4, h5, h6, h7, h8, h9, h10, h11, h12, h13, h14,
    h15, h16, h17, or_self, ↓reduceIte]
  rfl

/-- The validated codec model is the composition of this file's `DecodeLn` and `MarshalMap`
(every line type except `!`, which the codec model does not know). -/
theorem convertLine_eq (cfg : Cfg) (line : Bytes) (h : line.head? ≠ some 0x21) :
    convertLine cfg svcbOf line = (parseRecord cfg line).map (recordOut cfg) := by
  cases line with
  | nil => rfl
  | cons t rest =>
    have ht : t ≠ 0x21 := by simpa using h
    by_cases h1 : t = 0x25; · subst h1; exact cl_net cfg rest
    by_cases h2 : t = 0x5a; · subst h2; cl_loc
    by_cases h3 : t = 0x2e; · subst h3; cl_loc
    by_cases h4 : t = 0x26; · subst h4; cl_loc
    by_cases h5 : t = 0x2b; · subst h5; cl_loc
    by_cases h6 : t = 0x3d; · subst h6; cl_loc
    by_cases h7 : t = 0x40; · subst h7; cl_loc
    by_cases h8 : t = 0x53; · subst h8; cl_loc
    by_cases h9 : t = 0x43; · subst h9; cl_loc
    by_cases h10 : t = 0x5e; · subst h10; cl_loc
    by_cases h11 : t = 0x27; · subst h11; cl_loc
    by_cases h12 : t = 0x3a; · subst h12; cl_loc
    by_cases h13 : t = 0x4d; · subst h13; cl_simp; rfl
    by_cases h14 : t = 0x38; · subst h14; cl_simp; rfl
    by_cases h15 : t = 0x42; · subst h15; exact cl_svcb cfg rest
    by_cases h16 : t = 0x48; · subst h16; exact cl_https cfg rest
    exact cl_other cfg t rest h1 h2 h3 h4 h5 h6 h7 h8 h9 h10 h11 h12 h13 h14 h15 h16 ht

/-! ### re-splitting a marshalled line -/

theorem idxOf_none (c : UInt8) : ∀ (a : Bytes), c ∉ a → indexOf c a = none := by
  intro a h
  unfold indexOf
  induction a with
  | nil => rfl
  | cons x xs ih =>
    simp only [List.mem_cons, not_or] at h
    have hx : (x == c) = false := by simpa using fun e => h.1 e.symm
    simp [List.idxOf?, List.findIdx?_cons, hx] at ih ⊢
    exact ih h.2

theorem idxOf_append (c : UInt8) (rest : Bytes) : ∀ (a : Bytes), c ∉ a →
    indexOf c (a ++ c :: rest) = some a.length := by
  intro a h
  unfold indexOf
  induction a with
  | nil => simp [List.idxOf?, List.findIdx?_cons]
  | cons x xs ih =>
    simp only [List.mem_cons, not_or] at h
    have hx : (x == c) = false := by simpa using fun e => h.1 e.symm
    simp [List.idxOf?, List.findIdx?_cons, hx] at ih ⊢
    exact ih h.2

theorem idxOf_gt (c d : UInt8) (hcd : d ≠ c) (rest : Bytes) : ∀ (a : Bytes) (i : Nat), c ∉ a →
    indexOf c (a ++ d :: rest) = some i → a.length < i := by
  intro a
  unfold indexOf
  induction a with
  | nil =>
    intro i _ hi
    have hx : (d == c) = false := by simpa using hcd
    simp [List.idxOf?, List.findIdx?_cons, hx] at hi
    obtain ⟨j, _, rfl⟩ := hi
    simp
  | cons x xs ih =>
    intro i h hi
    simp only [List.mem_cons, not_or] at h
    have hx : (x == c) = false := by simpa using fun e => h.1 e.symm
    simp [List.idxOf?, List.findIdx?_cons, hx] at hi ih
    obtain ⟨j, hj, rfl⟩ := hi
    have := ih j h.2 hj
    simp; omega

theorem splitN_joinSep : ∀ (fs : List Bytes) (n : Nat), fs ≠ [] → fs.length ≤ n →
    (∀ f ∈ fs, (0x2c : UInt8) ∉ f) → splitN 0x2c n (joinSep fs) = fs := by
  intro fs
  induction fs with
  | nil => intro n h; exact absurd rfl h
  | cons a rest ih =>
    intro n _ hlen hc
    have ha : (0x2c : UInt8) ∉ a := hc a (by simp)
    cases rest with
    | nil =>
      match n, hlen with
      | 1, _ => rfl
      | m + 2, _ => simp only [joinSep, splitN, idxOf_none _ a ha]
    | cons b rest' =>
      match n, hlen with
      | m + 2, hlen =>
        have e : joinSep (a :: b :: rest') = a ++ 0x2c :: joinSep (b :: rest') := by
          simp [joinSep, sep]
        rw [e]
        simp only [splitN, idxOf_append _ _ a ha]
        rw [List.take_left' rfl]
        have : List.drop (a.length + 1) (a ++ 0x2c :: joinSep (b :: rest')) = joinSep (b :: rest') := by
          rw [List.drop_append]; simp
        rw [this, ih (m + 1) (by simp) (by simp at hlen ⊢; omega) (fun f hf => hc f (by simp [hf]))]

theorem detectSep_joinSep (f0 f1 : Bytes) (rest : List Bytes) (h0c : (0x2c : UInt8) ∉ f0)
    (h0 : (0x3a : UInt8) ∉ f0) : detectSep (joinSep (f0 :: f1 :: rest)) = 0x2c := by
  have e : joinSep (f0 :: f1 :: rest) = f0 ++ 0x2c :: joinSep (f1 :: rest) := by simp [joinSep, sep]
  rw [e]
  unfold detectSep
  rw [idxOf_append _ _ f0 h0c]
  cases hi : indexOf 0x3a (f0 ++ 0x2c :: joinSep (f1 :: rest)) with
  | none => rfl
  | some i =>
    have := idxOf_gt 0x3a 0x2c (by decide) _ f0 i h0 hi
    simp [this]

/-- (T3) a marshalled line splits into exactly the fields that were written -/
theorem fields_joinSep (t : UInt8) (f0 f1 : Bytes) (rest : List Bytes)
    (hlen : (f0 :: f1 :: rest).length ≤ 15) (hc : ∀ f ∈ f0 :: f1 :: rest, (0x2c : UInt8) ∉ f)
    (h0 : (0x3a : UInt8) ∉ f0) :
    fields (t :: joinSep (f0 :: f1 :: rest)) =
      (f0 :: f1 :: rest) ++ List.replicate (15 - (f0 :: f1 :: rest).length) [] := by
  unfold fields
  simp only [List.drop_one, List.tail_cons]
  rw [detectSep_joinSep f0 f1 rest (hc f0 (by simp)) h0]
  have : Generated.dnsdata_NUMFIELDS = 15 := rfl
  rw [this, splitN_joinSep _ 15 (by simp) hlen hc]

theorem fld_pad (fs : List Bytes) (k i : Nat) : fld (fs ++ List.replicate k []) i = fs.getD i [] := by
  unfold fld
  by_cases h : i < fs.length
  · simp [List.getD, List.getElem?_append_left h]
  · have h' : fs.length ≤ i := Nat.le_of_not_lt h
    simp only [List.getD, List.getElem?_append_right h', List.getElem?_eq_none h']
    by_cases h2 : i - fs.length < k
    · simp [h2]
    · simp [h2]

/-! ### decimal numbers -/

theorem digit_toNat (d : Nat) (h : d < 10) : (digit d).toNat = 48 + d := by
  unfold digit
  rw [UInt8.toNat_ofNat']
  omega

theorem isDigit_digit (d : Nat) (h : d < 10) : isDigit (digit d) = true := by
  unfold isDigit
  rw [digit_toNat d h]
  simp
  omega

theorem go_decAux (bits : Nat) : ∀ (f n : Nat), n < f → n < 2 ^ bits → ∀ rest : Bytes,
    parseUint.go bits (decAux f n ++ rest) 0 = parseUint.go bits rest n := by
  intro f
  induction f with
  | zero => intro n h; omega
  | succ f ih =>
    intro n hf hb rest
    unfold decAux
    by_cases h10 : n < 10
    · rw [if_pos h10]
      simp only [List.singleton_append, parseUint.go, isDigit_digit n h10, digit_toNat n h10, if_true]
      have : 0 * 10 + (48 + n - 48) = n := by omega
      rw [this, if_pos hb]
    · rw [if_neg h10, List.append_assoc]
      have hlt : n / 10 < f := by omega
      have hb' : n / 10 < 2 ^ bits := Nat.lt_of_le_of_lt (Nat.div_le_self _ _) hb
      rw [ih (n / 10) hlt hb']
      have hd : n % 10 < 10 := Nat.mod_lt _ (by decide)
      simp only [List.singleton_append, parseUint.go, isDigit_digit _ hd, digit_toNat _ hd, if_true]
      have : n / 10 * 10 + (48 + n % 10 - 48) = n := by omega
      rw [this, if_pos hb]

theorem decText_ne_nil (n : Nat) : decText n ≠ [] := by
  unfold decText decAux
  by_cases h : n < 10
  · rw [if_pos h]; simp
  · rw [if_neg h]; simp

theorem parseUint_decText (bits n : Nat) (h : n < 2 ^ bits) : parseUint bits (decText n) = some n := by
  unfold parseUint
  have hne := decText_ne_nil n
  have : (decText n).isEmpty = false := by
    cases hd : decText n with
    | nil => exact absurd hd hne
    | cons _ _ => rfl
  rw [this]
  simp only [Bool.false_eq_true, if_false]
  have := go_decAux bits (n + 1) n (Nat.lt_succ_self n) h []
  rw [List.append_nil] at this
  unfold decText
  rw [this]
  rfl

theorem getuint_decText (bits n dflt : Nat) (h : n < 2 ^ bits) : getuint bits (decText n) dflt = n := by
  unfold getuint
  rw [parseUint_decText bits n h]
  rfl

theorem getuint_nil (bits dflt : Nat) : getuint bits [] dflt = dflt := rfl

theorem digit_not_sep (d : Nat) (h : d < 10) : digit d ≠ 0x2c ∧ digit d ≠ 0x3a := by
  have := digit_toNat d h
  constructor <;> (intro e; rw [e] at this; simp at this; omega)

theorem decAux_no_sep : ∀ (f n : Nat), (0x2c : UInt8) ∉ decAux f n ∧ (0x3a : UInt8) ∉ decAux f n := by
  intro f
  induction f with
  | zero => intro n; simp [decAux]
  | succ f ih =>
    intro n
    unfold decAux
    by_cases h10 : n < 10
    · rw [if_pos h10]
      have := digit_not_sep n h10
      simp only [List.mem_singleton]
      exact ⟨fun e => this.1 e.symm, fun e => this.2 e.symm⟩
    · rw [if_neg h10]
      have hd : n % 10 < 10 := Nat.mod_lt _ (by decide)
      have := digit_not_sep _ hd
      simp only [List.mem_append, List.mem_singleton, not_or]
      exact ⟨⟨(ih _).1, fun e => this.1 e.symm⟩, ⟨(ih _).2, fun e => this.2 e.symm⟩⟩

theorem decText_no_sep (n : Nat) : (0x2c : UInt8) ∉ decText n ∧ (0x3a : UInt8) ∉ decText n :=
  decAux_no_sep _ _

/-! ### octal escapes (locations, map ids) -/

theorem unquoteChar_oct (a : UInt8) (rest : Bytes) :
    Quote.unquoteChar (octText a ++ rest) = .ok (a.toNat, false, rest) := by
  have ha : a.toNat < 256 := UInt8.toNat_lt a
  have h0 : a.toNat / 64 < 10 := by omega
  have h1 : a.toNat / 8 % 8 < 10 := by omega
  have h2 : a.toNat % 8 < 10 := by omega
  simp (decide := true) only [octText, List.cons_append, List.nil_append, Quote.unquoteChar,
    Quote.bslash, if_false, if_true, ite_true, ite_false, ↓reduceIte, ne_eq, not_true_eq_false]
  unfold Quote.unquoteEsc
  rw [digit_toNat _ h0]
  rw [if_neg (by omega), if_neg (by omega), if_neg (by omega), if_neg (by omega), if_neg (by omega),
    if_neg (by omega), if_neg (by omega), if_neg (by omega), if_neg (by omega), if_neg (by omega),
    if_pos (by omega)]
  simp only []
  rw [digit_toNat _ h1, digit_toNat _ h2]
  rw [if_pos (by omega), if_neg (by omega)]
  congr 2
  omega

theorem unquoteLoop_acc : ∀ (f : Nat) (s acc : Bytes),
    Quote.unquoteLoop f s acc = (Quote.unquoteLoop f s []).map (acc ++ ·) := by
  intro f
  induction f with
  | zero =>
    intro s acc
    cases s <;> simp [Quote.unquoteLoop, Except.map]
  | succ f ih =>
    intro s acc
    cases s with
    | nil => simp [Quote.unquoteLoop, Except.map]
    | cons x xs =>
      unfold Quote.unquoteLoop
      cases hu : Quote.unquoteChar (x :: xs) with
      | error e => simp [Except.map]
      | ok r =>
        obtain ⟨c, mb, tail⟩ := r
        simp only []
        split
        · rw [ih tail (acc ++ _), ih tail ([] ++ _)]
          cases Quote.unquoteLoop f tail [] <;> simp [Except.map]
        · rw [ih tail (acc ++ _), ih tail ([] ++ _)]
          cases Quote.unquoteLoop f tail [] <;> simp [Except.map]

theorem unquoteLoop_oct (f : Nat) (a : UInt8) (X acc : Bytes) :
    Quote.unquoteLoop (f + 1) (octText a ++ X) acc = Quote.unquoteLoop f X (acc ++ [a]) := by
  have h := unquoteChar_oct a X
  have e : octText a ++ X
      = 0x5c :: digit (a.toNat / 64) :: digit (a.toNat / 8 % 8) :: digit (a.toNat % 8) :: X := rfl
  rw [e] at h ⊢
  conv => lhs; unfold Quote.unquoteLoop
  rw [h]
  simp only [Bool.false_eq_true, not_false_eq_true, or_true, if_true, UInt8.ofNat_toNat]

theorem bunquote_oct2 (a b : UInt8) : Quote.bunquote (octText a ++ octText b) = .ok [a, b] := by
  unfold Quote.bunquote
  have e1 : (octText a ++ octText b).isEmpty = false := rfl
  have e2 : (octText a ++ octText b).contains Quote.bslash = true := by
    simp [octText, Quote.bslash]
  have e3 : (octText a ++ octText b).length = 7 + 1 := rfl
  rw [e1, e2, e3]
  simp only [Bool.false_eq_true, if_false, not_true_eq_false]
  rw [unquoteLoop_oct]
  have : octText b = octText b ++ [] := by simp
  rw [this, unquoteLoop_oct]
  rfl

theorem getloc_locText (lo : Option Bytes) (h : ∀ l, lo = some l → l.length = 2) :
    getloc (locText lo) = .ok lo := by
  cases lo with
  | none => rfl
  | some l =>
    have hl := h l rfl
    match l, hl with
    | [a, b], _ =>
      have e : locText (some [a, b]) = octText a ++ octText b := by simp [locText, List.flatMap]
      rw [e]
      unfold getloc
      rw [bunquote_oct2]
      rfl

theorem getlmap_lmapText (m : Bytes) (h : m.length = 2) : getlmap (lmapText m) = m := by
  match m, h with
  | [a, b], _ =>
    have e : lmapText [a, b] = octText a ++ octText b := by simp [lmapText, List.flatMap]
    rw [e]
    unfold getlmap unq
    rw [bunquote_oct2]
    rfl

theorem digit_ne (d : Nat) (h : d < 10) (c : UInt8) (hc : c.toNat < 48 ∨ 57 < c.toNat) : c ≠ digit d := by
  intro e
  have := digit_toNat d h
  rw [← e] at this
  omega

theorem octText_no_sep (a : UInt8) : (0x2c : UInt8) ∉ octText a ∧ (0x3a : UInt8) ∉ octText a := by
  have ha : a.toNat < 256 := UInt8.toNat_lt a
  have h0 : a.toNat / 64 < 10 := by omega
  have h1 : a.toNat / 8 % 8 < 10 := by omega
  have h2 : a.toNat % 8 < 10 := by omega
  simp only [octText, List.mem_cons, List.not_mem_nil, or_false, not_or]
  exact ⟨⟨by decide, digit_ne _ h0 _ (by decide), digit_ne _ h1 _ (by decide), digit_ne _ h2 _ (by decide)⟩,
    ⟨by decide, digit_ne _ h0 _ (by decide), digit_ne _ h1 _ (by decide), digit_ne _ h2 _ (by decide)⟩⟩

theorem flatOct_no_sep (l : Bytes) : (0x2c : UInt8) ∉ l.flatMap octText ∧ (0x3a : UInt8) ∉ l.flatMap octText := by
  induction l with
  | nil => simp
  | cons a t ih =>
    have := octText_no_sep a
    simp only [List.flatMap_cons, List.mem_append, not_or]
    exact ⟨⟨this.1, ih.1⟩, ⟨this.2, ih.2⟩⟩

theorem locText_no_sep (lo : Option Bytes) : (0x2c : UInt8) ∉ locText lo ∧ (0x3a : UInt8) ∉ locText lo := by
  cases lo with
  | none => simp [locText]
  | some l => exact flatOct_no_sep l

theorem lmapText_no_sep (m : Bytes) : (0x2c : UInt8) ∉ lmapText m ∧ (0x3a : UInt8) ∉ lmapText m :=
  flatOct_no_sep m

/-! ### names -/

/-- re-reading a quoted field -/
theorem unq_bquote (isPrint : Nat → Bool) (b : Bytes) : unq (Quote.bquote isPrint b) = b := by
  unfold unq
  rw [Props.C17.bunquote_bquote]

/-- a `*.` written in front of a quoted name is read back as `*.` in front of the name -/
theorem bunquote_star (q d : Bytes) (h : Quote.bunquote q = .ok d) :
    Quote.bunquote (0x2a :: 0x2e :: q) = .ok (0x2a :: 0x2e :: d) := by
  unfold Quote.bunquote at h ⊢
  by_cases hc : q.contains Quote.bslash = true
  · have hne : q.isEmpty = false := by
      cases q with
      | nil => simp at hc
      | cons _ _ => rfl
    rw [hne] at h
    simp only [Bool.false_eq_true, if_false, hc, not_true_eq_false] at h
    have hc2 : (0x2a :: 0x2e :: q).contains Quote.bslash = true := by
      simp only [List.contains_cons, hc, Bool.or_true]
    have he : (0x2a :: 0x2e :: q).isEmpty = false := rfl
    rw [he, hc2]
    simp only [Bool.false_eq_true, if_false, not_true_eq_false, List.length_cons]
    have s1 : Quote.unquoteLoop (q.length + 1 + 1) (0x2a :: 0x2e :: q) []
        = Quote.unquoteLoop (q.length + 1) (0x2e :: q) [0x2a] := by
      conv => lhs; unfold Quote.unquoteLoop
      simp (decide := true) [Quote.unquoteChar, Quote.bslash]
    have s2 : Quote.unquoteLoop (q.length + 1) (0x2e :: q) [0x2a]
        = Quote.unquoteLoop q.length q [0x2a, 0x2e] := by
      conv => lhs; unfold Quote.unquoteLoop
      simp (decide := true) [Quote.unquoteChar, Quote.bslash]
    rw [s1, s2, unquoteLoop_acc, h]
    rfl
  · have hc' : q.contains Quote.bslash = false := by simpa using hc
    have hd : d = q := by
      by_cases he : q.isEmpty = true
      · rw [if_pos he] at h; exact (Except.ok.inj h).symm
      · rw [if_neg he, hc'] at h
        simp only [Bool.false_eq_true, not_false_eq_true, if_true] at h
        exact (Except.ok.inj h).symm
    subst hd
    have hc2 : (0x2a :: 0x2e :: d).contains Quote.bslash = false := by
      have hm : Quote.bslash ∉ d := by simpa using hc'
      have h1 : (Quote.bslash == (0x2a : UInt8)) = false := by decide
      have h2 : (Quote.bslash == (0x2e : UInt8)) = false := by decide
      simp only [List.contains_cons, hc', h1, h2, Bool.or_false]
    have he : (0x2a :: 0x2e :: d).isEmpty = false := rfl
    rw [he, hc2]
    simp

theorem getdom_wild (isPrint : Nat → Bool) (dom : Bytes) (wild : Bool)
    (h : wild = false → ∀ rest, dom ≠ 0x2a :: 0x2e :: rest) :
    getdom (wildText wild ++ Quote.bquote isPrint dom) = (dom, wild) := by
  unfold getdom unq
  cases wild with
  | true =>
    have := bunquote_star _ _ (Props.C17.bunquote_bquote isPrint dom)
    simp only [wildText, if_true, List.cons_append, List.nil_append, this]
  | false =>
    simp only [wildText, Bool.false_eq_true, if_false, List.nil_append, Props.C17.bunquote_bquote]
    have h' := h rfl
    match dom, h' with
    | [], _ => rfl
    | [x], _ => by_cases hx : x = 0x2a <;> simp [hx]
    | x :: y :: rest, h' =>
      by_cases hx : x = 0x2a
      · by_cases hy : y = 0x2e
        · subst hx; subst hy; exact absurd rfl (h' rest)
        · subst hx; simp [hy]
      · simp [hx]

/-! ### well-formed records -/

def LocOK (lo : Option Bytes) : Prop := ∀ l, lo = some l → l.length = 2

/-- the address text reads back as the address (and has no comma): the `net.IP.String` /
`net.ParseIP` pair is library code, validated by the correspondence runs, not proved here -/
def IpOK (ip : Option IP) : Prop := parseIP (ipText ip) = ip ∧ (0x2c : UInt8) ∉ ipText ip

/-- `putdomtext` leaves the quoted name as it is: no empty label (leading, doubled or trailing
dot) and no label whose quoted form is 256 bytes or longer -/
def Plain (isPrint : Nat → Bool) (d : Bytes) : Prop := domText isPrint d = Quote.bquote isPrint d

def NoStar (d : Bytes) : Prop := ∀ rest, d ≠ 0x2a :: 0x2e :: rest

/-- `putservertext` leaves the quoted server name as it is: a `Plain` name with a dot, a single
label with its trailing dot (`c.`), the root `.` -/
def PlainServer (isPrint : Nat → Bool) (d : Bytes) : Prop := serverText isPrint d = Quote.bquote isPrint d

/-- `putmapdomtext` leaves the quoted map name as it is: a `Plain` name, or `*.` in front of one
(the catch-all map `*.` included) -/
def PlainMap (isPrint : Nat → Bool) (d : Bytes) : Prop := mapDomText isPrint d = Quote.bquote isPrint d

/-- the parameter list is written to a text without a comma that reads back as the list: the
`svcb.ParamList` text codec is C18's subject and is taken as given here -/
def ParamsOK (ps : List Svcb.Param) : Prop :=
  ∃ t, Svcb.toText ps = .ok t ∧ Svcb.fromText t = .ok ps ∧ (0x2c : UInt8) ∉ t

/-- quoting keeps a leading `*.` (true of every `isPrint` that holds `*` and `.` printable, as Go's
does): the `*.` the parser drops from a `B` / `H` target is then seen in the text and written back -/
def StarKept (isPrint : Nat → Bool) (d : Bytes) : Prop :=
  startsStar d = true → startsStar (Quote.bquote isPrint d) = true

theorem noStar_of_startsStar {d : Bytes} (h : startsStar d = false) : NoStar d := by
  intro rest e
  subst e
  simp [startsStar] at h

theorem eq_bquote_no_sep {isPrint : Nat → Bool} {t d : Bytes} (h : t = Quote.bquote isPrint d) :
    (0x2c : UInt8) ∉ t ∧ (0x3a : UInt8) ∉ t := by
  rw [h]; exact Props.C17.bquote_no_comma_colon isPrint d

theorem ipOK_none : IpOK none := by
  constructor
  · rfl
  · simp [ipText]

theorem plain_no_sep {isPrint : Nat → Bool} {d : Bytes} (h : Plain isPrint d) :
    (0x2c : UInt8) ∉ domText isPrint d ∧ (0x3a : UInt8) ∉ domText isPrint d := by
  rw [h]; exact Props.C17.bquote_no_comma_colon isPrint d

theorem wild_no_sep (isPrint : Nat → Bool) (wild : Bool) (d : Bytes) :
    (0x2c : UInt8) ∉ wildText wild ++ Quote.bquote isPrint d ∧
    (0x3a : UInt8) ∉ wildText wild ++ Quote.bquote isPrint d := by
  have := Props.C17.bquote_no_comma_colon isPrint d
  cases wild <;> simp [wildText, this.1, this.2]

theorem unq_plain {isPrint : Nat → Bool} {d : Bytes} (h : Plain isPrint d) :
    unq (domText isPrint d) = d := by rw [h, unq_bquote]

theorem unq_plainServer {isPrint : Nat → Bool} {d : Bytes} (h : PlainServer isPrint d) :
    unq (serverText isPrint d) = d := by rw [h, unq_bquote]

theorem unq_plainMap {isPrint : Nat → Bool} {d : Bytes} (h : PlainMap isPrint d) :
    unq (mapDomText isPrint d) = d := by rw [h, unq_bquote]

macro "fld_simp" : tactic => `(tactic|
  simp only [fld_pad, List.getD, List.getElem?_cons_zero, List.getElem?_cons_succ, Option.getD_some,
    Option.getD_none, List.getElem?_nil, List.length_cons, List.length_nil])


macro "mem_split" : tactic => `(tactic|
  simp only [List.mem_cons, List.not_mem_nil, or_false, forall_eq_or_imp, forall_eq])

theorem nil_no_sep : (0x2c : UInt8) ∉ ([] : Bytes) := by simp

/-- the fields a well-formed record of each type must satisfy for the text round trip -/
def WF (isPrint : Nat → Bool) (cfg : Cfg) : Record → Prop
  | .soa dom ns adm ser ref ret exp min ttl lo =>
    Plain isPrint dom ∧ Plain isPrint ns ∧ Plain isPrint adm ∧ ser < 2 ^ 32 ∧ ref < 2 ^ 32 ∧
    ret < 2 ^ 32 ∧ exp < 2 ^ 32 ∧ min < 2 ^ 32 ∧ ttl < 2 ^ 32 ∧ LocOK lo
  | .net lo ip ones lmap =>
    LocOK lo ∧ parseIPNet (ipnetText ip ones) = some (ip, ones) ∧ (0x2c : UInt8) ∉ ipnetText ip ones ∧
    lmap.length = 2 ∧ (cfg.ranger = true → lo.isSome = true)
  | .dot dom ip ns ttl lo | .ns dom ip ns ttl lo =>
    Plain isPrint dom ∧ IpOK ip ∧ PlainServer isPrint ns ∧ ns.contains 0x2e = true ∧ ttl < 2 ^ 32 ∧ LocOK lo
  | .addr dom wild ip ttl lo weight =>
    Plain isPrint dom ∧ (wild = false → NoStar dom) ∧ IpOK ip ∧ ttl < 2 ^ 32 ∧ LocOK lo ∧ weight < 2 ^ 32
  | .paddr dom wild ip ttl lo =>
    Plain isPrint dom ∧ (wild = false → NoStar dom) ∧ IpOK ip ∧ ttl < 2 ^ 32 ∧ LocOK lo
  | .mx dom ip mx dist ttl lo =>
    Plain isPrint dom ∧ IpOK ip ∧ PlainServer isPrint mx ∧ mx.contains 0x2e = true ∧ dist < 2 ^ 32 ∧
    ttl < 2 ^ 32 ∧ LocOK lo
  | .srv dom ip srv port pri weight ttl lo =>
    Plain isPrint dom ∧ IpOK ip ∧ PlainServer isPrint srv ∧ srv.contains 0x2e = true ∧ port < 2 ^ 16 ∧
    pri < 2 ^ 16 ∧ weight < 2 ^ 16 ∧ ttl < 2 ^ 32 ∧ LocOK lo
  | .cname dom wild cname ttl lo =>
    Plain isPrint dom ∧ (wild = false → NoStar dom) ∧ Plain isPrint cname ∧ ttl < 2 ^ 32 ∧ LocOK lo
  | .ptr dom host ttl lo => Plain isPrint dom ∧ Plain isPrint host ∧ ttl < 2 ^ 32 ∧ LocOK lo
  | .txt dom wild _ ttl lo =>
    Plain isPrint dom ∧ (wild = false → NoStar dom) ∧ ttl < 2 ^ 32 ∧ LocOK lo
  | .aux dom rtype _ ttl lo => Plain isPrint dom ∧ rtype < 2 ^ 16 ∧ ttl < 2 ^ 32 ∧ LocOK lo
  | .ipmap dom lmap | .csmap dom lmap => PlainMap isPrint dom ∧ lmap.length = 2
  | .rangepoint lmap ip maskLen loc =>
    lmap.length = 2 ∧ parseIP (Svcb.ipString ip) = some ip ∧ (0x2c : UInt8) ∉ Svcb.ipString ip ∧
    maskLen < 256 ∧ LocOK loc ∧ (loc = none → maskLen = 0)
  | .svcb _ dom wild tgt ttl lo prio params =>
    Plain isPrint dom ∧ (wild = false → NoStar dom) ∧ Plain isPrint tgt ∧ StarKept isPrint tgt ∧
    ttl < 2 ^ 32 ∧ LocOK lo ∧ prio < 2 ^ 16 ∧ ParamsOK params

theorem pm_addr (isPrint : Nat → Bool) (cfg : Cfg) (dom : Bytes) (wild : Bool)
    (ip : Option IP) (ttl : Nat) (lo : Option Bytes) (weight : Nat)
    (h : WF isPrint cfg (.addr dom wild ip ttl lo weight)) :
    parseRecord cfg (0x2b :: joinSep [wildText wild ++ domText isPrint dom, ipText ip, decText ttl, [],
      locText lo, decText weight]) = .ok (.addr dom wild ip ttl lo weight) := by
  obtain ⟨hd, hw, hip, httl, hlo, hwt⟩ := h
  rw [hd]
  have hf := fields_joinSep 0x2b (wildText wild ++ Quote.bquote isPrint dom) (ipText ip)
    [decText ttl, [], locText lo, decText weight] (by simp)
    (by mem_split; exact ⟨(wild_no_sep isPrint wild dom).1, hip.2, (decText_no_sep _).1, not_false,
          (locText_no_sep _).1, (decText_no_sep _).1⟩)
    (wild_no_sep isPrint wild dom).2
  cl_simp
  rw [hf]
  fld_simp
  rw [getloc_locText lo hlo]
  simp only [getdom_wild isPrint dom wild hw, hip.1, getuint_decText 32 ttl _ httl,
    getuint_decText 32 weight _ hwt]

theorem pm_paddr (isPrint : Nat → Bool) (cfg : Cfg) (dom : Bytes) (wild : Bool)
    (ip : Option IP) (ttl : Nat) (lo : Option Bytes)
    (h : WF isPrint cfg (.paddr dom wild ip ttl lo)) :
    parseRecord cfg (0x3d :: joinSep [wildText wild ++ domText isPrint dom, ipText ip, decText ttl, [],
      locText lo]) = .ok (.paddr dom wild ip ttl lo) := by
  obtain ⟨hd, hw, hip, httl, hlo⟩ := h
  rw [hd]
  have hf := fields_joinSep 0x3d (wildText wild ++ Quote.bquote isPrint dom) (ipText ip)
    [decText ttl, [], locText lo] (by simp)
    (by mem_split; exact ⟨(wild_no_sep isPrint wild dom).1, hip.2, (decText_no_sep _).1, not_false,
          (locText_no_sep _).1⟩)
    (wild_no_sep isPrint wild dom).2
  cl_simp
  rw [hf]
  fld_simp
  rw [getloc_locText lo hlo]
  simp only [getdom_wild isPrint dom wild hw, hip.1, getuint_decText 32 ttl _ httl]

theorem pm_cname (isPrint : Nat → Bool) (cfg : Cfg) (dom : Bytes) (wild : Bool)
    (cname : Bytes) (ttl : Nat) (lo : Option Bytes)
    (h : WF isPrint cfg (.cname dom wild cname ttl lo)) :
    parseRecord cfg (0x43 :: joinSep [wildText wild ++ domText isPrint dom, domText isPrint cname,
      decText ttl, [], locText lo]) = .ok (.cname dom wild cname ttl lo) := by
  obtain ⟨hd, hw, hc, httl, hlo⟩ := h
  have hcs := plain_no_sep hc
  rw [hd]
  have hf := fields_joinSep 0x43 (wildText wild ++ Quote.bquote isPrint dom) (domText isPrint cname)
    [decText ttl, [], locText lo] (by simp)
    (by mem_split; exact ⟨(wild_no_sep isPrint wild dom).1, hcs.1, (decText_no_sep _).1, not_false,
          (locText_no_sep _).1⟩)
    (wild_no_sep isPrint wild dom).2
  cl_simp
  rw [hf]
  fld_simp
  rw [getloc_locText lo hlo]
  simp only [getdom_wild isPrint dom wild hw, unq_plain hc, getuint_decText 32 ttl _ httl]

theorem pm_txt (isPrint : Nat → Bool) (cfg : Cfg) (dom : Bytes) (wild : Bool)
    (txt : Bytes) (ttl : Nat) (lo : Option Bytes)
    (h : WF isPrint cfg (.txt dom wild txt ttl lo)) :
    parseRecord cfg (0x27 :: joinSep [wildText wild ++ domText isPrint dom, Quote.bquote isPrint txt,
      decText ttl, [], locText lo]) = .ok (.txt dom wild txt ttl lo) := by
  obtain ⟨hd, hw, httl, hlo⟩ := h
  have hcs := Props.C17.bquote_no_comma_colon isPrint txt
  rw [hd]
  have hf := fields_joinSep 0x27 (wildText wild ++ Quote.bquote isPrint dom) (Quote.bquote isPrint txt)
    [decText ttl, [], locText lo] (by simp)
    (by mem_split; exact ⟨(wild_no_sep isPrint wild dom).1, hcs.1, (decText_no_sep _).1, not_false,
          (locText_no_sep _).1⟩)
    (wild_no_sep isPrint wild dom).2
  cl_simp
  rw [hf]
  fld_simp
  rw [getloc_locText lo hlo]
  simp only [getdom_wild isPrint dom wild hw, unq_bquote, getuint_decText 32 ttl _ httl]

theorem pm_ptr (isPrint : Nat → Bool) (cfg : Cfg) (dom host : Bytes) (ttl : Nat) (lo : Option Bytes)
    (h : WF isPrint cfg (.ptr dom host ttl lo)) :
    parseRecord cfg (0x5e :: joinSep [domText isPrint dom, domText isPrint host,
      decText ttl, [], locText lo]) = .ok (.ptr dom host ttl lo) := by
  obtain ⟨hd, hc, httl, hlo⟩ := h
  have hds := plain_no_sep hd
  have hcs := plain_no_sep hc
  have hf := fields_joinSep 0x5e (domText isPrint dom) (domText isPrint host)
    [decText ttl, [], locText lo] (by simp)
    (by mem_split; exact ⟨hds.1, hcs.1, (decText_no_sep _).1, not_false, (locText_no_sep _).1⟩)
    hds.2
  cl_simp
  rw [hf]
  fld_simp
  rw [getloc_locText lo hlo]
  simp only [unq_plain hd, unq_plain hc, getuint_decText 32 ttl _ httl]

theorem pm_aux (isPrint : Nat → Bool) (cfg : Cfg) (dom : Bytes) (rtype : Nat) (rdata : Bytes)
    (ttl : Nat) (lo : Option Bytes) (h : WF isPrint cfg (.aux dom rtype rdata ttl lo)) :
    parseRecord cfg (0x3a :: joinSep [domText isPrint dom, decText rtype, Quote.bquote isPrint rdata,
      decText ttl, [], locText lo]) = .ok (.aux dom rtype rdata ttl lo) := by
  obtain ⟨hd, hrt, httl, hlo⟩ := h
  have hds := plain_no_sep hd
  have hcs := Props.C17.bquote_no_comma_colon isPrint rdata
  have hf := fields_joinSep 0x3a (domText isPrint dom) (decText rtype)
    [Quote.bquote isPrint rdata, decText ttl, [], locText lo] (by simp)
    (by mem_split; exact ⟨hds.1, (decText_no_sep _).1, hcs.1, (decText_no_sep _).1, not_false,
          (locText_no_sep _).1⟩)
    hds.2
  cl_simp
  rw [hf]
  fld_simp
  rw [getloc_locText lo hlo]
  have h32 : rtype < 2 ^ 32 := Nat.lt_of_lt_of_le hrt (by decide)
  simp only [unq_plain hd, unq_bquote, getuint_decText 32 ttl _ httl, getuint_decText 32 rtype _ h32,
    Nat.mod_eq_of_lt (show rtype < 65536 from hrt)]

theorem pm_ipmap (isPrint : Nat → Bool) (cfg : Cfg) (dom lmap : Bytes)
    (h : WF isPrint cfg (.ipmap dom lmap)) :
    parseRecord cfg (0x4d :: joinSep [mapDomText isPrint dom, lmapText lmap]) = .ok (.ipmap dom lmap) := by
  obtain ⟨hd, hl⟩ := h
  have hds := eq_bquote_no_sep hd
  have hf := fields_joinSep 0x4d (mapDomText isPrint dom) (lmapText lmap) [] (by simp)
    (by mem_split; exact ⟨hds.1, (lmapText_no_sep _).1⟩) hds.2
  cl_simp
  rw [hf]
  fld_simp
  simp only [unq_plainMap hd, getlmap_lmapText lmap hl]

theorem pm_csmap (isPrint : Nat → Bool) (cfg : Cfg) (dom lmap : Bytes)
    (h : WF isPrint cfg (.csmap dom lmap)) :
    parseRecord cfg (0x38 :: joinSep [mapDomText isPrint dom, lmapText lmap]) = .ok (.csmap dom lmap) := by
  obtain ⟨hd, hl⟩ := h
  have hds := eq_bquote_no_sep hd
  have hf := fields_joinSep 0x38 (mapDomText isPrint dom) (lmapText lmap) [] (by simp)
    (by mem_split; exact ⟨hds.1, (lmapText_no_sep _).1⟩) hds.2
  cl_simp
  rw [hf]
  fld_simp
  simp only [unq_plainMap hd, getlmap_lmapText lmap hl]

theorem expandName_dot (x tag dom : Bytes) (h : x.contains 0x2e = true) : expandName x tag dom = x := by
  unfold expandName; rw [if_pos h]

theorem pm_soa (isPrint : Nat → Bool) (cfg : Cfg) (dom ns adm : Bytes) (ser ref ret exp min ttl : Nat)
    (lo : Option Bytes) (h : WF isPrint cfg (.soa dom ns adm ser ref ret exp min ttl lo)) :
    parseRecord cfg (0x5a :: joinSep [domText isPrint dom, domText isPrint ns, domText isPrint adm,
      serialText cfg ser, decText ref, decText ret, decText exp, decText min,
      decText ttl, [], locText lo]) = .ok (.soa dom ns adm ser ref ret exp min ttl lo) := by
  obtain ⟨hd, hn, ha, hser, href, hret, hexp, hmin, httl, hlo⟩ := h
  have hds := plain_no_sep hd
  have hns := plain_no_sep hn
  have has := plain_no_sep ha
  have hsf : (0x2c : UInt8) ∉ serialText cfg ser := by
    unfold serialText
    split
    · exact (decText_no_sep _).1
    · simp
  have hf := fields_joinSep 0x5a (domText isPrint dom) (domText isPrint ns)
    [domText isPrint adm, serialText cfg ser, decText ref, decText ret, decText exp,
      decText min, decText ttl, [], locText lo] (by simp)
    (by mem_split; exact ⟨hds.1, hns.1, has.1, hsf, (decText_no_sep _).1, (decText_no_sep _).1,
          (decText_no_sep _).1, (decText_no_sep _).1, (decText_no_sep _).1, not_false,
          (locText_no_sep _).1⟩)
    hds.2
  cl_simp
  rw [hf]
  fld_simp
  rw [getloc_locText lo hlo]
  have hsr : getuint 32 (serialText cfg ser) cfg.serial = ser := by
    unfold serialText
    by_cases h0 : ser ≠ 0 ∨ cfg.serial ≠ 0
    · rw [if_pos h0, getuint_decText 32 ser _ hser]
    · rw [if_neg h0, getuint_nil]
      omega
  simp only [unq_plain hd, unq_plain hn, unq_plain ha, hsr, getuint_decText 32 _ _ href,
    getuint_decText 32 _ _ hret, getuint_decText 32 _ _ hexp, getuint_decText 32 _ _ hmin,
    getuint_decText 32 _ _ httl]

theorem pm_ns (isPrint : Nat → Bool) (cfg : Cfg) (dom : Bytes) (ip : Option IP) (ns : Bytes) (ttl : Nat)
    (lo : Option Bytes) (h : WF isPrint cfg (.ns dom ip ns ttl lo)) :
    parseRecord cfg (0x26 :: joinSep [domText isPrint dom, ipText ip, serverText isPrint ns, decText ttl, [],
      locText lo]) = .ok (.ns dom ip ns ttl lo) := by
  obtain ⟨hd, hip, hn, hdot, httl, hlo⟩ := h
  have hds := plain_no_sep hd
  have hns := eq_bquote_no_sep hn
  have hf := fields_joinSep 0x26 (domText isPrint dom) (ipText ip)
    [serverText isPrint ns, decText ttl, [], locText lo] (by simp)
    (by mem_split; exact ⟨hds.1, hip.2, hns.1, (decText_no_sep _).1, not_false, (locText_no_sep _).1⟩)
    hds.2
  cl_simp
  rw [hf]
  fld_simp
  rw [getloc_locText lo hlo]
  simp only [unq_plain hd, unq_plainServer hn, expandName_dot _ _ _ hdot, hip.1, getuint_decText 32 _ _ httl]

theorem pm_dot (isPrint : Nat → Bool) (cfg : Cfg) (dom : Bytes) (ip : Option IP) (ns : Bytes) (ttl : Nat)
    (lo : Option Bytes) (h : WF isPrint cfg (.dot dom ip ns ttl lo)) :
    parseRecord cfg (0x2e :: joinSep [domText isPrint dom, ipText ip, serverText isPrint ns, decText ttl, [],
      locText lo]) = .ok (.dot dom ip ns ttl lo) := by
  obtain ⟨hd, hip, hn, hdot, httl, hlo⟩ := h
  have hds := plain_no_sep hd
  have hns := eq_bquote_no_sep hn
  have hf := fields_joinSep 0x2e (domText isPrint dom) (ipText ip)
    [serverText isPrint ns, decText ttl, [], locText lo] (by simp)
    (by mem_split; exact ⟨hds.1, hip.2, hns.1, (decText_no_sep _).1, not_false, (locText_no_sep _).1⟩)
    hds.2
  cl_simp
  rw [hf]
  fld_simp
  rw [getloc_locText lo hlo]
  simp only [unq_plain hd, unq_plainServer hn, expandName_dot _ _ _ hdot, hip.1, getuint_decText 32 _ _ httl]

theorem pm_mx (isPrint : Nat → Bool) (cfg : Cfg) (dom : Bytes) (ip : Option IP) (mx : Bytes)
    (dist ttl : Nat) (lo : Option Bytes) (h : WF isPrint cfg (.mx dom ip mx dist ttl lo)) :
    parseRecord cfg (0x40 :: joinSep [domText isPrint dom, ipText ip, serverText isPrint mx, decText dist,
      decText ttl, [], locText lo]) = .ok (.mx dom ip mx dist ttl lo) := by
  obtain ⟨hd, hip, hn, hdot, hdist, httl, hlo⟩ := h
  have hds := plain_no_sep hd
  have hns := eq_bquote_no_sep hn
  have hf := fields_joinSep 0x40 (domText isPrint dom) (ipText ip)
    [serverText isPrint mx, decText dist, decText ttl, [], locText lo] (by simp)
    (by mem_split; exact ⟨hds.1, hip.2, hns.1, (decText_no_sep _).1, (decText_no_sep _).1, not_false,
          (locText_no_sep _).1⟩)
    hds.2
  cl_simp
  rw [hf]
  fld_simp
  rw [getloc_locText lo hlo]
  simp only [unq_plain hd, unq_plainServer hn, expandName_dot _ _ _ hdot, hip.1, getuint_decText 32 _ _ httl,
    getuint_decText 32 _ _ hdist]

theorem pm_srv (isPrint : Nat → Bool) (cfg : Cfg) (dom : Bytes) (ip : Option IP) (srv : Bytes)
    (port pri weight ttl : Nat) (lo : Option Bytes)
    (h : WF isPrint cfg (.srv dom ip srv port pri weight ttl lo)) :
    parseRecord cfg (0x53 :: joinSep [domText isPrint dom, ipText ip, serverText isPrint srv, decText port,
      decText pri, decText weight, decText ttl, [], locText lo])
      = .ok (.srv dom ip srv port pri weight ttl lo) := by
  obtain ⟨hd, hip, hn, hdot, hport, hpri, hwt, httl, hlo⟩ := h
  have hds := plain_no_sep hd
  have hns := eq_bquote_no_sep hn
  have hf := fields_joinSep 0x53 (domText isPrint dom) (ipText ip)
    [serverText isPrint srv, decText port, decText pri, decText weight, decText ttl, [], locText lo] (by simp)
    (by mem_split; exact ⟨hds.1, hip.2, hns.1, (decText_no_sep _).1, (decText_no_sep _).1,
          (decText_no_sep _).1, (decText_no_sep _).1, not_false, (locText_no_sep _).1⟩)
    hds.2
  cl_simp
  rw [hf]
  fld_simp
  rw [getloc_locText lo hlo]
  simp only [unq_plain hd, unq_plainServer hn, expandName_dot _ _ _ hdot, hip.1, getuint_decText 32 _ _ httl,
    getuint_decText 16 _ _ hport, getuint_decText 16 _ _ hpri, getuint_decText 16 _ _ hwt]

theorem pm_net (isPrint : Nat → Bool) (cfg : Cfg) (lo : Option Bytes) (ip : IP) (ones : Nat) (lmap : Bytes)
    (h : WF isPrint cfg (.net lo ip ones lmap)) :
    parseRecord cfg (0x25 :: joinSep [locText lo, ipnetText ip ones, lmapText lmap])
      = .ok (.net lo ip ones lmap) := by
  obtain ⟨hlo, hnet, hnc, hl, hr⟩ := h
  have hf := fields_joinSep 0x25 (locText lo) (ipnetText ip ones) [lmapText lmap] (by simp)
    (by mem_split; exact ⟨(locText_no_sep _).1, hnc, (lmapText_no_sep _).1⟩)
    (locText_no_sep _).2
  cl_simp
  rw [hf]
  fld_simp
  rw [getloc_locText lo hlo]
  simp only [hnet, getlmap_lmapText lmap hl]
  by_cases hrg : cfg.ranger = true
  · have := hr hrg
    cases lo with
    | none => simp at this
    | some l => simp
  · simp [hrg]

/-- `B` / `H` lines: the `*.` of a wildcard owner is written, and so is the `*.` the parser will
drop from a target that begins with one -/
theorem pm_svcb (isPrint : Nat → Bool) (cfg : Cfg) (https : Bool) (dom : Bytes) (wild : Bool) (tgt : Bytes)
    (ttl : Nat) (lo : Option Bytes) (prio : Nat) (params : List Svcb.Param) (ptxt : Bytes)
    (hd : Plain isPrint dom) (hw : wild = false → NoStar dom) (ht : Plain isPrint tgt)
    (hsk : StarKept isPrint tgt) (httl : ttl < 2 ^ 32)
    (hlo : LocOK lo) (hprio : prio < 2 ^ 16) (hfrom : Svcb.fromText ptxt = .ok params)
    (hpc : (0x2c : UInt8) ∉ ptxt) :
    parseRecord cfg ((if https then 0x48 else 0x42) :: joinSep [wildText wild ++ domText isPrint dom,
      tgtText isPrint tgt, decText ttl, locText lo, decText prio, ptxt])
      = .ok (.svcb https dom wild tgt ttl lo prio params) := by
  unfold tgtText
  simp only []
  rw [hd, ht]
  generalize hsq : startsStar (Quote.bquote isPrint tgt) = sq
  have hts := wild_no_sep isPrint sq tgt
  have hf := fun t => fields_joinSep t (wildText wild ++ Quote.bquote isPrint dom)
    (wildText sq ++ Quote.bquote isPrint tgt) [decText ttl, locText lo, decText prio, ptxt] (by simp)
    (by mem_split; exact ⟨(wild_no_sep isPrint wild dom).1, hts.1, (decText_no_sep _).1,
          (locText_no_sep _).1, (decText_no_sep _).1, hpc⟩)
    (wild_no_sep isPrint wild dom).2
  have htg : getdom (wildText sq ++ Quote.bquote isPrint tgt) = (tgt, sq) := by
    apply getdom_wild
    intro hfalse
    apply noStar_of_startsStar
    cases hst : startsStar tgt with
    | false => rfl
    | true => rw [hsk hst] at hsq; rw [← hsq] at hfalse; cases hfalse
  cases https
  · simp only [Bool.false_eq_true, if_false]
    cl_simp
    rw [hf]
    fld_simp
    rw [getloc_locText lo hlo]
    simp (decide := true) only [getdom_wild isPrint dom wild hw, htg, getuint_decText 32 ttl _ httl,
      getuint_decText 16 prio _ hprio, hfrom]
    rfl
  · simp only [if_true]
    cl_simp
    rw [hf]
    fld_simp
    rw [getloc_locText lo hlo]
    simp (decide := true) only [getdom_wild isPrint dom wild hw, htg, getuint_decText 32 ttl _ httl,
      getuint_decText 16 prio _ hprio, hfrom]
    rfl

/-- (T4) the range-point line: parse ∘ marshal. A point without location keeps no mask length. -/
theorem pm_rangepoint_none (isPrint : Nat → Bool) (cfg : Cfg) (lmap : Bytes) (ip : IP) (maskLen : Nat)
    (hl : lmap.length = 2) (hip : parseIP (Svcb.ipString ip) = some ip)
    (hc : (0x2c : UInt8) ∉ Svcb.ipString ip) :
    parseRecord cfg (0x21 :: joinSep [lmapText lmap, Svcb.ipString ip])
      = .ok (.rangepoint lmap ip 0 none) := by
  have _ := isPrint; have _ := maskLen
  have hf := fields_joinSep 0x21 (lmapText lmap) (Svcb.ipString ip) [] (by simp)
    (by mem_split; exact ⟨(lmapText_no_sep _).1, hc⟩)
    (lmapText_no_sep _).2
  cl_simp
  rw [hf]
  unfold parseRangePoint
  fld_simp
  simp only [getlmap_lmapText lmap hl, hip, getuint_nil]
  rfl

theorem pm_rangepoint_some (isPrint : Nat → Bool) (cfg : Cfg) (lmap : Bytes) (ip : IP) (maskLen : Nat)
    (l : Bytes) (hl : lmap.length = 2) (hip : parseIP (Svcb.ipString ip) = some ip)
    (hc : (0x2c : UInt8) ∉ Svcb.ipString ip) (hm : maskLen < 256) (hlo : l.length = 2) :
    parseRecord cfg (0x21 :: joinSep [lmapText lmap, Svcb.ipString ip,
        decText (if isV4 ip then (maskLen + 160) % 256 else maskLen), locText (some l)])
      = .ok (.rangepoint lmap ip maskLen (some l)) := by
  have _ := isPrint
  have hf := fields_joinSep 0x21 (lmapText lmap) (Svcb.ipString ip)
    [decText (if isV4 ip then (maskLen + 160) % 256 else maskLen), locText (some l)] (by simp)
    (by mem_split; exact ⟨(lmapText_no_sep _).1, hc, (decText_no_sep _).1, (locText_no_sep _).1⟩)
    (lmapText_no_sep _).2
  cl_simp
  rw [hf]
  unfold parseRangePoint
  fld_simp
  have hlo' : LocOK (some l) := by intro l' e; cases e; exact hlo
  rw [getloc_locText (some l) hlo']
  have hm8 : (if isV4 ip then (maskLen + 160) % 256 else maskLen) < 2 ^ 8 := by
    split
    · exact Nat.mod_lt _ (by decide)
    · exact hm
  simp only [getlmap_lmapText lmap hl, hip, getuint_decText 8 _ _ hm8, Option.isSome_some, true_and,
    Option.getD_some]
  by_cases h4 : isV4 ip = true
  · simp only [h4, if_true]
    have : ((maskLen + 160) % 256 + 96) % 256 = maskLen := by omega
    rw [this]
  · simp only [h4, Bool.false_eq_true, if_false]

/-! ### whole files: preprocessing against compilation -/

theorem compileLoop_cons (cfg : Cfg) (raw : Bytes) (rest : List Bytes) (kvs : List KV) (subs : List Subnet) :
    compileLoop cfg (raw :: rest) kvs subs =
      match filterLine raw with
      | none => compileLoop cfg rest kvs subs
      | some l =>
        match parseRecord cfg l with
        | .error _ => none
        | .ok r => compileLoop cfg rest (kvs ++ recordKVs cfg r) (subs ++ (recordSubnet r).toList) := by
  rfl

theorem compileLoop_acc (cfg : Cfg) : ∀ (lines : List Bytes) (kvs : List KV) (subs : List Subnet),
    compileLoop cfg lines kvs subs
      = (compileLoop cfg lines [] []).map fun p => (kvs ++ p.1, subs ++ p.2) := by
  intro lines
  induction lines with
  | nil => intro kvs subs; simp [compileLoop]
  | cons raw rest ih =>
    intro kvs subs
    rw [compileLoop_cons, compileLoop_cons]
    cases hf : filterLine raw with
    | none => exact ih kvs subs
    | some l =>
      simp only []
      cases hp : parseRecord cfg l with
      | error e => rfl
      | ok r =>
        simp only []
        rw [ih (kvs ++ recordKVs cfg r), ih ([] ++ recordKVs cfg r)]
        cases compileLoop cfg rest [] [] <;> simp [Option.map, List.append_assoc]

theorem compileLoop_append (cfg : Cfg) : ∀ (a b : List Bytes) (kvs : List KV) (subs : List Subnet),
    compileLoop cfg (a ++ b) kvs subs
      = (compileLoop cfg a kvs subs).bind fun p => compileLoop cfg b p.1 p.2 := by
  intro a
  induction a with
  | nil => intro b kvs subs; simp [compileLoop]
  | cons raw rest ih =>
    intro b kvs subs
    rw [List.cons_append, compileLoop_cons, compileLoop_cons]
    cases hf : filterLine raw with
    | none => exact ih b kvs subs
    | some l =>
      simp only []
      cases hp : parseRecord cfg l with
      | error e => rfl
      | ok r => exact ih b _ _

/-- what the line filter lets through: two bytes or more, not starting with a blank or `#` -/
theorem filterLine_some {raw l : Bytes} (h : filterLine raw = some l) :
    ∃ c x xs, l = c :: x :: xs ∧ c ≠ 0x20 ∧ c ≠ 0x23 := by
  unfold filterLine at h
  have hd := List.head?_dropWhile_not (fun (b : UInt8) => decide (b = 0x20)) raw
  generalize raw.dropWhile (fun b => decide (b = 0x20)) = l0 at h hd
  match l0, h, hd with
  | [], h, _ => simp at h
  | [_], h, _ => simp at h
  | c :: x :: xs, h, hd =>
    simp only [List.head?_cons] at hd
    have h20 : c ≠ 0x20 := by simpa using hd
    by_cases h23 : c = 0x23
    · subst h23; simp at h
    · refine ⟨c, x, xs, ?_, h20, h23⟩
      simp only [List.length_cons] at h
      split at h
      · omega
      · split at h
        · rename_i heq; cases heq; exact absurd rfl h23
        · exact (Option.some.inj h).symm

theorem filterLine_cons {c x : UInt8} {xs : Bytes} (h20 : c ≠ 0x20) (h23 : c ≠ 0x23) :
    filterLine (c :: x :: xs) = some (c :: x :: xs) := by
  unfold filterLine
  have hdw : (c :: x :: xs).dropWhile (fun b => decide (b = 0x20)) = c :: x :: xs := by
    simp [List.dropWhile, h20]
  rw [hdw]
  simp only [List.length_cons]
  split
  · omega
  · split
    · rename_i heq; cases heq; exact absurd rfl h23
    · rfl

theorem filterLine_idem {raw l : Bytes} (h : filterLine raw = some l) : filterLine l = some l := by
  obtain ⟨c, x, xs, rfl, h20, h23⟩ := filterLine_some h
  exact filterLine_cons h20 h23

macro "rs_case" h:ident : tactic => `(tactic|
  (simp (decide := true) only [parseRecord, parseRangePoint, if_true, if_false, ite_true, ite_false,
      ↓reduceIte, or_self, or_false, false_or, true_or, or_true] at $h:ident
   repeat' split at $h:ident
   all_goals first
     | (cases $h:ident; rfl)
     | cases $h:ident))

/-- only a `%` line hands a subnet to the accumulator -/
theorem recordSubnet_of_parse (cfg : Cfg) (t : UInt8) (rest : Bytes) (r : Record) (ht : t ≠ 0x25)
    (h : parseRecord cfg (t :: rest) = .ok r) : recordSubnet r = none := by
  by_cases h2 : t = 0x5a; · subst h2; rs_case h
  by_cases h3 : t = 0x2e; · subst h3; rs_case h
  by_cases h4 : t = 0x26; · subst h4; rs_case h
  by_cases h5 : t = 0x2b; · subst h5; rs_case h
  by_cases h6 : t = 0x3d; · subst h6; rs_case h
  by_cases h7 : t = 0x40; · subst h7; rs_case h
  by_cases h8 : t = 0x53; · subst h8; rs_case h
  by_cases h9 : t = 0x43; · subst h9; rs_case h
  by_cases h10 : t = 0x5e; · subst h10; rs_case h
  by_cases h11 : t = 0x27; · subst h11; rs_case h
  by_cases h12 : t = 0x3a; · subst h12; rs_case h
  by_cases h13 : t = 0x4d; · subst h13; rs_case h
  by_cases h14 : t = 0x38; · subst h14; rs_case h
  by_cases h15 : t = 0x42; · subst h15; rs_case h
  by_cases h16 : t = 0x48; · subst h16; rs_case h
  by_cases h17 : t = 0x21; · subst h17; rs_case h
  simp only [parseRecord, ht, h2, h3, h4, h5, h6, h7, h8, h9, h10, h11, h12, h13, h14, h15, h16, h17,
    or_self, ↓reduceIte] at h
  cases h

/-- a `%` line decodes to a subnet record, which emits nothing itself under `NoRnetOutput` -/
theorem net_of_parse (cfg : Cfg) (rest : Bytes) (r : Record) (hn : cfg.noRnetOutput = true)
    (h : parseRecord cfg (0x25 :: rest) = .ok r) : recordKVs cfg r = [] := by
  simp (decide := true) only [parseRecord, if_true, ↓reduceIte] at h
  repeat' split at h
  all_goals first
    | (cases h; simp [recordKVs, hn])
    | cases h

theorem rangePointKV_point (m : Bytes) (p : Rearr.Point) :
    rangePointKV m (Rearr.natToIP p.ip) (p.maskLen % 256) p.loc = Rearr.pointKV m p := by
  unfold rangePointKV Rearr.pointKV
  cases p.loc with
  | none => rfl
  | some l =>
    have : UInt8.ofNat (p.maskLen % 256) = UInt8.ofNat p.maskLen := by
      apply UInt8.toNat_inj.mp
      simp
    simp only [this]

/-- what the text round trip of an accumulator point needs: a 2-byte map id and location (they
come from `getlmap` / `getloc` through the rearranger) and an address text `ParseIP` reads back -/
def PointOK (mp : Bytes × Rearr.Point) : Prop :=
  mp.1.length = 2 ∧
  parseIP (Svcb.ipString (Rearr.natToIP mp.2.ip)) = some (Rearr.natToIP mp.2.ip) ∧
  (0x2c : UInt8) ∉ Svcb.ipString (Rearr.natToIP mp.2.ip) ∧ LocOK mp.2.loc

/-- the `!` line of an accumulator point passes the line filter and compiles to the point's
key/value -/
theorem point_line (isPrint : Nat → Bool) (c0 cfg : Cfg) (mp : Bytes × Rearr.Point) (h : PointOK mp) :
    ∃ t r, marshalText isPrint c0 (pointRecord mp) = .ok t ∧ filterLine t = some t ∧
      parseRecord cfg t = .ok r ∧ recordKVs cfg r = [Rearr.pointKV mp.1 mp.2] ∧ recordSubnet r = none := by
  obtain ⟨hl, hip, hc, hlo⟩ := h
  have hm : mp.2.maskLen % 256 < 256 := Nat.mod_lt _ (by decide)
  unfold pointRecord
  cases hloc : mp.2.loc with
  | none =>
    have hp := pm_rangepoint_none isPrint cfg mp.1 (Rearr.natToIP mp.2.ip) (mp.2.maskLen % 256) hl hip hc
    refine ⟨_, _, rfl, ?_, hp, ?_, rfl⟩
    · match hm1 : mp.1, hl with
      | [a, b], _ => exact filterLine_cons (by decide) (by decide)
    · have := rangePointKV_point mp.1 mp.2
      rw [hloc] at this
      simp only [recordKVs, ← this]
      rfl
  | some l =>
    have hl2 : l.length = 2 := hlo l hloc
    have hp := pm_rangepoint_some isPrint cfg mp.1 (Rearr.natToIP mp.2.ip) (mp.2.maskLen % 256) l hl hip hc hm hl2
    refine ⟨_, _, rfl, ?_, hp, ?_, rfl⟩
    · match hm1 : mp.1, hl with
      | [a, b], _ => exact filterLine_cons (by decide) (by decide)
    · have := rangePointKV_point mp.1 mp.2
      rw [hloc] at this
      simp only [recordKVs, this]

/-- the `!` lines of the accumulator compile, in order, to the points' keys and values -/
theorem compileLoop_points (isPrint : Nat → Bool) (cfg : Cfg) :
    ∀ (mps : List (Bytes × Rearr.Point)) (ls : List Bytes) (kvs : List KV),
      (∀ mp ∈ mps, PointOK mp) → mps.mapM (pointLine isPrint) = some ls →
      compileLoop cfg ls kvs [] = some (kvs ++ mps.map (fun mp => Rearr.pointKV mp.1 mp.2), []) := by
  intro mps
  induction mps with
  | nil =>
    intro ls kvs _ h
    simp only [List.mapM_nil, pure, Option.some.injEq] at h
    subst h
    simp [compileLoop]
  | cons mp rest ih =>
    intro ls kvs hok h
    obtain ⟨t, r, hmt, hfl, hpr, hkv, hsub⟩ := point_line isPrint {} cfg mp (hok mp (by simp))
    have hpl : pointLine isPrint mp = some t := by simp only [pointLine, hmt]
    rw [List.mapM_cons, hpl] at h
    cases hrest : rest.mapM (pointLine isPrint) with
    | none => rw [hrest] at h; simp [bind, Option.bind] at h
    | some ls' =>
      rw [hrest] at h
      simp only [bind, Option.bind, pure, Option.some.injEq] at h
      subst h
      rw [compileLoop_cons]
      simp only [hfl, hpr, hkv, hsub, Option.toList_none, List.append_nil]
      rw [ih ls' _ (fun mp' hm' => hok mp' (by simp [hm'])) hrest]
      simp [List.append_assoc]

theorem foldlM_points_sim {α β : Type} (R : Bytes → Option (List Rearr.Point)) (kf : Bytes → Rearr.Point → α)
    (pf : Bytes → Rearr.Point → β) (F : β → α) (hF : ∀ m p, F (pf m p) = kf m p) :
    ∀ (ms : List Bytes) (acc : List β),
      ms.foldlM (fun acc m => match R m with
        | none => none
        | some pts => some (acc ++ pts.map (kf m))) (acc.map F)
      = (ms.foldlM (fun acc m => match R m with
        | none => none
        | some pts => some (acc ++ pts.map (pf m))) acc).map fun (mps : List β) => mps.map F := by
  intro ms
  induction ms with
  | nil => intro acc; rfl
  | cons m rest ih =>
    intro acc
    simp only [List.foldlM_cons]
    cases R m with
    | none => rfl
    | some pts =>
      simp only [bind, Option.bind]
      have := ih (acc ++ pts.map (pf m))
      simp only [List.map_append, List.map_map] at this
      have e : (F ∘ pf m) = kf m := funext fun p => hF m p
      rw [e] at this
      exact this

/-- `SubnetRanger.MarshalMap` and the accumulator's text scanner walk the same points -/
theorem rangePointKVs_eq (subs : List Subnet) :
    Rearr.rangePointKVs subs
      = (rangePoints subs).map fun (mps : List (Bytes × Rearr.Point)) =>
          mps.map fun mp => Rearr.pointKV mp.1 mp.2 := by
  unfold Rearr.rangePointKVs rangePoints
  exact foldlM_points_sim _ (fun m => Rearr.pointKV m) (fun m p => (m, p))
    (fun mp => Rearr.pointKV mp.1 mp.2) (fun _ _ => rfl) _ []

/-- the scan loop of the preprocessor against the compiler's loop over the same lines: the lines it
writes (`new`) compile to the keys and values of the original lines and hand nothing to the
accumulator; the subnets it collects are the ones the compiler collects. `hz`: the record of every
`Z` line is well-formed (so that its normalised text decodes to it again). -/
theorem preprocessLoop_sim (isPrint : Nat → Bool) (cfg : Cfg) (hn : cfg.noRnetOutput = true) :
    ∀ (lines out : List Bytes) (subs : List Subnet) (out' : List Bytes) (subs' : List Subnet),
      (∀ raw ∈ lines, ∀ l r, filterLine raw = some l → l.head? = some 0x5a → parseRecord cfg l = .ok r →
        WF isPrint cfg r) →
      preprocessLoop isPrint cfg lines out subs = .ok (out', subs') →
      ∃ new, out' = out ++ new ∧
        match compileLoop cfg lines [] [] with
        | none => compileLoop cfg new [] [] = none
        | some (k, s) => subs' = subs ++ s ∧ compileLoop cfg new [] [] = some (k, []) := by
  intro lines
  induction lines with
  | nil =>
    intro out subs out' subs' _ h
    simp only [preprocessLoop, Except.ok.injEq, Prod.mk.injEq] at h
    exact ⟨[], by simp [h.1], by simp [compileLoop, h.2]⟩
  | cons raw rest ih =>
    intro out subs out' subs' hz h
    have hz' : ∀ raw' ∈ rest, ∀ l r, filterLine raw' = some l → l.head? = some 0x5a →
        parseRecord cfg l = .ok r → WF isPrint cfg r := fun raw' hm => hz raw' (by simp [hm])
    unfold preprocessLoop at h
    rw [compileLoop_cons]
    cases hf : filterLine raw with
    | none =>
      rw [hf] at h
      exact ih out subs out' subs' hz' h
    | some l =>
      rw [hf] at h
      simp only [] at h ⊢
      obtain ⟨c, x, xs, rfl, h20, h23⟩ := filterLine_some hf
      have hfl : filterLine (c :: x :: xs) = some (c :: x :: xs) := filterLine_cons h20 h23
      by_cases h25 : c = 0x25
      · -- `%`: decoded into the accumulator, not written
        subst h25
        simp only [List.head?_cons, if_true] at h
        cases hp : parseRecord cfg (0x25 :: x :: xs) with
        | error e => rw [hp] at h; cases h
        | ok r =>
          rw [hp] at h
          simp only [hn, if_true] at h
          obtain ⟨new, hout, hcmp⟩ := ih out _ out' subs' hz' h
          refine ⟨new, hout, ?_⟩
          simp only [net_of_parse cfg _ r hn hp, List.append_nil]
          rw [compileLoop_acc]
          cases hc : compileLoop cfg rest [] [] with
          | none => rw [hc] at hcmp; simpa [Option.map] using hcmp
          | some ks =>
            obtain ⟨k, s⟩ := ks
            rw [hc] at hcmp
            simp only [Option.map, List.nil_append]
            exact ⟨by rw [hcmp.1, List.append_assoc], hcmp.2⟩
      · have hne : ((c :: x :: xs).head? = some 0x25) = False := by simp [h25]
        simp only [hne, if_false] at h
        by_cases h5a : c = 0x5a
        · -- `Z`: replaced by its normalised text
          subst h5a
          simp only [List.head?_cons, if_true] at h
          cases hp : parseRecord cfg (0x5a :: x :: xs) with
          | error e => rw [hp] at h; cases h
          | ok r =>
            rw [hp] at h
            simp only [] at h
            cases hm : marshalText isPrint cfg r with
            | error e => rw [hm] at h; cases h
            | ok t =>
              rw [hm] at h
              simp only [] at h
              obtain ⟨new, hout, hcmp⟩ := ih _ subs out' subs' hz' h
              have hwf := hz raw (by simp) _ r hf rfl hp
              have hsub : recordSubnet r = none := recordSubnet_of_parse cfg _ _ r (by decide) hp
              -- the text decodes to the same record
              have ht : filterLine t = some t ∧ parseRecord cfg t = .ok r := by
                cases r with
                | soa dom ns adm ser ref ret exp min ttl lo =>
                  have := pm_soa isPrint cfg dom ns adm ser ref ret exp min ttl lo hwf
                  simp only [marshalText, marshalFields, Except.ok.injEq] at hm
                  subst hm
                  refine ⟨?_, this⟩
                  simp only [joinSep, sep, List.append_assoc, List.cons_append, List.nil_append]
                  cases hd : domText isPrint dom with
                  | nil => exact filterLine_cons (by decide) (by decide)
                  | cons a as => exact filterLine_cons (by decide) (by decide)
                | _ =>
                  exfalso
                  simp (decide := true) only [parseRecord, if_true, if_false, ↓reduceIte] at hp
                  repeat' split at hp
                  all_goals cases hp
              refine ⟨t :: new, by rw [hout]; simp, ?_⟩
              simp only [hsub, Option.toList_none, List.append_nil, List.nil_append]
              rw [compileLoop_acc]
              rw [compileLoop_cons cfg t new]
              simp only [ht.1, ht.2, hsub, Option.toList_none, List.append_nil, List.nil_append]
              rw [compileLoop_acc cfg new]
              cases hc : compileLoop cfg rest [] [] with
              | none => rw [hc] at hcmp; simp [Option.map, hcmp]
              | some ks =>
                obtain ⟨k, s⟩ := ks
                rw [hc] at hcmp
                simp [Option.map, hcmp.1, hcmp.2]
        · -- any other line: copied
          have hne2 : ((c :: x :: xs).head? = some 0x5a) = False := by simp [h5a]
          simp only [hne2, if_false] at h
          obtain ⟨new, hout, hcmp⟩ := ih _ subs out' subs' hz' h
          refine ⟨(c :: x :: xs) :: new, by rw [hout]; simp, ?_⟩
          rw [compileLoop_cons cfg _ new]
          simp only [hfl]
          cases hp : parseRecord cfg (c :: x :: xs) with
          | error e => simp
          | ok r =>
            have hsub : recordSubnet r = none := recordSubnet_of_parse cfg _ _ r h25 hp
            simp only [hsub, Option.toList_none, List.append_nil, List.nil_append]
            rw [compileLoop_acc, compileLoop_acc cfg new]
            cases hc : compileLoop cfg rest [] [] with
            | none => rw [hc] at hcmp; simp [Option.map, hcmp]
            | some ks =>
              obtain ⟨k, s⟩ := ks
              rw [hc] at hcmp
              simp [Option.map, hcmp.1, hcmp.2]

end DnsVerif.MarshalText
