/-
C17: assembling the per-token facts into the statements about whole strings.
-/
import DnsVerif.Proofs.Quote

namespace DnsVerif.Quote

/-- What one iteration of the quoting loop guarantees about its token. -/
structure StepOK (isPrint : Nat → Bool) (s : Bytes) : Prop where
  w_pos : 1 ≤ (quoteStep isPrint s).2
  w_le : (quoteStep isPrint s).2 ≤ s.length
  pre_head : (pre (quoteStep isPrint s).1).head? ≠ some dquote
  pre_ne : pre (quoteStep isPrint s).1 ≠ []
  unq : ∀ rest, ∃ c mb, unquoteChar (post (quoteStep isPrint s).1 ++ rest) = .ok (c, mb, rest) ∧
      (if c < 0x80 ∨ ¬ mb = true then [UInt8.ofNat c] else encodeRune c)
        = s.take (quoteStep isPrint s).2
  raw : bslash ∉ post (quoteStep isPrint s).1 →
      post (quoteStep isPrint s).1 = s.take (quoteStep isPrint s).2
  nl : isPrint 10 = false → (0x0a : UInt8) ∉ post (quoteStep isPrint s).1

theorem StepOK.of_eq (isPrint : Nat → Bool) (s tok : Bytes) (w : Nat)
    (h : quoteStep isPrint s = (tok, w))
    (w_pos : 1 ≤ w) (w_le : w ≤ s.length)
    (pre_head : (pre tok).head? ≠ some dquote) (pre_ne : pre tok ≠ [])
    (unq : ∀ rest, ∃ c mb, unquoteChar (post tok ++ rest) = .ok (c, mb, rest) ∧
      (if c < 0x80 ∨ ¬ mb = true then [UInt8.ofNat c] else encodeRune c) = s.take w)
    (raw : bslash ∉ post tok → post tok = s.take w)
    (nl : isPrint 10 = false → (0x0a : UInt8) ∉ post tok) : StepOK isPrint s := by
  constructor <;> rw [h] <;> assumption

theorem unquoteChar_bslash (k : UInt8) (s : Bytes) :
    unquoteChar (bslash :: k :: s) = unquoteEsc k.toNat s := by
  unfold unquoteChar
  simp only
  rw [if_neg (by simp [bslash]), if_neg (by simp)]

theorem unquoteEsc_x (s : Bytes) (v : Nat) (t : Bytes) (h : hexN 2 0 s = some (v, t)) :
    unquoteEsc 0x78 s = .ok (v, false, t) := by
  simp [unquoteEsc, h]

theorem unquoteEsc_u (s : Bytes) (v : Nat) (t : Bytes) (h : hexN 4 0 s = some (v, t))
    (hv : validRune v = true) : unquoteEsc 0x75 s = .ok (v, true, t) := by
  simp [unquoteEsc, h, hv]

theorem unquoteEsc_U (s : Bytes) (v : Nat) (t : Bytes) (h : hexN 8 0 s = some (v, t))
    (hv : validRune v = true) : unquoteEsc 0x55 s = .ok (v, true, t) := by
  simp [unquoteEsc, h, hv]

theorem post_ne_of_pre_ne (t : Bytes) (h : pre t ≠ []) : post t ≠ [] := by
  unfold post
  generalize pre t = u at h
  match u, h with
  | [x], _ => simp [replacePair]
  | x :: y :: r, _ =>
    simp only [replacePair]
    split <;> simp

theorem encodeRune_ge (r : Nat) (h : 0x80 ≤ r) (hv : validRune r = true) :
    ∀ x ∈ encodeRune r, 0x80 ≤ x.toNat := by
  have hr : r ≤ 0x10FFFF := by
    simp only [validRune, Bool.or_eq_true, Bool.and_eq_true, decide_eq_true_eq] at hv; omega
  intro x hx
  unfold encodeRune at hx
  rw [if_neg (by omega)] at hx
  by_cases h8 : r < 0x800
  · rw [if_pos h8] at hx
    simp only [List.mem_cons, List.not_mem_nil, or_false] at hx
    rcases hx with rfl | rfl <;> simp <;> omega
  · rw [if_neg h8, if_neg (show ¬ ¬ validRune r = true by simp [hv])] at hx
    by_cases h16 : r < 0x10000
    · rw [if_pos h16] at hx
      simp only [List.mem_cons, List.not_mem_nil, or_false] at hx
      rcases hx with rfl | rfl | rfl <;> simp <;> omega
    · rw [if_neg h16] at hx
      simp only [List.mem_cons, List.not_mem_nil, or_false] at hx
      rcases hx with rfl | rfl | rfl | rfl <;> simp <;> omega

theorem not_mem_of_ge (t : Bytes) (h : ∀ x ∈ t, 0x80 ≤ x.toNat) (c : UInt8) (hc : c.toNat < 0x80) :
    c ∉ t := by
  intro hm; have := h c hm; omega

/-- unquoting a raw multi-byte rune -/
theorem unquote_raw (r w : Nat) (s rest : Bytes) (b0 : UInt8) (t0 : Bytes) (hs : s = b0 :: t0)
    (h0 : 0x80 ≤ b0.toNat) (hok : DecodeOK s r w) :
    unquoteChar (s.take w ++ rest) = .ok (r, true, rest) := by
  have hst := hok.stable rest
  have hw := hok.w_ge
  have hl := hok.w_le
  have hlen : (s.take w).length = w := by simp; omega
  subst hs
  match w, hw, hst, hlen with
  | w' + 1, _, hst, hlen =>
    simp only [List.take_succ_cons, List.cons_append] at hst hlen ⊢
    unfold unquoteChar
    simp only
    rw [if_pos h0, hst]
    simp only [List.drop_succ_cons]
    have : (List.take w' t0).length = w' := by simpa using hlen
    rw [List.drop_left' this]

theorem stepOK (isPrint : Nat → Bool) (b0 : UInt8) (t0 : Bytes) : StepOK isPrint (b0 :: t0) := by
  by_cases hlt : b0.toNat < 0x80
  · -- ASCII: finite table
    have hq : quoteStep isPrint (b0 :: t0) = (escapedRune (fun _ => isPrint b0.toNat) b0.toNat, 1) := by
      unfold quoteStep
      simp only [hlt, if_true]
      rw [if_neg (by simp [runeError]; omega), ← escapedRune_congr]
    obtain ⟨a1, a2, a3, a4, a5⟩ := ascii_tokens ⟨b0.toNat, hlt⟩ (isPrint b0.toNat)
    simp only at a1 a2 a3 a4 a5
    refine StepOK.of_eq _ _ _ _ hq (by simp) (by simp) a2 a3 ?_ ?_ ?_
    · intro rest
      obtain ⟨mb, h⟩ := unquoteChar_append_ascii _ rest _ a1
      refine ⟨b0.toNat, mb, h, ?_⟩
      simp [hlt]
    · intro h; simpa using a4 h
    · intro h10 hm
      obtain ⟨hp, hb⟩ := a5 hm
      rw [hb, h10] at hp; simp at hp
  · have h0 : 0x80 ≤ b0.toNat := by omega
    have hb0 := b0.toNat_lt
    rcases decodeRune_cases b0 t0 h0 with hinv | hok
    · -- invalid byte: \xHH
      have hq : quoteStep isPrint (b0 :: t0)
          = ([bslash, 0x78, lowerhex (b0.toNat / 16), lowerhex (b0.toNat % 16)], 1) := by
        unfold quoteStep
        simp only [hlt, if_false, hinv]
        rw [if_pos (by simp)]
      obtain ⟨i1, i2, i3⟩ := invalid_tokens ⟨b0.toNat - 128, by omega⟩
      have e : 128 + (b0.toNat - 128) = b0.toNat := by omega
      simp only [e] at i1 i2 i3
      refine StepOK.of_eq _ _ _ _ hq (by simp) (by simp) ?_ ?_ ?_ ?_ ?_
      · rw [i2]; simp [bslash, dquote]
      · rw [i2]; simp
      · intro rest
        obtain ⟨mb, h⟩ := unquoteChar_append_ascii _ rest _ i1
        rw [i3] at h
        -- the \x escape is never multibyte
        have hmb : mb = false := by
          have h2 := hexN2 b0.toNat hb0 rest
          simp only [List.cons_append, List.nil_append] at h
          rw [unquoteChar_bslash] at h
          have e78 : (0x78 : UInt8).toNat = 0x78 := by decide
          rw [e78, unquoteEsc_x _ _ _ h2] at h
          simp only [Except.ok.injEq, Prod.mk.injEq] at h
          exact h.2.1.symm
        rw [i3]
        refine ⟨b0.toNat, mb, h, ?_⟩
        simp [hmb]
      · intro h; rw [i3] at h; simp at h
      · intro _; rw [i3]
        have l1 := lowerhex_safe (b0.toNat / 16) (by omega)
        have l2 := lowerhex_safe (b0.toNat % 16) (by omega)
        simp only [List.mem_cons, List.not_mem_nil, or_false, not_or]
        exact ⟨by simp [bslash], by simp, fun h => l1.2.2.2.2 h.symm, fun h => l2.2.2.2.2 h.symm⟩
    · -- valid multi-byte rune
      have hw := hok.w_ge
      have hqs : quoteStep isPrint (b0 :: t0)
          = (escapedRune isPrint (decodeRune (b0 :: t0)).1, (decodeRune (b0 :: t0)).2) := by
        unfold quoteStep
        simp only [hlt, if_false]
        rw [if_neg (by omega)]
      generalize hr : (decodeRune (b0 :: t0)).1 = r at hok hqs
      generalize hwd : (decodeRune (b0 :: t0)).2 = w at hok hqs hw
      have hrge := hok.r_ge
      have hv := hok.valid
      have hrle : r ≤ 0x10FFFF := by
        simp only [validRune, Bool.or_eq_true, Bool.and_eq_true, decide_eq_true_eq] at hv; omega
      have hbytes := encodeRune_ge r hrge hv
      by_cases hp : isPrint r = true
      · -- printable: raw bytes
        have het : escapedRune isPrint r = encodeRune r := by
          unfold escapedRune
          rw [if_neg (by omega), if_pos hp]
        rw [het] at hqs
        have hpost : post (encodeRune r) = encodeRune r :=
          post_id _ (not_mem_of_ge _ hbytes _ (by simp)) (not_mem_of_ge _ hbytes _ (by simp))
            (not_mem_of_ge _ hbytes _ (by simp [bslash]))
        have hpre : pre (encodeRune r) = encodeRune r :=
          pre_id _ (not_mem_of_ge _ hbytes _ (by simp)) (not_mem_of_ge _ hbytes _ (by simp))
        have hne : encodeRune r ≠ [] := by
          rw [hok.enc]; intro h
          have := congrArg List.length h
          simp at this; omega
        refine StepOK.of_eq _ _ _ _ hqs (by omega) hok.w_le ?_ (by rw [hpre]; exact hne) ?_ ?_ ?_
        · rw [hpre]
          match hh : encodeRune r, hne with
          | x :: _, _ =>
            have := hbytes x (by rw [hh]; simp)
            simp only [List.head?_cons, ne_eq, Option.some.injEq]
            intro h; rw [h] at this; simp [dquote] at this
        · intro rest
          refine ⟨r, true, ?_, ?_⟩
          · rw [hpost, hok.enc]
            exact unquote_raw r w _ rest b0 t0 rfl h0 hok
          · simp only [not_true_eq_false, or_false]
            rw [if_neg (by omega)]; exact hok.enc
        · intro _; rw [hpost]; exact hok.enc
        · intro _; rw [hpost]; exact not_mem_of_ge _ hbytes _ (by simp)
      · -- not printable: \u / \U
        have hp' : isPrint r = false := by simpa using hp
        by_cases h16 : r < 0x10000
        · have het : escapedRune isPrint r = [bslash, 0x75, lowerhex (r / 4096 % 16),
              lowerhex (r / 256 % 16), lowerhex (r / 16 % 16), lowerhex (r % 16)] := by
            unfold escapedRune
            rw [if_neg (by omega), if_neg (by simp [hp']), if_neg (by omega), if_neg (by omega),
              if_neg (by omega), if_neg (by omega), if_neg (by omega), if_neg (by omega),
              if_neg (by omega), if_neg (by omega)]
            simp only [hv, if_true]
            rw [if_pos h16]
          rw [het] at hqs
          have l1 := lowerhex_safe (r / 4096 % 16) (by omega)
          have l2 := lowerhex_safe (r / 256 % 16) (by omega)
          have l3 := lowerhex_safe (r / 16 % 16) (by omega)
          have l4 := lowerhex_safe (r % 16) (by omega)
          have m1 : (0x2c : UInt8) ∉ [bslash, 0x75, lowerhex (r / 4096 % 16),
              lowerhex (r / 256 % 16), lowerhex (r / 16 % 16), lowerhex (r % 16)] := by
            simp only [List.mem_cons, List.not_mem_nil, or_false, not_or]
            exact ⟨by simp [bslash], by simp, fun h => l1.1 h.symm, fun h => l2.1 h.symm,
              fun h => l3.1 h.symm, fun h => l4.1 h.symm⟩
          have m2 : (0x3a : UInt8) ∉ [bslash, 0x75, lowerhex (r / 4096 % 16),
              lowerhex (r / 256 % 16), lowerhex (r / 16 % 16), lowerhex (r % 16)] := by
            simp only [List.mem_cons, List.not_mem_nil, or_false, not_or]
            exact ⟨by simp [bslash], by simp, fun h => l1.2.1 h.symm, fun h => l2.2.1 h.symm,
              fun h => l3.2.1 h.symm, fun h => l4.2.1 h.symm⟩
          have hpre := pre_id _ m1 m2
          have hpost : post [bslash, 0x75, lowerhex (r / 4096 % 16),
              lowerhex (r / 256 % 16), lowerhex (r / 16 % 16), lowerhex (r % 16)]
              = [bslash, 0x75, lowerhex (r / 4096 % 16),
              lowerhex (r / 256 % 16), lowerhex (r / 16 % 16), lowerhex (r % 16)] := by
            unfold post; rw [hpre]
            have : (0x75 : UInt8) ≠ dquote := by simp [dquote]
            simp only [replacePair, this, and_false, if_false]
            have q1 : ¬ ((0x75 : UInt8) = bslash ∧ lowerhex (r / 4096 % 16) = dquote) := by
              simp [bslash]
            have q2 : ¬ (lowerhex (r / 4096 % 16) = bslash ∧ lowerhex (r / 256 % 16) = dquote) :=
              fun h => l1.2.2.1 h.1
            have q3 : ¬ (lowerhex (r / 256 % 16) = bslash ∧ lowerhex (r / 16 % 16) = dquote) :=
              fun h => l2.2.2.1 h.1
            have q4 : ¬ (lowerhex (r / 16 % 16) = bslash ∧ lowerhex (r % 16) = dquote) :=
              fun h => l3.2.2.1 h.1
            simp only [q1, q2, q3, q4, if_false]
          refine StepOK.of_eq _ _ _ _ hqs (by omega) hok.w_le (by rw [hpre]; simp [bslash, dquote])
            (by rw [hpre]; simp) ?_ ?_ ?_
          · intro rest
            refine ⟨r, true, ?_, ?_⟩
            · rw [hpost]
              simp only [List.cons_append, List.nil_append]
              rw [unquoteChar_bslash]
              have e75 : (0x75 : UInt8).toNat = 0x75 := by decide
              rw [e75, unquoteEsc_u _ _ _ (hexN4 r h16 rest) hv]
            · simp only [not_true_eq_false, or_false]
              rw [if_neg (by omega)]; exact hok.enc
          · intro h; rw [hpost] at h; simp at h
          · intro _; rw [hpost]
            simp only [List.mem_cons, List.not_mem_nil, or_false, not_or]
            exact ⟨by simp [bslash], by simp, fun h => l1.2.2.2.2 h.symm, fun h => l2.2.2.2.2 h.symm,
              fun h => l3.2.2.2.2 h.symm, fun h => l4.2.2.2.2 h.symm⟩
        · have het : escapedRune isPrint r = [bslash, 0x55, lowerhex (r / 268435456 % 16),
              lowerhex (r / 16777216 % 16), lowerhex (r / 1048576 % 16), lowerhex (r / 65536 % 16),
              lowerhex (r / 4096 % 16), lowerhex (r / 256 % 16), lowerhex (r / 16 % 16),
              lowerhex (r % 16)] := by
            unfold escapedRune
            rw [if_neg (by omega), if_neg (by simp [hp']), if_neg (by omega), if_neg (by omega),
              if_neg (by omega), if_neg (by omega), if_neg (by omega), if_neg (by omega),
              if_neg (by omega), if_neg (by omega)]
            simp only [hv, if_true]
            rw [if_neg h16]
          rw [het] at hqs
          have l1 := lowerhex_safe (r / 268435456 % 16) (by omega)
          have l2 := lowerhex_safe (r / 16777216 % 16) (by omega)
          have l3 := lowerhex_safe (r / 1048576 % 16) (by omega)
          have l4 := lowerhex_safe (r / 65536 % 16) (by omega)
          have l5 := lowerhex_safe (r / 4096 % 16) (by omega)
          have l6 := lowerhex_safe (r / 256 % 16) (by omega)
          have l7 := lowerhex_safe (r / 16 % 16) (by omega)
          have l8 := lowerhex_safe (r % 16) (by omega)
          have m1 : (0x2c : UInt8) ∉ [bslash, 0x55, lowerhex (r / 268435456 % 16),
              lowerhex (r / 16777216 % 16), lowerhex (r / 1048576 % 16), lowerhex (r / 65536 % 16),
              lowerhex (r / 4096 % 16), lowerhex (r / 256 % 16), lowerhex (r / 16 % 16),
              lowerhex (r % 16)] := by
            simp only [List.mem_cons, List.not_mem_nil, or_false, not_or]
            exact ⟨by simp [bslash], by simp, fun h => l1.1 h.symm, fun h => l2.1 h.symm,
              fun h => l3.1 h.symm, fun h => l4.1 h.symm, fun h => l5.1 h.symm, fun h => l6.1 h.symm,
              fun h => l7.1 h.symm, fun h => l8.1 h.symm⟩
          have m2 : (0x3a : UInt8) ∉ [bslash, 0x55, lowerhex (r / 268435456 % 16),
              lowerhex (r / 16777216 % 16), lowerhex (r / 1048576 % 16), lowerhex (r / 65536 % 16),
              lowerhex (r / 4096 % 16), lowerhex (r / 256 % 16), lowerhex (r / 16 % 16),
              lowerhex (r % 16)] := by
            simp only [List.mem_cons, List.not_mem_nil, or_false, not_or]
            exact ⟨by simp [bslash], by simp, fun h => l1.2.1 h.symm, fun h => l2.2.1 h.symm,
              fun h => l3.2.1 h.symm, fun h => l4.2.1 h.symm, fun h => l5.2.1 h.symm,
              fun h => l6.2.1 h.symm, fun h => l7.2.1 h.symm, fun h => l8.2.1 h.symm⟩
          have hpre := pre_id _ m1 m2
          have hpost : post [bslash, 0x55, lowerhex (r / 268435456 % 16),
              lowerhex (r / 16777216 % 16), lowerhex (r / 1048576 % 16), lowerhex (r / 65536 % 16),
              lowerhex (r / 4096 % 16), lowerhex (r / 256 % 16), lowerhex (r / 16 % 16),
              lowerhex (r % 16)] = [bslash, 0x55, lowerhex (r / 268435456 % 16),
              lowerhex (r / 16777216 % 16), lowerhex (r / 1048576 % 16), lowerhex (r / 65536 % 16),
              lowerhex (r / 4096 % 16), lowerhex (r / 256 % 16), lowerhex (r / 16 % 16),
              lowerhex (r % 16)] := by
            unfold post; rw [hpre]
            have : (0x55 : UInt8) ≠ dquote := by simp [dquote]
            simp only [replacePair, this, and_false, if_false]
            have q0 : ¬ ((0x55 : UInt8) = bslash ∧ lowerhex (r / 268435456 % 16) = dquote) := by
              simp [bslash]
            have q1 : ¬ (lowerhex (r / 268435456 % 16) = bslash ∧ lowerhex (r / 16777216 % 16) = dquote) :=
              fun h => l1.2.2.1 h.1
            have q2 : ¬ (lowerhex (r / 16777216 % 16) = bslash ∧ lowerhex (r / 1048576 % 16) = dquote) :=
              fun h => l2.2.2.1 h.1
            have q3 : ¬ (lowerhex (r / 1048576 % 16) = bslash ∧ lowerhex (r / 65536 % 16) = dquote) :=
              fun h => l3.2.2.1 h.1
            have q4 : ¬ (lowerhex (r / 65536 % 16) = bslash ∧ lowerhex (r / 4096 % 16) = dquote) :=
              fun h => l4.2.2.1 h.1
            have q5 : ¬ (lowerhex (r / 4096 % 16) = bslash ∧ lowerhex (r / 256 % 16) = dquote) :=
              fun h => l5.2.2.1 h.1
            have q6 : ¬ (lowerhex (r / 256 % 16) = bslash ∧ lowerhex (r / 16 % 16) = dquote) :=
              fun h => l6.2.2.1 h.1
            have q7 : ¬ (lowerhex (r / 16 % 16) = bslash ∧ lowerhex (r % 16) = dquote) :=
              fun h => l7.2.2.1 h.1
            simp only [q0, q1, q2, q3, q4, q5, q6, q7, if_false]
          refine StepOK.of_eq _ _ _ _ hqs (by omega) hok.w_le (by rw [hpre]; simp [bslash, dquote])
            (by rw [hpre]; simp) ?_ ?_ ?_
          · intro rest
            refine ⟨r, true, ?_, ?_⟩
            · rw [hpost]
              simp only [List.cons_append, List.nil_append]
              rw [unquoteChar_bslash]
              have e55 : (0x55 : UInt8).toNat = 0x55 := by decide
              rw [e55, unquoteEsc_U _ _ _ (hexN8 r (by omega) rest) hv]
            · simp only [not_true_eq_false, or_false]
              rw [if_neg (by omega)]; exact hok.enc
          · intro h; rw [hpost] at h; simp at h
          · intro _; rw [hpost]
            simp only [List.mem_cons, List.not_mem_nil, or_false, not_or]
            exact ⟨by simp [bslash], by simp, fun h => l1.2.2.2.2 h.symm, fun h => l2.2.2.2.2 h.symm,
              fun h => l3.2.2.2.2 h.symm, fun h => l4.2.2.2.2 h.symm, fun h => l5.2.2.2.2 h.symm,
              fun h => l6.2.2.2.2 h.symm, fun h => l7.2.2.2.2 h.symm, fun h => l8.2.2.2.2 h.symm⟩

end DnsVerif.Quote

namespace DnsVerif.Quote

/-! ### whole strings -/

theorem quoteBody_cons (isPrint : Nat → Bool) (fuel : Nat) (b0 : UInt8) (t0 : Bytes) :
    quoteBody isPrint (fuel + 1) (b0 :: t0) =
      (quoteStep isPrint (b0 :: t0)).1
        ++ quoteBody isPrint fuel ((b0 :: t0).drop (quoteStep isPrint (b0 :: t0)).2) := by
  simp [quoteBody]

theorem pre_quoteBody_head (isPrint : Nat → Bool) (fuel : Nat) (s : Bytes) :
    (pre (quoteBody isPrint fuel s)).head? ≠ some dquote := by
  match fuel, s with
  | 0, _ => simp [quoteBody, pre, replaceByte]
  | _ + 1, [] => simp [quoteBody, pre, replaceByte]
  | fuel + 1, b0 :: t0 =>
    have ok := stepOK isPrint b0 t0
    rw [quoteBody_cons, pre_append]
    have hne := ok.pre_ne
    have hh := ok.pre_head
    match hp : pre (quoteStep isPrint (b0 :: t0)).1, hne, hh with
    | x :: r, _, hh => simpa using hh

theorem post_quoteBody_cons (isPrint : Nat → Bool) (fuel : Nat) (b0 : UInt8) (t0 : Bytes) :
    post (quoteBody isPrint (fuel + 1) (b0 :: t0)) =
      post (quoteStep isPrint (b0 :: t0)).1
        ++ post (quoteBody isPrint fuel ((b0 :: t0).drop (quoteStep isPrint (b0 :: t0)).2)) := by
  rw [quoteBody_cons]
  unfold post
  rw [pre_append, replacePair_append _ _ _ _ (pre_quoteBody_head isPrint fuel _)]

/-- Main lemma: unquoting the post-processed body gives the input back. -/
theorem unquoteLoop_post_quoteBody (isPrint : Nat → Bool) :
    ∀ (fuel : Nat) (s : Bytes), s.length ≤ fuel →
    ∀ (fuel2 : Nat) (acc : Bytes), (post (quoteBody isPrint fuel s)).length ≤ fuel2 →
      unquoteLoop fuel2 (post (quoteBody isPrint fuel s)) acc = .ok (acc ++ s) := by
  intro fuel
  induction fuel with
  | zero =>
    intro s hs fuel2 acc _
    have : s = [] := by simpa using hs
    subst this
    simp [quoteBody, post, pre, replaceByte, replacePair, unquoteLoop]
  | succ fuel ih =>
    intro s hs fuel2 acc hf2
    match s, hs with
    | [], _ => simp [quoteBody, post, pre, replaceByte, replacePair, unquoteLoop]
    | b0 :: t0, hs =>
      have ok := stepOK isPrint b0 t0
      rw [post_quoteBody_cons] at hf2 ⊢
      have hpne := post_ne_of_pre_ne _ ok.pre_ne
      obtain ⟨c, mb, hu, hbytes⟩ := ok.unq
        (post (quoteBody isPrint fuel ((b0 :: t0).drop (quoteStep isPrint (b0 :: t0)).2)))
      have hw := ok.w_pos
      have hwl := ok.w_le
      have hdl : ((b0 :: t0).drop (quoteStep isPrint (b0 :: t0)).2).length ≤ fuel := by
        simp only [List.length_drop, List.length_cons] at hs hwl ⊢; omega
      have hlen : 1 ≤ (post (quoteStep isPrint (b0 :: t0)).1).length := by
        match hh : post (quoteStep isPrint (b0 :: t0)).1, hpne with
        | _ :: _, _ => simp
      rw [List.length_append] at hf2
      match fuel2, hf2 with
      | 0, hf2 => omega
      | f2 + 1, hf2 =>
        match hx : post (quoteStep isPrint (b0 :: t0)).1
            ++ post (quoteBody isPrint fuel ((b0 :: t0).drop (quoteStep isPrint (b0 :: t0)).2)) with
        | [] =>
          rw [hx] at hu; simp [unquoteChar] at hu
        | x :: xs =>
          rw [hx] at hu
          simp only [unquoteLoop, hu]
          have hrec := ih _ hdl f2
          have key : ∀ acc', unquoteLoop f2
              (post (quoteBody isPrint fuel ((b0 :: t0).drop (quoteStep isPrint (b0 :: t0)).2))) acc'
              = .ok (acc' ++ (b0 :: t0).drop (quoteStep isPrint (b0 :: t0)).2) :=
            fun acc' => hrec acc' (by omega)
          by_cases hc : c < 0x80 ∨ ¬ mb = true
          · rw [if_pos hc] at hbytes ⊢
            rw [key, List.append_assoc, hbytes, List.take_append_drop]
          · rw [if_neg hc] at hbytes ⊢
            rw [key, List.append_assoc, hbytes, List.take_append_drop]

/-- If the quoted form has no backslash it is the input itself (the shortcut of `Bunquote`). -/
theorem post_quoteBody_raw (isPrint : Nat → Bool) :
    ∀ (fuel : Nat) (s : Bytes), s.length ≤ fuel →
      bslash ∉ post (quoteBody isPrint fuel s) → post (quoteBody isPrint fuel s) = s := by
  intro fuel
  induction fuel with
  | zero =>
    intro s hs _
    have : s = [] := by simpa using hs
    subst this
    simp [quoteBody, post, pre, replaceByte, replacePair]
  | succ fuel ih =>
    intro s hs hno
    match s, hs with
    | [], _ => simp [quoteBody, post, pre, replaceByte, replacePair]
    | b0 :: t0, hs =>
      have ok := stepOK isPrint b0 t0
      rw [post_quoteBody_cons] at hno ⊢
      simp only [List.mem_append, not_or] at hno
      have hw := ok.w_pos
      have hwl := ok.w_le
      have hdl : ((b0 :: t0).drop (quoteStep isPrint (b0 :: t0)).2).length ≤ fuel := by
        simp only [List.length_drop, List.length_cons] at hs hwl ⊢; omega
      rw [ok.raw hno.1, ih _ hdl hno.2, List.take_append_drop]

theorem post_quoteBody_no_nl (isPrint : Nat → Bool) (h10 : isPrint 10 = false) :
    ∀ (fuel : Nat) (s : Bytes), (0x0a : UInt8) ∉ post (quoteBody isPrint fuel s) := by
  intro fuel
  induction fuel with
  | zero => intro s; simp [quoteBody, post, pre, replaceByte, replacePair]
  | succ fuel ih =>
    intro s
    match s with
    | [] => simp [quoteBody, post, pre, replaceByte, replacePair]
    | b0 :: t0 =>
      rw [post_quoteBody_cons]
      simp only [List.mem_append, not_or]
      exact ⟨(stepOK isPrint b0 t0).nl h10, ih _⟩

/-- `Bquote` is the post-processed body of `strconv.Quote`. -/
theorem bquote_eq (isPrint : Nat → Bool) (b : Bytes) :
    bquote isPrint b = post (quoteBody isPrint b.length b) := by
  unfold bquote strconvQuote
  simp only [replaceByte_append]
  have e1 : replaceByte 0x2c [bslash, 0x30, 0x35, 0x34] [dquote] = [dquote] := by decide
  have e2 : replaceByte 0x3a [bslash, 0x30, 0x37, 0x32] [dquote] = [dquote] := by decide
  rw [e1, e2]
  have hlen : ¬ ([dquote] ++ replaceByte 0x3a [bslash, 0x30, 0x37, 0x32]
      (replaceByte 0x2c [bslash, 0x30, 0x35, 0x34] (quoteBody isPrint b.length b)) ++ [dquote]).length < 2 := by
    simp
  rw [if_neg hlen]
  simp only [post, pre, R1, R2]
  congr 1
  simp

end DnsVerif.Quote
