/-
C03 (name → map): the model's label-by-label search over v1-layout map keys (`Loc.findMapV1`, i.e.
`FindMap` of the CDB driver and of the RocksDB driver with v1 keys) computes the specification's
`Spec.mapFor`: the exact-name map first, else the nearest enclosing wildcard map. Core Lean only.
-/
import DnsVerif.Model.Location
import DnsVerif.Spec.Answer
namespace DnsVerif.Lpm
open DnsVerif DnsVerif.Name DnsVerif.Loc DnsVerif.Spec

/-- every label has length 1..255 (so the length byte is non-zero and faithful) -/
def WFName (q : List Bytes) : Prop := ∀ l ∈ q, 0 < l.length ∧ l.length < 256

def mtypeOf (ecs : Bool) : Bytes := [0, if ecs then 0x38 else 0x4d]

/-- v1-layout map key -/
def mapKeyOf (ecs : Bool) (owner : List Bytes) (wild : Bool) : Bytes :=
  mtypeOf ecs ++ pack owner ++ [if wild then 0x2a else 0x3d]

/-- the store holds exactly the map keys of the declared maps: under each map key, the declared ids
in declaration order -/
def MapRep (s : Store) (maps : List MapDecl) : Prop :=
  ∀ ecs owner wild, s.get (mapKeyOf ecs owner wild) =
    (maps.filter fun m => m.ecs = ecs ∧ m.wild = wild ∧ m.owner = owner).map (·.mapID)

/-- at most one map per (type, owner, wild) -/
def MapsUnique (maps : List MapDecl) : Prop :=
  maps.Pairwise fun a b => ¬ (a.ecs = b.ecs ∧ a.owner = b.owner ∧ a.wild = b.wild)

/-- proper ancestors of a name (as label lists), nearest first -/
def properAncestors : List Bytes → List (List Bytes)
  | [] => []
  | _ :: rest => rest :: properAncestors rest

/-! ### the specification side -/

/-- the spec's local `up` loop is a `findSome?` over the proper ancestors -/
theorem mapFor_up_eq (maps : List MapDecl) (ecs : Bool) (q : List Bytes) :
    mapFor.up maps ecs q = (properAncestors q).findSome? fun r =>
      (maps.find? fun m => m.ecs = ecs ∧ m.wild ∧ m.owner = r).map (·.mapID) := by
  induction q with
  | nil => simp [mapFor.up, properAncestors]
  | cons l rest ih =>
    rw [mapFor.up, properAncestors, List.findSome?_cons]
    cases h : maps.find? fun m => m.ecs = ecs ∧ m.wild ∧ m.owner = rest with
    | none => simpa using ih
    | some m => simp

/-- the first declared exact map of a name is the answer, whatever wildcard maps exist -/
theorem mapFor_exact {maps : List MapDecl} {ecs : Bool} {q : List Bytes} {m : MapDecl}
    (hm : m ∈ maps) (he : m.ecs = ecs) (hw : m.wild = false) (ho : m.owner = q) :
    ∃ m' ∈ maps, m'.ecs = ecs ∧ m'.wild = false ∧ m'.owner = q ∧ mapFor maps ecs q = some m'.mapID := by
  unfold mapFor
  cases h : maps.find? fun m => m.ecs = ecs ∧ ¬ m.wild ∧ m.owner = q with
  | none =>
    rw [List.find?_eq_none] at h
    have := h m hm
    simp [he, hw, ho] at this
  | some m' =>
    have hp := List.find?_some h
    have hmem := List.mem_of_find?_eq_some h
    simp at hp
    exact ⟨m', hmem, hp.1, hp.2.1, hp.2.2, rfl⟩

/-- with unique keys, `find?` on a full key returns *the* map with this key -/
theorem find?_key_unique {maps : List MapDecl} (hu : MapsUnique maps) {m : MapDecl} (hm : m ∈ maps)
    (p : MapDecl → Bool)
    (hp : ∀ a, p a = true ↔ (a.ecs = m.ecs ∧ a.owner = m.owner ∧ a.wild = m.wild)) :
    maps.find? p = some m := by
  induction maps with
  | nil => cases hm
  | cons x xs ih =>
    unfold MapsUnique at hu
    rw [List.pairwise_cons] at hu
    rw [List.find?_cons]
    cases hx : p x with
    | true =>
      rcases List.mem_cons.mp hm with rfl | hmx
      · rfl
      · exact absurd ((hp x).mp hx) (hu.1 m hmx)
    | false =>
      rcases List.mem_cons.mp hm with rfl | hmx
      · have : p m = true := (hp m).mpr ⟨rfl, rfl, rfl⟩
        rw [this] at hx; cases hx
      · exact ih hu.2 hmx

/-- with unique keys the exact map of a name is the answer -/
theorem mapFor_exact_unique {maps : List MapDecl} (hu : MapsUnique maps) {ecs : Bool} {q : List Bytes}
    {m : MapDecl} (hm : m ∈ maps) (he : m.ecs = ecs) (hw : m.wild = false) (ho : m.owner = q) :
    mapFor maps ecs q = some m.mapID := by
  unfold mapFor
  have : maps.find? (fun m => m.ecs = ecs ∧ ¬ m.wild ∧ m.owner = q) = some m := by
    apply find?_key_unique hu hm
    intro a
    subst he ho
    simp [hw]
    intro _
    constructor
    · intro h; exact ⟨h.2, h.1⟩
    · intro h; exact ⟨h.2, h.1⟩
  rw [this]

/-- no exact map: the nearest enclosing wildcard map (first declared one at that ancestor) -/
theorem mapFor_wild {maps : List MapDecl} {ecs : Bool} {q : List Bytes}
    (hno : ∀ m ∈ maps, ¬ (m.ecs = ecs ∧ m.wild = false ∧ m.owner = q)) :
    mapFor maps ecs q = (properAncestors q).findSome? fun r =>
      (maps.find? fun m => m.ecs = ecs ∧ m.wild ∧ m.owner = r).map (·.mapID) := by
  unfold mapFor
  have : maps.find? (fun m => m.ecs = ecs ∧ ¬ m.wild ∧ m.owner = q) = none := by
    rw [List.find?_eq_none]
    intro m hm
    simpa using hno m hm
  rw [this]
  exact mapFor_up_eq maps ecs q

/-- `mapFor` in one formula: exact map first, then the wildcard maps of the proper ancestors -/
theorem mapFor_eq (maps : List MapDecl) (ecs : Bool) (q : List Bytes) :
    mapFor maps ecs q =
      ((maps.find? fun m => m.ecs = ecs ∧ m.wild = false ∧ m.owner = q).map (·.mapID)).or
        ((properAncestors q).findSome? fun r =>
          (maps.find? fun m => m.ecs = ecs ∧ m.wild ∧ m.owner = r).map (·.mapID)) := by
  have hf : (fun m : MapDecl => decide (m.ecs = ecs ∧ ¬ m.wild ∧ m.owner = q)) =
      (fun m : MapDecl => decide (m.ecs = ecs ∧ m.wild = false ∧ m.owner = q)) := by
    funext m; simp
  unfold mapFor
  rw [hf]
  cases h : maps.find? fun m => m.ecs = ecs ∧ m.wild = false ∧ m.owner = q with
  | none => simpa using mapFor_up_eq maps ecs q
  | some m => simp

/-- no map at all iff there is neither an exact map nor a wildcard map at a proper ancestor -/
theorem mapFor_none_iff (maps : List MapDecl) (ecs : Bool) (q : List Bytes) :
    mapFor maps ecs q = none ↔
      (∀ m ∈ maps, ¬ (m.ecs = ecs ∧ m.wild = false ∧ m.owner = q)) ∧
      (∀ r ∈ properAncestors q, ∀ m ∈ maps, ¬ (m.ecs = ecs ∧ m.wild = true ∧ m.owner = r)) := by
  rw [mapFor_eq]
  simp [Option.or_eq_none_iff, List.findSome?_eq_none_iff, List.find?_eq_none]

/-! ### the model side -/

theorem pack_nil : pack [] = [0] := rfl

theorem pack_cons (l : Bytes) (rest : List Bytes) :
    pack (l :: rest) = UInt8.ofNat l.length :: (l ++ pack rest) := by
  simp [pack, List.flatMap_cons]

theorem WFName.tail {l : Bytes} {rest : List Bytes} (h : WFName (l :: rest)) : WFName rest :=
  fun x hx => h x (List.mem_cons_of_mem _ hx)

theorem properAncestors_wf {q : List Bytes} (hq : WFName q) : ∀ r ∈ properAncestors q, WFName r := by
  induction q with
  | nil => intro r hr; cases hr
  | cons l rest ih =>
    intro r hr
    rcases List.mem_cons.mp hr with rfl | hr
    · exact hq.tail
    · exact ih hq.tail r hr

/-- the candidate keys of the label-by-label search on a well-formed packed name -/
theorem mapKeys_pack_aux (mtype : Bytes) (q : List Bytes) (hq : WFName q) :
    ∀ (fuel : Nat), q.length + 1 ≤ fuel → ∀ isFirst : Bool,
      mapKeys mtype fuel (pack q) isFirst =
        (mtype ++ pack q ++ [if isFirst then 0x3d else 0x2a]) ::
          (properAncestors q).map fun r => mtype ++ pack r ++ [0x2a] := by
  induction q with
  | nil =>
    intro fuel hf isFirst
    obtain ⟨f, rfl⟩ : ∃ f, fuel = f + 1 := ⟨fuel - 1, by omega⟩
    simp [mapKeys, pack_nil, properAncestors]
  | cons l rest ih =>
    intro fuel hf isFirst
    obtain ⟨f, rfl⟩ : ∃ f, fuel = f + 1 := ⟨fuel - 1, by omega⟩
    have hl := hq l (List.mem_cons_self ..)
    have hn : (UInt8.ofNat l.length).toNat = l.length := by
      rw [UInt8.toNat_ofNat']; exact Nat.mod_eq_of_lt hl.2
    have hn0 : UInt8.ofNat l.length ≠ 0 := by
      intro h
      rw [h] at hn
      have h0 : (0 : UInt8).toNat = 0 := rfl
      omega
    have hdrop : (l ++ pack rest).drop (UInt8.ofNat l.length).toNat = pack rest := by
      rw [hn]; exact List.drop_left' rfl
    have hlen : rest.length + 1 ≤ f := by rw [List.length_cons] at hf; omega
    rw [pack_cons, mapKeys]
    rw [if_neg hn0, hdrop, ih hq.tail f hlen false, properAncestors, List.map_cons]
    simp

theorem mapKeys_pack (mtype : Bytes) {q : List Bytes} (hq : WFName q) {fuel : Nat}
    (hf : q.length + 1 ≤ fuel) :
    mapKeys mtype fuel (pack q) true =
      (mtype ++ pack q ++ [0x3d]) :: (properAncestors q).map fun r => mtype ++ pack r ++ [0x2a] := by
  simpa using mapKeys_pack_aux mtype q hq fuel hf true

theorem mapKeys_pack_false (mtype : Bytes) {q : List Bytes} (hq : WFName q) {fuel : Nat}
    (hf : q.length + 1 ≤ fuel) :
    mapKeys mtype fuel (pack q) false =
      (mtype ++ pack q ++ [0x2a]) :: (properAncestors q).map fun r => mtype ++ pack r ++ [0x2a] := by
  simpa using mapKeys_pack_aux mtype q hq fuel hf false

theorem length_le_pack (q : List Bytes) : q.length + 1 ≤ (pack q).length := by
  induction q with
  | nil => simp [pack_nil]
  | cons l rest ih => rw [pack_cons]; simp; omega

/-- `MapRep` restricted to well-formed owners. This is all the search needs (every candidate key is
the key of a suffix of the well-formed query name), and unlike `MapRep` it is satisfiable for every
set of maps with well-formed owners (`mapRepWF_storeOfMaps`): on names with labels of 256+ bytes
`pack` is not injective. -/
def MapRepWF (s : Store) (maps : List MapDecl) : Prop :=
  ∀ ecs owner wild, WFName owner → s.get (mapKeyOf ecs owner wild) =
    (maps.filter fun m => m.ecs = ecs ∧ m.wild = wild ∧ m.owner = owner).map (·.mapID)

theorem MapRep.wf {s : Store} {maps : List MapDecl} (h : MapRep s maps) : MapRepWF s maps :=
  fun ecs owner wild _ => h ecs owner wild

/-- the first value under a map key is the id of the first declared map with this key -/
theorem first_mapKeyOf {s : Store} {maps : List MapDecl} (h : MapRepWF s maps)
    (ecs : Bool) {owner : List Bytes} (ho : WFName owner) (wild : Bool) :
    first s (mapKeyOf ecs owner wild) =
      (maps.find? fun m => m.ecs = ecs ∧ m.wild = wild ∧ m.owner = owner).map (·.mapID) := by
  unfold first
  rw [h ecs owner wild ho, List.head?_map, List.head?_filter]

theorem findSome?_congr' {α β : Type} {f g : α → Option β} :
    ∀ {l : List α}, (∀ a ∈ l, f a = g a) → l.findSome? f = l.findSome? g
  | [], _ => rfl
  | a :: l, h => by
    rw [List.findSome?_cons, List.findSome?_cons, h a (List.mem_cons_self ..),
      findSome?_congr' fun b hb => h b (List.mem_cons_of_mem _ hb)]

/-- the main theorem from the weaker representation hypothesis (well-formed owners only) -/
theorem findMapV1_eq_mapFor_wf {s : Store} {maps : List MapDecl} (h : MapRepWF s maps) (ecs : Bool)
    (q : List Bytes) (hq : WFName q) :
    findMapV1 s (pack q) (mtypeOf ecs) = mapFor maps ecs q := by
  unfold findMapV1
  rw [mapKeys_pack (mtypeOf ecs) hq (Nat.le_succ_of_le (length_le_pack q)), List.findSome?_cons,
    List.findSome?_map, mapFor_eq]
  have h0 : first s (mtypeOf ecs ++ pack q ++ [0x3d]) =
      (maps.find? fun m => m.ecs = ecs ∧ m.wild = false ∧ m.owner = q).map (·.mapID) := by
    simpa [mapKeyOf] using first_mapKeyOf h ecs hq false
  have h1 : (properAncestors q).findSome? (first s ∘ fun r => mtypeOf ecs ++ pack r ++ [0x2a]) =
      (properAncestors q).findSome? fun r =>
        (maps.find? fun m => m.ecs = ecs ∧ m.wild ∧ m.owner = r).map (·.mapID) := by
    apply findSome?_congr'
    intro r hr
    simpa [mapKeyOf] using first_mapKeyOf h ecs (properAncestors_wf hq r hr) true
  rw [h0, h1]
  cases maps.find? fun m => m.ecs = ecs ∧ m.wild = false ∧ m.owner = q <;> simp

/-- MAIN: on a store that represents the declared maps, the label-by-label search of the server
(`FindMap`, v1 key layout) returns exactly the specified map of the name.

Uniqueness of the map keys is *not* needed: `first s k` is the head of the value list and the head of
`filter.map` is `find?.map`, so on both sides the first declared map of a key wins. With `MapsUnique`
each value list has at most one element (`MapRep_get_length_le_one`), hence the answer does not
depend on the order in which values are stored under a key. -/
theorem findMapV1_eq_mapFor {s : Store} {maps : List MapDecl} (h : MapRep s maps) (ecs : Bool)
    (q : List Bytes) (hq : WFName q) :
    findMapV1 s (pack q) (mtypeOf ecs) = mapFor maps ecs q :=
  findMapV1_eq_mapFor_wf h.wf ecs q hq

/-! ### uniqueness: the stored order of values is irrelevant -/

theorem filter_key_length_le_one {maps : List MapDecl} (hu : MapsUnique maps) (ecs : Bool)
    (owner : List Bytes) (wild : Bool) :
    (maps.filter fun m => m.ecs = ecs ∧ m.wild = wild ∧ m.owner = owner).length ≤ 1 := by
  induction maps with
  | nil => simp
  | cons x xs ih =>
    unfold MapsUnique at hu
    rw [List.pairwise_cons] at hu
    rw [List.filter_cons]
    split
    · rename_i hx
      have hx' : x.ecs = ecs ∧ x.wild = wild ∧ x.owner = owner := by simpa using hx
      have : (xs.filter fun m => m.ecs = ecs ∧ m.wild = wild ∧ m.owner = owner) = [] := by
        rw [List.filter_eq_nil_iff]
        intro y hy hy'
        have hy'' : y.ecs = ecs ∧ y.wild = wild ∧ y.owner = owner := by simpa using hy'
        exact hu.1 y hy ⟨hx'.1.trans hy''.1.symm, hx'.2.2.trans hy''.2.2.symm,
          hx'.2.1.trans hy''.2.1.symm⟩
      rw [this]; simp
    · exact ih hu.2

/-- with unique map keys every map key holds at most one value, so `first` (and hence `findMapV1`)
does not depend on the order in which values are stored under a key -/
theorem MapRep_get_length_le_one {s : Store} {maps : List MapDecl} (h : MapRep s maps)
    (hu : MapsUnique maps) (ecs : Bool) (owner : List Bytes) (wild : Bool) :
    (s.get (mapKeyOf ecs owner wild)).length ≤ 1 := by
  rw [h, List.length_map]
  exact filter_key_length_le_one hu ecs owner wild

/-! ### non-vacuity -/

def exMaps : List MapDecl :=
  [⟨true, [[97], [98]], false, [0, 1]⟩, ⟨true, [[98]], true, [0, 2]⟩]

/-- exact `a.b` ↦ `[0,1]`, wildcard `*.b` ↦ `[0,2]` -/
def exStore : Store :=
  [(mapKeyOf true [[97], [98]] false, [[0, 1]]), (mapKeyOf true [[98]] true, [[0, 2]])]

example : findMapV1 exStore (pack [[97], [98]]) (mtypeOf true) = some [0, 1] ∧
    mapFor exMaps true [[97], [98]] = some [0, 1] := by decide
example : findMapV1 exStore (pack [[120], [98]]) (mtypeOf true) = some [0, 2] ∧
    mapFor exMaps true [[120], [98]] = some [0, 2] := by decide
example : findMapV1 exStore (pack [[98]]) (mtypeOf true) = none ∧
    mapFor exMaps true [[98]] = none := by decide
example : MapsUnique exMaps := by unfold MapsUnique exMaps; decide

/-! ### satisfiability of the representation -/

theorem toNat_ofNat_length {l : Bytes} (hl : 0 < l.length ∧ l.length < 256) :
    (UInt8.ofNat l.length).toNat = l.length := by
  rw [UInt8.toNat_ofNat']; exact Nat.mod_eq_of_lt hl.2

/-- `pack` is injective on well-formed names -/
theorem pack_inj_wf : ∀ {o o' : List Bytes}, WFName o → WFName o' → pack o = pack o' → o = o'
  | [], [], _, _, _ => rfl
  | [], l' :: r', _, h', h => by
    exfalso
    rw [pack_nil, pack_cons] at h
    have hl := h' l' (List.mem_cons_self ..)
    have hn := toNat_ofNat_length hl
    rw [← (List.cons.inj h).1] at hn
    have h0 : (0 : UInt8).toNat = 0 := rfl
    omega
  | l :: r, [], h', _, h => by
    exfalso
    rw [pack_nil, pack_cons] at h
    have hl := h' l (List.mem_cons_self ..)
    have hn := toNat_ofNat_length hl
    rw [(List.cons.inj h).1] at hn
    have h0 : (0 : UInt8).toNat = 0 := rfl
    omega
  | l :: r, l' :: r', hw, hw', h => by
    rw [pack_cons, pack_cons] at h
    have hl := hw l (List.mem_cons_self ..)
    have hl' := hw' l' (List.mem_cons_self ..)
    have hlen : l.length = l'.length := by
      have := congrArg UInt8.toNat (List.cons.inj h).1
      rwa [toNat_ofNat_length hl, toNat_ofNat_length hl'] at this
    have := List.append_inj (List.cons.inj h).2 hlen
    rw [this.1, pack_inj_wf hw.tail hw'.tail this.2]

/-- map keys of well-formed owners determine (type, owner, wildcard flag) -/
theorem mapKeyOf_inj_wf {e e' : Bool} {o o' : List Bytes} {w w' : Bool} (ho : WFName o)
    (ho' : WFName o') (h : mapKeyOf e o w = mapKeyOf e' o' w') : e = e' ∧ o = o' ∧ w = w' := by
  unfold mapKeyOf at h
  have h1 := List.append_inj' h rfl
  have h2 := List.append_inj h1.1 rfl
  refine ⟨?_, pack_inj_wf ho ho' h2.2, ?_⟩
  · have := h2.1
    revert this; cases e <;> cases e' <;> simp [mtypeOf]
  · have := h1.2
    revert this; cases w <;> cases w' <;> simp

theorem Store.get_cons (k' : Bytes) (vs : List Bytes) (s : Store) (k : Bytes) :
    Store.get ((k', vs) :: s) k = if k' = k then vs else Store.get s k := by
  unfold Store.get
  rw [List.find?_cons]
  by_cases hk : k' = k <;> simp [hk]

/-- the store a compiler produces from the map declarations: one value per map key -/
def storeOfMaps (maps : List MapDecl) : Store :=
  maps.map fun m => (mapKeyOf m.ecs m.owner m.wild, [m.mapID])

/-- `MapRepWF` is satisfiable: for unique maps with well-formed owners the store with one entry per
map represents them (so `findMapV1_eq_mapFor_wf` is not vacuous) -/
theorem mapRepWF_storeOfMaps {maps : List MapDecl} (hu : MapsUnique maps)
    (hwf : ∀ m ∈ maps, WFName m.owner) : MapRepWF (storeOfMaps maps) maps := by
  intro ecs owner wild ho
  induction maps with
  | nil => rfl
  | cons x xs ih =>
    have hu' := hu
    unfold MapsUnique at hu'
    rw [List.pairwise_cons] at hu'
    have hx := hwf x (List.mem_cons_self ..)
    have ih' := ih hu'.2 fun m hm => hwf m (List.mem_cons_of_mem _ hm)
    show Store.get ((mapKeyOf x.ecs x.owner x.wild, [x.mapID]) :: storeOfMaps xs) _ = _
    rw [Store.get_cons, List.filter_cons]
    by_cases hk : mapKeyOf x.ecs x.owner x.wild = mapKeyOf ecs owner wild
    · have hP := mapKeyOf_inj_wf hx ho hk
      have hP' : decide (x.ecs = ecs ∧ x.wild = wild ∧ x.owner = owner) = true := by
        simp [hP.1, hP.2.1, hP.2.2]
      rw [if_pos hk, if_pos hP']
      have hlen := filter_key_length_le_one hu ecs owner wild
      rw [List.filter_cons, if_pos hP', List.length_cons] at hlen
      have : (xs.filter fun m => m.ecs = ecs ∧ m.wild = wild ∧ m.owner = owner) = [] :=
        List.eq_nil_of_length_eq_zero (by omega)
      rw [this]; rfl
    · have hP' : ¬ decide (x.ecs = ecs ∧ x.wild = wild ∧ x.owner = owner) = true := by
        intro hP
        have hP : x.ecs = ecs ∧ x.wild = wild ∧ x.owner = owner := by simpa using hP
        exact hk (by rw [hP.1, hP.2.1, hP.2.2])
      rw [if_neg hk, if_neg hP']
      exact ih'

example : exStore = storeOfMaps exMaps := rfl

/-- the concrete example store represents the example maps, and the search agrees with the
specification on every well-formed name -/
example : MapRepWF exStore exMaps := by
  show MapRepWF (storeOfMaps exMaps) exMaps
  apply mapRepWF_storeOfMaps (maps := exMaps)
  · unfold MapsUnique exMaps; decide
  · intro m hm
    simp [exMaps] at hm
    rcases hm with rfl | rfl <;> intro l hl <;> simp at hl
    · rcases hl with rfl | rfl <;> decide
    · subst hl; decide

/-- hence on the example store the search equals the specification for *every* well-formed name -/
theorem exStore_correct (ecs : Bool) (q : List Bytes) (hq : WFName q) :
    findMapV1 exStore (pack q) (mtypeOf ecs) = mapFor exMaps ecs q :=
  findMapV1_eq_mapFor_wf (mapRepWF_storeOfMaps (maps := exMaps)
    (by unfold MapsUnique exMaps; decide)
    (by
      intro m hm
      simp [exMaps] at hm
      rcases hm with rfl | rfl <;> intro l hl <;> simp at hl
      · rcases hl with rfl | rfl <;> decide
      · subst hl; decide)) ecs q hq

end DnsVerif.Lpm
