/-
List lemmas for the range-point table proofs (C03.4): the insertion sort of the rearranger
(`sortPoints`) w.r.t. the numeric key `rank`, the `squash` pass, and the predecessor search
`lookup` on a strictly key-sorted list. Core Lean only.
-/
import DnsVerif.Proofs.LpmTable
namespace DnsVerif.Lpm
open DnsVerif DnsVerif.Rearr

/-! ## A. insertion sort -/

/-- insertion sort step on an annotated list, comparing the projected points -/
def insertBy {α} (f : α → Point) (x : α) : List α → List α
  | [] => [x]
  | y :: ys => if pointLt (f x) (f y) then x :: y :: ys else y :: insertBy f x ys

def sortBy {α} (f : α → Point) (xs : List α) : List α := xs.foldl (fun acc x => insertBy f x acc) []

theorem insertBy_map {α} (f : α → Point) (x : α) (l : List α) :
    (insertBy f x l).map f = insertPoint (f x) (l.map f) := by
  induction l with
  | nil => rfl
  | cons y ys ih =>
    simp only [insertBy, List.map_cons, insertPoint]
    by_cases h : pointLt (f x) (f y) = true
    · simp only [h, if_true, List.map_cons]
    · simp only [h, if_false, List.map_cons, ih, Bool.false_eq_true]

theorem foldl_insertBy_map {α} (f : α → Point) (xs acc : List α) :
    (xs.foldl (fun acc x => insertBy f x acc) acc).map f
      = (xs.map f).foldl (fun acc p => insertPoint p acc) (acc.map f) := by
  induction xs generalizing acc with
  | nil => rfl
  | cons x xs ih => simp only [List.foldl_cons, List.map_cons, ih, insertBy_map]

theorem sortBy_map {α} (f : α → Point) (xs : List α) :
    (sortBy f xs).map f = sortPoints (xs.map f) := by
  unfold sortBy sortPoints
  exact foldl_insertBy_map f xs []

theorem insertBy_perm {α} (f : α → Point) (x : α) (l : List α) :
    (insertBy f x l).Perm (x :: l) := by
  induction l with
  | nil => exact List.Perm.refl _
  | cons y ys ih =>
    simp only [insertBy]
    by_cases h : pointLt (f x) (f y) = true
    · simp only [h, if_true]; exact List.Perm.refl _
    · simp only [h, if_false, Bool.false_eq_true]
      exact (ih.cons y).trans (List.Perm.swap x y ys)

theorem foldl_insertBy_perm {α} (f : α → Point) (xs acc : List α) :
    (xs.foldl (fun acc x => insertBy f x acc) acc).Perm (acc ++ xs) := by
  induction xs generalizing acc with
  | nil => simp
  | cons x xs ih =>
    simp only [List.foldl_cons]
    refine (ih _).trans ?_
    refine ((insertBy_perm f x acc).append_right xs).trans ?_
    exact (List.perm_middle (a := x) (l₁ := acc) (l₂ := xs)).symm

theorem sortBy_perm {α} (f : α → Point) (xs : List α) : (sortBy f xs).Perm xs := by
  have := foldl_insertBy_perm f xs []
  simpa [sortBy] using this

theorem insertBy_sorted {α} (f : α → Point) (x : α) (l : List α)
    (hx : (f x).maskLen ≤ 255 ∧ PtOK (f x)) (hl : ∀ y ∈ l, (f y).maskLen ≤ 255 ∧ PtOK (f y))
    (hs : l.Pairwise (fun a b => rank (f a) ≤ rank (f b))) :
    (insertBy f x l).Pairwise (fun a b => rank (f a) ≤ rank (f b)) := by
  induction l with
  | nil => simp [insertBy]
  | cons y ys ih =>
    have hy : (f y).maskLen ≤ 255 ∧ PtOK (f y) := hl y (List.mem_cons_self)
    have hys : ∀ z ∈ ys, (f z).maskLen ≤ 255 ∧ PtOK (f z) := fun z hz => hl z (List.mem_cons_of_mem _ hz)
    rw [List.pairwise_cons] at hs
    simp only [insertBy]
    by_cases h : pointLt (f x) (f y) = true
    · simp only [h, if_true]
      rw [pointLt_iff_rank _ _ hx.1 hy.1 hx.2 hy.2, decide_eq_true_iff] at h
      refine List.pairwise_cons.mpr ⟨?_, List.pairwise_cons.mpr hs⟩
      intro z hz
      rcases List.mem_cons.mp hz with rfl | hz
      · exact Nat.le_of_lt h
      · exact Nat.le_trans (Nat.le_of_lt h) (hs.1 z hz)
    · simp only [h, if_false, Bool.false_eq_true]
      rw [pointLt_iff_rank _ _ hx.1 hy.1 hx.2 hy.2, decide_eq_true_iff] at h
      refine List.pairwise_cons.mpr ⟨?_, ih hys hs.2⟩
      intro z hz
      rcases List.mem_cons.mp ((insertBy_perm f x ys).mem_iff.mp hz) with rfl | hz
      · exact Nat.le_of_not_lt h
      · exact hs.1 z hz

theorem foldl_insertBy_sorted {α} (f : α → Point) (xs acc : List α)
    (hxs : ∀ x ∈ xs, (f x).maskLen ≤ 255 ∧ PtOK (f x))
    (hacc : ∀ y ∈ acc, (f y).maskLen ≤ 255 ∧ PtOK (f y))
    (hs : acc.Pairwise (fun a b => rank (f a) ≤ rank (f b))) :
    (xs.foldl (fun acc x => insertBy f x acc) acc).Pairwise
      (fun a b => rank (f a) ≤ rank (f b)) := by
  induction xs generalizing acc with
  | nil => exact hs
  | cons x xs ih =>
    simp only [List.foldl_cons]
    have hx := hxs x List.mem_cons_self
    refine ih _ (fun z hz => hxs z (List.mem_cons_of_mem _ hz)) ?_ (insertBy_sorted f x acc hx hacc hs)
    intro z hz
    rcases List.mem_cons.mp ((insertBy_perm f x acc).mem_iff.mp hz) with rfl | hz
    · exact hx
    · exact hacc z hz

theorem sortBy_sorted {α} (f : α → Point) (xs : List α)
    (hml : ∀ x ∈ xs, (f x).maskLen ≤ 255 ∧ PtOK (f x)) :
    (sortBy f xs).Pairwise (fun a b => rank (f a) ≤ rank (f b)) :=
  foldl_insertBy_sorted f xs [] hml (fun _ h => by cases h) List.Pairwise.nil

theorem sortBy_strict {α} (f : α → Point) (xs : List α)
    (hml : ∀ x ∈ xs, (f x).maskLen ≤ 255 ∧ PtOK (f x))
    (hinj : xs.Pairwise (fun a b => rank (f a) ≠ rank (f b))) :
    (sortBy f xs).Pairwise (fun a b => rank (f a) < rank (f b)) := by
  have h1 := sortBy_sorted f xs hml
  have h2 : (sortBy f xs).Pairwise (fun a b => rank (f a) ≠ rank (f b)) :=
    ((sortBy_perm f xs).pairwise_iff (R := fun a b => rank (f a) ≠ rank (f b))
      (fun h => Ne.symm h)).mpr hinj
  exact (h1.and h2).imp (fun h => Nat.lt_of_le_of_ne h.1 h.2)

theorem sortPoints_eq_sortBy (ps : List Point) : sortPoints ps = sortBy id ps := by
  have := sortBy_map id ps
  simpa using this.symm

theorem sortPoints_perm (ps : List Point) : (sortPoints ps).Perm ps := by
  rw [sortPoints_eq_sortBy]; exact sortBy_perm id ps

theorem sortPoints_sorted (ps : List Point) (hml : ∀ p ∈ ps, p.maskLen ≤ 255 ∧ PtOK p) :
    (sortPoints ps).Pairwise (fun a b => rank a ≤ rank b) := by
  rw [sortPoints_eq_sortBy]; exact sortBy_sorted id ps hml

theorem sortPoints_strict (ps : List Point) (hml : ∀ p ∈ ps, p.maskLen ≤ 255 ∧ PtOK p)
    (hinj : ps.Pairwise (fun a b => rank a ≠ rank b)) :
    (sortPoints ps).Pairwise (fun a b => rank a < rank b) := by
  rw [sortPoints_eq_sortBy]; exact sortBy_strict id ps hml hinj

/-! ## B. squash -/

/-- the replacement test of `squash`: same address, and the earlier point is at least as long or the
later one is an end point -/
def sqRep (prev p : Point) : Prop := prev.ip = p.ip ∧ (prev.maskLen ≥ p.maskLen ∨ p.kind = .stop)

instance (prev p : Point) : Decidable (sqRep prev p) := by unfold sqRep; infer_instance

/-- one step of `squash` on the reversed output -/
def sqStep (acc : List Point) (p : Point) : List Point :=
  match acc with
  | [] => [p]
  | prev :: acc => if sqRep prev p then p :: acc else p :: prev :: acc

theorem squash_nil (acc : List Point) : squash acc [] = acc.reverse := by
  cases acc <;> simp [squash]

theorem squash_cons (prev : Point) (acc : List Point) (p : Point) (rest : List Point) :
    squash (prev :: acc) (p :: rest) =
      if sqRep prev p then squash (p :: acc) rest else squash (p :: prev :: acc) rest := rfl

theorem squash_eq_foldl (acc l : List Point) : squash acc l = (l.foldl sqStep acc).reverse := by
  induction l generalizing acc with
  | nil => simp [squash_nil]
  | cons p rest ih =>
    cases acc with
    | nil => simp only [squash, List.foldl_cons, sqStep, ih]
    | cons prev acc =>
      rw [squash_cons, List.foldl_cons]
      simp only [sqStep]
      by_cases h : sqRep prev p
      · rw [if_pos h, if_pos h, ih]
      · rw [if_neg h, if_neg h, ih]

theorem sqStep_head (acc : List Point) (p : Point) : ∃ t, sqStep acc p = p :: t := by
  cases acc with
  | nil => exact ⟨[], rfl⟩
  | cons prev acc =>
    simp only [sqStep]
    by_cases h : sqRep prev p
    · exact ⟨acc, by rw [if_pos h]⟩
    · exact ⟨prev :: acc, by rw [if_neg h]⟩

theorem squash_append (acc l1 l2 : List Point) :
    squash acc (l1 ++ l2) = squash (l1.foldl sqStep acc) l2 := by
  rw [squash_eq_foldl, squash_eq_foldl, List.foldl_append]

theorem squash_acc (p : Point) (acc l : List Point) :
    squash (p :: acc) l = acc.reverse ++ squash [p] l := by
  induction l generalizing p acc with
  | nil => simp [squash_nil]
  | cons q rest ih =>
    rw [squash_cons, squash_cons]
    by_cases h : sqRep p q
    · rw [if_pos h, if_pos h]; exact ih q acc
    · rw [if_neg h, if_neg h]
      rw [ih q (p :: acc), ih q [p]]
      simp

theorem squash_mem {acc l : List Point} {p : Point} : p ∈ squash acc l → p ∈ acc ∨ p ∈ l := by
  induction l generalizing acc with
  | nil => intro h; rw [squash_nil] at h; exact Or.inl (List.mem_reverse.mp h)
  | cons q rest ih =>
    intro h
    cases acc with
    | nil =>
      simp only [squash] at h
      rcases ih h with h | h
      · exact Or.inr (by rw [List.mem_singleton.mp h]; exact List.mem_cons_self)
      · exact Or.inr (List.mem_cons_of_mem _ h)
    | cons prev acc =>
      rw [squash_cons] at h
      by_cases hc : sqRep prev q
      · rw [if_pos hc] at h
        rcases ih h with h | h
        · rcases List.mem_cons.mp h with rfl | h
          · exact Or.inr List.mem_cons_self
          · exact Or.inl (List.mem_cons_of_mem _ h)
        · exact Or.inr (List.mem_cons_of_mem _ h)
      · rw [if_neg hc] at h
        rcases ih h with h | h
        · rcases List.mem_cons.mp h with rfl | h
          · exact Or.inr List.mem_cons_self
          · exact Or.inl h
        · exact Or.inr (List.mem_cons_of_mem _ h)

theorem squash_snoc_last (l : List Point) (p : Point) : ∃ T, squash [] (l ++ [p]) = T ++ [p] := by
  obtain ⟨t, ht⟩ := sqStep_head (l.foldl sqStep []) p
  refine ⟨t.reverse, ?_⟩
  rw [squash_eq_foldl, List.foldl_append, List.foldl_cons, List.foldl_nil, ht, List.reverse_cons]

theorem squash_split (pre : List Point) (p : Point) (post : List Point)
    (h : ∀ q, post.head? = some q → ¬ sqRep p q) :
    squash [] (pre ++ p :: post) = squash [] (pre ++ [p]) ++ squash [] post := by
  have e : pre ++ p :: post = (pre ++ [p]) ++ post := by simp
  rw [e, squash_append]
  obtain ⟨t, ht⟩ := sqStep_head (pre.foldl sqStep []) p
  have e2 : (pre ++ [p]).foldl sqStep [] = p :: t := by
    rw [List.foldl_append, List.foldl_cons, List.foldl_nil, ht]
  rw [squash_eq_foldl [] (pre ++ [p]), e2]
  cases post with
  | nil => simp [squash_nil]
  | cons q rest =>
    have hq := h q rfl
    rw [squash_cons, if_neg hq]
    rw [squash_acc q (p :: t)]
    simp [squash]

/-- every output point is an input point, in the original order -/
theorem squash_sublist_aux (acc l : List Point) : (squash acc l).Sublist (acc.reverse ++ l) := by
  induction l generalizing acc with
  | nil => simp [squash_nil]
  | cons p rest ih =>
    cases acc with
    | nil => simpa [squash] using ih [p]
    | cons prev acc =>
      rw [squash_cons]
      by_cases hc : sqRep prev p
      · rw [if_pos hc]
        refine (ih (p :: acc)).trans ?_
        have e1 : (p :: acc).reverse ++ rest = acc.reverse ++ (p :: rest) := by simp
        have e2 : (prev :: acc).reverse ++ p :: rest = acc.reverse ++ (prev :: p :: rest) := by simp
        rw [e1, e2]
        exact List.Sublist.append (List.Sublist.refl _) (List.sublist_cons_self _ _)
      · rw [if_neg hc]
        have := ih (p :: prev :: acc)
        simpa using this

theorem squash_sublist (l : List Point) : (squash [] l).Sublist l := by
  simpa using squash_sublist_aux [] l

/-- among the start points at one address, once the mask length has gone up it never comes back down
to the level before the rise (the end points at that address need no such condition: each of them
replaces its predecessor) -/
def Valley (l : List Point) : Prop :=
  ∀ a b c : Point, [a, b, c].Sublist l → a.ip = b.ip → b.ip = c.ip → b.kind = .start →
    c.kind = .start → a.maskLen < b.maskLen → a.maskLen < c.maskLen

theorem Valley.sublist {l1 l2 : List Point} (h : l1.Sublist l2) (hv : Valley l2) : Valley l1 :=
  fun a b c hs => hv a b c (hs.trans h)

/-- at one address the end points come before the start points -/
def StopsFirst (l : List Point) : Prop :=
  l.Pairwise fun a b => a.ip = b.ip → b.kind = .stop → a.kind = .stop

theorem squash_keySorted_aux (rest : List Point) : ∀ (acc : List Point),
    rest.Pairwise (fun a b => a.ip ≤ b.ip) →
    (∀ a ∈ acc, ∀ r ∈ rest, a.ip ≤ r.ip) →
    acc.Pairwise (fun v u => u.ip < v.ip ∨ (u.ip = v.ip ∧ u.maskLen < v.maskLen)) →
    Valley (acc.reverse ++ rest) → StopsFirst (acc.reverse ++ rest) →
    (∀ prev acc', acc = prev :: acc' → prev.kind = .stop → ∀ u ∈ acc', u.ip < prev.ip) →
    (squash acc rest).Pairwise (fun u v => u.ip < v.ip ∨ (u.ip = v.ip ∧ u.maskLen < v.maskLen)) := by
  induction rest with
  | nil =>
    intro acc _ _ h3 _ _ _
    rw [squash_nil, List.pairwise_reverse]; exact h3
  | cons p rest ih =>
    intro acc h1 h2 h3 h4 h5 h6
    rw [List.pairwise_cons] at h1
    cases acc with
    | nil =>
      simp only [squash]
      refine ih [p] h1.2 ?_ (List.pairwise_singleton _ _) (by simpa using h4) (by simpa using h5) ?_
      · intro a ha r hr
        rw [List.mem_singleton.mp ha]; exact h1.1 r hr
      · intro prev acc' e _ u hu
        cases e; cases hu
    | cons prev acc =>
      rw [List.pairwise_cons] at h3
      have hpp : prev.ip ≤ p.ip := h2 prev List.mem_cons_self p List.mem_cons_self
      have e1 : (p :: acc).reverse ++ rest = acc.reverse ++ (p :: rest) := by simp
      have e2 : (prev :: acc).reverse ++ p :: rest = acc.reverse ++ (prev :: p :: rest) := by simp
      have hsubl : ((p :: acc).reverse ++ rest).Sublist ((prev :: acc).reverse ++ p :: rest) := by
        rw [e1, e2]
        exact List.Sublist.append (List.Sublist.refl _) (List.sublist_cons_self _ _)
      -- `prev` comes before `p` in the input
      have hprevp : prev.ip = p.ip → p.kind = .stop → prev.kind = .stop := by
        have h5' : StopsFirst (acc.reverse ++ (prev :: p :: rest)) := e2 ▸ h5
        have := (List.pairwise_append.1 h5').2.1
        exact (List.pairwise_cons.1 this).1 p List.mem_cons_self
      rw [squash_cons]
      by_cases hc : sqRep prev p
      · rw [if_pos hc]
        refine ih (p :: acc) h1.2 ?_ ?_ (Valley.sublist hsubl h4) (List.Pairwise.sublist hsubl h5) ?_
        · intro a ha r hr
          rcases List.mem_cons.mp ha with rfl | ha
          · exact h1.1 r hr
          · exact h2 a (List.mem_cons_of_mem _ ha) r (List.mem_cons_of_mem _ hr)
        · refine List.pairwise_cons.mpr ⟨?_, h3.2⟩
          intro u hu
          have hk := h3.1 u hu
          obtain ⟨hc1, hc2⟩ := hc
          by_cases hst : p.kind = .stop
          · -- an end point replaces the only point at its address
            have := h6 prev acc rfl (hprevp hc1 hst) u hu
            omega
          · have hstart : p.kind = .start := by cases hp : p.kind <;> simp_all
            have hge : prev.maskLen ≥ p.maskLen := by
              rcases hc2 with h | h
              · exact h
              · exact absurd h hst
            have hsub : [u, prev, p].Sublist ((prev :: acc).reverse ++ p :: rest) := by
              have e : (prev :: acc).reverse ++ p :: rest = acc.reverse ++ ([prev, p] ++ rest) := by
                simp
              rw [e]
              exact List.Sublist.append (l₁ := [u]) (r₁ := [prev, p])
                (List.singleton_sublist.mpr (List.mem_reverse.mpr hu)) (List.sublist_append_left _ _)
            by_cases hps : prev.kind = .stop
            · have := h6 prev acc rfl hps u hu
              omega
            · have hpstart : prev.kind = .start := by cases hp : prev.kind <;> simp_all
              have hv := fun e1 e2 => h4 u prev p hsub e1 e2 hpstart hstart
              omega
        · intro prev' acc' e hst u hu
          cases e
          have := h6 prev acc rfl (hprevp hc.1 hst) u hu
          have := hc.1
          omega
      · rw [if_neg hc]
        refine ih (p :: prev :: acc) h1.2 ?_ ?_ (by simpa using h4) (by simpa using h5) ?_
        · intro a ha r hr
          rcases List.mem_cons.mp ha with rfl | ha
          · exact h1.1 r hr
          · exact h2 a ha r (List.mem_cons_of_mem _ hr)
        · refine List.pairwise_cons.mpr ⟨?_, List.pairwise_cons.mpr h3⟩
          intro u hu
          unfold sqRep at hc
          rcases List.mem_cons.mp hu with rfl | hu
          · omega
          · have hk := h3.1 u hu
            omega
        · intro prev' acc' e hst u hu
          cases e
          unfold sqRep at hc
          have hlt : prev.ip < p.ip := by
            refine Nat.lt_of_le_of_ne hpp fun e => hc ⟨e, Or.inr hst⟩
          rcases List.mem_cons.mp hu with rfl | hu
          · exact hlt
          · have hk := h3.1 u hu
            omega

theorem squash_keySorted (l : List Point) (hip : l.Pairwise (fun a b => a.ip ≤ b.ip))
    (hval : Valley l) (hsf : StopsFirst l) :
    (squash [] l).Pairwise (fun u v => u.ip < v.ip ∨ (u.ip = v.ip ∧ u.maskLen < v.maskLen)) :=
  squash_keySorted_aux l [] hip (fun _ h => by cases h) List.Pairwise.nil (by simpa using hval)
    (by simpa using hsf) (fun _ _ e => by cases e)

/-- the replacement looks one point back only: among start points `Valley` is needed -/
example : squash [] [⟨1, 5, none, .start⟩, ⟨1, 10, none, .start⟩, ⟨1, 3, none, .start⟩]
    = [⟨1, 5, none, .start⟩, ⟨1, 3, none, .start⟩] := by decide

/-- … an end point replaces whatever precedes it at its address (mask lengths 0, 81, 0 as emitted for
`::8000:0:0/81` with `255.0.0.0/8`) -/
example : squash [] [⟨1, 0, none, .stop⟩, ⟨1, 81, none, .stop⟩, ⟨1, 0, none, .stop⟩, ⟨1, 0, none, .start⟩]
    = [⟨1, 0, none, .start⟩] := by decide

/-! ## C. predecessor search -/

/-- the fold step of `lookup` -/
def lkStep (a req : Nat) (best : Option Point) (p : Point) : Option Point :=
  if keyLe (pkey p) (a, req) then
    match best with
    | none => some p
    | some b => if keyLt (pkey b) (pkey p) then some p else some b
  else best

theorem lookup_eq_foldl (P : List Point) (a req : Nat) :
    lookup P a req = P.foldl (lkStep a req) none := rfl

theorem lkStep_some {a req : Nat} {init : Option Point} {q p : Point}
    (h : lkStep a req init q = some p) :
    init = some p ∨ (p = q ∧ keyLe (pkey p) (a, req) = true) := by
  unfold lkStep at h
  by_cases hq : keyLe (pkey q) (a, req) = true
  · simp only [hq, if_true] at h
    cases init with
    | none => simp only [Option.some.injEq] at h; exact Or.inr ⟨h.symm, h ▸ hq⟩
    | some b =>
      simp only at h
      by_cases hb : keyLt (pkey b) (pkey q) = true
      · simp only [hb, if_true, Option.some.injEq] at h; exact Or.inr ⟨h.symm, h ▸ hq⟩
      · simp only [hb, if_false, Bool.false_eq_true] at h; exact Or.inl h
  · simp only [hq, if_false, Bool.false_eq_true] at h; exact Or.inl h

theorem foldl_lkStep_some {a req : Nat} (P : List Point) {init : Option Point} {p : Point}
    (h : P.foldl (lkStep a req) init = some p) :
    init = some p ∨ (p ∈ P ∧ keyLe (pkey p) (a, req) = true) := by
  induction P generalizing init with
  | nil => exact Or.inl h
  | cons q qs ih =>
    rcases ih h with h1 | ⟨hm, hk⟩
    · rcases lkStep_some h1 with h2 | ⟨rfl, hk⟩
      · exact Or.inl h2
      · exact Or.inr ⟨List.mem_cons_self, hk⟩
    · exact Or.inr ⟨List.mem_cons_of_mem _ hm, hk⟩

theorem lookup_mem {P : List Point} {a req : Nat} {p : Point} (h : lookup P a req = some p) :
    p ∈ P ∧ keyLe (pkey p) (a, req) = true := by
  rcases foldl_lkStep_some P h with h1 | h1
  · cases h1
  · exact h1

theorem foldl_lkStep_skip {a req : Nat} (P : List Point) (init : Option Point)
    (h : ∀ q ∈ P, keyLe (pkey q) (a, req) = false) :
    P.foldl (lkStep a req) init = init := by
  induction P generalizing init with
  | nil => rfl
  | cons q qs ih =>
    have hq := h q List.mem_cons_self
    simp only [List.foldl_cons]
    rw [ih _ (fun z hz => h z (List.mem_cons_of_mem _ hz))]
    simp [lkStep, hq]

theorem foldl_lkStep_ne_none {a req : Nat} (P : List Point) (b : Point) :
    P.foldl (lkStep a req) (some b) ≠ none := by
  induction P generalizing b with
  | nil => simp
  | cons q qs ih =>
    simp only [List.foldl_cons, lkStep]
    by_cases hq : keyLe (pkey q) (a, req) = true
    · simp only [hq, if_true]
      by_cases hb : keyLt (pkey b) (pkey q) = true
      · simp only [hb, if_true]; exact ih q
      · simp only [hb, if_false, Bool.false_eq_true]; exact ih b
    · simp only [hq, if_false, Bool.false_eq_true]; exact ih b

theorem lookup_none_iff (P : List Point) (a req : Nat) :
    lookup P a req = none ↔ ∀ q ∈ P, keyLe (pkey q) (a, req) = false := by
  constructor
  · intro h
    induction P with
    | nil => intro q hq; cases hq
    | cons q qs ih =>
      rw [lookup_eq_foldl, List.foldl_cons] at h
      by_cases hq : keyLe (pkey q) (a, req) = true
      · have : lkStep a req none q = some q := by simp [lkStep, hq]
        rw [this] at h
        exact absurd h (foldl_lkStep_ne_none qs q)
      · have hq' : keyLe (pkey q) (a, req) = false := by simpa using hq
        have : lkStep a req none q = none := by simp [lkStep, hq']
        rw [this] at h
        intro z hz
        rcases List.mem_cons.mp hz with rfl | hz
        · exact hq'
        · exact ih h z hz
  · intro h
    rw [lookup_eq_foldl]
    exact foldl_lkStep_skip P none h

theorem lookup_sorted_split (T1 : List Point) (p : Point) (T2 : List Point) (a req : Nat)
    (hs : (T1 ++ p :: T2).Pairwise (fun u v => keyLt (pkey u) (pkey v) = true))
    (hp : keyLe (pkey p) (a, req) = true)
    (h2 : ∀ q ∈ T2, keyLe (pkey q) (a, req) = false) :
    lookup (T1 ++ p :: T2) a req = some p := by
  rw [lookup_eq_foldl, List.foldl_append, List.foldl_cons, foldl_lkStep_skip T2 _ h2]
  rw [List.pairwise_append] at hs
  cases hb : T1.foldl (lkStep a req) none with
  | none => simp [lkStep, hp]
  | some b =>
    have hbm : b ∈ T1 := by
      rcases foldl_lkStep_some T1 hb with h | h
      · cases h
      · exact h.1
    have := hs.2.2 b hbm p List.mem_cons_self
    simp [lkStep, hp, this]

theorem pkey_eq {u : Point} (hu : u.loc = none → u.maskLen = 0) (hu' : u.maskLen < 256) :
    pkey u = (u.ip, u.maskLen) := by
  unfold pkey
  cases hl : u.loc with
  | none => simp only [hu hl]
  | some l => simp only [Nat.mod_eq_of_lt hu']

theorem keyLt_of_ip_maskLen {u v : Point} (hu : u.loc = none → u.maskLen = 0)
    (hv : v.loc = none → v.maskLen = 0) (hu' : u.maskLen < 256) (hv' : v.maskLen < 256) :
    keyLt (pkey u) (pkey v) = decide (u.ip < v.ip ∨ (u.ip = v.ip ∧ u.maskLen < v.maskLen)) := by
  rw [pkey_eq hu hu', pkey_eq hv hv']; rfl

end DnsVerif.Lpm
