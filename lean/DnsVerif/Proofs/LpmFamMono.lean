/-
C03.4, concrete side: mask lengths are weakly monotone under nesting in the family of ranges
`famOf S` of a well-formed subnet list — a range inside another one is at least as long.
-/
import DnsVerif.Proofs.LpmFamWF

namespace DnsVerif.Lpm
open DnsVerif DnsVerif.Rearr DnsVerif.Spec

/-- a range of `famOf S` that lies inside another one carries a mask at least as long -/
theorem famOf_mono {S : List SubnetDecl} (h : SubsWF S) :
    ∀ R ∈ famOf S, ∀ R' ∈ famOf S, R.sub R' → R'.len ≤ R.len := by
  intro R hR R' hR' hsub
  rcases (mem_famOf h).1 hR with ⟨s, hs, rfl⟩ | ⟨s, hs, h0, rfl⟩ | ⟨rfl, n4⟩ | ⟨rfl | rfl, n6⟩ <;>
  rcases (mem_famOf h).1 hR' with ⟨s', hs', rfl⟩ | ⟨s', hs', h0', rfl⟩ | ⟨rfl, n4'⟩ |
      ⟨rfl | rfl, n6'⟩ <;>
    (fam_facts
     simp only [Rng.sub, blk, half, R4, R6a, R6b, TOP_eq, afterIPv4_eq, firstIPv4_eq] at hsub ⊢
     omega)

end DnsVerif.Lpm
