/-
C03.4, concrete side: mask lengths are weakly monotone under nesting in the family of ranges
`famF S` of a well-formed subnet list — a range inside another one is at least as long —, with one
harmless exception (`RngMonoW`): the implicit IPv4 null range (mask length 0) inside a declared
IPv6 block that lies across `afterIPv4`.
-/
import DnsVerif.Proofs.LpmFamWF
import DnsVerif.Proofs.LpmRdb

namespace DnsVerif.Lpm
open DnsVerif DnsVerif.Rearr DnsVerif.Spec

set_option linter.unusedSimpArgs false

/-- the only exceptions to monotonicity are ranges of mask length 0 (the implicit IPv4 null range
inside a declared IPv6 block): a declared block inside another range is at least as long -/
theorem famF_monoW {S : List SubnetDecl} (h : SubsWF S) : RngMonoW (famF S) := by
  refine ⟨fun E hE hexc => ?_⟩
  obtain ⟨R', hR', hsub, hlt⟩ := hexc
  rcases (mem_famF h).1 hE with ⟨s, hs, rfl⟩ | ⟨⟨s, hs, h0, rfl⟩, ns⟩ | ⟨rfl, n4⟩ | ⟨rfl, n6⟩ |
      ⟨rfl, n6, ns⟩
  · exfalso
    rcases (mem_famF h).1 hR' with ⟨s', hs', rfl⟩ | ⟨⟨s', hs', h0', rfl⟩, ns'⟩ | ⟨rfl, n4'⟩ |
        ⟨rfl, n6'⟩ | ⟨rfl, n6', ns'⟩ <;>
      (fam_facts
       simp only [Rng.sub, blk, half, R4, R6a, R6b, TOP_eq, afterIPv4_eq, firstIPv4_eq] at hsub hlt
       omega)
  · exact h0.2
  · rfl
  · rfl
  · rfl

end DnsVerif.Lpm
