/-
C03.4, concrete side: mask lengths are weakly monotone under nesting in the family of ranges
`famF S` of a well-formed subnet list — a range inside another one is at least as long —, with one
harmless exception (`RngMonoW`): the implicit IPv4 null range (mask length 0) inside a declared
IPv6 block that lies across `afterIPv4`.
-/
import DnsVerif.Proofs.LpmFamWF
import DnsVerif.Proofs.LpmRdb

namespace DnsVerif.Lpm
open DnsVerif DnsVerif.Rearr DnsVerif.Spec

set_option linter.unusedSimpArgs false

/-- the only exception to monotonicity is the implicit IPv4 null range inside a block across
`afterIPv4` -/
theorem exc_is_R4 {S : List SubnetDecl} (h : SubsWF S) {E : Rng} (hE : E ∈ famF S)
    (hexc : IsExc (famF S) E) :
    E = R4 ∧ (∀ s ∈ S, ¬ (s.net = firstIPv4 ∧ s.ones = 96)) ∧ ¬ NoStr S := by
  obtain ⟨R', hR', hsub, hlt⟩ := hexc
  rcases (mem_famF h).1 hE with ⟨s, hs, rfl⟩ | ⟨⟨s, hs, h0, rfl⟩, ns⟩ | ⟨rfl, n4⟩ | ⟨rfl, n6⟩ |
      ⟨rfl, n6, ns⟩ <;>
  rcases (mem_famF h).1 hR' with ⟨s', hs', rfl⟩ | ⟨⟨s', hs', h0', rfl⟩, ns'⟩ | ⟨rfl, n4'⟩ | ⟨rfl, n6'⟩ |
      ⟨rfl, n6', ns'⟩ <;>
    first
    | (exfalso
       fam_facts
       simp only [Rng.sub, blk, half, R4, R6a, R6b, TOP_eq, afterIPv4_eq, firstIPv4_eq] at hsub hlt
       omega)
    | (refine ⟨rfl, n4, fun ns => ?_⟩
       fam_facts
       simp only [Rng.sub, blk, half, R4, R6a, R6b, TOP_eq, afterIPv4_eq, firstIPv4_eq] at hsub hlt
       omega)

theorem famF_monoW {S : List SubnetDecl} (h : SubsWF S) : RngMonoW (famF S) := by
  constructor
  · intro E hE hexc
    rw [(exc_is_R4 h hE hexc).1]; rfl
  · intro E hE hexc X hX hsub hhi
    obtain ⟨rfl, n4, hstr⟩ := exc_is_R4 h hE hexc
    rcases (mem_famF h).1 hX with ⟨s, hs, rfl⟩ | ⟨⟨s, hs, h0, rfl⟩, ns⟩ | ⟨rfl, n4'⟩ | ⟨rfl, n6⟩ |
        ⟨rfl, n6, ns⟩ <;>
      first
      | rfl
      | (exfalso
         fam_facts
         simp only [Rng.sub, blk, half, R4, R6a, R6b, TOP_eq, afterIPv4_eq, firstIPv4_eq] at hsub hhi
         omega)
  · intro E hE hexc X hX hlo
    obtain ⟨rfl, n4, hstr⟩ := exc_is_R4 h hE hexc
    rcases (mem_famF h).1 hX with ⟨s, hs, rfl⟩ | ⟨⟨s, hs, h0, rfl⟩, ns⟩ | ⟨rfl, n4'⟩ | ⟨rfl, n6⟩ |
        ⟨rfl, n6, ns⟩ <;>
      first
      | exact absurd ns hstr
      | (fam_facts
         simp only [blk, half, R4, R6a, R6b, TOP_eq, afterIPv4_eq, firstIPv4_eq] at hlo ⊢
         omega)
  · intro E hE hexc E' hE' hexc' _
    rw [(exc_is_R4 h hE hexc).1, (exc_is_R4 h hE' hexc').1]

end DnsVerif.Lpm
