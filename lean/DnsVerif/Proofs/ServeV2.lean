/-
`serve` over the v2 key layout equals `serve` over the v1 key layout (helper lemmas for C02 / C04).

Built on `Proofs/RevOrder.lean`: `isAuthoritativeV2_eq_V1_cut` (literal equality of the zone cuts after
the repair of `sortedDataReader.IsAuthoritative`), `findAnswerV2_eq_V1'`, `rowsOf_v2_eq_v1'`.
What is added here: the DS step, the provenance of the answer records (for the additional section)
and the congruence pass over `serve`.
-/
import DnsVerif.Proofs.RevOrder
import DnsVerif.Proofs.ServeSafety

namespace DnsVerif.ServeV2
open DnsVerif DnsVerif.Rdb DnsVerif.Name DnsVerif.Serve DnsVerif.Loc DnsVerif.RevOrder

/-! ### `serve`, cut into pieces -/

def groupsOf (q : Query) (a : Ans) : List AddrGroup :=
  (if a.a4.isEmpty then [] else [⟨q.qnameOut, 1, 1, a.a4, q.maxAns⟩])
    ++ (if a.a6.isEmpty then [] else [⟨q.qnameOut, 28, 1, a.a6, q.maxAns⟩])

def answerEmpty (q : Query) (a : Ans) : Prop :=
  a.rrs.isEmpty ∧ ¬ (groupsOf q a).any (fun g => g.cands.any fun c => c.weight > 0)

instance (q : Query) (a : Ans) : Decidable (answerEmpty q a) := by unfold answerEmpty; infer_instance

def nsSecOf (v : View) (q : Query) (cut : Cut) (a : Ans) : List RR :=
  if cut.auth ∧ answerEmpty q a then findSOA v cut.zoneCut
  else if ¬ cut.auth ∧ ¬ (a.rrs.any fun rr => rr.type = 2 ∧ toLower rr.name = cut.zoneCut) then
    getNs v cut.zoneCut q.qclass
  else []

def presentOf (q : Query) (a : Ans) : Bytes → Nat → List AddrGroup → Bool :=
  fun name t extra => hasAddr (groupsOf q a) name t extra

/-- the part of `serve` after `FindAnswer` -/
def fin (v : View) (q : Query) (cut : Cut) (a : Ans) : Outcome :=
  .reply { rcode := if cut.auth ∧ answerEmpty q a ∧ ¬ a.recordFound then 3 else 0, aa := cut.auth,
           answer := a.rrs, answerAddrs := groupsOf q a, ns := nsSecOf v q cut a,
           extra := additionalFor v q.qclass (nsSecOf v q cut a) (presentOf q a)
             (additionalFor v q.qclass a.rrs (presentOf q a) []) }

def ansOf (v : View) (q : Query) (cut : Cut) : R Ans :=
  if cut.auth then
    if v.v2 then findAnswerV2 v q.qname cut.zoneCut q.qnameOut q.qtype
    else .ok (findAnswerV1 v cut.zoneCut q.qnameOut q.qtype (q.qname.length + 1) q.qname false {})
  else .ok {}

/-- the part of `serve` after the DS step -/
def tail (v : View) (q : Query) (cut : Cut) : Outcome :=
  match (if cut.zoneCut.isEmpty then none else some ()) with
  | none => .panic
  | some _ =>
    match ansOf v q cut with
    | .panic => .panic
    | .err => .noReply
    | .ok a => fin v q cut a

def dsStep (v : View) (q : Query) (cut : Cut) : R Cut :=
  if ¬ cut.auth ∧ q.qtype = 43 ∧ q.qname.head? ≠ some 0 then
    match q.qname with
    | [] => .panic
    | n :: rest =>
      match isAuthoritative v (rest.drop n.toNat) with
      | .ok c2 => .ok ⟨cut.ns, c2.auth, c2.zoneCut⟩
      | .err => .err
      | .panic => .panic
  else .ok cut

theorem serve_unfold (v : View) (q : Query) :
    serve v q =
      match isAuthoritative v q.qname with
      | .err | .panic => .failedReply
      | .ok cut =>
        if ¬ cut.ns ∧ ¬ cut.auth then
          .reply { rcode := 5, aa := false, answer := [], answerAddrs := [], ns := [], extra := [] }
        else
          match dsStep v q cut with
          | .panic => .panic
          | .err => .failedReply
          | .ok cut => tail v q cut := rfl


/-! ### the data hypothesis of the additional section -/

/-- `n` lower-cases (bytewise, as `bytes.ToLower` on the wire form does) to the wire form of a
well-formed name -/
def lowerOK (n : Bytes) : Bool :=
  match unpack (toLower n) with
  | some z => decide (NameOK z) && decide (pack z = toLower n)
  | none => false

theorem lowerOK_spec {n : Bytes} (h : lowerOK n = true) : ∃ z, NameOK z ∧ toLower n = pack z := by
  unfold lowerOK at h
  split at h
  · rename_i z _
    simp only [Bool.and_eq_true, decide_eq_true_eq] at h
    exact ⟨z, h.1, h.2.symm⟩
  · cases h

def optOK (o : Option Bytes) : Bool :=
  match o with
  | some n => lowerOK n
  | none => true

/-- the NS / MX target of a stored row (parsed with either wildcard flag) lower-cases to a
well-formed wire name -/
def rowTargetsOK (row : Bytes) : Bool :=
  [false, true].all fun wc =>
    match extractRR row wc with
    | .row r => (r.qtype != 2 || optOK (nameAt r.rdata)) && (r.qtype != 15 || optOK (nameAt (r.rdata.drop 2)))
    | _ => true

/-- every row of a well-formed owner that a client at `L` can see (its own and the untagged ones)
has `rowTargetsOK` -/
def TargetsOKAt (rows : Rows) (L : Bytes) : Prop :=
  ∀ z, NameOK z → ∀ loc, loc = L ∨ loc = [0, 0] → ∀ row ∈ rows z loc, rowTargetsOK row = true

theorem rowTargetsOK_spec {row : Bytes} (h : rowTargetsOK row = true) (wc : Bool) (r : Row)
    (he : extractRR row wc = .row r) :
    (r.qtype = 2 → optOK (nameAt r.rdata) = true) ∧ (r.qtype = 15 → optOK (nameAt (r.rdata.drop 2)) = true) := by
  unfold rowTargetsOK at h
  simp only [List.all_cons, List.all_nil, Bool.and_true, Bool.and_eq_true] at h
  have hw : (match extractRR row wc with
      | .row r => (r.qtype != 2 || optOK (nameAt r.rdata)) && (r.qtype != 15 || optOK (nameAt (r.rdata.drop 2)))
      | _ => true) = true := by
    cases wc
    · exact h.1
    · exact h.2
  rw [he] at hw
  simp only [Bool.and_eq_true, Bool.or_eq_true, bne_iff_ne, ne_eq] at hw
  exact ⟨fun h2 => hw.1.resolve_left (fun hn => hn h2), fun h15 => hw.2.resolve_left (fun hn => hn h15)⟩

/-- an answer / authority record whose additional-section target is fine -/
def RROK (rr : RR) : Prop := ∀ n, additionalTarget rr = some n → lowerOK n = true

/-! ### rows of a target name, `additionalFor` -/

section Add
variable {s₁ s₂ : Store} {rows : Rows}

theorem rowsOf_lower (hrep1 : RepRRV1 s₁ rows) (hrep2 : RepRRV2 s₂ rows) {L : Bytes} (hL : L.length = 2)
    {n : Bytes} (h : lowerOK n = true) :
    rowsOf ⟨.rdbV2, s₂, L⟩ (toLower n) = rowsOf ⟨.rdbV1, s₁, L⟩ (toLower n) := by
  obtain ⟨z, hz, e⟩ := lowerOK_spec h
  rw [e]
  exact rowsOf_v2_eq_v1' hrep1 hrep2 hL z hz

theorem foldl_congr_mem {α β : Type} (f g : β → α → β) : ∀ (l : List α) (b : β),
    (∀ b, ∀ a ∈ l, f b a = g b a) → l.foldl f b = l.foldl g b
  | [], _, _ => rfl
  | a :: l, b, h => by
    rw [List.foldl_cons, List.foldl_cons, h b a (List.mem_cons_self ..)]
    exact foldl_congr_mem f g l _ fun b a ha => h b a (List.mem_cons_of_mem _ ha)

theorem additionalFor_v2_eq_v1 (hrep1 : RepRRV1 s₁ rows) (hrep2 : RepRRV2 s₂ rows) {L : Bytes}
    (hL : L.length = 2) (cls : Nat) (records : List RR) (hrec : ∀ rr ∈ records, RROK rr)
    (present : Bytes → Nat → List AddrGroup → Bool) (acc : List AddrGroup) :
    additionalFor ⟨.rdbV2, s₂, L⟩ cls records present acc =
      additionalFor ⟨.rdbV1, s₁, L⟩ cls records present acc := by
  unfold additionalFor
  apply foldl_congr_mem
  intro b rr hrr
  cases ht : additionalTarget rr with
  | none => rfl
  | some name =>
    simp only []
    rw [rowsOf_lower hrep1 hrep2 hL (hrec rr hrr name ht)]

end Add


/-! ### provenance of the answer records -/

/-- an answer record as `FindAnswer` builds it from a good row: the owner is the query's output
name; NS / MX targets are fine -/
def AnsRROK (qo : Bytes) (rr : RR) : Prop :=
  rr.name = qo ∧ (rr.type = 2 → optOK (nameAt rr.rdata) = true) ∧
    (rr.type = 15 → optOK (nameAt (rr.rdata.drop 2)) = true)

theorem AnsRROK.rrok {qo : Bytes} {rr : RR} (h : AnsRROK qo rr) (hqo : lowerOK qo = true) : RROK rr := by
  intro n hn
  unfold additionalTarget at hn
  by_cases h2 : rr.type = 2
  · rw [if_pos h2] at hn
    have := h.2.1 h2
    rw [hn] at this; exact this
  · rw [if_neg h2] at hn
    by_cases h15 : rr.type = 15
    · rw [if_pos h15] at hn
      have := h.2.2 h15
      rw [hn] at this; exact this
    · rw [if_neg h15] at hn
      by_cases h65 : rr.type = 65
      · rw [if_pos h65] at hn
        cases hn
        rw [h.1]; exact hqo
      · rw [if_neg h65] at hn; cases hn

def AnsOK (qo : Bytes) (a : Ans) : Prop := ∀ rr ∈ a.rrs, AnsRROK qo rr

theorem AnsOK.empty (qo : Bytes) : AnsOK qo {} := fun _ h => by cases h

theorem scanAnswer_ok (wc : Bool) (qo : Bytes) (qt : Nat) : ∀ (rs : List Bytes) (acc a' : Ans),
    (∀ row ∈ rs, rowTargetsOK row = true) → AnsOK qo acc → scanAnswer rs wc qo qt acc = some a' → AnsOK qo a'
  | [], acc, a', _, hacc, h => by
    have : acc = a' := by simpa [scanAnswer] using h
    rw [← this]; exact hacc
  | row :: rs, acc, a', hrows, hacc, h => by
    have ih := fun acc a' => scanAnswer_ok wc qo qt rs acc a' fun r hr => hrows r (List.mem_cons_of_mem _ hr)
    have hrow := hrows row (List.mem_cons_self ..)
    unfold scanAnswer at h ih
    rw [List.foldlM_cons] at h
    cases he : extractRR row wc with
    | panic => rw [he] at h; cases h
    | mismatch => rw [he] at h; exact ih acc a' hacc h
    | row r =>
      rw [he] at h
      have ht := rowTargetsOK_spec hrow wc r he
      simp only [Option.bind_eq_bind] at h
      -- the accumulator after this row
      have key : ∀ acc1, (if r.qtype = 5 ∨ r.qtype = qt ∨ qt = 255 then
            if r.qtype = 1 then some { acc with recordFound := true, a4 := acc.a4 ++ [⟨r.ttl, r.weight, r.rdata⟩] }
            else if r.qtype = 28 then some { acc with recordFound := true, a6 := acc.a6 ++ [⟨r.ttl, r.weight, r.rdata⟩] }
            else some { acc with recordFound := true, rrs := acc.rrs ++ [⟨qo, r.qtype, 1, r.ttl, r.rdata⟩] }
          else some { acc with recordFound := true }) = some acc1 → AnsOK qo acc1 := by
        intro acc1 h1
        split at h1
        · split at h1
          · cases h1; exact hacc
          · split at h1
            · cases h1; exact hacc
            · cases h1
              intro rr hrr
              rcases List.mem_append.1 hrr with hrr | hrr
              · exact hacc rr hrr
              · simp only [List.mem_singleton] at hrr
                rw [hrr]; exact ⟨rfl, ht.1, ht.2⟩
        · cases h1; exact hacc
      generalize hst : (if r.qtype = 5 ∨ r.qtype = qt ∨ qt = 255 then
            if r.qtype = 1 then some { acc with recordFound := true, a4 := acc.a4 ++ [⟨r.ttl, r.weight, r.rdata⟩] }
            else if r.qtype = 28 then some { acc with recordFound := true, a6 := acc.a6 ++ [⟨r.ttl, r.weight, r.rdata⟩] }
            else some ({ acc with recordFound := true, rrs := acc.rrs ++ [⟨qo, r.qtype, 1, r.ttl, r.rdata⟩] } : Ans)
          else some { acc with recordFound := true }) = st at key h
      cases st with
      | none => cases h
      | some acc1 => exact ih acc1 a' (key acc1 rfl) h

theorem scanAnswer_getD_ok (wc : Bool) (qo : Bytes) (qt : Nat) (rs : List Bytes) (acc : Ans)
    (hrows : ∀ row ∈ rs, rowTargetsOK row = true) (hacc : AnsOK qo acc) :
    AnsOK qo ((scanAnswer rs wc qo qt acc).getD acc) := by
  cases h : scanAnswer rs wc qo qt acc with
  | none => exact hacc
  | some a' => exact scanAnswer_ok wc qo qt rs acc a' hrows hacc h


section Prov
variable {s₁ : Store} {rows : Rows}

theorem ansAt_ok {L : Bytes} (ht : TargetsOKAt rows L) (qo : Bytes) (qt : Nat)
    (z : List Bytes) (hz : NameOK z) (wc : Bool) (acc : Ans) (hacc : AnsOK qo acc) :
    AnsOK qo (ansAt qo qt rows L z wc acc) := by
  unfold ansAt
  have h1 : AnsOK qo (if L = [0, 0] then acc else (scanAnswer (rows z L) wc qo qt acc).getD acc) := by
    by_cases h : L = [0, 0]
    · rw [if_pos h]; exact hacc
    · rw [if_neg h]; exact scanAnswer_getD_ok wc qo qt _ acc (ht z hz L (Or.inl rfl)) hacc
  exact scanAnswer_getD_ok wc qo qt _ _ (ht z hz [0, 0] (Or.inr rfl)) h1

theorem findAnswerV1_ok (hrep : RepRRV1 s₁ rows) {L : Bytes} (ht : TargetsOKAt rows L) (b : Backend)
    (hL : L.length = 2) (control qo : Bytes) (qt : Nat) :
    ∀ (fuel : Nat) (z : List Bytes) (wc : Bool) (acc : Ans), NameOK z → AnsOK qo acc →
      AnsOK qo (findAnswerV1 ⟨b, s₁, L⟩ control qo qt fuel (pack z) wc acc)
  | 0, _, _, acc, _, hacc => by rw [findAnswerV1]; exact hacc
  | fuel + 1, z, wc, acc, hz, hacc => by
    rw [findAnswerV1_step control qo qt hrep b hL z hz]
    have h1 := ansAt_ok ht qo qt z hz wc acc hacc
    by_cases hf : (ansAt qo qt rows L z wc acc).recordFound = true
    · rw [if_pos hf]; exact h1
    · rw [if_neg hf]
      unfold upV1
      by_cases hc : pack z = control
      · rw [if_pos hc]; exact h1
      · rw [if_neg hc]
        cases z with
        | nil => exact h1
        | cons x z' =>
          simp only []
          by_cases hw : wildsafe x = true
          · rw [if_neg (by simp [hw])]
            exact findAnswerV1_ok hrep ht b hL control qo qt fuel z' true _ hz.tail h1
          · rw [if_pos hw]; exact h1

/-- rows of a well-formed name visible to a client, v1 layout -/
theorem mem_rowsOf_v1 (hrep : RepRRV1 s₁ rows) {L : Bytes} (hL : L.length = 2) (z : List Bytes) (hz : NameOK z)
    {row : Bytes} (h : row ∈ rowsOf ⟨.rdbV1, s₁, L⟩ (pack z)) : row ∈ rows z L ∨ row ∈ rows z [0, 0] := by
  have h1 : ∀ loc, rrKey ⟨.rdbV1, s₁, L⟩ (pack z) loc = some (loc ++ pack z) := by
    intro loc
    show (if (View.v2 ⟨.rdbV1, s₁, L⟩) = true then _ else _) = _
    have hv : ¬ View.v2 ⟨.rdbV1, s₁, L⟩ = true := by simp [View.v2]
    rw [if_neg hv]
  unfold rowsOf at h
  simp only [h1, Option.map_some, Option.getD_some] at h
  rw [hrep z [0, 0] hz rfl, hrep z L hz hL] at h
  rcases List.mem_append.1 h with h | h
  · left
    by_cases hl : L ≠ [0, 0]
    · rw [if_pos hl] at h; exact h
    · rw [if_neg hl] at h; cases h
  · right; exact h

theorem nameAt_idem {rd n : Bytes} (h : nameAt rd = some n) : nameAt n = some n := by
  unfold nameAt at h ⊢
  cases hl : labels (rd.length + 1) rd with
  | none => rw [hl] at h; cases h
  | some ls =>
    rw [hl] at h
    simp only [Option.map_some, Option.some.injEq] at h
    subst h
    have hg := ServeSafety.labels_good _ _ _ hl
    have := ServeSafety.labels_pack ls [] ((pack ls).length + 1) hg
      (Nat.lt_succ_of_lt (ServeSafety.length_lt_pack ls))
    rw [List.append_nil] at this
    rw [this]; rfl

theorem getNs_ok (hrep : RepRRV1 s₁ rows) {L : Bytes} (ht : TargetsOKAt rows L) (hL : L.length = 2)
    (z : List Bytes) (hz : NameOK z) (cls : Nat) :
    ∀ rr ∈ getNs ⟨.rdbV1, s₁, L⟩ (pack z) cls, RROK rr := by
  intro rr hrr
  unfold getNs at hrr
  obtain ⟨row, hrow, hf⟩ := List.mem_filterMap.1 hrr
  have hrt : rowTargetsOK row = true := by
    rcases mem_rowsOf_v1 hrep hL z hz hrow with h | h
    · exact ht z hz L (Or.inl rfl) row h
    · exact ht z hz [0, 0] (Or.inr rfl) row h
  cases he : extractRR row false with
  | panic => rw [he] at hf; cases hf
  | mismatch => rw [he] at hf; cases hf
  | row r =>
    rw [he] at hf
    simp only [] at hf
    by_cases h2 : r.qtype = 2
    · rw [if_pos h2] at hf
      cases hn : nameAt r.rdata with
      | none => rw [hn] at hf; cases hf
      | some n =>
        rw [hn] at hf
        simp only [Option.map_some, Option.some.injEq] at hf
        subst hf
        intro m hm
        have hok := (rowTargetsOK_spec hrt false r he).1 h2
        rw [hn] at hok
        have : additionalTarget ⟨pack z, 2, cls, r.ttl, n⟩ = nameAt n := by
          unfold additionalTarget; rw [if_pos rfl]
        rw [this, nameAt_idem hn] at hm
        cases hm
        exact hok
    · rw [if_neg h2] at hf; cases hf

theorem findSOA_ok (v : View) (zc : Bytes) : ∀ rr ∈ findSOA v zc, RROK rr := by
  intro rr hrr
  unfold findSOA at hrr
  split at hrr
  · simp only [List.mem_singleton] at hrr
    subst hrr
    intro n hn
    unfold additionalTarget at hn
    simp at hn
  · cases hrr

end Prov


/-! ### the congruence pass -/

section Main
variable {s₁ s₂ : Store} {rows : Rows}

theorem isAuth_v2 (s : Store) (L q : Bytes) : isAuthoritative ⟨.rdbV2, s, L⟩ q = isAuthoritativeV2 ⟨.rdbV2, s, L⟩ q := rfl
theorem isAuth_v1 (s : Store) (L q : Bytes) :
    isAuthoritative ⟨.rdbV1, s, L⟩ q = isAuthoritativeV1 ⟨.rdbV1, s, L⟩ (q.length + 1) q false false := rfl

/-- both `IsAuthoritative`s, through the dispatcher: the same `.ok` cut at a suffix of the query -/
theorem isAuth_both (hrep1 : RepRRV1 s₁ rows) (hrep2 : RepRRV2 s₂ rows) {L : Bytes} (hok : RowsOKAt rows L)
    (hL : L.length = 2) (ql : List Bytes) (hq : NameOK64 ql) (hlen : (pack ql).length ≤ 256) :
    ∃ (N A : Bool) (z1 : List Bytes), z1 <:+ ql ∧
      isAuthoritative ⟨.rdbV2, s₂, L⟩ (pack ql) = .ok ⟨N, A, pack z1⟩ ∧
      isAuthoritative ⟨.rdbV1, s₁, L⟩ (pack ql) = .ok ⟨N, A, pack z1⟩ := by
  obtain ⟨N, A, z1, hz1, _, h2, h1⟩ := isAuthoritativeV2_eq_V1_cut hrep1 hrep2 hok hL ql hq hlen
  exact ⟨N, A, z1, hz1, by rw [isAuth_v2]; exact h2, by rw [isAuth_v1]; exact h1⟩

theorem dsStep_both (hrep1 : RepRRV1 s₁ rows) (hrep2 : RepRRV2 s₂ rows) {L : Bytes} (hok : RowsOKAt rows L)
    (hL : L.length = 2) (ql : List Bytes) (hq : NameOK64 ql) (hlen : (pack ql).length ≤ 256)
    (rq : Query) (hqn : rq.qname = pack ql) (cut : Cut) (z : List Bytes) (hz : z <:+ ql)
    (hcz : cut.zoneCut = pack z) :
    ∃ (c' : Cut) (z' : List Bytes), z' <:+ ql ∧ c'.zoneCut = pack z' ∧
      dsStep ⟨.rdbV2, s₂, L⟩ rq cut = .ok c' ∧ dsStep ⟨.rdbV1, s₁, L⟩ rq cut = .ok c' := by
  unfold dsStep
  by_cases hc : ¬ cut.auth = true ∧ rq.qtype = 43 ∧ rq.qname.head? ≠ some 0
  · rw [if_pos hc, if_pos hc, hqn]
    cases ql with
    | nil => exact absurd (by rw [hqn]; rfl) hc.2.2
    | cons x q' =>
      have hx : LabelOK x := hq.ok.head
      have e : pack (x :: q') = UInt8.ofNat x.length :: (x ++ pack q') := by rw [pack_cons]; rfl
      rw [e]
      simp only []
      rw [drop_tok_pack x hx]
      have hq' : NameOK64 q' := fun l hl => hq l (List.mem_cons_of_mem _ hl)
      have hlen' : (pack q').length ≤ 256 := by
        rw [e] at hlen; simp only [List.length_cons, List.length_append] at hlen; omega
      obtain ⟨N, A, z1, hz1, h2, h1⟩ := isAuth_both hrep1 hrep2 hok hL q' hq' hlen'
      rw [h2, h1]
      exact ⟨⟨cut.ns, A, pack z1⟩, z1, hz1.trans (List.suffix_cons x q'), rfl, rfl, rfl⟩
  · rw [if_neg hc, if_neg hc]
    exact ⟨cut, z, hz, hcz, rfl, rfl⟩

theorem pack_ne_nil (z : List Bytes) : pack z ≠ [] := by
  rw [pack_eq]; simp

theorem fin_v2_eq_v1 (hrep1 : RepRRV1 s₁ rows) (hrep2 : RepRRV2 s₂ rows) {L : Bytes} (hL : L.length = 2)
    (ht : TargetsOKAt rows L) (rq : Query) (hqo : lowerOK rq.qnameOut = true) (cut : Cut) (z : List Bytes)
    (hz : NameOK z) (hcz : cut.zoneCut = pack z) (a : Ans) (ha : AnsOK rq.qnameOut a) :
    fin ⟨.rdbV2, s₂, L⟩ rq cut a = fin ⟨.rdbV1, s₁, L⟩ rq cut a := by
  have hns : nsSecOf ⟨.rdbV2, s₂, L⟩ rq cut a = nsSecOf ⟨.rdbV1, s₁, L⟩ rq cut a := by
    unfold nsSecOf findSOA getNs
    rw [hcz, rowsOf_v2_eq_v1' hrep1 hrep2 hL z hz]
  have hnsok : ∀ rr ∈ nsSecOf ⟨.rdbV1, s₁, L⟩ rq cut a, RROK rr := by
    intro rr hrr
    unfold nsSecOf at hrr
    split at hrr
    · exact findSOA_ok _ _ rr hrr
    · split at hrr
      · rw [hcz] at hrr; exact getNs_ok hrep1 ht hL z hz _ rr hrr
      · cases hrr
  unfold fin
  rw [hns,
    additionalFor_v2_eq_v1 hrep1 hrep2 hL rq.qclass a.rrs (fun rr hrr => (ha rr hrr).rrok hqo),
    additionalFor_v2_eq_v1 hrep1 hrep2 hL rq.qclass _ hnsok]

theorem tail_v2_eq_v1 (hrep1 : RepRRV1 s₁ rows) (hrep2 : RepRRV2 s₂ rows) {L : Bytes} (hL : L.length = 2)
    (ht : TargetsOKAt rows L) (ql : List Bytes) (hq : NameOK64 ql) (hlen : (pack ql).length ≤ 256)
    (rq : Query) (hqn : rq.qname = pack ql) (hqo : lowerOK rq.qnameOut = true) (cut : Cut) (z : List Bytes)
    (hz : z <:+ ql) (hcz : cut.zoneCut = pack z) :
    tail ⟨.rdbV2, s₂, L⟩ rq cut = tail ⟨.rdbV1, s₁, L⟩ rq cut := by
  have hzok : NameOK z := by
    obtain ⟨t, ht⟩ := hz
    exact (ht ▸ hq.ok : NameOK (t ++ z)).of_append_right
  have hfa : ansOf ⟨.rdbV2, s₂, L⟩ rq cut = ansOf ⟨.rdbV1, s₁, L⟩ rq cut := by
    unfold ansOf
    by_cases hau : cut.auth = true
    · rw [if_pos hau, if_pos hau]
      have h2 : View.v2 ⟨.rdbV2, s₂, L⟩ = true := rfl
      have h1 : ¬ View.v2 ⟨.rdbV1, s₁, L⟩ = true := by simp [View.v2]
      rw [if_pos h2, if_neg h1, hqn, hcz]
      exact findAnswerV2_eq_V1' rq.qnameOut rq.qtype hrep1 hrep2 hL ql z hq hlen hz
    · rw [if_neg hau, if_neg hau]
  have hansok : ∀ a, ansOf ⟨.rdbV1, s₁, L⟩ rq cut = .ok a → AnsOK rq.qnameOut a := by
    intro a h
    unfold ansOf at h
    by_cases hau : cut.auth = true
    · rw [if_pos hau] at h
      have h1 : ¬ View.v2 ⟨.rdbV1, s₁, L⟩ = true := by simp [View.v2]
      rw [if_neg h1, hqn] at h
      cases h
      exact findAnswerV1_ok hrep1 ht .rdbV1 hL _ _ _ _ ql false {} hq.ok (AnsOK.empty _)
    · rw [if_neg hau] at h; cases h; exact AnsOK.empty _
  unfold tail
  rw [hfa]
  cases hans : ansOf ⟨.rdbV1, s₁, L⟩ rq cut with
  | ok a =>
    simp only []
    rw [fin_v2_eq_v1 hrep1 hrep2 hL ht rq hqo cut z hzok hcz a (hansok a hans)]
  | err => rfl
  | panic => rfl

/-- **`serve`, v2 = v1.** -/
theorem serve_v2_eq_v1' (hrep1 : RepRRV1 s₁ rows) (hrep2 : RepRRV2 s₂ rows) {L : Bytes} (hok : RowsOKAt rows L)
    (hL : L.length = 2) (ht : TargetsOKAt rows L) (ql : List Bytes) (hq : NameOK64 ql)
    (hlen : (pack ql).length ≤ 256) (rq : Query) (hqn : rq.qname = pack ql)
    (hqo : lowerOK rq.qnameOut = true) :
    serve ⟨.rdbV2, s₂, L⟩ rq = serve ⟨.rdbV1, s₁, L⟩ rq := by
  obtain ⟨N, A, z1, hz1, h2, h1⟩ := isAuth_both hrep1 hrep2 hok hL ql hq hlen
  rw [serve_unfold, serve_unfold, hqn, h2, h1]
  simp only []
  by_cases hc : ¬ N = true ∧ ¬ A = true
  · rw [if_pos hc, if_pos hc]
  · rw [if_neg hc, if_neg hc]
    obtain ⟨c', z', hz', hcz', hd2, hd1⟩ :=
      dsStep_both hrep1 hrep2 hok hL ql hq hlen rq hqn ⟨N, A, pack z1⟩ z1 hz1 rfl
    rw [hd2, hd1]
    exact tail_v2_eq_v1 hrep1 hrep2 hL ht ql hq hlen rq hqn hqo c' z' hz' hcz'

end Main


/-! ### from a v2 store to the v1 store holding the same rows -/

/-- a canonical v2 resource-record key, taken apart: reversed owner labels and location -/
def decodeKey (k : Bytes) : Option (List Bytes × Bytes) :=
  match unpack ((k.drop 2).take (k.length - 4)) with
  | some a =>
    let loc := k.drop (k.length - 2)
    if k = Key a loc ∧ NameOK a ∧ loc.length = 2 then some (a, loc) else none
  | none => none

theorem decodeKey_some {k : Bytes} {a : List Bytes} {loc : Bytes} (h : decodeKey k = some (a, loc)) :
    k = Key a loc ∧ NameOK a ∧ loc.length = 2 := by
  unfold decodeKey at h
  split at h
  · simp only [] at h
    split at h
    · rename_i hc; cases h; exact hc
    · cases h
  · cases h

theorem decodeKey_key {a : List Bytes} (ha : NameOK a) {loc : Bytes} (hl : loc.length = 2) :
    decodeKey (Key a loc) = some (a, loc) := by
  obtain ⟨_, _, hmid⟩ := rrkey_parts a hl
  have hdrop : (Key a loc).drop ((Key a loc).length - 2) = loc := by
    have e : Key a loc = (marker ++ pack a) ++ loc := by simp [Key, K]
    rw [e, List.length_append, hl, Nat.add_sub_cancel]
    exact List.drop_left
  unfold decodeKey
  rw [hmid]
  have hu : unpack (pack a) = some a := by
    unfold unpack
    exact unpack_pack a _ ha (by have := length_le_flat_length a; rw [pack_length]; omega)
  rw [hu]
  simp only []
  rw [hdrop, if_pos ⟨rfl, ha, hl⟩]

theorem Key_inj {a b : List Bytes} (ha : NameOK a) (hb : NameOK b) {l l' : Bytes} (hl : l.length = 2)
    (hl' : l'.length = 2) (h : Key a l = Key b l') : a = b ∧ l = l' := by
  have h1 := decodeKey_key ha hl
  rw [h, decodeKey_key hb hl'] at h1
  cases h1; exact ⟨rfl, rfl⟩

theorem v1key_inj {a b : List Bytes} {l l' : Bytes} (ha : NameOK a) (hb : NameOK b) (hl : l.length = 2)
    (hl' : l'.length = 2) (h : l ++ pack a = l' ++ pack b) : l = l' ∧ a = b := by
  have := List.append_inj h (by rw [hl, hl'])
  exact ⟨this.1, pack_inj ha hb this.2⟩

/-- the v1 store holding the rows of the canonical resource-record keys of a v2 store -/
def v1Of (s : Store) : Store :=
  s.filterMap fun e => (decodeKey e.1).map fun p => (p.2 ++ pack p.1.reverse, e.2)

/-- rows of a v2 store by owner (query order) and location -/
def rowsV2 (s : Store) : Rows := fun z loc => s.get (Key z.reverse loc)

theorem v1Of_cons (e : Bytes × List Bytes) (s : Store) :
    v1Of (e :: s) = match decodeKey e.1 with
      | some p => (p.2 ++ pack p.1.reverse, e.2) :: v1Of s
      | none => v1Of s := by
  unfold v1Of
  rw [List.filterMap_cons]
  cases decodeKey e.1 <;> rfl

theorem repV1_v1Of : ∀ (s : Store), RepRRV1 (v1Of s) (rowsV2 s)
  | [] => fun _ _ _ _ => rfl
  | e :: s => by
    intro z loc hz hl
    have ih := repV1_v1Of s z loc hz hl
    unfold rowsV2 at ih ⊢
    obtain ⟨k, vs⟩ := e
    rw [ServeSafety.get_cons, v1Of_cons]
    cases hd : decodeKey k with
    | none =>
      simp only []
      have hne : ¬ k = Key z.reverse loc := by
        intro h; rw [h, decodeKey_key hz.reverse hl] at hd; cases hd
      rw [if_neg hne]; exact ih
    | some p =>
      obtain ⟨a, loc'⟩ := p
      obtain ⟨hk, ha, hl'⟩ := decodeKey_some hd
      simp only []
      rw [ServeSafety.get_cons]
      by_cases h : k = Key z.reverse loc
      · rw [if_pos h]
        obtain ⟨h1, h2⟩ := Key_inj ha hz.reverse hl' hl (hk.symm.trans h)
        rw [if_pos (by rw [h1, h2, List.reverse_reverse])]
      · rw [if_neg h]
        have hne : ¬ loc' ++ pack a.reverse = loc ++ pack z := by
          intro h'
          obtain ⟨h1, h2⟩ := v1key_inj ha.reverse hz hl' hl h'
          apply h
          rw [hk, h1, ← h2, List.reverse_reverse]
        rw [if_neg hne]; exact ih

/-- canonical v2 keys: a key under the marker is `Key a loc` of a well-formed name with a 2-byte
location, or its byte after the marker is 64 or more (the features key). Decidable. -/
def V2Canonical (s : Store) : Prop :=
  ∀ e ∈ s, e.1.take 2 = marker → (decodeKey e.1).isSome = true ∨ 64 ≤ (e.1[2]?.getD 0).toNat

instance (s : Store) : Decidable (V2Canonical s) := by unfold V2Canonical; infer_instance

theorem repV2_rowsV2 {s : Store} (h : V2Canonical s) : RepRRV2 s (rowsV2 s) := by
  refine ⟨fun e he hm => ?_, fun _ _ _ _ => rfl⟩
  rcases h e he hm with hd | hj
  · left
    cases hdk : decodeKey e.1 with
    | none => rw [hdk] at hd; cases hd
    | some p =>
      obtain ⟨a, loc⟩ := p
      obtain ⟨hk, ha, hl⟩ := decodeKey_some hdk
      exact ⟨a.reverse, loc, ha.reverse, hl, by rw [List.reverse_reverse]; exact hk⟩
  · right
    cases h2 : e.1[2]? with
    | none => rw [h2] at hj; simp at hj
    | some b =>
      rw [h2] at hj
      simp only [Option.getD_some] at hj
      refine ⟨b, e.1.drop 3, ?_, hj⟩
      have e1 : e.1 = e.1.take 2 ++ e.1.drop 2 := (List.take_append_drop 2 e.1).symm
      have e2 : e.1.drop 2 = b :: e.1.drop 3 := by
        have hlt : 2 < e.1.length := by
          rcases Nat.lt_or_ge 2 e.1.length with h | h
          · exact h
          · rw [List.getElem?_eq_none h] at h2; cases h2
        rw [List.drop_eq_getElem_cons hlt]
        have : e.1[2] = b := by
          have := List.getElem?_eq_getElem hlt
          rw [h2] at this; exact (Option.some.inj this).symm
        rw [this]
      rw [← e2, ← hm]; exact e1


/-! ### the frame property of the v2 layout, through the v1 layout -/

theorem lowerOK_of_eq {n : Bytes} {z : List Bytes} (hz : NameOK z) (h : toLower n = pack z) : lowerOK n = true := by
  unfold lowerOK
  have hu : unpack (pack z) = some z := by
    unfold unpack
    exact unpack_pack z _ hz (by have := length_le_flat_length z; rw [pack_length]; omega)
  rw [h, hu]
  simp only [Bool.and_eq_true, decide_eq_true_eq]
  exact ⟨hz, trivial⟩

theorem mem_get {s : Store} {k row : Bytes} (h : row ∈ s.get k) : ∃ e ∈ s, e.1 = k ∧ row ∈ e.2 := by
  unfold Store.get at h
  split at h
  · rename_i k' vs hf
    have hm := List.mem_of_find?_eq_some hf
    have hp := List.find?_some hf
    exact ⟨(k', vs), hm, by simpa using hp, h⟩
  · cases h

/-- `k` is a canonical resource-record key whose location is `L` or none -/
def visibleKey (L k : Bytes) : Bool :=
  match decodeKey k with
  | some p => p.2 == L || p.2 == [0, 0]
  | none => false

/-- every row under a canonical resource-record key whose location is `L` or none parses without a
panic and has fine NS / MX targets. Decidable. -/
def StoreRowsOKAt (s : Store) (L : Bytes) : Prop :=
  ∀ e ∈ s, visibleKey L e.1 = true → ∀ row ∈ e.2, rowOK row = true ∧ rowTargetsOK row = true

instance (s : Store) (L : Bytes) : Decidable (StoreRowsOKAt s L) := by unfold StoreRowsOKAt; infer_instance

theorem storeRows_at {s : Store} {L : Bytes} (hL : L.length = 2) (h : StoreRowsOKAt s L) :
    RowsOKAt (rowsV2 s) L ∧ TargetsOKAt (rowsV2 s) L := by
  have key : ∀ z, NameOK z → ∀ loc, loc = L ∨ loc = [0, 0] → ∀ row ∈ rowsV2 s z loc,
      rowOK row = true ∧ rowTargetsOK row = true := by
    intro z hz loc hloc row hrow
    obtain ⟨e, he, hk, hr⟩ := mem_get hrow
    have hl : loc.length = 2 := by rcases hloc with h | h <;> rw [h] <;> first | exact hL | rfl
    have hv : visibleKey L e.1 = true := by
      unfold visibleKey
      rw [hk, decodeKey_key hz.reverse hl]
      simp only [Bool.or_eq_true, beq_iff_eq]
      exact hloc
    exact h e he hv row hr
  exact ⟨fun z hz loc hloc row hrow => (key z hz loc hloc row hrow).1,
    fun z hz loc hloc row hrow => (key z hz loc hloc row hrow).2⟩

theorem v1Of_get_other (s : Store) (k : Bytes)
    (h : ¬ ∃ z loc, NameOK z ∧ loc.length = 2 ∧ k = loc ++ pack z) : (v1Of s).get k = [] := by
  apply get_eq_nil_of_not_mem
  intro e he hk
  unfold v1Of at he
  obtain ⟨e0, _, hf⟩ := List.mem_filterMap.1 he
  cases hd : decodeKey e0.1 with
  | none => rw [hd] at hf; cases hf
  | some p =>
    rw [hd] at hf
    simp only [Option.map_some, Option.some.injEq] at hf
    obtain ⟨_, ha, hl⟩ := decodeKey_some (a := p.1) (loc := p.2) hd
    exact h ⟨p.1.reverse, p.2, ha.reverse, hl, by rw [← hk, ← hf]⟩

/-- agreement of two v2 stores on the rows visible to `l` gives `AgreeOn` of the derived v1 stores -/
theorem agree_v1Of {s₁ s₂ : Store} {l : Bytes}
    (h : ∀ a loc, NameOK a → loc = l ∨ loc = [0, 0] → s₁.get (Key a loc) = s₂.get (Key a loc)) :
    ∀ k : Bytes, (k.take 2 = l ∨ k.take 2 = [0, 0]) → (v1Of s₁).get k = (v1Of s₂).get k := by
  intro k hk
  by_cases hex : ∃ z loc, NameOK z ∧ loc.length = 2 ∧ k = loc ++ pack z
  · obtain ⟨z, loc, hz, hloc, rfl⟩ := hex
    rw [List.take_left' hloc] at hk
    rw [repV1_v1Of s₁ z loc hz hloc, repV1_v1Of s₂ z loc hz hloc]
    exact h z.reverse loc hz.reverse hk
  · rw [v1Of_get_other s₁ k hex, v1Of_get_other s₂ k hex]

/-- **frame property, v2 layout**: two canonical v2 stores that hold the same rows under every
resource-record key tagged `l` or untagged answer a client at `l` alike -/
theorem serve_v2_frame' (s₁ s₂ : Store) {l : Bytes} (hl : l.length = 2)
    (hc1 : V2Canonical s₁) (hc2 : V2Canonical s₂)
    (hag : ∀ a loc, NameOK a → loc = l ∨ loc = [0, 0] → s₁.get (Key a loc) = s₂.get (Key a loc))
    (hr1 : StoreRowsOKAt s₁ l) (hr2 : StoreRowsOKAt s₂ l)
    (ql : List Bytes) (hq : NameOK64 ql) (hlen : (pack ql).length ≤ 256) (rq : Query)
    (hqn : rq.qname = pack ql) (hqo : toLower rq.qnameOut = rq.qname) :
    serve ⟨.rdbV2, s₁, l⟩ rq = serve ⟨.rdbV2, s₂, l⟩ rq := by
  have hlo : lowerOK rq.qnameOut = true := lowerOK_of_eq hq.ok (hqo.trans hqn)
  obtain ⟨ho1, ht1⟩ := storeRows_at hl hr1
  obtain ⟨ho2, ht2⟩ := storeRows_at hl hr2
  rw [serve_v2_eq_v1' (repV1_v1Of s₁) (repV2_rowsV2 hc1) ho1 hl ht1 ql hq hlen rq hqn hlo,
    serve_v2_eq_v1' (repV1_v1Of s₂) (repV2_rowsV2 hc2) ho2 hl ht2 ql hq hlen rq hqn hlo]
  exact ServeSafety.serve_frame hl (agree_v1Of hag) (by intro h; cases h) rq

end DnsVerif.ServeV2
