/-
Helper lemmas for C09, names with empty labels: the normal form `putdomtext` / `putservertext` /
`putmapdomtext` write (`normName`, `normServer`, `normMap`), `domText = bquote ∘ normName` and its
variants, idempotence, invariance of the compiled keys and values, the normalised record `normRec`,
and what every record the line decoder yields satisfies.
-/
import DnsVerif.Proofs.MarshalText
import DnsVerif.Proofs.MarshalQuote

set_option linter.unusedSimpArgs false

namespace DnsVerif.MarshalText
open DnsVerif DnsVerif.Codec DnsVerif.Name DnsVerif.Net

/-! ### `bytes.Split(a, ".")` and the join that undoes it -/

theorem splitDots_cons_dot (rest : Bytes) : splitDots (0x2e :: rest) = [] :: splitDots rest := by
  simp [splitDots]

theorem splitDots_ne_nil (a : Bytes) : splitDots a ≠ [] := by
  induction a with
  | nil => simp [splitDots]
  | cons c rest ih =>
    unfold splitDots
    split
    · simp
    · split <;> simp

theorem splitDots_cons_ne (c : UInt8) (rest : Bytes) (hc : c ≠ 0x2e) :
    ∃ l ls, splitDots rest = l :: ls ∧ splitDots (c :: rest) = (c :: l) :: ls := by
  cases h : splitDots rest with
  | nil => exact absurd h (splitDots_ne_nil rest)
  | cons l ls =>
    refine ⟨l, ls, rfl, ?_⟩
    conv => lhs; unfold splitDots
    rw [if_neg hc, h]

theorem splitDots_append_dot (x y : Bytes) (hx : (0x2e : UInt8) ∉ x) :
    splitDots (x ++ 0x2e :: y) = x :: splitDots y := by
  induction x with
  | nil => exact splitDots_cons_dot y
  | cons c x ih =>
    simp only [List.mem_cons, not_or] at hx
    obtain ⟨l, ls, h1, h2⟩ := splitDots_cons_ne c (x ++ 0x2e :: y) (fun e => hx.1 e.symm)
    rw [List.cons_append, h2]
    rw [ih hx.2] at h1
    cases h1
    rfl

theorem splitDots_dotfree_single (x : Bytes) (hx : (0x2e : UInt8) ∉ x) : splitDots x = [x] := by
  induction x with
  | nil => rfl
  | cons c x ih =>
    simp only [List.mem_cons, not_or] at hx
    obtain ⟨l, ls, h1, h2⟩ := splitDots_cons_ne c x (fun e => hx.1 e.symm)
    rw [h2]
    rw [ih hx.2] at h1
    cases h1
    rfl

theorem splitDots_dotfree (a : Bytes) : ∀ l ∈ splitDots a, (0x2e : UInt8) ∉ l := by
  induction a with
  | nil => intro l hl; simp [splitDots] at hl; subst hl; simp
  | cons c rest ih =>
    by_cases hc : c = 0x2e
    · subst hc
      rw [splitDots_cons_dot]
      intro l hl
      simp only [List.mem_cons] at hl
      rcases hl with rfl | hl
      · simp
      · exact ih l hl
    · obtain ⟨l0, ls, h1, h2⟩ := splitDots_cons_ne c rest hc
      rw [h2]
      rw [h1] at ih
      intro l hl
      simp only [List.mem_cons] at hl
      rcases hl with rfl | hl
      · have := ih l0 (by simp)
        simp only [List.mem_cons, not_or]
        exact ⟨fun e => hc e.symm, this⟩
      · exact ih l (by simp [hl])

theorem joinDots_cons_cons (a b : Bytes) (r : List Bytes) :
    joinDots (a :: b :: r) = a ++ 0x2e :: joinDots (b :: r) := by
  simp [joinDots]

theorem joinDots_cons_byte (c : UInt8) (l : Bytes) (ls : List Bytes) :
    joinDots ((c :: l) :: ls) = c :: joinDots (l :: ls) := by
  cases ls with
  | nil => rfl
  | cons b r => rw [joinDots_cons_cons, joinDots_cons_cons]; rfl

theorem joinDots_splitDots (a : Bytes) : joinDots (splitDots a) = a := by
  induction a with
  | nil => rfl
  | cons c rest ih =>
    by_cases hc : c = 0x2e
    · subst hc
      rw [splitDots_cons_dot]
      cases h : splitDots rest with
      | nil => exact absurd h (splitDots_ne_nil rest)
      | cons l ls => rw [joinDots_cons_cons, ← h, ih]; rfl
    · obtain ⟨l0, ls, h1, h2⟩ := splitDots_cons_ne c rest hc
      rw [h2, joinDots_cons_byte, ← h1, ih]

theorem splitDots_joinDots (M : List Bytes) (hne : M ≠ []) (hd : ∀ l ∈ M, (0x2e : UInt8) ∉ l) :
    splitDots (joinDots M) = M := by
  induction M with
  | nil => exact absurd rfl hne
  | cons a r ih =>
    cases r with
    | nil => exact splitDots_dotfree_single a (hd a (by simp))
    | cons b r' =>
      rw [joinDots_cons_cons, splitDots_append_dot _ _ (hd a (by simp)),
        ih (by simp) (fun l hl => hd l (by simp [hl]))]

/-! ### the quoted name, label by label -/

/-- Go's `strconv.IsPrint` holds `.` and `*` printable -/
def PrintsDotStar (isPrint : Nat → Bool) : Prop := isPrint 0x2e = true ∧ isPrint 0x2a = true

theorem bquote_dot_cons {isPrint : Nat → Bool} (hp : PrintsDotStar isPrint) (y : Bytes) :
    Quote.bquote isPrint (0x2e :: y) = 0x2e :: Quote.bquote isPrint y :=
  Quote.bquote_cons_plain isPrint 0x2e (Or.inl rfl) hp.1 y

theorem bquote_star_cons {isPrint : Nat → Bool} (hp : PrintsDotStar isPrint) (y : Bytes) :
    Quote.bquote isPrint (0x2a :: y) = 0x2a :: Quote.bquote isPrint y :=
  Quote.bquote_cons_plain isPrint 0x2a (Or.inr rfl) hp.2 y

theorem bquote_append_dot {isPrint : Nat → Bool} (hp : PrintsDotStar isPrint) (x y : Bytes) :
    Quote.bquote isPrint (x ++ 0x2e :: y) = Quote.bquote isPrint x ++ 0x2e :: Quote.bquote isPrint y := by
  rw [Quote.bquote_append_ascii isPrint x 0x2e y (by decide), bquote_dot_cons hp]

theorem bquote_joinDots {isPrint : Nat → Bool} (hp : PrintsDotStar isPrint) (M : List Bytes) :
    Quote.bquote isPrint (joinDots M) = joinDots (M.map (Quote.bquote isPrint)) := by
  induction M with
  | nil => exact Quote.bquote_nil isPrint
  | cons a r ih =>
    cases r with
    | nil => rfl
    | cons b r' =>
      rw [joinDots_cons_cons, bquote_append_dot hp, ih]
      simp only [List.map_cons]
      rw [joinDots_cons_cons]

theorem bquote_dotfree (isPrint : Nat → Bool) (l : Bytes) (h : (0x2e : UInt8) ∉ l) :
    (0x2e : UInt8) ∉ Quote.bquote isPrint l :=
  fun hm => h (Quote.bquote_plain_mem isPrint 0x2e (Or.inl rfl) l hm)

theorem splitDots_bquote {isPrint : Nat → Bool} (hp : PrintsDotStar isPrint) (a : Bytes) :
    splitDots (Quote.bquote isPrint a) = (splitDots a).map (Quote.bquote isPrint) := by
  conv => lhs; rw [← joinDots_splitDots a, bquote_joinDots hp]
  apply splitDots_joinDots
  · simp [splitDots_ne_nil]
  · intro l hl
    simp only [List.mem_map] at hl
    obtain ⟨l0, h0, rfl⟩ := hl
    exact bquote_dotfree isPrint l0 (splitDots_dotfree a l0 h0)

theorem bquote_eq_nil {isPrint : Nat → Bool} {l : Bytes} (h : Quote.bquote isPrint l = []) : l = [] :=
  Props.C17.bquote_injective isPrint l [] (by rw [h, Quote.bquote_nil])

theorem startsStar_iff (b : Bytes) : startsStar b = true ↔ ∃ rest, b = 0x2a :: 0x2e :: rest := by
  constructor
  · intro h
    unfold startsStar at h
    split at h
    · exact ⟨_, rfl⟩
    · cases h
  · rintro ⟨rest, rfl⟩; rfl

theorem startsStar_bquote {isPrint : Nat → Bool} (hp : PrintsDotStar isPrint) (x : Bytes) :
    startsStar (Quote.bquote isPrint x) = startsStar x := by
  cases hx : startsStar x with
  | true =>
    obtain ⟨rest, rfl⟩ := (startsStar_iff x).mp hx
    rw [bquote_star_cons hp, bquote_dot_cons hp]; rfl
  | false =>
    cases hq : startsStar (Quote.bquote isPrint x) with
    | false => rfl
    | true =>
      exfalso
      obtain ⟨r, hr⟩ := (startsStar_iff _).mp hq
      obtain ⟨t, rfl⟩ := Quote.bquote_head_plain isPrint 0x2a (Or.inr rfl) x _ hr
      rw [bquote_star_cons hp] at hr
      simp only [List.cons.injEq, true_and] at hr
      obtain ⟨t', rfl⟩ := Quote.bquote_head_plain isPrint 0x2e (Or.inl rfl) t _ hr
      simp [startsStar] at hx


/-! ### the normal form of a name -/

/-- the non-empty labels: all that `putdom` / `putreverseddom` / `putdomtext` keep of a name -/
def labelsNE (a : Bytes) : List Bytes := (splitDots a).filter (fun l => !l.isEmpty)

/-- the name `putdomtext` writes for `a`, unquoted: the non-empty labels joined by dots; `.` stays;
one leading dot is kept in front of a literal `*` label that would otherwise become a wildcard marker -/
def normName (a : Bytes) : Bytes :=
  if a = [0x2e] then [0x2e]
  else
    let n := joinDots (labelsNE a)
    if startsStar n ∧ ¬ startsStar a then 0x2e :: n else n

/-- the name `putservertext` writes -/
def normServer (a : Bytes) : Bytes :=
  let n := normName a
  if n.contains 0x2e then n else n ++ [0x2e]

/-- the name `putmapdomtext` writes -/
def normMap (a : Bytes) : Bytes :=
  match a with
  | 0x2a :: 0x2e :: rest => [0x2a, 0x2e] ++ normName rest
  | _ => normName a

/-- no label whose quoted form reaches 256 bytes (implied by: every label at most 63 bytes) -/
def ShortLabels (isPrint : Nat → Bool) (a : Bytes) : Prop :=
  ∀ l ∈ splitDots a, (Quote.bquote isPrint l).length < 256

theorem textLabel_bquote {isPrint : Nat → Bool} (l : Bytes) (h : (Quote.bquote isPrint l).length < 256) :
    textLabel (Quote.bquote isPrint l) = if l.isEmpty then none else some (Quote.bquote isPrint l) := by
  unfold textLabel
  simp only [Nat.mod_eq_of_lt h]
  by_cases he : l = []
  · subst he; rw [Quote.bquote_nil]; rfl
  · have hq : Quote.bquote isPrint l ≠ [] := fun e => he (bquote_eq_nil e)
    have hlen : (Quote.bquote isPrint l).length ≠ 0 := by
      intro e; exact hq (List.length_eq_zero_iff.mp e)
    have he' : l.isEmpty = false := by cases l <;> simp_all
    rw [if_neg hlen, he', List.take_length]
    rfl

theorem filterMap_textLabel {isPrint : Nat → Bool} (L : List Bytes)
    (h : ∀ l ∈ L, (Quote.bquote isPrint l).length < 256) :
    (L.map (Quote.bquote isPrint)).filterMap textLabel
      = (L.filter (fun l => !l.isEmpty)).map (Quote.bquote isPrint) := by
  induction L with
  | nil => rfl
  | cons a r ih =>
    have ha := h a (by simp)
    have ih' := ih (fun l hl => h l (by simp [hl]))
    rw [List.map_cons, List.filterMap_cons, textLabel_bquote a ha, ih']
    cases hae : a.isEmpty <;> simp [List.filter_cons, hae]

/-- **`putdomtext` writes the quoted normal form** -/
theorem domText_eq {isPrint : Nat → Bool} (hp : PrintsDotStar isPrint) (a : Bytes)
    (hs : ShortLabels isPrint a) : domText isPrint a = Quote.bquote isPrint (normName a) := by
  unfold domText normName
  by_cases ha : a = [0x2e]
  · rw [if_pos ha, if_pos ha, bquote_dot_cons hp, Quote.bquote_nil]
  · rw [if_neg ha, if_neg ha]
    simp only []
    rw [splitDots_bquote hp, filterMap_textLabel _ hs, ← bquote_joinDots hp, startsStar_bquote hp,
      startsStar_bquote hp]
    change (if startsStar (joinDots (labelsNE a)) = true ∧ ¬ startsStar a = true then _ else _) = _
    by_cases hc : startsStar (joinDots (labelsNE a)) = true ∧ ¬ startsStar a = true
    · rw [if_pos hc, if_pos hc, bquote_dot_cons hp]; rfl
    · rw [if_neg hc, if_neg hc]; rfl

/-! ### normalising twice -/

theorem mem_labelsNE {a l : Bytes} (h : l ∈ labelsNE a) : l ∈ splitDots a ∧ l ≠ [] := by
  unfold labelsNE at h
  rw [List.mem_filter] at h
  refine ⟨h.1, ?_⟩
  intro e; subst e; simp at h

theorem labelsNE_def (x : Bytes) : labelsNE x = (splitDots x).filter (fun l => !l.isEmpty) := rfl

theorem normName_of_ne {a : Bytes} (h : a ≠ [0x2e]) :
    normName a = if startsStar (joinDots (labelsNE a)) = true ∧ ¬ startsStar a = true
      then 0x2e :: joinDots (labelsNE a) else joinDots (labelsNE a) := by
  unfold normName; rw [if_neg h]

theorem labelsNE_filter (a : Bytes) : (labelsNE a).filter (fun l => !l.isEmpty) = labelsNE a := by
  unfold labelsNE; rw [List.filter_filter]; simp

theorem labelsNE_dot_cons (x : Bytes) : labelsNE (0x2e :: x) = labelsNE x := by
  unfold labelsNE; rw [splitDots_cons_dot]; rfl

theorem splitDots_join_labelsNE (a : Bytes) (h : labelsNE a ≠ []) :
    splitDots (joinDots (labelsNE a)) = labelsNE a :=
  splitDots_joinDots _ h (fun l hl => splitDots_dotfree a l (mem_labelsNE hl).1)

theorem labelsNE_join (a : Bytes) : labelsNE (joinDots (labelsNE a)) = labelsNE a := by
  by_cases h : labelsNE a = []
  · rw [h]; rfl
  · rw [labelsNE_def (joinDots (labelsNE a)), splitDots_join_labelsNE a h, labelsNE_filter]

theorem join_labelsNE_ne_dot (a : Bytes) : joinDots (labelsNE a) ≠ [0x2e] := by
  intro e
  by_cases h : labelsNE a = []
  · rw [h] at e; cases e
  · have h2 := splitDots_join_labelsNE a h
    rw [e] at h2
    have : ([] : Bytes) ∈ labelsNE a := by rw [← h2]; simp [splitDots]
    exact (mem_labelsNE this).2 rfl

theorem startsStar_dot_cons (x : Bytes) : startsStar (0x2e :: x) = false := rfl

theorem labelsNE_normName (a : Bytes) : labelsNE (normName a) = labelsNE a := by
  unfold normName
  by_cases ha : a = [0x2e]
  · rw [if_pos ha, ha]
  · rw [if_neg ha]
    simp only []
    split
    · rw [labelsNE_dot_cons, labelsNE_join]
    · exact labelsNE_join a

theorem normName_idem (a : Bytes) : normName (normName a) = normName a := by
  by_cases ha : a = [0x2e]
  · subst ha; rfl
  · have hL := labelsNE_normName a
    have hne : normName a ≠ [0x2e] := by
      unfold normName
      rw [if_neg ha]
      simp only []
      split
      · rename_i hc
        intro e
        simp only [List.cons.injEq, true_and] at e
        rw [e] at hc
        simp [startsStar] at hc
      · exact join_labelsNE_ne_dot a
    rw [normName_of_ne hne, hL]
    by_cases hc : startsStar (joinDots (labelsNE a)) = true ∧ ¬ startsStar a = true
    · have e : normName a = 0x2e :: joinDots (labelsNE a) := by
        unfold normName; rw [if_neg ha]; simp only []; rw [if_pos hc]
      rw [e, startsStar_dot_cons, if_pos ⟨hc.1, by simp⟩]
    · have e : normName a = joinDots (labelsNE a) := by
        unfold normName; rw [if_neg ha]; simp only []; rw [if_neg hc]
      rw [e, if_neg (fun h => h.2 h.1)]

theorem splitDots_normName_sub (a : Bytes) : ∀ l ∈ splitDots (normName a), l = [] ∨ l ∈ splitDots a := by
  have key : ∀ l ∈ splitDots (joinDots (labelsNE a)), l = [] ∨ l ∈ splitDots a := by
    intro l hl
    by_cases h : labelsNE a = []
    · rw [h] at hl; simp [joinDots, splitDots] at hl; exact Or.inl hl
    · rw [splitDots_join_labelsNE a h] at hl
      exact Or.inr (mem_labelsNE hl).1
  unfold normName
  by_cases ha : a = [0x2e]
  · rw [if_pos ha, ha]; intro l hl; exact Or.inr hl
  · rw [if_neg ha]
    simp only []
    split
    · rw [splitDots_cons_dot]
      intro l hl
      simp only [List.mem_cons] at hl
      rcases hl with rfl | hl
      · exact Or.inl rfl
      · exact key l hl
    · exact key

theorem shortLabels_of_sub {isPrint : Nat → Bool} {a b : Bytes} (hs : ShortLabels isPrint a)
    (h : ∀ l ∈ splitDots b, l = [] ∨ l ∈ splitDots a) : ShortLabels isPrint b := by
  intro l hl
  rcases h l hl with rfl | h'
  · rw [Quote.bquote_nil]; decide
  · exact hs l h'

theorem shortLabels_normName {isPrint : Nat → Bool} {a : Bytes} (hs : ShortLabels isPrint a) :
    ShortLabels isPrint (normName a) := shortLabels_of_sub hs (splitDots_normName_sub a)

/-- the normal form is `Plain`: `putdomtext` writes it as it is -/
theorem plain_normName {isPrint : Nat → Bool} (hp : PrintsDotStar isPrint) {a : Bytes}
    (hs : ShortLabels isPrint a) : Plain isPrint (normName a) := by
  unfold Plain
  rw [domText_eq hp _ (shortLabels_normName hs), normName_idem]

theorem domText_normName {isPrint : Nat → Bool} (hp : PrintsDotStar isPrint) {a : Bytes}
    (hs : ShortLabels isPrint a) : domText isPrint (normName a) = domText isPrint a := by
  rw [plain_normName hp hs, domText_eq hp a hs]

theorem noStar_normName {a : Bytes} (h : NoStar a) : NoStar (normName a) := by
  have hsa : startsStar a = false := by
    cases hx : startsStar a with
    | false => rfl
    | true => obtain ⟨rest, e⟩ := (startsStar_iff a).mp hx; exact absurd e (h rest)
  apply noStar_of_startsStar
  unfold normName
  by_cases ha : a = [0x2e]
  · rw [if_pos ha]; rfl
  · rw [if_neg ha]
    simp only []
    cases hn : startsStar (joinDots (labelsNE a)) with
    | false => simp [hn]
    | true => rw [if_pos ⟨rfl, by simp [hsa]⟩]; rfl


/-! ### server names -/

theorem contains_dot_bquote {isPrint : Nat → Bool} (hp : PrintsDotStar isPrint) (n : Bytes) :
    (Quote.bquote isPrint n).contains 0x2e = n.contains 0x2e := by
  cases h : n.contains 0x2e with
  | true =>
    rw [List.contains_iff_mem] at h ⊢
    exact Quote.bquote_mem_plain isPrint 0x2e (Or.inl rfl) hp.1 n h
  | false =>
    have hn : (0x2e : UInt8) ∉ n := by
      intro hm; rw [← List.contains_iff_mem, h] at hm; cases hm
    have := bquote_dotfree isPrint n hn
    rw [← List.contains_iff_mem] at this
    simpa using this

/-- **`putservertext` writes the quoted normal form** -/
theorem serverText_eq {isPrint : Nat → Bool} (hp : PrintsDotStar isPrint) (a : Bytes)
    (hs : ShortLabels isPrint a) : serverText isPrint a = Quote.bquote isPrint (normServer a) := by
  unfold serverText normServer
  simp only []
  rw [domText_eq hp a hs, contains_dot_bquote hp]
  split
  · rfl
  · rw [bquote_append_dot hp, Quote.bquote_nil]

theorem normServer_contains (a : Bytes) : (normServer a).contains 0x2e = true := by
  unfold normServer
  simp only []
  split
  · assumption
  · rw [List.contains_iff_mem]; simp

theorem not_startsStar_of_dotfree {n : Bytes} (h : (0x2e : UInt8) ∉ n) : startsStar n = false := by
  cases hx : startsStar n with
  | false => rfl
  | true => obtain ⟨rest, e⟩ := (startsStar_iff n).mp hx; subst e; simp at h

theorem normName_dotfree_dot {n : Bytes} (h : (0x2e : UInt8) ∉ n) (hne : n ≠ []) :
    normName (n ++ [0x2e]) = n := by
  have hm : n ++ [0x2e] ≠ [0x2e] := by
    intro e
    have := congrArg List.length e
    cases n with
    | nil => exact hne rfl
    | cons x xs => simp at this
  have hl : labelsNE (n ++ [0x2e]) = [n] := by
    rw [labelsNE_def, splitDots_append_dot n [] h]
    cases n with
    | nil => exact absurd rfl hne
    | cons x xs => rfl
  rw [normName_of_ne hm, hl]
  have : joinDots [n] = n := rfl
  rw [this, not_startsStar_of_dotfree h]
  simp

theorem normServer_idem (a : Bytes) : normServer (normServer a) = normServer a := by
  by_cases hc : (normName a).contains 0x2e = true
  · have e : normServer a = normName a := by unfold normServer; simp only []; rw [if_pos hc]
    rw [e]
    unfold normServer
    simp only []
    rw [normName_idem, if_pos hc]
  · have e : normServer a = normName a ++ [0x2e] := by unfold normServer; simp only []; rw [if_neg hc]
    have hd : (0x2e : UInt8) ∉ normName a := by rw [← List.contains_iff_mem]; exact hc
    rw [e]
    by_cases hne : normName a = []
    · rw [hne]; rfl
    · unfold normServer
      simp only []
      rw [normName_dotfree_dot hd hne, if_neg hc]

theorem splitDots_normServer_sub (a : Bytes) :
    ∀ l ∈ splitDots (normServer a), l = [] ∨ l ∈ splitDots a := by
  by_cases hc : (normName a).contains 0x2e = true
  · have e : normServer a = normName a := by unfold normServer; simp only []; rw [if_pos hc]
    rw [e]; exact splitDots_normName_sub a
  · have e : normServer a = normName a ++ [0x2e] := by unfold normServer; simp only []; rw [if_neg hc]
    have hd : (0x2e : UInt8) ∉ normName a := by rw [← List.contains_iff_mem]; exact hc
    rw [e, splitDots_append_dot _ _ hd]
    intro l hl
    simp only [splitDots, List.mem_cons, List.not_mem_nil, or_false] at hl
    rcases hl with rfl | rfl
    · exact splitDots_normName_sub a _ (by rw [splitDots_dotfree_single _ hd]; simp)
    · exact Or.inl rfl

theorem labelsNE_normServer (a : Bytes) : labelsNE (normServer a) = labelsNE a := by
  by_cases hc : (normName a).contains 0x2e = true
  · have e : normServer a = normName a := by unfold normServer; simp only []; rw [if_pos hc]
    rw [e, labelsNE_normName]
  · have e : normServer a = normName a ++ [0x2e] := by unfold normServer; simp only []; rw [if_neg hc]
    have hd : (0x2e : UInt8) ∉ normName a := by rw [← List.contains_iff_mem]; exact hc
    rw [e, ← labelsNE_normName a, labelsNE_def, labelsNE_def, splitDots_append_dot _ _ hd,
      splitDots_dotfree_single _ hd]
    simp [splitDots, List.filter_cons]

theorem shortLabels_normServer {isPrint : Nat → Bool} {a : Bytes} (hs : ShortLabels isPrint a) :
    ShortLabels isPrint (normServer a) := shortLabels_of_sub hs (splitDots_normServer_sub a)

theorem plainServer_normServer {isPrint : Nat → Bool} (hp : PrintsDotStar isPrint) {a : Bytes}
    (hs : ShortLabels isPrint a) : PlainServer isPrint (normServer a) := by
  unfold PlainServer
  rw [serverText_eq hp _ (shortLabels_normServer hs), normServer_idem]

theorem serverText_normServer {isPrint : Nat → Bool} (hp : PrintsDotStar isPrint) {a : Bytes}
    (hs : ShortLabels isPrint a) : serverText isPrint (normServer a) = serverText isPrint a := by
  rw [plainServer_normServer hp hs, serverText_eq hp a hs]

/-! ### map names -/

theorem mapDomText_star (isPrint : Nat → Bool) (rest : Bytes) :
    mapDomText isPrint (0x2a :: 0x2e :: rest) = [0x2a, 0x2e] ++ domText isPrint rest := rfl

theorem mapDomText_noStar (isPrint : Nat → Bool) {a : Bytes} (h : NoStar a) :
    mapDomText isPrint a = domText isPrint a := by
  unfold mapDomText
  split
  · exact absurd rfl (h _)
  · rfl

theorem normMap_star (rest : Bytes) : normMap (0x2a :: 0x2e :: rest) = [0x2a, 0x2e] ++ normName rest := rfl

theorem normMap_noStar {a : Bytes} (h : NoStar a) : normMap a = normName a := by
  unfold normMap
  split
  · exact absurd rfl (h _)
  · rfl

theorem star_or_noStar (a : Bytes) : (∃ rest, a = 0x2a :: 0x2e :: rest) ∨ NoStar a := by
  cases hx : startsStar a with
  | true => exact Or.inl ((startsStar_iff a).mp hx)
  | false => exact Or.inr (noStar_of_startsStar hx)

theorem splitDots_star (rest : Bytes) : splitDots (0x2a :: 0x2e :: rest) = [0x2a] :: splitDots rest :=
  splitDots_append_dot [0x2a] rest (by decide)

theorem shortLabels_star {isPrint : Nat → Bool} {rest : Bytes}
    (hs : ShortLabels isPrint (0x2a :: 0x2e :: rest)) : ShortLabels isPrint rest := by
  intro l hl
  exact hs l (by rw [splitDots_star]; simp [hl])

theorem bquote_star_dot {isPrint : Nat → Bool} (hp : PrintsDotStar isPrint) (x : Bytes) :
    Quote.bquote isPrint (0x2a :: 0x2e :: x) = [0x2a, 0x2e] ++ Quote.bquote isPrint x := by
  rw [bquote_star_cons hp, bquote_dot_cons hp]; rfl

/-- **`putmapdomtext` writes the quoted normal form** -/
theorem mapDomText_eq {isPrint : Nat → Bool} (hp : PrintsDotStar isPrint) (a : Bytes)
    (hs : ShortLabels isPrint a) : mapDomText isPrint a = Quote.bquote isPrint (normMap a) := by
  rcases star_or_noStar a with ⟨rest, rfl⟩ | hn
  · rw [mapDomText_star, normMap_star, domText_eq hp rest (shortLabels_star hs)]
    exact (bquote_star_dot hp _).symm
  · rw [mapDomText_noStar isPrint hn, normMap_noStar hn, domText_eq hp a hs]

theorem normMap_idem (a : Bytes) : normMap (normMap a) = normMap a := by
  rcases star_or_noStar a with ⟨rest, rfl⟩ | hn
  · rw [normMap_star]
    change normMap (0x2a :: 0x2e :: normName rest) = _
    rw [normMap_star, normName_idem]
  · rw [normMap_noStar hn, normMap_noStar (noStar_normName hn), normName_idem]

theorem shortLabels_normMap {isPrint : Nat → Bool} {a : Bytes} (hs : ShortLabels isPrint a) :
    ShortLabels isPrint (normMap a) := by
  rcases star_or_noStar a with ⟨rest, rfl⟩ | hn
  · rw [normMap_star]
    change ShortLabels isPrint (0x2a :: 0x2e :: normName rest)
    intro l hl
    rw [splitDots_star] at hl
    simp only [List.mem_cons] at hl
    rcases hl with rfl | hl
    · exact hs _ (by rw [splitDots_star]; simp)
    · exact shortLabels_normName (shortLabels_star hs) l hl
  · rw [normMap_noStar hn]; exact shortLabels_normName hs

theorem plainMap_normMap {isPrint : Nat → Bool} (hp : PrintsDotStar isPrint) {a : Bytes}
    (hs : ShortLabels isPrint a) : PlainMap isPrint (normMap a) := by
  unfold PlainMap
  rw [mapDomText_eq hp _ (shortLabels_normMap hs), normMap_idem]

theorem mapDomText_normMap {isPrint : Nat → Bool} (hp : PrintsDotStar isPrint) {a : Bytes}
    (hs : ShortLabels isPrint a) : mapDomText isPrint (normMap a) = mapDomText isPrint a := by
  rw [plainMap_normMap hp hs, mapDomText_eq hp a hs]

/-! ### `B` / `H` targets -/

theorem starKept {isPrint : Nat → Bool} (hp : PrintsDotStar isPrint) (d : Bytes) : StarKept isPrint d := by
  intro h; rw [startsStar_bquote hp]; exact h

theorem tgtText_normName {isPrint : Nat → Bool} (hp : PrintsDotStar isPrint) {a : Bytes}
    (hs : ShortLabels isPrint a) : tgtText isPrint (normName a) = tgtText isPrint a := by
  unfold tgtText
  rw [domText_normName hp hs]


/-! ### the compiled keys and values see only the non-empty labels -/

theorem flatMap_filter_ne (f : Bytes → Bytes) (hf : f [] = []) (L : List Bytes) :
    (L.filter (fun l => !l.isEmpty)).flatMap f = L.flatMap f := by
  induction L with
  | nil => rfl
  | cons a r ih =>
    cases a with
    | nil => simp [List.filter_cons, hf, ih]
    | cons x xs => simp [List.filter_cons, ih]

theorem putdom_labelsNE (a : Bytes) : putdom a = (labelsNE a).flatMap putLabel ++ [0] := by
  unfold putdom labelsNE
  rw [flatMap_filter_ne putLabel rfl]

theorem putreverseddom_labelsNE (a : Bytes) :
    putreverseddom a = (labelsNE a).reverse.flatMap putLabelRev ++ [0] := by
  unfold putreverseddom labelsNE
  rw [← List.filter_reverse, flatMap_filter_ne putLabelRev rfl]

theorem lowerByte_dot (c : UInt8) : lowerByte c = 0x2e ↔ c = 0x2e := by
  have key : ∀ k : Fin 256, lowerByte (UInt8.ofNat k.val) = 0x2e ↔ UInt8.ofNat k.val = 0x2e := by
    decide +kernel
  have := key ⟨c.toNat, c.toNat_lt⟩
  simpa using this

theorem toLower_cons (c : UInt8) (rest : Bytes) : toLower (c :: rest) = lowerByte c :: toLower rest := rfl

theorem splitDots_toLower (a : Bytes) : splitDots (toLower a) = (splitDots a).map toLower := by
  induction a with
  | nil => rfl
  | cons c rest ih =>
    rw [toLower_cons]
    by_cases hc : c = 0x2e
    · subst hc
      have : lowerByte 0x2e = 0x2e := by decide
      rw [this, splitDots_cons_dot, splitDots_cons_dot, ih]; rfl
    · have hc' : lowerByte c ≠ 0x2e := fun e => hc ((lowerByte_dot c).mp e)
      obtain ⟨l, ls, h1, h2⟩ := splitDots_cons_ne c rest hc
      obtain ⟨l', ls', h1', h2'⟩ := splitDots_cons_ne (lowerByte c) (toLower rest) hc'
      rw [h2, h2']
      rw [ih, h1] at h1'
      simp only [List.map_cons, List.cons.injEq] at h1'
      rw [← h1'.1, ← h1'.2]
      rfl

theorem labelsNE_toLower (a : Bytes) : labelsNE (toLower a) = (labelsNE a).map toLower := by
  unfold labelsNE
  rw [splitDots_toLower, List.filter_map]
  congr 1
  apply List.filter_congr
  intro l _
  simp [toLower]

structure SameLabels (a b : Bytes) : Prop where
  eq : labelsNE a = labelsNE b

theorem SameLabels.putdom {a b : Bytes} (h : SameLabels a b) : putdom a = putdom b := by
  rw [putdom_labelsNE, putdom_labelsNE, h.eq]

theorem SameLabels.putreverseddom {a b : Bytes} (h : SameLabels a b) : putreverseddom a = putreverseddom b := by
  rw [putreverseddom_labelsNE, putreverseddom_labelsNE, h.eq]

theorem SameLabels.toLower {a b : Bytes} (h : SameLabels a b) : SameLabels (toLower a) (toLower b) :=
  ⟨by rw [labelsNE_toLower, labelsNE_toLower, h.eq]⟩

theorem SameLabels.domainKey {a b : Bytes} (h : SameLabels a b) (cfg : Cfg) (lo : Option Bytes) :
    domainKey cfg a lo = domainKey cfg b lo := by
  unfold Codec.domainKey
  simp only []
  rw [h.toLower.putdom, h.toLower.putreverseddom]

theorem SameLabels.addrRecord {a b : Bytes} (h : SameLabels a b) (cfg : Cfg) (wild : Bool)
    (ip : Option (List UInt8)) (ttl : Nat) (lo : Option Bytes) (weight : Nat) :
    addrRecord cfg a wild ip ttl lo weight = addrRecord cfg b wild ip ttl lo weight := by
  unfold Codec.addrRecord
  rw [h.domainKey]

theorem SameLabels.prefix {a b : Bytes} (h : SameLabels a b) (p : Bytes) (hp : (0x2e : UInt8) ∉ p) :
    SameLabels (p ++ 0x2e :: a) (p ++ 0x2e :: b) :=
  ⟨by rw [labelsNE_def, labelsNE_def, splitDots_append_dot _ _ hp, splitDots_append_dot _ _ hp,
        List.filter_cons, List.filter_cons, ← labelsNE_def, ← labelsNE_def, h.eq]⟩

theorem sameLabels_normName (a : Bytes) : SameLabels (normName a) a := ⟨labelsNE_normName a⟩
theorem sameLabels_normServer (a : Bytes) : SameLabels (normServer a) a := ⟨labelsNE_normServer a⟩

theorem mapKey_star (cfg : Cfg) (id x : Bytes) :
    mapKey cfg id (0x2a :: 0x2e :: x)
      = id ++ (if cfg.useV2Keys then putreverseddom (toLower x) else putdom (toLower x)) ++ [0x2a] := rfl

theorem mapKey_noStar (cfg : Cfg) (id : Bytes) {a : Bytes} (h : NoStar a) :
    mapKey cfg id a
      = id ++ (if cfg.useV2Keys then putreverseddom (toLower a) else putdom (toLower a)) ++ [0x3d] := by
  unfold mapKey
  split
  · rename_i d suffix heq
    split at heq
    · exact absurd rfl (h _)
    · cases heq; rfl

theorem mapKey_normMap (cfg : Cfg) (id a : Bytes) : mapKey cfg id (normMap a) = mapKey cfg id a := by
  rcases star_or_noStar a with ⟨rest, rfl⟩ | hn
  · rw [normMap_star]
    change mapKey cfg id (0x2a :: 0x2e :: normName rest) = _
    rw [mapKey_star, mapKey_star, (sameLabels_normName rest).toLower.putdom,
      (sameLabels_normName rest).toLower.putreverseddom]
  · rw [normMap_noStar hn, mapKey_noStar cfg id hn, mapKey_noStar cfg id (noStar_normName hn),
      (sameLabels_normName a).toLower.putdom, (sameLabels_normName a).toLower.putreverseddom]

/-! ### records -/

/-- the record a marshalled line decodes to: every name in the normal form its writer produces; a
range point without location keeps no mask length -/
def normRec : Record → Record
  | .soa dom ns adm ser ref ret exp min ttl lo =>
    .soa (normName dom) (normName ns) (normName adm) ser ref ret exp min ttl lo
  | .net lo ip ones lmap => .net lo ip ones lmap
  | .dot dom ip ns ttl lo => .dot (normName dom) ip (normServer ns) ttl lo
  | .ns dom ip ns ttl lo => .ns (normName dom) ip (normServer ns) ttl lo
  | .addr dom wild ip ttl lo weight => .addr (normName dom) wild ip ttl lo weight
  | .paddr dom wild ip ttl lo => .paddr (normName dom) wild ip ttl lo
  | .mx dom ip mx dist ttl lo => .mx (normName dom) ip (normServer mx) dist ttl lo
  | .srv dom ip srv port pri weight ttl lo => .srv (normName dom) ip (normServer srv) port pri weight ttl lo
  | .cname dom wild cname ttl lo => .cname (normName dom) wild (normName cname) ttl lo
  | .ptr dom host ttl lo => .ptr (normName dom) (normName host) ttl lo
  | .txt dom wild txt ttl lo => .txt (normName dom) wild txt ttl lo
  | .aux dom rtype rdata ttl lo => .aux (normName dom) rtype rdata ttl lo
  | .ipmap dom lmap => .ipmap (normMap dom) lmap
  | .csmap dom lmap => .csmap (normMap dom) lmap
  | .rangepoint lmap ip maskLen loc => .rangepoint lmap ip (if loc.isSome then maskLen else 0) loc
  | .svcb https dom wild tgt ttl lo prio params =>
    .svcb https (normName dom) wild (normName tgt) ttl lo prio params

/-- numbers in range, 2-byte ids, a wildcard flag that is set whenever the kept name still begins
with `*.`: true of every record the line decoder yields (`struct_of_parse`) -/
def Struct (cfg : Cfg) : Record → Prop
  | .soa _ _ _ ser ref ret exp min ttl lo =>
    ser < 2 ^ 32 ∧ ref < 2 ^ 32 ∧ ret < 2 ^ 32 ∧ exp < 2 ^ 32 ∧ min < 2 ^ 32 ∧ ttl < 2 ^ 32 ∧ LocOK lo
  | .net lo _ _ lmap => LocOK lo ∧ lmap.length = 2 ∧ (cfg.ranger = true → lo.isSome = true)
  | .dot _ _ _ ttl lo | .ns _ _ _ ttl lo => ttl < 2 ^ 32 ∧ LocOK lo
  | .addr dom wild _ ttl lo weight => (wild = false → NoStar dom) ∧ ttl < 2 ^ 32 ∧ LocOK lo ∧ weight < 2 ^ 32
  | .paddr dom wild _ ttl lo => (wild = false → NoStar dom) ∧ ttl < 2 ^ 32 ∧ LocOK lo
  | .mx _ _ _ dist ttl lo => dist < 2 ^ 32 ∧ ttl < 2 ^ 32 ∧ LocOK lo
  | .srv _ _ _ port pri weight ttl lo =>
    port < 2 ^ 16 ∧ pri < 2 ^ 16 ∧ weight < 2 ^ 16 ∧ ttl < 2 ^ 32 ∧ LocOK lo
  | .cname dom wild _ ttl lo => (wild = false → NoStar dom) ∧ ttl < 2 ^ 32 ∧ LocOK lo
  | .ptr _ _ ttl lo => ttl < 2 ^ 32 ∧ LocOK lo
  | .txt dom wild _ ttl lo => (wild = false → NoStar dom) ∧ ttl < 2 ^ 32 ∧ LocOK lo
  | .aux _ rtype _ ttl lo => rtype < 2 ^ 16 ∧ ttl < 2 ^ 32 ∧ LocOK lo
  | .ipmap _ lmap | .csmap _ lmap => lmap.length = 2
  | .rangepoint lmap _ maskLen loc => lmap.length = 2 ∧ maskLen < 256 ∧ LocOK loc
  | .svcb _ dom wild _ ttl lo prio _ => (wild = false → NoStar dom) ∧ ttl < 2 ^ 32 ∧ LocOK lo ∧ prio < 2 ^ 16

/-- no name of the record has a label whose quoted form reaches 256 bytes -/
def NamesShort (isPrint : Nat → Bool) : Record → Prop
  | .soa dom ns adm _ _ _ _ _ _ _ => ShortLabels isPrint dom ∧ ShortLabels isPrint ns ∧ ShortLabels isPrint adm
  | .net _ _ _ _ => True
  | .dot dom _ ns _ _ | .ns dom _ ns _ _ => ShortLabels isPrint dom ∧ ShortLabels isPrint ns
  | .addr dom _ _ _ _ _ => ShortLabels isPrint dom
  | .paddr dom _ _ _ _ => ShortLabels isPrint dom
  | .mx dom _ mx _ _ _ => ShortLabels isPrint dom ∧ ShortLabels isPrint mx
  | .srv dom _ srv _ _ _ _ _ => ShortLabels isPrint dom ∧ ShortLabels isPrint srv
  | .cname dom _ cname _ _ => ShortLabels isPrint dom ∧ ShortLabels isPrint cname
  | .ptr dom host _ _ => ShortLabels isPrint dom ∧ ShortLabels isPrint host
  | .txt dom _ _ _ _ => ShortLabels isPrint dom
  | .aux dom _ _ _ _ => ShortLabels isPrint dom
  | .ipmap dom _ | .csmap dom _ => ShortLabels isPrint dom
  | .rangepoint _ _ _ _ => True
  | .svcb _ dom _ tgt _ _ _ _ => ShortLabels isPrint dom ∧ ShortLabels isPrint tgt

/-- the library round trips that are taken as given (`net.IP` / `net.IPNet` / `svcb.ParamList`
text, validated by the correspondence runs and, for the parameter lists, C18's subject) -/
def LibOK : Record → Prop
  | .net _ ip ones _ => parseIPNet (ipnetText ip ones) = some (ip, ones) ∧ (0x2c : UInt8) ∉ ipnetText ip ones
  | .dot _ ip _ _ _ | .ns _ ip _ _ _ => IpOK ip
  | .addr _ _ ip _ _ _ => IpOK ip
  | .paddr _ _ ip _ _ => IpOK ip
  | .mx _ ip _ _ _ _ => IpOK ip
  | .srv _ ip _ _ _ _ _ _ => IpOK ip
  | .rangepoint _ ip _ _ => parseIP (Svcb.ipString ip) = some ip ∧ (0x2c : UInt8) ∉ Svcb.ipString ip
  | .svcb _ _ _ _ _ _ _ params => ParamsOK params
  | _ => True

/-- the normalised record is well-formed in the sense of `WF` (its names are `Plain`) -/
theorem normRec_WF {isPrint : Nat → Bool} (hp : PrintsDotStar isPrint) (cfg : Cfg) (r : Record)
    (hst : Struct cfg r) (hn : NamesShort isPrint r) (hl : LibOK r) : WF isPrint cfg (normRec r) := by
  cases r with
  | soa dom ns adm ser ref ret exp min ttl lo =>
    obtain ⟨h1, h2, h3, h4, h5, h6, h7⟩ := hst
    exact ⟨plain_normName hp hn.1, plain_normName hp hn.2.1, plain_normName hp hn.2.2, h1, h2, h3, h4, h5, h6, h7⟩
  | net lo ip ones lmap => exact ⟨hst.1, hl.1, hl.2, hst.2.1, hst.2.2⟩
  | dot dom ip ns ttl lo =>
    exact ⟨plain_normName hp hn.1, hl, plainServer_normServer hp hn.2, normServer_contains ns, hst.1, hst.2⟩
  | ns dom ip ns ttl lo =>
    exact ⟨plain_normName hp hn.1, hl, plainServer_normServer hp hn.2, normServer_contains ns, hst.1, hst.2⟩
  | addr dom wild ip ttl lo weight =>
    exact ⟨plain_normName hp hn, fun h => noStar_normName (hst.1 h), hl, hst.2.1, hst.2.2.1, hst.2.2.2⟩
  | paddr dom wild ip ttl lo =>
    exact ⟨plain_normName hp hn, fun h => noStar_normName (hst.1 h), hl, hst.2.1, hst.2.2⟩
  | mx dom ip mx dist ttl lo =>
    exact ⟨plain_normName hp hn.1, hl, plainServer_normServer hp hn.2, normServer_contains mx, hst.1, hst.2.1, hst.2.2⟩
  | srv dom ip srv port pri weight ttl lo =>
    exact ⟨plain_normName hp hn.1, hl, plainServer_normServer hp hn.2, normServer_contains srv, hst.1, hst.2.1,
      hst.2.2.1, hst.2.2.2.1, hst.2.2.2.2⟩
  | cname dom wild cname ttl lo =>
    exact ⟨plain_normName hp hn.1, fun h => noStar_normName (hst.1 h), plain_normName hp hn.2, hst.2.1, hst.2.2⟩
  | ptr dom host ttl lo => exact ⟨plain_normName hp hn.1, plain_normName hp hn.2, hst.1, hst.2⟩
  | txt dom wild txt ttl lo =>
    exact ⟨plain_normName hp hn, fun h => noStar_normName (hst.1 h), hst.2.1, hst.2.2⟩
  | aux dom rtype rdata ttl lo => exact ⟨plain_normName hp hn, hst.1, hst.2.1, hst.2.2⟩
  | ipmap dom lmap => exact ⟨plainMap_normMap hp hn, hst⟩
  | csmap dom lmap => exact ⟨plainMap_normMap hp hn, hst⟩
  | rangepoint lmap ip maskLen loc =>
    refine ⟨hst.1, hl.1, hl.2, ?_, hst.2.2, ?_⟩
    · cases loc <;> simp [hst.2.1]
    · intro h; subst h; rfl
  | svcb https dom wild tgt ttl lo prio params =>
    exact ⟨plain_normName hp hn.1, fun h => noStar_normName (hst.1 h), plain_normName hp hn.2,
      starKept hp _, hst.2.1, hst.2.2.1, hst.2.2.2, hl⟩

/-- the normalised record is written as the same text -/
theorem marshalText_normRec {isPrint : Nat → Bool} (hp : PrintsDotStar isPrint) (cfg : Cfg) (r : Record)
    (hn : NamesShort isPrint r) : marshalText isPrint cfg (normRec r) = marshalText isPrint cfg r := by
  unfold marshalText
  have : marshalFields isPrint cfg (normRec r) = marshalFields isPrint cfg r := by
    cases r with
    | soa dom ns adm ser ref ret exp min ttl lo =>
      simp only [normRec, marshalFields, domText_normName hp hn.1, domText_normName hp hn.2.1,
        domText_normName hp hn.2.2]
    | net lo ip ones lmap => rfl
    | dot dom ip ns ttl lo =>
      simp only [normRec, marshalFields, domText_normName hp hn.1, serverText_normServer hp hn.2]
    | ns dom ip ns ttl lo =>
      simp only [normRec, marshalFields, domText_normName hp hn.1, serverText_normServer hp hn.2]
    | addr dom wild ip ttl lo weight => simp only [normRec, marshalFields, domText_normName hp hn]
    | paddr dom wild ip ttl lo => simp only [normRec, marshalFields, domText_normName hp hn]
    | mx dom ip mx dist ttl lo =>
      simp only [normRec, marshalFields, domText_normName hp hn.1, serverText_normServer hp hn.2]
    | srv dom ip srv port pri weight ttl lo =>
      simp only [normRec, marshalFields, domText_normName hp hn.1, serverText_normServer hp hn.2]
    | cname dom wild cname ttl lo =>
      simp only [normRec, marshalFields, domText_normName hp hn.1, domText_normName hp hn.2]
    | ptr dom host ttl lo =>
      simp only [normRec, marshalFields, domText_normName hp hn.1, domText_normName hp hn.2]
    | txt dom wild txt ttl lo => simp only [normRec, marshalFields, domText_normName hp hn]
    | aux dom rtype rdata ttl lo => simp only [normRec, marshalFields, domText_normName hp hn]
    | ipmap dom lmap => simp only [normRec, marshalFields, mapDomText_normMap hp hn]
    | csmap dom lmap => simp only [normRec, marshalFields, mapDomText_normMap hp hn]
    | rangepoint lmap ip maskLen loc => cases loc <;> rfl
    | svcb https dom wild tgt ttl lo prio params =>
      simp only [normRec, marshalFields, domText_normName hp hn.1, tgtText_normName hp hn.2]
  rw [this]

theorem hostmaster_dotfree : (0x2e : UInt8) ∉ "hostmaster".toUTF8.toList := by decide +kernel

/-- the normalised record compiles to the same keys and values (for every record) -/
theorem recordKVs_normRec (cfg : Cfg) (r : Record) : recordKVs cfg (normRec r) = recordKVs cfg r := by
  cases r with
  | soa dom ns adm ser ref ret exp min ttl lo =>
    simp only [normRec, recordKVs, soaValue, (sameLabels_normName dom).domainKey,
      (sameLabels_normName ns).putdom, (sameLabels_normName adm).putdom]
  | net lo ip ones lmap => rfl
  | dot dom ip ns ttl lo =>
    have h : putdom ("hostmaster".toUTF8.toList ++ [0x2e] ++ normName dom)
        = putdom ("hostmaster".toUTF8.toList ++ [0x2e] ++ dom) := by
      rw [List.append_assoc, List.append_assoc]
      exact ((sameLabels_normName dom).prefix _ hostmaster_dotfree).putdom
    simp only [normRec, recordKVs, nsKVs, soaValue, (sameLabels_normName dom).domainKey,
      (sameLabels_normServer ns).putdom, (sameLabels_normServer ns).addrRecord, h]
  | ns dom ip ns ttl lo =>
    simp only [normRec, recordKVs, nsKVs, (sameLabels_normName dom).domainKey,
      (sameLabels_normServer ns).putdom, (sameLabels_normServer ns).addrRecord]
  | addr dom wild ip ttl lo weight =>
    simp only [normRec, recordKVs, (sameLabels_normName dom).addrRecord]
  | paddr dom wild ip ttl lo =>
    have h := ((sameLabels_normName dom).prefix [0x2a] (by decide)).putdom
    simp only [List.singleton_append] at h
    cases wild <;>
    simp only [normRec, recordKVs, (sameLabels_normName dom).addrRecord, (sameLabels_normName dom).putdom,
      List.cons_append, List.nil_append, h, if_true, if_false, Bool.false_eq_true]
  | mx dom ip mx dist ttl lo =>
    simp only [normRec, recordKVs, (sameLabels_normName dom).domainKey,
      (sameLabels_normServer mx).putdom, (sameLabels_normServer mx).addrRecord]
  | srv dom ip srv port pri weight ttl lo =>
    simp only [normRec, recordKVs, (sameLabels_normName dom).domainKey,
      (sameLabels_normServer srv).putdom, (sameLabels_normServer srv).addrRecord]
  | cname dom wild cname ttl lo =>
    simp only [normRec, recordKVs, (sameLabels_normName dom).domainKey, (sameLabels_normName cname).putdom]
  | ptr dom host ttl lo =>
    simp only [normRec, recordKVs, (sameLabels_normName dom).domainKey, (sameLabels_normName host).putdom]
  | txt dom wild txt ttl lo => simp only [normRec, recordKVs, (sameLabels_normName dom).domainKey]
  | aux dom rtype rdata ttl lo => simp only [normRec, recordKVs, (sameLabels_normName dom).domainKey]
  | ipmap dom lmap => simp only [normRec, recordKVs, mapKey_normMap]
  | csmap dom lmap => simp only [normRec, recordKVs, mapKey_normMap]
  | rangepoint lmap ip maskLen loc => cases loc <;> rfl
  | svcb https dom wild tgt ttl lo prio params =>
    simp only [normRec, recordKVs, (sameLabels_normName dom).domainKey, (sameLabels_normName tgt).putdom]

theorem recordSubnet_normRec (r : Record) : recordSubnet (normRec r) = recordSubnet r := by
  cases r <;> rfl

theorem normRec_idem (r : Record) : normRec (normRec r) = normRec r := by
  cases r with
  | rangepoint lmap ip maskLen loc => cases loc <;> rfl
  | _ => simp only [normRec, normName_idem, normServer_idem, normMap_idem]


/-! ### what the line decoder yields -/

theorem getloc_locOK {b : Bytes} {lo : Option Bytes} (h : getloc b = .ok lo) : LocOK lo := by
  unfold getloc at h
  split at h
  · cases h
  · split at h
    · cases h; intro l hl; cases hl; assumption
    · cases h; intro l hl; cases hl

theorem parseUint_go_lt (bits : Nat) : ∀ (s : Bytes) (acc n : Nat), acc < 2 ^ bits →
    parseUint.go bits s acc = some n → n < 2 ^ bits := by
  intro s
  induction s with
  | nil => intro acc n ha h; simp only [parseUint.go, Option.some.injEq] at h; omega
  | cons c rest ih =>
    intro acc n ha h
    simp only [parseUint.go] at h
    split at h
    · split at h
      · exact ih _ _ ‹_› h
      · cases h
    · cases h

theorem getuint_lt (bits : Nat) (b : Bytes) (d : Nat) (hd : d < 2 ^ bits) : getuint bits b d < 2 ^ bits := by
  unfold getuint
  cases hp : parseUint bits b with
  | none => exact hd
  | some n =>
    unfold parseUint at hp
    split at hp
    · cases hp
    · exact parseUint_go_lt bits b 0 n (Nat.pos_of_ne_zero (by simp)) hp

theorem getdom_noStar {b d : Bytes} {w : Bool} (h : getdom b = (d, w)) : w = false → NoStar d := by
  unfold getdom at h
  simp only [] at h
  split at h
  · cases h; intro hw; cases hw
  · rename_i hne
    cases h
    intro _ rest e
    exact hne rest e

theorem getdom_noStar' (b : Bytes) : (getdom b).2 = false → NoStar (getdom b).1 :=
  getdom_noStar (b := b) rfl

macro "st_close" : tactic => `(tactic|
  (repeat' apply And.intro
   all_goals first
     | exact getuint_lt _ _ _ (by decide)
     | exact getuint_lt _ _ _ (by assumption)
     | exact getloc_locOK (by assumption)
     | exact getdom_noStar (by assumption)
     | exact getdom_noStar' _
     | exact Nat.mod_lt _ (by decide)
     | rfl))

macro "st_case" h:ident : tactic => `(tactic|
  (simp (decide := true) only [parseRecord, parseRangePoint, if_true, if_false, ite_true, ite_false,
      ↓reduceIte, or_self, or_false, false_or, true_or, or_true] at $h:ident
   repeat' split at $h:ident
   all_goals first
     | (cases $h:ident; st_close; done)
     | cases $h:ident))

/-- every record the line decoder yields has its numbers in range, 2-byte ids and a wildcard flag
consistent with its name (the codec's default serial is a `uint32`) -/
theorem struct_of_parse (cfg : Cfg) (hser : cfg.serial < 2 ^ 32) (text : Bytes) (r : Record)
    (h : parseRecord cfg text = .ok r) : Struct cfg r := by
  cases text with
  | nil => simp [parseRecord] at h
  | cons t rest =>
  by_cases h1 : t = 0x25
  · subst h1
    simp (decide := true) only [parseRecord, if_true, ↓reduceIte] at h
    repeat' split at h
    all_goals first
      | cases h
      | skip
    rename_i hc
    refine ⟨getloc_locOK (by assumption), rfl, ?_⟩
    intro hr
    cases hlo : (‹Option Bytes› : Option Bytes) with
    | some _ => rfl
    | none => exact absurd ⟨hr, by rw [hlo]; rfl⟩ hc
  by_cases h2 : t = 0x5a; · subst h2; st_case h
  by_cases h3 : t = 0x2e; · subst h3; st_case h
  by_cases h4 : t = 0x26; · subst h4; st_case h
  by_cases h5 : t = 0x2b; · subst h5; st_case h
  by_cases h6 : t = 0x3d; · subst h6; st_case h
  by_cases h7 : t = 0x40; · subst h7; st_case h
  by_cases h8 : t = 0x53; · subst h8; st_case h
  by_cases h9 : t = 0x43; · subst h9; st_case h
  by_cases h10 : t = 0x5e; · subst h10; st_case h
  by_cases h11 : t = 0x27; · subst h11; st_case h
  by_cases h12 : t = 0x3a; · subst h12; st_case h
  by_cases h13 : t = 0x4d; · subst h13; st_case h
  by_cases h14 : t = 0x38; · subst h14; st_case h
  by_cases h15 : t = 0x42; · subst h15; st_case h
  by_cases h16 : t = 0x48; · subst h16; st_case h
  by_cases h17 : t = 0x21
  · subst h17
    simp (decide := true) only [parseRecord, parseRangePoint, if_true, if_false, ↓reduceIte] at h
    repeat' split at h
    all_goals first
      | cases h
      | skip
    all_goals
      refine ⟨rfl, ?_, getloc_locOK (by assumption)⟩
      have := getuint_lt 8 (fld (fields (0x21 :: rest)) 2) 0 (by decide)
      first
        | exact Nat.mod_lt _ (by decide)
        | exact this
        | (split
           · exact Nat.mod_lt _ (by decide)
           · exact this)
  simp only [parseRecord, h1, h2, h3, h4, h5, h6, h7, h8, h9, h10, h11, h12, h13, h14, h15, h16, h17,
    or_self, ↓reduceIte] at h
  cases h


/-! ### DNS-sized labels -/

theorem printsDotStar_of_ascii {isPrint : Nat → Bool} (h : Quote.PrintsAscii isPrint) :
    PrintsDotStar isPrint := ⟨h _ (by decide) (by decide), h _ (by decide) (by decide)⟩

/-- every label at most 63 bytes long (empty labels allowed) -/
def LabelsLe63 (a : Bytes) : Prop := ∀ l ∈ splitDots a, l.length ≤ 63

instance (a : Bytes) : Decidable (LabelsLe63 a) := by unfold LabelsLe63; infer_instance

theorem shortLabels_of_le63 {isPrint : Nat → Bool} (hpa : Quote.PrintsAscii isPrint) {a : Bytes}
    (h : LabelsLe63 a) : ShortLabels isPrint a := by
  intro l hl
  have h1 := Quote.bquote_length_le isPrint hpa l
  have h2 := h l hl
  omega

/-- the names of a record -/
def recNames : Record → List Bytes
  | .soa dom ns adm _ _ _ _ _ _ _ => [dom, ns, adm]
  | .net _ _ _ _ => []
  | .dot dom _ ns _ _ | .ns dom _ ns _ _ => [dom, ns]
  | .addr dom _ _ _ _ _ => [dom]
  | .paddr dom _ _ _ _ => [dom]
  | .mx dom _ mx _ _ _ => [dom, mx]
  | .srv dom _ srv _ _ _ _ _ => [dom, srv]
  | .cname dom _ cname _ _ => [dom, cname]
  | .ptr dom host _ _ => [dom, host]
  | .txt dom _ _ _ _ => [dom]
  | .aux dom _ _ _ _ => [dom]
  | .ipmap dom _ | .csmap dom _ => [dom]
  | .rangepoint _ _ _ _ => []
  | .svcb _ dom _ tgt _ _ _ _ => [dom, tgt]

/-- every label of every name of the record is at most 63 bytes long -/
def NamesLe63 (r : Record) : Prop := ∀ a ∈ recNames r, LabelsLe63 a

instance (r : Record) : Decidable (NamesLe63 r) := by unfold NamesLe63; infer_instance

theorem namesShort_of_le63 {isPrint : Nat → Bool} (hpa : Quote.PrintsAscii isPrint) (r : Record)
    (h : NamesLe63 r) : NamesShort isPrint r := by
  have k : ∀ a, a ∈ recNames r → ShortLabels isPrint a := fun a ha => shortLabels_of_le63 hpa (h a ha)
  cases r with
  | soa dom ns adm ser ref ret exp min ttl lo =>
    exact ⟨k _ (by simp [recNames]), k _ (by simp [recNames]), k _ (by simp [recNames])⟩
  | net lo ip ones lmap => trivial
  | dot dom ip ns ttl lo => exact ⟨k _ (by simp [recNames]), k _ (by simp [recNames])⟩
  | ns dom ip ns ttl lo => exact ⟨k _ (by simp [recNames]), k _ (by simp [recNames])⟩
  | addr dom wild ip ttl lo weight => exact k _ (by simp [recNames])
  | paddr dom wild ip ttl lo => exact k _ (by simp [recNames])
  | mx dom ip mx dist ttl lo => exact ⟨k _ (by simp [recNames]), k _ (by simp [recNames])⟩
  | srv dom ip srv port pri weight ttl lo => exact ⟨k _ (by simp [recNames]), k _ (by simp [recNames])⟩
  | cname dom wild cname ttl lo => exact ⟨k _ (by simp [recNames]), k _ (by simp [recNames])⟩
  | ptr dom host ttl lo => exact ⟨k _ (by simp [recNames]), k _ (by simp [recNames])⟩
  | txt dom wild txt ttl lo => exact k _ (by simp [recNames])
  | aux dom rtype rdata ttl lo => exact k _ (by simp [recNames])
  | ipmap dom lmap => exact k _ (by simp [recNames])
  | csmap dom lmap => exact k _ (by simp [recNames])
  | rangepoint lmap ip maskLen loc => trivial
  | svcb https dom wild tgt ttl lo prio params => exact ⟨k _ (by simp [recNames]), k _ (by simp [recNames])⟩

/-! ### the text round trip -/

/-- a well-formed record (`WF`) marshals to a text that decodes to the same record -/
theorem parse_marshal_wf (isPrint : Nat → Bool) (cfg : Cfg) (r : Record) (h : WF isPrint cfg r) :
    ∃ t, marshalText isPrint cfg r = .ok t ∧ parseRecord cfg t = .ok r := by
  cases r with
  | soa dom ns adm ser ref ret exp min ttl lo => exact ⟨_, rfl, pm_soa isPrint cfg _ _ _ _ _ _ _ _ _ _ h⟩
  | net lo ip ones lmap => exact ⟨_, rfl, pm_net isPrint cfg _ _ _ _ h⟩
  | dot dom ip ns ttl lo => exact ⟨_, rfl, pm_dot isPrint cfg _ _ _ _ _ h⟩
  | ns dom ip ns ttl lo => exact ⟨_, rfl, pm_ns isPrint cfg _ _ _ _ _ h⟩
  | addr dom wild ip ttl lo weight => exact ⟨_, rfl, pm_addr isPrint cfg _ _ _ _ _ _ h⟩
  | paddr dom wild ip ttl lo => exact ⟨_, rfl, pm_paddr isPrint cfg _ _ _ _ _ h⟩
  | mx dom ip mx dist ttl lo => exact ⟨_, rfl, pm_mx isPrint cfg _ _ _ _ _ _ h⟩
  | srv dom ip srv port pri weight ttl lo => exact ⟨_, rfl, pm_srv isPrint cfg _ _ _ _ _ _ _ _ h⟩
  | cname dom wild cname ttl lo => exact ⟨_, rfl, pm_cname isPrint cfg _ _ _ _ _ h⟩
  | ptr dom host ttl lo => exact ⟨_, rfl, pm_ptr isPrint cfg _ _ _ _ h⟩
  | txt dom wild txt ttl lo => exact ⟨_, rfl, pm_txt isPrint cfg _ _ _ _ _ h⟩
  | aux dom rtype rdata ttl lo => exact ⟨_, rfl, pm_aux isPrint cfg _ _ _ _ _ h⟩
  | ipmap dom lmap => exact ⟨_, rfl, pm_ipmap isPrint cfg _ _ h⟩
  | csmap dom lmap => exact ⟨_, rfl, pm_csmap isPrint cfg _ _ h⟩
  | rangepoint lmap ip maskLen loc =>
    obtain ⟨hl, hip, hc, hm, hlo, hn⟩ := h
    cases loc with
    | none =>
      have h0 : maskLen = 0 := hn rfl
      subst h0
      exact ⟨_, rfl, pm_rangepoint_none isPrint cfg lmap ip 0 hl hip hc⟩
    | some l => exact ⟨_, rfl, pm_rangepoint_some isPrint cfg lmap ip maskLen l hl hip hc hm (hlo l rfl)⟩
  | svcb https dom wild tgt ttl lo prio params =>
    obtain ⟨hd, hw, ht, hsk, httl, hlo, hprio, ptxt, hto, hfrom, hpc⟩ := h
    refine ⟨_, ?_, pm_svcb isPrint cfg https dom wild tgt ttl lo prio params ptxt hd hw ht hsk httl hlo hprio hfrom hpc⟩
    simp only [marshalText, marshalFields, hto]

/-- **any record with in-range numbers and short labels — empty labels allowed — marshals to a text
that decodes to its normal form** -/
theorem parse_marshal_normRec {isPrint : Nat → Bool} (hp : PrintsDotStar isPrint) (cfg : Cfg) (r : Record)
    (hst : Struct cfg r) (hn : NamesShort isPrint r) (hl : LibOK r) :
    ∃ t, marshalText isPrint cfg r = .ok t ∧ parseRecord cfg t = .ok (normRec r) := by
  obtain ⟨t, ht, hpt⟩ := parse_marshal_wf isPrint cfg (normRec r) (normRec_WF hp cfg r hst hn hl)
  rw [marshalText_normRec hp cfg r hn] at ht
  exact ⟨t, ht, hpt⟩

/-! ### whole files: the `Z` lines the preprocessor rewrites -/

/-- what the preprocessor needs of a `Z` line it rewrites: the normalised text passes the line
filter and decodes to a record with the same keys and values -/
def SoaRewriteOK (isPrint : Nat → Bool) (cfg : Cfg) (r : Record) : Prop :=
  ∀ t, marshalText isPrint cfg r = .ok t →
    ∃ r2, filterLine t = some t ∧ parseRecord cfg t = .ok r2 ∧ recordKVs cfg r2 = recordKVs cfg r ∧
      recordSubnet r2 = none

theorem soa_of_parse (cfg : Cfg) (rest : Bytes) (r : Record) (h : parseRecord cfg (0x5a :: rest) = .ok r) :
    ∃ dom ns adm ser ref ret exp min ttl lo, r = .soa dom ns adm ser ref ret exp min ttl lo := by
  simp (decide := true) only [parseRecord, if_true, if_false, ↓reduceIte] at h
  repeat' split at h
  all_goals first
    | (cases h; exact ⟨_, _, _, _, _, _, _, _, _, _, rfl⟩)
    | cases h

theorem filterLine_marshal_soa (isPrint : Nat → Bool) (cfg : Cfg) (dom ns adm : Bytes)
    (ser ref ret exp min ttl : Nat) (lo : Option Bytes) (t : Bytes)
    (h : marshalText isPrint cfg (.soa dom ns adm ser ref ret exp min ttl lo) = .ok t) :
    filterLine t = some t := by
  simp only [marshalText, marshalFields, Except.ok.injEq] at h
  subst h
  simp only [joinSep, sep, List.append_assoc, List.cons_append, List.nil_append]
  cases hd : domText isPrint dom with
  | nil => exact filterLine_cons (by decide) (by decide)
  | cons a as => exact filterLine_cons (by decide) (by decide)

theorem soaRewriteOK_of_wf (isPrint : Nat → Bool) (cfg : Cfg) (rest : Bytes) (r : Record)
    (hp : parseRecord cfg (0x5a :: rest) = .ok r) (h : WF isPrint cfg r) : SoaRewriteOK isPrint cfg r := by
  intro t ht
  obtain ⟨dom, ns, adm, ser, ref, ret, exp, min, ttl, lo, rfl⟩ := soa_of_parse cfg rest r hp
  obtain ⟨t', ht', hpt⟩ := parse_marshal_wf isPrint cfg _ h
  rw [ht] at ht'; cases ht'
  exact ⟨_, filterLine_marshal_soa isPrint cfg _ _ _ _ _ _ _ _ _ _ t ht, hpt, rfl, rfl⟩

theorem soaRewriteOK_of_short {isPrint : Nat → Bool} (hpr : PrintsDotStar isPrint) (cfg : Cfg)
    (hser : cfg.serial < 2 ^ 32) (rest : Bytes) (r : Record)
    (hp : parseRecord cfg (0x5a :: rest) = .ok r) (h : NamesShort isPrint r) : SoaRewriteOK isPrint cfg r := by
  intro t ht
  obtain ⟨dom, ns, adm, ser, ref, ret, exp, min, ttl, lo, rfl⟩ := soa_of_parse cfg rest r hp
  obtain ⟨t', ht', hpt⟩ := parse_marshal_normRec hpr cfg _ (struct_of_parse cfg hser _ _ hp) h trivial
  rw [ht] at ht'; cases ht'
  exact ⟨_, filterLine_marshal_soa isPrint cfg _ _ _ _ _ _ _ _ _ _ t ht, hpt, recordKVs_normRec cfg _, rfl⟩

/-- the scan loop of the preprocessor against the compiler's loop over the same lines, with the
hypothesis on `Z` lines that is actually used (`SoaRewriteOK`) -/
theorem preprocessLoop_sim_gen (isPrint : Nat → Bool) (cfg : Cfg) (hn : cfg.noRnetOutput = true) :
    ∀ (lines out : List Bytes) (subs : List Subnet) (out' : List Bytes) (subs' : List Subnet),
      (∀ raw ∈ lines, ∀ l r, filterLine raw = some l → l.head? = some 0x5a → parseRecord cfg l = .ok r →
        SoaRewriteOK isPrint cfg r) →
      preprocessLoop isPrint cfg lines out subs = .ok (out', subs') →
      ∃ new, out' = out ++ new ∧
        match compileLoop cfg lines [] [] with
        | none => compileLoop cfg new [] [] = none
        | some (k, s) => subs' = subs ++ s ∧ compileLoop cfg new [] [] = some (k, []) := by
  intro lines
  induction lines with
  | nil =>
    intro out subs out' subs' _ h
    simp only [preprocessLoop, Except.ok.injEq, Prod.mk.injEq] at h
    exact ⟨[], by simp [h.1], by simp [compileLoop, h.2]⟩
  | cons raw rest ih =>
    intro out subs out' subs' hz h
    have hz' : ∀ raw' ∈ rest, ∀ l r, filterLine raw' = some l → l.head? = some 0x5a →
        parseRecord cfg l = .ok r → SoaRewriteOK isPrint cfg r := fun raw' hm => hz raw' (by simp [hm])
    unfold preprocessLoop at h
    rw [compileLoop_cons]
    cases hf : filterLine raw with
    | none =>
      rw [hf] at h
      exact ih out subs out' subs' hz' h
    | some l =>
      rw [hf] at h
      simp only [] at h ⊢
      obtain ⟨c, x, xs, rfl, h20, h23⟩ := filterLine_some hf
      have hfl : filterLine (c :: x :: xs) = some (c :: x :: xs) := filterLine_cons h20 h23
      by_cases h25 : c = 0x25
      · subst h25
        simp only [List.head?_cons, if_true] at h
        cases hp : parseRecord cfg (0x25 :: x :: xs) with
        | error e => rw [hp] at h; cases h
        | ok r =>
          rw [hp] at h
          simp only [hn, if_true] at h
          obtain ⟨new, hout, hcmp⟩ := ih out _ out' subs' hz' h
          refine ⟨new, hout, ?_⟩
          simp only [net_of_parse cfg _ r hn hp, List.append_nil]
          rw [compileLoop_acc]
          cases hc : compileLoop cfg rest [] [] with
          | none => rw [hc] at hcmp; simpa [Option.map] using hcmp
          | some ks =>
            obtain ⟨k, s⟩ := ks
            rw [hc] at hcmp
            simp only [Option.map, List.nil_append]
            exact ⟨by rw [hcmp.1, List.append_assoc], hcmp.2⟩
      · have hne : ((c :: x :: xs).head? = some 0x25) = False := by simp [h25]
        simp only [hne, if_false] at h
        by_cases h5a : c = 0x5a
        · subst h5a
          simp only [List.head?_cons, if_true] at h
          cases hp : parseRecord cfg (0x5a :: x :: xs) with
          | error e => rw [hp] at h; cases h
          | ok r =>
            rw [hp] at h
            simp only [] at h
            cases hm : marshalText isPrint cfg r with
            | error e => rw [hm] at h; cases h
            | ok t =>
              rw [hm] at h
              simp only [] at h
              obtain ⟨new, hout, hcmp⟩ := ih _ subs out' subs' hz' h
              obtain ⟨r2, hflt, hpr2, hkv2, hsub2⟩ := hz raw (by simp) _ r hf rfl hp t hm
              have hsub : recordSubnet r = none := recordSubnet_of_parse cfg _ _ r (by decide) hp
              refine ⟨t :: new, by rw [hout]; simp, ?_⟩
              simp only [hsub, Option.toList_none, List.append_nil, List.nil_append]
              rw [compileLoop_acc]
              rw [compileLoop_cons cfg t new]
              simp only [hflt, hpr2, hkv2, hsub2, Option.toList_none, List.append_nil, List.nil_append]
              rw [compileLoop_acc cfg new]
              cases hc : compileLoop cfg rest [] [] with
              | none => rw [hc] at hcmp; simp [Option.map, hcmp]
              | some ks =>
                obtain ⟨k, s⟩ := ks
                rw [hc] at hcmp
                simp [Option.map, hcmp.1, hcmp.2]
        · have hne2 : ((c :: x :: xs).head? = some 0x5a) = False := by simp [h5a]
          simp only [hne2, if_false] at h
          obtain ⟨new, hout, hcmp⟩ := ih _ subs out' subs' hz' h
          refine ⟨(c :: x :: xs) :: new, by rw [hout]; simp, ?_⟩
          rw [compileLoop_cons cfg _ new]
          simp only [hfl]
          cases hp : parseRecord cfg (c :: x :: xs) with
          | error e => simp
          | ok r =>
            have hsub : recordSubnet r = none := recordSubnet_of_parse cfg _ _ r h25 hp
            simp only [hsub, Option.toList_none, List.append_nil, List.nil_append]
            rw [compileLoop_acc, compileLoop_acc cfg new]
            cases hc : compileLoop cfg rest [] [] with
            | none => rw [hc] at hcmp; simp [Option.map, hcmp]
            | some ks =>
              obtain ⟨k, s⟩ := ks
              rw [hc] at hcmp
              simp [Option.map, hcmp.1, hcmp.2]

end DnsVerif.MarshalText
