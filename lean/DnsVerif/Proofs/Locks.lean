import DnsVerif.Model.Locks

/-! Generic lemmas for C14: the lock-exclusion invariant, the lockset theorem, ranked ⇒ acyclic. -/
namespace DnsVerif.Locks

/-- No two distinct holdings of one lock unless both are shared. -/
def ExclRel (a b : Held) : Prop := a.lock = b.lock → a.excl = false ∧ b.excl = false

def Exclusion (s : State) : Prop := s.Pairwise ExclRel

theorem exclRel_symm {a b : Held} (h : ExclRel a b) : ExclRel b a :=
  fun e => let ⟨x, y⟩ := h e.symm; ⟨y, x⟩

theorem step_exclusion {s s' : State} {t : Tid} {a : Action}
    (inv : Exclusion s) (st : Step s t a s') : Exclusion s' := by
  cases st with
  | acquire hc =>
    refine List.pairwise_cons.2 ⟨?_, inv⟩
    intro b hb hl
    have := hc b hb hl.symm
    exact ⟨this.2, this.1⟩
  | release => exact List.Pairwise.sublist List.erase_sublist inv
  | access => exact inv

/-- The invariant of the semantics: in every reachable state lock exclusion holds. -/
theorem reachable_exclusion {s : State} (r : Reachable s) : Exclusion s := by
  induction r with
  | init => exact List.Pairwise.nil
  | step _ st ih => exact step_exclusion ih st

/-- Two different members of a list satisfying a symmetric pairwise relation are related. -/
theorem pairwise_mem {R : Held → Held → Prop} (symm : ∀ {a b}, R a b → R b a) :
    ∀ {s : State}, s.Pairwise R → ∀ {a b : Held}, a ∈ s → b ∈ s → a ≠ b → R a b := by
  intro s
  induction s with
  | nil => intro _ a b ha; cases ha
  | cons x xs ih =>
    intro hp a b ha hb hne
    have hp' := List.pairwise_cons.1 hp
    rcases List.mem_cons.1 ha with rfl | ha'
    · rcases List.mem_cons.1 hb with rfl | hb'
      · exact absurd rfl hne
      · exact hp'.1 b hb'
    · rcases List.mem_cons.1 hb with rfl | hb'
      · exact symm (hp'.1 a ha')
      · exact ih hp'.2 ha' hb' hne

/-- In a reachable state two different threads cannot hold the same lock unless both hold it shared. -/
theorem no_double_hold {s : State} (r : Reachable s) {t₁ t₂ : Tid} {l : Lock} {e₁ e₂ : Bool}
    (h₁ : (⟨t₁, l, e₁⟩ : Held) ∈ s) (h₂ : (⟨t₂, l, e₂⟩ : Held) ∈ s) (ne : t₁ ≠ t₂) :
    e₁ = false ∧ e₂ = false := by
  have hne : (⟨t₁, l, e₁⟩ : Held) ≠ ⟨t₂, l, e₂⟩ := by
    intro h; exact ne (congrArg Held.tid h)
  exact pairwise_mem (fun h => exclRel_symm h) (reachable_exclusion r) h₁ h₂ hne rfl

/-- **Lockset theorem.** Rows that pass the decidable criterion never race: for any number of
threads, any program and any schedule. -/
theorem lockset_no_race {a b : Access} (h : compatible a b = true) : ¬ Race a b := by
  rintro ⟨⟨_, hw, hia, hib⟩, s, t₁, t₂, hr, hne, ha, hb⟩
  simp only [compatible, Bool.or_eq_true, Bool.and_eq_true, Bool.not_eq_true', List.any_eq_true,
    beq_iff_eq] at h
  rcases h with ((h | h) | h) | h
  · rw [hia] at h; cases h
  · rw [hib] at h; cases h
  · rcases hw with hw | hw
    · rw [h.1] at hw; cases hw
    · rw [h.2] at hw; cases hw
  · obtain ⟨p, hp, q, hq, hpq, hx⟩ := h
    have h₁ := ha p hp
    have h₂ := hb q hq
    rw [← hpq] at h₂
    have := no_double_hold hr h₁ h₂ hne
    rcases hx with hx | hx
    · rw [this.1] at hx; cases hx
    · rw [this.2] at hx; cases hx

/-- Converse for the shape of every known exception: an access holding no lock is co-enabled with
an access holding at most one lock — the unguarded pair really is a race in the model. -/
theorem coenabled_of_unlocked {a b : Access} (ha : a.locks = [])
    (hb : b.locks = [] ∨ ∃ p, b.locks = [p]) : CoEnabled a b := by
  rcases hb with hb | ⟨p, hb⟩
  · exact ⟨[], 0, 1, .init, by decide, by simp [Holds, ha], by simp [Holds, hb]⟩
  · refine ⟨[⟨1, p.1, p.2⟩], 0, 1, ?_, by decide, by simp [Holds, ha], by simp [Holds, hb]⟩
    exact .step .init (.acquire (t := 1) (l := p.1) (e := p.2) (by intro h hh; cases hh))

/-! ### ranked ⇒ no closed walk -/

theorem walk_rank_lt {es : List (Lock × Lock)} {r : Lock → Nat}
    (hr : ∀ e ∈ es, r e.1 < r e.2) {a b : Lock} (w : Walk es a b) : r a < r b := by
  induction w with
  | edge h => exact hr _ h
  | cons h _ ih => exact Nat.lt_trans (hr _ h) ih

theorem acyclic_of_ranked {es : List (Lock × Lock)} (h : rankedB es = true) :
    ∀ l, ¬ Walk es l l := by
  intro l w
  have hr : ∀ e ∈ es, rank es es.length e.1 < rank es es.length e.2 := by
    intro e he
    have := List.all_eq_true.1 h e he
    exact of_decide_eq_true this
  exact Nat.lt_irrefl _ (walk_rank_lt hr w)

end DnsVerif.Locks
