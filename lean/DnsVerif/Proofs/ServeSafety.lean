/-
Helper lemmas for C13 (the query path never panics, replies are well formed) and C04 (location
framing). Core Lean only.
-/
import DnsVerif.Model.Serve
import DnsVerif.Spec.Answer

namespace DnsVerif.ServeSafety
open DnsVerif DnsVerif.Name DnsVerif.Loc DnsVerif.Serve

/-! decidable equality of outcomes, for the concrete examples in `Props/C13`, `Props/C04` -/
deriving instance DecidableEq for Ans
deriving instance DecidableEq for Response
deriving instance DecidableEq for Outcome

/-! ### well-formed wire names -/

/-- `z` starts with a well-formed wire-format name (`labels` succeeds with some fuel) -/
def Wf (z : Bytes) : Prop := ∃ fuel ls, labels fuel z = some ls

theorem Wf.of_unpack {q : Bytes} {ls : List Bytes} (h : unpack q = some ls) : Wf q :=
  ⟨_, ls, h⟩

theorem Wf.ne_nil {z : Bytes} (h : Wf z) : z ≠ [] := by
  obtain ⟨fuel, ls, h⟩ := h
  intro hz
  subst hz
  cases fuel <;> simp [labels] at h

theorem Wf.parent {n : UInt8} {rest : Bytes} (h : Wf (n :: rest)) (hn : n ≠ 0) :
    n.toNat ≤ rest.length ∧ Wf (rest.drop n.toNat) := by
  obtain ⟨fuel, ls, h⟩ := h
  cases fuel with
  | zero => simp [labels] at h
  | succ fuel =>
    simp only [labels] at h
    rw [if_neg hn] at h
    split at h
    · cases h
    · rename_i hlen
      split at h
      · rename_i ls' hls'
        exact ⟨Nat.le_of_not_lt hlen, fuel, ls', hls'⟩
      · cases h

/-- `labels` does not depend on the fuel once it is larger than the length -/
theorem labels_fuel : ∀ (f : Nat) (z : Bytes) (ls : List Bytes) (f' : Nat),
    labels f z = some ls → z.length < f' → labels f' z = some ls := by
  intro f
  induction f with
  | zero => intro z ls f' h; simp [labels] at h
  | succ f ih =>
    intro z ls f' h hf'
    cases z with
    | nil => simp [labels] at h
    | cons n rest =>
      cases f' with
      | zero => omega
      | succ f' =>
        simp only [labels] at h ⊢
        by_cases hn : n = 0
        · rw [if_pos hn] at h ⊢; exact h
        · rw [if_neg hn] at h ⊢
          by_cases hlen : rest.length < n.toNat
          · rw [if_pos hlen] at h; cases h
          · rw [if_neg hlen] at h ⊢
            split at h
            · rename_i ls' hls'
              have := ih (rest.drop n.toNat) ls' f' hls' (by
                simp only [List.length_drop, List.length_cons] at hf' ⊢; omega)
              rw [this]; exact h
            · cases h

theorem Wf.unpack {z : Bytes} (h : Wf z) : ∃ ls, unpack z = some ls := by
  obtain ⟨fuel, ls, h⟩ := h
  exact ⟨ls, labels_fuel fuel z ls _ h (Nat.lt_succ_self _)⟩

/-- `z` starts with a well-formed wire name all of whose labels are shorter than 64 bytes
(RFC 1035; enforced by miekg's unpacking) -/
def Wf63 (z : Bytes) : Prop := ∃ fuel ls, labels fuel z = some ls ∧ ∀ l ∈ ls, l.length < 64

theorem Wf63.wf {z : Bytes} (h : Wf63 z) : Wf z := by
  obtain ⟨fuel, ls, h, _⟩ := h
  exact ⟨fuel, ls, h⟩

theorem Wf63.of_unpack {q : Bytes} {ls : List Bytes} (h : unpack q = some ls)
    (h63 : ∀ l ∈ ls, l.length < 64) : Wf63 q := ⟨_, ls, h, h63⟩

theorem Wf63.unpack {z : Bytes} (h : Wf63 z) : ∃ ls, unpack z = some ls ∧ ∀ l ∈ ls, l.length < 64 := by
  obtain ⟨fuel, ls, h, h63⟩ := h
  exact ⟨ls, labels_fuel fuel z ls _ h (Nat.lt_succ_self _), h63⟩

theorem Wf63.parent {n : UInt8} {rest : Bytes} (h : Wf63 (n :: rest)) (hn : n ≠ 0) :
    Wf63 (rest.drop n.toNat) := by
  obtain ⟨fuel, ls, h, h63⟩ := h
  cases fuel with
  | zero => simp [labels] at h
  | succ fuel =>
    simp only [labels] at h
    rw [if_neg hn] at h
    split at h
    · cases h
    · split at h
      · rename_i ls' hls'
        cases h
        exact ⟨fuel, ls', hls', fun l hl => h63 l (List.mem_cons_of_mem _ hl)⟩
      · cases h

/-! ### the zone-cut walk of the v1 layouts -/

/-- the result of `isAuthoritative` is not a panic and its zone cut is not empty -/
def GoodCut : R Cut → Prop
  | .ok c => c.zoneCut ≠ []
  | .err => True
  | .panic => False

theorem isAuthoritativeV1_good (v : View) : ∀ (fuel : Nat) (z : Bytes) (ns auth : Bool),
    Wf z → GoodCut (isAuthoritativeV1 v fuel z ns auth) := by
  intro fuel
  induction fuel with
  | zero => intro z ns auth hz; exact hz.ne_nil
  | succ fuel ih =>
    intro z ns auth hz
    unfold isAuthoritativeV1
    simp only []
    split
    · trivial
    · split
      · trivial
      · split
        · exact hz.ne_nil
        · split
          · exact absurd rfl hz.ne_nil
          · rename_i n rest
            split
            · exact hz.ne_nil
            · rename_i hn
              exact ih _ _ _ (hz.parent hn).2

/-! ### `serve` does not panic when its parts do not -/

theorem serve_no_panic_of (v : View) (q : Query) (P : Bytes → Prop)
    (hPwf : ∀ z, P z → Wf z)
    (hPpar : ∀ (n : UInt8) (rest : Bytes), P (n :: rest) → n ≠ 0 → P (rest.drop n.toNat))
    (h1 : ∀ z, P z → GoodCut (isAuthoritative v z)) (hqP : P q.qname)
    (h2 : ∀ control, v.v2 = true → findAnswerV2 v q.qname control q.qnameOut q.qtype ≠ .panic) :
    serve v q ≠ .panic := by
  have hq : Wf q.qname := hPwf _ hqP
  unfold serve
  split
  · intro h; cases h
  · intro h; cases h
  · rename_i cut hcut
    have hcut0 : cut.zoneCut ≠ [] := by
      have := h1 _ hqP
      rw [hcut] at this
      exact this
    split
    · intro h; cases h
    · extract_lets dsStep
      have hds : GoodCut dsStep := by
        show GoodCut (if _ then _ else _)
        split
        · rename_i hc
          split
          · rename_i hnil; exact absurd hnil hq.ne_nil
          · rename_i n rest hqn
            have hn : n ≠ 0 := by
              intro hn0
              apply hc.2.2
              rw [hqn, hn0]; rfl
            have hp := h1 _ (hPpar n rest (hqn ▸ hqP) hn)
            split
            · rename_i c2 hc2
              rw [hc2] at hp
              exact hp
            · trivial
            · rename_i hpn
              rw [hpn] at hp
              exact hp
        · exact hcut0
      clear_value dsStep
      split
      · exact hds.elim
      · intro h; cases h
      · rename_i cut2
        have hz : cut2.zoneCut.isEmpty = false := by
          cases hzz : cut2.zoneCut with
          | nil => exact absurd hzz hds
          | cons a b => rfl
        rw [hz]
        split
        · rename_i hh; simp at hh
        extract_lets ans
        have hans : ans ≠ .panic := by
          show (if _ then _ else _) ≠ R.panic
          split
          · split
            · rename_i hv2; exact h2 _ hv2
            · intro h; cases h
          · intro h; cases h
        clear_value ans
        split
        · rename_i hh; exact absurd rfl hans
        · intro h; cases h
        · intro h; cases h


/-! ### shape of replies -/

def Shape (r : Response) : Prop :=
  (r.rcode = 0 ∨ r.rcode = 3 ∨ r.rcode = 5) ∧
  (r.rcode = 5 → r.aa = false ∧ r.answer = [] ∧ r.answerAddrs = [] ∧ r.ns = [] ∧ r.extra = []) ∧
  (r.rcode = 3 → r.aa = true ∧ r.answer = []) ∧
  (r.aa = false → r.answer = [] ∧ r.answerAddrs = [])

theorem reply_shape' (v : View) (q : Query) (r : Response) (h : serve v q = .reply r) : Shape r := by
  unfold serve at h
  split at h
  · cases h
  · cases h
  · rename_i cut hcut
    split at h
    · cases h
      refine ⟨Or.inr (Or.inr rfl), fun _ => ⟨rfl, rfl, rfl, rfl, rfl⟩, fun h => ?_, fun _ => ⟨rfl, rfl⟩⟩
      cases h
    · extract_lets dsStep at h
      clear_value dsStep
      split at h
      · cases h
      · cases h
      · rename_i cut2
        split at h
        · cases h
        extract_lets ans at h
        have hans : cut2.auth = false → ans = .ok {} := by
          intro ha
          show (if _ then _ else _) = _
          rw [if_neg (by rw [ha]; decide)]
        clear_value ans
        split at h
        · cases h
        · cases h
        · rename_i a
          extract_lets groups answerEmpty rcode hasNsAnswer nsSec present extra1 extra2 at h
          cases h
          have hrc : rcode = 0 ∨ rcode = 3 := by
            show (if _ then 3 else 0) = 0 ∨ (if _ then 3 else 0) = 3
            split
            · exact Or.inr rfl
            · exact Or.inl rfl
          refine ⟨?_, ?_, ?_, ?_⟩
          · show rcode = 0 ∨ rcode = 3 ∨ rcode = 5
            rcases hrc with h | h
            · exact Or.inl h
            · exact Or.inr (Or.inl h)
          · intro h5
            change rcode = 5 at h5
            rcases hrc with h | h <;> omega
          · intro h3
            change rcode = 3 at h3
            show cut2.auth = true ∧ a.rrs = []
            have : cut2.auth = true ∧ answerEmpty ∧ ¬ a.recordFound = true := by
              apply Classical.byContradiction
              intro hc
              have : rcode = 0 := if_neg hc
              omega
            exact ⟨this.1, List.isEmpty_iff.mp this.2.1.1⟩
          · intro haa
            change cut2.auth = false at haa
            have := hans haa
            cases this
            exact ⟨rfl, rfl⟩


/-! ### the closest-key search of the v2 layout -/

theorem seekForPrev_mem (s : Store) (k : Bytes) (e : Bytes × List Bytes)
    (h : s.seekForPrev k = some e) : e ∈ s := by
  unfold Store.seekForPrev at h
  have : ∀ (l : List (Bytes × List Bytes)) (init : Option (Bytes × List Bytes)),
      (∀ x, init = some x → x ∈ s) → (∀ x ∈ l, x ∈ s) →
      ∀ x, l.foldl (fun best e =>
        if Rdb.bytesLe e.1 k then
          match best with
          | none => some e
          | some b => if Rdb.bytesLt b.1 e.1 then some e else some b
        else best) init = some x → x ∈ s := by
    intro l
    induction l with
    | nil => intro init hi _ x hx; exact hi x hx
    | cons a l ih =>
      intro init hi hl x hx
      rw [List.foldl_cons] at hx
      refine ih _ ?_ (fun y hy => hl y (List.mem_cons_of_mem _ hy)) x hx
      intro y hy
      split at hy
      · split at hy
        · cases hy; exact hl _ (List.mem_cons_self ..)
        · split at hy
          · cases hy; exact hl _ (List.mem_cons_self ..)
          · exact hi y hy
      · exact hi y hy
  exact this s none (fun x hx => by cases hx) (fun x hx => hx) e h

theorem labelMatch_some (s1 s2 : Bytes) : ∀ (n j : Nat), j + n ≤ s1.length → j + n ≤ s2.length →
    ∃ b, labelMatch s1 s2 j n = some b := by
  intro n
  induction n with
  | zero => intro j _ _; exact ⟨true, by cases j <;> rfl⟩
  | succ n ih =>
    intro j h1 h2
    rw [labelMatch]
    have e1 : s1[j]? = some s1[j] := List.getElem?_eq_getElem (by omega)
    have e2 : s2[j]? = some s2[j] := List.getElem?_eq_getElem (by omega)
    rw [e1, e2]
    simp only []
    split
    · exact ⟨false, rfl⟩
    · exact ih (j + 1) (by omega) (by omega)

/-- labels as `unpack` produces them -/
def GoodLabels (ls : List Bytes) : Prop := ∀ l ∈ ls, l ≠ [] ∧ l.length < 256

/-- exactly a packed name, nothing after the terminator -/
def Exact (z : Bytes) : Prop := ∃ ls, GoodLabels ls ∧ z = pack ls

theorem labels_good : ∀ (fuel : Nat) (z : Bytes) (ls : List Bytes), labels fuel z = some ls → GoodLabels ls := by
  intro fuel
  induction fuel with
  | zero => intro z ls h; simp [labels] at h
  | succ fuel ih =>
    intro z ls h
    cases z with
    | nil => simp [labels] at h
    | cons n rest =>
      simp only [labels] at h
      split at h
      · cases h; intro l hl; cases hl
      · rename_i hn
        split at h
        · cases h
        · rename_i hlen
          split at h
          · rename_i ls' hls'
            cases h
            intro l hl
            rcases List.mem_cons.mp hl with rfl | hl
            · have hnz : n.toNat ≠ 0 := fun h0 => hn (UInt8.toNat_inj.mp (by rw [h0]; rfl))
              have hlt : n.toNat < 256 := n.toNat_lt
              constructor
              · intro he
                have := congrArg List.length he
                simp only [List.length_take, List.length_nil] at this
                omega
              · simp only [List.length_take]; omega
            · exact ih _ _ hls' l hl
          · cases h

theorem Exact.ne_nil {z : Bytes} (h : Exact z) : z ≠ [] := by
  obtain ⟨ls, _, rfl⟩ := h
  unfold pack
  intro h
  have := congrArg List.length h
  simp at this

theorem Exact.cases {n : UInt8} {rest : Bytes} (h : Exact (n :: rest)) :
    (n = 0 ∧ rest = []) ∨ (n ≠ 0 ∧ n.toNat ≤ rest.length ∧ Exact (rest.drop n.toNat)) := by
  obtain ⟨ls, hg, he⟩ := h
  cases ls with
  | nil =>
    left
    simp only [pack, List.flatMap_nil, List.nil_append] at he
    cases he
    exact ⟨rfl, rfl⟩
  | cons l ls' =>
    right
    have hl := hg l (List.mem_cons_self ..)
    have hlen : 0 < l.length := List.length_pos_iff.mpr hl.1
    simp only [pack, List.flatMap_cons, List.cons_append, List.append_assoc] at he
    injection he with h1 h2
    have hn : n.toNat = l.length := by
      rw [h1]
      exact UInt8.toNat_ofNat_of_lt' hl.2
    refine ⟨?_, ?_, ?_⟩
    · intro h0
      rw [h0] at hn
      have : (0 : UInt8).toNat = 0 := rfl
      omega
    · rw [h2, hn]; simp
    · refine ⟨ls', fun x hx => hg x (List.mem_cons_of_mem _ hx), ?_⟩
      rw [h2, hn]
      simp [pack]

theorem reverseWire_exact {q rev : Bytes} (h : reverseWire q = some rev) : Exact rev := by
  unfold reverseWire at h
  cases hu : unpack q with
  | none => rw [hu] at h; cases h
  | some ls =>
    rw [hu] at h
    cases h
    have := labels_good _ _ _ hu
    exact ⟨ls.reverse, fun l hl => this l (List.mem_reverse.mp hl), rfl⟩

theorem labelMatch_true_bound (s1 s2 : Bytes) : ∀ (n j : Nat), j ≤ s1.length →
    labelMatch s1 s2 j n = some true → j + n ≤ s1.length := by
  intro n
  induction n with
  | zero => intro j h _; exact h
  | succ n ih =>
    intro j hj h
    rw [labelMatch] at h
    split at h
    · rename_i a b ha hb
      split at h
      · cases h
      · have hlt : j < s1.length := by
          have := List.getElem?_eq_some_iff.mp ha
          exact this.1
        have := ih (j + 1) hlt h
        omega
    · cases h

theorem commonPrefix_bound (s1 s2 : Bytes) : ∀ (fuel i r : Nat), commonPrefix s1 s2 fuel i = some r →
    i ≤ s1.length → r ≤ s1.length := by
  intro fuel
  induction fuel with
  | zero => intro i r h hi; rw [commonPrefix] at h; cases h; exact hi
  | succ fuel ih =>
    intro i r h hi
    rw [commonPrefix] at h
    split at h
    · rename_i a b ha hb
      have hlt : i < s1.length := (List.getElem?_eq_some_iff.mp ha).1
      split at h
      · cases h; exact hi
      · split at h
        · cases h
        · rename_i hm
          have := labelMatch_true_bound s1 s2 a.toNat (i + 1) hlt hm
          exact ih _ _ h (by omega)
        · cases h; exact hi
    · cases h; exact hi

theorem commonPrefix_end (s1 s2 : Bytes) (fuel i : Nat) (h : s1.length ≤ i) :
    commonPrefix s1 s2 fuel i = some i := by
  cases fuel with
  | zero => rfl
  | succ fuel =>
    rw [commonPrefix]
    have : s1[i]? = none := List.getElem?_eq_none h
    rw [this]

theorem drop_cons_facts {s : Bytes} {i : Nat} {a : UInt8} {r : Bytes} (h : s.drop i = a :: r) :
    s[i]? = some a ∧ s.length = i + 1 + r.length ∧ ∀ n, s.drop (i + n + 1) = r.drop n := by
  refine ⟨?_, ?_, ?_⟩
  · have : (s.drop i)[0]? = some a := by rw [h]; rfl
    rw [List.getElem?_drop] at this
    exact this
  · have := congrArg List.length h
    simp only [List.length_drop, List.length_cons] at this
    omega
  · intro n
    have : (s.drop i).drop (n + 1) = r.drop n := by rw [h, List.drop_succ_cons]
    rw [List.drop_drop] at this
    exact this

theorem commonPrefix_some (s1 s2 : Bytes) : ∀ (fuel i : Nat), Exact (s1.drop i) → Wf (s2.drop i) →
    ∃ r, commonPrefix s1 s2 fuel i = some r := by
  intro fuel
  induction fuel with
  | zero => intro i _ _; exact ⟨i, rfl⟩
  | succ fuel ih =>
    intro i h1 h2
    cases hd1 : s1.drop i with
    | nil => exact absurd hd1 h1.ne_nil
    | cons a r1 =>
      cases hd2 : s2.drop i with
      | nil => exact absurd hd2 h2.ne_nil
      | cons b r2 =>
        obtain ⟨e1, l1, d1⟩ := drop_cons_facts hd1
        obtain ⟨e2, l2, d2⟩ := drop_cons_facts hd2
        rw [commonPrefix, e1, e2]
        simp only []
        by_cases hab : a = b
        · subst hab
          rw [if_neg (by simp)]
          rw [hd1] at h1
          rw [hd2] at h2
          rcases h1.cases with ⟨ha0, hr1⟩ | ⟨han, hlen1, hex⟩
          · subst ha0
            have : labelMatch s1 s2 (i + 1) (0 : UInt8).toNat = some true := by
              show labelMatch s1 s2 (i + 1) 0 = some true
              rw [labelMatch]
            rw [this]
            simp only []
            rw [commonPrefix_end]
            · exact ⟨_, rfl⟩
            · rw [l1, hr1]; show i + 1 + 0 ≤ i + 0 + 1; omega
          · obtain ⟨hlen2, hwf⟩ := h2.parent han
            obtain ⟨bb, hbb⟩ := labelMatch_some s1 s2 a.toNat (i + 1) (by omega) (by omega)
            rw [hbb]
            cases bb with
            | false => exact ⟨_, rfl⟩
            | true =>
              simp only []
              apply ih
              · rw [d1]; exact hex
              · rw [d2]; exact hwf
        · rw [if_pos hab]; exact ⟨_, rfl⟩

theorem lwl_some (q : Bytes) (ql : Nat) (hB : (ql % 256 + 255) % 256 ≤ q.length) :
    ∀ (fuel i last : Nat), last ≤ (ql % 256 + 255) % 256 →
    ∃ r, lengthWithoutLastLabel q ql fuel i last = some r ∧ 1 ≤ r ∧ r ≤ q.length + 1 := by
  intro fuel
  induction fuel with
  | zero => intro i last hl; exact ⟨last + 1, rfl, by omega, by omega⟩
  | succ fuel ih =>
    intro i last hl
    rw [lengthWithoutLastLabel]
    by_cases hi : i < (ql % 256 + 255) % 256
    · rw [if_pos hi]
      have : q[i]? = some q[i] := List.getElem?_eq_getElem (by omega)
      rw [this]
      simp only []
      exact ih _ _ (by omega)
    · rw [if_neg hi]
      exact ⟨last + 1, rfl, by omega, by omega⟩

theorem seekForPrev_le (s : Store) (k : Bytes) (e : Bytes × List Bytes)
    (h : s.seekForPrev k = some e) : Rdb.bytesLe e.1 k = true := by
  unfold Store.seekForPrev at h
  have : ∀ (l : List (Bytes × List Bytes)) (init : Option (Bytes × List Bytes)),
      (∀ x, init = some x → Rdb.bytesLe x.1 k = true) →
      ∀ x, l.foldl (fun best e =>
        if Rdb.bytesLe e.1 k then
          match best with
          | none => some e
          | some b => if Rdb.bytesLt b.1 e.1 then some e else some b
        else best) init = some x → Rdb.bytesLe x.1 k = true := by
    intro l
    induction l with
    | nil => intro init hi x hx; exact hi x hx
    | cons a l ih =>
      intro init hi x hx
      rw [List.foldl_cons] at hx
      refine ih _ ?_ x hx
      intro y hy
      split at hy
      · rename_i hle
        split at hy
        · cases hy; exact hle
        · split at hy
          · cases hy; exact hle
          · exact hi y hy
      · exact hi y hy
  exact this s none (fun x hx => by cases hx) e h

/-- the first byte of the name part of a search key is 0 or the first byte of `rev` -/
theorem nameKey_head (rev : Bytes) (m : Nat) (loc : Bytes) :
    ∃ n rest, rev.take m ++ [0] ++ loc = n :: rest ∧ (n = 0 ∨ rev.head? = some n) := by
  cases rev with
  | nil => exact ⟨0, loc, by simp, Or.inl rfl⟩
  | cons c t =>
    cases m with
    | zero => exact ⟨0, loc, by simp, Or.inl rfl⟩
    | succ m => exact ⟨c, t.take m ++ [0] ++ loc, by simp, Or.inr rfl⟩

/-- a marker key whose first name byte is 64 or more is above every search key of a name whose
labels are shorter than 64 -/
theorem high_key_not_le (rev : Bytes) (hhead : ∀ c, rev.head? = some c → c.toNat < 64)
    (k : Bytes) (hm : k.take 2 = Generated.dnsdata_ResourceRecordsKeyMarker)
    (h64 : 64 ≤ (k[2]?.getD 0).toNat) (m : Nat) (loc : Bytes)
    (hle : Rdb.bytesLe k (Generated.dnsdata_ResourceRecordsKeyMarker ++ rev.take m ++ [0] ++ loc) = true) :
    False := by
  obtain ⟨n, rest, hn, hn0⟩ := nameKey_head rev m loc
  have hn64 : n.toNat < 64 := by
    rcases hn0 with rfl | h
    · decide
    · exact hhead n h
  match k, hm, h64 with
  | [], hm, _ => cases hm
  | [_], hm, _ => cases hm
  | [_, _], _, h64 => exact absurd (show 64 ≤ (0 : UInt8).toNat from h64) (by decide)
  | a :: b :: c :: t, hm, h64 =>
    have hab : a = 0 ∧ b = 111 := by
      have : [a, b] = [0, 111] := hm
      injection this with h1 h2
      injection h2 with h2 _
      exact ⟨h1, h2⟩
    obtain ⟨rfl, rfl⟩ := hab
    have hc : 64 ≤ c.toNat := h64
    have hkey : Generated.dnsdata_ResourceRecordsKeyMarker ++ rev.take m ++ [0] ++ loc = 0 :: 111 :: n :: rest := by
      have : Generated.dnsdata_ResourceRecordsKeyMarker ++ rev.take m ++ [0] ++ loc
          = [0, 111] ++ (rev.take m ++ [0] ++ loc) := by
        simp only [List.append_assoc]; rfl
      rw [this, hn]; rfl
    rw [hkey] at hle
    have hlt : Rdb.bytesLt (0 :: 111 :: n :: rest) (0 :: 111 :: c :: t) = true := by
      simp only [Rdb.bytesLt]
      have : n.toNat < c.toNat := by omega
      simp [this]
    unfold Rdb.bytesLe at hle
    rw [hlt] at hle
    cases hle

/-- Every key carrying the resource-record marker either holds, between the marker and its last
two bytes (the location), a byte string that starts with a well-formed wire name, or its first
byte after the marker is 64 or more (such a key sorts above every search key of a name whose
labels are shorter than 64 bytes and is never reached; the features key `"\x00o_features"` is of
this kind). Decidable. -/
def V2KeysOk (s : Store) : Prop :=
  ∀ e ∈ s, e.1.take 2 = Generated.dnsdata_ResourceRecordsKeyMarker →
    (unpack ((e.1.drop 2).take (e.1.length - 4))).isSome = true ∨ 64 ≤ (e.1[2]?.getD 0).toNat

/-- the first label of the reversed name (the top-level label) is shorter than 64 bytes -/
def HeadOk (rev : Bytes) : Prop := ∀ c, rev.head? = some c → c.toNat < 64

theorem findGo_tail {σ : Type} (v : View) (rev : Bytes)
    (pre : Nat → σ → Option σ) (onRows : List Bytes → σ → σ) (post : σ → σ × Bool) (J : σ → Prop)
    (hs : V2KeysOk v.store) (hrev : Exact rev) (hhead : HeadOk rev)
    (hpost : ∀ st, J st → J (post st).1)
    (fuel ql : Nat) (hql1 : 1 ≤ ql) (hql2 : ql ≤ rev.length + 1)
    (ih : ∀ (nl : Nat) (st : σ), 1 ≤ nl → nl ≤ rev.length + 1 → J st →
      ∃ st', findGo v rev pre onRows post fuel nl st = .ok st' ∧ J st')
    (k : Option Bytes) (st3 : σ) (hJ3 : J st3)
    (hk : k = none ∨ ∃ e ∈ v.store, k = some e.1 ∧ ∃ loc, Rdb.bytesLe e.1
      (Generated.dnsdata_ResourceRecordsKeyMarker ++ rev.take (ql - 1) ++ [0] ++ loc) = true) :
    ∃ st', (match post st3 with
      | (st4, cont) =>
        if ¬ cont then R.ok st4
        else
          let kk := k.getD []
          if kk.length < 2 ∨ kk.take 2 ≠ Generated.dnsdata_ResourceRecordsKeyMarker then R.ok st4
          else if ql = 1 then R.ok st4
          else
            if kk.length < 4 then R.panic else
            let foundLabel := (kk.drop 2).take (kk.length - 4)
            if foundLabel.isEmpty then R.panic else
            let next : Option Nat :=
              if rev.take (ql - 1) = foundLabel.take (foundLabel.length - 1) then
                lengthWithoutLastLabel rev ql 256 0 0
              else (commonPrefix rev foundLabel (rev.length + 1) 0).map (· + 1)
            match next with
            | none => R.panic
            | some nl => findGo v rev pre onRows post fuel nl st4) = .ok st' ∧ J st' := by
  have hJ4 := hpost _ hJ3
  generalize post st3 = p4 at hJ4 ⊢
  obtain ⟨st4, cont⟩ := p4
  dsimp -zeta only at hJ4 ⊢
  split
  · exact ⟨st4, rfl, hJ4⟩
  extract_lets kk foundLabel next
  split
  · exact ⟨st4, rfl, hJ4⟩
  rename_i hkk
  split
  · exact ⟨st4, rfl, hJ4⟩
  -- the found key carries the marker: it is a key of the store
  have hkey : (unpack ((kk.drop 2).take (kk.length - 4))).isSome = true := by
    rcases hk with hk | ⟨e, he, hk, loc, hle⟩
    · exfalso; apply hkk; left
      show (k.getD []).length < 2
      rw [hk]; decide
    · have hkke : kk = e.1 := by show k.getD [] = e.1; rw [hk]; rfl
      rw [hkke]
      have hmk : e.1.take 2 = Generated.dnsdata_ResourceRecordsKeyMarker := by
        rw [← hkke]
        apply Classical.byContradiction
        intro hne
        exact hkk (Or.inr hne)
      rcases hs e he hmk with hok | h64
      · exact hok
      · exact (high_key_not_le rev hhead e.1 hmk h64 (ql - 1) loc hle).elim
  cases hun : unpack ((kk.drop 2).take (kk.length - 4)) with
  | none => rw [hun] at hkey; cases hkey
  | some fls =>
    have hwf : Wf ((kk.drop 2).take (kk.length - 4)) := Wf.of_unpack hun
    have hne := hwf.ne_nil
    have hlen4 : ¬ kk.length < 4 := by
      intro hlt
      apply hne
      have : kk.length - 4 = 0 := by omega
      rw [this]; rfl
    rw [if_neg hlen4]
    have hfl : foundLabel.isEmpty = false := by
      cases hf : foundLabel with
      | nil => exact absurd hf hne
      | cons a b => rfl
    rw [hfl]
    rw [if_neg (by decide)]
    have hnext : ∃ nl, next = some nl ∧ 1 ≤ nl ∧ nl ≤ rev.length + 1 := by
      simp only [next]
      split
      · exact lwl_some rev ql (by omega) 256 0 0 (by omega)
      · obtain ⟨r, hr⟩ := commonPrefix_some rev foundLabel (rev.length + 1) 0 hrev hwf
        have hb := commonPrefix_bound rev foundLabel _ _ _ hr (by omega)
        rw [hr]
        exact ⟨r + 1, rfl, by omega, by omega⟩
    clear_value next
    obtain ⟨nl, hnl, hnl1, hnl2⟩ := hnext
    rw [hnl]
    exact ih nl st4 hnl1 hnl2 hJ4

theorem findGo_ok {σ : Type} (v : View) (rev : Bytes)
    (pre : Nat → σ → Option σ) (onRows : List Bytes → σ → σ) (post : σ → σ × Bool) (J : σ → Prop)
    (hs : V2KeysOk v.store) (hrev : Exact rev) (hhead : HeadOk rev)
    (hpre : ∀ ql st st1, 1 ≤ ql → pre ql st = some st1 → J st1)
    (hrows : ∀ rows st, J st → J (onRows rows st))
    (hpost : ∀ st, J st → J (post st).1) :
    ∀ (fuel ql : Nat) (st : σ), 1 ≤ ql → ql ≤ rev.length + 1 →
      (J st ∨ (fuel ≠ 0 ∧ pre ql st ≠ none)) →
      ∃ st', findGo v rev pre onRows post fuel ql st = .ok st' ∧ J st' := by
  intro fuel
  induction fuel with
  | zero =>
    intro ql st _ _ h
    rcases h with h | ⟨h, _⟩
    · exact ⟨st, rfl, h⟩
    · exact absurd rfl h
  | succ fuel ih =>
    intro ql st hql1 hql2 h
    rw [findGo]
    split
    · rename_i hnone
      rcases h with h | ⟨_, h⟩
      · exact ⟨st, rfl, h⟩
      · exact absurd hnone h
    · rename_i st1 hst1
      have hJ1 : J st1 := hpre _ _ _ hql1 hst1
      rw [if_neg (by omega)]
      extract_lets marker nameKey key tryForEach
      have htry : ∀ k st, J st → J (tryForEach k st).2 ∧
          ((tryForEach k st).1 = none ∨ ∃ e ∈ v.store, (tryForEach k st).1 = some e.1 ∧
            Rdb.bytesLe e.1 k = true) := by
        intro k st hj
        simp only [tryForEach]
        split
        · exact ⟨hj, Or.inl rfl⟩
        · rename_i fk vals hseek
          have hm := seekForPrev_mem _ _ _ hseek
          have hle := seekForPrev_le _ _ _ hseek
          split
          · exact ⟨hrows _ _ hj, Or.inr ⟨_, hm, rfl, hle⟩⟩
          · exact ⟨hj, Or.inr ⟨_, hm, rfl, hle⟩⟩
      clear_value tryForEach
      have h1 := htry key st1 hJ1
      generalize tryForEach key st1 = p1 at h1 ⊢
      obtain ⟨k1, st2⟩ := p1
      simp only [] at h1 ⊢
      obtain ⟨hJ2, hk1⟩ := h1
      have tl := findGo_tail v rev pre onRows post J hs hrev hhead hpost fuel ql hql1 hql2
        (fun nl st h1 h2 hj => ih nl st h1 h2 (Or.inl hj))
      have hk1' : k1 = none ∨ ∃ e ∈ v.store, k1 = some e.1 ∧ ∃ loc, Rdb.bytesLe e.1
          (Generated.dnsdata_ResourceRecordsKeyMarker ++ rev.take (ql - 1) ++ [0] ++ loc) = true := by
        rcases hk1 with h | ⟨e, he, hk, hle⟩
        · exact Or.inl h
        · exact Or.inr ⟨e, he, hk, v.loc, hle⟩
      cases k1 with
      | none => exact tl none st2 hJ2 hk1'
      | some fk =>
        dsimp only
        split
        · have h3 := htry (nameKey ++ [0, 0]) st2 hJ2
          generalize tryForEach (nameKey ++ [0, 0]) st2 = p3 at h3 ⊢
          obtain ⟨k, st3⟩ := p3
          refine tl k st3 h3.1 ?_
          rcases h3.2 with h | ⟨e, he, hk, hle⟩
          · exact Or.inl h
          · exact Or.inr ⟨e, he, hk, [0, 0], hle⟩
        · exact tl (some fk) st2 hJ2 hk1'

theorem pack_cons (l : Bytes) (ls : List Bytes) : pack (l :: ls) = UInt8.ofNat l.length :: (l ++ pack ls) := by
  simp [pack]

theorem headOk_pack (ls : List Bytes) (h63 : ∀ l ∈ ls, l.length < 64) : HeadOk (pack ls) := by
  intro c hc
  cases ls with
  | nil =>
    have : c = 0 := by
      have h : (pack ([] : List Bytes)).head? = some 0 := rfl
      rw [h] at hc
      injection hc with hc
      exact hc.symm
    rw [this]; decide
  | cons l t =>
    rw [pack_cons] at hc
    have hl := h63 l (List.mem_cons_self ..)
    have : c = UInt8.ofNat l.length := by
      simp only [List.head?_cons] at hc
      injection hc with hc
      exact hc.symm
    rw [this, UInt8.toNat_ofNat_of_lt' (by show l.length < 256; omega)]
    exact hl

theorem isAuthoritativeV2_good (v : View) (hs : V2KeysOk v.store) (q : Bytes) (hq63 : Wf63 q) :
    GoodCut (isAuthoritativeV2 v q) := by
  have hq : Wf q := hq63.wf
  obtain ⟨ls, hls, h63⟩ := hq63.unpack
  have hhead : HeadOk (pack ls.reverse) := headOk_pack _ (fun l hl => h63 l (List.mem_reverse.mp hl))
  have hrw : reverseWire q = some (pack ls.reverse) := by unfold reverseWire; rw [hls]; rfl
  have hex := reverseWire_exact hrw
  have hlen : 1 ≤ (pack ls.reverse).length := List.length_pos_iff.mpr hex.ne_nil
  unfold isAuthoritativeV2
  rw [hrw]
  dsimp -zeta only
  extract_lets pre onRows post
  obtain ⟨st', hst', hJ⟩ := findGo_ok v (pack ls.reverse) pre onRows post (fun st => 1 ≤ st.2.2.1) hs hex hhead
    (fun ql st st1 h1 h => by cases h; exact h1)
    (fun rows st h => by
      simp only [onRows]
      split <;> exact h)
    (fun st h => h)
    ((pack ls.reverse).length + 2) (pack ls.reverse).length (false, false, 0, false) hlen (by omega)
    (Or.inr ⟨by omega, by intro h; cases h⟩)
  rw [hst']
  obtain ⟨ns, auth, zl, pn⟩ := st'
  show q.drop (q.length - (if ns = true then zl else 1)) ≠ []
  have hq1 : 1 ≤ q.length := List.length_pos_iff.mpr hq.ne_nil
  have hJ' : 1 ≤ zl := hJ
  have hk : 1 ≤ (if ns = true then zl else 1) := by
    by_cases hns : ns = true
    · rw [if_pos hns]; exact hJ'
    · rw [if_neg hns]; exact Nat.le_refl 1
  generalize (if ns = true then zl else 1) = k at hk
  intro h
  have := congrArg List.length h
  simp only [List.length_drop, List.length_nil] at this
  omega

theorem findAnswerV2_no_panic (v : View) (hs : V2KeysOk v.store) (q control qnameOut : Bytes) (qtype : Nat)
    (hq63 : Wf63 q) : findAnswerV2 v q control qnameOut qtype ≠ .panic := by
  have hq : Wf q := hq63.wf
  obtain ⟨ls, hls, h63⟩ := hq63.unpack
  have hhead : HeadOk (pack ls.reverse) := headOk_pack _ (fun l hl => h63 l (List.mem_reverse.mp hl))
  have hrw : reverseWire q = some (pack ls.reverse) := by unfold reverseWire; rw [hls]; rfl
  have hex := reverseWire_exact hrw
  have hlen : 1 ≤ (pack ls.reverse).length := List.length_pos_iff.mpr hex.ne_nil
  unfold findAnswerV2
  rw [hrw]
  dsimp -zeta only
  extract_lets pre onRows post
  obtain ⟨st', hst', _⟩ := findGo_ok v (pack ls.reverse) pre onRows post (fun _ => True) hs hex hhead
    (fun _ _ _ _ _ => trivial) (fun _ _ _ => trivial) (fun _ _ => trivial)
    ((pack ls.reverse).length + 2) (pack ls.reverse).length ({}, false, (pack ls.reverse).length) hlen (by omega)
    (Or.inl trivial)
  rw [hst']
  intro h
  cases h


/-! ### the canonical v2 key format satisfies `V2KeysOk` -/

theorem labels_pack : ∀ (ls : List Bytes) (t : Bytes) (fuel : Nat), GoodLabels ls → ls.length < fuel →
    labels fuel (pack ls ++ t) = some ls := by
  intro ls
  induction ls with
  | nil =>
    intro t fuel _ hf
    cases fuel with
    | zero => omega
    | succ fuel => rfl
  | cons l ls ih =>
    intro t fuel hg hf
    cases fuel with
    | zero => omega
    | succ fuel =>
      have hl := hg l (List.mem_cons_self ..)
      have hn : (UInt8.ofNat l.length).toNat = l.length := UInt8.toNat_ofNat_of_lt' hl.2
      have hlen : 0 < l.length := List.length_pos_iff.mpr hl.1
      rw [pack_cons, List.cons_append, labels]
      have hne : UInt8.ofNat l.length ≠ 0 := by
        intro h0
        rw [h0] at hn
        have : (0 : UInt8).toNat = 0 := rfl
        omega
      rw [if_neg hne, hn, if_neg (by simp)]
      have hd : (l ++ pack ls ++ t).drop l.length = pack ls ++ t := by
        rw [List.append_assoc, List.drop_left]
      have ht : (l ++ pack ls ++ t).take l.length = l := by
        rw [List.append_assoc, List.take_left]
      rw [hd, ht, ih t fuel (fun x hx => hg x (List.mem_cons_of_mem _ hx)) (by simp at hf; omega)]

theorem length_lt_pack (ls : List Bytes) : ls.length < (pack ls).length := by
  induction ls with
  | nil => decide
  | cons a t ih =>
    rw [pack_cons]
    simp only [List.length_cons, List.length_append]
    omega

/-- the canonical key format implies the hypothesis used by the v2 theorems -/
theorem V2KeysOk_of_canonical (s : Store)
    (h : ∀ e ∈ s, e.1.take 2 = Generated.dnsdata_ResourceRecordsKeyMarker →
      ∃ (ls : List Bytes) (loc : Bytes), GoodLabels ls ∧ loc.length = 2 ∧
        e.1 = Generated.dnsdata_ResourceRecordsKeyMarker ++ pack ls ++ loc) : V2KeysOk s := by
  intro e he hm
  obtain ⟨ls, loc, hg, hloc, hk⟩ := h e he hm
  have h1 : (e.1.drop 2).take (e.1.length - 4) = pack ls := by
    rw [hk]
    have : (Generated.dnsdata_ResourceRecordsKeyMarker ++ pack ls ++ loc).length - 4 = (pack ls).length := by
      simp only [List.length_append, hloc]
      show 2 + _ + 2 - 4 = _
      omega
    rw [this, List.append_assoc]
    show List.take _ (pack ls ++ loc) = _
    rw [List.take_left]
  left
  rw [h1]
  have := labels_pack ls [] ((pack ls).length + 1) hg (by
    have := length_lt_pack ls
    omega)
  rw [List.append_nil] at this
  unfold unpack
  rw [this]; rfl

/-! ### C04: location framing, v1 layouts -/

theorem get_cons (k' : Bytes) (vs : List Bytes) (s : Store) (k : Bytes) :
    Store.get ((k', vs) :: s) k = if k' = k then vs else Store.get s k := by
  unfold Store.get
  simp only [List.find?_cons]
  by_cases h : k' = k <;> simp [h]

section frame
variable {b : Backend} {s₁ s₂ : Store} {l : Bytes}
  (hl : l.length = 2)
  (h : ∀ k : Bytes, (k.take 2 = l ∨ k.take 2 = [0, 0]) → s₁.get k = s₂.get k)
include hl h

theorem get_loc (z : Bytes) : s₁.get (l ++ z) = s₂.get (l ++ z) :=
  h _ (Or.inl (List.take_left' hl))

omit hl in
theorem get_untagged (z : Bytes) : s₁.get ([0, 0] ++ z) = s₂.get ([0, 0] ++ z) :=
  h _ (Or.inr rfl)

theorem isAuthoritativeV1_frame : ∀ (fuel : Nat) (z : Bytes) (ns auth : Bool),
    isAuthoritativeV1 ⟨b, s₁, l⟩ fuel z ns auth = isAuthoritativeV1 ⟨b, s₂, l⟩ fuel z ns auth := by
  intro fuel
  induction fuel with
  | zero => intro z ns auth; rfl
  | succ fuel ih =>
    intro z ns auth
    simp only [isAuthoritativeV1, get_loc hl h, get_untagged h, ih]

theorem findAnswerV1_frame (control qnameOut : Bytes) (qtype : Nat) : ∀ (fuel : Nat) (q : Bytes) (w : Bool) (acc : Ans),
    findAnswerV1 ⟨b, s₁, l⟩ control qnameOut qtype fuel q w acc =
      findAnswerV1 ⟨b, s₂, l⟩ control qnameOut qtype fuel q w acc := by
  intro fuel
  induction fuel with
  | zero => intro q w acc; rfl
  | succ fuel ih =>
    intro q w acc
    simp only [findAnswerV1, get_loc hl h, get_untagged h, ih]

theorem rowsOf_frame (hb : b ≠ .rdbV2) (p : Bytes) : rowsOf ⟨b, s₁, l⟩ p = rowsOf ⟨b, s₂, l⟩ p := by
  have hv2 : ∀ s, View.v2 ⟨b, s, l⟩ = false := fun s => by simp [View.v2, hb]
  simp only [rowsOf, rrKey, hv2, Bool.false_eq_true, ↓reduceIte, Option.map_some, Option.getD_some,
    get_loc hl h, get_untagged h]

theorem serve_frame (hb : b ≠ .rdbV2) (q : Query) : serve ⟨b, s₁, l⟩ q = serve ⟨b, s₂, l⟩ q := by
  have hv2 : ∀ s, View.v2 ⟨b, s, l⟩ = false := fun s => by simp [View.v2, hb]
  have hA : ∀ z, isAuthoritative ⟨b, s₁, l⟩ z = isAuthoritative ⟨b, s₂, l⟩ z := by
    intro z
    simp only [isAuthoritative, hv2, Bool.false_eq_true, ↓reduceIte, isAuthoritativeV1_frame hl h]
  have hR := rowsOf_frame hl h hb
  have hSOA : ∀ z, findSOA ⟨b, s₁, l⟩ z = findSOA ⟨b, s₂, l⟩ z := by
    intro z; simp only [findSOA, hR]
  have hNs : ∀ z c, getNs ⟨b, s₁, l⟩ z c = getNs ⟨b, s₂, l⟩ z c := by
    intro z c; simp only [getNs, hR]
  have hAdd : ∀ c rs pr acc, additionalFor ⟨b, s₁, l⟩ c rs pr acc = additionalFor ⟨b, s₂, l⟩ c rs pr acc := by
    intro c rs pr acc; simp only [additionalFor, hR]
  simp only [serve, hv2, Bool.false_eq_true, ↓reduceIte, hA, hSOA, hNs, hAdd, findAnswerV1_frame hl h]

end frame


/-! ### C04: the specification looks at visible records only -/

section spec
open DnsVerif.Spec

theorem filter_vis_filter (l : Bytes) (recs : List Rec) (f : Rec → Bool) (hf : ∀ r, f r = true → visible l r = true) :
    (recs.filter (visible l)).filter f = recs.filter f := by
  rw [List.filter_filter]
  apply List.filter_congr
  intro r _
  cases hfr : f r with
  | false => simp
  | true => simp [hf r hfr]

theorem filter_vis_any (l : Bytes) (recs : List Rec) (f : Rec → Bool) (hf : ∀ r, f r = true → visible l r = true) :
    (recs.filter (visible l)).any f = recs.any f := by
  rw [List.any_filter]
  induction recs with
  | nil => rfl
  | cons a t ih =>
    simp only [List.any_cons, ih]
    cases hfr : f a with
    | false => simp
    | true => simp [hf a hfr]

theorem filter_vis_find (l : Bytes) (recs : List Rec) (f : Rec → Bool) (hf : ∀ r, f r = true → visible l r = true) :
    (recs.filter (visible l)).find? f = recs.find? f := by
  induction recs with
  | nil => rfl
  | cons a t ih =>
    rw [List.filter_cons]
    cases hv : visible l a with
    | true =>
      simp only [if_true, List.find?_cons, ih]
    | false =>
      have : f a = false := by
        cases hfa : f a with
        | false => rfl
        | true => rw [hf a hfa] at hv; cases hv
      simp only [Bool.false_eq_true, if_false, List.find?_cons, this, ih]

theorem recordsFor_up_frame (l : Bytes) (recs : List Rec) (cut : List Bytes) : ∀ q,
    recordsFor.up (recs.filter (visible l)) l cut q = recordsFor.up recs l cut q := by
  intro q
  induction q with
  | nil => rfl
  | cons lab rest ih =>
    simp only [recordsFor.up, ih]
    rw [filter_vis_filter l recs _ (by intro r hr; simp only [decide_eq_true_eq] at hr; exact hr.2.2)]

theorem recordsFor_frame (l : Bytes) (recs : List Rec) (q cut : List Bytes) :
    recordsFor (recs.filter (visible l)) l q cut = recordsFor recs l q cut := by
  simp only [recordsFor, recordsFor_up_frame]
  rw [filter_vis_filter l recs _ (by intro r hr; simp only [decide_eq_true_eq] at hr; exact hr.2.2)]

theorem spec_frame' (z : Zone) (q : List Bytes) (qtype qclass maxAns : Nat) (l : Bytes) :
    answer { z with recs := z.recs.filter (visible l) } q qtype qclass maxAns l =
      answer z q qtype qclass maxAns l := by
  have hany : ∀ f : Rec → Bool, (∀ r, f r = true → visible l r = true) →
      (z.recs.filter (visible l)).any f = z.recs.any f := filter_vis_any l z.recs
  have hfil : ∀ f : Rec → Bool, (∀ r, f r = true → visible l r = true) →
      (z.recs.filter (visible l)).filter f = z.recs.filter f := filter_vis_filter l z.recs
  have hfind : ∀ f : Rec → Bool, (∀ r, f r = true → visible l r = true) →
      (z.recs.filter (visible l)).find? f = z.recs.find? f := filter_vis_find l z.recs
  unfold answer
  simp (maxSteps := 400000) (disch := intro r hr; simp only [decide_eq_true_eq] at hr; first | exact hr.2.2.2 | exact hr.2.2.2.1) only [recordsFor_frame, hany, hfil, hfind]


end spec

end DnsVerif.ServeSafety
