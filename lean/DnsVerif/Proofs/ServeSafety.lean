/-
Helper lemmas for C13 (the query path never panics, replies are well formed) and C04 (location
framing). Core Lean only.
-/
import DnsVerif.Model.Serve
import DnsVerif.Spec.Answer

namespace DnsVerif.ServeSafety
open DnsVerif DnsVerif.Name DnsVerif.Loc DnsVerif.Serve

/-! ### well-formed wire names -/

/-- `z` starts with a well-formed wire-format name (`labels` succeeds with some fuel) -/
def Wf (z : Bytes) : Prop := ∃ fuel ls, labels fuel z = some ls

theorem Wf.of_unpack {q : Bytes} {ls : List Bytes} (h : unpack q = some ls) : Wf q :=
  ⟨_, ls, h⟩

theorem Wf.ne_nil {z : Bytes} (h : Wf z) : z ≠ [] := by
  obtain ⟨fuel, ls, h⟩ := h
  intro hz
  subst hz
  cases fuel <;> simp [labels] at h

theorem Wf.parent {n : UInt8} {rest : Bytes} (h : Wf (n :: rest)) (hn : n ≠ 0) :
    n.toNat ≤ rest.length ∧ Wf (rest.drop n.toNat) := by
  obtain ⟨fuel, ls, h⟩ := h
  cases fuel with
  | zero => simp [labels] at h
  | succ fuel =>
    simp only [labels] at h
    rw [if_neg hn] at h
    split at h
    · cases h
    · rename_i hlen
      split at h
      · rename_i ls' hls'
        exact ⟨Nat.le_of_not_lt hlen, fuel, ls', hls'⟩
      · cases h

/-- `labels` does not depend on the fuel once it is larger than the length -/
theorem labels_fuel : ∀ (f : Nat) (z : Bytes) (ls : List Bytes) (f' : Nat),
    labels f z = some ls → z.length < f' → labels f' z = some ls := by
  intro f
  induction f with
  | zero => intro z ls f' h; simp [labels] at h
  | succ f ih =>
    intro z ls f' h hf'
    cases z with
    | nil => simp [labels] at h
    | cons n rest =>
      cases f' with
      | zero => omega
      | succ f' =>
        simp only [labels] at h ⊢
        by_cases hn : n = 0
        · rw [if_pos hn] at h ⊢; exact h
        · rw [if_neg hn] at h ⊢
          by_cases hlen : rest.length < n.toNat
          · rw [if_pos hlen] at h; cases h
          · rw [if_neg hlen] at h ⊢
            split at h
            · rename_i ls' hls'
              have := ih (rest.drop n.toNat) ls' f' hls' (by
                simp only [List.length_drop, List.length_cons] at hf' ⊢; omega)
              rw [this]; exact h
            · cases h

theorem Wf.unpack {z : Bytes} (h : Wf z) : ∃ ls, unpack z = some ls := by
  obtain ⟨fuel, ls, h⟩ := h
  exact ⟨ls, labels_fuel fuel z ls _ h (Nat.lt_succ_self _)⟩

/-! ### the zone-cut walk of the v1 layouts -/

/-- the result of `isAuthoritative` is not a panic and its zone cut is not empty -/
def GoodCut : R Cut → Prop
  | .ok c => c.zoneCut ≠ []
  | .err => True
  | .panic => False

theorem isAuthoritativeV1_good (v : View) : ∀ (fuel : Nat) (z : Bytes) (ns auth : Bool),
    Wf z → GoodCut (isAuthoritativeV1 v fuel z ns auth) := by
  intro fuel
  induction fuel with
  | zero => intro z ns auth hz; exact hz.ne_nil
  | succ fuel ih =>
    intro z ns auth hz
    unfold isAuthoritativeV1
    simp only []
    split
    · trivial
    · split
      · trivial
      · split
        · exact hz.ne_nil
        · split
          · exact absurd rfl hz.ne_nil
          · rename_i n rest
            split
            · exact hz.ne_nil
            · rename_i hn
              exact ih _ _ _ (hz.parent hn).2

end DnsVerif.ServeSafety
