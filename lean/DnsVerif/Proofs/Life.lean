/-
Helper lemmas for C06 (backend life cycle invariant).
-/
import DnsVerif.Model.Life

namespace DnsVerif.Life

end DnsVerif.Life
