/-
Helper lemmas for C06 (backend life cycle invariant).
-/
import DnsVerif.Model.Life

namespace DnsVerif.Life

/-! ### list helpers -/

theorem getElem?_modifyAt {α} (l : List α) (i j : Nat) (f : α → α) :
    (modifyAt l i f)[j]? = if i = j then l[j]?.map f else l[j]? := by
  unfold modifyAt
  cases h : l[i]? with
  | none =>
    by_cases hij : i = j
    · subst hij; simp [h]
    · simp [hij]
  | some a =>
    obtain ⟨hi, hia⟩ := List.getElem?_eq_some_iff.1 h
    by_cases hij : i = j
    · subst hij; simp [hi, hia]
    · simp [hij]

theorem length_modifyAt {α} (l : List α) (i : Nat) (f : α → α) :
    (modifyAt l i f).length = l.length := by
  unfold modifyAt
  cases l[i]? <;> simp

theorem modifyAt_id {α} (l : List α) (i : Nat) (f : α → α)
    (h : ∀ a, l[i]? = some a → f a = a) : modifyAt l i f = l := by
  apply List.ext_getElem?
  intro j
  rw [getElem?_modifyAt]
  by_cases hij : i = j
  · subst hij
    rw [if_pos rfl]
    cases h' : l[i]? with
    | none => rfl
    | some a => simp [h a h']
  · rw [if_neg hij]

theorem count_eraseIdx_add {l : List Nat} {i a : Nat} (h : l[i]? = some a) (b : Nat) :
    (l.eraseIdx i).count b + (if b = a then 1 else 0) = l.count b := by
  induction l generalizing i with
  | nil => simp at h
  | cons c l ih =>
    cases i with
    | zero =>
      simp at h
      subst h
      simp [List.count_cons]
      by_cases hb : b = c
      · subst hb; simp
      · have : ¬ c = b := fun e => hb e.symm
        simp [hb, this]
    | succ i =>
      simp at h
      have := ih h
      simp [List.count_cons]
      omega

/-! ### primitive effects -/

theorem modifyAt_some {α} {l : List α} {i : Nat} {a : α} (f : α → α) (h : l[i]? = some a) :
    modifyAt l i f = l.set i (f a) := by
  simp [modifyAt, h]

theorem set_eq_self {α} {l : List α} {i : Nat} {a : α} (h : l[i]? = some a) : l.set i a = l := by
  obtain ⟨hi, hia⟩ := List.getElem?_eq_some_iff.1 h
  subst hia
  exact List.set_getElem_self hi

theorem touch_eq_self (s : St) (b : Nat) (h : ∀ x, s.backends[b]? = some x → x.closes = 0) :
    touch s b = s := by
  unfold touch
  rw [modifyAt_id]
  intro a ha
  simp [Backend.isOpen, h a ha]

@[simp] theorem touch_wrappers (s : St) (b : Nat) : (touch s b).wrappers = s.wrappers := rfl

theorem wrapperDbi_eq {s : St} {w : Nat} {wr : Wrapper} (h : s.wrappers[w]? = some wr) :
    wrapperDbi s w = wr.dbi := by
  simp [wrapperDbi, h]

theorem pin_eq {s : St} {w : Nat} {wr : Wrapper} (h : s.wrappers[w]? = some wr) :
    pin s w = { s with wrappers := s.wrappers.set w { wr with refCount := wr.refCount + 1 } } := by
  simp [pin, h]

theorem newReader_eq_pin {s : St} {w : Nat} {wr : Wrapper} {x : Backend}
    (h : s.wrappers[w]? = some wr) (hx : s.backends[wr.dbi]? = some x) (hc : x.closes = 0) :
    newReader s w = pin s w := by
  rw [pin_eq h]
  simp only [newReader, h]
  apply touch_eq_self
  intro y hy
  simp only [hx] at hy
  cases hy; exact hc

theorem closeReader_eq_unref {s : St} {w : Nat} {wr : Wrapper} {x : Backend}
    (h : s.wrappers[w]? = some wr) (hx : s.backends[wr.dbi]? = some x) (hc : x.closes = 0) :
    closeReader s w = unref s w := by
  simp only [closeReader, h]
  rw [touch_eq_self]
  intro y hy
  simp only [hx] at hy
  cases hy; exact hc

theorem unref_eq {s : St} {w : Nat} {wr : Wrapper} {x : Backend}
    (h : s.wrappers[w]? = some wr) (hx : s.backends[wr.dbi]? = some x) :
    unref s w = { s with
      wrappers := s.wrappers.set w { wr with refCount := wr.refCount - 1 }
      backends := if wr.destroyable = true ∧ wr.refCount - 1 = 0
        then s.backends.set wr.dbi { x with closes := x.closes + 1 } else s.backends } := by
  simp only [unref, h]
  split
  · simp [closeBackend, modifyAt_some _ hx]
  · rfl

theorem destroy_eq {s : St} {w : Nat} {wr : Wrapper} {x : Backend}
    (h : s.wrappers[w]? = some wr) (hx : s.backends[wr.dbi]? = some x) :
    destroy s w = { s with
      wrappers := s.wrappers.set w { wr with destroyable := true }
      backends := if wr.refCount = 0
        then s.backends.set wr.dbi { x with closes := x.closes + 1 } else s.backends } := by
  simp only [destroy, h]
  split
  · simp [closeBackend, modifyAt_some _ hx]
  · rfl

theorem validate_eq_self {s : St} {w : Nat} {wr : Wrapper} {x : Backend}
    (h : s.wrappers[w]? = some wr) (hx : s.backends[wr.dbi]? = some x) (hc : x.closes = 0)
    (hd : wr.destroyable = false) : validate s w = s := by
  have hwl : w < s.wrappers.length := (List.getElem?_eq_some_iff.1 h).1
  unfold validate
  simp only
  rw [newReader_eq_pin h hx hc, pin_eq h]
  have h' : ({ s with wrappers := s.wrappers.set w { wr with refCount := wr.refCount + 1 } } : St).wrappers[w]?
      = some { wr with refCount := wr.refCount + 1 } := by simp [hwl]
  rw [wrapperDbi_eq h', touch_eq_self _ _ (by intro y hy; simp only [hx] at hy; cases hy; exact hc)]
  rw [closeReader_eq_unref h' hx hc, unref_eq h' hx]
  cases s
  cases wr
  simp only at hd h ⊢
  subst hd
  simp [set_eq_self h]

/-! ### the invariant -/

/-- number of references held on wrapper `w`: readers plus still-running reload goroutines -/
def cnt (s : St) (w : Nat) : Nat := s.readers.count w + (s.pending.map (·.w)).count w

/-- wrapper `w` keeps its backend open: it is referenced, or it is the served one -/
def Holder (s : St) (w : Nat) (wr : Wrapper) : Prop :=
  0 < wr.refCount ∨ (s.down = false ∧ w = s.served)

structure Inv (s : St) : Prop where
  served_lt : s.served < s.wrappers.length
  readers_lt : ∀ r ∈ s.readers, r < s.wrappers.length
  pending_ok : ∀ p ∈ s.pending, ∃ wr : Wrapper, s.wrappers[p.w]? = some wr ∧ p.on = wr.dbi
  dbi_lt : ∀ (w : Nat) (wr : Wrapper), s.wrappers[w]? = some wr → wr.dbi < s.backends.length
  rc : ∀ (w : Nat) (wr : Wrapper), s.wrappers[w]? = some wr → wr.refCount = cnt s w
  d1 : ∀ wr : Wrapper, s.wrappers[s.served]? = some wr → s.down = false → wr.destroyable = false
  d2 : ∀ (w : Nat) (wr : Wrapper), s.wrappers[w]? = some wr → 0 < wr.refCount → (s.down = true ∨ w ≠ s.served) →
    wr.destroyable = true
  h1 : ∀ (w : Nat) (wr : Wrapper) (x : Backend), s.wrappers[w]? = some wr → s.backends[wr.dbi]? = some x → Holder s w wr →
    x.closes = 0
  uniq : ∀ (w w' : Nat) (wr wr' : Wrapper), s.wrappers[w]? = some wr → s.wrappers[w']? = some wr' → wr.dbi = wr'.dbi →
    Holder s w wr → Holder s w' wr' → w = w'
  safe : ∀ (b : Nat) (x : Backend), s.backends[b]? = some x → x.closes ≤ 1 ∧ x.badUses = 0
  owned : ∀ (b : Nat) (x : Backend), s.backends[b]? = some x → x.closes = 0 →
    ∃ w : Nat, ∃ wr : Wrapper, s.wrappers[w]? = some wr ∧ wr.dbi = b ∧ Holder s w wr

/-! ### abstract transitions preserving the invariant -/

theorem Inv.unref_like {s s' : St} (h : Inv s) {w : Nat} {wr : Wrapper} {x : Backend}
    (hw : s.wrappers[w]? = some wr) (hx : s.backends[wr.dbi]? = some x) (hpos : 0 < wr.refCount)
    (hW : s'.wrappers = s.wrappers.set w { wr with refCount := wr.refCount - 1 })
    (hB : s'.backends = if wr.destroyable = true ∧ wr.refCount - 1 = 0
      then s.backends.set wr.dbi { x with closes := x.closes + 1 } else s.backends)
    (hs : s'.served = s.served) (hd : s'.down = s.down)
    (hr : ∀ r ∈ s'.readers, r ∈ s.readers) (hp : ∀ p ∈ s'.pending, p ∈ s.pending)
    (hc : ∀ j, cnt s' j + (if j = w then 1 else 0) = cnt s j) : Inv s' := by
  have hwl : w < s.wrappers.length := (List.getElem?_eq_some_iff.1 hw).1
  have hbl : wr.dbi < s.backends.length := (List.getElem?_eq_some_iff.1 hx).1
  have hWg : ∀ j, s'.wrappers[j]? = if j = w then some { wr with refCount := wr.refCount - 1 } else s.wrappers[j]? := by
    intro j; rw [hW, List.getElem?_set]; grind
  have hBg : ∀ b, s'.backends[b]? = if wr.destroyable = true ∧ wr.refCount - 1 = 0 ∧ b = wr.dbi
      then some { x with closes := x.closes + 1 } else s.backends[b]? := by
    intro b; rw [hB]; split <;> grind
  have hWl : s'.wrappers.length = s.wrappers.length := by rw [hW]; simp
  have hBl : s'.backends.length = s.backends.length := by rw [hB]; split <;> simp
  have hH : Holder s w wr := Or.inl hpos
  have hxc : x.closes = 0 := h.h1 w wr x hw hx hH
  have hHold : ∀ j wrj wrj', s'.wrappers[j]? = some wrj' → s.wrappers[j]? = some wrj →
      Holder s' j wrj' → Holder s j wrj := by
    intro j wrj wrj' h1 h2 h3
    have := hWg j
    unfold Holder at *
    grind
  have hOld : ∀ j wrj, s'.wrappers[j]? = some wrj → ∃ o : Wrapper, s.wrappers[j]? = some o ∧
      o.dbi = wrj.dbi ∧ (Holder s' j wrj → Holder s j o) := by
    intro j wrj hj
    have := hWg j
    by_cases hjw : j = w
    · subst hjw
      refine ⟨wr, hw, ?_, fun _ => hH⟩
      grind
    · exact ⟨wrj, by grind, rfl, hHold j wrj wrj hj (by grind)⟩
  clear hW hB
  constructor
  · rw [hWl, hs]; exact h.served_lt
  · intro r hr'; rw [hWl]; exact h.readers_lt r (hr r hr')
  · intro p hp'
    obtain ⟨wr0, h1, h2⟩ := h.pending_ok p (hp p hp')
    have := hWg p.w
    grind
  · intro j wrj hj
    have := hWg j
    have := h.dbi_lt j
    grind
  · intro j wrj hj
    have := hWg j
    have := h.rc j
    have := hc j
    grind
  · intro wrj hj hdn
    have := hWg s.served
    have := h.d1
    grind
  · intro j wrj hj hp hh
    have := hWg j
    have := h.d2 j
    grind
  · intro j wrj y hj hy hH'
    have e1 := hWg j
    have e2 := hBg wrj.dbi
    by_cases hjw : j = w
    · subst hjw
      have := h.d1 wr
      unfold Holder at hH'
      grind
    · rw [if_neg hjw] at e1
      have hHj := hHold j wrj wrj hj (e1 ▸ hj) hH'
      have := h.uniq j w wrj wr (e1 ▸ hj) hw
      have := h.h1 j wrj
      grind
  · intro j j' wrj wrj' hj hj' hdbi hH1 hH2
    obtain ⟨o, ho1, ho2, ho3⟩ := hOld j wrj hj
    obtain ⟨o', ho1', ho2', ho3'⟩ := hOld j' wrj' hj'
    exact h.uniq j j' o o' ho1 ho1' (by omega) (ho3 hH1) (ho3' hH2)
  · intro b y hy
    have := hBg b
    have := h.safe b
    grind
  · intro b y hy hy0
    have e := hBg b
    have hy' : s.backends[b]? = some y := by grind
    obtain ⟨j, wrj, hj, hdb, hHj⟩ := h.owned b y hy' hy0
    by_cases hjw : j = w
    · subst hjw
      refine ⟨j, { wr with refCount := wr.refCount - 1 }, by grind, by grind, ?_⟩
      have := h.d2 j wr hw hpos
      unfold Holder at *
      grind
    · refine ⟨j, wrj, by grind, hdb, ?_⟩
      unfold Holder at *
      grind


theorem Inv.pin_like {s s' : St} (h : Inv s) {wr : Wrapper} (hdn : s.down = false)
    (hw : s.wrappers[s.served]? = some wr)
    (hW : s'.wrappers = s.wrappers.set s.served { wr with refCount := wr.refCount + 1 })
    (hB : s'.backends = s.backends) (hs : s'.served = s.served) (hd : s'.down = s.down)
    (hr : ∀ r ∈ s'.readers, r ∈ s.readers ∨ r = s.served)
    (hp : ∀ p ∈ s'.pending, p ∈ s.pending ∨ (p.w = s.served ∧ p.on = wr.dbi))
    (hc : ∀ j, cnt s' j = cnt s j + (if j = s.served then 1 else 0)) : Inv s' := by
  have hwl : s.served < s.wrappers.length := h.served_lt
  have hWg : ∀ j, s'.wrappers[j]? = if j = s.served then some { wr with refCount := wr.refCount + 1 } else s.wrappers[j]? := by
    intro j; rw [hW, List.getElem?_set]; grind
  have hWl : s'.wrappers.length = s.wrappers.length := by rw [hW]; simp
  have hOld : ∀ j wrj, s'.wrappers[j]? = some wrj → ∃ o : Wrapper, s.wrappers[j]? = some o ∧
      o.dbi = wrj.dbi ∧ (Holder s' j wrj → Holder s j o) := by
    intro j wrj hj
    have := hWg j
    by_cases hjw : j = s.served
    · subst hjw
      refine ⟨wr, hw, by grind, fun _ => Or.inr ⟨hdn, rfl⟩⟩
    · refine ⟨wrj, by grind, rfl, ?_⟩
      unfold Holder; grind
  clear hW
  constructor
  · rw [hWl, hs]; exact h.served_lt
  · intro r hr'; rw [hWl]
    rcases hr r hr' with h1 | h1
    · exact h.readers_lt r h1
    · rw [h1]; exact hwl
  · intro p hp'
    have := hWg p.w
    rcases hp p hp' with h1 | ⟨h1, h2⟩
    · obtain ⟨wr0, h3, h4⟩ := h.pending_ok p h1
      grind
    · grind
  · intro j wrj hj
    obtain ⟨o, ho1, ho2, _⟩ := hOld j wrj hj
    rw [hB, ← ho2]; exact h.dbi_lt j o ho1
  · intro j wrj hj
    have := hWg j
    have := h.rc j
    have := hc j
    grind
  · intro wrj hj hdn
    have := hWg s.served
    have := h.d1
    grind
  · intro j wrj hj hp hh
    have := hWg j
    have := h.d2 j
    grind
  · intro j wrj y hj hy hH'
    obtain ⟨o, ho1, ho2, ho3⟩ := hOld j wrj hj
    rw [hB, ← ho2] at hy
    exact h.h1 j o y ho1 hy (ho3 hH')
  · intro j j' wrj wrj' hj hj' hdbi hH1 hH2
    obtain ⟨o, ho1, ho2, ho3⟩ := hOld j wrj hj
    obtain ⟨o', ho1', ho2', ho3'⟩ := hOld j' wrj' hj'
    exact h.uniq j j' o o' ho1 ho1' (by omega) (ho3 hH1) (ho3' hH2)
  · intro b y hy
    rw [hB] at hy
    exact h.safe b y hy
  · intro b y hy hy0
    rw [hB] at hy
    obtain ⟨j, wrj, hj, hdb, hHj⟩ := h.owned b y hy hy0
    have := hWg j
    by_cases hjw : j = s.served
    · subst hjw
      refine ⟨s.served, { wr with refCount := wr.refCount + 1 }, by grind, by grind, Or.inl (by simp)⟩
    · refine ⟨j, wrj, by grind, hdb, ?_⟩
      unfold Holder at *
      grind

/-- a backend that is opened and closed at once -/
theorem Inv.open_close {s s' : St} (h : Inv s)
    (hB : s'.backends = s.backends ++ [{ closes := 1 }])
    (hW : s'.wrappers = s.wrappers) (hs : s'.served = s.served) (hd : s'.down = s.down)
    (hr : s'.readers = s.readers) (hp : s'.pending = s.pending) : Inv s' := by
  have hc : ∀ j, cnt s' j = cnt s j := by intro j; simp [cnt, hr, hp]
  have hH : ∀ j wrj, Holder s' j wrj ↔ Holder s j wrj := by intro j wrj; simp [Holder, hs, hd]
  have hBg : ∀ (b : Nat) (y : Backend), s'.backends[b]? = some y → s.backends[b]? = some y ∨ y.closes = 1 := by
    intro b y hy
    rw [hB, List.getElem?_append] at hy
    grind
  have hBo : ∀ (b : Nat) (y : Backend), s.backends[b]? = some y → s'.backends[b]? = some y := by
    intro b y hy
    rw [hB, List.getElem?_append]
    grind
  constructor
  · rw [hW, hs]; exact h.served_lt
  · rw [hW, hr]; exact h.readers_lt
  · rw [hW, hp]; exact h.pending_ok
  · intro j wrj hj
    rw [hW] at hj
    have := h.dbi_lt j wrj hj
    rw [hB]; simp; omega
  · intro j wrj hj
    rw [hW] at hj
    rw [hc]; exact h.rc j wrj hj
  · rw [hW, hs, hd]; exact h.d1
  · rw [hW, hs, hd]; exact h.d2
  · intro j wrj y hj hy hH'
    rw [hW] at hj
    have hlt := h.dbi_lt j wrj hj
    obtain ⟨y0, hy0⟩ : ∃ y0, s.backends[wrj.dbi]? = some y0 := ⟨_, List.getElem?_eq_getElem hlt⟩
    have := hBo _ _ hy0
    rw [hy] at this
    cases this
    exact h.h1 j wrj y hj hy0 ((hH j wrj).1 hH')
  · intro j j' wrj wrj' hj hj' hdbi hH1 hH2
    rw [hW] at hj hj'
    exact h.uniq j j' wrj wrj' hj hj' hdbi ((hH _ _).1 hH1) ((hH _ _).1 hH2)
  · intro b y hy
    rcases hBg b y hy with h1 | h1
    · exact h.safe b y h1
    · rw [hB, List.getElem?_append] at hy
      have := h.safe b
      grind
  · intro b y hy hy0
    rcases hBg b y hy with h1 | h1
    · obtain ⟨j, wrj, hj, hdb, hHj⟩ := h.owned b y h1 hy0
      exact ⟨j, wrj, by rw [hW]; exact hj, hdb, (hH _ _).2 hHj⟩
    · omega

/-- a wrapper nobody refers to is added (catch-up candidates, rejected candidates) -/
theorem Inv.add_idle {s s' : St} (h : Inv s) {d : Nat} {de : Bool} (hdl : d < s.backends.length)
    (hW : s'.wrappers = s.wrappers ++ [{ dbi := d, refCount := 0, destroyable := de }])
    (hB : s'.backends = s.backends) (hs : s'.served = s.served) (hd : s'.down = s.down)
    (hr : s'.readers = s.readers) (hp : s'.pending = s.pending) : Inv s' := by
  have hc : ∀ j, cnt s' j = cnt s j := by intro j; simp [cnt, hr, hp]
  have hH : ∀ j wrj, Holder s' j wrj ↔ Holder s j wrj := by intro j wrj; simp [Holder, hs, hd]
  have hsl := h.served_lt
  have hWo : ∀ (j : Nat) (wrj : Wrapper), s.wrappers[j]? = some wrj → s'.wrappers[j]? = some wrj := by
    intro j wrj hj
    rw [hW, List.getElem?_append]
    grind
  have hWg : ∀ (j : Nat) (wrj : Wrapper), s'.wrappers[j]? = some wrj → s.wrappers[j]? = some wrj ∨
      (j = s.wrappers.length ∧ wrj = { dbi := d, refCount := 0, destroyable := de }) := by
    intro j wrj hj
    rw [hW, List.getElem?_append] at hj
    grind
  have hc0 : cnt s s.wrappers.length = 0 := by
    unfold cnt
    have h1 : s.readers.count s.wrappers.length = 0 := by
      rw [List.count_eq_zero]
      intro hm
      exact Nat.lt_irrefl _ (h.readers_lt _ hm)
    have h2 : (s.pending.map (·.w)).count s.wrappers.length = 0 := by
      rw [List.count_eq_zero]
      intro hm
      obtain ⟨p, hp1, hp2⟩ := List.mem_map.1 hm
      obtain ⟨wr0, h3, _⟩ := h.pending_ok p hp1
      have := (List.getElem?_eq_some_iff.1 h3).1
      omega
    omega
  constructor
  · rw [hW, hs]; simp; omega
  · intro r hr'
    rw [hr] at hr'
    have := h.readers_lt r hr'
    rw [hW]; simp; omega
  · intro p hp'
    rw [hp] at hp'
    obtain ⟨wr0, h3, h4⟩ := h.pending_ok p hp'
    exact ⟨wr0, hWo _ _ h3, h4⟩
  · intro j wrj hj
    rw [hB]
    rcases hWg j wrj hj with h1 | ⟨h1, h2⟩
    · exact h.dbi_lt j wrj h1
    · subst h2; exact hdl
  · intro j wrj hj
    rw [hc]
    rcases hWg j wrj hj with h1 | ⟨h1, h2⟩
    · exact h.rc j wrj h1
    · subst h2 h1; simp [hc0]
  · intro wrj hj
    rw [hs] at hj; rw [hd]
    rcases hWg _ wrj hj with h1 | ⟨h1, h2⟩
    · exact h.d1 wrj h1
    · omega
  · intro j wrj hj
    rw [hs, hd]
    rcases hWg _ wrj hj with h1 | ⟨h1, h2⟩
    · exact h.d2 j wrj h1
    · subst h2; simp
  · intro j wrj y hj hy hH'
    rw [hB] at hy
    rcases hWg _ wrj hj with h1 | ⟨h1, h2⟩
    · exact h.h1 j wrj y h1 hy ((hH _ _).1 hH')
    · subst h2
      unfold Holder at hH'
      simp at hH'
      omega
  · intro j j' wrj wrj' hj hj' hdbi hH1 hH2
    have hno : ∀ (j : Nat) (wrj : Wrapper), s'.wrappers[j]? = some wrj → Holder s' j wrj → s.wrappers[j]? = some wrj := by
      intro j wrj hj hH'
      rcases hWg _ wrj hj with h1 | ⟨h1, h2⟩
      · exact h1
      · subst h2
        unfold Holder at hH'
        simp at hH'
        omega
    exact h.uniq j j' wrj wrj' (hno _ _ hj hH1) (hno _ _ hj' hH2) hdbi ((hH _ _).1 hH1) ((hH _ _).1 hH2)
  · rw [hB]; exact h.safe
  · intro b y hy hy0
    rw [hB] at hy
    obtain ⟨j, wrj, hj, hdb, hHj⟩ := h.owned b y hy hy0
    exact ⟨j, wrj, hWo _ _ hj, hdb, (hH _ _).2 hHj⟩


/-- `Destroy` of the served wrapper at shutdown -/
theorem Inv.shutdown_like {s s' : St} (h : Inv s) (hdn : s.down = false) {wr : Wrapper} {x : Backend}
    (hw : s.wrappers[s.served]? = some wr) (hx : s.backends[wr.dbi]? = some x)
    (hW : s'.wrappers = s.wrappers.set s.served { wr with destroyable := true })
    (hB : s'.backends = if wr.refCount = 0
      then s.backends.set wr.dbi { x with closes := x.closes + 1 } else s.backends)
    (hs : s'.served = s.served) (hd : s'.down = true)
    (hr : s'.readers = s.readers) (hp : s'.pending = s.pending) : Inv s' := by
  have hc : ∀ j, cnt s' j = cnt s j := by intro j; simp [cnt, hr, hp]
  have hwl : s.served < s.wrappers.length := h.served_lt
  have hbl : wr.dbi < s.backends.length := (List.getElem?_eq_some_iff.1 hx).1
  have hWg : ∀ j, s'.wrappers[j]? = if j = s.served then some { wr with destroyable := true } else s.wrappers[j]? := by
    intro j; rw [hW, List.getElem?_set]; grind
  have hBg : ∀ b, s'.backends[b]? = if wr.refCount = 0 ∧ b = wr.dbi
      then some { x with closes := x.closes + 1 } else s.backends[b]? := by
    intro b; rw [hB]; split <;> grind
  have hWl : s'.wrappers.length = s.wrappers.length := by rw [hW]; simp
  have hBl : s'.backends.length = s.backends.length := by rw [hB]; split <;> simp
  have hH : Holder s s.served wr := Or.inr ⟨hdn, rfl⟩
  have hxc : x.closes = 0 := h.h1 _ wr x hw hx hH
  have hOld : ∀ j wrj, s'.wrappers[j]? = some wrj → ∃ o : Wrapper, s.wrappers[j]? = some o ∧
      o.dbi = wrj.dbi ∧ o.refCount = wrj.refCount ∧ (Holder s' j wrj → Holder s j o) := by
    intro j wrj hj
    have := hWg j
    by_cases hjw : j = s.served
    · subst hjw
      refine ⟨wr, hw, by grind, by grind, fun _ => hH⟩
    · refine ⟨wrj, by grind, rfl, rfl, ?_⟩
      unfold Holder; grind
  clear hW hB
  constructor
  · rw [hWl, hs]; exact h.served_lt
  · intro r hr'; rw [hWl]; rw [hr] at hr'; exact h.readers_lt r hr'
  · intro p hp'
    rw [hp] at hp'
    obtain ⟨wr0, h1, h2⟩ := h.pending_ok p hp'
    have := hWg p.w
    grind
  · intro j wrj hj
    obtain ⟨o, ho1, ho2, _⟩ := hOld j wrj hj
    rw [hBl, ← ho2]; exact h.dbi_lt j o ho1
  · intro j wrj hj
    obtain ⟨o, ho1, _, ho2, _⟩ := hOld j wrj hj
    rw [hc, ← ho2]; exact h.rc j o ho1
  · intro wrj hj hdn'
    rw [hd] at hdn'; cases hdn'
  · intro j wrj hj hp hh
    have := hWg j
    have := h.d2 j
    grind
  · intro j wrj y hj hy hH'
    obtain ⟨o, ho1, ho2, ho3, ho4⟩ := hOld j wrj hj
    have e2 := hBg wrj.dbi
    have := h.uniq j s.served o wr ho1 hw
    have := h.h1 j o y ho1
    have := ho4 hH'
    unfold Holder at hH'
    grind
  · intro j j' wrj wrj' hj hj' hdbi hH1 hH2
    obtain ⟨o, ho1, ho2, _, ho3⟩ := hOld j wrj hj
    obtain ⟨o', ho1', ho2', _, ho3'⟩ := hOld j' wrj' hj'
    exact h.uniq j j' o o' ho1 ho1' (by omega) (ho3 hH1) (ho3' hH2)
  · intro b y hy
    have := hBg b
    have := h.safe b
    grind
  · intro b y hy hy0
    have e := hBg b
    have hy' : s.backends[b]? = some y := by grind
    obtain ⟨j, wrj, hj, hdb, hHj⟩ := h.owned b y hy' hy0
    by_cases hjw : j = s.served
    · subst hjw
      refine ⟨s.served, { wr with destroyable := true }, by grind, by grind, ?_⟩
      unfold Holder at *
      grind
    · refine ⟨j, wrj, by grind, hdb, ?_⟩
      unfold Holder at *
      grind

/-- a new backend is opened, wrapped, and replaces the served wrapper, which is destroyed -/
theorem Inv.switch_like {s s' : St} (h : Inv s) (hdn : s.down = false) {wr : Wrapper} {x : Backend}
    (hw : s.wrappers[s.served]? = some wr) (hx : s.backends[wr.dbi]? = some x)
    (hW : s'.wrappers = (s.wrappers ++ [({ dbi := s.backends.length } : Wrapper)]).set s.served
      { wr with destroyable := true })
    (hB : s'.backends = if wr.refCount = 0
      then (s.backends ++ [({} : Backend)]).set wr.dbi { x with closes := x.closes + 1 } else s.backends ++ [({} : Backend)])
    (hs : s'.served = s.wrappers.length) (hd : s'.down = false)
    (hr : s'.readers = s.readers) (hp : s'.pending = s.pending) : Inv s' := by
  have hc : ∀ j, cnt s' j = cnt s j := by intro j; simp [cnt, hr, hp]
  have hwl : s.served < s.wrappers.length := h.served_lt
  have hbl : wr.dbi < s.backends.length := (List.getElem?_eq_some_iff.1 hx).1
  have hWg : ∀ j, s'.wrappers[j]? = if j = s.served then some { wr with destroyable := true }
      else if j = s.wrappers.length then some ({ dbi := s.backends.length } : Wrapper) else s.wrappers[j]? := by
    intro j; rw [hW, List.getElem?_set, List.getElem?_append]; grind
  have hBg : ∀ b, s'.backends[b]? = if wr.refCount = 0 ∧ b = wr.dbi
      then some { x with closes := x.closes + 1 }
      else if b = s.backends.length then some ({} : Backend) else s.backends[b]? := by
    intro b; rw [hB]; split <;> grind
  have hWl : s'.wrappers.length = s.wrappers.length + 1 := by rw [hW]; simp
  have hBl : s'.backends.length = s.backends.length + 1 := by rw [hB]; split <;> simp
  have hH : Holder s s.served wr := Or.inr ⟨hdn, rfl⟩
  have hxc : x.closes = 0 := h.h1 _ wr x hw hx hH
  have hc0 : cnt s s.wrappers.length = 0 := by
    unfold cnt
    have h1 : s.readers.count s.wrappers.length = 0 := by
      rw [List.count_eq_zero]
      intro hm
      exact Nat.lt_irrefl _ (h.readers_lt _ hm)
    have h2 : (s.pending.map (·.w)).count s.wrappers.length = 0 := by
      rw [List.count_eq_zero]
      intro hm
      obtain ⟨p, hp1, hp2⟩ := List.mem_map.1 hm
      obtain ⟨wr0, h3, _⟩ := h.pending_ok p hp1
      have := (List.getElem?_eq_some_iff.1 h3).1
      omega
    omega
  -- every wrapper of `s'` is the new one or an old one with the same backend and reference count
  have hOld : ∀ j wrj, s'.wrappers[j]? = some wrj →
      (j = s.wrappers.length ∧ wrj = ({ dbi := s.backends.length } : Wrapper)) ∨
      (j < s.wrappers.length ∧ ∃ o : Wrapper, s.wrappers[j]? = some o ∧
        o.dbi = wrj.dbi ∧ o.refCount = wrj.refCount ∧ (0 < wrj.refCount → Holder s j o)) := by
    intro j wrj hj
    have := hWg j
    by_cases hjw : j = s.served
    · subst hjw
      exact Or.inr ⟨hwl, wr, hw, by grind, by grind, fun _ => hH⟩
    · by_cases hjn : j = s.wrappers.length
      · left; grind
      · right
        have : s.wrappers[j]? = some wrj := by grind
        exact ⟨(List.getElem?_eq_some_iff.1 this).1, wrj, this, rfl, rfl, fun hp => Or.inl hp⟩
  clear hW hB
  constructor
  · rw [hWl, hs]; omega
  · intro r hr'; rw [hWl]; rw [hr] at hr'; have := h.readers_lt r hr'; omega
  · intro p hp'
    rw [hp] at hp'
    obtain ⟨wr0, h1, h2⟩ := h.pending_ok p hp'
    have := hWg p.w
    have := (List.getElem?_eq_some_iff.1 h1).1
    grind
  · intro j wrj hj
    rw [hBl]
    rcases hOld j wrj hj with ⟨_, h2⟩ | ⟨_, o, ho1, ho2, _⟩
    · subst h2; simp
    · have := h.dbi_lt j o ho1; omega
  · intro j wrj hj
    rw [hc]
    rcases hOld j wrj hj with ⟨h1, h2⟩ | ⟨_, o, ho1, _, ho2, _⟩
    · subst h2 h1; simp [hc0]
    · rw [← ho2]; exact h.rc j o ho1
  · intro wrj hj _
    have := hWg s'.served
    grind
  · intro j wrj hj hp hh
    have := hWg j
    have := h.d2 j
    grind
  · intro j wrj y hj hy hH'
    have e2 := hBg wrj.dbi
    rcases hOld j wrj hj with ⟨h1, h2⟩ | ⟨hlt, o, ho1, ho2, ho3, ho4⟩
    · subst h2; grind
    · have := h.uniq j s.served o wr ho1 hw
      have := h.h1 j o y ho1
      have := h.dbi_lt j o ho1
      unfold Holder at hH'
      grind
  · intro j j' wrj wrj' hj hj' hdbi hH1 hH2
    rcases hOld j wrj hj with ⟨h1, h2⟩ | ⟨hlt, o, ho1, ho2, ho3, ho4⟩ <;>
    rcases hOld j' wrj' hj' with ⟨h1', h2'⟩ | ⟨hlt', o', ho1', ho2', ho3', ho4'⟩
    · omega
    · have := h.dbi_lt j' o' ho1'
      subst h2; simp at hdbi; omega
    · have := h.dbi_lt j o ho1
      subst h2'; simp at hdbi; omega
    · unfold Holder at hH1 hH2
      exact h.uniq j j' o o' ho1 ho1' (by omega) (ho4 (by omega)) (ho4' (by omega))
  · intro b y hy
    have := hBg b
    have := h.safe b
    grind
  · intro b y hy hy0
    have e := hBg b
    by_cases hbn : b = s.backends.length
    · refine ⟨s.wrappers.length, ({ dbi := s.backends.length } : Wrapper), by have := hWg s.wrappers.length; grind,
        hbn.symm, Or.inr ⟨hd, hs.symm⟩⟩
    · have hy' : s.backends[b]? = some y := by grind
      obtain ⟨j, wrj, hj, hdb, hHj⟩ := h.owned b y hy' hy0
      have hjl := (List.getElem?_eq_some_iff.1 hj).1
      have := hWg j
      by_cases hjw : j = s.served
      · subst hjw
        refine ⟨s.served, { wr with destroyable := true }, by grind, by grind, ?_⟩
        unfold Holder at *
        grind
      · refine ⟨j, wrj, by grind, hdb, ?_⟩
        unfold Holder at *
        grind

/-! ### the operations preserve the invariant -/

theorem Inv.backend_of {s : St} (h : Inv s) {w : Nat} {wr : Wrapper} (hw : s.wrappers[w]? = some wr) :
    ∃ x, s.backends[wr.dbi]? = some x :=
  ⟨_, List.getElem?_eq_getElem (h.dbi_lt w wr hw)⟩

theorem Inv.served_wr {s : St} (h : Inv s) :
    ∃ wr x, s.wrappers[s.served]? = some wr ∧ s.backends[wr.dbi]? = some x ∧
      (s.down = false → x.closes = 0) := by
  obtain ⟨wr, hw⟩ : ∃ wr, s.wrappers[s.served]? = some wr :=
    ⟨_, List.getElem?_eq_getElem h.served_lt⟩
  obtain ⟨x, hx⟩ := h.backend_of hw
  exact ⟨wr, x, hw, hx, fun hd => h.h1 _ _ x hw hx (Or.inr ⟨hd, rfl⟩)⟩

theorem Inv.reader_wr {s : St} (h : Inv s) {r : Nat} (hr : r ∈ s.readers) :
    ∃ wr x, s.wrappers[r]? = some wr ∧ s.backends[wr.dbi]? = some x ∧ x.closes = 0 ∧
      0 < wr.refCount := by
  obtain ⟨wr, hw⟩ : ∃ wr, s.wrappers[r]? = some wr :=
    ⟨_, List.getElem?_eq_getElem (h.readers_lt r hr)⟩
  obtain ⟨x, hx⟩ := h.backend_of hw
  have hpos : 0 < wr.refCount := by
    rw [h.rc r _ hw]
    unfold cnt
    have := List.count_pos_iff.2 hr
    omega
  exact ⟨wr, x, hw, hx, h.h1 _ _ x hw hx (Or.inl hpos), hpos⟩

theorem Inv.pending_wr {s : St} (h : Inv s) {p : Pending} (hp : p ∈ s.pending) :
    ∃ wr x, s.wrappers[p.w]? = some wr ∧ p.on = wr.dbi ∧ s.backends[wr.dbi]? = some x ∧
      x.closes = 0 ∧ 0 < wr.refCount := by
  obtain ⟨wr, hw, hon⟩ := h.pending_ok p hp
  obtain ⟨x, hx⟩ := h.backend_of hw
  have hpos : 0 < wr.refCount := by
    rw [h.rc _ _ hw]
    unfold cnt
    have : p.w ∈ s.pending.map (·.w) := List.mem_map.2 ⟨p, hp, rfl⟩
    have := List.count_pos_iff.2 this
    omega
  exact ⟨wr, x, hw, hon, hx, h.h1 _ _ x hw hx (Or.inl hpos), hpos⟩

theorem inv_init : Inv {} := by
  constructor
  · decide
  · simp
  · simp
  · intro w wr hw
    cases w <;> simp at hw
    subst hw; decide
  · intro w wr hw
    cases w <;> simp at hw
    subst hw; decide
  · intro wr hw _
    simp at hw
    subst hw; rfl
  · intro w wr hw hp
    cases w <;> simp at hw
    subst hw; simp at hp
  · intro w wr x hw hx _
    cases w <;> simp at hw
    subst hw; simp at hx
    subst hx; rfl
  · intro w w' wr wr' hw hw' _ _ _
    cases w <;> cases w' <;> simp at hw hw'
    rfl
  · intro b x hx
    cases b <;> simp at hx
    subst hx; decide
  · intro b x hx _
    cases b <;> simp at hx
    exact ⟨0, { dbi := 0 }, rfl, rfl, Or.inr ⟨rfl, rfl⟩⟩

theorem inv_acquire {s : St} (h : Inv s) : Inv (step s .acquire) := by
  unfold step
  simp only
  split
  · exact h
  · rename_i hdn
    simp only [Bool.not_eq_true] at hdn
    obtain ⟨wr, x, hw, hx, hc⟩ := h.served_wr
    rw [newReader_eq_pin hw hx (hc hdn), pin_eq hw]
    refine h.pin_like hdn hw rfl rfl rfl rfl ?_ ?_ ?_
    · intro r hr; simpa using hr
    · intro p hp; exact Or.inl hp
    · intro j
      simp only [cnt, List.count_append, List.count_singleton]
      by_cases hj : j = s.served
      · subst hj; simp; omega
      · have : ¬ s.served = j := fun e => hj e.symm
        simp [hj, this]

theorem inv_use {s : St} (h : Inv s) (i : Nat) : Inv (step s (.use i)) := by
  unfold step
  simp only
  split
  · exact h
  · rename_i w hw
    have hm : w ∈ s.readers := List.mem_iff_getElem?.2 ⟨i, hw⟩
    obtain ⟨wr, x, hw', hx, hc, _⟩ := h.reader_wr hm
    rw [wrapperDbi_eq hw', touch_eq_self]
    · exact h
    · intro y hy; rw [hx] at hy; cases hy; exact hc

theorem inv_release {s : St} (h : Inv s) (i : Nat) : Inv (step s (.release i)) := by
  unfold step
  simp only
  split
  · exact h
  · rename_i w hw
    have hm : w ∈ s.readers := List.mem_iff_getElem?.2 ⟨i, hw⟩
    obtain ⟨wr, x, hw', hx, hc, hpos⟩ := h.reader_wr hm
    rw [closeReader_eq_unref hw' hx hc, unref_eq hw' hx]
    refine h.unref_like hw' hx hpos rfl rfl rfl rfl ?_ ?_ ?_
    · intro r hr; exact List.mem_of_mem_eraseIdx hr
    · intro p hp; exact hp
    · intro j
      have := count_eraseIdx_add hw j
      simp only [cnt]
      omega


theorem set_append_length {α} (l : List α) (a b : α) : (l ++ [a]).set l.length b = l ++ [b] := by
  induction l with
  | nil => rfl
  | cons c l ih => simp [ih]

theorem inv_shutdown {s : St} (h : Inv s) : Inv (step s .shutdown) := by
  unfold step
  simp only
  split
  · exact h
  · rename_i hdn
    simp only [Bool.not_eq_true] at hdn
    obtain ⟨wr, x, hw, hx, hc⟩ := h.served_wr
    rw [destroy_eq hw hx]
    exact h.shutdown_like hdn hw hx rfl rfl rfl rfl rfl rfl

theorem inv_timeoutPending {s : St} (h : Inv s) (k : Late) :
    Inv (step s (.reloadTimeoutPending k)) := by
  unfold step
  simp only
  split
  · exact h
  · rename_i hdn
    simp only [Bool.not_eq_true] at hdn
    obtain ⟨wr, x, hw, hx, hc⟩ := h.served_wr
    rw [pin_eq hw, wrapperDbi_eq hw]
    refine h.pin_like hdn hw rfl rfl rfl rfl ?_ ?_ ?_
    · intro r hr; exact Or.inl hr
    · intro p hp
      simp only [List.mem_append, List.mem_singleton] at hp
      rcases hp with hp | hp
      · exact Or.inl hp
      · subst hp; exact Or.inr ⟨rfl, rfl⟩
    · intro j
      simp only [cnt, List.map_append, List.count_append, List.map_cons, List.map_nil,
        List.count_singleton]
      by_cases hj : j = s.served
      · subst hj; simp; omega
      · have : ¬ s.served = j := fun e => hj e.symm
        simp [hj, this]

theorem inv_timeoutDoneNew {s : St} (h : Inv s) : Inv (step s .reloadTimeoutDoneNew) := by
  unfold step
  simp only
  split
  · exact h
  · refine h.open_close ?_ rfl rfl rfl rfl rfl
    simp only [openBackend, closeBackend]
    rw [modifyAt_some _ (List.getElem?_concat_length), set_append_length]


/-- the oldest pending goroutine drops its reference -/
theorem Inv.late_unref {s : St} (h : Inv s) {p : Pending} {rest : List Pending}
    (hp : s.pending = p :: rest) : Inv (unref { s with pending := rest } p.w) := by
  have hm : p ∈ s.pending := by rw [hp]; simp
  obtain ⟨wr, x, hw, hon, hx, hc, hpos⟩ := h.pending_wr hm
  have hw' : ({ s with pending := rest } : St).wrappers[p.w]? = some wr := hw
  have hx' : ({ s with pending := rest } : St).backends[wr.dbi]? = some x := hx
  rw [unref_eq hw' hx']
  refine h.unref_like hw hx hpos rfl rfl rfl rfl ?_ ?_ ?_
  · intro r hr; exact hr
  · intro q hq; rw [hp]; exact List.mem_cons_of_mem _ hq
  · intro j
    simp only [cnt, hp, List.map_cons, List.count_cons]
    by_cases hj : j = p.w
    · subst hj; simp; omega
    · have : ¬ p.w = j := fun e => hj e.symm
      simp [hj, this]

theorem inv_lateComplete {s : St} (h : Inv s) : Inv (step s .lateComplete) := by
  unfold step
  simp only
  split
  · exact h
  · rename_i p rest hp
    have hm : p ∈ s.pending := by rw [hp]; simp
    split
    · -- new
      refine (h.late_unref hp).open_close ?_ rfl rfl rfl rfl rfl
      simp only [openBackend, closeBackend]
      rw [modifyAt_some _ (List.getElem?_concat_length), set_append_length]
    · -- same
      obtain ⟨wr, x, hw, hon, hx, hc, hpos⟩ := h.pending_wr hm
      rw [touch_eq_self]
      · exact h.late_unref hp
      · intro y hy
        have : s.backends[p.on]? = some y := hy
        rw [hon, hx] at this
        cases this; exact hc
    · exact h.late_unref hp


/-- catch-up reload: whatever the validation says, only an idle wrapper is added -/
theorem inv_reloadSame {s : St} (h : Inv s) (hdn : s.down = false) (keyOk : Bool) :
    Inv (reloadReturned (touch s (wrapperDbi s s.served)) (wrapperDbi s s.served) keyOk) := by
  obtain ⟨wr, x, hw, hx, hc⟩ := h.served_wr
  have hc := hc hdn
  rw [wrapperDbi_eq hw, touch_eq_self _ _ (by intro y hy; rw [hx] at hy; cases hy; exact hc)]
  have hv : validate { s with wrappers := s.wrappers ++ [{ dbi := wr.dbi }] } s.wrappers.length
      = { s with wrappers := s.wrappers ++ [{ dbi := wr.dbi }] } :=
    validate_eq_self (wr := { dbi := wr.dbi }) (x := x) List.getElem?_concat_length hx hc rfl
  have : reloadReturned s wr.dbi keyOk = { s with wrappers := s.wrappers ++ [{ dbi := wr.dbi }] } := by
    unfold reloadReturned
    simp only [addWrapper, wrapperDbi_eq hw, hv, ne_eq, not_true_eq_false, if_false, ite_self]
  rw [this]
  exact h.add_idle (d := wr.dbi) (de := false) (h.dbi_lt _ _ hw) rfl rfl rfl rfl rfl rfl

theorem inv_reloadNew {s : St} (h : Inv s) (hdn : s.down = false) (keyOk : Bool) :
    Inv (reloadReturned (openBackend s).1 (openBackend s).2 keyOk) := by
  obtain ⟨wr, x, hw, hx, hc⟩ := h.served_wr
  have hc := hc hdn
  have hlt := h.dbi_lt _ _ hw
  have hwl := h.served_lt
  have hne : s.backends.length ≠ wr.dbi := by omega
  -- the state after opening the backend and wrapping it
  let s1 : St := { s with backends := s.backends ++ [{}],
                          wrappers := s.wrappers ++ [{ dbi := s.backends.length }] }
  have hw1 : s1.wrappers[s.served]? = some wr := by
    show (s.wrappers ++ _)[s.served]? = _
    rw [List.getElem?_append_left hwl]; exact hw
  have hx1 : s1.backends[wr.dbi]? = some x := by
    show (s.backends ++ _)[wr.dbi]? = _
    rw [List.getElem?_append_left hlt]; exact hx
  have hv : validate s1 s.wrappers.length = s1 :=
    validate_eq_self (wr := { dbi := s.backends.length }) (x := {})
      List.getElem?_concat_length List.getElem?_concat_length rfl rfl
  have hd : ({ s with backends := s.backends ++ [{}] } : St).wrappers[s.served]? = some wr := hw
  unfold reloadReturned
  simp only [openBackend, addWrapper, wrapperDbi_eq hd, ne_eq, hne, not_false_eq_true, if_true]
  show Inv (if keyOk = true then { destroy (validate s1 s.wrappers.length) s.served with served := s.wrappers.length }
    else destroy (validate s1 s.wrappers.length) s.wrappers.length)
  rw [hv]
  cases keyOk
  · -- rejected candidate: closed at once
    simp only [Bool.false_eq_true, if_false]
    have hwn : s1.wrappers[s.wrappers.length]? = some { dbi := s.backends.length } :=
      List.getElem?_concat_length
    have hxn : s1.backends[({ dbi := s.backends.length } : Wrapper).dbi]? = some {} :=
      List.getElem?_concat_length
    rw [destroy_eq hwn hxn]
    have hm : Inv { s with backends := s.backends ++ [{ closes := 1 }] } :=
      h.open_close rfl rfl rfl rfl rfl rfl
    refine hm.add_idle (d := s.backends.length) (de := true) (by simp) ?_ ?_ rfl rfl rfl rfl
    · show (s.wrappers ++ _).set _ _ = _
      rw [set_append_length]
    · dsimp only
      rw [if_pos rfl]
      show (s.backends ++ _).set _ _ = _
      rw [set_append_length]
  · simp only [if_true]
    rw [destroy_eq hw1 hx1]
    exact h.switch_like hdn hw hx rfl rfl rfl hdn rfl rfl


theorem inv_step {s : St} (h : Inv s) (op : Op) : Inv (step s op) := by
  cases op with
  | acquire => exact inv_acquire h
  | use i => exact inv_use h i
  | release i => exact inv_release h i
  | reloadOpenError => exact h
  | reloadTimeoutDoneNew => exact inv_timeoutDoneNew h
  | reloadTimeoutPending k => exact inv_timeoutPending h k
  | lateComplete => exact inv_lateComplete h
  | shutdown => exact inv_shutdown h
  | reloadNewOk =>
    cases hdn : s.down
    · have := inv_reloadNew h hdn true
      simpa [step, hdn] using this
    · simpa [step, hdn] using h
  | reloadValFailNew =>
    cases hdn : s.down
    · have := inv_reloadNew h hdn false
      simpa [step, hdn] using this
    · simpa [step, hdn] using h
  | reloadSameOk =>
    cases hdn : s.down
    · have := inv_reloadSame h hdn true
      simpa [step, hdn] using this
    · simpa [step, hdn] using h
  | reloadValFailSame =>
    cases hdn : s.down
    · have := inv_reloadSame h hdn false
      simpa [step, hdn] using this
    · simpa [step, hdn] using h

theorem inv_foldl {s : St} (h : Inv s) (ops : List Op) : Inv (ops.foldl step s) := by
  induction ops generalizing s with
  | nil => exact h
  | cons op ops ih => exact ih (inv_step h op)

theorem inv_run (ops : List Op) : Inv (run ops) := inv_foldl inv_init ops

/-! ### consequences of the invariant -/

theorem Inv.safe_mem {s : St} (h : Inv s) : ∀ b ∈ s.backends, b.closes ≤ 1 ∧ b.badUses = 0 := by
  intro b hb
  obtain ⟨i, hi⟩ := List.mem_iff_getElem?.1 hb
  exact h.safe i b hi

theorem Inv.live_served {s : St} (h : Inv s) (hdn : s.down = false) :
    ∃ x, s.backends[wrapperDbi s s.served]? = some x ∧ x.closes = 0 := by
  obtain ⟨wr, x, hw, hx, hc⟩ := h.served_wr
  rw [wrapperDbi_eq hw]
  exact ⟨x, hx, hc hdn⟩

theorem Inv.live_reader {s : St} (h : Inv s) {w : Nat} (hw : w ∈ s.readers) :
    ∃ x, s.backends[wrapperDbi s w]? = some x ∧ x.closes = 0 := by
  obtain ⟨wr, x, hw', hx, hc, _⟩ := h.reader_wr hw
  rw [wrapperDbi_eq hw']
  exact ⟨x, hx, hc⟩

theorem Inv.prompt {s : St} (h : Inv s) (b : Nat) (x : Backend) (hx : s.backends[b]? = some x)
    (hns : s.down = true ∨ b ≠ wrapperDbi s s.served)
    (hnr : ∀ w ∈ s.readers, wrapperDbi s w ≠ b)
    (hnp : ∀ p ∈ s.pending, p.on ≠ b) : x.closes = 1 := by
  have hle := (h.safe b x hx).1
  by_cases h0 : x.closes = 0
  · exfalso
    obtain ⟨w, wr, hw, hdb, hH⟩ := h.owned b x hx h0
    rcases hH with hpos | ⟨hdn, hws⟩
    · rw [h.rc w wr hw] at hpos
      unfold cnt at hpos
      have : 0 < s.readers.count w ∨ 0 < (s.pending.map (·.w)).count w := by omega
      rcases this with hr | hp
      · have hm := List.count_pos_iff.1 hr
        exact hnr w hm (by rw [wrapperDbi_eq hw]; exact hdb)
      · have hm := List.count_pos_iff.1 hp
        obtain ⟨p, hp1, hp2⟩ := List.mem_map.1 hm
        obtain ⟨wr0, h3, h4⟩ := h.pending_ok p hp1
        have hp2 : p.w = w := hp2
        rw [hp2, hw] at h3
        cases h3
        exact hnp p hp1 (by rw [h4]; exact hdb)
    · rcases hns with hd | hne
      · rw [hd] at hdn; cases hdn
      · subst hws
        rw [wrapperDbi_eq hw] at hne
        exact hne hdb.symm
  · omega

end DnsVerif.Life
