/-
Helper lemmas for C06 (backend life cycle invariant).
-/
import DnsVerif.Model.Life

namespace DnsVerif.Life

/-! ### list helpers -/

theorem getElem?_modifyAt {α} (l : List α) (i j : Nat) (f : α → α) :
    (modifyAt l i f)[j]? = if i = j then l[j]?.map f else l[j]? := by
  unfold modifyAt
  cases h : l[i]? with
  | none =>
    by_cases hij : i = j
    · subst hij; simp [h]
    · simp [hij]
  | some a =>
    obtain ⟨hi, hia⟩ := List.getElem?_eq_some_iff.1 h
    by_cases hij : i = j
    · subst hij; simp [hi, hia]
    · simp [hij]

theorem length_modifyAt {α} (l : List α) (i : Nat) (f : α → α) :
    (modifyAt l i f).length = l.length := by
  unfold modifyAt
  cases l[i]? <;> simp

theorem modifyAt_id {α} (l : List α) (i : Nat) (f : α → α)
    (h : ∀ a, l[i]? = some a → f a = a) : modifyAt l i f = l := by
  apply List.ext_getElem?
  intro j
  rw [getElem?_modifyAt]
  by_cases hij : i = j
  · subst hij
    rw [if_pos rfl]
    cases h' : l[i]? with
    | none => rfl
    | some a => simp [h a h']
  · rw [if_neg hij]

theorem count_eraseIdx_add {l : List Nat} {i a : Nat} (h : l[i]? = some a) (b : Nat) :
    (l.eraseIdx i).count b + (if b = a then 1 else 0) = l.count b := by
  induction l generalizing i with
  | nil => simp at h
  | cons c l ih =>
    cases i with
    | zero =>
      simp at h
      subst h
      simp [List.count_cons]
      by_cases hb : b = c
      · subst hb; simp
      · have : ¬ c = b := fun e => hb e.symm
        simp [hb, this]
    | succ i =>
      simp at h
      have := ih h
      simp [List.count_cons]
      omega

/-! ### the invariant -/

/-- number of references held on wrapper `w`: readers plus still-running reload goroutines -/
def cnt (s : St) (w : Nat) : Nat := s.readers.count w + (s.pending.map (·.w)).count w

/-- wrapper `w` keeps its backend open: it is referenced, or it is the served one -/
def Holder (s : St) (w : Nat) (wr : Wrapper) : Prop :=
  0 < wr.refCount ∨ (s.down = false ∧ w = s.served)

structure Inv (s : St) : Prop where
  served_lt : s.served < s.wrappers.length
  readers_lt : ∀ r ∈ s.readers, r < s.wrappers.length
  pending_ok : ∀ p ∈ s.pending, ∃ wr : Wrapper, s.wrappers[p.w]? = some wr ∧ p.on = wr.dbi
  dbi_lt : ∀ w wr, s.wrappers[w]? = some wr → wr.dbi < s.backends.length
  rc : ∀ w wr, s.wrappers[w]? = some wr → wr.refCount = cnt s w
  d1 : ∀ wr, s.wrappers[s.served]? = some wr → s.down = false → wr.destroyable = false
  d2 : ∀ w wr, s.wrappers[w]? = some wr → 0 < wr.refCount → (s.down = true ∨ w ≠ s.served) →
    wr.destroyable = true
  h1 : ∀ w wr x, s.wrappers[w]? = some wr → s.backends[wr.dbi]? = some x → Holder s w wr →
    x.closes = 0
  uniq : ∀ w w' wr wr', s.wrappers[w]? = some wr → s.wrappers[w']? = some wr' → wr.dbi = wr'.dbi →
    Holder s w wr → Holder s w' wr' → w = w'
  safe : ∀ b (x : Backend), s.backends[b]? = some x → x.closes ≤ 1 ∧ x.badUses = 0
  owned : ∀ b x, s.backends[b]? = some x → x.closes = 0 →
    ∃ w wr, s.wrappers[w]? = some wr ∧ wr.dbi = b ∧ Holder s w wr

end DnsVerif.Life
