/-
Helper lemmas for C01: the row round trip (`extractRR ∘ putrrhead`), packed names, and the
refinement of the v1-layout query path (`isAuthoritativeV1`, `findAnswerV1`, `findSOA`, `getNs`,
`serve`) to `Spec.answer`.
-/
import DnsVerif.Model.Serve
import DnsVerif.Spec.Answer
import DnsVerif.Proofs.ServeKey

namespace DnsVerif.ServeRefine
open DnsVerif DnsVerif.Codec DnsVerif.Serve DnsVerif.Name

/-! ### big-endian fields -/

theorem toNat_ofNat_lt (n : Nat) (h : n < 256) : (UInt8.ofNat n).toNat = n := by
  simp [UInt8.toNat_ofNat']; omega

theorem rd16_be16 (n : Nat) (h : n < 65536) (rest : Bytes) : rd16 (be16 n ++ rest) = some n := by
  simp only [be16, rd16, List.cons_append, List.nil_append]
  rw [toNat_ofNat_lt _ (Nat.mod_lt _ (by decide)), toNat_ofNat_lt _ (Nat.mod_lt _ (by decide))]
  congr 1; omega

theorem rd32_be32 (n : Nat) (h : n < 4294967296) (rest : Bytes) : rd32 (be32 n ++ rest) = some n := by
  simp only [be32, rd32, List.cons_append, List.nil_append]
  rw [toNat_ofNat_lt _ (Nat.mod_lt _ (by decide)), toNat_ofNat_lt _ (Nat.mod_lt _ (by decide)),
    toNat_ofNat_lt _ (Nat.mod_lt _ (by decide)), toNat_ofNat_lt _ (Nat.mod_lt _ (by decide))]
  congr 1; omega

/-! ### row head round trip -/

/-- the shape of `putrrhead`: marker byte, then two location bytes iff the record is tagged -/
theorem putrrhead_shape (t ttl : Nat) (lo : Option Bytes) (wild : Bool)
    (hlo : ∀ l, lo = some l → l.length = 2) :
    (∃ ch, (ch = 0x3d ∨ ch = 0x2a) ∧ (wild = decide (ch = 0x2a ∨ ch = 0x2b)) ∧
      putrrhead t ttl lo wild = be16 t ++ ch :: (be32 ttl ++ [0,0,0,0,0,0,0,0])) ∨
    (∃ ch a b, (ch = 0x3e ∨ ch = 0x2b) ∧ (wild = decide (ch = 0x2a ∨ ch = 0x2b)) ∧
      putrrhead t ttl lo wild = be16 t ++ ch :: a :: b :: (be32 ttl ++ [0,0,0,0,0,0,0,0])) := by
  unfold putrrhead
  cases lo with
  | none => left; cases wild <;> simp
  | some l =>
    have hl := hlo l rfl
    match l, hl with
    | [a, b], _ =>
      by_cases hz : ([a, b] : Bytes) = [0, 0]
      · left; cases wild <;> simp [hz]
      · right; cases wild <;> simp [hz]

/-- what `extractRR` yields once the head is parsed -/
def afterHead (t ttl : Nat) (body : Bytes) : RowRes :=
  if t = 28 ∨ t = 1 then
    match rd32 body with
    | none => .panic
    | some wt => .row ⟨t, ttl, wt, body.drop 4⟩
  else .row ⟨t, ttl, 0, body⟩

theorem extractRR_shape1 (t ttl : Nat) (ch : UInt8) (w : Bool) (body : Bytes) (ht : t < 65536)
    (httl : ttl < 4294967296) (hch : ch = 0x3d ∨ ch = 0x2a) :
    extractRR (be16 t ++ ch :: (be32 ttl ++ [0,0,0,0,0,0,0,0]) ++ body) w =
      if w ≠ decide (ch = 0x2a ∨ ch = 0x2b) then .mismatch else afterHead t ttl body := by
  unfold extractRR afterHead
  rw [List.append_assoc, rd16_be16 t ht]
  have h2 : (be16 t ++ (ch :: (be32 ttl ++ [0,0,0,0,0,0,0,0]) ++ body))[2]? = some ch := by simp [be16]
  rw [h2]
  simp only []
  have hd : ¬ (ch = 0x3e ∨ ch = 0x2b) := by rcases hch with h | h <;> subst h <;> decide
  rw [if_neg hd]
  have h3 : (be16 t ++ (ch :: (be32 ttl ++ [0,0,0,0,0,0,0,0]) ++ body)).drop 3
      = be32 ttl ++ ([0,0,0,0,0,0,0,0] ++ body) := by
    simp [be16]
  rw [h3, rd32_be32 ttl httl]
  simp only []
  have h15 : (be16 t ++ (ch :: (be32 ttl ++ [0,0,0,0,0,0,0,0]) ++ body)).drop (3 + 12) = body := by
    simp [be16, be32]
  have h19 : (be16 t ++ (ch :: (be32 ttl ++ [0,0,0,0,0,0,0,0]) ++ body)).drop (3 + 12 + 4)
      = body.drop 4 := by
    rw [← List.drop_drop, h15]
  have hlen : ¬ (be16 t ++ (ch :: (be32 ttl ++ [0,0,0,0,0,0,0,0]) ++ body)).length < 3 + 12 := by
    simp [be16, be32]
  rw [h15, h19, if_neg hlen]
  cases rd32 body <;> rfl

theorem extractRR_shape2 (t ttl : Nat) (ch a b : UInt8) (w : Bool) (body : Bytes) (ht : t < 65536)
    (httl : ttl < 4294967296) (hch : ch = 0x3e ∨ ch = 0x2b) :
    extractRR (be16 t ++ ch :: a :: b :: (be32 ttl ++ [0,0,0,0,0,0,0,0]) ++ body) w =
      if w ≠ decide (ch = 0x2a ∨ ch = 0x2b) then .mismatch else afterHead t ttl body := by
  unfold extractRR afterHead
  rw [List.append_assoc, rd16_be16 t ht]
  have h2 : (be16 t ++ (ch :: a :: b :: (be32 ttl ++ [0,0,0,0,0,0,0,0]) ++ body))[2]? = some ch := by
    simp [be16]
  rw [h2]
  simp only []
  rw [if_pos hch]
  have h3 : (be16 t ++ (ch :: a :: b :: (be32 ttl ++ [0,0,0,0,0,0,0,0]) ++ body)).drop 5
      = be32 ttl ++ ([0,0,0,0,0,0,0,0] ++ body) := by
    simp [be16]
  rw [h3, rd32_be32 ttl httl]
  simp only []
  have h15 : (be16 t ++ (ch :: a :: b :: (be32 ttl ++ [0,0,0,0,0,0,0,0]) ++ body)).drop (5 + 12) = body := by
    simp [be16, be32]
  have h19 : (be16 t ++ (ch :: a :: b :: (be32 ttl ++ [0,0,0,0,0,0,0,0]) ++ body)).drop (5 + 12 + 4)
      = body.drop 4 := by
    rw [← List.drop_drop, h15]
  have hlen : ¬ (be16 t ++ (ch :: a :: b :: (be32 ttl ++ [0,0,0,0,0,0,0,0]) ++ body)).length < 5 + 12 := by
    simp [be16, be32]
  rw [h15, h19, if_neg hlen]
  cases rd32 body <;> rfl

/-- parsing any row that starts with a `putrrhead` -/
theorem extractRR_putrrhead_body (t ttl : Nat) (lo : Option Bytes) (wild w : Bool) (body : Bytes)
    (ht : t < 65536) (httl : ttl < 4294967296) (hlo : ∀ l, lo = some l → l.length = 2) :
    extractRR (putrrhead t ttl lo wild ++ body) w =
      if w ≠ wild then .mismatch else afterHead t ttl body := by
  rcases putrrhead_shape t ttl lo wild hlo with ⟨ch, hch, hw, he⟩ | ⟨ch, a, b, hch, hw, he⟩
  · rw [he, hw]; exact extractRR_shape1 t ttl ch w body ht httl hch
  · rw [he, hw]; exact extractRR_shape2 t ttl ch a b w body ht httl hch

theorem afterHead_addr (t ttl weight : Nat) (rdata : Bytes) (ht : t = 1 ∨ t = 28)
    (hw : weight < 4294967296) :
    afterHead t ttl (be32 weight ++ rdata) = .row ⟨t, ttl, weight, rdata⟩ := by
  unfold afterHead
  rw [if_pos (by omega), rd32_be32 weight hw]
  simp [be32]

theorem afterHead_other (t ttl : Nat) (body : Bytes) (ht : t ≠ 1 ∧ t ≠ 28) :
    afterHead t ttl body = .row ⟨t, ttl, 0, body⟩ := by
  unfold afterHead
  rw [if_neg (by omega)]

/-! ### `Spec.answer`, decomposed into named pieces -/

section SpecPieces
open Spec

def hasT (recs : List Rec) (l : Bytes) (owner : List Bytes) (t : Nat) : Bool :=
  recs.any fun r => r.owner = owner ∧ ¬ r.wild ∧ r.type = t ∧ visible l r

def cutOf (recs : List Rec) (l : Bytes) (name : List Bytes) : Option (List Bytes) :=
  (ancestorsOrSelf name).find? fun a => hasT recs l a 2

def refused : Answer :=
  { rcode := 5, aa := false, answer := [], answerAddrs := [], authority := [], additional := [] }

/-- the zone cut, authority flag and "parent served" flag after the DS step -/
def cutAuth (recs : List Rec) (l : Bytes) (q : List Bytes) (qtype : Nat) (cut0 : List Bytes) :
    List Bytes × Bool × Bool :=
  let auth0 := hasT recs l cut0 6
  if ¬ auth0 ∧ qtype = 43 ∧ q ≠ [] then
    match cutOf recs l (q.drop 1) with
    | some c => (c, hasT recs l c 6, true)
    | none => (cut0, false, false)
  else (cut0, auth0, true)

def matchingOf (rs : List Rec) (qtype : Nat) : List Rec :=
  rs.filter fun r => r.type = 5 ∨ r.type = qtype ∨ qtype = 255

def plainOf (q : List Bytes) (matching : List Rec) : List OutRR :=
  (matching.filter fun r => r.type ≠ 1 ∧ r.type ≠ 28).map fun r => (⟨q, r.type, 1, r.ttl, r.rdata⟩ : OutRR)

def grpOf (q : List Bytes) (maxAns : Nat) (matching : List Rec) (t : Nat) : List OutAddrs :=
  let c := (matching.filter (·.type = t)).map fun r => (r.ttl, r.weight, r.rdata)
  if c.isEmpty then [] else [⟨q, t, 1, c, maxAns⟩]

def servedS (g : OutAddrs) : Bool := g.cands.any fun c => c.2.1 > 0

def soaOf (recs : List Rec) (l : Bytes) (cut : List Bytes) : List OutRR :=
  match recs.find? fun r => r.owner = cut ∧ ¬ r.wild ∧ r.type = 6 ∧ visible l r ∧ r.loc = l ∧ l ≠ [0, 0] with
  | some r => [⟨cut, 6, 1, r.ttl, r.rdata⟩]
  | none =>
    match recs.find? fun r => r.owner = cut ∧ ¬ r.wild ∧ r.type = 6 ∧ visible l r with
    | some r => [⟨cut, 6, 1, r.ttl, r.rdata⟩]
    | none => []

def nsOf (recs : List Rec) (l : Bytes) (qclass : Nat) (c : List Bytes) : List OutRR :=
  (recs.filter fun r => r.owner = c ∧ ¬ r.wild ∧ r.type = 2 ∧ visible l r).map fun r =>
    ⟨c, 2, qclass, r.ttl, r.rdata⟩

def targetsOf (rrs : List OutRR) : List (List Bytes) :=
  rrs.filterMap fun rr =>
    if rr.type = 2 then (nameLabels rr.rdata).map (·.map toLower)
    else if rr.type = 15 then (nameLabels (rr.rdata.drop 2)).map (·.map toLower)
    else if rr.type = 65 then some rr.owner
    else none

def candS (recs : List Rec) (l : Bytes) (tname : List Bytes) (t : Nat) : List (Nat × Nat × Bytes) :=
  (recs.filter fun r => r.owner = tname ∧ ¬ r.wild ∧ r.type = t ∧ visible l r).map fun r =>
    (r.ttl, r.weight, r.rdata)

def additionalOf (recs : List Rec) (l : Bytes) (qclass : Nat) (groups : List OutAddrs)
    (targets : List (List Bytes)) : List OutAddrs :=
  targets.eraseDups.flatMap fun tname =>
    let alreadyHas (t : Nat) : Bool := groups.any fun g => g.owner = tname ∧ g.type = t ∧ servedS g
    (if ¬ alreadyHas 28 ∧ ¬ (candS recs l tname 28).isEmpty then [⟨tname, 28, qclass, candS recs l tname 28, 1⟩] else [])
    ++ (if ¬ alreadyHas 1 ∧ ¬ (candS recs l tname 1).isEmpty then [⟨tname, 1, qclass, candS recs l tname 1, 1⟩] else [])

/-- `Spec.answer` after the cut is fixed -/
def answerAt (recs : List Rec) (l : Bytes) (q : List Bytes) (qtype qclass maxAns : Nat)
    (cut : List Bytes) (auth : Bool) (parentServed : Prop) [Decidable parentServed] : Answer :=
  let rs : List Rec := if auth then recordsFor recs l q cut else []
  let matching := matchingOf rs qtype
  let plain := plainOf q matching
  let groups := grpOf q maxAns matching 1 ++ grpOf q maxAns matching 28
  let answerEmpty := plain.isEmpty ∧ ¬ groups.any servedS
  let authority : List OutRR :=
    if auth ∧ answerEmpty then soaOf recs l cut
    else if ¬ auth ∧ parentServed then nsOf recs l qclass cut
    else []
  { rcode := if auth ∧ rs.isEmpty then 3 else 0, aa := auth, answer := plain, answerAddrs := groups,
    authority := authority,
    additional := additionalOf recs l qclass groups (targetsOf (plain ++ authority)) }



def answer' (z : Zone) (q : List Bytes) (qtype qclass maxAns : Nat) (l : Bytes) : Answer :=
  match cutOf z.recs l q with
  | none => refused
  | some cut0 =>
    let auth0 := hasT z.recs l cut0 6
    let (cut, auth) : List Bytes × Bool :=
      if ¬ auth0 ∧ qtype = 43 ∧ q ≠ [] then
        match cutOf z.recs l (q.drop 1) with
        | some c => (c, hasT z.recs l c 6)
        | none => (cut0, false)
      else (cut0, auth0)
    let parentServed := ¬ (¬ auth0 ∧ qtype = 43 ∧ q ≠ []) ∨ (cutOf z.recs l (q.drop 1)).isSome
    answerAt z.recs l q qtype qclass maxAns cut auth parentServed

theorem answer_eq0 (z : Zone) (q : List Bytes) (qtype qclass maxAns : Nat) (l : Bytes) :
    Spec.answer z q qtype qclass maxAns l = answer' z q qtype qclass maxAns l := by
  rfl


theorem answerAt_congr (recs : List Rec) (l : Bytes) (q : List Bytes) (qtype qclass maxAns : Nat)
    (cut : List Bytes) (auth : Bool) {p p' : Prop} [ip : Decidable p] [ip' : Decidable p'] (h : p ↔ p') :
    @answerAt recs l q qtype qclass maxAns cut auth p ip = @answerAt recs l q qtype qclass maxAns cut auth p' ip' := by
  have e : p = p' := propext h
  subst e
  have : ip = ip' := Subsingleton.elim _ _
  subst this; rfl

theorem answer_eq (z : Zone) (q : List Bytes) (qtype qclass maxAns : Nat) (l : Bytes) :
    Spec.answer z q qtype qclass maxAns l =
      match cutOf z.recs l q with
      | none => refused
      | some cut0 =>
        answerAt z.recs l q qtype qclass maxAns (cutAuth z.recs l q qtype cut0).1
          (cutAuth z.recs l q qtype cut0).2.1 ((cutAuth z.recs l q qtype cut0).2.2 = true) := by
  rw [answer_eq0]
  unfold answer'
  cases cutOf z.recs l q with
  | none => rfl
  | some cut0 =>
    simp only []
    unfold cutAuth
    by_cases h : (¬ hasT z.recs l cut0 6 = true ∧ qtype = 43 ∧ q ≠ [])
    · simp only [if_pos h]
      cases hc : cutOf z.recs l (q.drop 1) with
      | none => exact answerAt_congr _ _ _ _ _ _ _ _ (by simp [h])
      | some c => exact answerAt_congr _ _ _ _ _ _ _ _ (by simp [h])
    · simp only [if_neg h]
      exact answerAt_congr _ _ _ _ _ _ _ _ (by simp only [iff_true]; exact Or.inl h)

/-! ### the wildcard walk of the spec -/

theorem recordsFor_eq (recs : List Rec) (l : Bytes) (q cut : List Bytes) :
    recordsFor recs l q cut =
      if ¬ (recs.filter fun r => r.owner = q ∧ ¬ r.wild ∧ visible l r).isEmpty then
        recs.filter fun r => r.owner = q ∧ ¬ r.wild ∧ visible l r
      else recordsFor.up recs l cut q := rfl

theorem up_nil (recs : List Rec) (l : Bytes) (cut : List Bytes) : recordsFor.up recs l cut [] = [] := rfl
theorem up_cons (recs : List Rec) (l : Bytes) (cut : List Bytes) (lab : Bytes) (rest : List Bytes) :
    recordsFor.up recs l cut (lab :: rest) =
      if (lab :: rest) = cut then []
      else if ¬ wildsafeLabel lab then []
      else if ¬ (recs.filter fun r => r.owner = rest ∧ r.wild ∧ visible l r).isEmpty then
        recs.filter fun r => r.owner = rest ∧ r.wild ∧ visible l r
      else recordsFor.up recs l cut rest := rfl

/-- `*.p` covers `q` inside the cut: `q = stripped ++ p`, at least one label stripped, every stripped
label wild-safe, and the walk from `q` does not meet the cut before reaching `p`'s child -/
def CoveredBy (q cut stripped p : List Bytes) : Prop :=
  q = stripped ++ p ∧ stripped ≠ [] ∧ (∀ lab ∈ stripped, wildsafe lab = true) ∧
    ∀ j, j < stripped.length → q.drop j ≠ cut

theorem coveredBy_cons_iff (lab : Bytes) (rest cut stripped p : List Bytes) :
    CoveredBy (lab :: rest) cut stripped p ↔
      (lab :: rest) ≠ cut ∧ wildsafe lab = true ∧
        ((stripped = [lab] ∧ p = rest) ∨ ∃ s', stripped = lab :: s' ∧ CoveredBy rest cut s' p) := by
  constructor
  · rintro ⟨hq, hne, hws, hcut⟩
    cases stripped with
    | nil => exact absurd rfl hne
    | cons a s' =>
      simp only [List.cons_append, List.cons.injEq] at hq
      obtain ⟨ha, hrest⟩ := hq
      subst ha
      refine ⟨by simpa using hcut 0 (by simp), hws lab (by simp), ?_⟩
      cases s' with
      | nil => left; exact ⟨rfl, by simpa using hrest.symm⟩
      | cons b s'' =>
        right
        refine ⟨b :: s'', rfl, hrest, by simp, fun x hx => hws x (List.mem_cons_of_mem _ hx), ?_⟩
        intro j hj
        have := hcut (j + 1) (by simp at hj ⊢; omega)
        simpa using this
  · rintro ⟨hne, hws, h⟩
    rcases h with ⟨hs, hp⟩ | ⟨s', hs, hq, hne', hws', hcut'⟩
    · subst hs; subst hp
      refine ⟨rfl, by simp, by simpa using hws, ?_⟩
      intro j hj
      have : j = 0 := by simp at hj; omega
      subst this; simpa using hne
    · subst hs
      refine ⟨by rw [hq]; rfl, by simp, ?_, ?_⟩
      · intro x hx
        rcases List.mem_cons.mp hx with h | h
        · rw [h]; exact hws
        · exact hws' x h
      · intro j hj
        cases j with
        | zero => simpa using hne
        | succ j => simpa using hcut' j (by simp at hj; omega)

/-- every record the wildcard walk returns is a visible wildcard record of a covering `*.p` -/
theorem up_mem (recs : List Rec) (l : Bytes) (cut : List Bytes) (q : List Bytes) (r : Rec)
    (h : r ∈ recordsFor.up recs l cut q) :
    ∃ stripped p, CoveredBy q cut stripped p ∧ r ∈ recs ∧ r.owner = p ∧ r.wild = true ∧ visible l r = true := by
  induction q with
  | nil => rw [up_nil] at h; cases h
  | cons lab rest ih =>
    rw [up_cons] at h
    by_cases h1 : (lab :: rest) = cut
    · rw [if_pos h1] at h; cases h
    · rw [if_neg h1] at h
      by_cases h2 : ¬ wildsafeLabel lab
      · rw [if_pos h2] at h; cases h
      · rw [if_neg h2] at h
        have hws : wildsafe lab = true := by simpa [wildsafeLabel] using h2
        by_cases h3 : ¬ (recs.filter fun r => r.owner = rest ∧ r.wild ∧ visible l r).isEmpty
        · rw [if_pos h3] at h
          have := List.mem_filter.mp h
          simp only [decide_eq_true_eq] at this
          exact ⟨[lab], rest, (coveredBy_cons_iff _ _ _ _ _).mpr ⟨h1, hws, Or.inl ⟨rfl, rfl⟩⟩,
            this.1, this.2.1, this.2.2.1, this.2.2.2⟩
        · rw [if_neg h3] at h
          obtain ⟨s', p, hc, hr⟩ := ih h
          exact ⟨lab :: s', p, (coveredBy_cons_iff _ _ _ _ _).mpr ⟨h1, hws, Or.inr ⟨s', rfl, hc⟩⟩, hr⟩

/-- the walk finds nothing exactly when no covering wildcard owns a visible record -/
theorem up_eq_nil_iff (recs : List Rec) (l : Bytes) (cut : List Bytes) (q : List Bytes) :
    recordsFor.up recs l cut q = [] ↔
      ∀ stripped p, CoveredBy q cut stripped p →
        ∀ r ∈ recs, ¬ (r.owner = p ∧ r.wild = true ∧ visible l r = true) := by
  induction q with
  | nil =>
    rw [up_nil]
    simp only [true_iff]
    rintro stripped p ⟨hq, hne, _, _⟩
    cases stripped with
    | nil => exact absurd rfl hne
    | cons a s => simp at hq
  | cons lab rest ih =>
    rw [up_cons]
    by_cases h1 : (lab :: rest) = cut
    · rw [if_pos h1]
      simp only [true_iff]
      intro stripped p hc
      exact absurd h1 ((coveredBy_cons_iff _ _ _ _ _).mp hc).1
    · rw [if_neg h1]
      by_cases h2 : ¬ wildsafeLabel lab
      · rw [if_pos h2]
        simp only [true_iff]
        intro stripped p hc
        have := ((coveredBy_cons_iff _ _ _ _ _).mp hc).2.1
        exact absurd this (by simpa [wildsafeLabel] using h2)
      · rw [if_neg h2]
        have hws : wildsafe lab = true := by simpa [wildsafeLabel] using h2
        by_cases h3 : ¬ (recs.filter fun r => r.owner = rest ∧ r.wild ∧ visible l r).isEmpty
        · rw [if_pos h3]
          constructor
          · intro h; rw [h] at h3; simp at h3
          · intro h
            exfalso
            apply h3
            rw [List.isEmpty_iff, List.filter_eq_nil_iff]
            intro r hr
            have := h [lab] rest ((coveredBy_cons_iff _ _ _ _ _).mpr ⟨h1, hws, Or.inl ⟨rfl, rfl⟩⟩) r hr
            simpa using this
        · rw [if_neg h3, ih]
          have h3' : ∀ r ∈ recs, ¬ (r.owner = rest ∧ r.wild = true ∧ visible l r = true) := by
            have : (recs.filter fun r => r.owner = rest ∧ r.wild ∧ visible l r) = [] := by
              simpa [List.isEmpty_iff] using h3
            rw [List.filter_eq_nil_iff] at this
            intro r hr; simpa using this r hr
          constructor
          · intro h stripped p hc
            rcases ((coveredBy_cons_iff _ _ _ _ _).mp hc).2.2 with ⟨_, hp⟩ | ⟨s', _, hc'⟩
            · rw [hp]; exact h3'
            · exact h s' p hc'
          · intro h stripped p hc
            exact h (lab :: stripped) p ((coveredBy_cons_iff _ _ _ _ _).mpr ⟨h1, hws, Or.inr ⟨stripped, rfl, hc⟩⟩)

/-! ### corollaries of `Spec.answer` alone -/

theorem hasT_iff (recs : List Rec) (l : Bytes) (a : List Bytes) (t : Nat) :
    hasT recs l a t = true ↔ ∃ r ∈ recs, r.owner = a ∧ r.wild = false ∧ r.type = t ∧ visible l r = true := by
  simp [hasT]

theorem answerAt_rcode_ne5 (recs l q qt qc m cut auth) (p : Prop) [Decidable p] :
    (answerAt recs l q qt qc m cut auth p).rcode ≠ 5 := by
  have : ∀ (c : Prop) [Decidable c], (if c then 3 else 0) ≠ 5 := by
    intro c _; split <;> decide
  exact this _

/-- REFUSED exactly for names outside every served subtree -/
theorem spec_refused_iff (z : Zone) (q : List Bytes) (qtype qclass maxAns : Nat) (l : Bytes) :
    (Spec.answer z q qtype qclass maxAns l).rcode = 5 ↔
      ∀ a ∈ ancestorsOrSelf q,
        ¬ ∃ r ∈ z.recs, r.owner = a ∧ r.wild = false ∧ r.type = 2 ∧ visible l r = true := by
  rw [answer_eq]
  cases hc : cutOf z.recs l q with
  | none =>
    simp only [refused, true_iff]
    unfold cutOf at hc
    rw [List.find?_eq_none] at hc
    intro a ha
    rw [← hasT_iff]
    exact hc a ha
  | some cut0 =>
    simp only []
    constructor
    · intro h; exact absurd h (answerAt_rcode_ne5 _ _ _ _ _ _ _ _ _)
    · intro h
      exfalso
      unfold cutOf at hc
      have hm := List.mem_of_find?_eq_some hc
      have hp := List.find?_some hc
      exact h cut0 hm ((hasT_iff _ _ _ _).mp hp)

theorem spec_refused_empty (z : Zone) (q : List Bytes) (qtype qclass maxAns : Nat) (l : Bytes)
    (h : (Spec.answer z q qtype qclass maxAns l).rcode = 5) :
    let A := Spec.answer z q qtype qclass maxAns l
    A.aa = false ∧ A.answer = [] ∧ A.answerAddrs = [] ∧ A.authority = [] ∧ A.additional = [] := by
  rw [answer_eq] at h ⊢
  cases hc : cutOf z.recs l q with
  | none => simp [refused]
  | some cut0 =>
    rw [hc] at h
    exact absurd h (answerAt_rcode_ne5 _ _ _ _ _ _ _ _ _)

/-- the cut, authority flag and parent-served flag `Spec.answer` works with (after the DS step) -/
def specCut (z : Zone) (q : List Bytes) (qtype : Nat) (l : Bytes) : Option (List Bytes × Bool × Bool) :=
  (cutOf z.recs l q).map fun cut0 => cutAuth z.recs l q qtype cut0

theorem answer_of_specCut (z : Zone) (q : List Bytes) (qtype qclass maxAns : Nat) (l : Bytes)
    (cut : List Bytes) (auth ps : Bool) (h : specCut z q qtype l = some (cut, auth, ps)) :
    Spec.answer z q qtype qclass maxAns l = answerAt z.recs l q qtype qclass maxAns cut auth (ps = true) := by
  rw [answer_eq]
  unfold specCut at h
  cases hc : cutOf z.recs l q with
  | none => rw [hc] at h; cases h
  | some cut0 =>
    rw [hc] at h
    simp only [Option.map_some, Option.some.injEq] at h
    simp only [h]

theorem spec_nxdomain_iff (z : Zone) (q : List Bytes) (qtype qclass maxAns : Nat) (l : Bytes) :
    (Spec.answer z q qtype qclass maxAns l).rcode = 3 ↔
      ∃ cut ps, specCut z q qtype l = some (cut, true, ps) ∧ recordsFor z.recs l q cut = [] := by
  cases hs : specCut z q qtype l with
  | none =>
    unfold specCut at hs
    rw [answer_eq]
    cases hc : cutOf z.recs l q with
    | none => simp [refused]
    | some c => rw [hc] at hs; cases hs
  | some t =>
    obtain ⟨cut, auth, ps⟩ := t
    rw [answer_of_specCut z q qtype qclass maxAns l cut auth ps hs]
    show (if auth = true ∧ (if auth = true then recordsFor z.recs l q cut else []).isEmpty = true then 3 else 0) = 3 ↔ _
    cases auth with
    | false => simp
    | true => simp [List.isEmpty_iff]

theorem recordsFor_eq_nil_iff (recs : List Rec) (l : Bytes) (q cut : List Bytes) :
    recordsFor recs l q cut = [] ↔
      (∀ r ∈ recs, ¬ (r.owner = q ∧ r.wild = false ∧ visible l r = true)) ∧
      ∀ stripped p, CoveredBy q cut stripped p →
        ∀ r ∈ recs, ¬ (r.owner = p ∧ r.wild = true ∧ visible l r = true) := by
  rw [recordsFor_eq]
  by_cases h : ¬ (recs.filter fun r => r.owner = q ∧ ¬ r.wild ∧ visible l r).isEmpty
  · rw [if_pos h]
    constructor
    · intro h'; rw [h'] at h; simp at h
    · rintro ⟨h1, _⟩
      exfalso; apply h
      rw [List.isEmpty_iff, List.filter_eq_nil_iff]
      intro r hr; simpa using h1 r hr
  · rw [if_neg h, up_eq_nil_iff]
    have h' : ∀ r ∈ recs, ¬ (r.owner = q ∧ r.wild = false ∧ visible l r = true) := by
      have : (recs.filter fun r => r.owner = q ∧ ¬ r.wild ∧ visible l r) = [] := by
        simpa [List.isEmpty_iff] using h
      rw [List.filter_eq_nil_iff] at this
      intro r hr; simpa using this r hr
    exact ⟨fun hh => ⟨h', hh⟩, fun hh => hh.2⟩

/-- what `recordsFor` returns: the name's own visible records, or — only if it has none — visible
wildcard records `*.p` with `p` a proper ancestor reached by stripping wild-safe labels without
meeting the cut -/
theorem recordsFor_mem (recs : List Rec) (l : Bytes) (q cut : List Bytes) (r : Rec)
    (h : r ∈ recordsFor recs l q cut) :
    r ∈ recs ∧ visible l r = true ∧
      ((r.owner = q ∧ r.wild = false) ∨
       ((∀ r' ∈ recs, ¬ (r'.owner = q ∧ r'.wild = false ∧ visible l r' = true)) ∧ r.wild = true ∧
          ∃ stripped, CoveredBy q cut stripped r.owner)) := by
  rw [recordsFor_eq] at h
  by_cases h0 : ¬ (recs.filter fun r => r.owner = q ∧ ¬ r.wild ∧ visible l r).isEmpty
  · rw [if_pos h0] at h
    have := List.mem_filter.mp h
    simp only [decide_eq_true_eq, Bool.not_eq_true] at this
    exact ⟨this.1, this.2.2.2, Or.inl ⟨this.2.1, this.2.2.1⟩⟩
  · rw [if_neg h0] at h
    have h' : ∀ r ∈ recs, ¬ (r.owner = q ∧ r.wild = false ∧ visible l r = true) := by
      have : (recs.filter fun r => r.owner = q ∧ ¬ r.wild ∧ visible l r) = [] := by
        simpa [List.isEmpty_iff] using h0
      rw [List.filter_eq_nil_iff] at this
      intro r hr; simpa using this r hr
    obtain ⟨stripped, p, hc, hr, ho, hw, hv⟩ := up_mem recs l cut q r h
    exact ⟨hr, hv, Or.inr ⟨h', hw, stripped, ho ▸ hc⟩⟩

theorem specCut_auth (z : Zone) (q : List Bytes) (qtype : Nat) (l : Bytes) (cut : List Bytes) (ps : Bool)
    (h : specCut z q qtype l = some (cut, true, ps)) : hasT z.recs l cut 6 = true := by
  unfold specCut at h
  cases hc : cutOf z.recs l q with
  | none => rw [hc] at h; cases h
  | some cut0 =>
    rw [hc] at h
    simp only [Option.map_some, Option.some.injEq] at h
    unfold cutAuth at h
    simp only [] at h
    split at h
    · split at h
      · simp only [Prod.mk.injEq] at h; rw [← h.1]; exact h.2.1
      · simp at h
    · simp only [Prod.mk.injEq] at h; rw [← h.1]; exact h.2.1

theorem soaOf_of_hasT (recs : List Rec) (l : Bytes) (cut : List Bytes) (h : hasT recs l cut 6 = true) :
    ∃ r ∈ recs, r.owner = cut ∧ r.wild = false ∧ r.type = 6 ∧ visible l r = true ∧
      soaOf recs l cut = [⟨cut, 6, 1, r.ttl, r.rdata⟩] := by
  unfold soaOf
  cases h1 : recs.find? fun r => r.owner = cut ∧ ¬ r.wild ∧ r.type = 6 ∧ visible l r ∧ r.loc = l ∧ l ≠ [0, 0] with
  | some r =>
    have hm := List.mem_of_find?_eq_some h1
    have hp := List.find?_some h1
    simp only [decide_eq_true_eq, Bool.not_eq_true] at hp
    exact ⟨r, hm, hp.1, hp.2.1, hp.2.2.1, hp.2.2.2.1, rfl⟩
  | none =>
    simp only []
    cases h2 : recs.find? fun r => r.owner = cut ∧ ¬ r.wild ∧ r.type = 6 ∧ visible l r with
    | some r =>
      have hm := List.mem_of_find?_eq_some h2
      have hp := List.find?_some h2
      simp only [decide_eq_true_eq, Bool.not_eq_true] at hp
      exact ⟨r, hm, hp.1, hp.2.1, hp.2.2.1, hp.2.2.2, rfl⟩
    | none =>
      exfalso
      rw [List.find?_eq_none] at h2
      obtain ⟨r, hr, hp⟩ := (hasT_iff _ _ _ _).mp h
      have := h2 r hr
      simp [hp] at this

theorem spec_empty_auth_has_soa (z : Zone) (q : List Bytes) (qtype qclass maxAns : Nat) (l : Bytes)
    (haa : (Spec.answer z q qtype qclass maxAns l).aa = true)
    (hans : (Spec.answer z q qtype qclass maxAns l).answer = [])
    (hgrp : ∀ g ∈ (Spec.answer z q qtype qclass maxAns l).answerAddrs, ∀ c ∈ g.cands, c.2.1 = 0) :
    ∃ cut ps r, specCut z q qtype l = some (cut, true, ps) ∧ r ∈ z.recs ∧ r.owner = cut ∧ r.wild = false ∧
      r.type = 6 ∧ visible l r = true ∧
      (Spec.answer z q qtype qclass maxAns l).authority = [⟨cut, 6, 1, r.ttl, r.rdata⟩] := by
  cases hs : specCut z q qtype l with
  | none =>
    unfold specCut at hs
    rw [answer_eq] at haa
    cases hc : cutOf z.recs l q with
    | none => rw [hc] at haa; simp [refused] at haa
    | some c => rw [hc] at hs; cases hs
  | some t =>
    obtain ⟨cut, auth, ps⟩ := t
    rw [answer_of_specCut z q qtype qclass maxAns l cut auth ps hs] at haa hans hgrp ⊢
    have ha : auth = true := haa
    subst ha
    obtain ⟨r, hr, ho, hw, ht, hv, hsoa⟩ := soaOf_of_hasT _ _ _ (specCut_auth z q qtype l cut ps hs)
    refine ⟨cut, ps, r, rfl, hr, ho, hw, ht, hv, ?_⟩
    rw [← hsoa]
    unfold answerAt at hans hgrp ⊢
    simp only [] at hans hgrp ⊢
    rw [if_pos]
    refine ⟨trivial, by rw [hans]; rfl, ?_⟩
    simp only [List.any_eq_true, not_exists, not_and, Bool.not_eq_true]
    intro g hg
    unfold servedS
    rw [List.any_eq_false]
    intro c hc
    have := hgrp g hg c hc
    simp [this]

theorem spec_referral (z : Zone) (q : List Bytes) (qtype qclass maxAns : Nat) (l : Bytes) (cut : List Bytes)
    (hs : specCut z q qtype l = some (cut, false, true)) :
    let A := Spec.answer z q qtype qclass maxAns l
    A.rcode = 0 ∧ A.aa = false ∧ A.answer = [] ∧ A.answerAddrs = [] ∧
      A.authority = (z.recs.filter fun r => r.owner = cut ∧ r.wild = false ∧ r.type = 2 ∧ visible l r).map
        fun r => ⟨cut, 2, qclass, r.ttl, r.rdata⟩ := by
  rw [answer_of_specCut z q qtype qclass maxAns l cut false true hs]
  unfold answerAt nsOf
  simp [matchingOf, plainOf, grpOf]

/-- the cut is the closest ancestor-or-self owning a visible, non-wildcard NS record -/
theorem cutOf_closest (recs : List Rec) (l : Bytes) (q cut : List Bytes) (h : cutOf recs l q = some cut) :
    hasT recs l cut 2 = true ∧
      ∃ closer farther, ancestorsOrSelf q = closer ++ cut :: farther ∧ ∀ a ∈ closer, hasT recs l a 2 = false := by
  unfold cutOf at h
  rw [List.find?_eq_some_iff_append] at h
  obtain ⟨hp, as, bs, he, hn⟩ := h
  exact ⟨hp, as, bs, he, fun a ha => by simpa using hn a ha⟩

theorem specCut_plain (z : Zone) (q : List Bytes) (qtype : Nat) (l : Bytes) (cut : List Bytes)
    (hq : qtype ≠ 43) (hc : cutOf z.recs l q = some cut) :
    specCut z q qtype l = some (cut, hasT z.recs l cut 6, true) := by
  unfold specCut cutAuth
  rw [hc]
  simp [hq]

end SpecPieces

section Refinement
open Spec DnsVerif.Loc

/-! ### packed names -/

def LabelOK (lab : Bytes) : Prop := lab ≠ [] ∧ lab.length < 64 ∧ toLower lab = lab

/-- a name the v1 key layout can hold: non-empty lower-case labels shorter than 64, wire length ≤ 255 -/
def NameOK (ls : List Bytes) : Prop := (∀ lab ∈ ls, LabelOK lab) ∧ (pack ls).length ≤ 255

instance (lab : Bytes) : Decidable (LabelOK lab) := by unfold LabelOK; infer_instance
instance (ls : List Bytes) : Decidable (NameOK ls) := by unfold NameOK; infer_instance

theorem pack_nil : pack [] = [0] := rfl

theorem pack_cons (lab : Bytes) (rest : List Bytes) :
    pack (lab :: rest) = UInt8.ofNat lab.length :: (lab ++ pack rest) := by
  simp [pack]

theorem pack_ne_nil (ls : List Bytes) : pack ls ≠ [] := by
  simp [pack]

theorem NameOK.tail {lab : Bytes} {rest : List Bytes} (h : NameOK (lab :: rest)) : NameOK rest := by
  refine ⟨fun x hx => h.1 x (List.mem_cons_of_mem _ hx), ?_⟩
  have := h.2
  rw [pack_cons] at this
  simp only [List.length_cons, List.length_append] at this
  omega

theorem NameOK.head {lab : Bytes} {rest : List Bytes} (h : NameOK (lab :: rest)) : LabelOK lab :=
  h.1 lab (by simp)

theorem nameOK_nil : NameOK [] := ⟨by simp, by decide⟩

theorem NameOK.ancestor {q a : List Bytes} (h : NameOK q) (ha : a ∈ Spec.ancestorsOrSelf q) : NameOK a := by
  induction q with
  | nil => simp [Spec.ancestorsOrSelf] at ha; subst ha; exact h
  | cons lab rest ih =>
    simp only [Spec.ancestorsOrSelf, List.mem_cons] at ha
    rcases ha with ha | ha
    · subst ha; exact h
    · exact ih h.tail ha

theorem LabelOK.len_byte {lab : Bytes} (h : LabelOK lab) :
    (UInt8.ofNat lab.length).toNat = lab.length ∧ UInt8.ofNat lab.length ≠ 0 := by
  have h1 : (UInt8.ofNat lab.length).toNat = lab.length := toNat_ofNat_lt _ (by have := h.2.1; omega)
  refine ⟨h1, ?_⟩
  intro h0
  have : (UInt8.ofNat lab.length).toNat = 0 := by rw [h0]; rfl
  rw [h1] at this
  exact h.1 (List.length_eq_zero_iff.mp this)

theorem pack_injective : ∀ (a b : List Bytes), (∀ x ∈ a, LabelOK x) → (∀ x ∈ b, LabelOK x) →
    pack a = pack b → a = b
  | [], [], _, _, _ => rfl
  | [], lb :: rb, _, hb, h => by
    rw [pack_nil, pack_cons] at h
    simp only [List.cons.injEq] at h
    exact absurd h.1.symm (hb lb (by simp)).len_byte.2
  | la :: ra, [], ha, _, h => by
    rw [pack_nil, pack_cons] at h
    simp only [List.cons.injEq] at h
    exact absurd h.1 (ha la (by simp)).len_byte.2
  | la :: ra, lb :: rb, ha, hb, h => by
    rw [pack_cons, pack_cons] at h
    simp only [List.cons.injEq] at h
    have hla := (ha la (by simp)).len_byte.1
    have hlb := (hb lb (by simp)).len_byte.1
    have hlen : la.length = lb.length := by rw [← hla, ← hlb, h.1]
    have := List.append_inj h.2 hlen
    rw [this.1, pack_injective ra rb (fun x hx => ha x (List.mem_cons_of_mem _ hx))
      (fun x hx => hb x (List.mem_cons_of_mem _ hx)) this.2]


/-! ### records ↔ rows -/

/-- the stored row of a declared record -/
def rowOfRec (r : Rec) : Bytes :=
  putrrhead r.type r.ttl (if r.loc = [0, 0] then none else some r.loc) r.wild
    ++ (if r.type = 1 ∨ r.type = 28 then be32 r.weight else []) ++ r.rdata

/-- the records declared for one owner under one location tag, in file order -/
def recsAt (recs : List Rec) (ls : List Bytes) (loc : Bytes) : List Rec :=
  recs.filter fun r => r.owner = ls ∧ r.loc = loc

/-- under location tag `loc`, the store holds exactly the rows of the declared records (v1 keys) -/
def RepresentsAt (s : Store) (recs : List Rec) (loc : Bytes) : Prop :=
  ∀ ls, NameOK ls → s.get (loc ++ pack ls) = (recsAt recs ls loc).map rowOfRec

def Represents (s : Store) (recs : List Rec) : Prop :=
  ∀ loc : Bytes, loc.length = 2 → RepresentsAt s recs loc

/-- field ranges of one record -/
def RecOK (r : Rec) : Prop :=
  r.type < 65536 ∧ r.ttl < 4294967296 ∧ r.loc.length = 2 ∧
    ((r.type = 1 ∨ r.type = 28) → r.weight < 4294967296)

instance (r : Rec) : Decidable (RecOK r) := by unfold RecOK; infer_instance

/-- the fields the server reads back from the row of `r` -/
def rowFields (r : Rec) : Row :=
  ⟨r.type, r.ttl, if r.type = 1 ∨ r.type = 28 then r.weight else 0, r.rdata⟩

theorem extractRR_rowOfRec (r : Rec) (h : RecOK r) (w : Bool) :
    extractRR (rowOfRec r) w = if w ≠ r.wild then .mismatch else .row (rowFields r) := by
  unfold rowOfRec
  rw [List.append_assoc, extractRR_putrrhead_body r.type r.ttl _ r.wild w _ h.1 h.2.1
    (by intro l hl; split at hl
        · cases hl
        · cases hl; exact h.2.2.1)]
  by_cases hw : w ≠ r.wild
  · rw [if_pos hw, if_pos hw]
  · rw [if_neg hw, if_neg hw]
    unfold rowFields
    by_cases ht : r.type = 1 ∨ r.type = 28
    · rw [if_pos ht, if_pos ht, afterHead_addr _ _ _ _ ht (h.2.2.2 ht)]
    · rw [if_neg ht, if_neg ht, List.nil_append, afterHead_other _ _ _ (by omega)]

/-- what a client in location `l` sees at a name: the records tagged `l`, then the untagged ones -/
def visRecs (recs : List Rec) (l : Bytes) (ls : List Bytes) : List Rec :=
  (if l ≠ [0, 0] then recsAt recs ls l else []) ++ recsAt recs ls [0, 0]

theorem mem_visRecs (recs : List Rec) (l : Bytes) (ls : List Bytes) (r : Rec) :
    r ∈ visRecs recs l ls ↔ r ∈ recs ∧ r.owner = ls ∧ visible l r = true := by
  unfold visRecs recsAt visible
  by_cases hl : l = [0, 0]
  · subst hl; simp
  · simp only [ne_eq, hl, not_false_eq_true, ↓reduceIte, List.mem_append, List.mem_filter,
      decide_eq_true_eq, Bool.or_eq_true]
    constructor
    · rintro (⟨h1, h2, h3⟩ | ⟨h1, h2, h3⟩)
      · exact ⟨h1, h2, Or.inr h3⟩
      · exact ⟨h1, h2, Or.inl h3⟩
    · rintro ⟨h1, h2, h3 | h3⟩
      · exact Or.inr ⟨h1, h2, h3⟩
      · exact Or.inl ⟨h1, h2, h3⟩

/-- the two `ForEach` passes of the v1 readers, as rows of `visRecs` -/
theorem rows_visRecs (s : Store) (recs : List Rec) (l : Bytes) (ls : List Bytes)
    (h0 : RepresentsAt s recs [0, 0]) (hl : RepresentsAt s recs l) (hn : NameOK ls) :
    (if l ≠ [0, 0] then s.get (l ++ pack ls) else []) ++ s.get ([0, 0] ++ pack ls)
      = (visRecs recs l ls).map rowOfRec := by
  unfold visRecs
  rw [List.map_append, h0 ls hn]
  by_cases h : l ≠ [0, 0]
  · rw [if_pos h, if_pos h, hl ls hn]
  · rw [if_neg h, if_neg h]; rfl


/-! ### the zone-cut walk -/

def anyT (rs : List Rec) (t : Nat) : Bool := rs.any fun r => decide (r.wild = false ∧ r.type = t)

theorem scanCut_cons (row : Bytes) (rows : List Bytes) (ns auth : Bool) :
    scanCut (row :: rows) ns auth =
      match extractRR row false with
      | .panic => none
      | .mismatch => scanCut rows ns auth
      | .row r => scanCut rows (ns || decide (r.qtype = 2)) (auth || decide (r.qtype = 6)) := by
  unfold scanCut
  rw [List.foldlM_cons]
  cases extractRR row false <;> rfl

theorem scanCut_rows (rs : List Rec) (h : ∀ r ∈ rs, RecOK r) (ns auth : Bool) :
    scanCut (rs.map rowOfRec) ns auth = some (ns || anyT rs 2, auth || anyT rs 6) := by
  induction rs generalizing ns auth with
  | nil => simp [scanCut, anyT]
  | cons r rs ih =>
    rw [List.map_cons, scanCut_cons, extractRR_rowOfRec r (h r (by simp))]
    have ih' := fun ns auth => ih (fun x hx => h x (List.mem_cons_of_mem _ hx)) ns auth
    cases hw : r.wild with
    | true =>
      simp only [ne_eq, Bool.false_eq_true, not_false_eq_true, ↓reduceIte]
      rw [ih']
      simp [anyT, hw]
    | false =>
      simp only [ne_eq, not_true_eq_false, ↓reduceIte]
      rw [ih']
      simp [anyT, hw, rowFields, Bool.or_assoc]
      exact ⟨rfl, rfl⟩


theorem anyT_append (a b : List Rec) (t : Nat) : anyT (a ++ b) t = (anyT a t || anyT b t) := by
  simp [anyT, List.any_append]

theorem isAuth_step (v : View) (fuel : Nat) (z : Bytes) (T U : List Rec)
    (hT : ∀ r ∈ T, RecOK r) (hU : ∀ r ∈ U, RecOK r)
    (htag : (if v.loc ≠ [0, 0] then v.store.get (v.loc ++ z) else []) = T.map rowOfRec)
    (hunt : v.store.get ([0, 0] ++ z) = U.map rowOfRec) :
    isAuthoritativeV1 v (fuel + 1) z false false =
      if anyT (T ++ U) 2 = true then .ok ⟨true, anyT (T ++ U) 6, z⟩
      else match z with
        | [] => .panic
        | n :: rest =>
          if n = 0 then .ok ⟨false, anyT (T ++ U) 6, z⟩
          else isAuthoritativeV1 v fuel (rest.drop n.toNat) false (anyT (T ++ U) 6) := by
  rw [isAuthoritativeV1]
  simp only []
  rw [htag, scanCut_rows T hT]
  simp only [Bool.false_or]
  rw [anyT_append, anyT_append]
  by_cases hc : ¬ (anyT T 6 = true ∧ anyT T 2 = true)
  · rw [if_pos hc, hunt, scanCut_rows U hU]
    simp only []
    cases h : (anyT T 2 || anyT U 2) with
    | true => simp
    | false =>
      simp only [Bool.false_eq_true, ↓reduceIte]
      cases z <;> rfl
  · rw [if_neg hc]
    have hc' : anyT T 6 = true ∧ anyT T 2 = true := by
      by_cases h : anyT T 6 = true ∧ anyT T 2 = true
      · exact h
      · exact absurd h hc
    simp [hc'.1, hc'.2]

/-- the owner of a visible SOA also owns a visible NS, in every client view -/
def SoaHasNs (recs : List Rec) : Prop :=
  ∀ r ∈ recs, r.type = 6 → r.wild = false →
    ∃ r' ∈ recs, r'.owner = r.owner ∧ r'.wild = false ∧ r'.type = 2 ∧ (r'.loc = [0, 0] ∨ r'.loc = r.loc)

instance (recs : List Rec) : Decidable (SoaHasNs recs) := by unfold SoaHasNs; infer_instance

theorem hasT_eq_anyT (recs : List Rec) (l : Bytes) (a : List Bytes) (t : Nat) :
    hasT recs l a t = anyT (visRecs recs l a) t := by
  rw [Bool.eq_iff_iff, hasT_iff]
  unfold anyT
  rw [List.any_eq_true]
  constructor
  · rintro ⟨r, hr, ho, hw, ht, hv⟩
    exact ⟨r, (mem_visRecs _ _ _ _).mpr ⟨hr, ho, hv⟩, by simp [hw, ht]⟩
  · rintro ⟨r, hr, hp⟩
    have := (mem_visRecs _ _ _ _).mp hr
    simp only [decide_eq_true_eq] at hp
    exact ⟨r, this.1, this.2.1, hp.1, hp.2, this.2.2⟩

theorem soa_has_ns (recs : List Rec) (h : SoaHasNs recs) (l : Bytes) (a : List Bytes)
    (h6 : hasT recs l a 6 = true) : hasT recs l a 2 = true := by
  rw [hasT_iff] at h6 ⊢
  obtain ⟨r, hr, ho, hw, ht, hv⟩ := h6
  obtain ⟨r', hr', ho', hw', ht', hl'⟩ := h r hr ht hw
  refine ⟨r', hr', ho'.trans ho, hw', ht', ?_⟩
  unfold visible at hv ⊢
  simp only [Bool.or_eq_true, decide_eq_true_eq] at hv ⊢
  rcases hl' with h1 | h1
  · exact Or.inl h1
  · rcases hv with h2 | h2
    · exact Or.inl (h1.trans h2)
    · exact Or.inr (h1.trans h2)

theorem recOK_visRecs {recs : List Rec} (hok : ∀ r ∈ recs, RecOK r) (l : Bytes) (ls : List Bytes) :
    ∀ r ∈ visRecs recs l ls, RecOK r :=
  fun r hr => hok r ((mem_visRecs _ _ _ _).mp hr).1

theorem cutOf_nil (recs : List Rec) (l : Bytes) :
    cutOf recs l [] = if hasT recs l [] 2 = true then some [] else none := by
  unfold cutOf
  simp only [Spec.ancestorsOrSelf, List.find?_cons, List.find?_nil]
  cases hasT recs l [] 2 <;> rfl

theorem cutOf_cons (recs : List Rec) (l : Bytes) (lab : Bytes) (rest : List Bytes) :
    cutOf recs l (lab :: rest) =
      if hasT recs l (lab :: rest) 2 = true then some (lab :: rest) else cutOf recs l rest := by
  unfold cutOf
  simp only [Spec.ancestorsOrSelf, List.find?_cons]
  cases hasT recs l (lab :: rest) 2 <;> rfl

theorem pack_cons_drop (lab : Bytes) (rest : List Bytes) (h : LabelOK lab) :
    (lab ++ pack rest).drop (UInt8.ofNat lab.length).toNat = pack rest ∧
    (lab ++ pack rest).take (UInt8.ofNat lab.length).toNat = lab := by
  rw [h.len_byte.1]
  simp

/-- the zone-cut walk of the v1 reader finds the spec's cut -/
theorem cut_walk (b : Backend) (s : Store) (recs : List Rec) (l : Bytes)
    (h0 : RepresentsAt s recs [0, 0]) (hl : RepresentsAt s recs l)
    (hok : ∀ r ∈ recs, RecOK r) (hsoa : SoaHasNs recs) :
    ∀ (ls : List Bytes), NameOK ls → ∀ fuel, ls.length < fuel →
      isAuthoritativeV1 ⟨b, s, l⟩ fuel (pack ls) false false =
        .ok (match cutOf recs l ls with
             | some c => ⟨true, hasT recs l c 6, pack c⟩
             | none => ⟨false, false, [0]⟩) := by
  intro ls
  induction ls with
  | nil =>
    intro hn fuel hf
    obtain ⟨fuel, rfl⟩ : ∃ f, fuel = f + 1 := ⟨fuel - 1, by omega⟩
    rw [isAuth_step ⟨b, s, l⟩ fuel (pack []) _ _
      (fun r hr => recOK_visRecs hok l [] r (List.mem_append_left _ hr))
      (fun r hr => recOK_visRecs hok l [] r (List.mem_append_right _ hr))
      (by
        show (if l ≠ [0, 0] then s.get (l ++ pack []) else []) = _
        by_cases h : l ≠ [0, 0]
        · rw [if_pos h, if_pos h, hl [] hn]
        · rw [if_neg h, if_neg h]; rfl)
      (h0 [] hn)]
    have e : ∀ t, anyT ((if l ≠ [0, 0] then recsAt recs [] l else []) ++ recsAt recs [] [0, 0]) t
        = hasT recs l [] t := fun t => (hasT_eq_anyT recs l [] t).symm
    rw [e 2, e 6, cutOf_nil]
    by_cases h2 : hasT recs l [] 2 = true
    · rw [if_pos h2, if_pos h2]
    · rw [if_neg h2, if_neg h2]
      have h6 : hasT recs l [] 6 = false := by
        cases h : hasT recs l [] 6 with
        | false => rfl
        | true => exact absurd (soa_has_ns recs hsoa l [] h) h2
      rw [h6]
      rfl
  | cons lab rest ih =>
    intro hn fuel hf
    obtain ⟨fuel, rfl⟩ : ∃ f, fuel = f + 1 := ⟨fuel - 1, by omega⟩
    rw [isAuth_step ⟨b, s, l⟩ fuel (pack (lab :: rest)) _ _
      (fun r hr => recOK_visRecs hok l (lab :: rest) r (List.mem_append_left _ hr))
      (fun r hr => recOK_visRecs hok l (lab :: rest) r (List.mem_append_right _ hr))
      (by
        show (if l ≠ [0, 0] then s.get (l ++ pack (lab :: rest)) else []) = _
        by_cases h : l ≠ [0, 0]
        · rw [if_pos h, if_pos h, hl _ hn]
        · rw [if_neg h, if_neg h]; rfl)
      (h0 _ hn)]
    have e : ∀ t, anyT ((if l ≠ [0, 0] then recsAt recs (lab :: rest) l else [])
        ++ recsAt recs (lab :: rest) [0, 0]) t = hasT recs l (lab :: rest) t :=
      fun t => (hasT_eq_anyT recs l (lab :: rest) t).symm
    rw [e 2, e 6, cutOf_cons]
    by_cases h2 : hasT recs l (lab :: rest) 2 = true
    · rw [if_pos h2, if_pos h2]
    · rw [if_neg h2, if_neg h2]
      have h6 : hasT recs l (lab :: rest) 6 = false := by
        cases h : hasT recs l (lab :: rest) 6 with
        | false => rfl
        | true => exact absurd (soa_has_ns recs hsoa l _ h) h2
      rw [h6, pack_cons]
      simp only []
      rw [if_neg hn.head.len_byte.2, (pack_cons_drop lab rest hn.head).1]
      exact ih hn.tail fuel (by simp at hf; omega)

/-! ### the answer walk -/

def matchQ (qt : Nat) (r : Rec) : Bool := decide (r.type = 5 ∨ r.type = qt ∨ qt = 255)

/-- what `FindAnswer` holds after finding the records `rs` at one level -/
def ansOf (qn : Bytes) (qt : Nat) (rs : List Rec) : Ans :=
  { rrs := ((rs.filter (matchQ qt)).filter fun r => r.type ≠ 1 ∧ r.type ≠ 28).map fun r =>
      (⟨qn, r.type, 1, r.ttl, r.rdata⟩ : RR),
    a4 := ((rs.filter (matchQ qt)).filter (·.type = 1)).map fun r => (⟨r.ttl, r.weight, r.rdata⟩ : Cand),
    a6 := ((rs.filter (matchQ qt)).filter (·.type = 28)).map fun r => (⟨r.ttl, r.weight, r.rdata⟩ : Cand),
    recordFound := !rs.isEmpty }

def addAns (acc x : Ans) : Ans :=
  ⟨acc.rrs ++ x.rrs, acc.a4 ++ x.a4, acc.a6 ++ x.a6, acc.recordFound || x.recordFound⟩

def stepAns (qn : Bytes) (qt : Nat) (a0 : Ans) (r : Row) : Ans :=
  let a := { a0 with recordFound := true }
  if r.qtype = 5 ∨ r.qtype = qt ∨ qt = 255 then
    if r.qtype = 1 then { a with a4 := a.a4 ++ [⟨r.ttl, r.weight, r.rdata⟩] }
    else if r.qtype = 28 then { a with a6 := a.a6 ++ [⟨r.ttl, r.weight, r.rdata⟩] }
    else { a with rrs := a.rrs ++ [⟨qn, r.qtype, 1, r.ttl, r.rdata⟩] }
  else a

theorem scanAnswer_cons (row : Bytes) (rows : List Bytes) (w : Bool) (qn : Bytes) (qt : Nat) (acc : Ans) :
    scanAnswer (row :: rows) w qn qt acc =
      match extractRR row w with
      | .panic => none
      | .mismatch => scanAnswer rows w qn qt acc
      | .row r => scanAnswer rows w qn qt (stepAns qn qt acc r) := by
  unfold scanAnswer
  rw [List.foldlM_cons]
  cases h : extractRR row w with
  | panic => rfl
  | mismatch => rfl
  | row r =>
    simp only [stepAns]
    by_cases hm : r.qtype = 5 ∨ r.qtype = qt ∨ qt = 255
    · simp only [if_pos hm]
      by_cases h1 : r.qtype = 1
      · simp only [if_pos h1]; rfl
      · simp only [if_neg h1]
        by_cases h28 : r.qtype = 28
        · simp only [if_pos h28]; rfl
        · simp only [if_neg h28]; rfl
    · simp only [if_neg hm]; rfl

theorem addAns_step (qn : Bytes) (qt : Nat) (acc : Ans) (r : Rec) (L : List Rec) :
    addAns (stepAns qn qt acc (rowFields r)) (ansOf qn qt L) = addAns acc (ansOf qn qt (r :: L)) := by
  unfold stepAns addAns ansOf
  have hq : (rowFields r).qtype = r.type := rfl
  simp only [hq]
  by_cases hm : r.type = 5 ∨ r.type = qt ∨ qt = 255
  · have hmq : matchQ qt r = true := by simp [matchQ, hm]
    rw [if_pos hm, List.filter_cons_of_pos hmq]
    by_cases h1 : r.type = 1
    · rw [if_pos h1, List.filter_cons_of_neg (by simp [h1]), List.filter_cons_of_pos (by simp [h1]),
        List.filter_cons_of_neg (by simp [h1])]
      simp [rowFields, h1]
    · rw [if_neg h1]
      by_cases h28 : r.type = 28
      · rw [if_pos h28, List.filter_cons_of_neg (by simp [h28]), List.filter_cons_of_neg (by simp [h28]),
          List.filter_cons_of_pos (by simp [h28])]
        simp [rowFields, h28]
      · rw [if_neg h28, List.filter_cons_of_pos (by simp [h1, h28]), List.filter_cons_of_neg (by simp [h1]),
          List.filter_cons_of_neg (by simp [h28])]
        simp [rowFields]
  · have hmq : ¬ matchQ qt r = true := by simp [matchQ, hm]
    rw [if_neg hm, List.filter_cons_of_neg hmq]
    simp


theorem addAns_nil (qn : Bytes) (qt : Nat) (acc : Ans) : addAns acc (ansOf qn qt []) = acc := by
  cases acc; simp [addAns, ansOf]

theorem addAns_empty (x : Ans) : addAns {} x = x := by
  cases x; simp [addAns]

theorem scanAnswer_rows (rs : List Rec) (h : ∀ r ∈ rs, RecOK r) (w : Bool) (qn : Bytes) (qt : Nat) (acc : Ans) :
    scanAnswer (rs.map rowOfRec) w qn qt acc =
      some (addAns acc (ansOf qn qt (rs.filter fun r => r.wild = w))) := by
  induction rs generalizing acc with
  | nil =>
    rw [List.filter_nil, addAns_nil]; rfl
  | cons r rs ih =>
    have ih' := fun acc => ih (fun x hx => h x (List.mem_cons_of_mem _ hx)) acc
    rw [List.map_cons, scanAnswer_cons, extractRR_rowOfRec r (h r (by simp))]
    by_cases hw : w ≠ r.wild
    · rw [if_pos hw]
      simp only []
      rw [ih', List.filter_cons_of_neg (by simpa using fun h => hw h.symm)]
    · rw [if_neg hw]
      simp only []
      rw [ih', List.filter_cons_of_pos (by simp only [decide_eq_true_eq]; exact (Decidable.of_not_not hw).symm), addAns_step]
        
theorem scanAnswer_append (a b : List Bytes) (w : Bool) (qn : Bytes) (qt : Nat) (acc : Ans) :
    scanAnswer (a ++ b) w qn qt acc = (scanAnswer a w qn qt acc).bind fun x => scanAnswer b w qn qt x := by
  unfold scanAnswer
  rw [List.foldlM_append]
  rfl

theorem findAnswerV1_succ (v : View) (control qn : Bytes) (qt fuel : Nat) (q : Bytes) (w : Bool) (acc : Ans) :
    findAnswerV1 v control qn qt (fuel + 1) q w acc =
      (let tagged := if v.loc ≠ [0, 0] then v.store.get (v.loc ++ q) else []
       let acc1 := (scanAnswer tagged w qn qt acc).getD acc
       let acc2 := (scanAnswer (v.store.get ([0, 0] ++ q)) w qn qt acc1).getD acc1
       if acc2.recordFound then acc2
       else if q = control then acc2
       else match q with
         | [] => acc2
         | n :: rest =>
           if n = 0 then acc2
           else if ¬ wildsafe (rest.take n.toNat) then acc2
           else findAnswerV1 v control qn qt fuel (rest.drop n.toNat) true acc2) := by
  cases q with
  | nil => rw [findAnswerV1.eq_2]
  | cons n rest => rw [findAnswerV1.eq_3]

theorem findAnswer_step (v : View) (control qn : Bytes) (qt fuel : Nat) (q : Bytes) (w : Bool)
    (T U : List Rec) (hT : ∀ r ∈ T, RecOK r) (hU : ∀ r ∈ U, RecOK r)
    (htag : (if v.loc ≠ [0, 0] then v.store.get (v.loc ++ q) else []) = T.map rowOfRec)
    (hunt : v.store.get ([0, 0] ++ q) = U.map rowOfRec) :
    findAnswerV1 v control qn qt (fuel + 1) q w {} =
      if ((T ++ U).filter fun r => r.wild = w) ≠ [] then ansOf qn qt ((T ++ U).filter fun r => r.wild = w)
      else if q = control then {}
      else match q with
        | [] => {}
        | n :: rest =>
          if n = 0 then {}
          else if ¬ wildsafe (rest.take n.toNat) then {}
          else findAnswerV1 v control qn qt fuel (rest.drop n.toNat) true {} := by
  rw [findAnswerV1_succ]
  simp only []
  have h1 := scanAnswer_rows T hT w qn qt {}
  have h2 := scanAnswer_rows U hU w qn qt (addAns {} (ansOf qn qt (T.filter fun r => r.wild = w)))
  have h12 := scanAnswer_rows (T ++ U) (by
    intro r hr; rcases List.mem_append.mp hr with h | h
    · exact hT r h
    · exact hU r h) w qn qt {}
  rw [List.map_append, scanAnswer_append, h1, Option.bind_some, h2] at h12
  rw [htag, h1, hunt]
  simp only [Option.getD_some]
  rw [h2]
  simp only [Option.getD_some]
  rw [Option.some.inj h12, addAns_empty]
  by_cases hL : ((T ++ U).filter fun r => r.wild = w) ≠ []
  · rw [if_pos hL, if_pos (by simpa [ansOf, List.isEmpty_iff] using hL)]
  · rw [if_neg hL]
    have hL' : ((T ++ U).filter fun r => r.wild = w) = [] := by
      by_cases h : ((T ++ U).filter fun r => r.wild = w) = []
      · exact h
      · exact absurd h hL
    rw [hL', if_neg (by simp [ansOf])]
    have : ansOf qn qt [] = {} := rfl
    rw [this]

/-- the order in which a client in location `l` meets the records: those tagged `l` first (a stable
partition of the file order; records of other locations stay, invisible) -/
def viewSort (l : Bytes) (recs : List Rec) : List Rec :=
  recs.filter (fun r => r.loc = l) ++ recs.filter (fun r => r.loc ≠ l)

theorem filter_viewSort (recs : List Rec) (l : Bytes) (a : List Bytes) (f P : Rec → Bool)
    (hf : ∀ r, f r = (decide (r.owner = a) && (P r && visible l r))) :
    (viewSort l recs).filter f = (visRecs recs l a).filter P := by
  unfold viewSort visRecs recsAt
  rw [List.filter_append, List.filter_append, List.filter_filter, List.filter_filter, List.filter_filter]
  by_cases hl : l = [0, 0]
  · subst hl
    rw [if_neg (by simp)]
    have h2 : recs.filter (fun r => f r && decide (r.loc ≠ [0, 0])) = [] := by
      rw [List.filter_eq_nil_iff]
      intro r _
      rw [hf]
      by_cases h : r.loc = [0, 0] <;> simp [visible, h]
    rw [h2, List.filter_nil, List.nil_append, List.append_nil]
    apply List.filter_congr
    intro r _
    rw [hf]
    cases hP : P r <;> by_cases ho : r.owner = a <;> by_cases h : r.loc = [0, 0] <;> simp [visible, ho, h]
  · rw [if_pos hl, List.filter_filter]
    congr 1
    · apply List.filter_congr
      intro r _
      rw [hf]
      cases hP : P r <;> by_cases ho : r.owner = a <;> by_cases h : r.loc = l <;> simp [visible, ho, h]
    · apply List.filter_congr
      intro r _
      rw [hf]
      cases hP : P r <;> by_cases ho : r.owner = a <;> by_cases h : r.loc = l <;>
        by_cases h0 : r.loc = [0, 0] <;> simp [visible, ho, h, h0]
      all_goals (first | exact hl | (exact fun e => hl e.symm) | (exact absurd (h.symm.trans h0) hl))

theorem levelRecs_eq (recs : List Rec) (l : Bytes) (a : List Bytes) (w : Bool) :
    (viewSort l recs).filter (fun r => decide (r.owner = a ∧ r.wild = w ∧ visible l r = true))
      = (visRecs recs l a).filter (fun r => decide (r.wild = w)) :=
  filter_viewSort recs l a _ _ (by intro r; simp [Bool.decide_and])

theorem wildRecs_eq (recs : List Rec) (l : Bytes) (a : List Bytes) :
    (viewSort l recs).filter (fun r => decide (r.owner = a ∧ r.wild = true ∧ visible l r = true))
      = (visRecs recs l a).filter (fun r => decide (r.wild = true)) := levelRecs_eq recs l a true

theorem ownRecs_eq (recs : List Rec) (l : Bytes) (a : List Bytes) :
    (viewSort l recs).filter (fun r => decide (r.owner = a ∧ ¬ r.wild = true ∧ visible l r = true))
      = (visRecs recs l a).filter (fun r => decide (r.wild = false)) :=
  filter_viewSort recs l a _ _ (by intro r; simp [Bool.decide_and])

theorem tagged_rows (s : Store) (recs : List Rec) (l : Bytes) (ls : List Bytes)
    (hl : RepresentsAt s recs l) (hn : NameOK ls) :
    (if l ≠ [0, 0] then s.get (l ++ pack ls) else [])
      = (if l ≠ [0, 0] then recsAt recs ls l else []).map rowOfRec := by
  by_cases h : l ≠ [0, 0]
  · rw [if_pos h, if_pos h, hl ls hn]
  · rw [if_neg h, if_neg h]; rfl

/-- the answer walk of the v1 reader: own records, else the closest covering wildcard -/
theorem findAnswer_walk (b : Backend) (s : Store) (recs : List Rec) (l : Bytes)
    (h0 : RepresentsAt s recs [0, 0]) (hl : RepresentsAt s recs l) (hok : ∀ r ∈ recs, RecOK r)
    (cut : List Bytes) (hcut : ∀ x ∈ cut, LabelOK x) (qn : Bytes) (qt : Nat) :
    ∀ (ls : List Bytes), NameOK ls → ∀ fuel, ls.length < fuel → ∀ w : Bool,
      findAnswerV1 ⟨b, s, l⟩ (pack cut) qn qt fuel (pack ls) w {} =
        ansOf qn qt
          (if ((visRecs recs l ls).filter fun r => decide (r.wild = w)) ≠ []
           then (visRecs recs l ls).filter fun r => decide (r.wild = w)
           else recordsFor.up (viewSort l recs) l cut ls) := by
  intro ls
  induction ls with
  | nil =>
    intro hn fuel hf w
    obtain ⟨fuel, rfl⟩ : ∃ f, fuel = f + 1 := ⟨fuel - 1, by omega⟩
    rw [findAnswer_step ⟨b, s, l⟩ (pack cut) qn qt fuel (pack []) w _ _
      (fun r hr => recOK_visRecs hok l [] r (List.mem_append_left _ hr))
      (fun r hr => recOK_visRecs hok l [] r (List.mem_append_right _ hr))
      (tagged_rows s recs l [] hl hn) (h0 [] hn)]
    show (if ((visRecs recs l []).filter fun r => decide (r.wild = w)) ≠ [] then _ else _) = _
    by_cases hL : ((visRecs recs l []).filter fun r => decide (r.wild = w)) ≠ []
    · rw [if_pos hL, if_pos hL]; rfl
    · rw [if_neg hL, if_neg hL, up_nil]
      have e : ansOf qn qt [] = {} := rfl
      rw [e]
      by_cases hc : pack [] = pack cut
      · rw [if_pos hc]
      · rw [if_neg hc]; rfl
  | cons lab rest ih =>
    intro hn fuel hf w
    obtain ⟨fuel, rfl⟩ : ∃ f, fuel = f + 1 := ⟨fuel - 1, by omega⟩
    rw [findAnswer_step ⟨b, s, l⟩ (pack cut) qn qt fuel (pack (lab :: rest)) w _ _
      (fun r hr => recOK_visRecs hok l (lab :: rest) r (List.mem_append_left _ hr))
      (fun r hr => recOK_visRecs hok l (lab :: rest) r (List.mem_append_right _ hr))
      (tagged_rows s recs l _ hl hn) (h0 _ hn)]
    show (if ((visRecs recs l (lab :: rest)).filter fun r => decide (r.wild = w)) ≠ [] then _ else _) = _
    by_cases hL : ((visRecs recs l (lab :: rest)).filter fun r => decide (r.wild = w)) ≠ []
    · rw [if_pos hL, if_pos hL]; rfl
    · rw [if_neg hL, if_neg hL, up_cons]
      have e : ansOf qn qt [] = {} := rfl
      by_cases hc : pack (lab :: rest) = pack cut
      · rw [if_pos hc, if_pos (pack_injective _ _ hn.1 hcut hc), e]
      · rw [if_neg hc, if_neg (fun h => hc (by rw [h]))]
        rw [pack_cons]
        simp only []
        rw [if_neg hn.head.len_byte.2, (pack_cons_drop lab rest hn.head).1, (pack_cons_drop lab rest hn.head).2]
        by_cases hws : ¬ wildsafe lab = true
        · rw [if_pos hws, if_pos (by simpa [wildsafeLabel] using hws), e]
        · rw [if_neg hws, if_neg (by simpa [wildsafeLabel] using hws)]
          rw [ih hn.tail fuel (by simp at hf; omega) true, wildRecs_eq]
          congr 1
          by_cases hW : ((visRecs recs l rest).filter fun r => decide (r.wild = true)) ≠ []
          · rw [if_pos hW, if_pos (by simpa [List.isEmpty_iff] using hW)]
          · rw [if_neg hW, if_neg (by simpa [List.isEmpty_iff] using hW)]

theorem findAnswer_recordsFor (b : Backend) (s : Store) (recs : List Rec) (l : Bytes)
    (h0 : RepresentsAt s recs [0, 0]) (hl : RepresentsAt s recs l) (hok : ∀ r ∈ recs, RecOK r)
    (cut : List Bytes) (hcut : ∀ x ∈ cut, LabelOK x) (qn : Bytes) (qt : Nat)
    (q : List Bytes) (hq : NameOK q) (fuel : Nat) (hf : q.length < fuel) :
    findAnswerV1 ⟨b, s, l⟩ (pack cut) qn qt fuel (pack q) false {} =
      ansOf qn qt (recordsFor (viewSort l recs) l q cut) := by
  rw [findAnswer_walk b s recs l h0 hl hok cut hcut qn qt q hq fuel hf false, recordsFor_eq, ownRecs_eq]
  congr 1
  by_cases hW : ((visRecs recs l q).filter fun r => decide (r.wild = false)) ≠ []
  · rw [if_pos hW, if_pos (by simpa [List.isEmpty_iff] using hW)]
  · rw [if_neg hW, if_neg (by simpa [List.isEmpty_iff] using hW)]

/-! ### authority section -/

theorem rowsOf_v1 (b : Backend) (hb : b ≠ .rdbV2) (s : Store) (recs : List Rec) (l : Bytes)
    (h0 : RepresentsAt s recs [0, 0]) (hl : RepresentsAt s recs l) (ls : List Bytes) (hn : NameOK ls) :
    rowsOf ⟨b, s, l⟩ (pack ls) = (visRecs recs l ls).map rowOfRec := by
  have hv : (⟨b, s, l⟩ : View).v2 = false := by simp [View.v2, hb]
  unfold rowsOf rrKey
  simp only [hv, Bool.false_eq_true, ↓reduceIte, Option.map_some, Option.getD_some]
  exact rows_visRecs s recs l ls h0 hl hn

def soaP (r : Rec) : Bool := decide (r.wild = false ∧ r.type = 6)
def nsP (r : Rec) : Bool := decide (r.wild = false ∧ r.type = 2)

theorem findSome_soa (rs : List Rec) (h : ∀ r ∈ rs, RecOK r) :
    ((rs.map rowOfRec).findSome? fun row =>
      match extractRR row false with
      | .row r => if r.qtype = 6 then some r else none
      | _ => none) = (rs.find? soaP).map rowFields := by
  induction rs with
  | nil => rfl
  | cons r rs ih =>
    rw [List.map_cons, List.findSome?_cons, extractRR_rowOfRec r (h r (by simp)),
      ih (fun x hx => h x (List.mem_cons_of_mem _ hx)), List.find?_cons]
    cases hw : r.wild with
    | true => simp [soaP, hw]
    | false =>
      by_cases h6 : r.type = 6
      · simp [soaP, hw, h6, rowFields]
      · simp [soaP, hw, h6, rowFields]

theorem findSOA_v1 (b : Backend) (hb : b ≠ .rdbV2) (s : Store) (recs : List Rec) (l : Bytes)
    (h0 : RepresentsAt s recs [0, 0]) (hl : RepresentsAt s recs l) (hok : ∀ r ∈ recs, RecOK r)
    (cut : List Bytes) (hn : NameOK cut) :
    findSOA ⟨b, s, l⟩ (pack cut) =
      match (visRecs recs l cut).find? soaP with
      | some r => [⟨pack cut, 6, 1, r.ttl, r.rdata⟩]
      | none => [] := by
  unfold findSOA
  rw [rowsOf_v1 b hb s recs l h0 hl cut hn]
  have e := findSome_soa _ (recOK_visRecs hok l cut)
  refine Eq.trans (congrArg (fun o : Option Row => match o with
    | some r => [(⟨pack cut, 6, 1, r.ttl, r.rdata⟩ : RR)]
    | none => []) e) ?_
  cases (visRecs recs l cut).find? soaP <;> rfl

/-- non-wildcard NS rdata is exactly one well-formed name -/
def NsParse (recs : List Rec) : Prop :=
  ∀ r ∈ recs, r.type = 2 → r.wild = false → nameAt r.rdata = some r.rdata

instance (recs : List Rec) : Decidable (NsParse recs) := by unfold NsParse; infer_instance

theorem filterMap_ns (rs : List Rec) (h : ∀ r ∈ rs, RecOK r)
    (hns : ∀ r ∈ rs, r.type = 2 → r.wild = false → nameAt r.rdata = some r.rdata) (z : Bytes) (cls : Nat) :
    ((rs.map rowOfRec).filterMap fun row =>
      match extractRR row false with
      | .row r => if r.qtype = 2 then (nameAt r.rdata).map fun n => (⟨z, 2, cls, r.ttl, n⟩ : RR) else none
      | _ => none) = (rs.filter nsP).map fun r => (⟨z, 2, cls, r.ttl, r.rdata⟩ : RR) := by
  induction rs with
  | nil => rfl
  | cons r rs ih =>
    rw [List.map_cons, List.filterMap_cons, extractRR_rowOfRec r (h r (by simp)),
      ih (fun x hx => h x (List.mem_cons_of_mem _ hx)) (fun x hx => hns x (List.mem_cons_of_mem _ hx))]
    cases hw : r.wild with
    | true => simp [nsP, hw]
    | false =>
      by_cases h2 : r.type = 2
      · have := hns r (by simp) h2 hw
        simp [nsP, hw, h2, rowFields, this]
      · simp [nsP, hw, h2, rowFields]

theorem getNs_v1 (b : Backend) (hb : b ≠ .rdbV2) (s : Store) (recs : List Rec) (l : Bytes)
    (h0 : RepresentsAt s recs [0, 0]) (hl : RepresentsAt s recs l) (hok : ∀ r ∈ recs, RecOK r)
    (hns : NsParse recs) (cut : List Bytes) (hn : NameOK cut) (cls : Nat) :
    getNs ⟨b, s, l⟩ (pack cut) cls =
      ((visRecs recs l cut).filter nsP).map fun r => (⟨pack cut, 2, cls, r.ttl, r.rdata⟩ : RR) := by
  unfold getNs
  rw [rowsOf_v1 b hb s recs l h0 hl cut hn]
  exact filterMap_ns _ (recOK_visRecs hok l cut)
    (fun r hr => hns r ((mem_visRecs _ _ _ _).mp hr).1) _ _


theorem find?_congr' {α : Type} {p q : α → Bool} : ∀ {l : List α}, (∀ x ∈ l, p x = q x) → l.find? p = l.find? q
  | [], _ => rfl
  | a :: l, h => by
    rw [List.find?_cons, List.find?_cons, h a (by simp),
      find?_congr' (fun x hx => h x (List.mem_cons_of_mem _ hx))]

theorem find_viewSort (recs : List Rec) (l : Bytes) (a : List Bytes) (f P : Rec → Bool)
    (hf : ∀ r, f r = (decide (r.owner = a) && (P r && visible l r))) :
    (viewSort l recs).find? f = (visRecs recs l a).find? P := by
  rw [← List.head?_filter, ← List.head?_filter, filter_viewSort recs l a f P hf]

theorem soaOf_viewSort (recs : List Rec) (l : Bytes) (cut : List Bytes) :
    soaOf (viewSort l recs) l cut =
      match (visRecs recs l cut).find? soaP with
      | some r => [⟨cut, 6, 1, r.ttl, r.rdata⟩]
      | none => [] := by
  have h2 : (viewSort l recs).find? (fun r => decide (r.owner = cut ∧ ¬ r.wild = true ∧ r.type = 6 ∧ visible l r = true))
      = (visRecs recs l cut).find? soaP :=
    find_viewSort recs l cut _ soaP (by intro r; simp [soaP, Bool.decide_and, Bool.and_assoc])
  have h1 : ∀ r, (viewSort l recs).find? (fun r => decide (r.owner = cut ∧ ¬ r.wild = true ∧ r.type = 6 ∧
      visible l r = true ∧ r.loc = l ∧ l ≠ [0, 0])) = some r → (visRecs recs l cut).find? soaP = some r := by
    intro r hr
    rw [← h2]
    by_cases hl : l = [0, 0]
    · rw [List.find?_eq_some_iff_append] at hr
      simp [hl] at hr
    · unfold viewSort at hr ⊢
      rw [List.find?_append] at hr ⊢
      have hB : (recs.filter fun r => decide (r.loc ≠ l)).find? (fun r => decide (r.owner = cut ∧ ¬ r.wild = true ∧
          r.type = 6 ∧ visible l r = true ∧ r.loc = l ∧ l ≠ [0, 0])) = none := by
        rw [List.find?_eq_none]
        intro x hx
        have := (List.mem_filter.mp hx).2
        simp only [decide_eq_true_eq] at this
        simp [this]
      rw [hB, Option.or_none] at hr
      have hA : (recs.filter fun r => decide (r.loc = l)).find? (fun r => decide (r.owner = cut ∧ ¬ r.wild = true ∧
          r.type = 6 ∧ visible l r = true ∧ r.loc = l ∧ l ≠ [0, 0])) =
          (recs.filter fun r => decide (r.loc = l)).find? (fun r => decide (r.owner = cut ∧ ¬ r.wild = true ∧
          r.type = 6 ∧ visible l r = true)) := by
        apply find?_congr'
        intro x hx
        have := (List.mem_filter.mp hx).2
        simp only [decide_eq_true_eq] at this
        simp [this, hl]
      rw [hA] at hr
      rw [hr]
      rfl
  unfold soaOf
  cases hf1 : (viewSort l recs).find? (fun r => decide (r.owner = cut ∧ ¬ r.wild = true ∧ r.type = 6 ∧
      visible l r = true ∧ r.loc = l ∧ l ≠ [0, 0])) with
  | some r => rw [h1 r hf1]
  | none =>
    simp only []; rw [h2]
    try (cases (visRecs recs l cut).find? soaP <;> rfl)

theorem nsOf_viewSort (recs : List Rec) (l : Bytes) (qclass : Nat) (cut : List Bytes) :
    nsOf (viewSort l recs) l qclass cut =
      ((visRecs recs l cut).filter nsP).map fun r => ⟨cut, 2, qclass, r.ttl, r.rdata⟩ := by
  unfold nsOf
  rw [filter_viewSort recs l cut _ nsP (by intro r; simp [nsP, Bool.decide_and, Bool.and_assoc])]

theorem mem_viewSort (l : Bytes) (recs : List Rec) (r : Rec) : r ∈ viewSort l recs ↔ r ∈ recs := by
  unfold viewSort
  by_cases h : r.loc = l <;> simp [h]

theorem hasT_viewSort (recs : List Rec) (l : Bytes) (a : List Bytes) (t : Nat) :
    hasT (viewSort l recs) l a t = hasT recs l a t := by
  rw [Bool.eq_iff_iff, hasT_iff, hasT_iff]
  constructor
  · rintro ⟨r, hr, h⟩; exact ⟨r, (mem_viewSort l recs r).mp hr, h⟩
  · rintro ⟨r, hr, h⟩; exact ⟨r, (mem_viewSort l recs r).mpr hr, h⟩

theorem cutOf_viewSort (recs : List Rec) (l : Bytes) (q : List Bytes) :
    cutOf (viewSort l recs) l q = cutOf recs l q := by
  unfold cutOf
  congr 1
  funext a
  exact hasT_viewSort recs l a 2

theorem cutAuth_viewSort (recs : List Rec) (l : Bytes) (q : List Bytes) (qtype : Nat) (cut0 : List Bytes) :
    cutAuth (viewSort l recs) l q qtype cut0 = cutAuth recs l q qtype cut0 := by
  unfold cutAuth
  simp only [hasT_viewSort, cutOf_viewSort]

/-! ### the handler -/

def ofSpecRR (r : OutRR) : RR := ⟨pack r.owner, r.type, r.cls, r.ttl, r.rdata⟩
def ofSpecGroup (g : OutAddrs) : AddrGroup :=
  ⟨pack g.owner, g.type, g.cls, g.cands.map fun c => ⟨c.1, c.2.1, c.2.2⟩, g.max⟩
/-- `Spec.Answer` rendered as the model's response (owners packed) -/
def ofSpec (a : Answer) : Response :=
  ⟨a.rcode, a.aa, a.answer.map ofSpecRR, a.answerAddrs.map ofSpecGroup, a.authority.map ofSpecRR,
   a.additional.map ofSpecGroup⟩

/-- the part of `serve` after the zone cut is settled -/
def serveTail (v : View) (q : Query) (cut : Cut) : Outcome :=
  match (if cut.zoneCut.isEmpty then none else some ()) with
  | none => .panic
  | some _ =>
  let ans : R Ans :=
    if cut.auth then
      if v.v2 then findAnswerV2 v q.qname cut.zoneCut q.qnameOut q.qtype
      else .ok (findAnswerV1 v cut.zoneCut q.qnameOut q.qtype (q.qname.length + 1) q.qname false {})
    else .ok {}
  match ans with
  | .panic => .panic
  | .err => .noReply
  | .ok a =>
    let groups : List AddrGroup :=
      (if a.a4.isEmpty then [] else [⟨q.qnameOut, 1, 1, a.a4, q.maxAns⟩])
      ++ (if a.a6.isEmpty then [] else [⟨q.qnameOut, 28, 1, a.a6, q.maxAns⟩])
    let served (g : AddrGroup) : Bool := g.cands.any fun c => c.weight > 0
    let answerEmpty := a.rrs.isEmpty ∧ ¬ groups.any served
    let rcode := if cut.auth ∧ answerEmpty ∧ ¬ a.recordFound then 3 else 0
    let hasNsAnswer := a.rrs.any fun rr => rr.type = 2 ∧ toLower rr.name = cut.zoneCut
    let nsSec : List RR :=
      if cut.auth ∧ answerEmpty then findSOA v cut.zoneCut
      else if ¬ cut.auth ∧ ¬ hasNsAnswer then getNs v cut.zoneCut q.qclass
      else []
    let present := fun (name : Bytes) (t : Nat) (extra : List AddrGroup) => hasAddr groups name t extra
    let extra1 := additionalFor v q.qclass a.rrs present []
    let extra2 := additionalFor v q.qclass nsSec present extra1
    .reply { rcode := rcode, aa := cut.auth, answer := a.rrs, answerAddrs := groups, ns := nsSec,
             extra := extra2 }

theorem serve_eq (v : View) (q : Query) :
    serve v q =
      match isAuthoritative v q.qname with
      | .err | .panic => .failedReply
      | .ok cut =>
        if ¬ cut.ns ∧ ¬ cut.auth then
          .reply { rcode := 5, aa := false, answer := [], answerAddrs := [], ns := [], extra := [] }
        else
          let dsStep : R Cut :=
            if ¬ cut.auth ∧ q.qtype = 43 ∧ q.qname.head? ≠ some 0 then
              match q.qname with
              | [] => .panic
              | n :: rest =>
                match isAuthoritative v (rest.drop n.toNat) with
                | .ok c2 => .ok ⟨cut.ns, c2.auth, c2.zoneCut⟩
                | .err => .err
                | .panic => .panic
            else .ok cut
          match dsStep with
          | .panic => .panic
          | .err => .failedReply
          | .ok cut => serveTail v q cut := by
  rfl

theorem ansOf_rrs (q : List Bytes) (qt : Nat) (rs : List Rec) :
    (ansOf (pack q) qt rs).rrs = (plainOf q (matchingOf rs qt)).map ofSpecRR := by
  simp only [ansOf, plainOf, matchingOf, List.map_map]
  rfl

theorem grp_gen (q : List Bytes) (m t : Nat) (L : List Rec) :
    (if (L.map fun r => (⟨r.ttl, r.weight, r.rdata⟩ : Cand)).isEmpty then []
      else [(⟨pack q, t, 1, L.map fun r => (⟨r.ttl, r.weight, r.rdata⟩ : Cand), m⟩ : AddrGroup)])
    = (if (L.map fun r => (r.ttl, r.weight, r.rdata)).isEmpty then []
       else [(⟨q, t, 1, L.map fun r => (r.ttl, r.weight, r.rdata), m⟩ : OutAddrs)]).map ofSpecGroup := by
  cases L with
  | nil => rfl
  | cons a L => simp [ofSpecGroup]

theorem grp_a4 (q : List Bytes) (qt m : Nat) (rs : List Rec) :
    (if (ansOf (pack q) qt rs).a4.isEmpty then [] else [(⟨pack q, 1, 1, (ansOf (pack q) qt rs).a4, m⟩ : AddrGroup)])
      = (grpOf q m (matchingOf rs qt) 1).map ofSpecGroup :=
  grp_gen q m 1 ((rs.filter (matchQ qt)).filter fun r => decide (r.type = 1))

theorem grp_a6 (q : List Bytes) (qt m : Nat) (rs : List Rec) :
    (if (ansOf (pack q) qt rs).a6.isEmpty then [] else [(⟨pack q, 28, 1, (ansOf (pack q) qt rs).a6, m⟩ : AddrGroup)])
      = (grpOf q m (matchingOf rs qt) 28).map ofSpecGroup :=
  grp_gen q m 28 ((rs.filter (matchQ qt)).filter fun r => decide (r.type = 28))

theorem served_ofSpec (gs : List OutAddrs) :
    ((gs.map ofSpecGroup).any fun g => g.cands.any fun c => decide (c.weight > 0)) = gs.any servedS := by
  simp [List.any_map, ofSpecGroup, Function.comp_def]
  rfl

/-- the model's additional section, given the other sections -/
def modelExtra (v : View) (qc : Nat) (answer : List RR) (groups : List AddrGroup) (ns : List RR) :
    List AddrGroup :=
  additionalFor v qc ns (fun name t extra => hasAddr groups name t extra)
    (additionalFor v qc answer (fun name t extra => hasAddr groups name t extra) [])

theorem length_lt_pack (ls : List Bytes) : ls.length < (pack ls).length := by
  induction ls with
  | nil => simp [pack]
  | cons a t ih => rw [pack_cons]; simp only [List.length_cons, List.length_append]; omega

theorem serveTail_nonauth (b : Backend) (hb : b ≠ .rdbV2) (s : Store) (recs : List Rec) (l : Bytes)
    (h0 : RepresentsAt s recs [0, 0]) (hl : RepresentsAt s recs l) (hok : ∀ r ∈ recs, RecOK r)
    (hns : NsParse recs) (q : List Bytes) (qt qc m : Nat) (c : List Bytes) (hc : NameOK c) :
    serveTail ⟨b, s, l⟩ ⟨pack q, pack q, qt, qc, m⟩ ⟨true, false, pack c⟩ =
      .reply { rcode := 0, aa := false, answer := [], answerAddrs := [],
               ns := (nsOf (viewSort l recs) l qc c).map ofSpecRR,
               extra := modelExtra ⟨b, s, l⟩ qc [] [] ((nsOf (viewSort l recs) l qc c).map ofSpecRR) } := by
  unfold serveTail
  have hne : (pack c).isEmpty = false := by
    cases h : pack c with
    | nil => exact absurd h (pack_ne_nil c)
    | cons _ _ => rfl
  simp only [hne, Bool.false_eq_true, ↓reduceIte]
  have hgn : getNs ⟨b, s, l⟩ (pack c) qc = (nsOf (viewSort l recs) l qc c).map ofSpecRR := by
    rw [getNs_v1 b hb s recs l h0 hl hok hns c hc qc, nsOf_viewSort, List.map_map]
    rfl
  simp [hgn, modelExtra]

theorem findSOA_ofSpec (b : Backend) (hb : b ≠ .rdbV2) (s : Store) (recs : List Rec) (l : Bytes)
    (h0 : RepresentsAt s recs [0, 0]) (hl : RepresentsAt s recs l) (hok : ∀ r ∈ recs, RecOK r)
    (c : List Bytes) (hc : NameOK c) :
    findSOA ⟨b, s, l⟩ (pack c) = (soaOf (viewSort l recs) l c).map ofSpecRR := by
  rw [findSOA_v1 b hb s recs l h0 hl hok c hc, soaOf_viewSort]
  cases (visRecs recs l c).find? soaP <;> rfl

theorem serveTail_auth (b : Backend) (hb : b ≠ .rdbV2) (s : Store) (recs : List Rec) (l : Bytes)
    (h0 : RepresentsAt s recs [0, 0]) (hl : RepresentsAt s recs l) (hok : ∀ r ∈ recs, RecOK r)
    (q : List Bytes) (hq : NameOK q) (qt qc m : Nat) (c : List Bytes) (hc : NameOK c) :
    serveTail ⟨b, s, l⟩ ⟨pack q, pack q, qt, qc, m⟩ ⟨true, true, pack c⟩ =
      .reply {
        rcode := (answerAt (viewSort l recs) l q qt qc m c true True).rcode, aa := true,
        answer := (answerAt (viewSort l recs) l q qt qc m c true True).answer.map ofSpecRR,
        answerAddrs := (answerAt (viewSort l recs) l q qt qc m c true True).answerAddrs.map ofSpecGroup,
        ns := (answerAt (viewSort l recs) l q qt qc m c true True).authority.map ofSpecRR,
        extra := modelExtra ⟨b, s, l⟩ qc
          ((answerAt (viewSort l recs) l q qt qc m c true True).answer.map ofSpecRR)
          ((answerAt (viewSort l recs) l q qt qc m c true True).answerAddrs.map ofSpecGroup)
          ((answerAt (viewSort l recs) l q qt qc m c true True).authority.map ofSpecRR) } := by
  unfold serveTail
  have hne : (pack c).isEmpty = false := by
    cases h : pack c with
    | nil => exact absurd h (pack_ne_nil c)
    | cons _ _ => rfl
  have hv : (⟨b, s, l⟩ : View).v2 = false := by simp [View.v2, hb]
  simp only [hne, hv, Bool.false_eq_true, ↓reduceIte]
  rw [findAnswer_recordsFor b s recs l h0 hl hok c hc.1 (pack q) qt q hq ((pack q).length + 1)
    (Nat.lt_succ_of_lt (length_lt_pack q))]
  simp only [ansOf_rrs, grp_a4, grp_a6, findSOA_ofSpec b hb s recs l h0 hl hok c hc, ← List.map_append,
    served_ofSpec]
  unfold answerAt modelExtra
  simp only [↓reduceIte]
  generalize recordsFor (viewSort l recs) l q c = rs
  cases rs with
  | nil =>
    simp [matchingOf, plainOf, grpOf, ansOf]
  | cons r0 rs' =>
    have hf : (ansOf (pack q) qt (r0 :: rs')).recordFound = true := rfl
    rw [hf]
    simp [apply_ite (List.map ofSpecRR)]

/-- the model response determined by a spec answer: every section but the additional one is the
spec's; the additional section is what the model computes from those sections -/
def respOf (v : View) (qc : Nat) (A : Answer) : Response :=
  { rcode := A.rcode, aa := A.aa, answer := A.answer.map ofSpecRR,
    answerAddrs := A.answerAddrs.map ofSpecGroup, ns := A.authority.map ofSpecRR,
    extra := modelExtra v qc (A.answer.map ofSpecRR) (A.answerAddrs.map ofSpecGroup)
      (A.authority.map ofSpecRR) }

/-- explicit well-formedness of the declared records -/
def WellFormed (recs : List Rec) : Prop := (∀ r ∈ recs, RecOK r) ∧ SoaHasNs recs ∧ NsParse recs

instance (recs : List Rec) : Decidable (WellFormed recs) := by unfold WellFormed; infer_instance

theorem serveTail_refines (b : Backend) (hb : b ≠ .rdbV2) (s : Store) (recs : List Rec) (l : Bytes)
    (h0 : RepresentsAt s recs [0, 0]) (hl : RepresentsAt s recs l) (hwf : WellFormed recs)
    (q : List Bytes) (hq : NameOK q) (qt qc m : Nat) (c : List Bytes) (hc : NameOK c) (auth : Bool) :
    serveTail ⟨b, s, l⟩ ⟨pack q, pack q, qt, qc, m⟩ ⟨true, auth, pack c⟩ =
      .reply (respOf ⟨b, s, l⟩ qc (answerAt (viewSort l recs) l q qt qc m c auth True)) := by
  cases auth with
  | true => exact serveTail_auth b hb s recs l h0 hl hwf.1 q hq qt qc m c hc
  | false =>
    rw [serveTail_nonauth b hb s recs l h0 hl hwf.1 hwf.2.2 q qt qc m c hc]
    simp [respOf, answerAt, matchingOf, plainOf, grpOf]

theorem head_pack (q : List Bytes) (hq : NameOK q) : (pack q).head? = some 0 ↔ q = [] := by
  cases q with
  | nil => simp [pack]
  | cons lab rest =>
    rw [pack_cons]
    simp only [List.head?_cons, Option.some.injEq, reduceCtorEq, iff_false]
    exact hq.head.len_byte.2

theorem cutOf_nameOK (recs : List Rec) (l : Bytes) (q c : List Bytes) (hq : NameOK q)
    (h : cutOf recs l q = some c) : NameOK c :=
  hq.ancestor (List.mem_of_find?_eq_some h)

theorem isAuthoritative_v1 (b : Backend) (hb : b ≠ .rdbV2) (s : Store) (recs : List Rec) (l : Bytes)
    (h0 : RepresentsAt s recs [0, 0]) (hl : RepresentsAt s recs l) (hwf : WellFormed recs)
    (q : List Bytes) (hq : NameOK q) :
    isAuthoritative ⟨b, s, l⟩ (pack q) =
      .ok (match cutOf recs l q with
           | some c => ⟨true, hasT recs l c 6, pack c⟩
           | none => ⟨false, false, [0]⟩) := by
  have hv : (⟨b, s, l⟩ : View).v2 = false := by simp [View.v2, hb]
  unfold isAuthoritative
  rw [hv]
  simp only [Bool.false_eq_true, ↓reduceIte]
  exact cut_walk b s recs l h0 hl hwf.1 hwf.2.1 q hq _ (Nat.lt_succ_of_lt (length_lt_pack q))


theorem respOf_congr (v : View) (qc : Nat) {A B : Answer} (h : A = B) : respOf v qc A = respOf v qc B := by
  rw [h]

/-- `serve` on a v1-layout store, all sections but the additional one resolved to the spec -/
theorem serve_v1_core (b : Backend) (hb : b ≠ .rdbV2) (s : Store) (recs : List Rec) (l : Bytes)
    (h0 : RepresentsAt s recs [0, 0]) (hl : RepresentsAt s recs l) (hwf : WellFormed recs)
    (q : List Bytes) (hq : NameOK q) (qt qc m : Nat) (maps : List MapDecl) (subnets : List SubnetDecl) :
    serve ⟨b, s, l⟩ ⟨pack q, pack q, qt, qc, m⟩ =
      .reply (respOf ⟨b, s, l⟩ qc (Spec.answer ⟨viewSort l recs, maps, subnets⟩ q qt qc m l)) := by
  rw [serve_eq, answer_eq]
  simp only [cutOf_viewSort, cutAuth_viewSort]
  rw [isAuthoritative_v1 b hb s recs l h0 hl hwf q hq]
  cases hcq : cutOf recs l q with
  | none =>
    simp only [Bool.false_eq_true, not_false_eq_true, and_self, ↓reduceIte]
    rfl
  | some cut0 =>
    have hc0 := cutOf_nameOK recs l q cut0 hq hcq
    simp only [not_true_eq_false, false_and, ↓reduceIte]
    by_cases hds : ¬ hasT recs l cut0 6 = true ∧ qt = 43 ∧ (pack q).head? ≠ some 0
    · rw [if_pos hds]
      cases q with
      | nil => exact absurd ((head_pack [] hq).mpr rfl) hds.2.2
      | cons lab rest =>
        have hspec : ¬ hasT recs l cut0 6 = true ∧ qt = 43 ∧ (lab :: rest) ≠ [] := ⟨hds.1, hds.2.1, by simp⟩
        rw [pack_cons]
        simp only []
        rw [(pack_cons_drop lab rest hq.head).1, isAuthoritative_v1 b hb s recs l h0 hl hwf rest hq.tail]
        unfold cutAuth
        simp only [if_pos hspec, List.drop_succ_cons, List.drop_zero]
        cases hcr : cutOf recs l rest with
        | none =>
          simp only []
          have hroot : hasT recs l [] 2 = false := by
            unfold cutOf at hcr
            rw [List.find?_eq_none] at hcr
            have := hcr [] (by
              clear hcr hq hds hspec hcq
              induction rest with
              | nil => simp [Spec.ancestorsOrSelf]
              | cons a t ih => simp [Spec.ancestorsOrSelf, ih])
            simpa using this
          have hnsroot : nsOf (viewSort l recs) l qc [] = [] := by
            rw [nsOf_viewSort]
            have : (visRecs recs l []).filter nsP = [] := by
              rw [List.filter_eq_nil_iff]
              intro r hr hp
              rw [hasT_eq_anyT] at hroot
              unfold anyT at hroot
              rw [List.any_eq_false] at hroot
              exact hroot r hr hp
            rw [this]; rfl
          have := serveTail_refines b hb s recs l h0 hl hwf (lab :: rest) hq qt qc m [] nameOK_nil false
          rw [pack_cons, pack_nil] at this
          rw [this]
          congr 1
          apply respOf_congr
          simp [answerAt, matchingOf, plainOf, grpOf, hnsroot]
        | some c =>
          simp only []
          have hc := cutOf_nameOK recs l rest c hq.tail hcr
          have := serveTail_refines b hb s recs l h0 hl hwf (lab :: rest) hq qt qc m c hc (hasT recs l c 6)
          rw [pack_cons] at this
          rw [this]
    · rw [if_neg hds]
      simp only []
      have hspec : ¬ (¬ hasT recs l cut0 6 = true ∧ qt = 43 ∧ q ≠ []) := by
        intro h
        exact hds ⟨h.1, h.2.1, fun hh => h.2.2 ((head_pack q hq).mp hh)⟩
      unfold cutAuth
      simp only [if_neg hspec]
      rw [serveTail_refines b hb s recs l h0 hl hwf q hq qt qc m cut0 hc0 (hasT recs l cut0 6)]

/-! ### the additional section -/

/-- the name an answer / authority record asks addresses for, as written in its rdata -/
def rawTarget (rr : OutRR) : Option (List Bytes) :=
  if rr.type = 2 then nameLabels rr.rdata
  else if rr.type = 15 then nameLabels (rr.rdata.drop 2)
  else if rr.type = 65 then some rr.owner
  else none

theorem additionalTarget_ofSpec (rr : OutRR) :
    additionalTarget (ofSpecRR rr) = (rawTarget rr).map pack := by
  unfold additionalTarget rawTarget ofSpecRR nameAt nameLabels
  simp only []
  by_cases h2 : rr.type = 2
  · rw [if_pos h2, if_pos h2]
  · rw [if_neg h2, if_neg h2]
    by_cases h15 : rr.type = 15
    · rw [if_pos h15, if_pos h15]
    · rw [if_neg h15, if_neg h15]
      by_cases h65 : rr.type = 65
      · rw [if_pos h65, if_pos h65]; rfl
      · rw [if_neg h65, if_neg h65]; rfl

theorem lowerByte_small (n : UInt8) (h : n.toNat < 64) : lowerByte n = n := by
  unfold lowerByte
  rw [if_neg (by omega)]

theorem toLower_pack (t : List Bytes) (h : ∀ lab ∈ t, LabelOK lab) : toLower (pack t) = pack t := by
  induction t with
  | nil => decide
  | cons lab rest ih =>
    have hl := h lab (by simp)
    rw [pack_cons]
    unfold toLower at ih ⊢
    rw [List.map_cons, List.map_append, ih (fun x hx => h x (List.mem_cons_of_mem _ hx))]
    have h1 : lowerByte (UInt8.ofNat lab.length) = UInt8.ofNat lab.length :=
      lowerByte_small _ (by rw [hl.len_byte.1]; exact hl.2.1)
    have h2 : lab.map lowerByte = lab := hl.2.2
    rw [h1, h2]

theorem map_toLower_id (t : List Bytes) (h : ∀ lab ∈ t, LabelOK lab) : t.map toLower = t := by
  induction t with
  | nil => rfl
  | cons lab rest ih =>
    rw [List.map_cons, (h lab (by simp)).2.2, ih (fun x hx => h x (List.mem_cons_of_mem _ hx))]

theorem parsed_rows (rs : List Rec) (h : ∀ r ∈ rs, RecOK r) :
    ((rs.map rowOfRec).filterMap fun row =>
      match extractRR row false with
      | .row r => some r
      | _ => none) = (rs.filter fun r => decide (r.wild = false)).map rowFields := by
  induction rs with
  | nil => rfl
  | cons r rs ih =>
    rw [List.map_cons, List.filterMap_cons, extractRR_rowOfRec r (h r (by simp)),
      ih (fun x hx => h x (List.mem_cons_of_mem _ hx))]
    cases hw : r.wild with
    | true => simp [hw]
    | false => simp [hw]


/-- one step of `AdditionalSectionForRecords` -/
def stepX (v : View) (cls : Nat) (present : Bytes → Nat → List AddrGroup → Bool)
    (acc : List AddrGroup) (rr : RR) : List AddrGroup :=
  match additionalTarget rr with
  | none => acc
  | some name =>
      let want4 := ¬ present name 1 acc
      let want6 := ¬ present name 28 acc
      if ¬ (want4 ∨ want6) then acc
      else
        let rows := rowsOf v (toLower name)
        let parsed := rows.filterMap fun row => match extractRR row false with
          | .row r => some r
          | _ => none
        let c4 := (parsed.filter (·.qtype = 1)).map fun r => (⟨r.ttl, r.weight, r.rdata⟩ : Cand)
        let c6 := (parsed.filter (·.qtype = 28)).map fun r => (⟨r.ttl, r.weight, r.rdata⟩ : Cand)
        acc ++ (if want6 ∧ ¬ c6.isEmpty then [⟨name, 28, cls, c6, 1⟩] else [])
            ++ (if want4 ∧ ¬ c4.isEmpty then [⟨name, 1, cls, c4, 1⟩] else [])

theorem additionalFor_eq (v : View) (cls : Nat) (records : List RR)
    (present : Bytes → Nat → List AddrGroup → Bool) (acc : List AddrGroup) :
    additionalFor v cls records present acc = records.foldl (stepX v cls present) acc := rfl

/-- the groups the spec adds for one target -/
def addGroups (recs : List Rec) (l : Bytes) (qclass : Nat) (groups : List OutAddrs) (tname : List Bytes) :
    List OutAddrs :=
  let alreadyHas (t : Nat) : Bool := groups.any fun g => g.owner = tname ∧ g.type = t ∧ servedS g
  (if ¬ alreadyHas 28 ∧ ¬ (candS recs l tname 28).isEmpty then [⟨tname, 28, qclass, candS recs l tname 28, 1⟩] else [])
  ++ (if ¬ alreadyHas 1 ∧ ¬ (candS recs l tname 1).isEmpty then [⟨tname, 1, qclass, candS recs l tname 1, 1⟩] else [])

theorem additionalOf_eq (recs : List Rec) (l : Bytes) (qclass : Nat) (groups : List OutAddrs)
    (targets : List (List Bytes)) :
    additionalOf recs l qclass groups targets = targets.eraseDups.flatMap (addGroups recs l qclass groups) := rfl

theorem candS_viewSort (recs : List Rec) (l : Bytes) (tn : List Bytes) (t : Nat) :
    candS (viewSort l recs) l tn t =
      ((visRecs recs l tn).filter fun r => decide (r.wild = false ∧ r.type = t)).map fun r =>
        (r.ttl, r.weight, r.rdata) := by
  unfold candS
  rw [filter_viewSort recs l tn _ (fun r => decide (r.wild = false ∧ r.type = t))
    (by intro r; simp [Bool.decide_and, Bool.and_assoc])]

theorem model_cands (rs : List Rec) (t : Nat) (ht : t = 1 ∨ t = 28) :
    ((((rs.filter fun r => decide (r.wild = false)).map rowFields).filter fun r => decide (r.qtype = t)).map
        fun r => (⟨r.ttl, r.weight, r.rdata⟩ : Cand))
      = ((rs.filter fun r => decide (r.wild = false ∧ r.type = t)).map fun r => (r.ttl, r.weight, r.rdata)).map
          fun c => (⟨c.1, c.2.1, c.2.2⟩ : Cand) := by
  induction rs with
  | nil => rfl
  | cons r rs ih =>
    cases hw : r.wild with
    | true => simpa [hw] using ih
    | false =>
      by_cases h : r.type = t
      · have ha : r.type = 1 ∨ r.type = 28 := h ▸ ht
        simp only [List.filter_cons, hw, h, decide_true, ↓reduceIte, List.map_cons, rowFields, and_self]
        simp only [h] at ha
        simp only [ha, ↓reduceIte, List.cons.injEq, true_and]
        simpa [rowFields] using ih
      · simp only [List.filter_cons, hw, h, decide_true, ↓reduceIte, List.map_cons, rowFields,
          and_false, decide_false, Bool.false_eq_true]
        simpa [rowFields] using ih

theorem toLower_pack_group (G : List OutAddrs) (hG : ∀ g ∈ G, ∀ lab ∈ g.owner, LabelOK lab) :
    ∀ g ∈ G, toLower (ofSpecGroup g).name = pack g.owner := fun g hg => toLower_pack g.owner (hG g hg)

/-- `HasRecord` for a target written `tn` in the rdata whose lower-cased wire form is that of `tl` -/
theorem hasAddr_target_ci (G : List OutAddrs) (hG : ∀ g ∈ G, ∀ lab ∈ g.owner, LabelOK lab)
    (tn tl : List Bytes) (hn : NameOK tl) (hp : toLower (pack tn) = pack tl) (t : Nat) (acc : List AddrGroup)
    (hacc : ∀ g ∈ acc, toLower g.name ≠ pack tl) :
    hasAddr (G.map ofSpecGroup) (pack tn) t acc =
      G.any fun g => decide (g.owner = tl ∧ g.type = t ∧ servedS g = true) := by
  unfold hasAddr
  rw [List.any_append, hp]
  have h2 : (acc.any fun g => decide (toLower g.name = pack tl ∧ g.type = t ∧ (g.cands.any fun c => decide (c.weight > 0)) = true)) = false := by
    rw [List.any_eq_false]
    intro g hg
    simp [hacc g hg]
  rw [h2, Bool.or_false, List.any_map]
  rw [Bool.eq_iff_iff, List.any_eq_true, List.any_eq_true]
  have hinj : ∀ g ∈ G, (toLower (ofSpecGroup g).name = pack tl ↔ g.owner = tl) := fun g hg => by
    rw [toLower_pack_group G hG g hg]
    exact ⟨pack_injective _ _ (hG g hg) hn.1, fun h => by rw [h]⟩
  have hserved : ∀ g : OutAddrs, ((ofSpecGroup g).cands.any fun c => decide (c.weight > 0)) = servedS g := by
    intro g; simp only [ofSpecGroup, servedS, List.any_map]; rfl
  constructor
  · rintro ⟨g, hg, hp⟩
    refine ⟨g, hg, ?_⟩
    simp only [Function.comp, decide_eq_true_eq] at hp ⊢
    exact ⟨(hinj g hg).mp hp.1, hp.2.1, (hserved g) ▸ hp.2.2⟩
  · rintro ⟨g, hg, hp⟩
    refine ⟨g, hg, ?_⟩
    simp only [Function.comp, decide_eq_true_eq] at hp ⊢
    exact ⟨(hinj g hg).mpr hp.1, hp.2.1, (hserved g).symm ▸ hp.2.2⟩

theorem hasAddr_target (G : List OutAddrs) (hG : ∀ g ∈ G, ∀ lab ∈ g.owner, LabelOK lab)
    (tn : List Bytes) (hn : NameOK tn) (t : Nat) (acc : List AddrGroup)
    (hacc : ∀ g ∈ acc, toLower g.name ≠ pack tn) :
    hasAddr (G.map ofSpecGroup) (pack tn) t acc =
      G.any fun g => decide (g.owner = tn ∧ g.type = t ∧ servedS g = true) :=
  hasAddr_target_ci G hG tn tn hn (toLower_pack tn hn.1) t acc hacc

theorem stepX_none (v : View) (qc : Nat) (P : Bytes → Nat → List AddrGroup → Bool) (acc : List AddrGroup)
    (rr : OutRR) (ht : rawTarget rr = none) : stepX v qc P acc (ofSpecRR rr) = acc := by
  unfold stepX
  rw [additionalTarget_ofSpec, ht]
  rfl

theorem stepX_target (b : Backend) (hb : b ≠ .rdbV2) (s : Store) (recs : List Rec) (l : Bytes)
    (h0 : RepresentsAt s recs [0, 0]) (hl : RepresentsAt s recs l) (hok : ∀ r ∈ recs, RecOK r)
    (qc : Nat) (G : List OutAddrs) (hG : ∀ g ∈ G, ∀ lab ∈ g.owner, LabelOK lab)
    (acc : List AddrGroup) (rr : OutRR) (tn : List Bytes) (ht : rawTarget rr = some tn) (hn : NameOK tn)
    (hacc : ∀ g ∈ acc, toLower g.name ≠ pack tn) :
    stepX ⟨b, s, l⟩ qc (fun name t extra => hasAddr (G.map ofSpecGroup) name t extra) acc (ofSpecRR rr)
      = acc ++ (addGroups (viewSort l recs) l qc G tn).map ofSpecGroup := by
  unfold stepX
  rw [additionalTarget_ofSpec, ht]
  simp only [Option.map_some]
  simp only [hasAddr_target G hG tn hn 1 acc hacc, hasAddr_target G hG tn hn 28 acc hacc,
    toLower_pack tn hn.1, rowsOf_v1 b hb s recs l h0 hl tn hn, parsed_rows _ (recOK_visRecs hok l tn),
    model_cands _ 1 (Or.inl rfl), model_cands _ 28 (Or.inr rfl)]
  unfold addGroups
  simp only [candS_viewSort]
  generalize (G.any fun g => decide (g.owner = tn ∧ g.type = 1 ∧ servedS g = true)) = p1
  generalize (G.any fun g => decide (g.owner = tn ∧ g.type = 28 ∧ servedS g = true)) = p28
  generalize (((visRecs recs l tn).filter fun r => decide (r.wild = false ∧ r.type = 1)).map fun r =>
    (r.ttl, r.weight, r.rdata)) = c1
  generalize (((visRecs recs l tn).filter fun r => decide (r.wild = false ∧ r.type = 28)).map fun r =>
    (r.ttl, r.weight, r.rdata)) = c28
  cases p1 <;> cases p28 <;> cases c1 <;> cases c28 <;> simp [ofSpecGroup]

theorem addGroups_owner (recs : List Rec) (l : Bytes) (qc : Nat) (G : List OutAddrs) (tn : List Bytes) :
    ∀ g ∈ addGroups recs l qc G tn, g.owner = tn := by
  intro g hg
  unfold addGroups at hg
  simp only [List.mem_append] at hg
  rcases hg with hg | hg
  · split at hg
    · simp only [List.mem_singleton] at hg; rw [hg]
    · cases hg
  · split at hg
    · simp only [List.mem_singleton] at hg; rw [hg]
    · cases hg

theorem fold_additional (b : Backend) (hb : b ≠ .rdbV2) (s : Store) (recs : List Rec) (l : Bytes)
    (h0 : RepresentsAt s recs [0, 0]) (hl : RepresentsAt s recs l) (hok : ∀ r ∈ recs, RecOK r)
    (qc : Nat) (G : List OutAddrs) (hG : ∀ g ∈ G, ∀ lab ∈ g.owner, LabelOK lab) :
    ∀ (rrs : List OutRR) (acc : List AddrGroup),
      (∀ t ∈ rrs.filterMap rawTarget, NameOK t) → (rrs.filterMap rawTarget).Nodup →
      (∀ g ∈ acc, ∀ t ∈ rrs.filterMap rawTarget, toLower g.name ≠ pack t) →
      (rrs.map ofSpecRR).foldl
          (stepX ⟨b, s, l⟩ qc (fun name t extra => hasAddr (G.map ofSpecGroup) name t extra)) acc
        = acc ++ ((rrs.filterMap rawTarget).flatMap (addGroups (viewSort l recs) l qc G)).map ofSpecGroup := by
  intro rrs
  induction rrs with
  | nil => intro acc _ _ _; simp
  | cons rr rrs ih =>
    intro acc hok' hnd hacc
    rw [List.map_cons, List.foldl_cons]
    cases ht : rawTarget rr with
    | none =>
      rw [List.filterMap_cons_none ht] at hok' hnd hacc ⊢
      rw [stepX_none _ _ _ _ _ ht]
      exact ih acc hok' hnd hacc
    | some tn =>
      rw [List.filterMap_cons_some ht] at hok' hnd hacc ⊢
      have hn : NameOK tn := hok' tn (by simp)
      rw [stepX_target b hb s recs l h0 hl hok qc G hG acc rr tn ht hn
        (fun g hg => hacc g hg tn (by simp))]
      rw [ih _ (fun t h => hok' t (List.mem_cons_of_mem _ h)) (List.nodup_cons.mp hnd).2]
      · rw [List.flatMap_cons, List.map_append, List.append_assoc]
      · intro g hg t htm
        rcases List.mem_append.mp hg with hg | hg
        · exact hacc g hg t (List.mem_cons_of_mem _ htm)
        · obtain ⟨g', hg', rfl⟩ := List.mem_map.mp hg
          have ho := addGroups_owner _ _ _ _ _ g' hg'
          show toLower (pack g'.owner) ≠ pack t
          rw [ho, toLower_pack tn hn.1]
          intro he
          have := pack_injective _ _ hn.1 (hok' t (List.mem_cons_of_mem _ htm)).1 he
          exact (List.nodup_cons.mp hnd).1 (this ▸ htm)

theorem eraseDups_nodup {α : Type} [BEq α] [LawfulBEq α] : ∀ (l : List α), l.Nodup → l.eraseDups = l
  | [], _ => rfl
  | a :: as, h => by
    have hn := List.nodup_cons.mp h
    rw [List.eraseDups_cons]
    have : as.filter (fun b => !b == a) = as := by
      rw [List.filter_eq_self]
      intro x hx
      simp only [Bool.not_eq_eq_eq_not, Bool.not_true, beq_eq_false_iff_ne, ne_eq]
      intro he; exact hn.1 (he ▸ hx)
    rw [this, eraseDups_nodup as hn.2]

theorem filterMap_congr' {α β : Type} {f g : α → Option β} :
    ∀ {l : List α}, (∀ x ∈ l, f x = g x) → l.filterMap f = l.filterMap g
  | [], _ => rfl
  | a :: l, h => by
    rw [List.filterMap_cons, List.filterMap_cons, h a (by simp),
      filterMap_congr' (fun x hx => h x (List.mem_cons_of_mem _ hx))]

theorem targetsOf_raw (rrs : List OutRR) (h : ∀ t ∈ rrs.filterMap rawTarget, NameOK t) :
    targetsOf rrs = rrs.filterMap rawTarget := by
  unfold targetsOf
  apply filterMap_congr'
  intro rr hrr
  have hok : ∀ t, rawTarget rr = some t → t.map toLower = t := by
    intro t ht
    exact map_toLower_id t (h t (List.mem_filterMap.mpr ⟨rr, hrr, ht⟩)).1
  unfold rawTarget at hok ⊢
  by_cases h2 : rr.type = 2
  · rw [if_pos h2] at hok ⊢
    rw [if_pos h2]
    cases hx : nameLabels rr.rdata with
    | none => rfl
    | some t => rw [Option.map_some, hok t hx]
  · rw [if_neg h2] at hok ⊢
    rw [if_neg h2]
    by_cases h15 : rr.type = 15
    · rw [if_pos h15] at hok ⊢
      rw [if_pos h15]
      cases hx : nameLabels (rr.rdata.drop 2) with
      | none => rfl
      | some t => rw [Option.map_some, hok t hx]
    · rw [if_neg h15, if_neg h15]

/-- the targets of the additional section are storable lower-case names, pairwise distinct -/
def TargetsOK (rrs : List OutRR) : Prop :=
  (∀ t ∈ rrs.filterMap rawTarget, NameOK t) ∧ (rrs.filterMap rawTarget).Nodup

theorem modelExtra_refines (b : Backend) (hb : b ≠ .rdbV2) (s : Store) (recs : List Rec) (l : Bytes)
    (h0 : RepresentsAt s recs [0, 0]) (hl : RepresentsAt s recs l) (hok : ∀ r ∈ recs, RecOK r)
    (qc : Nat) (G : List OutAddrs) (hG : ∀ g ∈ G, ∀ lab ∈ g.owner, LabelOK lab)
    (plain authority : List OutRR) (ht : TargetsOK (plain ++ authority)) :
    modelExtra ⟨b, s, l⟩ qc (plain.map ofSpecRR) (G.map ofSpecGroup) (authority.map ofSpecRR) =
      (additionalOf (viewSort l recs) l qc G (targetsOf (plain ++ authority))).map ofSpecGroup := by
  unfold modelExtra
  rw [additionalFor_eq, additionalFor_eq, ← List.foldl_append, ← List.map_append,
    fold_additional b hb s recs l h0 hl hok qc G hG (plain ++ authority) [] ht.1 ht.2 (by intro g hg; cases hg),
    additionalOf_eq, targetsOf_raw _ ht.1, eraseDups_nodup _ ht.2, List.nil_append]

theorem answer_additional (z : Zone) (q : List Bytes) (qt qc m : Nat) (l : Bytes) :
    (Spec.answer z q qt qc m l).additional =
      additionalOf z.recs l qc (Spec.answer z q qt qc m l).answerAddrs
        (targetsOf ((Spec.answer z q qt qc m l).answer ++ (Spec.answer z q qt qc m l).authority)) := by
  rw [answer_eq]
  cases cutOf z.recs l q with
  | none => rfl
  | some cut0 => rfl

theorem grpOf_owner (q : List Bytes) (m : Nat) (M : List Rec) (t : Nat) :
    ∀ g ∈ grpOf q m M t, g.owner = q := by
  intro g hg
  unfold grpOf at hg
  simp only [] at hg
  by_cases h : ((M.filter (·.type = t)).map fun r => (r.ttl, r.weight, r.rdata)).isEmpty = true
  · rw [if_pos h] at hg; cases hg
  · rw [if_neg h] at hg
    simp only [List.mem_singleton] at hg
    rw [hg]

theorem answer_group_owner (z : Zone) (q : List Bytes) (qt qc m : Nat) (l : Bytes) :
    ∀ g ∈ (Spec.answer z q qt qc m l).answerAddrs, g.owner = q := by
  rw [answer_eq]
  cases cutOf z.recs l q with
  | none => intro g hg; cases hg
  | some cut0 =>
    intro g hg
    simp only [answerAt, List.mem_append] at hg
    rcases hg with hg | hg
    · exact grpOf_owner _ _ _ _ g hg
    · exact grpOf_owner _ _ _ _ g hg

/-- `serve` on a v1-layout store is `Spec.answer`, all sections -/
theorem serve_v1_full (b : Backend) (hb : b ≠ .rdbV2) (s : Store) (recs : List Rec) (l : Bytes)
    (h0 : RepresentsAt s recs [0, 0]) (hl : RepresentsAt s recs l) (hwf : WellFormed recs)
    (q : List Bytes) (hq : NameOK q) (qt qc m : Nat) (maps : List MapDecl) (subnets : List SubnetDecl)
    (ht : TargetsOK ((Spec.answer ⟨viewSort l recs, maps, subnets⟩ q qt qc m l).answer ++
                     (Spec.answer ⟨viewSort l recs, maps, subnets⟩ q qt qc m l).authority)) :
    serve ⟨b, s, l⟩ ⟨pack q, pack q, qt, qc, m⟩ =
      .reply (ofSpec (Spec.answer ⟨viewSort l recs, maps, subnets⟩ q qt qc m l)) := by
  rw [serve_v1_core b hb s recs l h0 hl hwf q hq qt qc m maps subnets]
  congr 1
  unfold respOf ofSpec
  rw [modelExtra_refines b hb s recs l h0 hl hwf.1 qc _
    (fun g hg lab hlab => hq.1 lab ((answer_group_owner _ q qt qc m l g hg) ▸ hlab)) _ _ ht,
    answer_additional ⟨viewSort l recs, maps, subnets⟩ q qt qc m l]

/-! ### the additional section when the rdata spells a target in any letter case

Since `HasRecord` compares owner names case-insensitively, the handler's additional section is the
spec's for targets written in any letter case — up to the letter case of the additional owner names
themselves (the handler copies the rdata's spelling into the owner, the spec lower-cases). -/

/-- the target as the spec sees it (`targetsOf`): NS / MX targets lower-cased -/
def lowTarget (rr : OutRR) : Option (List Bytes) :=
  if rr.type = 2 then (nameLabels rr.rdata).map (·.map toLower)
  else if rr.type = 15 then (nameLabels (rr.rdata.drop 2)).map (·.map toLower)
  else if rr.type = 65 then some rr.owner
  else none

theorem targetsOf_eq (rrs : List OutRR) : targetsOf rrs = rrs.filterMap lowTarget := rfl

theorem lowTarget_none (rr : OutRR) (h : rawTarget rr = none) : lowTarget rr = none := by
  unfold rawTarget at h
  unfold lowTarget
  by_cases h2 : rr.type = 2
  · rw [if_pos h2] at h ⊢; rw [h]; rfl
  · rw [if_neg h2] at h ⊢
    by_cases h15 : rr.type = 15
    · rw [if_pos h15] at h ⊢; rw [h]; rfl
    · rw [if_neg h15] at h ⊢
      by_cases h65 : rr.type = 65
      · rw [if_pos h65] at h; cases h
      · rw [if_neg h65]

theorem lowTarget_some (rr : OutRR) (tn : List Bytes) (h : rawTarget rr = some tn) :
    ∃ tl, lowTarget rr = some tl ∧ ((∀ lab ∈ tl, LabelOK lab) → tn.map toLower = tl) := by
  unfold rawTarget at h
  unfold lowTarget
  by_cases h2 : rr.type = 2
  · rw [if_pos h2] at h ⊢; rw [h]; exact ⟨_, rfl, fun _ => rfl⟩
  · rw [if_neg h2] at h ⊢
    by_cases h15 : rr.type = 15
    · rw [if_pos h15] at h ⊢; rw [h]; exact ⟨_, rfl, fun _ => rfl⟩
    · rw [if_neg h15] at h ⊢
      by_cases h65 : rr.type = 65
      · rw [if_pos h65] at h ⊢
        cases h
        exact ⟨_, rfl, fun hok => map_toLower_id _ hok⟩
      · rw [if_neg h65] at h; cases h

theorem toLower_length (b : Bytes) : (toLower b).length = b.length := by
  unfold toLower; rw [List.length_map]

theorem toLower_pack_map (t : List Bytes) (h : ∀ lab ∈ t, lab.length < 64) :
    toLower (pack t) = pack (t.map toLower) := by
  induction t with
  | nil => decide
  | cons lab rest ih =>
    have hl := h lab (by simp)
    rw [List.map_cons, pack_cons, pack_cons, ← ih (fun x hx => h x (List.mem_cons_of_mem _ hx)), toLower_length]
    have h1 : lowerByte (UInt8.ofNat lab.length) = UInt8.ofNat lab.length :=
      lowerByte_small _ (by rw [toNat_ofNat_lt _ (by omega)]; exact hl)
    unfold toLower
    rw [List.map_cons, List.map_append, h1]

/-- the wire form of a target whose lower-cased labels are storable -/
theorem toLower_pack_of (tn tl : List Bytes) (he : tn.map toLower = tl) (hn : NameOK tl) :
    toLower (pack tn) = pack tl := by
  rw [← he]
  apply toLower_pack_map
  intro lab hlab
  have := (hn.1 (toLower lab) (he ▸ List.mem_map_of_mem hlab)).2.1
  rwa [toLower_length] at this

/-- a spec group under the owner spelling the rdata used -/
def reown (tn : List Bytes) (g : OutAddrs) : AddrGroup := ofSpecGroup { g with owner := tn }

theorem stepX_target_ci (b : Backend) (hb : b ≠ .rdbV2) (s : Store) (recs : List Rec) (l : Bytes)
    (h0 : RepresentsAt s recs [0, 0]) (hl : RepresentsAt s recs l) (hok : ∀ r ∈ recs, RecOK r)
    (qc : Nat) (G : List OutAddrs) (hG : ∀ g ∈ G, ∀ lab ∈ g.owner, LabelOK lab)
    (acc : List AddrGroup) (rr : OutRR) (tn tl : List Bytes) (ht : rawTarget rr = some tn) (hn : NameOK tl)
    (hp : toLower (pack tn) = pack tl) (hacc : ∀ g ∈ acc, toLower g.name ≠ pack tl) :
    stepX ⟨b, s, l⟩ qc (fun name t extra => hasAddr (G.map ofSpecGroup) name t extra) acc (ofSpecRR rr)
      = acc ++ (addGroups (viewSort l recs) l qc G tl).map (reown tn) := by
  unfold stepX
  rw [additionalTarget_ofSpec, ht]
  simp only [Option.map_some]
  simp only [hasAddr_target_ci G hG tn tl hn hp 1 acc hacc, hasAddr_target_ci G hG tn tl hn hp 28 acc hacc,
    hp, rowsOf_v1 b hb s recs l h0 hl tl hn, parsed_rows _ (recOK_visRecs hok l tl),
    model_cands _ 1 (Or.inl rfl), model_cands _ 28 (Or.inr rfl)]
  unfold addGroups
  simp only [candS_viewSort]
  generalize (G.any fun g => decide (g.owner = tl ∧ g.type = 1 ∧ servedS g = true)) = p1
  generalize (G.any fun g => decide (g.owner = tl ∧ g.type = 28 ∧ servedS g = true)) = p28
  generalize (((visRecs recs l tl).filter fun r => decide (r.wild = false ∧ r.type = 1)).map fun r =>
    (r.ttl, r.weight, r.rdata)) = c1
  generalize (((visRecs recs l tl).filter fun r => decide (r.wild = false ∧ r.type = 28)).map fun r =>
    (r.ttl, r.weight, r.rdata)) = c28
  cases p1 <;> cases p28 <;> cases c1 <;> cases c28 <;> simp [reown, ofSpecGroup]

theorem lowGroup_reown (tn tl : List Bytes) (hp : toLower (pack tn) = pack tl) (gs : List OutAddrs)
    (ho : ∀ g ∈ gs, g.owner = tl) : (gs.map (reown tn)).map ServeKey.lowGroup = gs.map ofSpecGroup := by
  rw [List.map_map]
  apply List.map_congr_left
  intro g hg
  show ServeKey.lowGroup (reown tn g) = ofSpecGroup g
  unfold ServeKey.lowGroup reown ofSpecGroup
  simp only [hp, ho g hg]

theorem fold_additional_ci (b : Backend) (hb : b ≠ .rdbV2) (s : Store) (recs : List Rec) (l : Bytes)
    (h0 : RepresentsAt s recs [0, 0]) (hl : RepresentsAt s recs l) (hok : ∀ r ∈ recs, RecOK r)
    (qc : Nat) (G : List OutAddrs) (hG : ∀ g ∈ G, ∀ lab ∈ g.owner, LabelOK lab) :
    ∀ (rrs : List OutRR) (acc : List AddrGroup),
      (∀ t ∈ targetsOf rrs, NameOK t) → (targetsOf rrs).Nodup →
      (∀ g ∈ acc, ∀ t ∈ targetsOf rrs, toLower g.name ≠ pack t) →
      ((rrs.map ofSpecRR).foldl
          (stepX ⟨b, s, l⟩ qc (fun name t extra => hasAddr (G.map ofSpecGroup) name t extra)) acc).map
          ServeKey.lowGroup
        = acc.map ServeKey.lowGroup ++
            ((targetsOf rrs).flatMap (addGroups (viewSort l recs) l qc G)).map ofSpecGroup := by
  intro rrs
  induction rrs with
  | nil => intro acc _ _ _; simp [targetsOf]
  | cons rr rrs ih =>
    intro acc hok' hnd hacc
    rw [List.map_cons, List.foldl_cons]
    rw [targetsOf_eq] at hok' hnd hacc
    cases ht : rawTarget rr with
    | none =>
      rw [List.filterMap_cons_none (lowTarget_none rr ht), ← targetsOf_eq] at hok' hnd hacc
      rw [stepX_none _ _ _ _ _ ht, targetsOf_eq, List.filterMap_cons_none (lowTarget_none rr ht), ← targetsOf_eq]
      exact ih acc hok' hnd hacc
    | some tn =>
      obtain ⟨tl, hlt, he⟩ := lowTarget_some rr tn ht
      rw [List.filterMap_cons_some hlt, ← targetsOf_eq] at hok' hnd hacc
      have hn : NameOK tl := hok' tl (by simp)
      have hp : toLower (pack tn) = pack tl := toLower_pack_of tn tl (he hn.1) hn
      rw [stepX_target_ci b hb s recs l h0 hl hok qc G hG acc rr tn tl ht hn hp
        (fun g hg => hacc g hg tl (by simp))]
      rw [ih _ (fun t h => hok' t (List.mem_cons_of_mem _ h)) (List.nodup_cons.mp hnd).2]
      · rw [targetsOf_eq (rr :: rrs), List.filterMap_cons_some hlt, ← targetsOf_eq, List.flatMap_cons,
          List.map_append, List.map_append, List.append_assoc,
          lowGroup_reown tn tl hp _ (addGroups_owner _ _ _ _ _)]
      · intro g hg t htm
        rcases List.mem_append.mp hg with hg | hg
        · exact hacc g hg t (List.mem_cons_of_mem _ htm)
        · obtain ⟨g', hg', rfl⟩ := List.mem_map.mp hg
          show toLower (pack tn) ≠ pack t
          rw [hp]
          intro he'
          have := pack_injective _ _ hn.1 (hok' t (List.mem_cons_of_mem _ htm)).1 he'
          exact (List.nodup_cons.mp hnd).1 (this ▸ htm)

/-- the targets of the additional section, lower-cased, are storable names and pairwise distinct
(the rdata may spell them in any letter case) -/
def TargetsLowOK (rrs : List OutRR) : Prop :=
  (∀ t ∈ targetsOf rrs, NameOK t) ∧ (targetsOf rrs).Nodup

instance (rrs : List OutRR) : Decidable (TargetsLowOK rrs) := by unfold TargetsLowOK; infer_instance

theorem modelExtra_refines_ci (b : Backend) (hb : b ≠ .rdbV2) (s : Store) (recs : List Rec) (l : Bytes)
    (h0 : RepresentsAt s recs [0, 0]) (hl : RepresentsAt s recs l) (hok : ∀ r ∈ recs, RecOK r)
    (qc : Nat) (G : List OutAddrs) (hG : ∀ g ∈ G, ∀ lab ∈ g.owner, LabelOK lab)
    (plain authority : List OutRR) (ht : TargetsLowOK (plain ++ authority)) :
    (modelExtra ⟨b, s, l⟩ qc (plain.map ofSpecRR) (G.map ofSpecGroup) (authority.map ofSpecRR)).map
        ServeKey.lowGroup =
      (additionalOf (viewSort l recs) l qc G (targetsOf (plain ++ authority))).map ofSpecGroup := by
  unfold modelExtra
  rw [additionalFor_eq, additionalFor_eq, ← List.foldl_append, ← List.map_append,
    fold_additional_ci b hb s recs l h0 hl hok qc G hG (plain ++ authority) [] ht.1 ht.2
      (by intro g hg; cases hg),
    additionalOf_eq, eraseDups_nodup _ ht.2, List.map_nil, List.nil_append]

/-- `serve` on a v1-layout store is `Spec.answer`; the additional section up to the letter case of
its owner names, for targets the rdata spells in any letter case -/
theorem serve_v1_full_ci (b : Backend) (hb : b ≠ .rdbV2) (s : Store) (recs : List Rec) (l : Bytes)
    (h0 : RepresentsAt s recs [0, 0]) (hl : RepresentsAt s recs l) (hwf : WellFormed recs)
    (q : List Bytes) (hq : NameOK q) (qt qc m : Nat) (maps : List MapDecl) (subnets : List SubnetDecl)
    (ht : TargetsLowOK ((Spec.answer ⟨viewSort l recs, maps, subnets⟩ q qt qc m l).answer ++
                        (Spec.answer ⟨viewSort l recs, maps, subnets⟩ q qt qc m l).authority)) :
    ∃ extra, serve ⟨b, s, l⟩ ⟨pack q, pack q, qt, qc, m⟩ =
        .reply { ofSpec (Spec.answer ⟨viewSort l recs, maps, subnets⟩ q qt qc m l) with extra := extra } ∧
      extra.map ServeKey.lowGroup =
        (Spec.answer ⟨viewSort l recs, maps, subnets⟩ q qt qc m l).additional.map ofSpecGroup := by
  refine ⟨_, serve_v1_core b hb s recs l h0 hl hwf q hq qt qc m maps subnets, ?_⟩
  rw [modelExtra_refines_ci b hb s recs l h0 hl hwf.1 qc _
    (fun g hg lab hlab => hq.1 lab ((answer_group_owner _ q qt qc m l g hg) ▸ hlab)) _ _ ht,
    answer_additional ⟨viewSort l recs, maps, subnets⟩ q qt qc m l]

theorem targetsLowOK_of_targetsOK (rrs : List OutRR) (h : TargetsOK rrs) : TargetsLowOK rrs := by
  unfold TargetsLowOK
  rw [targetsOf_raw rrs h.1]
  exact h

instance (rrs : List OutRR) : Decidable (TargetsOK rrs) := by unfold TargetsOK; infer_instance

/-! ### a store that represents a record list (non-vacuity of `Represents`) -/

theorem find?_map_key (f : Bytes × List Bytes → Bytes × List Bytes) (hf : ∀ e, (f e).1 = e.1) (k : Bytes) :
    ∀ s : Store, (s.map f).find? (fun e => decide (e.1 = k)) = (s.find? (fun e => decide (e.1 = k))).map f
  | [] => rfl
  | e :: s => by
    rw [List.map_cons, List.find?_cons, List.find?_cons, hf e]
    by_cases h : e.1 = k
    · simp [h]
    · simp only [h, decide_false]
      exact find?_map_key f hf k s

theorem get_insert (s : Store) (k' v k : Bytes) :
    (s.insert k' v).get k = if k = k' then s.get k ++ [v] else s.get k := by
  unfold Store.insert
  by_cases ha : (s.any fun e => decide (e.1 = k')) = true
  · rw [if_pos ha]
    unfold Store.get
    rw [find?_map_key _ (by intro e; obtain ⟨a, b⟩ := e; by_cases h : a = k' <;> simp [h]) k s]
    cases hf : s.find? (fun e => decide (e.1 = k)) with
    | none =>
      simp only [Option.map_none]
      by_cases hk : k = k'
      · exfalso
        rw [List.find?_eq_none] at hf
        rw [List.any_eq_true] at ha
        obtain ⟨e, he, hp⟩ := ha
        exact hf e he (by simpa [hk] using hp)
      · rw [if_neg hk]
    | some e =>
      obtain ⟨a, vs⟩ := e
      have hak : a = k := by simpa using List.find?_some hf
      subst hak
      simp only [Option.map_some]
      by_cases hk : a = k'
      · simp [hk]
      · simp [hk]
  · rw [if_neg ha]
    unfold Store.get
    rw [List.find?_append]
    have hnone : ∀ e ∈ s, e.1 ≠ k' := by
      intro e he h
      apply ha
      rw [List.any_eq_true]
      exact ⟨e, he, by simpa using h⟩
    by_cases hk : k = k'
    · rw [if_pos hk]
      have : s.find? (fun e => decide (e.1 = k)) = none := by
        rw [List.find?_eq_none]
        intro e he
        simpa [hk] using hnone e he
      rw [this]
      simp [hk]
    · rw [if_neg hk]
      have : ([(k', [v])] : Store).find? (fun e => decide (e.1 = k)) = none := by
        have hne : ¬ k' = k := fun h => hk h.symm
        simp [hne]
      rw [this, Option.or_none]

theorem get_foldl_insert (kvs : List (Bytes × Bytes)) (k : Bytes) : ∀ s : Store,
    (kvs.foldl (fun s kv => s.insert kv.1 kv.2) s).get k
      = s.get k ++ (kvs.filter fun kv => decide (kv.1 = k)).map (·.2) := by
  induction kvs with
  | nil => intro s; simp
  | cons kv kvs ih =>
    intro s
    rw [List.foldl_cons, ih, get_insert]
    by_cases h : kv.1 = k
    · rw [if_pos h.symm, List.filter_cons_of_pos (by simpa using h)]
      simp
    · rw [if_neg (fun h' => h h'.symm), List.filter_cons_of_neg (by simpa using h)]

/-- the store a compiler writing `rowOfRec` rows under v1 keys produces -/
def storeOf (recs : List Rec) : Store :=
  Store.ofKVs (recs.map fun r => (r.loc ++ pack r.owner, rowOfRec r))

/-- owners are storable names and tags are two bytes -/
def OwnersOK (recs : List Rec) : Prop := ∀ r ∈ recs, r.loc.length = 2 ∧ ∀ lab ∈ r.owner, LabelOK lab

instance (recs : List Rec) : Decidable (OwnersOK recs) := by unfold OwnersOK; infer_instance

theorem represents_storeOf (recs : List Rec) (h : OwnersOK recs) : Represents (storeOf recs) recs := by
  intro loc hloc ls hn
  unfold storeOf Store.ofKVs
  rw [get_foldl_insert]
  show [] ++ _ = _
  rw [List.nil_append, List.filter_map, List.map_map]
  unfold recsAt
  congr 1
  apply List.filter_congr
  intro r hr
  have hr' := h r hr
  simp only [Function.comp, Bool.decide_and]
  rw [Bool.eq_iff_iff]
  simp only [decide_eq_true_eq, Bool.and_eq_true]
  constructor
  · intro he
    have := List.append_inj he (by rw [hr'.1, hloc])
    exact ⟨pack_injective _ _ hr'.2 hn.1 this.2, this.1⟩
  · rintro ⟨h1, h2⟩
    rw [h1, h2]

end Refinement

end DnsVerif.ServeRefine
