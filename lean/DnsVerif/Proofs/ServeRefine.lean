/-
Helper lemmas for C01: the row round trip (`extractRR ∘ putrrhead`), packed names, and the
refinement of the v1-layout query path (`isAuthoritativeV1`, `findAnswerV1`, `findSOA`, `getNs`,
`serve`) to `Spec.answer`.
-/
import DnsVerif.Model.Serve
import DnsVerif.Spec.Answer

namespace DnsVerif.ServeRefine
open DnsVerif DnsVerif.Codec DnsVerif.Serve DnsVerif.Name

/-! ### big-endian fields -/

theorem toNat_ofNat_lt (n : Nat) (h : n < 256) : (UInt8.ofNat n).toNat = n := by
  simp [UInt8.toNat_ofNat']; omega

theorem rd16_be16 (n : Nat) (h : n < 65536) (rest : Bytes) : rd16 (be16 n ++ rest) = some n := by
  simp only [be16, rd16, List.cons_append, List.nil_append]
  rw [toNat_ofNat_lt _ (Nat.mod_lt _ (by decide)), toNat_ofNat_lt _ (Nat.mod_lt _ (by decide))]
  congr 1; omega

theorem rd32_be32 (n : Nat) (h : n < 4294967296) (rest : Bytes) : rd32 (be32 n ++ rest) = some n := by
  simp only [be32, rd32, List.cons_append, List.nil_append]
  rw [toNat_ofNat_lt _ (Nat.mod_lt _ (by decide)), toNat_ofNat_lt _ (Nat.mod_lt _ (by decide)),
    toNat_ofNat_lt _ (Nat.mod_lt _ (by decide)), toNat_ofNat_lt _ (Nat.mod_lt _ (by decide))]
  congr 1; omega

/-! ### row head round trip -/

/-- the shape of `putrrhead`: marker byte, then two location bytes iff the record is tagged -/
theorem putrrhead_shape (t ttl : Nat) (lo : Option Bytes) (wild : Bool)
    (hlo : ∀ l, lo = some l → l.length = 2) :
    (∃ ch, (ch = 0x3d ∨ ch = 0x2a) ∧ (wild = decide (ch = 0x2a ∨ ch = 0x2b)) ∧
      putrrhead t ttl lo wild = be16 t ++ ch :: (be32 ttl ++ [0,0,0,0,0,0,0,0])) ∨
    (∃ ch a b, (ch = 0x3e ∨ ch = 0x2b) ∧ (wild = decide (ch = 0x2a ∨ ch = 0x2b)) ∧
      putrrhead t ttl lo wild = be16 t ++ ch :: a :: b :: (be32 ttl ++ [0,0,0,0,0,0,0,0])) := by
  unfold putrrhead
  cases lo with
  | none => left; cases wild <;> simp
  | some l =>
    have hl := hlo l rfl
    match l, hl with
    | [a, b], _ =>
      by_cases hz : ([a, b] : Bytes) = [0, 0]
      · left; cases wild <;> simp [hz]
      · right; cases wild <;> simp [hz]

/-- what `extractRR` yields once the head is parsed -/
def afterHead (t ttl : Nat) (body : Bytes) : RowRes :=
  if t = 28 ∨ t = 1 then
    match rd32 body with
    | none => .panic
    | some wt => .row ⟨t, ttl, wt, body.drop 4⟩
  else .row ⟨t, ttl, 0, body⟩

theorem extractRR_shape1 (t ttl : Nat) (ch : UInt8) (w : Bool) (body : Bytes) (ht : t < 65536)
    (httl : ttl < 4294967296) (hch : ch = 0x3d ∨ ch = 0x2a) :
    extractRR (be16 t ++ ch :: (be32 ttl ++ [0,0,0,0,0,0,0,0]) ++ body) w =
      if w ≠ decide (ch = 0x2a ∨ ch = 0x2b) then .mismatch else afterHead t ttl body := by
  unfold extractRR afterHead
  rw [List.append_assoc, rd16_be16 t ht]
  have h2 : (be16 t ++ (ch :: (be32 ttl ++ [0,0,0,0,0,0,0,0]) ++ body))[2]? = some ch := by simp [be16]
  rw [h2]
  simp only []
  have hd : ¬ (ch = 0x3e ∨ ch = 0x2b) := by rcases hch with h | h <;> subst h <;> decide
  rw [if_neg hd]
  have h3 : (be16 t ++ (ch :: (be32 ttl ++ [0,0,0,0,0,0,0,0]) ++ body)).drop 3
      = be32 ttl ++ ([0,0,0,0,0,0,0,0] ++ body) := by
    simp [be16]
  rw [h3, rd32_be32 ttl httl]
  simp only []
  have h15 : (be16 t ++ (ch :: (be32 ttl ++ [0,0,0,0,0,0,0,0]) ++ body)).drop (3 + 12) = body := by
    simp [be16, be32]
  have h19 : (be16 t ++ (ch :: (be32 ttl ++ [0,0,0,0,0,0,0,0]) ++ body)).drop (3 + 12 + 4)
      = body.drop 4 := by
    rw [← List.drop_drop, h15]
  have hlen : ¬ (be16 t ++ (ch :: (be32 ttl ++ [0,0,0,0,0,0,0,0]) ++ body)).length < 3 + 12 := by
    simp [be16, be32]
  rw [h15, h19, if_neg hlen]
  cases rd32 body <;> rfl

theorem extractRR_shape2 (t ttl : Nat) (ch a b : UInt8) (w : Bool) (body : Bytes) (ht : t < 65536)
    (httl : ttl < 4294967296) (hch : ch = 0x3e ∨ ch = 0x2b) :
    extractRR (be16 t ++ ch :: a :: b :: (be32 ttl ++ [0,0,0,0,0,0,0,0]) ++ body) w =
      if w ≠ decide (ch = 0x2a ∨ ch = 0x2b) then .mismatch else afterHead t ttl body := by
  unfold extractRR afterHead
  rw [List.append_assoc, rd16_be16 t ht]
  have h2 : (be16 t ++ (ch :: a :: b :: (be32 ttl ++ [0,0,0,0,0,0,0,0]) ++ body))[2]? = some ch := by
    simp [be16]
  rw [h2]
  simp only []
  rw [if_pos hch]
  have h3 : (be16 t ++ (ch :: a :: b :: (be32 ttl ++ [0,0,0,0,0,0,0,0]) ++ body)).drop 5
      = be32 ttl ++ ([0,0,0,0,0,0,0,0] ++ body) := by
    simp [be16]
  rw [h3, rd32_be32 ttl httl]
  simp only []
  have h15 : (be16 t ++ (ch :: a :: b :: (be32 ttl ++ [0,0,0,0,0,0,0,0]) ++ body)).drop (5 + 12) = body := by
    simp [be16, be32]
  have h19 : (be16 t ++ (ch :: a :: b :: (be32 ttl ++ [0,0,0,0,0,0,0,0]) ++ body)).drop (5 + 12 + 4)
      = body.drop 4 := by
    rw [← List.drop_drop, h15]
  have hlen : ¬ (be16 t ++ (ch :: a :: b :: (be32 ttl ++ [0,0,0,0,0,0,0,0]) ++ body)).length < 5 + 12 := by
    simp [be16, be32]
  rw [h15, h19, if_neg hlen]
  cases rd32 body <;> rfl

/-- parsing any row that starts with a `putrrhead` -/
theorem extractRR_putrrhead_body (t ttl : Nat) (lo : Option Bytes) (wild w : Bool) (body : Bytes)
    (ht : t < 65536) (httl : ttl < 4294967296) (hlo : ∀ l, lo = some l → l.length = 2) :
    extractRR (putrrhead t ttl lo wild ++ body) w =
      if w ≠ wild then .mismatch else afterHead t ttl body := by
  rcases putrrhead_shape t ttl lo wild hlo with ⟨ch, hch, hw, he⟩ | ⟨ch, a, b, hch, hw, he⟩
  · rw [he, hw]; exact extractRR_shape1 t ttl ch w body ht httl hch
  · rw [he, hw]; exact extractRR_shape2 t ttl ch a b w body ht httl hch

theorem afterHead_addr (t ttl weight : Nat) (rdata : Bytes) (ht : t = 1 ∨ t = 28)
    (hw : weight < 4294967296) :
    afterHead t ttl (be32 weight ++ rdata) = .row ⟨t, ttl, weight, rdata⟩ := by
  unfold afterHead
  rw [if_pos (by omega), rd32_be32 weight hw]
  simp [be32]

theorem afterHead_other (t ttl : Nat) (body : Bytes) (ht : t ≠ 1 ∧ t ≠ 28) :
    afterHead t ttl body = .row ⟨t, ttl, 0, body⟩ := by
  unfold afterHead
  rw [if_neg (by omega)]

/-! ### `Spec.answer`, decomposed into named pieces -/

section SpecPieces
open Spec

def hasT (recs : List Rec) (l : Bytes) (owner : List Bytes) (t : Nat) : Bool :=
  recs.any fun r => r.owner = owner ∧ ¬ r.wild ∧ r.type = t ∧ visible l r

def cutOf (recs : List Rec) (l : Bytes) (name : List Bytes) : Option (List Bytes) :=
  (ancestorsOrSelf name).find? fun a => hasT recs l a 2

def refused : Answer :=
  { rcode := 5, aa := false, answer := [], answerAddrs := [], authority := [], additional := [] }

/-- the zone cut, authority flag and "parent served" flag after the DS step -/
def cutAuth (recs : List Rec) (l : Bytes) (q : List Bytes) (qtype : Nat) (cut0 : List Bytes) :
    List Bytes × Bool × Bool :=
  let auth0 := hasT recs l cut0 6
  if ¬ auth0 ∧ qtype = 43 ∧ q ≠ [] then
    match cutOf recs l (q.drop 1) with
    | some c => (c, hasT recs l c 6, true)
    | none => (cut0, false, false)
  else (cut0, auth0, true)

def matchingOf (rs : List Rec) (qtype : Nat) : List Rec :=
  rs.filter fun r => r.type = 5 ∨ r.type = qtype ∨ qtype = 255

def plainOf (q : List Bytes) (matching : List Rec) : List OutRR :=
  (matching.filter fun r => r.type ≠ 1 ∧ r.type ≠ 28).map fun r => (⟨q, r.type, 1, r.ttl, r.rdata⟩ : OutRR)

def grpOf (q : List Bytes) (maxAns : Nat) (matching : List Rec) (t : Nat) : List OutAddrs :=
  let c := (matching.filter (·.type = t)).map fun r => (r.ttl, r.weight, r.rdata)
  if c.isEmpty then [] else [⟨q, t, 1, c, maxAns⟩]

def servedS (g : OutAddrs) : Bool := g.cands.any fun c => c.2.1 > 0

def soaOf (recs : List Rec) (l : Bytes) (cut : List Bytes) : List OutRR :=
  match recs.find? fun r => r.owner = cut ∧ ¬ r.wild ∧ r.type = 6 ∧ visible l r ∧ r.loc = l ∧ l ≠ [0, 0] with
  | some r => [⟨cut, 6, 1, r.ttl, r.rdata⟩]
  | none =>
    match recs.find? fun r => r.owner = cut ∧ ¬ r.wild ∧ r.type = 6 ∧ visible l r with
    | some r => [⟨cut, 6, 1, r.ttl, r.rdata⟩]
    | none => []

def nsOf (recs : List Rec) (l : Bytes) (qclass : Nat) (c : List Bytes) : List OutRR :=
  (recs.filter fun r => r.owner = c ∧ ¬ r.wild ∧ r.type = 2 ∧ visible l r).map fun r =>
    ⟨c, 2, qclass, r.ttl, r.rdata⟩

def targetsOf (rrs : List OutRR) : List (List Bytes) :=
  rrs.filterMap fun rr =>
    if rr.type = 2 then (nameLabels rr.rdata).map (·.map toLower)
    else if rr.type = 15 then (nameLabels (rr.rdata.drop 2)).map (·.map toLower)
    else if rr.type = 65 then some rr.owner
    else none

def candS (recs : List Rec) (l : Bytes) (tname : List Bytes) (t : Nat) : List (Nat × Nat × Bytes) :=
  (recs.filter fun r => r.owner = tname ∧ ¬ r.wild ∧ r.type = t ∧ visible l r).map fun r =>
    (r.ttl, r.weight, r.rdata)

def additionalOf (recs : List Rec) (l : Bytes) (qclass : Nat) (groups : List OutAddrs)
    (targets : List (List Bytes)) : List OutAddrs :=
  targets.eraseDups.flatMap fun tname =>
    let alreadyHas (t : Nat) : Bool := groups.any fun g => g.owner = tname ∧ g.type = t ∧ servedS g
    (if ¬ alreadyHas 28 ∧ ¬ (candS recs l tname 28).isEmpty then [⟨tname, 28, qclass, candS recs l tname 28, 1⟩] else [])
    ++ (if ¬ alreadyHas 1 ∧ ¬ (candS recs l tname 1).isEmpty then [⟨tname, 1, qclass, candS recs l tname 1, 1⟩] else [])

/-- `Spec.answer` after the cut is fixed -/
def answerAt (recs : List Rec) (l : Bytes) (q : List Bytes) (qtype qclass maxAns : Nat)
    (cut : List Bytes) (auth : Bool) (parentServed : Prop) [Decidable parentServed] : Answer :=
  let rs : List Rec := if auth then recordsFor recs l q cut else []
  let matching := matchingOf rs qtype
  let plain := plainOf q matching
  let groups := grpOf q maxAns matching 1 ++ grpOf q maxAns matching 28
  let answerEmpty := plain.isEmpty ∧ ¬ groups.any servedS
  let authority : List OutRR :=
    if auth ∧ answerEmpty then soaOf recs l cut
    else if ¬ auth ∧ parentServed then nsOf recs l qclass cut
    else []
  { rcode := if auth ∧ rs.isEmpty then 3 else 0, aa := auth, answer := plain, answerAddrs := groups,
    authority := authority,
    additional := additionalOf recs l qclass groups (targetsOf (plain ++ authority)) }



def answer' (z : Zone) (q : List Bytes) (qtype qclass maxAns : Nat) (l : Bytes) : Answer :=
  match cutOf z.recs l q with
  | none => refused
  | some cut0 =>
    let auth0 := hasT z.recs l cut0 6
    let (cut, auth) : List Bytes × Bool :=
      if ¬ auth0 ∧ qtype = 43 ∧ q ≠ [] then
        match cutOf z.recs l (q.drop 1) with
        | some c => (c, hasT z.recs l c 6)
        | none => (cut0, false)
      else (cut0, auth0)
    let parentServed := ¬ (¬ auth0 ∧ qtype = 43 ∧ q ≠ []) ∨ (cutOf z.recs l (q.drop 1)).isSome
    answerAt z.recs l q qtype qclass maxAns cut auth parentServed

theorem answer_eq0 (z : Zone) (q : List Bytes) (qtype qclass maxAns : Nat) (l : Bytes) :
    Spec.answer z q qtype qclass maxAns l = answer' z q qtype qclass maxAns l := by
  rfl


theorem answerAt_congr (recs : List Rec) (l : Bytes) (q : List Bytes) (qtype qclass maxAns : Nat)
    (cut : List Bytes) (auth : Bool) {p p' : Prop} [ip : Decidable p] [ip' : Decidable p'] (h : p ↔ p') :
    @answerAt recs l q qtype qclass maxAns cut auth p ip = @answerAt recs l q qtype qclass maxAns cut auth p' ip' := by
  have e : p = p' := propext h
  subst e
  have : ip = ip' := Subsingleton.elim _ _
  subst this; rfl

theorem answer_eq (z : Zone) (q : List Bytes) (qtype qclass maxAns : Nat) (l : Bytes) :
    Spec.answer z q qtype qclass maxAns l =
      match cutOf z.recs l q with
      | none => refused
      | some cut0 =>
        answerAt z.recs l q qtype qclass maxAns (cutAuth z.recs l q qtype cut0).1
          (cutAuth z.recs l q qtype cut0).2.1 ((cutAuth z.recs l q qtype cut0).2.2 = true) := by
  rw [answer_eq0]
  unfold answer'
  cases cutOf z.recs l q with
  | none => rfl
  | some cut0 =>
    simp only []
    unfold cutAuth
    by_cases h : (¬ hasT z.recs l cut0 6 = true ∧ qtype = 43 ∧ q ≠ [])
    · simp only [if_pos h]
      cases hc : cutOf z.recs l (q.drop 1) with
      | none => exact answerAt_congr _ _ _ _ _ _ _ _ (by simp [h])
      | some c => exact answerAt_congr _ _ _ _ _ _ _ _ (by simp [h])
    · simp only [if_neg h]
      exact answerAt_congr _ _ _ _ _ _ _ _ (by simp only [iff_true]; exact Or.inl h)

/-! ### the wildcard walk of the spec -/

theorem recordsFor_eq (recs : List Rec) (l : Bytes) (q cut : List Bytes) :
    recordsFor recs l q cut =
      if ¬ (recs.filter fun r => r.owner = q ∧ ¬ r.wild ∧ visible l r).isEmpty then
        recs.filter fun r => r.owner = q ∧ ¬ r.wild ∧ visible l r
      else recordsFor.up recs l cut q := rfl

theorem up_nil (recs : List Rec) (l : Bytes) (cut : List Bytes) : recordsFor.up recs l cut [] = [] := rfl
theorem up_cons (recs : List Rec) (l : Bytes) (cut : List Bytes) (lab : Bytes) (rest : List Bytes) :
    recordsFor.up recs l cut (lab :: rest) =
      if (lab :: rest) = cut then []
      else if ¬ wildsafeLabel lab then []
      else if ¬ (recs.filter fun r => r.owner = rest ∧ r.wild ∧ visible l r).isEmpty then
        recs.filter fun r => r.owner = rest ∧ r.wild ∧ visible l r
      else recordsFor.up recs l cut rest := rfl

/-- `*.p` covers `q` inside the cut: `q = stripped ++ p`, at least one label stripped, every stripped
label wild-safe, and the walk from `q` does not meet the cut before reaching `p`'s child -/
def CoveredBy (q cut stripped p : List Bytes) : Prop :=
  q = stripped ++ p ∧ stripped ≠ [] ∧ (∀ lab ∈ stripped, wildsafe lab = true) ∧
    ∀ j, j < stripped.length → q.drop j ≠ cut

theorem coveredBy_cons_iff (lab : Bytes) (rest cut stripped p : List Bytes) :
    CoveredBy (lab :: rest) cut stripped p ↔
      (lab :: rest) ≠ cut ∧ wildsafe lab = true ∧
        ((stripped = [lab] ∧ p = rest) ∨ ∃ s', stripped = lab :: s' ∧ CoveredBy rest cut s' p) := by
  constructor
  · rintro ⟨hq, hne, hws, hcut⟩
    cases stripped with
    | nil => exact absurd rfl hne
    | cons a s' =>
      simp only [List.cons_append, List.cons.injEq] at hq
      obtain ⟨ha, hrest⟩ := hq
      subst ha
      refine ⟨by simpa using hcut 0 (by simp), hws lab (by simp), ?_⟩
      cases s' with
      | nil => left; exact ⟨rfl, by simpa using hrest.symm⟩
      | cons b s'' =>
        right
        refine ⟨b :: s'', rfl, hrest, by simp, fun x hx => hws x (List.mem_cons_of_mem _ hx), ?_⟩
        intro j hj
        have := hcut (j + 1) (by simp at hj ⊢; omega)
        simpa using this
  · rintro ⟨hne, hws, h⟩
    rcases h with ⟨hs, hp⟩ | ⟨s', hs, hq, hne', hws', hcut'⟩
    · subst hs; subst hp
      refine ⟨rfl, by simp, by simpa using hws, ?_⟩
      intro j hj
      have : j = 0 := by simp at hj; omega
      subst this; simpa using hne
    · subst hs
      refine ⟨by rw [hq]; rfl, by simp, ?_, ?_⟩
      · intro x hx
        rcases List.mem_cons.mp hx with h | h
        · rw [h]; exact hws
        · exact hws' x h
      · intro j hj
        cases j with
        | zero => simpa using hne
        | succ j => simpa using hcut' j (by simp at hj; omega)

/-- every record the wildcard walk returns is a visible wildcard record of a covering `*.p` -/
theorem up_mem (recs : List Rec) (l : Bytes) (cut : List Bytes) (q : List Bytes) (r : Rec)
    (h : r ∈ recordsFor.up recs l cut q) :
    ∃ stripped p, CoveredBy q cut stripped p ∧ r ∈ recs ∧ r.owner = p ∧ r.wild = true ∧ visible l r = true := by
  induction q with
  | nil => rw [up_nil] at h; cases h
  | cons lab rest ih =>
    rw [up_cons] at h
    by_cases h1 : (lab :: rest) = cut
    · rw [if_pos h1] at h; cases h
    · rw [if_neg h1] at h
      by_cases h2 : ¬ wildsafeLabel lab
      · rw [if_pos h2] at h; cases h
      · rw [if_neg h2] at h
        have hws : wildsafe lab = true := by simpa [wildsafeLabel] using h2
        by_cases h3 : ¬ (recs.filter fun r => r.owner = rest ∧ r.wild ∧ visible l r).isEmpty
        · rw [if_pos h3] at h
          have := List.mem_filter.mp h
          simp only [decide_eq_true_eq] at this
          exact ⟨[lab], rest, (coveredBy_cons_iff _ _ _ _ _).mpr ⟨h1, hws, Or.inl ⟨rfl, rfl⟩⟩,
            this.1, this.2.1, this.2.2.1, this.2.2.2⟩
        · rw [if_neg h3] at h
          obtain ⟨s', p, hc, hr⟩ := ih h
          exact ⟨lab :: s', p, (coveredBy_cons_iff _ _ _ _ _).mpr ⟨h1, hws, Or.inr ⟨s', rfl, hc⟩⟩, hr⟩

/-- the walk finds nothing exactly when no covering wildcard owns a visible record -/
theorem up_eq_nil_iff (recs : List Rec) (l : Bytes) (cut : List Bytes) (q : List Bytes) :
    recordsFor.up recs l cut q = [] ↔
      ∀ stripped p, CoveredBy q cut stripped p →
        ∀ r ∈ recs, ¬ (r.owner = p ∧ r.wild = true ∧ visible l r = true) := by
  induction q with
  | nil =>
    rw [up_nil]
    simp only [true_iff]
    rintro stripped p ⟨hq, hne, _, _⟩
    cases stripped with
    | nil => exact absurd rfl hne
    | cons a s => simp at hq
  | cons lab rest ih =>
    rw [up_cons]
    by_cases h1 : (lab :: rest) = cut
    · rw [if_pos h1]
      simp only [true_iff]
      intro stripped p hc
      exact absurd h1 ((coveredBy_cons_iff _ _ _ _ _).mp hc).1
    · rw [if_neg h1]
      by_cases h2 : ¬ wildsafeLabel lab
      · rw [if_pos h2]
        simp only [true_iff]
        intro stripped p hc
        have := ((coveredBy_cons_iff _ _ _ _ _).mp hc).2.1
        exact absurd this (by simpa [wildsafeLabel] using h2)
      · rw [if_neg h2]
        have hws : wildsafe lab = true := by simpa [wildsafeLabel] using h2
        by_cases h3 : ¬ (recs.filter fun r => r.owner = rest ∧ r.wild ∧ visible l r).isEmpty
        · rw [if_pos h3]
          constructor
          · intro h; rw [h] at h3; simp at h3
          · intro h
            exfalso
            apply h3
            rw [List.isEmpty_iff, List.filter_eq_nil_iff]
            intro r hr
            have := h [lab] rest ((coveredBy_cons_iff _ _ _ _ _).mpr ⟨h1, hws, Or.inl ⟨rfl, rfl⟩⟩) r hr
            simpa using this
        · rw [if_neg h3, ih]
          have h3' : ∀ r ∈ recs, ¬ (r.owner = rest ∧ r.wild = true ∧ visible l r = true) := by
            have : (recs.filter fun r => r.owner = rest ∧ r.wild ∧ visible l r) = [] := by
              simpa [List.isEmpty_iff] using h3
            rw [List.filter_eq_nil_iff] at this
            intro r hr; simpa using this r hr
          constructor
          · intro h stripped p hc
            rcases ((coveredBy_cons_iff _ _ _ _ _).mp hc).2.2 with ⟨_, hp⟩ | ⟨s', _, hc'⟩
            · rw [hp]; exact h3'
            · exact h s' p hc'
          · intro h stripped p hc
            exact h (lab :: stripped) p ((coveredBy_cons_iff _ _ _ _ _).mpr ⟨h1, hws, Or.inr ⟨stripped, rfl, hc⟩⟩)

/-! ### corollaries of `Spec.answer` alone -/

theorem hasT_iff (recs : List Rec) (l : Bytes) (a : List Bytes) (t : Nat) :
    hasT recs l a t = true ↔ ∃ r ∈ recs, r.owner = a ∧ r.wild = false ∧ r.type = t ∧ visible l r = true := by
  simp [hasT]

theorem answerAt_rcode_ne5 (recs l q qt qc m cut auth) (p : Prop) [Decidable p] :
    (answerAt recs l q qt qc m cut auth p).rcode ≠ 5 := by
  have : ∀ (c : Prop) [Decidable c], (if c then 3 else 0) ≠ 5 := by
    intro c _; split <;> decide
  exact this _

/-- REFUSED exactly for names outside every served subtree -/
theorem spec_refused_iff (z : Zone) (q : List Bytes) (qtype qclass maxAns : Nat) (l : Bytes) :
    (Spec.answer z q qtype qclass maxAns l).rcode = 5 ↔
      ∀ a ∈ ancestorsOrSelf q,
        ¬ ∃ r ∈ z.recs, r.owner = a ∧ r.wild = false ∧ r.type = 2 ∧ visible l r = true := by
  rw [answer_eq]
  cases hc : cutOf z.recs l q with
  | none =>
    simp only [refused, true_iff]
    unfold cutOf at hc
    rw [List.find?_eq_none] at hc
    intro a ha
    rw [← hasT_iff]
    exact hc a ha
  | some cut0 =>
    simp only []
    constructor
    · intro h; exact absurd h (answerAt_rcode_ne5 _ _ _ _ _ _ _ _ _)
    · intro h
      exfalso
      unfold cutOf at hc
      have hm := List.mem_of_find?_eq_some hc
      have hp := List.find?_some hc
      exact h cut0 hm ((hasT_iff _ _ _ _).mp hp)

theorem spec_refused_empty (z : Zone) (q : List Bytes) (qtype qclass maxAns : Nat) (l : Bytes)
    (h : (Spec.answer z q qtype qclass maxAns l).rcode = 5) :
    let A := Spec.answer z q qtype qclass maxAns l
    A.aa = false ∧ A.answer = [] ∧ A.answerAddrs = [] ∧ A.authority = [] ∧ A.additional = [] := by
  rw [answer_eq] at h ⊢
  cases hc : cutOf z.recs l q with
  | none => simp [refused]
  | some cut0 =>
    rw [hc] at h
    exact absurd h (answerAt_rcode_ne5 _ _ _ _ _ _ _ _ _)

/-- the cut, authority flag and parent-served flag `Spec.answer` works with (after the DS step) -/
def specCut (z : Zone) (q : List Bytes) (qtype : Nat) (l : Bytes) : Option (List Bytes × Bool × Bool) :=
  (cutOf z.recs l q).map fun cut0 => cutAuth z.recs l q qtype cut0

theorem answer_of_specCut (z : Zone) (q : List Bytes) (qtype qclass maxAns : Nat) (l : Bytes)
    (cut : List Bytes) (auth ps : Bool) (h : specCut z q qtype l = some (cut, auth, ps)) :
    Spec.answer z q qtype qclass maxAns l = answerAt z.recs l q qtype qclass maxAns cut auth (ps = true) := by
  rw [answer_eq]
  unfold specCut at h
  cases hc : cutOf z.recs l q with
  | none => rw [hc] at h; cases h
  | some cut0 =>
    rw [hc] at h
    simp only [Option.map_some, Option.some.injEq] at h
    simp only [h]

theorem spec_nxdomain_iff (z : Zone) (q : List Bytes) (qtype qclass maxAns : Nat) (l : Bytes) :
    (Spec.answer z q qtype qclass maxAns l).rcode = 3 ↔
      ∃ cut ps, specCut z q qtype l = some (cut, true, ps) ∧ recordsFor z.recs l q cut = [] := by
  cases hs : specCut z q qtype l with
  | none =>
    unfold specCut at hs
    rw [answer_eq]
    cases hc : cutOf z.recs l q with
    | none => simp [refused]
    | some c => rw [hc] at hs; cases hs
  | some t =>
    obtain ⟨cut, auth, ps⟩ := t
    rw [answer_of_specCut z q qtype qclass maxAns l cut auth ps hs]
    show (if auth = true ∧ (if auth = true then recordsFor z.recs l q cut else []).isEmpty = true then 3 else 0) = 3 ↔ _
    cases auth with
    | false => simp
    | true => simp [List.isEmpty_iff]

theorem recordsFor_eq_nil_iff (recs : List Rec) (l : Bytes) (q cut : List Bytes) :
    recordsFor recs l q cut = [] ↔
      (∀ r ∈ recs, ¬ (r.owner = q ∧ r.wild = false ∧ visible l r = true)) ∧
      ∀ stripped p, CoveredBy q cut stripped p →
        ∀ r ∈ recs, ¬ (r.owner = p ∧ r.wild = true ∧ visible l r = true) := by
  rw [recordsFor_eq]
  by_cases h : ¬ (recs.filter fun r => r.owner = q ∧ ¬ r.wild ∧ visible l r).isEmpty
  · rw [if_pos h]
    constructor
    · intro h'; rw [h'] at h; simp at h
    · rintro ⟨h1, _⟩
      exfalso; apply h
      rw [List.isEmpty_iff, List.filter_eq_nil_iff]
      intro r hr; simpa using h1 r hr
  · rw [if_neg h, up_eq_nil_iff]
    have h' : ∀ r ∈ recs, ¬ (r.owner = q ∧ r.wild = false ∧ visible l r = true) := by
      have : (recs.filter fun r => r.owner = q ∧ ¬ r.wild ∧ visible l r) = [] := by
        simpa [List.isEmpty_iff] using h
      rw [List.filter_eq_nil_iff] at this
      intro r hr; simpa using this r hr
    exact ⟨fun hh => ⟨h', hh⟩, fun hh => hh.2⟩

/-- what `recordsFor` returns: the name's own visible records, or — only if it has none — visible
wildcard records `*.p` with `p` a proper ancestor reached by stripping wild-safe labels without
meeting the cut -/
theorem recordsFor_mem (recs : List Rec) (l : Bytes) (q cut : List Bytes) (r : Rec)
    (h : r ∈ recordsFor recs l q cut) :
    r ∈ recs ∧ visible l r = true ∧
      ((r.owner = q ∧ r.wild = false) ∨
       ((∀ r' ∈ recs, ¬ (r'.owner = q ∧ r'.wild = false ∧ visible l r' = true)) ∧ r.wild = true ∧
          ∃ stripped, CoveredBy q cut stripped r.owner)) := by
  rw [recordsFor_eq] at h
  by_cases h0 : ¬ (recs.filter fun r => r.owner = q ∧ ¬ r.wild ∧ visible l r).isEmpty
  · rw [if_pos h0] at h
    have := List.mem_filter.mp h
    simp only [decide_eq_true_eq, Bool.not_eq_true] at this
    exact ⟨this.1, this.2.2.2, Or.inl ⟨this.2.1, this.2.2.1⟩⟩
  · rw [if_neg h0] at h
    have h' : ∀ r ∈ recs, ¬ (r.owner = q ∧ r.wild = false ∧ visible l r = true) := by
      have : (recs.filter fun r => r.owner = q ∧ ¬ r.wild ∧ visible l r) = [] := by
        simpa [List.isEmpty_iff] using h0
      rw [List.filter_eq_nil_iff] at this
      intro r hr; simpa using this r hr
    obtain ⟨stripped, p, hc, hr, ho, hw, hv⟩ := up_mem recs l cut q r h
    exact ⟨hr, hv, Or.inr ⟨h', hw, stripped, ho ▸ hc⟩⟩

theorem specCut_auth (z : Zone) (q : List Bytes) (qtype : Nat) (l : Bytes) (cut : List Bytes) (ps : Bool)
    (h : specCut z q qtype l = some (cut, true, ps)) : hasT z.recs l cut 6 = true := by
  unfold specCut at h
  cases hc : cutOf z.recs l q with
  | none => rw [hc] at h; cases h
  | some cut0 =>
    rw [hc] at h
    simp only [Option.map_some, Option.some.injEq] at h
    unfold cutAuth at h
    simp only [] at h
    split at h
    · split at h
      · simp only [Prod.mk.injEq] at h; rw [← h.1]; exact h.2.1
      · simp at h
    · simp only [Prod.mk.injEq] at h; rw [← h.1]; exact h.2.1

theorem soaOf_of_hasT (recs : List Rec) (l : Bytes) (cut : List Bytes) (h : hasT recs l cut 6 = true) :
    ∃ r ∈ recs, r.owner = cut ∧ r.wild = false ∧ r.type = 6 ∧ visible l r = true ∧
      soaOf recs l cut = [⟨cut, 6, 1, r.ttl, r.rdata⟩] := by
  unfold soaOf
  cases h1 : recs.find? fun r => r.owner = cut ∧ ¬ r.wild ∧ r.type = 6 ∧ visible l r ∧ r.loc = l ∧ l ≠ [0, 0] with
  | some r =>
    have hm := List.mem_of_find?_eq_some h1
    have hp := List.find?_some h1
    simp only [decide_eq_true_eq, Bool.not_eq_true] at hp
    exact ⟨r, hm, hp.1, hp.2.1, hp.2.2.1, hp.2.2.2.1, rfl⟩
  | none =>
    simp only []
    cases h2 : recs.find? fun r => r.owner = cut ∧ ¬ r.wild ∧ r.type = 6 ∧ visible l r with
    | some r =>
      have hm := List.mem_of_find?_eq_some h2
      have hp := List.find?_some h2
      simp only [decide_eq_true_eq, Bool.not_eq_true] at hp
      exact ⟨r, hm, hp.1, hp.2.1, hp.2.2.1, hp.2.2.2, rfl⟩
    | none =>
      exfalso
      rw [List.find?_eq_none] at h2
      obtain ⟨r, hr, hp⟩ := (hasT_iff _ _ _ _).mp h
      have := h2 r hr
      simp [hp] at this

theorem spec_empty_auth_has_soa (z : Zone) (q : List Bytes) (qtype qclass maxAns : Nat) (l : Bytes)
    (haa : (Spec.answer z q qtype qclass maxAns l).aa = true)
    (hans : (Spec.answer z q qtype qclass maxAns l).answer = [])
    (hgrp : ∀ g ∈ (Spec.answer z q qtype qclass maxAns l).answerAddrs, ∀ c ∈ g.cands, c.2.1 = 0) :
    ∃ cut ps r, specCut z q qtype l = some (cut, true, ps) ∧ r ∈ z.recs ∧ r.owner = cut ∧ r.wild = false ∧
      r.type = 6 ∧ visible l r = true ∧
      (Spec.answer z q qtype qclass maxAns l).authority = [⟨cut, 6, 1, r.ttl, r.rdata⟩] := by
  cases hs : specCut z q qtype l with
  | none =>
    unfold specCut at hs
    rw [answer_eq] at haa
    cases hc : cutOf z.recs l q with
    | none => rw [hc] at haa; simp [refused] at haa
    | some c => rw [hc] at hs; cases hs
  | some t =>
    obtain ⟨cut, auth, ps⟩ := t
    rw [answer_of_specCut z q qtype qclass maxAns l cut auth ps hs] at haa hans hgrp ⊢
    have ha : auth = true := haa
    subst ha
    obtain ⟨r, hr, ho, hw, ht, hv, hsoa⟩ := soaOf_of_hasT _ _ _ (specCut_auth z q qtype l cut ps hs)
    refine ⟨cut, ps, r, rfl, hr, ho, hw, ht, hv, ?_⟩
    rw [← hsoa]
    unfold answerAt at hans hgrp ⊢
    simp only [] at hans hgrp ⊢
    rw [if_pos]
    refine ⟨trivial, by rw [hans]; rfl, ?_⟩
    simp only [List.any_eq_true, not_exists, not_and, Bool.not_eq_true]
    intro g hg
    unfold servedS
    rw [List.any_eq_false]
    intro c hc
    have := hgrp g hg c hc
    simp [this]

theorem spec_referral (z : Zone) (q : List Bytes) (qtype qclass maxAns : Nat) (l : Bytes) (cut : List Bytes)
    (hs : specCut z q qtype l = some (cut, false, true)) :
    let A := Spec.answer z q qtype qclass maxAns l
    A.rcode = 0 ∧ A.aa = false ∧ A.answer = [] ∧ A.answerAddrs = [] ∧
      A.authority = (z.recs.filter fun r => r.owner = cut ∧ r.wild = false ∧ r.type = 2 ∧ visible l r).map
        fun r => ⟨cut, 2, qclass, r.ttl, r.rdata⟩ := by
  rw [answer_of_specCut z q qtype qclass maxAns l cut false true hs]
  unfold answerAt nsOf
  simp [matchingOf, plainOf, grpOf]

/-- the cut is the closest ancestor-or-self owning a visible, non-wildcard NS record -/
theorem cutOf_closest (recs : List Rec) (l : Bytes) (q cut : List Bytes) (h : cutOf recs l q = some cut) :
    hasT recs l cut 2 = true ∧
      ∃ closer farther, ancestorsOrSelf q = closer ++ cut :: farther ∧ ∀ a ∈ closer, hasT recs l a 2 = false := by
  unfold cutOf at h
  rw [List.find?_eq_some_iff_append] at h
  obtain ⟨hp, as, bs, he, hn⟩ := h
  exact ⟨hp, as, bs, he, fun a ha => by simpa using hn a ha⟩

theorem specCut_plain (z : Zone) (q : List Bytes) (qtype : Nat) (l : Bytes) (cut : List Bytes)
    (hq : qtype ≠ 43) (hc : cutOf z.recs l q = some cut) :
    specCut z q qtype l = some (cut, hasT z.recs l cut 6, true) := by
  unfold specCut cutAuth
  rw [hc]
  simp [hq]

end SpecPieces

section Refinement
open Spec DnsVerif.Loc

/-! ### packed names -/

def LabelOK (lab : Bytes) : Prop := lab ≠ [] ∧ lab.length < 64 ∧ toLower lab = lab

/-- a name the v1 key layout can hold: non-empty lower-case labels shorter than 64, wire length ≤ 255 -/
def NameOK (ls : List Bytes) : Prop := (∀ lab ∈ ls, LabelOK lab) ∧ (pack ls).length ≤ 255

instance (lab : Bytes) : Decidable (LabelOK lab) := by unfold LabelOK; infer_instance
instance (ls : List Bytes) : Decidable (NameOK ls) := by unfold NameOK; infer_instance

theorem pack_nil : pack [] = [0] := rfl

theorem pack_cons (lab : Bytes) (rest : List Bytes) :
    pack (lab :: rest) = UInt8.ofNat lab.length :: (lab ++ pack rest) := by
  simp [pack]

theorem pack_ne_nil (ls : List Bytes) : pack ls ≠ [] := by
  simp [pack]

theorem NameOK.tail {lab : Bytes} {rest : List Bytes} (h : NameOK (lab :: rest)) : NameOK rest := by
  refine ⟨fun x hx => h.1 x (List.mem_cons_of_mem _ hx), ?_⟩
  have := h.2
  rw [pack_cons] at this
  simp only [List.length_cons, List.length_append] at this
  omega

theorem NameOK.head {lab : Bytes} {rest : List Bytes} (h : NameOK (lab :: rest)) : LabelOK lab :=
  h.1 lab (by simp)

theorem nameOK_nil : NameOK [] := ⟨by simp, by decide⟩

theorem NameOK.ancestor {q a : List Bytes} (h : NameOK q) (ha : a ∈ Spec.ancestorsOrSelf q) : NameOK a := by
  induction q with
  | nil => simp [Spec.ancestorsOrSelf] at ha; subst ha; exact h
  | cons lab rest ih =>
    simp only [Spec.ancestorsOrSelf, List.mem_cons] at ha
    rcases ha with ha | ha
    · subst ha; exact h
    · exact ih h.tail ha

theorem LabelOK.len_byte {lab : Bytes} (h : LabelOK lab) :
    (UInt8.ofNat lab.length).toNat = lab.length ∧ UInt8.ofNat lab.length ≠ 0 := by
  have h1 : (UInt8.ofNat lab.length).toNat = lab.length := toNat_ofNat_lt _ (by have := h.2.1; omega)
  refine ⟨h1, ?_⟩
  intro h0
  have : (UInt8.ofNat lab.length).toNat = 0 := by rw [h0]; rfl
  rw [h1] at this
  exact h.1 (List.length_eq_zero_iff.mp this)

theorem pack_injective : ∀ (a b : List Bytes), (∀ x ∈ a, LabelOK x) → (∀ x ∈ b, LabelOK x) →
    pack a = pack b → a = b
  | [], [], _, _, _ => rfl
  | [], lb :: rb, _, hb, h => by
    rw [pack_nil, pack_cons] at h
    simp only [List.cons.injEq] at h
    exact absurd h.1.symm (hb lb (by simp)).len_byte.2
  | la :: ra, [], ha, _, h => by
    rw [pack_nil, pack_cons] at h
    simp only [List.cons.injEq] at h
    exact absurd h.1 (ha la (by simp)).len_byte.2
  | la :: ra, lb :: rb, ha, hb, h => by
    rw [pack_cons, pack_cons] at h
    simp only [List.cons.injEq] at h
    have hla := (ha la (by simp)).len_byte.1
    have hlb := (hb lb (by simp)).len_byte.1
    have hlen : la.length = lb.length := by rw [← hla, ← hlb, h.1]
    have := List.append_inj h.2 hlen
    rw [this.1, pack_injective ra rb (fun x hx => ha x (List.mem_cons_of_mem _ hx))
      (fun x hx => hb x (List.mem_cons_of_mem _ hx)) this.2]


/-! ### records ↔ rows -/

/-- the stored row of a declared record -/
def rowOfRec (r : Rec) : Bytes :=
  putrrhead r.type r.ttl (if r.loc = [0, 0] then none else some r.loc) r.wild
    ++ (if r.type = 1 ∨ r.type = 28 then be32 r.weight else []) ++ r.rdata

/-- the records declared for one owner under one location tag, in file order -/
def recsAt (recs : List Rec) (ls : List Bytes) (loc : Bytes) : List Rec :=
  recs.filter fun r => r.owner = ls ∧ r.loc = loc

/-- under location tag `loc`, the store holds exactly the rows of the declared records (v1 keys) -/
def RepresentsAt (s : Store) (recs : List Rec) (loc : Bytes) : Prop :=
  ∀ ls, NameOK ls → s.get (loc ++ pack ls) = (recsAt recs ls loc).map rowOfRec

def Represents (s : Store) (recs : List Rec) : Prop :=
  ∀ loc : Bytes, loc.length = 2 → RepresentsAt s recs loc

/-- field ranges of one record -/
def RecOK (r : Rec) : Prop :=
  r.type < 65536 ∧ r.ttl < 4294967296 ∧ r.loc.length = 2 ∧
    ((r.type = 1 ∨ r.type = 28) → r.weight < 4294967296)

instance (r : Rec) : Decidable (RecOK r) := by unfold RecOK; infer_instance

/-- the fields the server reads back from the row of `r` -/
def rowFields (r : Rec) : Row :=
  ⟨r.type, r.ttl, if r.type = 1 ∨ r.type = 28 then r.weight else 0, r.rdata⟩

theorem extractRR_rowOfRec (r : Rec) (h : RecOK r) (w : Bool) :
    extractRR (rowOfRec r) w = if w ≠ r.wild then .mismatch else .row (rowFields r) := by
  unfold rowOfRec
  rw [List.append_assoc, extractRR_putrrhead_body r.type r.ttl _ r.wild w _ h.1 h.2.1
    (by intro l hl; split at hl
        · cases hl
        · cases hl; exact h.2.2.1)]
  by_cases hw : w ≠ r.wild
  · rw [if_pos hw, if_pos hw]
  · rw [if_neg hw, if_neg hw]
    unfold rowFields
    by_cases ht : r.type = 1 ∨ r.type = 28
    · rw [if_pos ht, if_pos ht, afterHead_addr _ _ _ _ ht (h.2.2.2 ht)]
    · rw [if_neg ht, if_neg ht, List.nil_append, afterHead_other _ _ _ (by omega)]

/-- what a client in location `l` sees at a name: the records tagged `l`, then the untagged ones -/
def visRecs (recs : List Rec) (l : Bytes) (ls : List Bytes) : List Rec :=
  (if l ≠ [0, 0] then recsAt recs ls l else []) ++ recsAt recs ls [0, 0]

theorem mem_visRecs (recs : List Rec) (l : Bytes) (ls : List Bytes) (r : Rec) :
    r ∈ visRecs recs l ls ↔ r ∈ recs ∧ r.owner = ls ∧ visible l r = true := by
  unfold visRecs recsAt visible
  by_cases hl : l = [0, 0]
  · subst hl; simp
  · simp only [ne_eq, hl, not_false_eq_true, ↓reduceIte, List.mem_append, List.mem_filter,
      decide_eq_true_eq, Bool.or_eq_true]
    constructor
    · rintro (⟨h1, h2, h3⟩ | ⟨h1, h2, h3⟩)
      · exact ⟨h1, h2, Or.inr h3⟩
      · exact ⟨h1, h2, Or.inl h3⟩
    · rintro ⟨h1, h2, h3 | h3⟩
      · exact Or.inr ⟨h1, h2, h3⟩
      · exact Or.inl ⟨h1, h2, h3⟩

/-- the two `ForEach` passes of the v1 readers, as rows of `visRecs` -/
theorem rows_visRecs (s : Store) (recs : List Rec) (l : Bytes) (ls : List Bytes)
    (h0 : RepresentsAt s recs [0, 0]) (hl : RepresentsAt s recs l) (hn : NameOK ls) :
    (if l ≠ [0, 0] then s.get (l ++ pack ls) else []) ++ s.get ([0, 0] ++ pack ls)
      = (visRecs recs l ls).map rowOfRec := by
  unfold visRecs
  rw [List.map_append, h0 ls hn]
  by_cases h : l ≠ [0, 0]
  · rw [if_pos h, if_pos h, hl ls hn]
  · rw [if_neg h, if_neg h]; rfl


/-! ### the zone-cut walk -/

def anyT (rs : List Rec) (t : Nat) : Bool := rs.any fun r => decide (r.wild = false ∧ r.type = t)

theorem scanCut_cons (row : Bytes) (rows : List Bytes) (ns auth : Bool) :
    scanCut (row :: rows) ns auth =
      match extractRR row false with
      | .panic => none
      | .mismatch => scanCut rows ns auth
      | .row r => scanCut rows (ns || decide (r.qtype = 2)) (auth || decide (r.qtype = 6)) := by
  unfold scanCut
  rw [List.foldlM_cons]
  cases extractRR row false <;> rfl

theorem scanCut_rows (rs : List Rec) (h : ∀ r ∈ rs, RecOK r) (ns auth : Bool) :
    scanCut (rs.map rowOfRec) ns auth = some (ns || anyT rs 2, auth || anyT rs 6) := by
  induction rs generalizing ns auth with
  | nil => simp [scanCut, anyT]
  | cons r rs ih =>
    rw [List.map_cons, scanCut_cons, extractRR_rowOfRec r (h r (by simp))]
    have ih' := fun ns auth => ih (fun x hx => h x (List.mem_cons_of_mem _ hx)) ns auth
    cases hw : r.wild with
    | true =>
      simp only [ne_eq, Bool.false_eq_true, not_false_eq_true, ↓reduceIte]
      rw [ih']
      simp [anyT, hw]
    | false =>
      simp only [ne_eq, not_true_eq_false, ↓reduceIte]
      rw [ih']
      simp [anyT, hw, rowFields, Bool.or_assoc]
      exact ⟨rfl, rfl⟩


end Refinement

end DnsVerif.ServeRefine
