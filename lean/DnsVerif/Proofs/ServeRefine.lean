/-
Helper lemmas for C01: the row round trip (`extractRR ∘ putrrhead`), packed names, and the
refinement of the v1-layout query path (`isAuthoritativeV1`, `findAnswerV1`, `findSOA`, `getNs`,
`serve`) to `Spec.answer`.
-/
import DnsVerif.Model.Serve
import DnsVerif.Spec.Answer

namespace DnsVerif.ServeRefine
open DnsVerif DnsVerif.Codec DnsVerif.Serve DnsVerif.Name

/-! ### big-endian fields -/

theorem toNat_ofNat_lt (n : Nat) (h : n < 256) : (UInt8.ofNat n).toNat = n := by
  simp [UInt8.toNat_ofNat']; omega

theorem rd16_be16 (n : Nat) (h : n < 65536) (rest : Bytes) : rd16 (be16 n ++ rest) = some n := by
  simp only [be16, rd16, List.cons_append, List.nil_append]
  rw [toNat_ofNat_lt _ (Nat.mod_lt _ (by decide)), toNat_ofNat_lt _ (Nat.mod_lt _ (by decide))]
  congr 1; omega

theorem rd32_be32 (n : Nat) (h : n < 4294967296) (rest : Bytes) : rd32 (be32 n ++ rest) = some n := by
  simp only [be32, rd32, List.cons_append, List.nil_append]
  rw [toNat_ofNat_lt _ (Nat.mod_lt _ (by decide)), toNat_ofNat_lt _ (Nat.mod_lt _ (by decide)),
    toNat_ofNat_lt _ (Nat.mod_lt _ (by decide)), toNat_ofNat_lt _ (Nat.mod_lt _ (by decide))]
  congr 1; omega

/-! ### row head round trip -/

/-- the shape of `putrrhead`: marker byte, then two location bytes iff the record is tagged -/
theorem putrrhead_shape (t ttl : Nat) (lo : Option Bytes) (wild : Bool)
    (hlo : ∀ l, lo = some l → l.length = 2) :
    (∃ ch, (ch = 0x3d ∨ ch = 0x2a) ∧ (wild = decide (ch = 0x2a ∨ ch = 0x2b)) ∧
      putrrhead t ttl lo wild = be16 t ++ ch :: (be32 ttl ++ [0,0,0,0,0,0,0,0])) ∨
    (∃ ch a b, (ch = 0x3e ∨ ch = 0x2b) ∧ (wild = decide (ch = 0x2a ∨ ch = 0x2b)) ∧
      putrrhead t ttl lo wild = be16 t ++ ch :: a :: b :: (be32 ttl ++ [0,0,0,0,0,0,0,0])) := by
  unfold putrrhead
  cases lo with
  | none => left; cases wild <;> simp
  | some l =>
    have hl := hlo l rfl
    match l, hl with
    | [a, b], _ =>
      by_cases hz : ([a, b] : Bytes) = [0, 0]
      · left; cases wild <;> simp [hz]
      · right; cases wild <;> simp [hz]

/-- what `extractRR` yields once the head is parsed -/
def afterHead (t ttl : Nat) (body : Bytes) : RowRes :=
  if t = 28 ∨ t = 1 then
    match rd32 body with
    | none => .panic
    | some wt => .row ⟨t, ttl, wt, body.drop 4⟩
  else .row ⟨t, ttl, 0, body⟩

theorem extractRR_shape1 (t ttl : Nat) (ch : UInt8) (w : Bool) (body : Bytes) (ht : t < 65536)
    (httl : ttl < 4294967296) (hch : ch = 0x3d ∨ ch = 0x2a) :
    extractRR (be16 t ++ ch :: (be32 ttl ++ [0,0,0,0,0,0,0,0]) ++ body) w =
      if w ≠ decide (ch = 0x2a ∨ ch = 0x2b) then .mismatch else afterHead t ttl body := by
  unfold extractRR afterHead
  rw [List.append_assoc, rd16_be16 t ht]
  have h2 : (be16 t ++ (ch :: (be32 ttl ++ [0,0,0,0,0,0,0,0]) ++ body))[2]? = some ch := by simp [be16]
  rw [h2]
  simp only []
  have hd : ¬ (ch = 0x3e ∨ ch = 0x2b) := by rcases hch with h | h <;> subst h <;> decide
  rw [if_neg hd]
  have h3 : (be16 t ++ (ch :: (be32 ttl ++ [0,0,0,0,0,0,0,0]) ++ body)).drop 3
      = be32 ttl ++ ([0,0,0,0,0,0,0,0] ++ body) := by
    simp [be16]
  rw [h3, rd32_be32 ttl httl]
  simp only []
  have h15 : (be16 t ++ (ch :: (be32 ttl ++ [0,0,0,0,0,0,0,0]) ++ body)).drop (3 + 12) = body := by
    simp [be16, be32]
  have h19 : (be16 t ++ (ch :: (be32 ttl ++ [0,0,0,0,0,0,0,0]) ++ body)).drop (3 + 12 + 4)
      = body.drop 4 := by
    rw [← List.drop_drop, h15]
  have hlen : ¬ (be16 t ++ (ch :: (be32 ttl ++ [0,0,0,0,0,0,0,0]) ++ body)).length < 3 + 12 := by
    simp [be16, be32]
  rw [h15, h19, if_neg hlen]
  cases rd32 body <;> rfl

theorem extractRR_shape2 (t ttl : Nat) (ch a b : UInt8) (w : Bool) (body : Bytes) (ht : t < 65536)
    (httl : ttl < 4294967296) (hch : ch = 0x3e ∨ ch = 0x2b) :
    extractRR (be16 t ++ ch :: a :: b :: (be32 ttl ++ [0,0,0,0,0,0,0,0]) ++ body) w =
      if w ≠ decide (ch = 0x2a ∨ ch = 0x2b) then .mismatch else afterHead t ttl body := by
  unfold extractRR afterHead
  rw [List.append_assoc, rd16_be16 t ht]
  have h2 : (be16 t ++ (ch :: a :: b :: (be32 ttl ++ [0,0,0,0,0,0,0,0]) ++ body))[2]? = some ch := by
    simp [be16]
  rw [h2]
  simp only []
  rw [if_pos hch]
  have h3 : (be16 t ++ (ch :: a :: b :: (be32 ttl ++ [0,0,0,0,0,0,0,0]) ++ body)).drop 5
      = be32 ttl ++ ([0,0,0,0,0,0,0,0] ++ body) := by
    simp [be16]
  rw [h3, rd32_be32 ttl httl]
  simp only []
  have h15 : (be16 t ++ (ch :: a :: b :: (be32 ttl ++ [0,0,0,0,0,0,0,0]) ++ body)).drop (5 + 12) = body := by
    simp [be16, be32]
  have h19 : (be16 t ++ (ch :: a :: b :: (be32 ttl ++ [0,0,0,0,0,0,0,0]) ++ body)).drop (5 + 12 + 4)
      = body.drop 4 := by
    rw [← List.drop_drop, h15]
  have hlen : ¬ (be16 t ++ (ch :: a :: b :: (be32 ttl ++ [0,0,0,0,0,0,0,0]) ++ body)).length < 5 + 12 := by
    simp [be16, be32]
  rw [h15, h19, if_neg hlen]
  cases rd32 body <;> rfl

/-- parsing any row that starts with a `putrrhead` -/
theorem extractRR_putrrhead_body (t ttl : Nat) (lo : Option Bytes) (wild w : Bool) (body : Bytes)
    (ht : t < 65536) (httl : ttl < 4294967296) (hlo : ∀ l, lo = some l → l.length = 2) :
    extractRR (putrrhead t ttl lo wild ++ body) w =
      if w ≠ wild then .mismatch else afterHead t ttl body := by
  rcases putrrhead_shape t ttl lo wild hlo with ⟨ch, hch, hw, he⟩ | ⟨ch, a, b, hch, hw, he⟩
  · rw [he, hw]; exact extractRR_shape1 t ttl ch w body ht httl hch
  · rw [he, hw]; exact extractRR_shape2 t ttl ch a b w body ht httl hch

theorem afterHead_addr (t ttl weight : Nat) (rdata : Bytes) (ht : t = 1 ∨ t = 28)
    (hw : weight < 4294967296) :
    afterHead t ttl (be32 weight ++ rdata) = .row ⟨t, ttl, weight, rdata⟩ := by
  unfold afterHead
  rw [if_pos (by omega), rd32_be32 weight hw]
  simp [be32]

theorem afterHead_other (t ttl : Nat) (body : Bytes) (ht : t ≠ 1 ∧ t ≠ 28) :
    afterHead t ttl body = .row ⟨t, ttl, 0, body⟩ := by
  unfold afterHead
  rw [if_neg (by omega)]

/-! ### `Spec.answer`, decomposed into named pieces -/

section SpecPieces
open Spec

def hasT (recs : List Rec) (l : Bytes) (owner : List Bytes) (t : Nat) : Bool :=
  recs.any fun r => r.owner = owner ∧ ¬ r.wild ∧ r.type = t ∧ visible l r

def cutOf (recs : List Rec) (l : Bytes) (name : List Bytes) : Option (List Bytes) :=
  (ancestorsOrSelf name).find? fun a => hasT recs l a 2

def refused : Answer :=
  { rcode := 5, aa := false, answer := [], answerAddrs := [], authority := [], additional := [] }

/-- the zone cut, authority flag and "parent served" flag after the DS step -/
def cutAuth (recs : List Rec) (l : Bytes) (q : List Bytes) (qtype : Nat) (cut0 : List Bytes) :
    List Bytes × Bool × Bool :=
  let auth0 := hasT recs l cut0 6
  if ¬ auth0 ∧ qtype = 43 ∧ q ≠ [] then
    match cutOf recs l (q.drop 1) with
    | some c => (c, hasT recs l c 6, true)
    | none => (cut0, false, false)
  else (cut0, auth0, true)

def matchingOf (rs : List Rec) (qtype : Nat) : List Rec :=
  rs.filter fun r => r.type = 5 ∨ r.type = qtype ∨ qtype = 255

def plainOf (q : List Bytes) (matching : List Rec) : List OutRR :=
  (matching.filter fun r => r.type ≠ 1 ∧ r.type ≠ 28).map fun r => (⟨q, r.type, 1, r.ttl, r.rdata⟩ : OutRR)

def grpOf (q : List Bytes) (maxAns : Nat) (matching : List Rec) (t : Nat) : List OutAddrs :=
  let c := (matching.filter (·.type = t)).map fun r => (r.ttl, r.weight, r.rdata)
  if c.isEmpty then [] else [⟨q, t, 1, c, maxAns⟩]

def servedS (g : OutAddrs) : Bool := g.cands.any fun c => c.2.1 > 0

def soaOf (recs : List Rec) (l : Bytes) (cut : List Bytes) : List OutRR :=
  match recs.find? fun r => r.owner = cut ∧ ¬ r.wild ∧ r.type = 6 ∧ visible l r ∧ r.loc = l ∧ l ≠ [0, 0] with
  | some r => [⟨cut, 6, 1, r.ttl, r.rdata⟩]
  | none =>
    match recs.find? fun r => r.owner = cut ∧ ¬ r.wild ∧ r.type = 6 ∧ visible l r with
    | some r => [⟨cut, 6, 1, r.ttl, r.rdata⟩]
    | none => []

def nsOf (recs : List Rec) (l : Bytes) (qclass : Nat) (c : List Bytes) : List OutRR :=
  (recs.filter fun r => r.owner = c ∧ ¬ r.wild ∧ r.type = 2 ∧ visible l r).map fun r =>
    ⟨c, 2, qclass, r.ttl, r.rdata⟩

def targetsOf (rrs : List OutRR) : List (List Bytes) :=
  rrs.filterMap fun rr =>
    if rr.type = 2 then (nameLabels rr.rdata).map (·.map toLower)
    else if rr.type = 15 then (nameLabels (rr.rdata.drop 2)).map (·.map toLower)
    else if rr.type = 65 then some rr.owner
    else none

def candS (recs : List Rec) (l : Bytes) (tname : List Bytes) (t : Nat) : List (Nat × Nat × Bytes) :=
  (recs.filter fun r => r.owner = tname ∧ ¬ r.wild ∧ r.type = t ∧ visible l r).map fun r =>
    (r.ttl, r.weight, r.rdata)

def additionalOf (recs : List Rec) (l : Bytes) (qclass : Nat) (groups : List OutAddrs)
    (targets : List (List Bytes)) : List OutAddrs :=
  targets.eraseDups.flatMap fun tname =>
    let alreadyHas (t : Nat) : Bool := groups.any fun g => g.owner = tname ∧ g.type = t ∧ servedS g
    (if ¬ alreadyHas 28 ∧ ¬ (candS recs l tname 28).isEmpty then [⟨tname, 28, qclass, candS recs l tname 28, 1⟩] else [])
    ++ (if ¬ alreadyHas 1 ∧ ¬ (candS recs l tname 1).isEmpty then [⟨tname, 1, qclass, candS recs l tname 1, 1⟩] else [])

/-- `Spec.answer` after the cut is fixed -/
def answerAt (recs : List Rec) (l : Bytes) (q : List Bytes) (qtype qclass maxAns : Nat)
    (cut : List Bytes) (auth : Bool) (parentServed : Prop) [Decidable parentServed] : Answer :=
  let rs : List Rec := if auth then recordsFor recs l q cut else []
  let matching := matchingOf rs qtype
  let plain := plainOf q matching
  let groups := grpOf q maxAns matching 1 ++ grpOf q maxAns matching 28
  let answerEmpty := plain.isEmpty ∧ ¬ groups.any servedS
  let authority : List OutRR :=
    if auth ∧ answerEmpty then soaOf recs l cut
    else if ¬ auth ∧ parentServed then nsOf recs l qclass cut
    else []
  { rcode := if auth ∧ rs.isEmpty then 3 else 0, aa := auth, answer := plain, answerAddrs := groups,
    authority := authority,
    additional := additionalOf recs l qclass groups (targetsOf (plain ++ authority)) }



def answer' (z : Zone) (q : List Bytes) (qtype qclass maxAns : Nat) (l : Bytes) : Answer :=
  match cutOf z.recs l q with
  | none => refused
  | some cut0 =>
    let auth0 := hasT z.recs l cut0 6
    let (cut, auth) : List Bytes × Bool :=
      if ¬ auth0 ∧ qtype = 43 ∧ q ≠ [] then
        match cutOf z.recs l (q.drop 1) with
        | some c => (c, hasT z.recs l c 6)
        | none => (cut0, false)
      else (cut0, auth0)
    let parentServed := ¬ (¬ auth0 ∧ qtype = 43 ∧ q ≠ []) ∨ (cutOf z.recs l (q.drop 1)).isSome
    answerAt z.recs l q qtype qclass maxAns cut auth parentServed

theorem answer_eq0 (z : Zone) (q : List Bytes) (qtype qclass maxAns : Nat) (l : Bytes) :
    Spec.answer z q qtype qclass maxAns l = answer' z q qtype qclass maxAns l := by
  rfl


theorem answerAt_congr (recs : List Rec) (l : Bytes) (q : List Bytes) (qtype qclass maxAns : Nat)
    (cut : List Bytes) (auth : Bool) {p p' : Prop} [ip : Decidable p] [ip' : Decidable p'] (h : p ↔ p') :
    @answerAt recs l q qtype qclass maxAns cut auth p ip = @answerAt recs l q qtype qclass maxAns cut auth p' ip' := by
  have e : p = p' := propext h
  subst e
  have : ip = ip' := Subsingleton.elim _ _
  subst this; rfl

theorem answer_eq (z : Zone) (q : List Bytes) (qtype qclass maxAns : Nat) (l : Bytes) :
    Spec.answer z q qtype qclass maxAns l =
      match cutOf z.recs l q with
      | none => refused
      | some cut0 =>
        answerAt z.recs l q qtype qclass maxAns (cutAuth z.recs l q qtype cut0).1
          (cutAuth z.recs l q qtype cut0).2.1 ((cutAuth z.recs l q qtype cut0).2.2 = true) := by
  rw [answer_eq0]
  unfold answer'
  cases cutOf z.recs l q with
  | none => rfl
  | some cut0 =>
    simp only []
    unfold cutAuth
    by_cases h : (¬ hasT z.recs l cut0 6 = true ∧ qtype = 43 ∧ q ≠ [])
    · simp only [if_pos h]
      cases hc : cutOf z.recs l (q.drop 1) with
      | none => exact answerAt_congr _ _ _ _ _ _ _ _ (by simp [h])
      | some c => exact answerAt_congr _ _ _ _ _ _ _ _ (by simp [h])
    · simp only [if_neg h]
      exact answerAt_congr _ _ _ _ _ _ _ _ (by simp only [iff_true]; exact Or.inl h)

end SpecPieces

end DnsVerif.ServeRefine
