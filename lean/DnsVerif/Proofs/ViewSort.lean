/-
C01, permutation invariance of the spec: `Spec.answer` is a function of the *multiset* of declared
records, up to the order of records inside a section, of candidates inside an address group, and of
the groups of the additional section.

* `GroupEq`, `GroupsSame`, `GroupsPerm`, `AnswerPerm` — the relation "same answer up to order".
* `SoaDet recs l` — in the view of location `l`, the non-wildcard SOA records one owner declares under
  one location tag all carry the same TTL and rdata. It is the only hypothesis a general permutation
  needs (the SOA of the authority section is a first match); `soa_order_matters` is the witness.
* `answer_perm` — any permutation of the record list, under `SoaDet`.
* `answer_viewSort` — the reader's order `viewSort l recs` (tagged rows first, a stable partition):
  no hypothesis, because a stable partition keeps the first match of both SOA searches.

Core Lean only.
-/
import DnsVerif.Proofs.ServeRefine

namespace DnsVerif.ViewSort
open DnsVerif DnsVerif.Spec DnsVerif.ServeRefine DnsVerif.Name

/-! ### the relation -/

/-- the same address group up to the order of its candidates -/
def GroupEq (g' g : OutAddrs) : Prop :=
  g'.owner = g.owner ∧ g'.type = g.type ∧ g'.cls = g.cls ∧ g'.max = g.max ∧ g'.cands.Perm g.cands

instance (g' g : OutAddrs) : Decidable (GroupEq g' g) := by unfold GroupEq; infer_instance

/-- the same groups in the same order, each up to the order of its candidates -/
def GroupsSame : List OutAddrs → List OutAddrs → Prop
  | [], [] => True
  | g' :: gs', g :: gs => GroupEq g' g ∧ GroupsSame gs' gs
  | [], _ :: _ => False
  | _ :: _, [] => False

instance groupsSameDec : (gs' gs : List OutAddrs) → Decidable (GroupsSame gs' gs)
  | [], [] => isTrue trivial
  | g' :: gs', g :: gs =>
    have := groupsSameDec gs' gs
    inferInstanceAs (Decidable (GroupEq g' g ∧ GroupsSame gs' gs))
  | [], _ :: _ => isFalse id
  | _ :: _, [] => isFalse id

/-- the same groups up to their order and the order of the candidates inside each -/
def GroupsPerm (gs' gs : List OutAddrs) : Prop := ∃ m, gs'.Perm m ∧ GroupsSame m gs

/-- the same answer up to order: rcode and AA equal, answer and authority records permuted, the
answer address groups equal up to candidate order, the additional groups up to group and candidate
order -/
structure AnswerPerm (a' a : Answer) : Prop where
  rcode : a'.rcode = a.rcode
  aa : a'.aa = a.aa
  answer : a'.answer.Perm a.answer
  answerAddrs : GroupsSame a'.answerAddrs a.answerAddrs
  authority : a'.authority.Perm a.authority
  additional : GroupsPerm a'.additional a.additional

theorem GroupEq.refl (g : OutAddrs) : GroupEq g g := ⟨rfl, rfl, rfl, rfl, .refl _⟩

theorem GroupsSame.refl : ∀ gs : List OutAddrs, GroupsSame gs gs
  | [] => trivial
  | g :: gs => ⟨GroupEq.refl g, GroupsSame.refl gs⟩

theorem GroupsPerm.refl (gs : List OutAddrs) : GroupsPerm gs gs := ⟨gs, .refl _, GroupsSame.refl gs⟩

theorem AnswerPerm.refl (a : Answer) : AnswerPerm a a :=
  ⟨rfl, rfl, .refl _, GroupsSame.refl _, .refl _, GroupsPerm.refl _⟩

theorem GroupsSame.append : ∀ {a' a b' b : List OutAddrs}, GroupsSame a' a → GroupsSame b' b →
    GroupsSame (a' ++ b') (a ++ b)
  | [], [], _, _, _, hb => hb
  | _ :: _, _ :: _, _, _, ha, hb => ⟨ha.1, GroupsSame.append ha.2 hb⟩
  | [], _ :: _, _, _, ha, _ => ha.elim
  | _ :: _, [], _, _, ha, _ => ha.elim

theorem GroupsSame.flatMap {α : Type} (F' F : α → List OutAddrs) (h : ∀ x, GroupsSame (F' x) (F x)) :
    ∀ xs : List α, GroupsSame (xs.flatMap F') (xs.flatMap F)
  | [] => trivial
  | x :: xs => by
    rw [List.flatMap_cons, List.flatMap_cons]
    exact GroupsSame.append (h x) (GroupsSame.flatMap F' F h xs)

/-- a predicate that does not look at the order of candidates has the same `any` on both lists -/
theorem GroupsSame.any_eq (f : OutAddrs → Bool) (hf : ∀ g' g, GroupEq g' g → f g' = f g) :
    ∀ {gs' gs : List OutAddrs}, GroupsSame gs' gs → gs'.any f = gs.any f
  | [], [], _ => rfl
  | g' :: gs', g :: gs, h => by
    rw [List.any_cons, List.any_cons, hf g' g h.1, GroupsSame.any_eq f hf h.2]
  | [], _ :: _, h => h.elim
  | _ :: _, [], h => h.elim

theorem servedS_eq (g' g : OutAddrs) (h : GroupEq g' g) : servedS g' = servedS g := by
  unfold servedS
  exact h.2.2.2.2.any_eq

/-! ### the pieces of `Spec.answer` under a permutation of the records -/

section Perm
variable {recs' recs : List Rec} (h : recs'.Perm recs)
include h

theorem hasT_perm (l : Bytes) (a : List Bytes) (t : Nat) : hasT recs' l a t = hasT recs l a t := by
  unfold hasT
  exact h.any_eq

theorem cutOf_perm (l : Bytes) (q : List Bytes) : cutOf recs' l q = cutOf recs l q := by
  unfold cutOf
  congr 1
  funext a
  exact hasT_perm h l a 2

theorem cutAuth_perm (l : Bytes) (q : List Bytes) (qtype : Nat) (cut0 : List Bytes) :
    cutAuth recs' l q qtype cut0 = cutAuth recs l q qtype cut0 := by
  unfold cutAuth
  simp only [hasT_perm h, cutOf_perm h]

omit h in
theorem ite_perm_of {α : Type} {a' a b' b : List α} (ha : a'.Perm a) (hb : b'.Perm b) :
    (if ¬ a'.isEmpty = true then a' else b').Perm (if ¬ a.isEmpty = true then a else b) := by
  rw [ha.isEmpty_eq]
  by_cases he : ¬ a.isEmpty = true
  · rw [if_pos he, if_pos he]; exact ha
  · rw [if_neg he, if_neg he]; exact hb

theorem up_perm (l : Bytes) (cut : List Bytes) :
    ∀ q, (recordsFor.up recs' l cut q).Perm (recordsFor.up recs l cut q)
  | [] => by rw [up_nil, up_nil]
  | lab :: rest => by
    rw [up_cons, up_cons]
    by_cases h1 : (lab :: rest) = cut
    · rw [if_pos h1, if_pos h1]
    · rw [if_neg h1, if_neg h1]
      by_cases h2 : ¬ wildsafeLabel lab = true
      · rw [if_pos h2, if_pos h2]
      · rw [if_neg h2, if_neg h2]
        exact ite_perm_of (h.filter _) (up_perm l cut rest)

theorem recordsFor_perm (l : Bytes) (q cut : List Bytes) :
    (recordsFor recs' l q cut).Perm (recordsFor recs l q cut) := by
  rw [recordsFor_eq, recordsFor_eq]
  exact ite_perm_of (h.filter _) (up_perm h l cut q)

theorem nsOf_perm (l : Bytes) (qclass : Nat) (c : List Bytes) :
    (nsOf recs' l qclass c).Perm (nsOf recs l qclass c) := by
  unfold nsOf
  exact (h.filter _).map _

theorem candS_perm (l : Bytes) (tname : List Bytes) (t : Nat) :
    (candS recs' l tname t).Perm (candS recs l tname t) := by
  unfold candS
  exact (h.filter _).map _

end Perm

theorem matchingOf_perm {rs' rs : List Rec} (h : rs'.Perm rs) (qtype : Nat) :
    (matchingOf rs' qtype).Perm (matchingOf rs qtype) := by
  unfold matchingOf
  exact h.filter _

theorem plainOf_perm {M' M : List Rec} (h : M'.Perm M) (q : List Bytes) :
    (plainOf q M').Perm (plainOf q M) := by
  unfold plainOf
  exact (h.filter _).map _

theorem grpOf_same {M' M : List Rec} (h : M'.Perm M) (q : List Bytes) (maxAns t : Nat) :
    GroupsSame (grpOf q maxAns M' t) (grpOf q maxAns M t) := by
  unfold grpOf
  simp only []
  have hc : ((M'.filter (·.type = t)).map fun r => (r.ttl, r.weight, r.rdata)).Perm
      ((M.filter (·.type = t)).map fun r => (r.ttl, r.weight, r.rdata)) := (h.filter _).map _
  rw [hc.isEmpty_eq]
  by_cases he : ((M.filter (·.type = t)).map fun r => (r.ttl, r.weight, r.rdata)).isEmpty = true
  · rw [if_pos he, if_pos he]; trivial
  · rw [if_neg he, if_neg he]
    exact ⟨⟨rfl, rfl, rfl, rfl, hc⟩, trivial⟩

theorem targetsOf_perm {rrs' rrs : List OutRR} (h : rrs'.Perm rrs) :
    (targetsOf rrs').Perm (targetsOf rrs) := by
  unfold targetsOf
  exact h.filterMap _

/-! ### `eraseDups` of a permutation -/

theorem nodup_eraseDups {α : Type} [BEq α] [LawfulBEq α] :
    ∀ (n : Nat) (l : List α), l.length ≤ n → l.eraseDups.Nodup
  | _, [], _ => by simp
  | 0, _ :: _, hn => by simp at hn
  | n + 1, a :: as, hn => by
    rw [List.eraseDups_cons, List.nodup_cons]
    refine ⟨?_, nodup_eraseDups n _ ?_⟩
    · rw [List.mem_eraseDups, List.mem_filter]
      simp
    · have := List.length_filter_le (fun b => !b == a) as
      simp only [List.length_cons] at hn
      omega

theorem eraseDups_perm {α : Type} [BEq α] [LawfulBEq α] {l' l : List α} (h : l'.Perm l) :
    l'.eraseDups.Perm l.eraseDups := by
  rw [List.perm_ext_iff_of_nodup (nodup_eraseDups _ l' (Nat.le_refl _)) (nodup_eraseDups _ l (Nat.le_refl _))]
  intro a
  rw [List.mem_eraseDups, List.mem_eraseDups]
  exact h.mem_iff

/-! ### the additional section -/

theorem addGroup_same (tname : List Bytes) (t qclass : Nat) (ah' ah : Bool) (hah : ah' = ah)
    {c' c : List (Nat × Nat × Bytes)} (hc : c'.Perm c) :
    GroupsSame (if ¬ ah' = true ∧ ¬ c'.isEmpty = true then [⟨tname, t, qclass, c', 1⟩] else [])
      (if ¬ ah = true ∧ ¬ c.isEmpty = true then [⟨tname, t, qclass, c, 1⟩] else []) := by
  subst hah
  rw [hc.isEmpty_eq]
  by_cases hcond : ¬ ah' = true ∧ ¬ c.isEmpty = true
  · rw [if_pos hcond, if_pos hcond]
    exact ⟨⟨rfl, rfl, rfl, rfl, hc⟩, trivial⟩
  · rw [if_neg hcond, if_neg hcond]; trivial

theorem addGroups_same {recs' recs : List Rec} (h : recs'.Perm recs) (l : Bytes) (qclass : Nat)
    {G' G : List OutAddrs} (hG : GroupsSame G' G) (tname : List Bytes) :
    GroupsSame (addGroups recs' l qclass G' tname) (addGroups recs l qclass G tname) := by
  have hah : ∀ t : Nat,
      (G'.any fun g => decide (g.owner = tname ∧ g.type = t ∧ servedS g = true)) =
      (G.any fun g => decide (g.owner = tname ∧ g.type = t ∧ servedS g = true)) := by
    intro t
    apply GroupsSame.any_eq _ _ hG
    intro g' g hg
    rw [hg.1, hg.2.1, servedS_eq g' g hg]
  unfold addGroups
  exact GroupsSame.append
    (addGroup_same tname 28 qclass _ _ (hah 28) (candS_perm h l tname 28))
    (addGroup_same tname 1 qclass _ _ (hah 1) (candS_perm h l tname 1))

theorem additionalOf_perm {recs' recs : List Rec} (h : recs'.Perm recs) (l : Bytes) (qclass : Nat)
    {G' G : List OutAddrs} (hG : GroupsSame G' G) {T' T : List (List Bytes)} (hT : T'.Perm T) :
    GroupsPerm (additionalOf recs' l qclass G' T') (additionalOf recs l qclass G T) := by
  rw [additionalOf_eq, additionalOf_eq]
  exact ⟨_, (eraseDups_perm hT).flatMap_right _,
    GroupsSame.flatMap _ _ (addGroups_same h l qclass hG) _⟩

/-! ### the answer after the cut is fixed -/

theorem answerAt_perm {recs' recs : List Rec} (h : recs'.Perm recs) (l : Bytes) (q : List Bytes)
    (qtype qclass maxAns : Nat) (cut : List Bytes) (auth : Bool) (ps : Prop) [Decidable ps]
    (hsoa : soaOf recs' l cut = soaOf recs l cut) :
    AnswerPerm (answerAt recs' l q qtype qclass maxAns cut auth ps)
      (answerAt recs l q qtype qclass maxAns cut auth ps) := by
  have hrs : (if auth = true then recordsFor recs' l q cut else []).Perm
      (if auth = true then recordsFor recs l q cut else []) := by
    cases auth
    · exact .refl _
    · exact recordsFor_perm h l q cut
  unfold answerAt
  simp only []
  generalize (if auth = true then recordsFor recs' l q cut else []) = rs' at hrs ⊢
  generalize (if auth = true then recordsFor recs l q cut else []) = rs at hrs ⊢
  have hM := matchingOf_perm hrs qtype
  generalize matchingOf rs' qtype = M' at hM ⊢
  generalize matchingOf rs qtype = M at hM ⊢
  have hP := plainOf_perm hM q
  have hG : GroupsSame (grpOf q maxAns M' 1 ++ grpOf q maxAns M' 28) (grpOf q maxAns M 1 ++ grpOf q maxAns M 28) :=
    GroupsSame.append (grpOf_same hM q maxAns 1) (grpOf_same hM q maxAns 28)
  generalize plainOf q M' = P' at hP ⊢
  generalize plainOf q M = P at hP ⊢
  generalize grpOf q maxAns M' 1 ++ grpOf q maxAns M' 28 = G' at hG ⊢
  generalize grpOf q maxAns M 1 ++ grpOf q maxAns M 28 = G at hG ⊢
  have hany : G'.any servedS = G.any servedS := GroupsSame.any_eq servedS servedS_eq hG
  have hauth : (if auth = true ∧ (P'.isEmpty = true ∧ ¬ G'.any servedS = true) then soaOf recs' l cut
        else if ¬ auth = true ∧ ps then nsOf recs' l qclass cut else []).Perm
      (if auth = true ∧ (P.isEmpty = true ∧ ¬ G.any servedS = true) then soaOf recs l cut
        else if ¬ auth = true ∧ ps then nsOf recs l qclass cut else []) := by
    rw [hP.isEmpty_eq, hany, hsoa]
    by_cases c1 : auth = true ∧ (P.isEmpty = true ∧ ¬ G.any servedS = true)
    · rw [if_pos c1, if_pos c1]
    · rw [if_neg c1, if_neg c1]
      by_cases c2 : ¬ auth = true ∧ ps
      · rw [if_pos c2, if_pos c2]; exact nsOf_perm h l qclass cut
      · rw [if_neg c2, if_neg c2]
  refine ⟨?_, rfl, hP, hG, hauth, ?_⟩
  · show (if auth = true ∧ rs'.isEmpty = true then 3 else 0) = (if auth = true ∧ rs.isEmpty = true then 3 else 0)
    rw [hrs.isEmpty_eq]
  · exact additionalOf_perm h l qclass hG (targetsOf_perm (hP.append hauth))

/-- `Spec.answer` on a permuted record list, given that the SOA search is not disturbed -/
theorem answer_perm_of {recs' recs : List Rec} (h : recs'.Perm recs) (l : Bytes)
    (hsoa : ∀ cut, soaOf recs' l cut = soaOf recs l cut)
    (maps : List MapDecl) (subnets : List SubnetDecl) (q : List Bytes) (qtype qclass maxAns : Nat) :
    AnswerPerm (Spec.answer ⟨recs', maps, subnets⟩ q qtype qclass maxAns l)
      (Spec.answer ⟨recs, maps, subnets⟩ q qtype qclass maxAns l) := by
  rw [answer_eq, answer_eq]
  simp only [cutOf_perm h, cutAuth_perm h]
  cases cutOf recs l q with
  | none => exact AnswerPerm.refl _
  | some cut0 => exact answerAt_perm h l q qtype qclass maxAns _ _ _ (hsoa _)

/-! ### the SOA search -/

/-- In the view of location `l`: the non-wildcard SOA records of one owner under one location tag
agree on TTL and rdata. (Declaring two different SOAs for one zone in one view is what it excludes.) -/
def SoaDet (recs : List Rec) (l : Bytes) : Prop :=
  ∀ r ∈ recs, ∀ r' ∈ recs, r.owner = r'.owner → r.wild = false → r'.wild = false → r.type = 6 →
    r'.type = 6 → r.loc = r'.loc → visible l r = true → r.ttl = r'.ttl ∧ r.rdata = r'.rdata

instance (recs : List Rec) (l : Bytes) : Decidable (SoaDet recs l) := by unfold SoaDet; infer_instance

theorem find?_perm_agree {α β : Type} (f : α → β) (p : α → Bool) {l' l : List α} (h : l'.Perm l)
    (hag : ∀ x ∈ l, ∀ y ∈ l, p x = true → p y = true → f x = f y) :
    (l'.find? p).map f = (l.find? p).map f := by
  cases h' : l'.find? p with
  | none =>
    rw [List.find?_eq_none] at h'
    have : l.find? p = none := by
      rw [List.find?_eq_none]
      intro x hx
      exact h' x (h.mem_iff.mpr hx)
    rw [this]
  | some x =>
    have hx : x ∈ l := h.mem_iff.mp (List.mem_of_find?_eq_some h')
    have hpx : p x = true := List.find?_some h'
    cases h'' : l.find? p with
    | none =>
      rw [List.find?_eq_none] at h''
      exact absurd hpx (h'' x hx)
    | some y =>
      simp only [Option.map_some]
      rw [hag x hx y (List.mem_of_find?_eq_some h'') hpx (List.find?_some h'')]

theorem soaOf_eq_map (recs : List Rec) (l : Bytes) (cut : List Bytes) :
    soaOf recs l cut =
      match (recs.find? fun r => r.owner = cut ∧ ¬ r.wild ∧ r.type = 6 ∧ visible l r ∧ r.loc = l ∧ l ≠ [0, 0]).map
          (fun r => (r.ttl, r.rdata)) with
      | some o => [⟨cut, 6, 1, o.1, o.2⟩]
      | none =>
        match (recs.find? fun r => r.owner = cut ∧ ¬ r.wild ∧ r.type = 6 ∧ visible l r).map
            (fun r => (r.ttl, r.rdata)) with
        | some o => [⟨cut, 6, 1, o.1, o.2⟩]
        | none => [] := by
  unfold soaOf
  cases recs.find? fun r => r.owner = cut ∧ ¬ r.wild ∧ r.type = 6 ∧ visible l r ∧ r.loc = l ∧ l ≠ [0, 0] with
  | some r => rfl
  | none =>
    cases recs.find? fun r => r.owner = cut ∧ ¬ r.wild ∧ r.type = 6 ∧ visible l r with
    | some r => rfl
    | none => rfl

theorem soaOf_perm {recs' recs : List Rec} (h : recs'.Perm recs) (l : Bytes) (hd : SoaDet recs l)
    (cut : List Bytes) : soaOf recs' l cut = soaOf recs l cut := by
  rw [soaOf_eq_map, soaOf_eq_map]
  have h1 := find?_perm_agree (fun r : Rec => (r.ttl, r.rdata))
    (fun r => decide (r.owner = cut ∧ ¬ r.wild = true ∧ r.type = 6 ∧ visible l r = true ∧ r.loc = l ∧ l ≠ [0, 0])) h
    (by
      intro x hx y hy px py
      simp only [decide_eq_true_eq, Bool.not_eq_true] at px py
      have := hd x hx y hy (px.1.trans py.1.symm) px.2.1 py.2.1 px.2.2.1 py.2.2.1
        (px.2.2.2.2.1.trans py.2.2.2.2.1.symm) px.2.2.2.1
      rw [this.1, this.2])
  rw [h1]
  cases hf : (recs.find? fun r => decide (r.owner = cut ∧ ¬ r.wild = true ∧ r.type = 6 ∧ visible l r = true ∧
      r.loc = l ∧ l ≠ [0, 0])) with
  | some r => rfl
  | none =>
    rw [List.find?_eq_none] at hf
    have h2 := find?_perm_agree (fun r : Rec => (r.ttl, r.rdata))
      (fun r => decide (r.owner = cut ∧ ¬ r.wild = true ∧ r.type = 6 ∧ visible l r = true)) h
      (by
        intro x hx y hy px py
        simp only [decide_eq_true_eq, Bool.not_eq_true] at px py
        have hloc : ∀ z ∈ recs, z.owner = cut ∧ z.wild = false ∧ z.type = 6 ∧ visible l z = true → z.loc = [0, 0] := by
          intro z hz pz
          have hv := pz.2.2.2
          unfold visible at hv
          simp only [Bool.or_eq_true, decide_eq_true_eq] at hv
          rcases hv with hv | hv
          · exact hv
          · by_cases hl0 : l = [0, 0]
            · rw [hv, hl0]
            · exfalso
              apply hf z hz
              simp only [decide_eq_true_eq, Bool.not_eq_true]
              exact ⟨pz.1, pz.2.1, pz.2.2.1, pz.2.2.2, hv, hl0⟩
        have := hd x hx y hy (px.1.trans py.1.symm) px.2.1 py.2.1 px.2.2.1 py.2.2.1
          ((hloc x hx px).trans (hloc y hy py).symm) px.2.2.2
        rw [this.1, this.2])
    simp only [Option.map_none]
    rw [h2]

/-- **The answer is a function of the multiset of declared records.** For any permutation `recs'` of
`recs` (maps and subnets unchanged), under `SoaDet`, the two answers are the same up to order. -/
theorem answer_perm {recs' recs : List Rec} (h : recs'.Perm recs) (l : Bytes) (hd : SoaDet recs l)
    (maps : List MapDecl) (subnets : List SubnetDecl) (q : List Bytes) (qtype qclass maxAns : Nat) :
    AnswerPerm (Spec.answer ⟨recs', maps, subnets⟩ q qtype qclass maxAns l)
      (Spec.answer ⟨recs, maps, subnets⟩ q qtype qclass maxAns l) :=
  answer_perm_of h l (soaOf_perm h l hd) maps subnets q qtype qclass maxAns

/-! ### the reader's order `viewSort` -/

theorem viewSort_perm (l : Bytes) (recs : List Rec) : (viewSort l recs).Perm recs := by
  unfold viewSort
  have : (fun r : Rec => decide (r.loc ≠ l)) = fun r => !(decide (r.loc = l)) := by
    funext r; simp
  rw [this]
  exact List.filter_append_perm _ _

theorem find?_partition_pos {α : Type} (p a : α → Bool) (xs : List α) (hpa : ∀ x ∈ xs, p x = true → a x = true) :
    (xs.filter a ++ xs.filter (fun x => !a x)).find? p = xs.find? p := by
  rw [← List.head?_filter, ← List.head?_filter, List.filter_append, List.filter_filter, List.filter_filter]
  have h2 : xs.filter (fun x => p x && !a x) = [] := by
    rw [List.filter_eq_nil_iff]
    intro x hx
    cases hp : p x with
    | false => simp
    | true => simp [hpa x hx hp]
  have h1 : xs.filter (fun x => p x && a x) = xs.filter p := by
    apply List.filter_congr
    intro x hx
    cases hp : p x with
    | false => simp
    | true => simp [hpa x hx hp]
  rw [h1, h2, List.append_nil]

theorem find?_partition_neg {α : Type} (p a : α → Bool) (xs : List α) (hpa : ∀ x ∈ xs, p x = true → a x = false) :
    (xs.filter a ++ xs.filter (fun x => !a x)).find? p = xs.find? p := by
  rw [← List.head?_filter, ← List.head?_filter, List.filter_append, List.filter_filter, List.filter_filter]
  have h1 : xs.filter (fun x => p x && a x) = [] := by
    rw [List.filter_eq_nil_iff]
    intro x hx
    cases hp : p x with
    | false => simp
    | true => simp [hpa x hx hp]
  have h2 : xs.filter (fun x => p x && !a x) = xs.filter p := by
    apply List.filter_congr
    intro x hx
    cases hp : p x with
    | false => simp
    | true => simp [hpa x hx hp]
  rw [h1, h2, List.nil_append]

/-- the stable partition keeps the first match of both SOA searches: no hypothesis -/
theorem soaOf_viewSort_eq (recs : List Rec) (l : Bytes) (cut : List Bytes) :
    soaOf (viewSort l recs) l cut = soaOf recs l cut := by
  have hvs : viewSort l recs = recs.filter (fun r => decide (r.loc = l)) ++
      recs.filter (fun r => !(decide (r.loc = l))) := by
    unfold viewSort
    congr 2
    funext r; simp
  have h1 : (viewSort l recs).find? (fun r => decide (r.owner = cut ∧ ¬ r.wild = true ∧ r.type = 6 ∧
        visible l r = true ∧ r.loc = l ∧ l ≠ [0, 0])) =
      recs.find? (fun r => decide (r.owner = cut ∧ ¬ r.wild = true ∧ r.type = 6 ∧
        visible l r = true ∧ r.loc = l ∧ l ≠ [0, 0])) := by
    rw [hvs]
    apply find?_partition_pos
    intro x _ px
    simp only [decide_eq_true_eq] at px ⊢
    exact px.2.2.2.2.1
  unfold soaOf
  rw [h1]
  cases hf : recs.find? (fun r => decide (r.owner = cut ∧ ¬ r.wild = true ∧ r.type = 6 ∧
        visible l r = true ∧ r.loc = l ∧ l ≠ [0, 0])) with
  | some r => rfl
  | none =>
    rw [List.find?_eq_none] at hf
    have h2 : (viewSort l recs).find? (fun r => decide (r.owner = cut ∧ ¬ r.wild = true ∧ r.type = 6 ∧
          visible l r = true)) =
        recs.find? (fun r => decide (r.owner = cut ∧ ¬ r.wild = true ∧ r.type = 6 ∧ visible l r = true)) := by
      rw [hvs]
      by_cases hl0 : l = [0, 0]
      · apply find?_partition_pos
        intro x _ px
        simp only [decide_eq_true_eq] at px ⊢
        have hv := px.2.2.2
        unfold visible at hv
        simp only [Bool.or_eq_true, decide_eq_true_eq] at hv
        rcases hv with hv | hv
        · rw [hv, hl0]
        · exact hv
      · apply find?_partition_neg
        intro x hx px
        simp only [decide_eq_true_eq, decide_eq_false_iff_not] at px ⊢
        intro hxl
        apply hf x hx
        simp only [decide_eq_true_eq]
        exact ⟨px.1, px.2.1, px.2.2.1, px.2.2.2, hxl, hl0⟩
    simp only []
    rw [h2]

/-- the reader's order changes nothing but the order inside sections — no hypothesis -/
theorem answer_viewSort (recs : List Rec) (l : Bytes) (maps : List MapDecl) (subnets : List SubnetDecl)
    (q : List Bytes) (qtype qclass maxAns : Nat) :
    AnswerPerm (Spec.answer ⟨viewSort l recs, maps, subnets⟩ q qtype qclass maxAns l)
      (Spec.answer ⟨recs, maps, subnets⟩ q qtype qclass maxAns l) :=
  answer_perm_of (viewSort_perm l recs) l (soaOf_viewSort_eq recs l) maps subnets q qtype qclass maxAns

/-! ### `TargetsOK` does not depend on the order -/

theorem targetsOK_perm {rrs' rrs : List OutRR} (h : rrs'.Perm rrs) (ht : TargetsOK rrs) : TargetsOK rrs' := by
  have hp : (rrs'.filterMap rawTarget).Perm (rrs.filterMap rawTarget) := h.filterMap _
  exact ⟨fun t htm => ht.1 t (hp.mem_iff.mp htm), hp.symm.nodup ht.2⟩

end DnsVerif.ViewSort
