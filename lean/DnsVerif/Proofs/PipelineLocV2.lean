/-
The location part of the pipeline theorem for the v2 key layout (`compile .rdbV2`): the compiled store
represents the declared maps in the sense of C02's `RepMapsV2` (so the closest-key search
`findMapInSortedData` computes `Spec.mapFor`), and holds the range points of every map (`RdbRep`),
hence `FindLocation` on it equals `Spec.locate` on the declared zone. Uses `Proofs/PipelineLoc.lean`
(v1 layouts, the shared assembly) and `Proofs/RevOrder.lean` (C02).
-/
import DnsVerif.Proofs.PipelineLoc
import DnsVerif.Proofs.RevOrder

namespace DnsVerif.PipelineLocV2
open DnsVerif DnsVerif.Net DnsVerif.Codec DnsVerif.Name DnsVerif.Pipeline DnsVerif.Loc DnsVerif.Rearr
open DnsVerif.Spec DnsVerif.PipelineProofs DnsVerif.PipelineLoc

/-! ### names: `putreverseddom` on short labels (as in `Proofs/PipelineV2.lean`, repeated here to keep
this file independent of the resource-record part of the v2 pipeline) -/

/-- every dot-separated label of the lower-cased domain text is shorter than 256 bytes -/
def DomShort (d : Bytes) : Prop := ∀ s ∈ splitDots (toLower d), s.length < 256

instance (d : Bytes) : Decidable (DomShort d) := by unfold DomShort; infer_instance

theorem flatMap_putLabelRev : ∀ (L : List Bytes), (∀ s ∈ L, s.length < 256) →
    L.flatMap putLabelRev =
      (L.filterMap fun s => if s.length % 256 = 0 then none else some (s.take (s.length % 256))).flatMap
        (fun l => UInt8.ofNat l.length :: l)
  | [], _ => rfl
  | s :: L, h => by
    have hs : s.length < 256 := h s (by simp)
    have hm : s.length % 256 = s.length := Nat.mod_eq_of_lt hs
    rw [List.flatMap_cons, flatMap_putLabelRev L (fun x hx => h x (List.mem_cons_of_mem _ hx)),
      List.filterMap_cons]
    unfold putLabelRev
    by_cases h0 : s.length % 256 = 0
    · simp [h0]
    · have h0' : ¬ s.length = 0 := by rwa [hm] at h0
      simp [hm, h0']

theorem putreverseddom_eq (d : Bytes) (h : ∀ s ∈ splitDots d, s.length < 256) :
    putreverseddom d = pack (domLabels d).reverse := by
  unfold putreverseddom pack domLabels
  rw [flatMap_putLabelRev _ (fun s hs => h s (List.mem_reverse.1 hs)), List.filterMap_reverse]

theorem labelsOK_nameOK {ls : List Bytes} (h : LabelsOK ls) : RevOrder.NameOK ls := by
  intro l hl
  have := h l hl
  exact ⟨List.length_pos_iff.2 this.1, this.2⟩

/-! ### A. the output of one line under the v2 key layout -/

/-- a resource-record key of the v2 layout: under the marker `\\000o` -/
def V2RR (kv : KV) : Prop := ∃ rest, kv.1 = 0 :: 111 :: rest

/-- v2 map key -/
def mapKeyV2 (ecs : Bool) (owner : List Bytes) (wild : Bool) : Bytes :=
  Lpm.mtypeOf ecs ++ pack owner.reverse ++ [if wild then 0x2a else 0x3d]

/-- a map pair of the v2 layout -/
def V2Map (kv : KV) : Prop :=
  ∃ ecs owner wild, LabelsOK owner ∧ kv.1 = mapKeyV2 ecs owner wild ∧ kv.2.length = 2

theorem v2rr_dk (cfg : Cfg) (hv : cfg.useV2Keys = true) (dom : Bytes) (lo : Option Bytes) (v : Bytes) :
    V2RR (domainKey cfg dom lo, v) := by
  unfold domainKey
  rw [hv]
  exact ⟨_, rfl⟩

theorem v2rr_addr (cfg : Cfg) (hv : cfg.useV2Keys = true) (dom : Bytes) (wild : Bool)
    (ip : Option (List UInt8)) (ttl : Nat) (lo : Option Bytes) (w : Nat) :
    ∀ kv ∈ addrRecord cfg dom wild ip ttl lo w, V2RR kv := by
  intro kv hkv
  unfold addrRecord at hkv
  cases ip with
  | none => cases hkv
  | some ip =>
    simp only [] at hkv
    split at hkv <;> (rw [List.mem_singleton] at hkv; subst hkv; exact v2rr_dk cfg hv _ _ _)

macro "v2_case " h:ident cfg:ident hv:ident : tactic =>
  `(tactic| (cl_open $h:ident
             repeat' split at $h:ident
             all_goals first
               | (cases $h:ident
                  simp only [List.forall_mem_append, List.forall_mem_singleton, List.forall_mem_cons,
                    List.append_assoc]
                  repeat' apply And.intro
                  all_goals first
                    | exact v2rr_dk $cfg $hv _ _ _
                    | exact v2rr_addr $cfg $hv _ _ _ _ _ _)
               | cases $h:ident))

theorem convertLine_v2rr (cfg : Cfg) (hv : cfg.useV2Keys = true) (svcb : SvcbFn) (t : UInt8) (rest : Bytes)
    (lo : LineOut) (h25 : t ≠ 0x25) (hM : t ≠ 0x4d) (h8 : t ≠ 0x38)
    (h : convertLine cfg svcb (t :: rest) = .ok lo) : ∀ kv ∈ lo.kvs, V2RR kv := by
  by_cases h2 : t = 0x5a
  · subst h2; v2_case h cfg hv
  by_cases h3 : t = 0x2e
  · subst h3; v2_case h cfg hv
  by_cases h4 : t = 0x26
  · subst h4; v2_case h cfg hv
  by_cases h5 : t = 0x2b
  · subst h5; v2_case h cfg hv
  by_cases h6 : t = 0x3d
  · subst h6; v2_case h cfg hv
  by_cases h7 : t = 0x40
  · subst h7; v2_case h cfg hv
  by_cases h8' : t = 0x53
  · subst h8'; v2_case h cfg hv
  by_cases h9 : t = 0x43
  · subst h9; v2_case h cfg hv
  by_cases h10 : t = 0x5e
  · subst h10; v2_case h cfg hv
  by_cases h11 : t = 0x27
  · subst h11; v2_case h cfg hv
  by_cases h12 : t = 0x3a
  · subst h12; v2_case h cfg hv
  by_cases h15 : t = 0x42
  · subst h15; v2_case h cfg hv
  by_cases h16 : t = 0x48
  · subst h16; v2_case h cfg hv
  exfalso
  unfold convertLine at h
  simp only [if_neg h25, if_neg h2, h3, h4, false_or, if_false, if_neg h5, if_neg h6, if_neg h7, if_neg h8',
    if_neg h9, if_neg h10, if_neg h11, if_neg h12, if_neg hM, if_neg h8, h15, h16] at h
  cases h



/-! ### B. map lines; the two folds (`zoneOf`'s and `compile .rdbV2`'s) side by side -/

/-- the owner text of a map line and its wildcard flag (`*.` prefix stripped) -/
def mapDom (dom : Bytes) : Bytes × Bool :=
  match dom with
  | 0x2a :: 0x2e :: rest => (rest, true)
  | _ => (dom, false)

theorem mapDom_no {dom : Bytes} (h : ∀ r, dom = 0x2a :: 0x2e :: r → False) : mapDom dom = (dom, false) := by
  unfold mapDom
  split
  · rename_i r
    exact absurd rfl (h r)
  · rfl

theorem mapKey_eq (cfg : Cfg) (mapID dom : Bytes) :
    mapKey cfg mapID dom =
      mapID ++ (if cfg.useV2Keys then putreverseddom (toLower (mapDom dom).1) else putdom (toLower (mapDom dom).1))
        ++ [if (mapDom dom).2 then 0x2a else 0x3d] := by
  unfold mapKey
  split
  rename_i d sfx heq
  split at heq
  · cases heq; rfl
  · rename_i hno
    cases heq
    rw [mapDom_no hno]
    rfl

/-- the owner of a map line has labels shorter than 256 bytes (forced for the v2 layout:
`putreverseddom` writes an over-long label whole, after a truncated length byte) -/
def MapLineV2OK (text : Bytes) : Prop :=
  match text with
  | [] => True
  | t :: _ => (t = 0x4d ∨ t = 0x38) → DomShort (mapDom (unq (fld (fields text) 0))).1

instance (text : Bytes) : Decidable (MapLineV2OK text) := by
  unfold MapLineV2OK
  cases text <;> simp only [] <;> infer_instance

def MapLinesV2OK (lines : List Bytes) : Prop :=
  ∀ raw ∈ lines, match filterLine raw with
    | none => True
    | some l => MapLineV2OK l

instance (lines : List Bytes) : Decidable (MapLinesV2OK lines) := by
  unfold MapLinesV2OK
  have : ∀ raw : Bytes, Decidable (match filterLine raw with | none => True | some l => MapLineV2OK l) := by
    intro raw
    cases filterLine raw <;> simp only [] <;> infer_instance
  infer_instance

/-- the configuration of `compile .rdbV2` -/
abbrev cfg2 (s : Nat) : Cfg := ⟨s, true, true, true⟩

/-- the two pairs of one map line -/
theorem map_line_pairs (s : Nat) (svcb : SvcbFn) (ecs : Bool) (rest : Bytes) (lo1 lo2 : LineOut)
    (hok : MapLineV2OK ((if ecs then 0x38 else 0x4d) :: rest))
    (h1 : convertLine (cfgZ s) (fun _ => none) ((if ecs then 0x38 else 0x4d) :: rest) = .ok lo1)
    (h2 : convertLine (cfg2 s) svcb ((if ecs then 0x38 else 0x4d) :: rest) = .ok lo2) :
    lo1.subnet = none ∧ lo2.subnet = none ∧
    ∃ o w v, LabelsOK o ∧ v.length = 2 ∧ lo1.kvs = [(Lpm.mapKeyOf ecs o w, v)] ∧
      lo2.kvs = [(mapKeyV2 ecs o w, v)] := by
  obtain ⟨s1, k1⟩ := convertLine_map _ _ ecs rest lo1 h1
  obtain ⟨s2, k2⟩ := convertLine_map _ _ ecs rest lo2 h2
  have hd : DomShort (mapDom (unq (fld (fields ((if ecs then 0x38 else 0x4d) :: rest)) 0))).1 := by
    apply hok
    cases ecs
    · exact Or.inl rfl
    · exact Or.inr rfl
  refine ⟨s1, s2, domLabels (toLower (mapDom (unq (fld (fields ((if ecs then 0x38 else 0x4d) :: rest)) 0))).1),
    (mapDom (unq (fld (fields ((if ecs then 0x38 else 0x4d) :: rest)) 0))).2,
    getlmap (fld (fields ((if ecs then 0x38 else 0x4d) :: rest)) 1), domLabels_ok _,
    getlmap_length _, ?_, ?_⟩
  · rw [k1, mapKey_eq]
    show [(Lpm.mtypeOf ecs ++ putdom _ ++ _, _)] = _
    rw [putdom_eq_pack]
    rfl
  · rw [k2, mapKey_eq]
    show [(Lpm.mtypeOf ecs ++ putreverseddom _ ++ _, _)] = _
    rw [putreverseddom_eq _ hd]
    rfl

/-- one line under `zoneOf`'s configuration and under `compile .rdbV2`'s -/
theorem line_rel2 (s : Nat) (svcb : SvcbFn) (l : Bytes) (lo1 lo2 : LineOut) (hok : MapLineV2OK l)
    (h1 : convertLine (cfgZ s) (fun _ => none) l = .ok lo1)
    (h2 : convertLine (cfg2 s) svcb l = .ok lo2) :
    lo1.subnet = lo2.subnet ∧
    ((lo1.kvs = [] ∧ lo2.kvs = []) ∨
     (∃ e o w v, LabelsOK o ∧ v.length = 2 ∧ lo1.kvs = [(Lpm.mapKeyOf e o w, v)] ∧
        lo2.kvs = [(mapKeyV2 e o w, v)]) ∨
     ((∀ kv ∈ lo1.kvs, RRKeyShaped kv) ∧ ∀ kv ∈ lo2.kvs, V2RR kv)) := by
  match l, hok, h1, h2 with
  | [], _, h1, _ => cases h1
  | t :: rest, hok, h1, h2 =>
    by_cases h25 : t = 0x25
    · subst h25
      obtain ⟨sub, hp, hs1, _, hk1⟩ := convertLine_pct_full _ _ rest lo1 h1
      obtain ⟨sub', hp', hs2, _, hk2⟩ := convertLine_pct_full _ _ rest lo2 h2
      rw [hp] at hp'
      cases hp'
      exact ⟨by rw [hs1, hs2], Or.inl ⟨by rw [hk1]; rfl, by rw [hk2]; rfl⟩⟩
    by_cases hM : t = 0x4d
    · subst hM
      obtain ⟨s1, s2, o, w, v, ho, hv, k1, k2⟩ := map_line_pairs s svcb false rest lo1 lo2 hok h1 h2
      exact ⟨by rw [s1, s2], Or.inr (Or.inl ⟨false, o, w, v, ho, hv, k1, k2⟩)⟩
    by_cases h8 : t = 0x38
    · subst h8
      obtain ⟨s1, s2, o, w, v, ho, hv, k1, k2⟩ := map_line_pairs s svcb true rest lo1 lo2 hok h1 h2
      exact ⟨by rw [s1, s2], Or.inr (Or.inl ⟨true, o, w, v, ho, hv, k1, k2⟩)⟩
    refine ⟨?_, Or.inr (Or.inr ⟨convertLine_rrKeyShaped _ rfl _ t rest lo1 h25 hM h8 h1,
      convertLine_v2rr _ rfl svcb t rest lo2 h25 hM h8 h2⟩)⟩
    rw [convertLine_subnet_none _ _ t rest lo1 h25 h1, convertLine_subnet_none _ _ t rest lo2 h25 h2]

/-- two-fold induction where every line satisfies a decidable side condition -/
theorem collect_induct2' (cfg1 cfg2 : Cfg) (svcb1 svcb2 : SvcbFn) (Q : Bytes → Prop)
    (I : List KV × List Subnet → List KV × List Subnet → Prop)
    (hstep : ∀ a1 a2 l lo1 lo2, Q l → I a1 a2 → convertLine cfg1 svcb1 l = .ok lo1 →
      convertLine cfg2 svcb2 l = .ok lo2 →
      I (a1.1 ++ lo1.kvs, a1.2 ++ lo1.subnet.toList) (a2.1 ++ lo2.kvs, a2.2 ++ lo2.subnet.toList)) :
    ∀ (lines : List Bytes) (a1 a2 r1 r2 : List KV × List Subnet),
      (∀ raw ∈ lines, match filterLine raw with | none => True | some l => Q l) →
      collect cfg1 svcb1 lines a1 = some r1 → collect cfg2 svcb2 lines a2 = some r2 → I a1 a2 → I r1 r2
  | [], a1, a2, r1, r2, _, h1, h2, ha => by
    rw [collect_nil] at h1 h2
    cases h1; cases h2; exact ha
  | raw :: lines, a1, a2, r1, r2, hq, h1, h2, ha => by
    rw [collect_cons] at h1 h2
    unfold step at h1 h2
    have hq' : ∀ raw ∈ lines, match filterLine raw with | none => True | some l => Q l :=
      fun x hx => hq x (List.mem_cons_of_mem _ hx)
    have hraw := hq raw (by simp)
    cases hf : filterLine raw with
    | none =>
      rw [hf] at h1 h2
      exact collect_induct2' cfg1 cfg2 svcb1 svcb2 Q I hstep lines a1 a2 r1 r2 hq' h1 h2 ha
    | some l =>
      rw [hf] at h1 h2 hraw
      simp only [] at h1 h2 hraw
      cases hc1 : convertLine cfg1 svcb1 l with
      | error e => rw [hc1] at h1; cases h1
      | ok lo1 =>
        cases hc2 : convertLine cfg2 svcb2 l with
        | error e => rw [hc2] at h2; cases h2
        | ok lo2 =>
          rw [hc1] at h1; rw [hc2] at h2
          exact collect_induct2' cfg1 cfg2 svcb1 svcb2 Q I hstep lines _ _ r1 r2 hq' h1 h2
            (hstep a1 a2 l lo1 lo2 hraw ha hc1 hc2)

theorem mapKeyV2_inj {e e' : Bool} {o o' : List Bytes} {w w' : Bool} (ho : Lpm.WFName o)
    (ho' : Lpm.WFName o') (h : mapKeyV2 e o w = mapKeyV2 e' o' w') : e = e' ∧ o = o' ∧ w = w' := by
  unfold mapKeyV2 at h
  have h1 := List.append_inj' h rfl
  have h2 := List.append_inj h1.1 rfl
  have hr : Lpm.WFName o.reverse := fun l hl => ho l (List.mem_reverse.1 hl)
  have hr' : Lpm.WFName o'.reverse := fun l hl => ho' l (List.mem_reverse.1 hl)
  refine ⟨?_, List.reverse_inj.1 (Lpm.pack_inj_wf hr hr' h2.2), ?_⟩
  · have := h2.1
    revert this; cases e <;> cases e' <;> simp [Lpm.mtypeOf]
  · have := h1.2
    revert this; cases w <;> cases w' <;> simp

theorem v2rr_ne_mapKeyV2 {kv : KV} (h : V2RR kv) (ecs : Bool) (owner : List Bytes) (wild : Bool) :
    kv.1 ≠ mapKeyV2 ecs owner wild := by
  obtain ⟨rest, hr⟩ := h
  rw [hr]
  unfold mapKeyV2 Lpm.mtypeOf
  cases ecs <;> simp

/-- the two folds, side by side: same subnets; every v2 pair is under the marker or a map pair; under
every map key the v2 fold holds the values the v1 fold holds under the corresponding v1 map key -/
theorem collect_v2 (s : Nat) (svcb : SvcbFn) (lines : List Bytes) (hok : MapLinesV2OK lines)
    (r1 r2 : List KV × List Subnet)
    (h1 : collect (cfgZ s) (fun _ => none) lines ([], []) = some r1)
    (h2 : collect (cfg2 s) svcb lines ([], []) = some r2) :
    r1.2 = r2.2 ∧ (∀ kv ∈ r2.1, V2RR kv ∨ V2Map kv) ∧
    ∀ ecs owner wild, Lpm.WFName owner →
      (r2.1.filter fun kv => decide (kv.1 = mapKeyV2 ecs owner wild)).map (·.2) =
        (r1.1.filter fun kv => decide (kv.1 = Lpm.mapKeyOf ecs owner wild)).map (·.2) := by
  refine collect_induct2' (cfgZ s) (cfg2 s) _ svcb MapLineV2OK
    (fun a1 a2 => a1.2 = a2.2 ∧ (∀ kv ∈ a2.1, V2RR kv ∨ V2Map kv) ∧
      ∀ ecs owner wild, Lpm.WFName owner →
        (a2.1.filter fun kv => decide (kv.1 = mapKeyV2 ecs owner wild)).map (·.2) =
          (a1.1.filter fun kv => decide (kv.1 = Lpm.mapKeyOf ecs owner wild)).map (·.2)) ?_
    lines _ _ r1 r2 hok h1 h2 ⟨rfl, by simp, fun _ _ _ _ => rfl⟩
  intro a1 a2 l lo1 lo2 hq ⟨hs, hsh, hf⟩ hc1 hc2
  obtain ⟨hsub, hk⟩ := line_rel2 s svcb l lo1 lo2 hq hc1 hc2
  refine ⟨by show a1.2 ++ _ = a2.2 ++ _; rw [hs, hsub], ?_, ?_⟩
  · intro kv hkv
    simp only [List.mem_append] at hkv
    rcases hkv with hkv | hkv
    · exact hsh kv hkv
    · rcases hk with ⟨_, k2⟩ | ⟨e, o, w, v, ho, hv, _, k2⟩ | ⟨_, k2⟩
      · rw [k2] at hkv; cases hkv
      · rw [k2, List.mem_singleton] at hkv
        subst hkv
        exact Or.inr ⟨e, o, w, ho, rfl, hv⟩
      · exact Or.inl (k2 kv hkv)
  · intro ecs owner wild ho
    simp only [List.filter_append, List.map_append]
    rw [hf ecs owner wild ho]
    congr 1
    rcases hk with ⟨k1, k2⟩ | ⟨e, o, w, v, hlo, hv, k1, k2⟩ | ⟨k1, k2⟩
    · rw [k1, k2]; rfl
    · rw [k1, k2]
      by_cases hm : e = ecs ∧ o = owner ∧ w = wild
      · obtain ⟨rfl, rfl, rfl⟩ := hm
        simp
      · have hne2 : mapKeyV2 e o w ≠ mapKeyV2 ecs owner wild :=
          fun he => hm (mapKeyV2_inj (labelsOK_wf hlo) ho he)
        have hne1 : Lpm.mapKeyOf e o w ≠ Lpm.mapKeyOf ecs owner wild :=
          fun he => hm (Lpm.mapKeyOf_inj_wf (labelsOK_wf hlo) ho he)
        rw [List.filter_cons_of_neg (by simpa using hne2), List.filter_cons_of_neg (by simpa using hne1)]
        rfl
    · have e1 : lo1.kvs.filter (fun kv => decide (kv.1 = Lpm.mapKeyOf ecs owner wild)) = [] := by
        rw [List.filter_eq_nil_iff]
        intro kv hkv
        obtain ⟨l', ls, hl', _, hkk⟩ := k1 kv hkv
        have : kv.1 ≠ Lpm.mapKeyOf ecs owner wild := by rw [hkk]; exact rrKey_ne_mapKey hl' _ _ _
        simpa using this
      have e2 : lo2.kvs.filter (fun kv => decide (kv.1 = mapKeyV2 ecs owner wild)) = [] := by
        rw [List.filter_eq_nil_iff]
        intro kv hkv
        simpa using v2rr_ne_mapKeyV2 (k2 kv hkv) ecs owner wild
      rw [e1, e2]

/-! ### C. the compiled v2 store -/

/-- `compile .rdbV2` and `zoneOf` of one file, opened up -/
theorem compile_v2_open (svcb : SvcbFn) (lines : List Bytes) (store : Store) (z : Zone)
    (hc : compile .rdbV2 svcb lines = some store) (hz : zoneOf lines = some z) (hok : MapLinesV2OK lines) :
    ∃ (kvs2 kvsZ : List KV) (subs : List Subnet) (acc : List KV),
      collect (cfg2 serial) svcb lines ([], []) = some (kvs2, subs) ∧
      collect (cfgZ serial) (fun _ => none) lines ([], []) = some (kvsZ, subs) ∧
      rangePointKVs subs = some acc ∧
      store = Store.ofKVs (kvs2 ++ acc ++ [featuresKV (cfgFor .rdbV2)]) ∧
      z.maps = (kvsZ.map decodeKV).filterMap (·.2) ∧
      z.subnets = subs.map Lpm.declOf ∧
      (∀ kv ∈ kvs2, V2RR kv ∨ V2Map kv) ∧
      ∀ ecs owner wild, Lpm.WFName owner →
        (kvs2.filter fun kv => decide (kv.1 = mapKeyV2 ecs owner wild)).map (·.2) =
          (z.maps.filter fun m => m.ecs = ecs ∧ m.wild = wild ∧ m.owner = owner).map (·.mapID) := by
  rw [compile_eq] at hc
  rw [zoneOf_eq] at hz
  cases hcz : collect (cfgZ serial) (fun _ => none) lines ([], []) with
  | none => rw [hcz] at hz; cases hz
  | some rz =>
    rw [hcz] at hz
    simp only [Option.map_some, Option.some.injEq] at hz
    have hcfg : cfgFor .rdbV2 = cfg2 serial := rfl
    cases hcc : collect (cfgFor .rdbV2) svcb lines ([], []) with
    | none => rw [hcc] at hc; cases hc
    | some rc =>
      rw [hcc] at hc
      obtain ⟨kvsC, subsC⟩ := rc
      obtain ⟨kvsZ, subsZ⟩ := rz
      simp only [] at hc
      rw [hcfg] at hcc
      obtain ⟨hsub, hshape, hfil⟩ := collect_v2 serial svcb lines hok _ _ hcz hcc
      simp only [] at hsub hshape hfil
      subst hsub
      cases hr : rangePointKVs subsZ with
      | none => rw [hr] at hc; cases hc
      | some acc =>
        rw [hr] at hc
        simp only [Option.map_some, Option.some.injEq] at hc
        refine ⟨kvsC, kvsZ, subsZ, acc, hcc, rfl, hr, hc.symm, by rw [← hz], by rw [← hz]; rfl, hshape, ?_⟩
        intro ecs owner wild ho
        rw [hfil ecs owner wild ho, ← hz]
        exact maps_of_shaped ecs owner wild ho kvsZ (collectZ_keyShaped serial lines _ hcz)

/-- declared map owners are storable names -/
theorem zone_map_owners (lines : List Bytes) (z : Zone) (hz : zoneOf lines = some z) :
    ∀ d ∈ z.maps, Lpm.WFName d.owner := by
  rw [zoneOf_eq] at hz
  cases hcz : collect (cfgZ serial) (fun _ => none) lines ([], []) with
  | none => rw [hcz] at hz; cases hz
  | some rz =>
    rw [hcz] at hz
    simp only [Option.map_some, Option.some.injEq] at hz
    obtain ⟨kvsZ, subs⟩ := rz
    subst hz
    intro d hd
    simp only [] at hd
    rw [List.mem_filterMap] at hd
    obtain ⟨x, hx, hxd⟩ := hd
    obtain ⟨kv, hkv, rfl⟩ := List.mem_map.1 hx
    rcases collectZ_keyShaped serial lines _ hcz kv hkv with h | ⟨e, o, w, ho, hk, hv⟩
    · rw [decodeKV_rrKey h] at hxd; cases hxd
    · obtain ⟨k, v⟩ := kv
      simp only [] at hk hv
      subst hk
      rw [decodeKV_map' e o w v ho hv] at hxd
      cases hxd
      exact labelsOK_wf ho

/-- the declared maps of one type as a function (first declared wins) -/
def mapsFn (maps : List MapDecl) (ecs : Bool) : RevOrder.Maps :=
  fun zz w => (maps.find? fun m => m.ecs = ecs ∧ m.wild = w ∧ m.owner = zz).map (·.mapID)

theorem map_of_le_one {α β : Type} (f : α → β) (l : List α) (h : l.length ≤ 1) :
    l.map f = (l.head?.map f).toList := by
  match l, h with
  | [], _ => rfl
  | [a], _ => rfl

theorem mapKeyV2_eq_K (ecs : Bool) (owner : List Bytes) (wild : Bool) :
    mapKeyV2 ecs owner wild = RevOrder.K (Lpm.mtypeOf ecs) owner.reverse [RevOrder.sfx wild] := rfl

/-- **maps, v2**: with at most one map per (type, owner, wildcard flag) the compiled v2 store
represents the declared maps in the sense of C02 (`RepMapsV2`: every key under the map type is the
key of a declared map and holds its single id) -/
theorem compile_repMapsV2 (svcb : SvcbFn) (lines : List Bytes) (store : Store) (z : Zone)
    (hc : compile .rdbV2 svcb lines = some store) (hz : zoneOf lines = some z) (hok : MapLinesV2OK lines)
    (hu : Lpm.MapsUnique z.maps) (ecs : Bool) :
    RevOrder.RepMapsV2 store (Lpm.mtypeOf ecs) (mapsFn z.maps ecs) := by
  obtain ⟨kvs2, kvsZ, subs, acc, _, _, hacc, hstore, _, _, hshape, hfil⟩ :=
    compile_v2_open svcb lines store z hc hz hok
  have hacck := rangePoint_keys subs acc hacc
  -- the values under a v2 map key
  have hget : ∀ owner wild, Lpm.WFName owner → store.get (mapKeyV2 ecs owner wild) =
      ((mapsFn z.maps ecs) owner wild).toList := by
    intro owner wild ho
    rw [hstore, store_get_kvs kvs2 acc _ _ ?_ ?_, hfil ecs owner wild ho,
      map_of_le_one _ _ (Lpm.filter_key_length_le_one hu ecs owner wild), List.head?_filter]
    · rfl
    · intro kv hkv he
      obtain ⟨rest, hrest⟩ := hacck kv hkv
      rw [he] at hrest
      unfold mapKeyV2 Lpm.mtypeOf at hrest
      cases ecs <;> simp at hrest
    · rw [featuresKey_eq]
      intro he
      unfold mapKeyV2 Lpm.mtypeOf at he
      cases ecs <;> simp at he
  constructor
  · intro e he h2
    have hnodup : store.Pairwise fun e e' => e.1 ≠ e'.1 := by rw [hstore]; exact ofKVs_nodup _
    have hval := mem_get hnodup he
    rw [hstore] at he
    obtain ⟨kv, hkv, hk⟩ := ofKVs_keys _ e he
    rw [← hk] at h2
    rcases List.mem_append.1 hkv with hkv | hkv
    · rcases List.mem_append.1 hkv with hkv | hkv
      · rcases hshape kv hkv with ⟨rest, hr⟩ | ⟨e', o, w, ho, hkk, _⟩
        · rw [hr] at h2
          unfold Lpm.mtypeOf at h2
          cases ecs <;> simp at h2
        · have hee : e' = ecs := by
            rw [hkk] at h2
            unfold mapKeyV2 Lpm.mtypeOf at h2
            revert h2
            cases e' <;> cases ecs <;> simp
          subst hee
          have hg := hget o w (labelsOK_wf ho)
          rw [← hkk, hk, hval] at hg
          -- the value list is non-empty: the key is that of a pair
          have hne : e.2 ≠ [] := by
            rw [← hval, hstore, ← hk]
            unfold Store.ofKVs
            rw [ServeRefine.get_foldl_insert]
            intro hnil
            have hmem : kv ∈ (kvs2 ++ acc ++ [featuresKV (cfgFor .rdbV2)]).filter fun x => decide (x.1 = kv.1) :=
              List.mem_filter.2 ⟨List.mem_append_left _ (List.mem_append_left _ hkv), by simp⟩
            have : (kvs2 ++ acc ++ [featuresKV (cfgFor .rdbV2)]).filter (fun x => decide (x.1 = kv.1)) = [] := by
              have := congrArg List.length hnil
              simp only [Store.get, List.find?_nil, List.nil_append, List.length_map, List.length_nil] at this
              exact List.eq_nil_of_length_eq_zero this
            rw [this] at hmem
            cases hmem
          cases hm : (mapsFn z.maps e') o w with
          | none => rw [hm] at hg; exact absurd hg hne
          | some v =>
            rw [hm] at hg
            exact ⟨o, w, v, labelsOK_nameOK ho, by rw [← hk, hkk]; rfl, hg⟩
      · obtain ⟨rest, hrest⟩ := hacck kv hkv
        rw [hrest] at h2
        unfold Lpm.mtypeOf at h2
        cases ecs <;> simp at h2
    · rw [List.mem_singleton] at hkv
      subst hkv
      rw [featuresKey_eq] at h2
      unfold Lpm.mtypeOf at h2
      cases ecs <;> simp at h2
  · intro zz w hzz
    exact hget zz w hzz

/-- **name → map, v2**: the closest-key search on the compiled v2 store is `Spec.mapFor` on the declared
maps, for every well-formed query name of at most 255 octets -/
theorem findMap_v2_file (svcb : SvcbFn) (lines : List Bytes) (store : Store) (z : Zone)
    (hc : compile .rdbV2 svcb lines = some store) (hz : zoneOf lines = some z) (hok : MapLinesV2OK lines)
    (hu : Lpm.MapsUnique z.maps) (ecs : Bool) (q : List Bytes) (hq : Lpm.WFName q)
    (hlen : (pack q).length ≤ 256) :
    findMap .rdbV2 store (pack q) (Lpm.mtypeOf ecs) = .ok (mapFor z.maps ecs q) := by
  have hqN : RevOrder.NameOK q := fun l hl => hq l hl
  have h2 := compile_repMapsV2 svcb lines store z hc hz hok hu ecs
  have hrep1 : Lpm.MapRepWF (Lpm.storeOfMaps z.maps) z.maps :=
    Lpm.mapRepWF_storeOfMaps hu (zone_map_owners lines z hz)
  have h1 : RevOrder.RepMapsV1 (Lpm.storeOfMaps z.maps) (Lpm.mtypeOf ecs) (mapsFn z.maps ecs) := by
    intro zz w hzz
    exact Lpm.first_mapKeyOf hrep1 ecs (fun l hl => hzz l hl) w
  show findMapSorted store (pack q) (Lpm.mtypeOf ecs) = _
  rw [RevOrder.findMapSorted_eq_spec h2 rfl q hqN hlen, ← RevOrder.findMapV1_eq_spec h1 q hqN,
    Lpm.findMapV1_eq_mapFor_wf hrep1 ecs q hq]

/-! ### D. range points in the v2 store -/

theorem mem_insert_ne (s : Store) (k v : Bytes) (e : Bytes × List Bytes) (h : e.1 ≠ k) :
    e ∈ s.insert k v ↔ e ∈ s := by
  unfold Store.insert
  split
  · rw [List.mem_map]
    constructor
    · rintro ⟨e', he', hf⟩
      obtain ⟨k', vs⟩ := e'
      simp only [] at hf
      split at hf
      · rename_i hk
        subst hf
        exact absurd hk h
      · subst hf
        exact he'
    · intro he
      refine ⟨e, he, ?_⟩
      obtain ⟨k', vs⟩ := e
      simp only []
      rw [if_neg h]
  · rw [List.mem_append, List.mem_singleton]
    constructor
    · rintro (he | he)
      · exact he
      · subst he
        exact absurd rfl h
    · exact Or.inl

/-- a store built from per-line pairs none of which sits under a range-point prefix, the RocksDB
accumulator output and a features pair: under `marker ++ map` exactly the range points of the map -/
theorem rdb_store_gen (kvs acc : List KV) (feat : KV) (subs : List Subnet) (hok : ∀ x ∈ subs, SubnetOK x)
    (hwf : SubnetsRdbWF (subs.map Lpm.declOf)) (hacc : rangePointKVs subs = some acc)
    (hk : ∀ kv ∈ kvs, ∀ m, kv.1.take 6 ≠ [0, 0, 0, 33] ++ m)
    (hfeat : ∀ m, feat.1.take 6 ≠ [0, 0, 0, 33] ++ m) :
    (∀ m ∈ mapIds subs, ∃ P, tableOf subs m = some P ∧ Lpm.TableWF P ∧
      Lpm.RdbRep (Store.ofKVs (kvs ++ acc ++ [feat])) m P) ∧
    (∀ m, m.length = 2 → m ∉ mapIds subs → ∀ e ∈ Store.ofKVs (kvs ++ acc ++ [feat]),
      e.1.take 6 ≠ [0, 0, 0, 33] ++ m) := by
  obtain ⟨htab, hmem, hpw⟩ := acc_rdb subs hok hwf acc hacc
  have hacc6 : ∀ kv ∈ acc, ∃ m, kv.1.take 6 = [0, 0, 0, 33] ++ m := by
    intro kv hkv
    obtain ⟨m, hm, P, hP, p, hp, rfl⟩ := hmem kv hkv
    exact ⟨m, pointKV_take6 m (htab m hm).1 p⟩
  -- the store before the features pair
  have hS0 : Store.ofKVs (kvs ++ acc) = Store.ofKVs kvs ++ acc.map fun kv => (kv.1, [kv.2]) := by
    rw [ofKVs_append, Lpm.ofKVs_fresh _ _ hpw]
    intro kv hkv e he
    obtain ⟨kv', hkv', hke⟩ := ofKVs_keys kvs e he
    obtain ⟨m, hm⟩ := hacc6 kv hkv
    intro heq
    exact hk kv' hkv' m (by rw [hke, heq]; exact hm)
  have hstore : Store.ofKVs (kvs ++ acc ++ [feat]) = (Store.ofKVs (kvs ++ acc)).insert feat.1 feat.2 := by
    rw [ofKVs_append]; rfl
  -- entries under a range-point prefix
  have hpre : ∀ e ∈ Store.ofKVs (kvs ++ acc ++ [feat]), ∀ m, m.length = 2 → e.1.take 6 = [0, 0, 0, 33] ++ m →
      m ∈ mapIds subs ∧ ∃ P, tableOf subs m = some P ∧ ∃ p ∈ P, e = ((pointKV m p).1, [(pointKV m p).2]) := by
    intro e he m hm h6
    have hne : e.1 ≠ feat.1 := fun heq => hfeat m (by rw [← heq]; exact h6)
    rw [hstore, mem_insert_ne _ _ _ _ hne, hS0] at he
    rcases List.mem_append.1 he with he | he
    · obtain ⟨kv, hkv, hke⟩ := ofKVs_keys kvs e he
      rw [← hke] at h6
      exact absurd h6 (hk kv hkv m)
    · obtain ⟨kv, hkv, rfl⟩ := List.mem_map.1 he
      obtain ⟨m', hm', P, hP, p, hp, rfl⟩ := hmem kv hkv
      have hlen' : m'.length = 2 := (htab m' hm').1
      simp only [] at h6
      rw [pointKV_take6 m' hlen' p] at h6
      have : m' = m := List.append_cancel_left h6
      subst this
      exact ⟨hm', P, hP, p, hp, rfl⟩
  refine ⟨?_, ?_⟩
  · intro m hm
    obtain ⟨hlen, P, hP, hT, hall⟩ := htab m hm
    refine ⟨P, hP, hT, ofKVs_nodup _, ?_, ?_⟩
    · intro p hp
      have hne : ((pointKV m p).1, [(pointKV m p).2]).1 ≠ feat.1 := by
        intro heq
        exact hfeat m (by rw [← heq]; exact pointKV_take6 m hlen p)
      rw [hstore, mem_insert_ne _ _ _ _ hne, hS0]
      apply List.mem_append_right
      exact List.mem_map.2 ⟨pointKV m p, hall p hp, rfl⟩
    · intro e he h6
      rw [marker_eq] at h6
      obtain ⟨_, P', hP', p, hp, rfl⟩ := hpre e he m hlen h6
      rw [hP] at hP'
      cases hP'
      exact ⟨p, hp, rfl⟩
  · intro m hm hnot e he h6
    exact hnot (hpre e he m hm h6).1

/-! ### E. assembly for the v2 layout -/

/-- well-formedness of a file for the v2 layout (decidable): map owners with labels shorter than 256
bytes, at most one map per (type, owner, wildcard flag) — the hypothesis of C02's
`findMapSorted_eq_findMapV1` — and W1 on the subnets -/
def FileWFV2 (lines : List Bytes) (z : Zone) : Prop :=
  MapLinesV2OK lines ∧ Lpm.MapsUnique z.maps ∧ SubnetsRdbWF z.subnets

instance (maps : List MapDecl) : Decidable (Lpm.MapsUnique maps) := by unfold Lpm.MapsUnique; infer_instance

instance (lines : List Bytes) (z : Zone) : Decidable (FileWFV2 lines z) := by unfold FileWFV2; infer_instance

theorem v2_take6 {kv : KV} (h : V2RR kv ∨ V2Map kv) (m : Bytes) : kv.1.take 6 ≠ [0, 0, 0, 33] ++ m := by
  intro he
  rcases h with ⟨rest, hr⟩ | ⟨e, o, w, _, hk, _⟩
  · rw [hr] at he
    simp at he
  · rw [hk] at he
    unfold mapKeyV2 Lpm.mtypeOf at he
    cases e <;> simp at he

/-- **RocksDB, v2 keys**: `GetLocationByMap` on the compiled v2 store is `Spec.lpm` on the declared
subnets -/
theorem getLocationRdb_v2_file (svcb : SvcbFn) (lines : List Bytes) (store : Store) (z : Zone)
    (hc : compile .rdbV2 svcb lines = some store) (hz : zoneOf lines = some z) (hok : MapLinesV2OK lines)
    (hwf : SubnetsRdbWF z.subnets) (m : Bytes) (hm : m.length = 2) (c : ClientNet)
    (h16 : (maskedClientIP c).length = 16)
    (hal : ipToNat (maskedClientIP c) % 2 ^ (128 - Lpm.reqOf c) = 0) :
    getLocationRdb store c m =
      .ok (Lpm.lpmRes z.subnets m (ipToNat (maskedClientIP c)) (Lpm.reqOf c)) := by
  obtain ⟨kvs2, kvsZ, subs, acc, hcc, _, hacc, hstore, _, hsubs, hshape, _⟩ :=
    compile_v2_open svcb lines store z hc hz hok
  have hsok : ∀ x ∈ subs, SubnetOK x := fun x hx => (collect_subnetOK _ svcb lines _ hcc x hx).1
  have hwf' : SubnetsRdbWF (subs.map Lpm.declOf) := by rw [← hsubs]; exact hwf
  obtain ⟨htab, hnone⟩ := rdb_store_gen kvs2 acc (featuresKV (cfgFor .rdbV2)) subs hsok hwf' hacc
    (fun kv hkv m => v2_take6 (hshape kv hkv) m)
    (fun m => by rw [featuresKey_eq]; simp)
  rw [← hstore] at htab hnone
  exact getLocationRdb_rep store z subs hsubs hsok hwf' htab hnone m hm c h16 hal

/-- the compiled v2 store of a well-formed file represents the declared zone -/
theorem locRep_v2_file (svcb : SvcbFn) (lines : List Bytes) (store : Store) (z : Zone)
    (hc : compile .rdbV2 svcb lines = some store) (hz : zoneOf lines = some z) (hwf : FileWFV2 lines z)
    (q : List Bytes) (hq : Lpm.WFName q) (hlen : (pack q).length ≤ 256) : LocRep .rdbV2 store z q := by
  obtain ⟨hok, hu, hs⟩ := hwf
  refine ⟨fun ecs => findMap_v2_file svcb lines store z hc hz hok hu ecs q hq hlen, ?_⟩
  intro m c hm hreg
  obtain ⟨h16, hal⟩ := Lpm.client_aligned c hreg.len16 hreg.valid hreg.reg
  show getLocationRdb store c m = _
  rw [getLocationRdb_v2_file svcb lines store z hc hz hok hs m hm c h16 hal, lpmRes_client z.subnets m hreg]

/-- **file_located_as_declared, v2 key layout** -/
theorem findLocationTop_v2_file (svcb : SvcbFn) (lines : List Bytes) (store : Store) (z : Zone)
    (hc : compile .rdbV2 svcb lines = some store) (hz : zoneOf lines = some z) (hwf : FileWFV2 lines z)
    (hids : LocIdsOK z) (q : List Bytes) (hq : Lpm.WFName q) (hlen : (pack q).length ≤ 256)
    (ecs : Option Ecs) (he : ∀ e, ecs = some e → EcsRegular e)
    (resolver : List UInt8) (hr : resolver.length = 16) :
    ∃ loc, findLocationTop .rdbV2 store (pack q) ecs resolver =
        .ok ((locate z q (clientOfQuery resolver ecs)).scope, loc) ∧
      loc.locID = (locate z q (clientOfQuery resolver ecs)).loc :=
  findLocationTop_rep lines hz (locRep_v2_file svcb lines store z hc hz hwf q hq hlen) hids ecs he resolver hr

end DnsVerif.PipelineLocV2
