/-
The pipeline theorem for C01: the store `Pipeline.compile` builds from a data file under a v1 key
layout (CDB in either bitmap mode, RocksDB v1) holds, under every admissible location tag, exactly
the rows of the records `Pipeline.zoneOf` declares for the same file — `RepresentsAt`, the
hypothesis of the refinement theorem `serve_v1_full` (`Proofs/ServeRefine.lean`).

Structure:
* names: `unpack ∘ pack = id` on storable labels, `putdom d = pack (domLabels d)`;
* `decodeKV` on the pair `rrPair r` of a record is `r` (the key round trip; the row round trip is
  `extractRR_rowOfRec`);
* codec shape: every pair `convertLine` emits (v1 keys) is `rrPair r` for an emittable record, a map
  pair, or a legacy `%` pair — proved for every line type from the definition in `Model/Codec.lean`;
* the two folds (`compile`, `zoneOf`) differ by legacy `%` pairs only;
* the accumulator and features keys are no resource-record keys.
-/
import DnsVerif.Proofs.ServeRefine
import DnsVerif.Model.Pipeline

namespace DnsVerif.PipelineProofs
open DnsVerif DnsVerif.Net DnsVerif.Codec DnsVerif.Serve DnsVerif.Name DnsVerif.ServeRefine
open DnsVerif.Pipeline DnsVerif.Loc DnsVerif.Rearr DnsVerif.Spec

/-! ### names -/

/-- labels a packed name can hold: non-empty, one length byte -/
def LabelsOK (ls : List Bytes) : Prop := ∀ lab ∈ ls, lab ≠ [] ∧ lab.length < 256

theorem nameOK_labelsOK {ls : List Bytes} (h : NameOK ls) : LabelsOK ls := by
  intro lab hl
  have := h.1 lab hl
  exact ⟨this.1, by have := this.2.1; omega⟩

theorem labels_pack : ∀ (ls : List Bytes), LabelsOK ls → ∀ fuel, ls.length < fuel →
    labels fuel (pack ls) = some ls
  | [], _, fuel, hf => by
    match fuel, hf with
    | f + 1, _ => simp [labels, pack]
  | lab :: rest, h, fuel, hf => by
    match fuel, hf with
    | f + 1, hf =>
      have hlab := h lab (by simp)
      have hn : (UInt8.ofNat lab.length).toNat = lab.length := toNat_ofNat_lt _ hlab.2
      have hne : UInt8.ofNat lab.length ≠ 0 := by
        intro h0
        have : (UInt8.ofNat lab.length).toNat = 0 := by rw [h0]; rfl
        rw [hn] at this
        exact hlab.1 (List.length_eq_zero_iff.mp this)
      rw [pack_cons]
      unfold labels
      rw [if_neg hne, hn, if_neg (by simp), List.drop_left, List.take_left,
        labels_pack rest (fun x hx => h x (List.mem_cons_of_mem _ hx)) f
          (by simp only [List.length_cons] at hf; omega)]

theorem unpack_pack (ls : List Bytes) (h : LabelsOK ls) : unpack (pack ls) = some ls :=
  labels_pack ls h _ (Nat.lt_succ_of_lt (length_lt_pack ls))

theorem pack_inj (a b : List Bytes) (ha : LabelsOK a) (hb : LabelsOK b) (h : pack a = pack b) : a = b := by
  have h1 := unpack_pack a ha
  rw [h, unpack_pack b hb] at h1
  exact (Option.some.inj h1).symm

/-- the labels `putdom` writes: empty (mod 256) labels skipped, the others cut to their length byte -/
def domLabels (d : Bytes) : List Bytes :=
  (splitDots d).filterMap fun s => if s.length % 256 = 0 then none else some (s.take (s.length % 256))

theorem putdom_eq_pack (d : Bytes) : putdom d = pack (domLabels d) := by
  unfold putdom pack domLabels
  congr 1
  induction splitDots d with
  | nil => rfl
  | cons s L ih =>
    rw [List.flatMap_cons, ih, List.filterMap_cons]
    unfold putLabel
    by_cases h0 : s.length % 256 = 0
    · simp [h0]
    · have hle : s.length % 256 ≤ s.length := Nat.mod_le _ _
      simp only [h0, if_false, List.flatMap_cons, List.length_take, Nat.min_eq_left hle, List.cons_append]

theorem domLabels_ok (d : Bytes) : LabelsOK (domLabels d) := by
  intro lab hl
  unfold domLabels at hl
  rw [List.mem_filterMap] at hl
  obtain ⟨s, _, hs⟩ := hl
  by_cases h0 : s.length % 256 = 0
  · simp [h0] at hs
  · simp only [h0, if_false, Option.some.injEq] at hs
    subst hs
    have hle : s.length % 256 ≤ s.length := Nat.mod_le _ _
    have hlt : s.length % 256 < 256 := Nat.mod_lt _ (by decide)
    refine ⟨?_, by rw [List.length_take, Nat.min_eq_left hle]; exact hlt⟩
    intro he
    have : (s.take (s.length % 256)).length = 0 := by rw [he]; rfl
    rw [List.length_take, Nat.min_eq_left hle] at this
    exact h0 this

/-! ### the pair of a record, and `decodeKV` on it -/

/-- the (key, value) pair of a declared record under the v1 key layout -/
def rrPair (r : Rec) : KV := (r.loc ++ pack r.owner, rowOfRec r)

/-- a record the codec can emit: field ranges (`RecOK`), storable owner labels, and no weight
outside A / AAAA (the row of another type has no weight field) -/
def EmitOK (r : Rec) : Prop :=
  RecOK r ∧ LabelsOK r.owner ∧ (¬ (r.type = 1 ∨ r.type = 28) → r.weight = 0)

/-- the resource-record reading of a pair (the branch `decodeKV` takes on every key that is not a
map key) -/
def decodeRR (k v : Bytes) : Option Rec × Option MapDecl :=
  match Name.unpack (k.drop 2) with
  | some ls =>
    match extractRR v false, extractRR v true with
    | .row r, _ => (some { owner := ls, wild := false, loc := k.take 2, type := r.qtype, ttl := r.ttl,
                           weight := r.weight, rdata := r.rdata }, none)
    | _, .row r => (some { owner := ls, wild := true, loc := k.take 2, type := r.qtype, ttl := r.ttl,
                           weight := r.weight, rdata := r.rdata }, none)
    | _, _ => (none, none)
  | none => (none, none)

/-- the keys `decodeKV` reads as map declarations -/
def IsMapKey (k : Bytes) : Prop :=
  ∃ t rest, k = 0 :: t :: rest ∧ (t = 0x4d ∨ t = 0x38) ∧ rest.length ≥ 2

theorem decodeKV_not_map (k v : Bytes) (h : ¬ IsMapKey k) : decodeKV (k, v) = decodeRR k v := by
  unfold decodeKV decodeRR
  simp only []
  split
  · rename_i t rest
    rw [if_neg (fun hc => h ⟨t, rest, rfl, hc.1, hc.2⟩)]
    rfl
  · rfl

theorem decodeKV_map (k v : Bytes) (h : IsMapKey k) : (decodeKV (k, v)).1 = none := by
  obtain ⟨t, rest, rfl, ht, hr⟩ := h
  unfold decodeKV
  simp only []
  rw [if_pos ⟨ht, hr⟩]
  split <;> rfl

theorem decodeRR_rrPair (r : Rec) (h : EmitOK r) : decodeRR (rrPair r).1 (rrPair r).2 = (some r, none) := by
  obtain ⟨hok, hlab, hw⟩ := h
  have hlen : r.loc.length = 2 := hok.2.2.1
  unfold decodeRR rrPair
  simp only []
  have hd : (r.loc ++ pack r.owner).drop 2 = pack r.owner := by rw [← hlen, List.drop_left]
  have ht : (r.loc ++ pack r.owner).take 2 = r.loc := by rw [← hlen, List.take_left]
  rw [hd, ht, unpack_pack _ hlab, extractRR_rowOfRec r hok false, extractRR_rowOfRec r hok true]
  have hf : rowFields r = ⟨r.type, r.ttl, r.weight, r.rdata⟩ := by
    unfold rowFields
    by_cases hta : r.type = 1 ∨ r.type = 28
    · rw [if_pos hta]
    · rw [if_neg hta, hw hta]
  obtain ⟨owner, wild, loc, type, ttl, weight, rdata⟩ := r
  cases wild <;> simp [hf]

/-! ### field decoders: ranges -/

/-- a location field value: absent or two bytes -/
def LocOpt (lo : Option Bytes) : Prop := ∀ l, lo = some l → l.length = 2

theorem getloc_ok {b : Bytes} {lo : Option Bytes} (h : getloc b = .ok lo) : LocOpt lo := by
  unfold getloc at h
  split at h
  · cases h
  · split at h
    · rename_i hq
      cases h
      intro l hl; cases hl; exact hq
    · cases h
      intro l hl; cases hl

theorem putloc_length (lo : Option Bytes) (h : LocOpt lo) : (putloc lo).length = 2 := by
  cases lo with
  | none => rfl
  | some l => exact h l rfl

theorem putrrhead_putloc (t ttl : Nat) (lo : Option Bytes) (wild : Bool) :
    putrrhead t ttl (if putloc lo = [0, 0] then none else some (putloc lo)) wild = putrrhead t ttl lo wild := by
  cases lo with
  | none => rfl
  | some l =>
    show putrrhead t ttl (if l = [0, 0] then none else some l) wild = _
    by_cases hl : l = [0, 0]
    · rw [if_pos hl, hl]; unfold putrrhead; simp
    · rw [if_neg hl]

theorem parseUint_go_lt (bits : Nat) : ∀ (s : Bytes) (acc r : Nat), parseUint.go bits s acc = some r →
    acc < 2 ^ bits → r < 2 ^ bits
  | [], acc, r, h, ha => by
    simp only [parseUint.go, Option.some.injEq] at h; omega
  | c :: rest, acc, r, h, ha => by
    unfold parseUint.go at h
    split at h
    · simp only [] at h
      split at h
      · rename_i hv
        exact parseUint_go_lt bits rest _ r h hv
      · cases h
    · cases h

theorem getuint_lt (bits : Nat) (b : Bytes) (dflt : Nat) (hd : dflt < 2 ^ bits) :
    getuint bits b dflt < 2 ^ bits := by
  unfold getuint
  cases hp : parseUint bits b with
  | none => exact hd
  | some r =>
    unfold parseUint at hp
    split at hp
    · cases hp
    · exact parseUint_go_lt bits b 0 r hp (Nat.pos_of_ne_zero (by simp))

theorem getuint32_lt (b : Bytes) (dflt : Nat) (hd : dflt < 4294967296) : getuint 32 b dflt < 4294967296 :=
  getuint_lt 32 b dflt hd

theorem getuint16_lt (b : Bytes) (dflt : Nat) (hd : dflt < 65536) : getuint 16 b dflt < 65536 :=
  getuint_lt 16 b dflt hd

theorem be32_bytes (a b c d : UInt8) : ∃ w, w < 4294967296 ∧ be32 w = [a, b, c, d] := by
  refine ⟨a.toNat * 16777216 + b.toNat * 65536 + c.toNat * 256 + d.toNat, ?_, ?_⟩
  · have := a.toNat_lt; have := b.toNat_lt; have := c.toNat_lt; have := d.toNat_lt
    omega
  · unfold be32
    have ha := a.toNat_lt; have hb := b.toNat_lt; have hc := c.toNat_lt; have hd := d.toNat_lt
    have e1 : (a.toNat * 16777216 + b.toNat * 65536 + c.toNat * 256 + d.toNat) / 16777216 % 256 = a.toNat := by omega
    have e2 : (a.toNat * 16777216 + b.toNat * 65536 + c.toNat * 256 + d.toNat) / 65536 % 256 = b.toNat := by omega
    have e3 : (a.toNat * 16777216 + b.toNat * 65536 + c.toNat * 256 + d.toNat) / 256 % 256 = c.toNat := by omega
    have e4 : (a.toNat * 16777216 + b.toNat * 65536 + c.toNat * 256 + d.toNat) % 256 = d.toNat := by omega
    rw [e1, e2, e3, e4]
    simp

/-! ### the shape of the codec's output (v1 keys) -/

/-- the pair is the v1 pair of an emittable record -/
def RRShaped (kv : KV) : Prop := ∃ r, EmitOK r ∧ kv = rrPair r

/-- the keys of the legacy `%` records of the CDB codec -/
def IsLegacyKey (k : Bytes) : Prop := ∃ rest, k = 0 :: 0x25 :: rest

theorem domainKey_v1 (cfg : Cfg) (hv : cfg.useV2Keys = false) (dom : Bytes) (lo : Option Bytes) :
    domainKey cfg dom lo = putloc lo ++ pack (domLabels (toLower dom)) := by
  unfold domainKey
  rw [hv]
  show putloc lo ++ putdom (toLower dom) = _
  rw [putdom_eq_pack]

/-- any `makedomainkey` / `putrrhead` pair whose body carries a weight when the type is A / AAAA -/
theorem rrShaped_mk (cfg : Cfg) (hv : cfg.useV2Keys = false) (dom : Bytes) (lo : Option Bytes)
    (hlo : LocOpt lo) (t ttl : Nat) (wild : Bool) (body : Bytes) (ht : t < 65536) (httl : ttl < 4294967296)
    (hb : (t = 1 ∨ t = 28) → ∃ w rdata, w < 4294967296 ∧ body = be32 w ++ rdata) :
    RRShaped (domainKey cfg dom lo, putrrhead t ttl lo wild ++ body) := by
  rw [domainKey_v1 cfg hv]
  by_cases hta : t = 1 ∨ t = 28
  · obtain ⟨w, rdata, hw, hbody⟩ := hb hta
    refine ⟨⟨domLabels (toLower dom), wild, putloc lo, t, ttl, w, rdata⟩,
      ⟨⟨ht, httl, putloc_length lo hlo, fun _ => hw⟩, domLabels_ok _, fun h => absurd hta h⟩, ?_⟩
    unfold rrPair rowOfRec
    simp only []
    rw [putrrhead_putloc, if_pos hta, hbody, List.append_assoc]
  · refine ⟨⟨domLabels (toLower dom), wild, putloc lo, t, ttl, 0, body⟩,
      ⟨⟨ht, httl, putloc_length lo hlo, fun h => absurd h hta⟩, domLabels_ok _, fun _ => rfl⟩, ?_⟩
    unfold rrPair rowOfRec
    simp only []
    rw [putrrhead_putloc, if_neg hta, List.append_nil]

theorem rrShaped_plain (cfg : Cfg) (hv : cfg.useV2Keys = false) (dom : Bytes) (lo : Option Bytes)
    (hlo : LocOpt lo) (t ttl : Nat) (wild : Bool) (body : Bytes) (ht : t < 65536) (httl : ttl < 4294967296)
    (hta : ¬ (t = 1 ∨ t = 28)) :
    RRShaped (domainKey cfg dom lo, putrrhead t ttl lo wild ++ body) :=
  rrShaped_mk cfg hv dom lo hlo t ttl wild body ht httl (fun h => absurd h hta)

theorem addrRecord_shaped (cfg : Cfg) (hv : cfg.useV2Keys = false) (dom : Bytes) (wild : Bool)
    (ip : Option (List UInt8)) (ttl : Nat) (lo : Option Bytes) (weight : Nat) (hlo : LocOpt lo)
    (httl : ttl < 4294967296) (hw : weight < 4294967296) :
    ∀ kv ∈ addrRecord cfg dom wild ip ttl lo weight, RRShaped kv := by
  intro kv hkv
  unfold addrRecord at hkv
  cases ip with
  | none => simp at hkv
  | some ip =>
    simp only [] at hkv
    split at hkv
    · rw [List.mem_singleton] at hkv
      rw [hkv, List.append_assoc]
      exact rrShaped_mk cfg hv dom lo hlo typeA ttl wild _ (by decide) httl (fun _ => ⟨weight, _, hw, rfl⟩)
    · rw [List.mem_singleton] at hkv
      rw [hkv, List.append_assoc]
      exact rrShaped_mk cfg hv dom lo hlo typeAAAA ttl wild _ (by decide) httl (fun _ => ⟨weight, _, hw, rfl⟩)

theorem mapKey_isMapKey (cfg : Cfg) (hv : cfg.useV2Keys = false) (t : UInt8) (ht : t = 0x4d ∨ t = 0x38)
    (dom : Bytes) : IsMapKey (mapKey cfg [0, t] dom) := by
  unfold mapKey
  rw [hv]
  split
  rename_i d sfx _
  show IsMapKey (([0, t] ++ putdom (toLower d)) ++ [sfx])
  refine ⟨t, putdom (toLower d) ++ [sfx], by simp, ht, ?_⟩
  unfold putdom
  simp

/-- `:` lines declaring an A / AAAA record carry at least the four weight bytes the server reads
(forced: a shorter row makes the server's row parser fail, see the counterexample in `Props/C01`) -/
def GenericOK (text : Bytes) : Prop :=
  text.head? = some 0x3a →
    (getuint 32 (fld (fields text) 1) 0 % 65536 = 1 ∨ getuint 32 (fld (fields text) 1) 0 % 65536 = 28) →
      4 ≤ (unq (fld (fields text) 2)).length

instance (text : Bytes) : Decidable (GenericOK text) := by unfold GenericOK; infer_instance

/-- what a pair emitted by the codec (v1 keys) can be -/
def Shaped (cfg : Cfg) (kv : KV) : Prop :=
  RRShaped kv ∨ IsMapKey kv.1 ∨ (cfg.noRnetOutput = false ∧ IsLegacyKey kv.1)

macro "cl_open " h:ident : tactic =>
  `(tactic| (unfold convertLine at $h:ident
             simp (config := {decide := true}) only [↓reduceIte] at $h:ident))

/-- `%` lines: legacy pairs only, none with `NoRnetOutput` -/
theorem convertLine_pct (cfg : Cfg) (svcb : SvcbFn) (rest : Bytes) (lo : LineOut)
    (h : convertLine cfg svcb (0x25 :: rest) = .ok lo) :
    (cfg.noRnetOutput = true → lo.kvs = []) ∧ ∀ kv ∈ lo.kvs, IsLegacyKey kv.1 := by
  cl_open h
  split at h
  · cases h
  · split at h
    · cases h
    · split at h
      · cases h
      · cases h
        refine ⟨fun hn => by simp [hn], ?_⟩
        intro kv hkv
        simp only [] at hkv
        split at hkv
        · simp at hkv
        · rw [List.mem_append] at hkv
          rcases hkv with hkv | hkv
          · split at hkv
            · rw [List.mem_singleton] at hkv; rw [hkv]; exact ⟨_, rfl⟩
            · simp at hkv
          · rw [List.mem_singleton] at hkv; rw [hkv]; exact ⟨_, rfl⟩

section Shapes
variable (cfg : Cfg) (hv : cfg.useV2Keys = false) (svcb : SvcbFn) (rest : Bytes) (lo : LineOut)
include hv

theorem shaped_Z (h : convertLine cfg svcb (0x5a :: rest) = .ok lo) : ∀ kv ∈ lo.kvs, RRShaped kv := by
  cl_open h
  split at h
  · cases h
  · rename_i hloc
    cases h
    intro kv hkv
    rw [List.mem_singleton] at hkv
    rw [hkv]
    unfold soaValue
    simp only [List.append_assoc]
    exact rrShaped_plain cfg hv _ _ (getloc_ok hloc) typeSOA _ false _ (by decide)
      (getuint32_lt _ _ (by decide)) (by decide)

theorem shaped_amp (h : convertLine cfg svcb (0x26 :: rest) = .ok lo) : ∀ kv ∈ lo.kvs, RRShaped kv := by
  cl_open h
  split at h
  · cases h
  · rename_i hloc
    cases h
    have httl := getuint32_lt (fld (fields (0x26 :: rest)) 3) Generated.dnsdata_LinkTTL (by decide)
    intro kv hkv
    rw [List.mem_append] at hkv
    rcases hkv with hkv | hkv
    · rw [List.mem_singleton] at hkv
      rw [hkv]
      exact rrShaped_plain cfg hv _ _ (getloc_ok hloc) typeNS _ false _ (by decide) httl (by decide)
    · exact addrRecord_shaped cfg hv _ _ _ _ _ _ (getloc_ok hloc) httl (by decide) kv hkv

theorem shaped_dot (h : convertLine cfg svcb (0x2e :: rest) = .ok lo) : ∀ kv ∈ lo.kvs, RRShaped kv := by
  cl_open h
  split at h
  · cases h
  · rename_i hloc
    cases h
    have httl := getuint32_lt (fld (fields (0x2e :: rest)) 3) Generated.dnsdata_LinkTTL (by decide)
    intro kv hkv
    rw [List.mem_append, List.mem_append] at hkv
    rcases hkv with (hkv | hkv) | hkv
    · rw [List.mem_singleton] at hkv
      rw [hkv]
      unfold soaValue
      simp only [List.append_assoc]
      refine rrShaped_plain cfg hv _ _ (getloc_ok hloc) typeSOA _ false _ (by decide) ?_ (by decide)
      split
      · decide
      · decide
    · rw [List.mem_singleton] at hkv
      rw [hkv]
      exact rrShaped_plain cfg hv _ _ (getloc_ok hloc) typeNS _ false _ (by decide) httl (by decide)
    · exact addrRecord_shaped cfg hv _ _ _ _ _ _ (getloc_ok hloc) httl (by decide) kv hkv

theorem shaped_plus (h : convertLine cfg svcb (0x2b :: rest) = .ok lo) : ∀ kv ∈ lo.kvs, RRShaped kv := by
  cl_open h
  split at h
  · cases h
  · rename_i hloc
    cases h
    exact addrRecord_shaped cfg hv _ _ _ _ _ _ (getloc_ok hloc) (getuint32_lt _ _ (by decide))
      (getuint32_lt _ _ (by decide))

theorem shaped_eq (h : convertLine cfg svcb (0x3d :: rest) = .ok lo) : ∀ kv ∈ lo.kvs, RRShaped kv := by
  cl_open h
  split at h
  · cases h
  · rename_i hloc
    cases h
    have httl := getuint32_lt (fld (fields (0x3d :: rest)) 2) Generated.dnsdata_LongTTL (by decide)
    intro kv hkv
    rw [List.mem_append] at hkv
    rcases hkv with hkv | hkv
    · exact addrRecord_shaped cfg hv _ _ _ _ _ _ (getloc_ok hloc) httl (by decide) kv hkv
    · rw [List.mem_singleton] at hkv
      rw [hkv]
      exact rrShaped_plain cfg hv _ _ (getloc_ok hloc) typePTR _ false _ (by decide) httl (by decide)

theorem shaped_at (h : convertLine cfg svcb (0x40 :: rest) = .ok lo) : ∀ kv ∈ lo.kvs, RRShaped kv := by
  cl_open h
  split at h
  · cases h
  · rename_i hloc
    cases h
    have httl := getuint32_lt (fld (fields (0x40 :: rest)) 4) Generated.dnsdata_LongTTL (by decide)
    intro kv hkv
    rw [List.mem_append] at hkv
    rcases hkv with hkv | hkv
    · rw [List.mem_singleton] at hkv
      rw [hkv]
      simp only [List.append_assoc]
      exact rrShaped_plain cfg hv _ _ (getloc_ok hloc) typeMX _ false _ (by decide) httl (by decide)
    · exact addrRecord_shaped cfg hv _ _ _ _ _ _ (getloc_ok hloc) httl (by decide) kv hkv

theorem shaped_S (h : convertLine cfg svcb (0x53 :: rest) = .ok lo) : ∀ kv ∈ lo.kvs, RRShaped kv := by
  cl_open h
  split at h
  · cases h
  · rename_i hloc
    cases h
    have httl := getuint32_lt (fld (fields (0x53 :: rest)) 6) Generated.dnsdata_LongTTL (by decide)
    intro kv hkv
    rw [List.mem_append] at hkv
    rcases hkv with hkv | hkv
    · rw [List.mem_singleton] at hkv
      rw [hkv]
      simp only [List.append_assoc]
      exact rrShaped_plain cfg hv _ _ (getloc_ok hloc) typeSRV _ false _ (by decide) httl (by decide)
    · exact addrRecord_shaped cfg hv _ _ _ _ _ _ (getloc_ok hloc) httl (by decide) kv hkv

theorem shaped_C (h : convertLine cfg svcb (0x43 :: rest) = .ok lo) : ∀ kv ∈ lo.kvs, RRShaped kv := by
  cl_open h
  split at h
  · cases h
  · rename_i hloc
    cases h
    intro kv hkv
    rw [List.mem_singleton] at hkv
    rw [hkv]
    exact rrShaped_plain cfg hv _ _ (getloc_ok hloc) typeCNAME _ _ _ (by decide)
      (getuint32_lt _ _ (by decide)) (by decide)

theorem shaped_caret (h : convertLine cfg svcb (0x5e :: rest) = .ok lo) : ∀ kv ∈ lo.kvs, RRShaped kv := by
  cl_open h
  split at h
  · cases h
  · rename_i hloc
    cases h
    intro kv hkv
    rw [List.mem_singleton] at hkv
    rw [hkv]
    exact rrShaped_plain cfg hv _ _ (getloc_ok hloc) typePTR _ _ _ (by decide)
      (getuint32_lt _ _ (by decide)) (by decide)

theorem shaped_txt (h : convertLine cfg svcb (0x27 :: rest) = .ok lo) : ∀ kv ∈ lo.kvs, RRShaped kv := by
  cl_open h
  split at h
  · cases h
  · rename_i hloc
    cases h
    intro kv hkv
    rw [List.mem_singleton] at hkv
    rw [hkv]
    exact rrShaped_plain cfg hv _ _ (getloc_ok hloc) typeTXT _ _ _ (by decide)
      (getuint32_lt _ _ (by decide)) (by decide)

theorem shaped_colon (hg : GenericOK (0x3a :: rest)) (h : convertLine cfg svcb (0x3a :: rest) = .ok lo) :
    ∀ kv ∈ lo.kvs, RRShaped kv := by
  cl_open h
  split at h
  · cases h
  · rename_i hloc
    cases h
    intro kv hkv
    rw [List.mem_singleton] at hkv
    rw [hkv]
    refine rrShaped_mk cfg hv _ _ (getloc_ok hloc) _ _ false _ (Nat.mod_lt _ (by decide))
      (getuint32_lt _ _ (by decide)) ?_
    intro hta
    have hlen := hg rfl hta
    match hb : unq (fld (fields (0x3a :: rest)) 2), hlen with
    | a :: b :: c :: d :: rdata, _ =>
      obtain ⟨w, hw, he⟩ := be32_bytes a b c d
      exact ⟨w, rdata, hw, by rw [he]; rfl⟩

theorem shaped_M (h : convertLine cfg svcb (0x4d :: rest) = .ok lo) : ∀ kv ∈ lo.kvs, IsMapKey kv.1 := by
  cl_open h
  cases h
  intro kv hkv
  rw [List.mem_singleton] at hkv
  rw [hkv]
  exact mapKey_isMapKey cfg hv 0x4d (Or.inl rfl) _

theorem shaped_8 (h : convertLine cfg svcb (0x38 :: rest) = .ok lo) : ∀ kv ∈ lo.kvs, IsMapKey kv.1 := by
  cl_open h
  cases h
  intro kv hkv
  rw [List.mem_singleton] at hkv
  rw [hkv]
  exact mapKey_isMapKey cfg hv 0x38 (Or.inr rfl) _

theorem shaped_B (h : convertLine cfg svcb (0x42 :: rest) = .ok lo) : ∀ kv ∈ lo.kvs, RRShaped kv := by
  cl_open h
  split at h
  · cases h
  · rename_i hloc
    split at h
    · cases h
    · cases h
      intro kv hkv
      rw [List.mem_singleton] at hkv
      rw [hkv]
      simp only [List.append_assoc]
      exact rrShaped_plain cfg hv _ _ (getloc_ok hloc) typeSVCB _ _ _ (by decide)
        (getuint32_lt _ _ (by decide)) (by decide)

theorem shaped_H (h : convertLine cfg svcb (0x48 :: rest) = .ok lo) : ∀ kv ∈ lo.kvs, RRShaped kv := by
  cl_open h
  split at h
  · cases h
  · rename_i hloc
    split at h
    · cases h
    · cases h
      intro kv hkv
      rw [List.mem_singleton] at hkv
      rw [hkv]
      simp only [List.append_assoc]
      exact rrShaped_plain cfg hv _ _ (getloc_ok hloc) typeHTTPS _ _ _ (by decide)
        (getuint32_lt _ _ (by decide)) (by decide)

end Shapes

/-- **Codec shape** (all sixteen line types `% Z . & + = @ S C ^ ' : M 8 B H`): under the v1 key layout
every pair `convertLine` emits is the pair `rrPair r` of an emittable record, a map pair, or (CDB
codec only) a legacy `%` pair. -/
theorem convertLine_shaped (cfg : Cfg) (hv : cfg.useV2Keys = false) (svcb : SvcbFn) (text : Bytes)
    (lo : LineOut) (hg : GenericOK text) (h : convertLine cfg svcb text = .ok lo) :
    ∀ kv ∈ lo.kvs, Shaped cfg kv := by
  match text, hg, h with
  | [], _, h => cases h
  | t :: rest, hg, h =>
    intro kv hkv
    by_cases h1 : t = 0x25
    · subst h1
      have := convertLine_pct cfg svcb rest lo h
      cases hn : cfg.noRnetOutput with
      | true => rw [this.1 hn] at hkv; cases hkv
      | false => exact Or.inr (Or.inr ⟨hn, this.2 kv hkv⟩)
    by_cases h2 : t = 0x5a
    · subst h2; exact Or.inl (shaped_Z cfg hv svcb rest lo h kv hkv)
    by_cases h3 : t = 0x2e
    · subst h3; exact Or.inl (shaped_dot cfg hv svcb rest lo h kv hkv)
    by_cases h4 : t = 0x26
    · subst h4; exact Or.inl (shaped_amp cfg hv svcb rest lo h kv hkv)
    by_cases h5 : t = 0x2b
    · subst h5; exact Or.inl (shaped_plus cfg hv svcb rest lo h kv hkv)
    by_cases h6 : t = 0x3d
    · subst h6; exact Or.inl (shaped_eq cfg hv svcb rest lo h kv hkv)
    by_cases h7 : t = 0x40
    · subst h7; exact Or.inl (shaped_at cfg hv svcb rest lo h kv hkv)
    by_cases h8 : t = 0x53
    · subst h8; exact Or.inl (shaped_S cfg hv svcb rest lo h kv hkv)
    by_cases h9 : t = 0x43
    · subst h9; exact Or.inl (shaped_C cfg hv svcb rest lo h kv hkv)
    by_cases h10 : t = 0x5e
    · subst h10; exact Or.inl (shaped_caret cfg hv svcb rest lo h kv hkv)
    by_cases h11 : t = 0x27
    · subst h11; exact Or.inl (shaped_txt cfg hv svcb rest lo h kv hkv)
    by_cases h12 : t = 0x3a
    · subst h12; exact Or.inl (shaped_colon cfg hv svcb rest lo hg h kv hkv)
    by_cases h13 : t = 0x4d
    · subst h13; exact Or.inr (Or.inl (shaped_M cfg hv svcb rest lo h kv hkv))
    by_cases h14 : t = 0x38
    · subst h14; exact Or.inr (Or.inl (shaped_8 cfg hv svcb rest lo h kv hkv))
    by_cases h15 : t = 0x42
    · subst h15; exact Or.inl (shaped_B cfg hv svcb rest lo h kv hkv)
    by_cases h16 : t = 0x48
    · subst h16; exact Or.inl (shaped_H cfg hv svcb rest lo h kv hkv)
    exfalso
    unfold convertLine at h
    simp only [if_neg h1, if_neg h2, h3, h4, false_or, if_false, if_neg h5, if_neg h6, if_neg h7, if_neg h8,
      if_neg h9, if_neg h10, if_neg h11, if_neg h12, if_neg h13, if_neg h14, h15, h16] at h
    cases h

/-! ### the two codec configurations differ by legacy `%` pairs only -/

/-- the configuration `zoneOf` uses -/
def cfgZ (s : Nat) : Cfg := { serial := s, noRnetOutput := true }

theorem convertLine_BH_none (cfg : Cfg) (t : UInt8) (ht : t = 0x42 ∨ t = 0x48) (rest : Bytes) (lo : LineOut) :
    convertLine cfg (fun _ => none) (t :: rest) ≠ .ok lo := by
  intro h
  rcases ht with rfl | rfl
  · cl_open h
    split at h
    · cases h
    · cases h
  · cl_open h
    split at h
    · cases h
    · cases h

theorem convertLine_cfg_indep (s : Nat) (n r : Bool) (svcb : SvcbFn) (t : UInt8) (rest : Bytes)
    (h25 : t ≠ 0x25) (hBH : ¬ (t = 0x42 ∨ t = 0x48)) :
    convertLine ⟨s, false, n, r⟩ svcb (t :: rest) = convertLine (cfgZ s) (fun _ => none) (t :: rest) := by
  unfold convertLine
  simp only [if_neg h25, if_neg hBH]
  rfl

theorem convertLine_rel (s : Nat) (n r : Bool) (svcb : SvcbFn) (text : Bytes) (lo1 lo2 : LineOut)
    (h1 : convertLine ⟨s, false, n, r⟩ svcb text = .ok lo1)
    (h2 : convertLine (cfgZ s) (fun _ => none) text = .ok lo2) :
    ∃ extra, lo1.kvs = extra ++ lo2.kvs ∧ ∀ kv ∈ extra, IsLegacyKey kv.1 := by
  match text, h1, h2 with
  | [], h1, _ => cases h1
  | t :: rest, h1, h2 =>
    by_cases h25 : t = 0x25
    · subst h25
      have a1 := convertLine_pct _ svcb rest lo1 h1
      have a2 := convertLine_pct _ _ rest lo2 h2
      exact ⟨lo1.kvs, by rw [a2.1 rfl, List.append_nil], a1.2⟩
    · by_cases hBH : t = 0x42 ∨ t = 0x48
      · exact absurd h2 (convertLine_BH_none _ t hBH rest lo2)
      · rw [convertLine_cfg_indep s n r svcb t rest h25 hBH, h2] at h1
        cases h1
        exact ⟨[], rfl, by simp⟩

/-! ### the fold over the lines -/

/-- one line of the fold shared by `compile` and `zoneOf` -/
def step (cfg : Cfg) (svcb : SvcbFn) (acc : List KV × List Subnet) (raw : Bytes) :
    Option (List KV × List Subnet) :=
  match filterLine raw with
  | none => some acc
  | some l =>
    match convertLine cfg svcb l with
    | .error _ => none
    | .ok lo => some (acc.1 ++ lo.kvs, acc.2 ++ lo.subnet.toList)

def collect (cfg : Cfg) (svcb : SvcbFn) (lines : List Bytes) (acc : List KV × List Subnet) :
    Option (List KV × List Subnet) :=
  lines.foldlM (step cfg svcb) acc

theorem collect_nil (cfg : Cfg) (svcb : SvcbFn) (acc : List KV × List Subnet) :
    collect cfg svcb [] acc = some acc := rfl

theorem collect_cons (cfg : Cfg) (svcb : SvcbFn) (raw : Bytes) (lines : List Bytes)
    (acc : List KV × List Subnet) :
    collect cfg svcb (raw :: lines) acc = (step cfg svcb acc raw).bind (collect cfg svcb lines) := by
  unfold collect
  rw [List.foldlM_cons]
  rfl

theorem compile_eq (b : Backend) (svcb : SvcbFn) (lines : List Bytes) :
    compile b svcb lines =
      match collect (cfgFor b) svcb lines ([], []) with
      | none => none
      | some (kvs, subs) =>
        (match b with
          | .cdb _ => some (prefixSetKVs subs)
          | _ => rangePointKVs subs).map fun a => Store.ofKVs (kvs ++ a ++ [featuresKV (cfgFor b)]) := rfl

theorem zoneOf_eq (lines : List Bytes) :
    zoneOf lines =
      (collect (cfgZ serial) (fun _ => none) lines ([], [])).map fun (kvs, subs) =>
        { recs := (kvs.map decodeKV).filterMap (·.1), maps := (kvs.map decodeKV).filterMap (·.2),
          subnets := subs.map fun s => { mapID := s.lmap, net := ipToNat s.ip, ones := s.ones,
                                         loc := s.lo.getD [0, 0] } } := rfl

/-- the file's `:` lines are `GenericOK` (decidable; see `GenericOK`) -/
def LinesOK (lines : List Bytes) : Prop :=
  ∀ raw ∈ lines, match filterLine raw with
    | none => True
    | some l => GenericOK l

instance (lines : List Bytes) : Decidable (LinesOK lines) := by
  unfold LinesOK
  have : ∀ raw : Bytes, Decidable (match filterLine raw with | none => True | some l => GenericOK l) := by
    intro raw
    cases filterLine raw <;> simp only [] <;> infer_instance
  infer_instance

/-- the pairs collected under a compiling configuration and under `zoneOf`'s agree outside the legacy
`%` keys -/
theorem collect_rel (s : Nat) (n r : Bool) (svcb : SvcbFn) (p : KV → Bool)
    (hp : ∀ kv, IsLegacyKey kv.1 → p kv = false) :
    ∀ (lines : List Bytes) (a1 a2 r1 r2 : List KV × List Subnet),
      collect ⟨s, false, n, r⟩ svcb lines a1 = some r1 →
      collect (cfgZ s) (fun _ => none) lines a2 = some r2 →
      a1.1.filter p = a2.1.filter p → r1.1.filter p = r2.1.filter p
  | [], a1, a2, r1, r2, h1, h2, ha => by
    rw [collect_nil] at h1 h2
    cases h1; cases h2; exact ha
  | raw :: lines, a1, a2, r1, r2, h1, h2, ha => by
    rw [collect_cons] at h1 h2
    unfold step at h1 h2
    cases hf : filterLine raw with
    | none =>
      rw [hf] at h1 h2
      exact collect_rel s n r svcb p hp lines a1 a2 r1 r2 h1 h2 ha
    | some l =>
      rw [hf] at h1 h2
      simp only [] at h1 h2
      cases hc1 : convertLine ⟨s, false, n, r⟩ svcb l with
      | error e => rw [hc1] at h1; cases h1
      | ok lo1 =>
        cases hc2 : convertLine (cfgZ s) (fun _ => none) l with
        | error e => rw [hc2] at h2; cases h2
        | ok lo2 =>
          rw [hc1] at h1; rw [hc2] at h2
          refine collect_rel s n r svcb p hp lines _ _ r1 r2 h1 h2 ?_
          obtain ⟨extra, he, hx⟩ := convertLine_rel s n r svcb l lo1 lo2 hc1 hc2
          have hex : extra.filter p = [] := by
            rw [List.filter_eq_nil_iff]
            intro kv hkv
            rw [hp kv (hx kv hkv)]
            simp
          simp only [List.filter_append, he, hex, ha, List.nil_append]

/-- everything `zoneOf` collects is the pair of an emittable record or a map pair -/
theorem collect_shaped (s : Nat) :
    ∀ (lines : List Bytes) (a r : List KV × List Subnet), LinesOK lines →
      collect (cfgZ s) (fun _ => none) lines a = some r →
      (∀ kv ∈ a.1, RRShaped kv ∨ IsMapKey kv.1) → ∀ kv ∈ r.1, RRShaped kv ∨ IsMapKey kv.1
  | [], a, r, _, h, ha => by
    rw [collect_nil] at h
    cases h; exact ha
  | raw :: lines, a, r, hl, h, ha => by
    rw [collect_cons] at h
    unfold step at h
    have hl' : LinesOK lines := fun x hx => hl x (List.mem_cons_of_mem _ hx)
    have hraw := hl raw (by simp)
    cases hf : filterLine raw with
    | none =>
      rw [hf] at h
      exact collect_shaped s lines a r hl' h ha
    | some l =>
      rw [hf] at h hraw
      simp only [] at h hraw
      cases hc : convertLine (cfgZ s) (fun _ => none) l with
      | error e => rw [hc] at h; cases h
      | ok lo =>
        rw [hc] at h
        refine collect_shaped s lines _ r hl' h ?_
        intro kv hkv
        rw [List.mem_append] at hkv
        rcases hkv with hkv | hkv
        · exact ha kv hkv
        · rcases convertLine_shaped (cfgZ s) rfl _ l lo hraw hc kv hkv with h1 | h1 | h1
          · exact Or.inl h1
          · exact Or.inr h1
          · exact absurd h1.1 (by show ¬ (true = false); decide)

/-! ### resource-record keys versus control keys -/

/-- admissible location tags: two bytes, and none of the three control key spaces of the v1 layout
(`\000%` legacy subnet records, `\000M` / `\0008` maps) -/
def TagOK (l : Bytes) : Prop := l.length = 2 ∧ l ≠ [0, 0x25] ∧ l ≠ [0, 0x4d] ∧ l ≠ [0, 0x38]

instance (l : Bytes) : Decidable (TagOK l) := by unfold TagOK; infer_instance

theorem key_not_map (l : Bytes) (ls : List Bytes) (hl : TagOK l) : ¬ IsMapKey (l ++ pack ls) := by
  rintro ⟨t, rest, he, ht, _⟩
  match l, hl with
  | [a, b], hl =>
    simp only [List.cons_append, List.nil_append, List.cons.injEq] at he
    obtain ⟨ha, hb, _⟩ := he
    subst ha; subst hb
    rcases ht with rfl | rfl
    · exact hl.2.2.1 rfl
    · exact hl.2.2.2 rfl

theorem key_not_legacy (l : Bytes) (ls : List Bytes) (hl : TagOK l) : ¬ IsLegacyKey (l ++ pack ls) := by
  rintro ⟨rest, he⟩
  match l, hl with
  | [a, b], hl =>
    simp only [List.cons_append, List.nil_append, List.cons.injEq] at he
    obtain ⟨ha, hb, _⟩ := he
    subst ha; subst hb
    exact hl.2.1 rfl

theorem key_length (l : Bytes) (ls : List Bytes) (hl : l.length = 2) : 3 ≤ (l ++ pack ls).length := by
  rw [List.length_append, hl]
  have := length_lt_pack ls
  omega

/-- a packed `NameOK` name starting with a zero byte is the root -/
theorem pack_head_zero (ls : List Bytes) (hn : NameOK ls) (x : Bytes) (h : pack ls = 0 :: x) : x = [] := by
  cases ls with
  | nil => rw [pack_nil] at h; simp only [List.cons.injEq, true_and] at h; exact h.symm
  | cons lab rest =>
    rw [pack_cons] at h
    simp only [List.cons.injEq] at h
    exact absurd h.1 hn.head.len_byte.2

theorem prefixSet_keys (subs : List Subnet) : ∀ kv ∈ prefixSetKVs subs, kv.1.length = 2 := by
  intro kv hkv
  unfold prefixSetKVs at hkv
  simp only [List.mem_cons, List.not_mem_nil, or_false] at hkv
  rcases hkv with rfl | rfl | rfl <;> rfl

theorem pointKV_key (m : Bytes) (p : Point) : ∃ rest, (pointKV m p).1 = 0 :: 0 :: 0 :: 33 :: rest := by
  unfold pointKV
  have hm : Generated.dnsdata_RangePointKeyMarker = [0, 0, 0, 33] := by decide
  cases p.loc with
  | none => exact ⟨_, by simp only [hm]; rfl⟩
  | some l => exact ⟨_, by simp only [hm]; rfl⟩

theorem rangePoint_keys (subs : List Subnet) (acc : List KV) (h : rangePointKVs subs = some acc) :
    ∀ kv ∈ acc, ∃ rest, kv.1 = 0 :: 0 :: 0 :: 33 :: rest := by
  unfold rangePointKVs at h
  generalize mapIds subs = L at h
  have key : ∀ (L : List Bytes) (a res : List KV),
      L.foldlM (fun acc m =>
        match rearrange ((subs.filter (·.lmap = m)).foldl
            (fun r s => addLocation r (ipToNat s.ip) s.ones (s.lo.getD [0, 0])) ({} : Rearranger)) with
        | none => none
        | some pts => some (acc ++ pts.map (pointKV m))) a = some res →
      (∀ kv ∈ a, ∃ rest, kv.1 = 0 :: 0 :: 0 :: 33 :: rest) →
      ∀ kv ∈ res, ∃ rest, kv.1 = 0 :: 0 :: 0 :: 33 :: rest := by
    intro L
    induction L with
    | nil => intro a res h ha; cases h; exact ha
    | cons m L ih =>
      intro a res h ha
      rw [List.foldlM_cons] at h
      cases hr : rearrange ((subs.filter (·.lmap = m)).foldl
          (fun r s => addLocation r (ipToNat s.ip) s.ones (s.lo.getD [0, 0])) ({} : Rearranger)) with
      | none => rw [hr] at h; cases h
      | some pts =>
        rw [hr] at h
        refine ih _ res h ?_
        intro kv hkv
        rw [List.mem_append] at hkv
        rcases hkv with hkv | hkv
        · exact ha kv hkv
        · rw [List.mem_map] at hkv
          obtain ⟨p, _, rfl⟩ := hkv
          exact pointKV_key m p
  exact key L [] acc h (by simp)

/-- the features key is no resource-record key of a `NameOK` name -/
theorem features_not_key (cfg : Cfg) (l : Bytes) (ls : List Bytes) (hl : l.length = 2) (hn : NameOK ls) :
    (featuresKV cfg).1 ≠ l ++ pack ls := by
  intro h
  have hk : (featuresKV cfg).1 = [0, 111, 95, 102, 101, 97, 116, 117, 114, 101, 115] := by
    show Generated.dnsdata_FeaturesKey = _
    decide
  rw [hk] at h
  match l, hl with
  | [a, b], _ =>
    simp only [List.cons_append, List.nil_append, List.cons.injEq] at h
    obtain ⟨_, _, hp⟩ := h
    cases ls with
    | nil => rw [pack_nil] at hp; cases hp
    | cons lab rest =>
      rw [pack_cons] at hp
      simp only [List.cons.injEq] at hp
      have hlb := hn.head
      have h1 : (UInt8.ofNat lab.length).toNat = 95 := by rw [← hp.1]; rfl
      rw [hlb.len_byte.1] at h1
      have := hlb.2.1
      omega

/-! ### the pipeline theorem -/

theorem store_get_kvs (kvs acc : List KV) (feat : KV) (k : Bytes)
    (hacc : ∀ kv ∈ acc, kv.1 ≠ k) (hfeat : feat.1 ≠ k) :
    (Store.ofKVs (kvs ++ acc ++ [feat])).get k = (kvs.filter fun kv => decide (kv.1 = k)).map (·.2) := by
  unfold Store.ofKVs
  rw [get_foldl_insert]
  show [] ++ _ = _
  rw [List.nil_append, List.filter_append, List.filter_append]
  have h1 : acc.filter (fun kv => decide (kv.1 = k)) = [] := by
    rw [List.filter_eq_nil_iff]
    intro kv hkv
    simpa using hacc kv hkv
  have h2 : [feat].filter (fun kv => decide (kv.1 = k)) = [] := by
    rw [List.filter_eq_nil_iff]
    intro kv hkv
    rw [List.mem_singleton] at hkv
    subst hkv
    simpa using hfeat
  rw [h1, h2, List.append_nil, List.append_nil]

/-- decoding shaped pairs and selecting one owner and tag = selecting one key -/
theorem rows_of_shaped (l : Bytes) (hl : TagOK l) (ls : List Bytes) (hn : NameOK ls) :
    ∀ (kvs : List KV), (∀ kv ∈ kvs, RRShaped kv ∨ IsMapKey kv.1) →
      (recsAt ((kvs.map decodeKV).filterMap (·.1)) ls l).map rowOfRec
        = (kvs.filter fun kv => decide (kv.1 = l ++ pack ls)).map (·.2)
  | [], _ => rfl
  | kv :: kvs, hs => by
    have ih := rows_of_shaped l hl ls hn kvs (fun x hx => hs x (List.mem_cons_of_mem _ hx))
    have hrec : ∀ (o : Option Rec), (∀ r, o = some r → ¬ (r.owner = ls ∧ r.loc = l)) →
        recsAt ((o :: (kvs.map decodeKV).map (·.1)).filterMap id) ls l
          = recsAt (((kvs.map decodeKV).map (·.1)).filterMap id) ls l := by
      intro o ho
      cases o with
      | none => rfl
      | some r =>
        unfold recsAt
        rw [List.filterMap_cons_some (by rfl), List.filter_cons_of_neg (by simpa using ho r rfl)]
    have hfm : ∀ (L : List (Option Rec × Option MapDecl)), L.filterMap (·.1) = (L.map (·.1)).filterMap id := by
      intro L; rw [List.filterMap_map]; rfl
    rw [List.map_cons, hfm, List.map_cons]
    rw [hfm] at ih
    obtain ⟨k, v⟩ := kv
    rcases hs (k, v) (by simp) with ⟨r, hr, he⟩ | hm
    · by_cases hmatch : r.owner = ls ∧ r.loc = l
      · have hk : k = l ++ pack ls := by
          have := congrArg Prod.fst he
          simp only [rrPair] at this
          rw [this, hmatch.1, hmatch.2]
        have hv : v = rowOfRec r := by
          have := congrArg Prod.snd he
          simpa [rrPair] using this
        have hdec : decodeKV (k, v) = (some r, none) := by
          rw [decodeKV_not_map k v (by rw [hk]; exact key_not_map l ls hl)]
          have := decodeRR_rrPair r hr
          rw [← he] at this
          exact this
        rw [hdec, List.filter_cons_of_pos (by simpa using hk), List.map_cons, ← ih]
        simp only [List.filterMap_cons_some (show id (some r) = some r from rfl)]
        unfold recsAt
        rw [List.filter_cons_of_pos (by simpa using hmatch), List.map_cons, hv]
      · have hk : k ≠ l ++ pack ls := by
          intro hk
          have h1 := congrArg Prod.fst he
          simp only [rrPair] at h1
          rw [hk] at h1
          have := List.append_inj h1 (by rw [hl.1, hr.1.2.2.1])
          exact hmatch ⟨(pack_inj _ _ (nameOK_labelsOK hn) hr.2.1 this.2).symm, this.1.symm⟩
        rw [List.filter_cons_of_neg (by simpa using hk), ← ih]
        refine congrArg _ (hrec _ ?_)
        intro r' hr'
        by_cases hmk : IsMapKey k
        · rw [decodeKV_map k v hmk] at hr'; cases hr'
        · rw [decodeKV_not_map k v hmk] at hr'
          have := decodeRR_rrPair r hr
          rw [← he] at this
          rw [this] at hr'
          cases hr'
          exact hmatch
    · have hk : k ≠ l ++ pack ls := by
        intro hk
        rw [hk] at hm
        exact key_not_map l ls hl hm
      rw [List.filter_cons_of_neg (by simpa using hk), ← ih]
      refine congrArg _ (hrec _ ?_)
      intro r' hr'
      rw [decodeKV_map k v hm] at hr'
      cases hr'

theorem cfgFor_v1 (b : Backend) (hb : (∃ sep, b = .cdb sep) ∨ b = .rdbV1) :
    ∃ n r, cfgFor b = ⟨serial, false, n, r⟩ := by
  rcases hb with ⟨sep, rfl⟩ | rfl
  · exact ⟨false, false, rfl⟩
  · exact ⟨true, true, rfl⟩

/-- **Pipeline theorem.** For the v1 key layouts (CDB in either bitmap mode, RocksDB v1): the store
`compile` builds from a data file holds, under every admissible location tag `l` and every `NameOK`
owner, exactly the rows of the records `zoneOf` declares for that file with that owner and tag, in
file order. `LinesOK` (generic `:` lines of type A / AAAA carry the weight bytes) is forced. -/
theorem compile_representsAt (b : Backend) (hb : (∃ sep, b = .cdb sep) ∨ b = .rdbV1) (svcb : SvcbFn)
    (lines : List Bytes) (store : Store) (z : Zone)
    (hc : compile b svcb lines = some store) (hz : zoneOf lines = some z) (hg : LinesOK lines)
    (l : Bytes) (hl : TagOK l) : RepresentsAt store z.recs l := by
  intro ls hn
  rw [compile_eq] at hc
  rw [zoneOf_eq] at hz
  cases hcz : collect (cfgZ serial) (fun _ => none) lines ([], []) with
  | none => rw [hcz] at hz; cases hz
  | some rz =>
    rw [hcz] at hz
    simp only [Option.map_some, Option.some.injEq] at hz
    cases hcc : collect (cfgFor b) svcb lines ([], []) with
    | none => rw [hcc] at hc; cases hc
    | some rc =>
      rw [hcc] at hc
      obtain ⟨kvsC, subsC⟩ := rc
      obtain ⟨kvsZ, subsZ⟩ := rz
      simp only [] at hc
      -- the accumulator pairs
      obtain ⟨acc, hacc, hstore⟩ : ∃ acc, (∀ kv ∈ acc, kv.1 ≠ l ++ pack ls) ∧
          store = Store.ofKVs (kvsC ++ acc ++ [featuresKV (cfgFor b)]) := by
        rcases hb with ⟨sep, rfl⟩ | rfl
        · simp only [Option.map_some, Option.some.injEq] at hc
          refine ⟨_, ?_, hc.symm⟩
          intro kv hkv hk
          have h2 := prefixSet_keys subsC kv hkv
          have h3 := key_length l ls hl.1
          rw [hk] at h2
          omega
        · cases hr : rangePointKVs subsC with
          | none => rw [hr] at hc; cases hc
          | some acc =>
            rw [hr] at hc
            simp only [Option.map_some, Option.some.injEq] at hc
            refine ⟨acc, ?_, hc.symm⟩
            intro kv hkv hk
            obtain ⟨rest, hrest⟩ := rangePoint_keys subsC acc hr kv hkv
            rw [hk] at hrest
            match l, hl with
            | [a, b], _ =>
              simp only [List.cons_append, List.nil_append, List.cons.injEq] at hrest
              have := pack_head_zero ls hn _ hrest.2.2
              cases this
      rw [hstore, store_get_kvs kvsC acc _ _ hacc (features_not_key _ l ls hl.1 hn), ← hz]
      show _ = (recsAt ((kvsZ.map decodeKV).filterMap (·.1)) ls l).map rowOfRec
      have hsh := collect_shaped serial lines ([], []) (kvsZ, subsZ) hg hcz (by simp)
      rw [rows_of_shaped l hl ls hn kvsZ hsh]
      obtain ⟨n, r, hcfg⟩ := cfgFor_v1 b hb
      rw [hcfg] at hcc
      have := collect_rel serial n r svcb (fun kv => decide (kv.1 = l ++ pack ls))
        (by intro kv hk
            simp only [decide_eq_false_iff_not]
            intro he
            rw [he] at hk
            exact key_not_legacy l ls hl hk)
        lines ([], []) ([], []) (kvsC, subsC) (kvsZ, subsZ) hcc hcz rfl
      exact congrArg (List.map (·.2)) this

/-- the same for all admissible tags at once, in the form the refinement theorem consumes -/
theorem compile_represents (b : Backend) (hb : (∃ sep, b = .cdb sep) ∨ b = .rdbV1) (svcb : SvcbFn)
    (lines : List Bytes) (store : Store) (z : Zone)
    (hc : compile b svcb lines = some store) (hz : zoneOf lines = some z) (hg : LinesOK lines) :
    RepresentsAt store z.recs [0, 0] ∧ ∀ l, TagOK l → RepresentsAt store z.recs l :=
  ⟨compile_representsAt b hb svcb lines store z hc hz hg [0, 0] (by decide),
   fun l hl => compile_representsAt b hb svcb lines store z hc hz hg l hl⟩

end DnsVerif.PipelineProofs
