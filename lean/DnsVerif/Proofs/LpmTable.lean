/-
Shared vocabulary for the range-point table proofs (C03.4): the total-order key (`rank`) of the
rearranger's comparator, the database key of a point, the abstract predecessor search.
-/
import DnsVerif.Model.Rearranger
import DnsVerif.Spec.Answer

namespace DnsVerif.Lpm
open DnsVerif DnsVerif.Rearr DnsVerif.Spec

/-- one past the last address -/
def TOP : Nat := 2 ^ 128

/-- numeric sort key of the comparator `pointLt` (valid for mask lengths ≤ 255): address first; at
one address stops before starts, stops by descending and starts by ascending mask length -/
def rank (p : Point) : Nat :=
  p.ip * 1024 + (match p.kind with
    | .stop => 255 - p.maskLen
    | .start => 512 + p.maskLen)

theorem pointLt_iff_rank (a b : Point) (ha : a.maskLen ≤ 255) (hb : b.maskLen ≤ 255) :
    pointLt a b = decide (rank a < rank b) := by
  unfold pointLt rank
  cases hka : a.kind <;> cases hkb : b.kind <;> by_cases hip : a.ip = b.ip <;>
    simp only [hip, ne_eq, not_true_eq_false, not_false_eq_true, if_true, if_false, reduceCtorEq,
      decide_true, decide_false] <;>
    (try rw [decide_eq_decide]) <;> (try rw [eq_comm, decide_eq_true_iff]) <;>
    (try rw [eq_comm, decide_eq_false_iff_not]) <;> omega

/-- the database key of a range point, as a pair: address, and the mask-length byte that
`pointKV` writes (0 for a null location) -/
def pkey (p : Point) : Nat × Nat :=
  (p.ip, match p.loc with
    | none => 0
    | some _ => p.maskLen % 256)

def keyLt (k k' : Nat × Nat) : Bool := decide (k.1 < k'.1 ∨ (k.1 = k'.1 ∧ k.2 < k'.2))
def keyLe (k k' : Nat × Nat) : Bool := !keyLt k' k

/-- predecessor search over a point list (mirrors `Store.seekForPrev`): the point with the greatest
key `≤ (a, req)`; of several points with that key the first -/
def lookup (P : List Point) (a req : Nat) : Option Point :=
  P.foldl (fun best p =>
    if keyLe (pkey p) (a, req) then
      match best with
      | none => some p
      | some b => if keyLt (pkey b) (pkey p) then some p else some b
    else best) none

/-- what the database lookup reports for a table: location (if any) and mask-length byte -/
def lookupRes (P : List Point) (a req : Nat) : Option Bytes × Nat :=
  match lookup P a req with
  | none => (none, 0)
  | some p => (p.loc, (pkey p).2)

/-- what the specification says, in the same shape -/
def lpmRes (S : List SubnetDecl) (mapID : Bytes) (a req : Nat) : Option Bytes × Nat :=
  match lpm S mapID (isV4Addr a) a req with
  | some w => (some w.loc, w.ones)
  | none => (none, 0)

end DnsVerif.Lpm
