/-
Shared vocabulary for the range-point table proofs (C03.4): the total-order key (`rank`) of the
rearranger's comparator, the database key of a point, the abstract predecessor search.
-/
import DnsVerif.Model.Rearranger
import DnsVerif.Spec.Answer

namespace DnsVerif.Lpm
open DnsVerif DnsVerif.Rearr DnsVerif.Spec

/-- one past the last address -/
def TOP : Nat := 2 ^ 128

/-- the in-address sort key of an end point with mask length `len`: end points at one address are
ordered by `rangeFrom`, innermost first; for CIDR blocks ending at one address that is the order of
descending prefix length, with the implicit IPv4 null range (mask length 0, it starts at
`::ffff:0:0` = `afterIPv4 - 2^32`) in the place of a /96 — after a declared `0.0.0.0/0` if there were
both -/
def ekey (len : Nat) : Nat := if len = 0 then 2 * (255 - 96) + 1 else 2 * (255 - len)

theorem ekey_lt (len : Nat) : ekey len < 512 := by
  unfold ekey; split <;> omega

/-- comparing two end keys: the arithmetic form -/
theorem ekey_lt_iff {l l' : Nat} (hl : l ≤ 255) (hl' : l' ≤ 255) :
    ekey l < ekey l' ↔ (l ≠ 0 ∧ l' ≠ 0 ∧ l' < l) ∨ (l = 0 ∧ l' ≠ 0 ∧ l' < 96) ∨ (l' = 0 ∧ 96 ≤ l) := by
  unfold ekey
  by_cases h : l = 0 <;> by_cases h' : l' = 0 <;>
    simp only [h, h', if_true, if_false, ne_eq, not_true_eq_false, not_false_eq_true, true_and,
      false_and, and_false, or_false, false_or] <;> omega

/-- numeric sort key of the comparator `pointLt` (valid for mask lengths ≤ 255 and well-formed end
points, `PtOK`): address first; at one address stops before starts, stops innermost first (`ekey`)
and starts by ascending mask length -/
def rank (p : Point) : Nat :=
  p.ip * 1024 + (match p.kind with
    | .stop => ekey p.maskLen
    | .start => 512 + p.maskLen)

/-- the effective prefix length of an end point -/
def effLen (len : Nat) : Nat := if len = 0 then 96 else len

/-- an end point is the end of a CIDR block of its mask length, or, with mask length 0, the end of
the IPv4 range -/
def PtOK (p : Point) : Prop :=
  p.kind = .stop → (p.maskLen = 0 → p.ip = afterIPv4) ∧ p.maskLen ≤ 128 ∧ 2 ^ (128 - effLen p.maskLen) ≤ p.ip

theorem rangeFromOf_eq {p : Point} (h : PtOK p) (hk : p.kind = .stop) :
    rangeFromOf p = p.ip - 2 ^ (128 - effLen p.maskLen) := by
  obtain ⟨h0, _, _⟩ := h hk
  unfold rangeFromOf effLen
  by_cases hz : p.maskLen = 0
  · rw [if_pos hz, if_pos hz, h0 hz]; decide
  · rw [if_neg hz, if_neg hz]

theorem pow_cmp {e e' : Nat} (he : e ≤ 128) (he' : e' ≤ 128) :
    ((2 : Nat) ^ (128 - e) < 2 ^ (128 - e') ↔ e' < e) ∧ ((2 : Nat) ^ (128 - e) = 2 ^ (128 - e') ↔ e = e') := by
  constructor
  · rw [Nat.pow_lt_pow_iff_right (by omega : 1 < 2)]; omega
  · constructor
    · intro h
      have h1 := (Nat.pow_le_pow_iff_right (by omega : 1 < 2)).1 (Nat.le_of_eq h)
      have h2 := (Nat.pow_le_pow_iff_right (by omega : 1 < 2)).1 (Nat.le_of_eq h.symm)
      omega
    · intro h; rw [h]

theorem ekey_eff (m n : Nat) (hm : m ≤ 128) (hn : n ≤ 128) :
    (ekey m < ekey n ↔ effLen n < effLen m ∨ (effLen m = effLen n ∧ n < m)) ∧
      effLen m ≤ 128 ∧ effLen n ≤ 128 := by
  unfold ekey effLen
  by_cases h : m = 0 <;> by_cases h' : n = 0 <;> simp only [h, h', if_true, if_false] <;> omega

/-- two end points at one address: the comparator's order is the order of the end keys -/
theorem stop_cmp (ip m n : Nat) (hm : m ≤ 128) (hn : n ≤ 128) (pa : 2 ^ (128 - effLen m) ≤ ip)
    (pb : 2 ^ (128 - effLen n) ≤ ip) :
    (if ip - 2 ^ (128 - effLen m) ≠ ip - 2 ^ (128 - effLen n)
      then decide (ip - 2 ^ (128 - effLen m) > ip - 2 ^ (128 - effLen n)) else decide (m > n)) =
    decide (ekey m < ekey n) := by
  obtain ⟨hk, ea, eb⟩ := ekey_eff m n hm hn
  obtain ⟨c1, c2⟩ := pow_cmp ea eb
  generalize effLen m = e at *
  generalize effLen n = e' at *
  generalize 2 ^ (128 - e) = x at *
  generalize 2 ^ (128 - e') = y at *
  have hsub : ip - x = ip - y ↔ x = y := by omega
  have hsub' : ip - x > ip - y ↔ x < y := by
    constructor
    · intro h; omega
    · intro h; exact Nat.sub_lt_sub_left (Nat.lt_of_lt_of_le h pb) h
  by_cases hxy : x = y
  · rw [if_neg (fun hn => hn (hsub.2 hxy)), decide_eq_decide, hk]
    have := c2.1 hxy
    omega
  · rw [if_pos (fun hn => hxy (hsub.1 hn)), decide_eq_decide, hsub', c1, hk]
    have : e ≠ e' := fun h => hxy (c2.2 h)
    omega

theorem pointLt_iff_rank (a b : Point) (ha : a.maskLen ≤ 255) (hb : b.maskLen ≤ 255)
    (hoa : PtOK a) (hob : PtOK b) :
    pointLt a b = decide (rank a < rank b) := by
  have ka := ekey_lt a.maskLen
  have kb := ekey_lt b.maskLen
  by_cases hstop : a.ip = b.ip ∧ a.kind = .stop ∧ b.kind = .stop
  · -- two end points at one address
    obtain ⟨hip, hka, hkb⟩ := hstop
    obtain ⟨_, la, pa⟩ := hoa hka
    obtain ⟨_, lb, pb⟩ := hob hkb
    unfold pointLt rank
    rw [rangeFromOf_eq hoa hka, rangeFromOf_eq hob hkb, hka, hkb, hip]
    rw [hip] at pa
    simp only [ne_eq, not_true_eq_false, if_false, reduceCtorEq]
    rw [stop_cmp b.ip a.maskLen b.maskLen la lb pa pb, decide_eq_decide]
    omega
  · unfold pointLt rank
    cases hka : a.kind <;> cases hkb : b.kind <;> by_cases hip : a.ip = b.ip <;>
      simp only [hip, hka, hkb, ne_eq, not_true_eq_false, not_false_eq_true, if_true, if_false,
        reduceCtorEq, decide_true, decide_false, and_true, and_false] at hstop ⊢ <;>
      (try rw [decide_eq_decide]) <;> (try rw [eq_comm, decide_eq_true_iff]) <;>
      (try rw [eq_comm, decide_eq_false_iff_not]) <;> omega

/-- the database key of a range point, as a pair: address, and the mask-length byte that
`pointKV` writes (0 for a null location) -/
def pkey (p : Point) : Nat × Nat :=
  (p.ip, match p.loc with
    | none => 0
    | some _ => p.maskLen % 256)

def keyLt (k k' : Nat × Nat) : Bool := decide (k.1 < k'.1 ∨ (k.1 = k'.1 ∧ k.2 < k'.2))
def keyLe (k k' : Nat × Nat) : Bool := !keyLt k' k

/-- predecessor search over a point list (mirrors `Store.seekForPrev`): the point with the greatest
key `≤ (a, req)`; of several points with that key the first -/
def lookup (P : List Point) (a req : Nat) : Option Point :=
  P.foldl (fun best p =>
    if keyLe (pkey p) (a, req) then
      match best with
      | none => some p
      | some b => if keyLt (pkey b) (pkey p) then some p else some b
    else best) none

/-- what the database lookup reports for a table: location (if any) and mask-length byte -/
def lookupRes (P : List Point) (a req : Nat) : Option Bytes × Nat :=
  match lookup P a req with
  | none => (none, 0)
  | some p => (p.loc, (pkey p).2)

/-- what the specification says, in the same shape -/
def lpmRes (S : List SubnetDecl) (mapID : Bytes) (a req : Nat) : Option Bytes × Nat :=
  match lpm S mapID (isV4Addr a) a req with
  | some w => (some w.loc, w.ones)
  | none => (none, 0)

end DnsVerif.Lpm
