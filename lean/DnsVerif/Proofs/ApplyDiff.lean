/-
Helper lemmas for C08 (applying a diff): multiset algebra of the per-key value lists on top of
C15's refinement (`Props.C15.R`, `batch_refines`).
-/
import DnsVerif.Model.ApplyDiff
import DnsVerif.Spec.ApplyDiff
import DnsVerif.Props.C15

namespace DnsVerif.ApplyDiff
open DnsVerif DnsVerif.Rdb DnsVerif.Spec DnsVerif.Props.C15

/-! ### one key: deleting a list of values from a list of values -/

/-- if the current values are the wanted rest plus the values to delete (as multisets), all the
deletions succeed and leave the rest -/
theorem delsKey_of_perm {cur rest vs : List Bytes} (h : cur.Perm (rest ++ vs)) :
    ∃ r, delsKey cur vs = some r ∧ r.Perm rest := by
  induction vs generalizing cur with
  | nil => exact ⟨cur, rfl, by simpa using h⟩
  | cons v vs ih =>
    have hv : v ∈ cur := h.mem_iff.2 (by simp)
    rw [delsKey_cons, if_pos hv]
    apply ih
    have h1 : (cur.erase v).Perm ((rest ++ v :: vs).erase v) := h.erase v
    have h2 : ((rest ++ v :: vs).erase v).Perm ((v :: (rest ++ vs)).erase v) :=
      List.Perm.erase v List.perm_middle
    rw [List.erase_cons_head] at h2
    exact h1.trans h2

/-- conversely, successful deletions mean the values were all there -/
theorem perm_of_delsKey {cur vs r : List Bytes} (h : delsKey cur vs = some r) :
    cur.Perm (r ++ vs) := by
  induction vs generalizing cur with
  | nil => rw [delsKey_nil] at h; cases h; simp
  | cons v vs ih =>
    rw [delsKey_cons] at h
    by_cases hv : v ∈ cur
    · rw [if_pos hv] at h
      have h1 := ih h
      exact (List.perm_cons_erase hv).trans ((h1.cons v).trans List.perm_middle.symm)
    · rw [if_neg hv] at h; cases h

/-! ### `valuesAt` -/

theorem valuesAt_append (a b : Pairs) (k : Bytes) :
    valuesAt (a ++ b) k = valuesAt a k ++ valuesAt b k := by
  simp [valuesAt]

theorem valuesAt_perm {a b : Pairs} (h : a.Perm b) (k : Bytes) :
    (valuesAt a k).Perm (valuesAt b k) := (h.filter _).map _

theorem valuesAt_nil (k : Bytes) : valuesAt [] k = [] := rfl

theorem mem_valuesAt {recs : Pairs} {k v : Bytes} : v ∈ valuesAt recs k ↔ (k, v) ∈ recs := by
  unfold valuesAt
  constructor
  · intro h
    obtain ⟨p, hp, rfl⟩ := List.mem_map.1 h
    obtain ⟨hp1, hp2⟩ := List.mem_filter.1 hp
    have : p.1 = k := by simpa using hp2
    rw [← this]; exact hp1
  · intro h
    exact List.mem_map.2 ⟨(k, v), List.mem_filter.2 ⟨h, by simp⟩, rfl⟩

/-! ### the specification maps -/

theorem MultiMap.ext' {m m' : MultiMap} (h : ∀ k, m.get k = m'.get k) : m = m' := by
  cases m; cases m'
  congr
  exact funext h

theorem Equiv.refl (m : MultiMap) : m.Equiv m := fun _ => List.Perm.refl _
theorem Equiv.symm {m m' : MultiMap} (h : m.Equiv m') : m'.Equiv m := fun k => (h k).symm
theorem Equiv.trans {a b c : MultiMap} (h1 : a.Equiv b) (h2 : b.Equiv c) : a.Equiv c :=
  fun k => (h1 k).trans (h2 k)

/-- every value of the records fits the uint32 length prefix of the chunk codec -/
def SmallRecs (recs : Pairs) : Prop := ∀ p ∈ recs, p.2.length < 4294967296

instance (recs : Pairs) : Decidable (SmallRecs recs) := by unfold SmallRecs; infer_instance

theorem SmallRecs.append {a b : Pairs} (ha : SmallRecs a) (hb : SmallRecs b) : SmallRecs (a ++ b) := by
  intro p hp
  rcases List.mem_append.1 hp with h | h
  · exact ha p h
  · exact hb p h

theorem SmallRecs.of_perm {a b : Pairs} (h : a.Perm b) (ha : SmallRecs a) : SmallRecs b :=
  fun p hp => ha p (h.mem_iff.2 hp)

/-- `s` holds the database `m`: some ordering of `m`'s value lists is stored, chunk-encoded -/
def Represents (s : KV) (m : MultiMap) : Prop := ∃ m0, R s m0 ∧ m0.Equiv m

theorem Represents.of_R {s : KV} {m : MultiMap} (h : R s m) : Represents s m := ⟨m, h, Equiv.refl m⟩

theorem Represents.equiv {s : KV} {m m' : MultiMap} (h : Represents s m) (e : m.Equiv m') :
    Represents s m' := by
  obtain ⟨m0, h0, e0⟩ := h
  exact ⟨m0, h0, Equiv.trans e0 e⟩

/-! ### compiling -/

theorem foldl_add_refines (recs : Pairs) (hs : SmallRecs recs) (s : KV) (m : MultiMap) (h : R s m) :
    R (recs.foldl (fun s p => add s p.1 p.2) s) (recs.foldl (fun acc p => acc.add p.1 p.2) m) := by
  induction recs generalizing s m with
  | nil => exact h
  | cons p ps ih =>
    simp only [List.foldl_cons]
    exact ih (fun q hq => hs q (by simp [hq])) _ _ (add_refines s m h p.1 p.2 (hs p (by simp)))

theorem compileRecs_refines (recs : Pairs) (hs : SmallRecs recs) :
    R (compileRecs recs) ⟨valuesAt recs⟩ := by
  have h := foldl_add_refines recs hs [] MultiMap.empty R_empty
  have e : recs.foldl (fun acc p => acc.add p.1 p.2) MultiMap.empty = ⟨valuesAt recs⟩ := by
    apply MultiMap.ext'
    intro k
    rw [MultiMap.get_foldl_add]
    simp [MultiMap.empty, valuesAt]
  rw [e] at h
  exact h

theorem convertAll_eq {conv : Conv} {ls : List Bytes} {per : List Pairs}
    (h : convertAll conv ls = some per) : per = ls.filterMap conv ∧ ∀ l ∈ ls, (conv l).isSome := by
  induction ls generalizing per with
  | nil => simp [convertAll] at h; subst h; simp
  | cons l ls ih =>
    unfold convertAll at h
    cases hc : conv l with
    | none => rw [hc] at h; cases h
    | some r =>
      rw [hc] at h
      cases hr : convertAll conv ls with
      | none => rw [hr] at h; cases h
      | some rs =>
        rw [hr] at h
        simp only [Option.map_some, Option.some.injEq] at h
        obtain ⟨e, ha⟩ := ih hr
        subst h
        refine ⟨by simp [hc, e], ?_⟩
        intro l' hl'
        rcases List.mem_cons.1 hl' with rfl | h'
        · simp [hc]
        · exact ha l' h'

theorem convertAll_of_accepted {conv : Conv} {ls : List Bytes} (h : ∀ l ∈ ls, (conv l).isSome) :
    convertAll conv ls = some (ls.filterMap conv) := by
  induction ls with
  | nil => rfl
  | cons l ls ih =>
    unfold convertAll
    cases hc : conv l with
    | none => have := h l (by simp); rw [hc] at this; cases this
    | some r =>
      rw [ih (fun l' hl' => h l' (by simp [hl']))]
      simp [hc]

/-! ### scanning a diff -/

theorem plusOf_cons (l : Bytes) (ls : List Bytes) :
    plusOf (l :: ls) = match classify l with
      | .plus p => p :: plusOf ls
      | _ => plusOf ls := by
  unfold plusOf
  rw [List.filterMap_cons]
  cases classify l <;> rfl

theorem minusOf_cons (l : Bytes) (ls : List Bytes) :
    minusOf (l :: ls) = match classify l with
      | .minus p => p :: minusOf ls
      | _ => minusOf ls := by
  unfold minusOf
  rw [List.filterMap_cons]
  cases classify l <;> rfl

theorem recsOf_cons_some {conv : Conv} {p : Bytes} {rs : Pairs} (h : conv p = some rs)
    (ls : List Bytes) : recsOf conv (p :: ls) = rs ++ recsOf conv ls := by
  simp [recsOf, h]

theorem recsOf_nil (conv : Conv) : recsOf conv [] = [] := rfl

theorem recsOf_append (conv : Conv) (a b : List Bytes) :
    recsOf conv (a ++ b) = recsOf conv a ++ recsOf conv b := by
  simp [recsOf, List.filterMap_append]

theorem recsOf_perm (conv : Conv) {a b : List Bytes} (h : a.Perm b) :
    (recsOf conv a).Perm (recsOf conv b) := (h.filterMap conv).flatten

/-- a diff without a malformed line is scanned completely: the batch holds the records of the `+`
lines and of the `-` lines, each in diff order -/
theorem scanDiff_ok (conv : Conv) (diff : List Bytes) (a d : Pairs)
    (h : ∀ l ∈ diff, malformed conv l = false) :
    scanDiff conv diff a d =
      .ok (a ++ recsOf conv (plusOf diff), d ++ recsOf conv (minusOf diff)) := by
  induction diff generalizing a d with
  | nil => simp [scanDiff, plusOf, minusOf, recsOf]
  | cons l ls ih =>
    have hl := h l (by simp)
    have hls : ∀ l' ∈ ls, malformed conv l' = false := fun l' hl' => h l' (by simp [hl'])
    unfold scanDiff
    rw [plusOf_cons, minusOf_cons]
    unfold malformed at hl
    cases hc : classify l with
    | skip => simp only []; exact ih a d hls
    | bad => rw [hc] at hl; cases hl
    | plus p =>
      rw [hc] at hl
      simp only [] at hl ⊢
      cases hp : conv p with
      | none => rw [hp] at hl; cases hl
      | some rs =>
        simp only []
        rw [ih _ _ hls, recsOf_cons_some hp, List.append_assoc]
    | minus p =>
      rw [hc] at hl
      simp only [] at hl ⊢
      cases hp : conv p with
      | none => rw [hp] at hl; cases hl
      | some rs =>
        simp only []
        rw [ih _ _ hls, recsOf_cons_some hp, List.append_assoc]

/-- a malformed line anywhere makes the scan fail (with the error of the first malformed line) -/
theorem scanDiff_error (conv : Conv) (diff : List Bytes) (a d : Pairs)
    (h : ∃ l ∈ diff, malformed conv l = true) :
    scanDiff conv diff a d = .error .parse ∨ scanDiff conv diff a d = .error .convert := by
  induction diff generalizing a d with
  | nil => obtain ⟨l, hl, _⟩ := h; cases hl
  | cons l ls ih =>
    unfold scanDiff
    by_cases hm : malformed conv l = true
    · unfold malformed at hm
      cases hc : classify l with
      | skip => rw [hc] at hm; cases hm
      | bad => exact Or.inl rfl
      | plus p =>
        rw [hc] at hm
        simp only [] at hm ⊢
        cases hp : conv p with
        | none => exact Or.inr rfl
        | some rs => rw [hp] at hm; cases hm
      | minus p =>
        rw [hc] at hm
        simp only [] at hm ⊢
        cases hp : conv p with
        | none => exact Or.inr rfl
        | some rs => rw [hp] at hm; cases hm
    · have hrest : ∃ l' ∈ ls, malformed conv l' = true := by
        obtain ⟨l', hl', hm'⟩ := h
        rcases List.mem_cons.1 hl' with rfl | h'
        · exact absurd hm' hm
        · exact ⟨l', h', hm'⟩
      cases hc : classify l with
      | skip => exact ih a d hrest
      | bad => exact Or.inl rfl
      | plus p =>
        simp only []
        cases hp : conv p with
        | none => exact Or.inr rfl
        | some rs => exact ih _ _ hrest
      | minus p =>
        simp only []
        cases hp : conv p with
        | none => exact Or.inr rfl
        | some rs => exact ih _ _ hrest

/-! ### the batch on the specification side, key by key -/

theorem batch_spec (m : MultiMap) (adds dels : Pairs) :
    match m.batch adds dels with
    | some m' => ∀ k, delsKey (m.get k ++ valuesAt adds k) (valuesAt dels k) = some (m'.get k)
    | none => ∃ k, delsKey (m.get k ++ valuesAt adds k) (valuesAt dels k) = none := by
  have hspec := MultiMap.foldlM_del (adds.foldl (fun acc p => acc.add p.1 p.2) m) dels
  have hbatch : m.batch adds dels = dels.foldlM (fun (acc : MultiMap) p =>
      let cur := acc.get p.1
      if p.2 ∈ cur then some (acc.set p.1 (cur.erase p.2)) else none)
      (adds.foldl (fun acc p => acc.add p.1 p.2) m) := rfl
  rw [hbatch]
  split at hspec
  · rename_i m' heq
    rw [heq]
    intro k
    have := hspec k
    rw [MultiMap.get_foldl_add] at this
    exact this
  · rename_i heq
    rw [heq]
    obtain ⟨k, hk⟩ := hspec
    rw [MultiMap.get_foldl_add] at hk
    exact ⟨k, hk⟩

/-- The core: if, key by key, (stored values ⊎ added values) = (target values ⊎ deleted values),
the batch succeeds and the store holds the target. -/
theorem executeBatch_perm (s : KV) (m : MultiMap) (h : R s m) (adds dels : Pairs)
    (ha : SmallRecs adds) (target : MultiMap)
    (hp : ∀ k, (m.get k ++ valuesAt adds k).Perm (target.get k ++ valuesAt dels k)) :
    ∃ s', executeBatch s adds dels = .ok s' ∧ Represents s' target := by
  have hb := batch_refines s m h adds dels ha
  have hs := batch_spec m adds dels
  cases hm : m.batch adds dels with
  | none =>
    rw [hm] at hs
    obtain ⟨k, hk⟩ := hs
    obtain ⟨r, hr, _⟩ := delsKey_of_perm (hp k)
    rw [hr] at hk; cases hk
  | some m' =>
    rw [hm] at hs hb
    cases he : executeBatch s adds dels with
    | error e => rw [he] at hb; exact hb.elim
    | ok s' =>
      rw [he] at hb
      refine ⟨s', rfl, m', hb, ?_⟩
      intro k
      obtain ⟨r, hr, hperm⟩ := delsKey_of_perm (hp k)
      have := hs k
      rw [hr] at this
      cases this
      exact hperm

/-- a successful batch: what the store then holds -/
theorem executeBatch_ok_spec (s : KV) (m : MultiMap) (h : R s m) (adds dels : Pairs)
    (ha : SmallRecs adds) {s' : KV} (he : executeBatch s adds dels = .ok s') :
    ∃ m', R s' m' ∧ ∀ k, (m.get k ++ valuesAt adds k).Perm (m'.get k ++ valuesAt dels k) := by
  have hb := batch_refines s m h adds dels ha
  have hs := batch_spec m adds dels
  rw [he] at hb
  cases hm : m.batch adds dels with
  | none => rw [hm] at hb; exact hb.elim
  | some m' =>
    rw [hm] at hs hb
    exact ⟨m', hb, fun k => perm_of_delsKey (hs k)⟩

/-- a batch fails iff under some key the deletions are not covered -/
theorem executeBatch_error_of (s : KV) (m : MultiMap) (h : R s m) (adds dels : Pairs)
    (ha : SmallRecs adds)
    (hx : ∃ k v, List.count v (m.get k ++ valuesAt adds k) < List.count v (valuesAt dels k)) :
    ∃ e, executeBatch s adds dels = .error e := by
  cases he : executeBatch s adds dels with
  | error e => exact ⟨e, rfl⟩
  | ok s' =>
    obtain ⟨m', _, hp⟩ := executeBatch_ok_spec s m h adds dels ha he
    obtain ⟨k, v, hlt⟩ := hx
    have := (hp k).count_eq v
    rw [List.count_append, List.count_append] at this
    rw [List.count_append] at hlt
    omega

/-- permuting the scheduled additions and deletions does not matter -/
theorem executeBatch_congr (s : KV) (m : MultiMap) (h : R s m) {a a' d d' : Pairs}
    (ha : SmallRecs a) (pa : a.Perm a') (pd : d.Perm d') {s1 : KV}
    (h1 : executeBatch s a d = .ok s1) :
    ∃ s2 m1, executeBatch s a' d' = .ok s2 ∧ R s1 m1 ∧ Represents s2 m1 := by
  obtain ⟨m1, hR1, hp⟩ := executeBatch_ok_spec s m h a d ha h1
  have hp' : ∀ k, (m.get k ++ valuesAt a' k).Perm (m1.get k ++ valuesAt d' k) := by
    intro k
    have e1 : (m.get k ++ valuesAt a' k).Perm (m.get k ++ valuesAt a k) :=
      (valuesAt_perm pa.symm k).append_left _
    have e2 : (m1.get k ++ valuesAt d k).Perm (m1.get k ++ valuesAt d' k) :=
      (valuesAt_perm pd k).append_left _
    exact (e1.trans (hp k)).trans e2
  obtain ⟨s2, h2, hrep⟩ := executeBatch_perm s m h a' d' (ha.of_perm pa) m1 hp'
  exact ⟨s2, m1, h2, hR1, hrep⟩

/-! ### record lists of files and diffs -/

/-- multiset equation on record lists, moved under a common suffix -/
theorem perm_with_extra {x y p q e : Pairs} (h : (x ++ p).Perm (y ++ q)) :
    ((x ++ e) ++ p).Perm ((y ++ e) ++ q) := by
  rw [List.perm_iff_count] at h ⊢
  intro r
  have := h r
  simp only [List.count_append] at this ⊢
  omega

/-! ### the compiler's line filter, applied by `ApplyDiff` to the payloads -/

/-- one line through the compiler's filter -/
def codecLine (l : Bytes) : Option Bytes :=
  if skippedByParser (trimLeft l) then none else some (trimLeft l)

theorem codecLines_eq_filterMap (file : List Bytes) : codecLines file = file.filterMap codecLine := by
  unfold codecLines
  induction file with
  | nil => rfl
  | cons l ls ih =>
    rw [List.map_cons, List.filterMap_cons]
    unfold codecLine
    by_cases h : skippedByParser (trimLeft l) = true
    · rw [List.filter_cons_of_neg (by simp [h]), if_pos h]; exact ih
    · rw [List.filter_cons_of_pos (by simp [h]), if_neg h, ih]; rfl

theorem codecLines_append (a b : List Bytes) :
    codecLines (a ++ b) = codecLines a ++ codecLines b := by
  simp only [codecLines_eq_filterMap, List.filterMap_append]

theorem codecLines_perm {a b : List Bytes} (h : a.Perm b) : (codecLines a).Perm (codecLines b) := by
  simp only [codecLines_eq_filterMap]
  exact h.filterMap _

theorem mem_codecLines {file : List Bytes} {p : Bytes} :
    p ∈ codecLines file ↔ ∃ l ∈ file, trimLeft l = p ∧ skippedByParser p = false := by
  unfold codecLines
  rw [List.mem_filter, List.mem_map]
  constructor
  · rintro ⟨⟨l, hl, rfl⟩, hs⟩
    exact ⟨l, hl, rfl, by simpa using hs⟩
  · rintro ⟨l, hl, rfl, hs⟩
    exact ⟨⟨l, hl, rfl⟩, by simp [hs]⟩

theorem classify_cons (c : UInt8) (p : Bytes) :
    classify (c :: p) = if c = 35 then .skip
      else if c = 43 then payloadKind .plus p
      else if c = 45 then payloadKind .minus p
      else .bad := rfl

theorem payloadOf_cons (op c : UInt8) (p : Bytes) :
    payloadOf op (c :: p) = if c = op then some p else none := rfl

theorem payloadKind_plus (p : Bytes) :
    (match payloadKind .plus p with | .plus q => some q | _ => none) = codecLine p := by
  unfold payloadKind codecLine
  by_cases hs : skippedByParser (trimLeft p) = true
  · simp only [if_pos hs]
  · simp only [if_neg hs]

theorem payloadKind_minus (p : Bytes) :
    (match payloadKind .minus p with | .minus q => some q | _ => none) = codecLine p := by
  unfold payloadKind codecLine
  by_cases hs : skippedByParser (trimLeft p) = true
  · simp only [if_pos hs]
  · simp only [if_neg hs]

theorem payloadKind_plus_minus (p : Bytes) :
    (match payloadKind .plus p with | .minus q => some q | _ => none) = none := by
  unfold payloadKind
  by_cases hs : skippedByParser (trimLeft p) = true
  · simp only [if_pos hs]
  · simp only [if_neg hs]

theorem payloadKind_minus_plus (p : Bytes) :
    (match payloadKind .minus p with | .plus q => some q | _ => none) = none := by
  unfold payloadKind
  by_cases hs : skippedByParser (trimLeft p) = true
  · simp only [if_pos hs]
  · simp only [if_neg hs]

theorem classify_plus_eq (l : Bytes) :
    (match classify l with | .plus p => some p | _ => none) = (payloadOf 43 l).bind codecLine := by
  cases l with
  | nil => rfl
  | cons c p =>
    rw [classify_cons, payloadOf_cons]
    by_cases h35 : c = 35
    · subst h35; rfl
    · rw [if_neg h35]
      by_cases h43 : c = 43
      · rw [if_pos h43, if_pos h43, Option.bind_some]; exact payloadKind_plus p
      · rw [if_neg h43, if_neg h43, Option.bind_none]
        by_cases h45 : c = 45
        · rw [if_pos h45]; exact payloadKind_minus_plus p
        · rw [if_neg h45]

theorem classify_minus_eq (l : Bytes) :
    (match classify l with | .minus p => some p | _ => none) = (payloadOf 45 l).bind codecLine := by
  cases l with
  | nil => rfl
  | cons c p =>
    rw [classify_cons, payloadOf_cons]
    by_cases h35 : c = 35
    · subst h35; rfl
    · rw [if_neg h35]
      by_cases h43 : c = 43
      · subst h43
        rw [if_pos rfl, if_neg (by decide), Option.bind_none]; exact payloadKind_plus_minus p
      · rw [if_neg h43]
        by_cases h45 : c = 45
        · rw [if_pos h45, if_pos h45, Option.bind_some]; exact payloadKind_minus p
        · rw [if_neg h45, if_neg h45, Option.bind_none]

/-- the payloads `ApplyDiff` converts are the raw payloads seen through the compiler's filter -/
theorem plusOf_eq_codecLines (diff : List Bytes) : plusOf diff = codecLines (rawPlusOf diff) := by
  rw [codecLines_eq_filterMap]
  unfold plusOf rawPlusOf
  rw [List.filterMap_filterMap]
  congr 1
  funext l
  exact classify_plus_eq l

theorem minusOf_eq_codecLines (diff : List Bytes) : minusOf diff = codecLines (rawMinusOf diff) := by
  rw [codecLines_eq_filterMap]
  unfold minusOf rawMinusOf
  rw [List.filterMap_filterMap]
  congr 1
  funext l
  exact classify_minus_eq l

end DnsVerif.ApplyDiff
