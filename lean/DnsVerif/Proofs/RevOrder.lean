/-
Helper lemmas for C02: the byte order on v2 ("reversed name") keys, the two prefix scanners
`commonPrefix` / `lengthWithoutLastLabel`, and the specification of `Store.seekForPrev`.

A name is a list of labels; `flat` is its wire form without the terminating zero and
`Name.pack ls = flat ls ++ [0]`. All v2 keys have the shape `pre ++ pack ls ++ suf`
(`pre` a marker / map type, `ls` the REVERSED label list, `suf` a location or a map suffix).
-/
import DnsVerif.Model.Serve
import DnsVerif.Proofs.MultiStore

namespace DnsVerif.RevOrder
open DnsVerif DnsVerif.Rdb DnsVerif.Name DnsVerif.Serve DnsVerif.Loc

/-! ### the byte order: small facts -/

theorem bytesLt_append_left (p x y : Bytes) : bytesLt (p ++ x) (p ++ y) = bytesLt x y := by
  induction p with
  | nil => rfl
  | cons a p ih =>
    simp only [List.cons_append, bytesLt]
    rw [if_neg (Nat.lt_irrefl _), if_neg (Nat.lt_irrefl _), ih]

theorem bytesLt_cons_of_lt {a b : UInt8} (h : a.toNat < b.toNat) (x y : Bytes) :
    bytesLt (a :: x) (b :: y) = true := by
  simp only [bytesLt]; rw [if_pos h]

theorem bytesLt_cons_of_gt {a b : UInt8} (h : b.toNat < a.toNat) (x y : Bytes) :
    bytesLt (a :: x) (b :: y) = false := by
  simp only [bytesLt]; rw [if_neg (by omega), if_pos h]

theorem bytesLe_iff {a b : Bytes} : bytesLe a b = true ↔ bytesLt b a = false := by
  unfold bytesLe; cases bytesLt b a <;> simp

theorem bytesLe_false_iff {a b : Bytes} : bytesLe a b = false ↔ bytesLt b a = true := by
  unfold bytesLe; cases bytesLt b a <;> simp

theorem bytesLe_refl (a : Bytes) : bytesLe a a = true := bytesLe_iff.2 (bytesLt_irrefl a)

theorem bytesLe_of_lt {a b : Bytes} (h : bytesLt a b = true) : bytesLe a b = true :=
  bytesLe_iff.2 (bytesLt_asymm h)

theorem bytesLe_trans {a b c : Bytes} (h1 : bytesLe a b = true) (h2 : bytesLe b c = true) :
    bytesLe a c = true :=
  bytesLe_iff.2 (bytesLe_trans' (bytesLe_iff.1 h1) (bytesLe_iff.1 h2))

theorem bytesLe_antisymm {a b : Bytes} (h1 : bytesLe a b = true) (h2 : bytesLe b a = true) : a = b :=
  bytesLt_total (bytesLe_iff.1 h2) (bytesLe_iff.1 h1)

theorem bytesLe_append_left (p x y : Bytes) : bytesLe (p ++ x) (p ++ y) = bytesLe x y := by
  unfold bytesLe; rw [bytesLt_append_left]

/-- two byte strings that differ at a definite position: the order of any extensions is decided there -/
def Div (X Y : Bytes) : Prop :=
  ∃ (c : Bytes) (u v : UInt8) (X' Y' : Bytes), X = c ++ u :: X' ∧ Y = c ++ v :: Y' ∧ u ≠ v

theorem Div.symm {X Y : Bytes} (h : Div X Y) : Div Y X := by
  obtain ⟨c, u, v, X', Y', h1, h2, h3⟩ := h
  exact ⟨c, v, u, Y', X', h2, h1, fun e => h3 e.symm⟩

/-- the order of two diverging strings does not depend on what follows them -/
theorem Div.lt_indep {X Y : Bytes} (h : Div X Y) :
    ∃ b : Bool, (∀ s t, bytesLt (X ++ s) (Y ++ t) = b) ∧ (∀ s t, bytesLt (Y ++ t) (X ++ s) = !b) := by
  obtain ⟨c, u, v, X', Y', rfl, rfl, huv⟩ := h
  have hne : u.toNat ≠ v.toNat := fun e => huv (UInt8.toNat_inj.1 e)
  by_cases hlt : u.toNat < v.toNat
  · refine ⟨true, fun s t => ?_, fun s t => ?_⟩
    · rw [List.append_assoc, List.append_assoc, bytesLt_append_left]
      exact bytesLt_cons_of_lt hlt _ _
    · rw [List.append_assoc, List.append_assoc, bytesLt_append_left]
      exact bytesLt_cons_of_gt hlt _ _
  · have hgt : v.toNat < u.toNat := by omega
    refine ⟨false, fun s t => ?_, fun s t => ?_⟩
    · rw [List.append_assoc, List.append_assoc, bytesLt_append_left]
      exact bytesLt_cons_of_gt hgt _ _
    · rw [List.append_assoc, List.append_assoc, bytesLt_append_left]
      exact bytesLt_cons_of_lt hgt _ _

theorem div_of_ne_same_length : ∀ (x y : Bytes), x.length = y.length → x ≠ y → Div x y
  | [], [], _, h => absurd rfl h
  | [], _ :: _, h, _ => by simp at h
  | _ :: _, [], h, _ => by simp at h
  | a :: x, b :: y, hl, hne => by
    by_cases hab : a = b
    · subst hab
      have hl' : x.length = y.length := by simpa using hl
      have hne' : x ≠ y := fun e => hne (by rw [e])
      obtain ⟨c, u, v, X', Y', h1, h2, h3⟩ := div_of_ne_same_length x y hl' hne'
      exact ⟨a :: c, u, v, X', Y', by rw [h1]; rfl, by rw [h2]; rfl, h3⟩
    · exact ⟨[], a, b, x, y, rfl, rfl, hab⟩

/-! ### names -/

/-- one label on the wire -/
def tok (l : Bytes) : Bytes := UInt8.ofNat l.length :: l

/-- wire form without the terminating zero -/
def flat (ls : List Bytes) : Bytes := ls.flatMap tok

theorem pack_eq (ls : List Bytes) : pack ls = flat ls ++ [0] := rfl

@[simp] theorem flat_nil : flat [] = [] := rfl
theorem flat_cons (x : Bytes) (ls : List Bytes) : flat (x :: ls) = tok x ++ flat ls := by
  simp [flat]
theorem flat_append (a b : List Bytes) : flat (a ++ b) = flat a ++ flat b := by
  simp [flat]
theorem pack_append (a b : List Bytes) : pack (a ++ b) = flat a ++ pack b := by
  rw [pack_eq, pack_eq, flat_append, List.append_assoc]
theorem pack_cons (x : Bytes) (ls : List Bytes) : pack (x :: ls) = tok x ++ pack ls := by
  rw [pack_eq, pack_eq, flat_cons, List.append_assoc]
theorem pack_nil : pack [] = [0] := rfl
theorem pack_length (ls : List Bytes) : (pack ls).length = (flat ls).length + 1 := by
  rw [pack_eq]; simp
theorem tok_length (x : Bytes) : (tok x).length = x.length + 1 := by simp [tok]

/-- a label that can be written with a one-byte length -/
def LabelOK (l : Bytes) : Prop := 0 < l.length ∧ l.length < 256

instance (l : Bytes) : Decidable (LabelOK l) := by unfold LabelOK; infer_instance

/-- every label is non-empty and shorter than 256 bytes -/
def NameOK (ls : List Bytes) : Prop := ∀ l ∈ ls, LabelOK l

instance (ls : List Bytes) : Decidable (NameOK ls) := by unfold NameOK; infer_instance

theorem NameOK.nil : NameOK [] := fun _ h => by simp at h
theorem NameOK.of_append_left {a b : List Bytes} (h : NameOK (a ++ b)) : NameOK a :=
  fun l hl => h l (List.mem_append_left _ hl)
theorem NameOK.of_append_right {a b : List Bytes} (h : NameOK (a ++ b)) : NameOK b :=
  fun l hl => h l (List.mem_append_right _ hl)
theorem NameOK.head {x : Bytes} {a : List Bytes} (h : NameOK (x :: a)) : LabelOK x :=
  h x (List.mem_cons_self ..)
theorem NameOK.tail {x : Bytes} {a : List Bytes} (h : NameOK (x :: a)) : NameOK a :=
  fun l hl => h l (List.mem_cons_of_mem _ hl)
theorem NameOK.reverse {a : List Bytes} (h : NameOK a) : NameOK a.reverse :=
  fun l hl => h l (List.mem_reverse.1 hl)
theorem NameOK.prefix {a n : List Bytes} (h : NameOK n) (hp : a <+: n) : NameOK a := by
  obtain ⟨t, rfl⟩ := hp; exact h.of_append_left

theorem LabelOK.toNat {l : Bytes} (h : LabelOK l) : (UInt8.ofNat l.length).toNat = l.length := by
  rw [UInt8.toNat_ofNat']; exact Nat.mod_eq_of_lt h.2

theorem tok_div {x y : Bytes} (hx : LabelOK x) (hy : LabelOK y) (hne : x ≠ y) : Div (tok x) (tok y) := by
  by_cases hl : x.length = y.length
  · obtain ⟨c, u, v, X', Y', h1, h2, h3⟩ := div_of_ne_same_length x y hl hne
    refine ⟨UInt8.ofNat x.length :: c, u, v, X', Y', ?_, ?_, h3⟩
    · unfold tok; exact congrArg _ h1
    · unfold tok; rw [← hl]; exact congrArg _ h2
  · refine ⟨[], UInt8.ofNat x.length, UInt8.ofNat y.length, x, y, rfl, rfl, ?_⟩
    intro e
    have := congrArg UInt8.toNat e
    rw [hx.toNat, hy.toNat] at this
    exact hl this

/-- a key of the v2 layout -/
def K (pre : Bytes) (ls : List Bytes) (suf : Bytes) : Bytes := pre ++ pack ls ++ suf

/-- the resource-record key of the reversed name `ls` for location `loc` -/
def Key (ls : List Bytes) (loc : Bytes) : Bytes := K Generated.dnsdata_ResourceRecordsKeyMarker ls loc

theorem K_append (pre : Bytes) (a t : List Bytes) (suf : Bytes) :
    K pre (a ++ t) suf = (pre ++ flat a) ++ (pack t ++ suf) := by
  unfold K; rw [pack_append]; simp [List.append_assoc]

theorem K_self (pre : Bytes) (a : List Bytes) (suf : Bytes) :
    K pre a suf = (pre ++ flat a) ++ (0 :: suf) := by
  unfold K; rw [pack_eq]; simp [List.append_assoc]

/-- (O1) the key of a proper ancestor is below every key of a descendant, whatever the suffixes -/
theorem key_lt_of_proper_prefix (pre : Bytes) (a : List Bytes) (x : Bytes) (t : List Bytes)
    (hx : LabelOK x) (s s' : Bytes) :
    bytesLt (K pre a s') (K pre (a ++ x :: t) s) = true := by
  rw [K_append, K_self, bytesLt_append_left, pack_cons]
  unfold tok
  simp only [List.cons_append]
  apply bytesLt_cons_of_lt
  rw [hx.toNat]; exact hx.1

/-- (O2) keys of one name are ordered by their suffixes -/
theorem key_lt_same_name (pre : Bytes) (n : List Bytes) (l l' : Bytes) :
    bytesLt (K pre n l) (K pre n l') = bytesLt l l' := by
  unfold K; rw [bytesLt_append_left]

theorem key_le_same_name (pre : Bytes) (n : List Bytes) (l l' : Bytes) :
    bytesLe (K pre n l) (K pre n l') = bytesLe l l' := by
  unfold bytesLe; rw [key_lt_same_name]

/-- how two names relate -/
theorem name_cases : ∀ (a m : List Bytes),
    a <+: m ∨ (∃ x t, a = m ++ x :: t) ∨
    (∃ p x y a' m', a = p ++ x :: a' ∧ m = p ++ y :: m' ∧ x ≠ y)
  | [], m => Or.inl (List.nil_prefix)
  | x :: a, [] => Or.inr (Or.inl ⟨x, a, rfl⟩)
  | x :: a, y :: m => by
    by_cases hxy : x = y
    · subst hxy
      rcases name_cases a m with h | ⟨z, t, h⟩ | ⟨p, u, v, a', m', h1, h2, h3⟩
      · exact Or.inl ((List.prefix_cons_inj x).2 h)
      · exact Or.inr (Or.inl ⟨z, t, by rw [h]; rfl⟩)
      · exact Or.inr (Or.inr ⟨x :: p, u, v, a', m', by rw [h1]; rfl, by rw [h2]; rfl, h3⟩)
    · exact Or.inr (Or.inr ⟨[], x, y, a, m, rfl, rfl, hxy⟩)

/-- keys of names that part at a label: the order is decided by the two labels alone -/
theorem key_div (pre : Bytes) (p : List Bytes) {x y : Bytes} (hx : LabelOK x) (hy : LabelOK y)
    (hne : x ≠ y) :
    ∃ b : Bool, (∀ a' m' s t, bytesLt (K pre (p ++ x :: a') s) (K pre (p ++ y :: m') t) = b) ∧
      (∀ a' m' s t, bytesLt (K pre (p ++ y :: m') t) (K pre (p ++ x :: a') s) = !b) := by
  obtain ⟨b, h1, h2⟩ := (tok_div hx hy hne).lt_indep
  refine ⟨b, fun a' m' s t => ?_, fun a' m' s t => ?_⟩
  · rw [K_append, K_append, bytesLt_append_left, pack_cons, pack_cons, List.append_assoc,
      List.append_assoc]
    exact h1 _ _
  · rw [K_append, K_append, bytesLt_append_left, pack_cons, pack_cons, List.append_assoc,
      List.append_assoc]
    exact h2 _ _

/-- (O3, sandwich) a key between a key of `a` and a key of a descendant-or-self `n` of `a`
belongs to a descendant-or-self of `a` -/
theorem key_sandwich (pre : Bytes) {a n m : List Bytes} (hn : NameOK n) (hm : NameOK m)
    (han : a <+: n) {l l' l'' : Bytes}
    (h1 : bytesLe (K pre a l') (K pre m l'') = true)
    (h2 : bytesLe (K pre m l'') (K pre n l) = true) : a <+: m := by
  rcases name_cases a m with h | ⟨x, t, h⟩ | ⟨p, x, y, a', m', ha, hm', hxy⟩
  · exact h
  · -- `m` a proper ancestor of `a`: its keys are below those of `a`
    exfalso
    have hx : LabelOK x := by
      have : NameOK a := hn.prefix han
      rw [h] at this
      exact this.of_append_right.head
    have := key_lt_of_proper_prefix pre m x t hx l' l''
    rw [← h] at this
    rw [bytesLe_iff.1 h1] at this; cases this
  · exfalso
    obtain ⟨t, rfl⟩ := han
    have hx : LabelOK x := by
      have : NameOK a := hn.of_append_left
      rw [ha] at this
      exact this.of_append_right.head
    have hy : LabelOK y := by
      rw [hm'] at hm
      exact hm.of_append_right.head
    obtain ⟨b, hb1, hb2⟩ := key_div pre p hx hy hxy
    have e1 := hb2 a' m' l' l''
    rw [← ha, ← hm', bytesLe_iff.1 h1] at e1
    have e2 := hb1 (a' ++ t) m' l l''
    have hn' : p ++ x :: (a' ++ t) = a ++ t := by rw [ha]; simp
    rw [hn', ← hm', bytesLe_iff.1 h2] at e2
    rw [← e2] at e1; cases e1

/-! ### longest common label prefix -/

def lcp : List Bytes → List Bytes → List Bytes
  | x :: a, y :: b => if x = y then x :: lcp a b else []
  | _, _ => []

theorem lcp_cons_same (x : Bytes) (a b : List Bytes) : lcp (x :: a) (x :: b) = x :: lcp a b := by
  simp [lcp]

theorem lcp_cons_ne {x y : Bytes} (h : x ≠ y) (a b : List Bytes) : lcp (x :: a) (y :: b) = [] := by
  simp [lcp, h]

theorem lcp_spec : ∀ (n m : List Bytes), ∃ n' m', n = lcp n m ++ n' ∧ m = lcp n m ++ m' ∧
    (n' = [] ∨ m' = [] ∨ ∃ x y n'' m'', n' = x :: n'' ∧ m' = y :: m'' ∧ x ≠ y)
  | [], m => ⟨[], m, by simp [lcp]⟩
  | x :: a, [] => ⟨x :: a, [], by simp [lcp]⟩
  | x :: a, y :: b => by
    by_cases hxy : x = y
    · subst hxy
      obtain ⟨n', m', h1, h2, h3⟩ := lcp_spec a b
      refine ⟨n', m', ?_, ?_, h3⟩
      · rw [lcp_cons_same]; exact congrArg _ h1
      · rw [lcp_cons_same]; exact congrArg _ h2
    · refine ⟨x :: a, y :: b, ?_, ?_, Or.inr (Or.inr ⟨x, y, a, b, rfl, rfl, hxy⟩)⟩
      · simp [lcp, if_neg hxy]
      · simp [lcp, if_neg hxy]

theorem lcp_prefix_left (n m : List Bytes) : lcp n m <+: n := by
  obtain ⟨n', _, h, _, _⟩ := lcp_spec n m; exact ⟨n', h.symm⟩

theorem lcp_prefix_right (n m : List Bytes) : lcp n m <+: m := by
  obtain ⟨_, m', _, h, _⟩ := lcp_spec n m; exact ⟨m', h.symm⟩

theorem prefix_lcp : ∀ {p n m : List Bytes}, p <+: n → p <+: m → p <+: lcp n m
  | [], _, _, _, _ => List.nil_prefix
  | z :: p, [], _, h, _ => by simp at h
  | z :: p, _ :: _, [], _, h => by simp at h
  | z :: p, x :: a, y :: b, h1, h2 => by
    rw [List.cons_prefix_cons] at h1 h2
    obtain ⟨rfl, h1⟩ := h1
    obtain ⟨rfl, h2⟩ := h2
    rw [lcp_cons_same, List.cons_prefix_cons]
    exact ⟨rfl, prefix_lcp h1 h2⟩

theorem lcp_self (n : List Bytes) : lcp n n = n := by
  induction n with
  | nil => rfl
  | cons x a ih => simp [lcp, ih]

theorem lcp_eq_left_iff {n m : List Bytes} : lcp n m = n ↔ n <+: m := by
  constructor
  · intro h; rw [← h]; exact lcp_prefix_right n m
  · intro h
    have h1 : n <+: lcp n m := prefix_lcp (List.prefix_refl n) h
    have h2 := lcp_prefix_left n m
    exact List.IsPrefix.eq_of_length_le h2 h1.length_le

/-- two prefixes of one list are comparable -/
theorem prefix_total {a b n : List Bytes} (ha : a <+: n) (hb : b <+: n) : a <+: b ∨ b <+: a := by
  rcases Nat.le_total a.length b.length with h | h
  · exact Or.inl (List.prefix_of_prefix_length_le ha hb h)
  · exact Or.inr (List.prefix_of_prefix_length_le hb ha h)

theorem proper_prefix_of {a n : List Bytes} (h : a <+: n) (hne : a ≠ n) : ∃ x t, n = a ++ x :: t := by
  obtain ⟨t, rfl⟩ := h
  cases t with
  | nil => simp at hne
  | cons x t => exact ⟨x, t, rfl⟩

/-! ### (O4) `findCommonLongestPrefix` and `getLengthWithoutLastLabel` -/

theorem getElem?_append_at (A : Bytes) (x : UInt8) (R : Bytes) : (A ++ x :: R)[A.length]? = some x := by
  rw [List.getElem?_append_right (Nat.le_refl _)]; simp

theorem getElem?_at_end (A : Bytes) : A[A.length]? = none := by simp

theorem labelMatch_spec : ∀ (x y A B R1 R2 : Bytes), A.length = B.length → x.length = y.length →
    Loc.labelMatch (A ++ x ++ R1) (B ++ y ++ R2) A.length x.length = some (decide (x = y))
  | [], [], A, B, R1, R2, _, _ => by simp [Loc.labelMatch]
  | [], _ :: _, _, _, _, _, _, h => by simp at h
  | _ :: _, [], _, _, _, _, _, h => by simp at h
  | a :: x, b :: y, A, B, R1, R2, hAB, hxy => by
    have hxy' : x.length = y.length := by simpa using hxy
    simp only [List.length_cons, Loc.labelMatch]
    have e1 : (A ++ a :: x ++ R1)[A.length]? = some a := by
      rw [List.append_assoc]; exact getElem?_append_at A a (x ++ R1)
    have e2 : (B ++ b :: y ++ R2)[A.length]? = some b := by
      rw [hAB, List.append_assoc]; exact getElem?_append_at B b (y ++ R2)
    rw [e1, e2]
    by_cases hab : a = b
    · subst hab
      simp only [ne_eq, not_true_eq_false, if_false]
      have := labelMatch_spec x y (A ++ [a]) (B ++ [a]) R1 R2 (by simp [hAB]) hxy'
      simp only [List.length_append, List.length_cons, List.length_nil, List.append_assoc,
        List.cons_append, List.nil_append] at this
      simp only [List.append_assoc, List.cons_append]
      rw [this]
      simp
    · simp [hab]

theorem commonPrefix_ne {s1 s2 : Bytes} {i : Nat} {a b : UInt8} (f : Nat) (h1 : s1[i]? = some a)
    (h2 : s2[i]? = some b) (hab : a ≠ b) : Loc.commonPrefix s1 s2 (f + 1) i = some i := by
  simp only [Loc.commonPrefix, h1, h2]; rw [if_pos hab]

theorem commonPrefix_match {s1 s2 : Bytes} {i : Nat} {a : UInt8} (f : Nat) (h1 : s1[i]? = some a)
    (h2 : s2[i]? = some a) (hm : Loc.labelMatch s1 s2 (i + 1) a.toNat = some true) :
    Loc.commonPrefix s1 s2 (f + 1) i = Loc.commonPrefix s1 s2 f (i + a.toNat + 1) := by
  simp only [Loc.commonPrefix, h1, h2, hm]; rw [if_neg (by simp)]

theorem commonPrefix_mismatch {s1 s2 : Bytes} {i : Nat} {a : UInt8} (f : Nat) (h1 : s1[i]? = some a)
    (h2 : s2[i]? = some a) (hm : Loc.labelMatch s1 s2 (i + 1) a.toNat = some false) :
    Loc.commonPrefix s1 s2 (f + 1) i = some i := by
  simp only [Loc.commonPrefix, h1, h2, hm]; rw [if_neg (by simp)]

theorem commonPrefix_end {s1 s2 : Bytes} {i : Nat} (f : Nat) (h1 : s1[i]? = none) :
    Loc.commonPrefix s1 s2 f i = some i := by
  cases f with
  | zero => rfl
  | succ f => simp only [Loc.commonPrefix, h1]

theorem ofNat_len_ne_zero {x : Bytes} (hx : LabelOK x) : UInt8.ofNat x.length ≠ 0 := by
  intro e; have := congrArg UInt8.toNat e; rw [hx.toNat] at this
  have h0 := hx.1
  have h2 : (0 : UInt8).toNat = 0 := rfl
  omega

/-- (O4a) `commonPrefix` on two packed names, started at the beginning of a label in both:
the byte length of the common label prefix; the whole length (zero included) when they are equal -/
theorem commonPrefix_spec : ∀ (n m : List Bytes) (A B : Bytes) (fuel : Nat), NameOK n → NameOK m →
    A.length = B.length → n.length + 2 ≤ fuel →
    Loc.commonPrefix (A ++ pack n) (B ++ pack m) fuel A.length =
      some (A.length + if n = m then (pack n).length else (flat (lcp n m)).length)
  | [], [], A, B, fuel, _, _, hAB, hf => by
    obtain ⟨f, rfl⟩ : ∃ f, fuel = f + 1 := ⟨fuel - 1, by simp at hf; omega⟩
    have h1 : (A ++ pack [])[A.length]? = some 0 := getElem?_append_at A 0 []
    have h2 : (B ++ pack [])[A.length]? = some 0 := by rw [hAB]; exact getElem?_append_at B 0 []
    rw [commonPrefix_match f h1 h2 (by simp [Loc.labelMatch])]
    rw [commonPrefix_end]
    · simp [pack_nil]
    · simp [pack_nil]
  | [], y :: m, A, B, fuel, _, hm, hAB, hf => by
    obtain ⟨f, rfl⟩ : ∃ f, fuel = f + 1 := ⟨fuel - 1, by simp at hf; omega⟩
    have h1 : (A ++ pack [])[A.length]? = some 0 := getElem?_append_at A 0 []
    have h2 : (B ++ pack (y :: m))[A.length]? = some (UInt8.ofNat y.length) := by
      rw [hAB, pack_cons]; exact getElem?_append_at B _ _
    rw [commonPrefix_ne f h1 h2 (fun e => ofNat_len_ne_zero hm.head e.symm)]
    simp [lcp]
  | x :: n, [], A, B, fuel, hn, _, hAB, hf => by
    obtain ⟨f, rfl⟩ : ∃ f, fuel = f + 1 := ⟨fuel - 1, by simp at hf; omega⟩
    have h1 : (A ++ pack (x :: n))[A.length]? = some (UInt8.ofNat x.length) := by
      rw [pack_cons]; exact getElem?_append_at A _ _
    have h2 : (B ++ pack [])[A.length]? = some 0 := by rw [hAB]; exact getElem?_append_at B 0 []
    rw [commonPrefix_ne f h1 h2 (ofNat_len_ne_zero hn.head)]
    simp [lcp]
  | x :: n, y :: m, A, B, fuel, hn, hm, hAB, hf => by
    obtain ⟨f, rfl⟩ : ∃ f, fuel = f + 1 := ⟨fuel - 1, by simp at hf; omega⟩
    have hx := hn.head
    have hy := hm.head
    have h1 : (A ++ pack (x :: n))[A.length]? = some (UInt8.ofNat x.length) := by
      rw [pack_cons]; exact getElem?_append_at A _ _
    have h2 : (B ++ pack (y :: m))[A.length]? = some (UInt8.ofNat y.length) := by
      rw [hAB, pack_cons]; exact getElem?_append_at B _ _
    by_cases hl : x.length = y.length
    · have hm1 := labelMatch_spec x y (A ++ [UInt8.ofNat x.length]) (B ++ [UInt8.ofNat y.length])
        (pack n) (pack m) (by simp [hAB]) hl
      have e1 : A ++ [UInt8.ofNat x.length] ++ x ++ pack n = A ++ pack (x :: n) := by
        rw [pack_cons]; simp [tok]
      have e2 : B ++ [UInt8.ofNat y.length] ++ y ++ pack m = B ++ pack (y :: m) := by
        rw [pack_cons]; simp [tok]
      rw [e1, e2] at hm1
      simp only [List.length_append, List.length_cons, List.length_nil, Nat.zero_add] at hm1
      rw [← hl] at h2
      by_cases hxy : x = y
      · subst hxy
        rw [commonPrefix_match f h1 h2 (by rw [hx.toNat, hm1]; simp)]
        have ih := commonPrefix_spec n m (A ++ tok x) (B ++ tok x) f hn.tail hm.tail
          (by simp [hAB]) (by simp at hf ⊢; omega)
        have e3 : A ++ tok x ++ pack n = A ++ pack (x :: n) := by rw [pack_cons]; simp
        have e4 : B ++ tok x ++ pack m = B ++ pack (x :: m) := by rw [pack_cons]; simp
        rw [e3, e4] at ih
        have e5 : (A ++ tok x).length = A.length + (UInt8.ofNat x.length).toNat + 1 := by
          rw [hx.toNat]; simp [tok]; omega
        rw [e5] at ih
        rw [ih]
        have e6 : lcp (x :: n) (x :: m) = x :: lcp n m := by simp [lcp]
        rw [e6, flat_cons, pack_cons, hx.toNat]
        by_cases hnm : n = m
        · simp [hnm, tok]; omega
        · simp [hnm, tok]; omega
      · rw [commonPrefix_mismatch f h1 h2 (by rw [hx.toNat, hm1]; simp [hxy])]
        simp [lcp, hxy]
    · have hlen : UInt8.ofNat x.length ≠ UInt8.ofNat y.length := by
        intro e; have := congrArg UInt8.toNat e; rw [hx.toNat, hy.toNat] at this; exact hl this
      rw [commonPrefix_ne f h1 h2 hlen]
      have hxy : x ≠ y := fun e => hl (by rw [e])
      simp [lcp, hxy]

theorem lwl_step {q : Bytes} {qLength i : Nat} {n : UInt8} (f last : Nat)
    (hi : i < (qLength % 256 + 255) % 256) (hq : q[i]? = some n) :
    Loc.lengthWithoutLastLabel q qLength (f + 1) i last =
      Loc.lengthWithoutLastLabel q qLength f ((i + n.toNat + 1) % 256) i := by
  simp only [Loc.lengthWithoutLastLabel]; rw [if_pos hi, hq]

theorem lwl_stop {q : Bytes} {qLength i : Nat} (f last : Nat)
    (hi : ¬ i < (qLength % 256 + 255) % 256) :
    Loc.lengthWithoutLastLabel q qLength f i last = some (last + 1) := by
  cases f with
  | zero => rfl
  | succ f => simp only [Loc.lengthWithoutLastLabel]; rw [if_neg hi]

theorem length_le_flat_length : ∀ (c : List Bytes), c.length ≤ (flat c).length
  | [] => Nat.le_refl _
  | x :: c => by
    have := length_le_flat_length c
    rw [flat_cons, List.length_append, tok_length, List.length_cons]; omega

theorem lwl_spec : ∀ (e d : List Bytes) (R : Bytes) (fuel last : Nat), NameOK e →
    (flat (d ++ e)).length ≤ 255 → e.length < fuel →
    Loc.lengthWithoutLastLabel (flat d ++ flat e ++ R) ((flat (d ++ e)).length + 1) fuel
        (flat d).length last =
      some ((match e with | [] => last | _ :: _ => (flat (d ++ e.dropLast)).length) + 1)
  | [], d, R, fuel, last, _, hB, _ => by
    rw [lwl_stop]
    simp only [List.append_nil]
    omega
  | x :: e, d, R, fuel, last, he, hB, hf => by
    obtain ⟨f, rfl⟩ : ∃ f, fuel = f + 1 := ⟨fuel - 1, by simp at hf; omega⟩
    have hx := he.head
    have hlen : (flat (d ++ x :: e)).length = (flat d).length + (x.length + 1) + (flat e).length := by
      rw [flat_append, flat_cons]; simp [tok_length]; omega
    have hi : (flat d).length < (((flat (d ++ x :: e)).length + 1) % 256 + 255) % 256 := by omega
    have hq : (flat d ++ flat (x :: e) ++ R)[(flat d).length]? = some (UInt8.ofNat x.length) := by
      rw [flat_cons, List.append_assoc]
      exact getElem?_append_at (flat d) _ _
    rw [lwl_step f last hi hq, hx.toNat]
    have e1 : flat d ++ flat (x :: e) ++ R = flat (d ++ [x]) ++ flat e ++ R := by
      rw [flat_append, flat_cons, flat_cons]; simp
    have e2 : ((flat d).length + x.length + 1) % 256 = (flat (d ++ [x])).length := by
      rw [flat_append, flat_cons]; simp [tok_length]; omega
    have e3 : d ++ x :: e = (d ++ [x]) ++ e := by simp
    rw [e1, e2, e3]
    rw [lwl_spec e (d ++ [x]) R f (flat d).length he.tail (by rw [← e3]; exact hB)
      (by simp at hf; omega)]
    cases e with
    | nil => simp
    | cons y e => simp

/-- (O4b) `getLengthWithoutLastLabel` on the reversed query at the length of a non-root prefix `c`
returns the length of the parent's packed form -/
theorem lwl_prefix {c t : List Bytes} (hc : NameOK c) (hne : c ≠ []) (hlen : (pack c).length ≤ 256) :
    Loc.lengthWithoutLastLabel (pack (c ++ t)) (pack c).length 256 0 0 =
      some (pack c.dropLast).length := by
  have h := lwl_spec c [] (pack t) 256 0 hc (by rw [pack_length] at hlen; simpa using hlen)
    (by have := length_le_flat_length c; rw [pack_length] at hlen; omega)
  simp only [flat_nil, List.nil_append, List.length_nil] at h
  rw [pack_append, pack_length, h]
  cases c with
  | nil => exact absurd rfl hne
  | cons x c => simp [pack_length]

/-! ### `SeekForPrev` -/

/-- one step of the fold in `Store.seekForPrev` -/
def seekStep (k : Bytes) (best : Option (Bytes × List Bytes)) (e : Bytes × List Bytes) :
    Option (Bytes × List Bytes) :=
  if bytesLe e.1 k then
    match best with
    | none => some e
    | some b => if bytesLt b.1 e.1 then some e else some b
  else best

theorem seekForPrev_eq (s : Store) (k : Bytes) : s.seekForPrev k = s.foldl (seekStep k) none := rfl

theorem seekStep_cases (k : Bytes) (best : Option (Bytes × List Bytes)) (e : Bytes × List Bytes) :
    (seekStep k best e = best ∧ (bytesLe e.1 k = false ∨ ∃ b, best = some b ∧ bytesLt b.1 e.1 = false)) ∨
    (seekStep k best e = some e ∧ bytesLe e.1 k = true ∧ ∀ b, best = some b → bytesLt b.1 e.1 = true) := by
  unfold seekStep
  by_cases hle : bytesLe e.1 k = true
  · rw [if_pos hle]
    cases best with
    | none => exact Or.inr ⟨rfl, hle, fun b hb => by cases hb⟩
    | some b =>
      by_cases hlt : bytesLt b.1 e.1 = true
      · dsimp only; rw [if_pos hlt]
        exact Or.inr ⟨rfl, hle, fun b' hb' => by cases hb'; exact hlt⟩
      · have hlt' : bytesLt b.1 e.1 = false := by simpa using hlt
        dsimp only; rw [if_neg hlt]
        exact Or.inl ⟨rfl, Or.inr ⟨b, rfl, hlt'⟩⟩
  · have hle' : bytesLe e.1 k = false := by simpa using hle
    rw [if_neg hle]
    exact Or.inl ⟨rfl, Or.inl hle'⟩

theorem foldl_seek_none (k : Bytes) : ∀ (s : Store) (init : Option (Bytes × List Bytes)),
    s.foldl (seekStep k) init = none ↔ init = none ∧ ∀ e ∈ s, bytesLe e.1 k = false
  | [], init => by simp
  | e :: s, init => by
    rw [List.foldl_cons, foldl_seek_none k s]
    rcases seekStep_cases k init e with ⟨h, hc⟩ | ⟨h, hle, _⟩
    · rw [h]
      constructor
      · rintro ⟨hi, hs⟩
        refine ⟨hi, fun e' he' => ?_⟩
        rcases List.mem_cons.1 he' with rfl | he'
        · rcases hc with hc | ⟨b, hb, _⟩
          · exact hc
          · rw [hi] at hb; cases hb
        · exact hs e' he'
      · rintro ⟨hi, hs⟩
        exact ⟨hi, fun e' he' => hs e' (List.mem_cons_of_mem _ he')⟩
    · rw [h]
      constructor
      · rintro ⟨hi, _⟩; cases hi
      · rintro ⟨_, hs⟩
        have := hs e (List.mem_cons_self ..)
        rw [hle] at this; cases this

/-- the result is the initial candidate or the first entry of the list with its key -/
theorem foldl_seek_first (k : Bytes) : ∀ (s : Store) (init : Option (Bytes × List Bytes)) (r : Bytes × List Bytes),
    s.foldl (seekStep k) init = some r →
    init = some r ∨ (s.find? (·.1 = r.1) = some r ∧ bytesLe r.1 k = true ∧
      ∀ b, init = some b → bytesLt b.1 r.1 = true)
  | [], init, r, h => Or.inl h
  | e :: s, init, r, h => by
    rw [List.foldl_cons] at h
    rcases foldl_seek_first k s _ r h with hr | ⟨hfind, hle, hlt⟩
    · rcases seekStep_cases k init e with ⟨h1, _⟩ | ⟨h1, hle1, hlt1⟩
      · rw [h1] at hr; exact Or.inl hr
      · rw [h1] at hr; cases hr
        exact Or.inr ⟨by simp, hle1, hlt1⟩
    · right
      have hne : e.1 ≠ r.1 := by
        intro heq
        rcases seekStep_cases k init e with ⟨h1, hc⟩ | ⟨h1, _, _⟩
        · rcases hc with hc | ⟨b, hb, hbe⟩
          · rw [heq, hle] at hc; cases hc
          · have := hlt b (by rw [h1]; exact hb)
            rw [← heq, hbe] at this; cases this
        · have := hlt e h1
          rw [heq, bytesLt_irrefl] at this; cases this
      refine ⟨?_, hle, fun b hb => ?_⟩
      · rw [List.find?_cons_of_neg (by simpa using hne)]; exact hfind
      · rcases seekStep_cases k init e with ⟨h1, _⟩ | ⟨h1, _, hlt1⟩
        · exact hlt b (by rw [h1]; exact hb)
        · exact bytesLt_trans (hlt1 b hb) (hlt e h1)

/-- the result dominates the initial candidate and every admissible entry -/
theorem foldl_seek_max (k : Bytes) : ∀ (s : Store) (init : Option (Bytes × List Bytes)) (r : Bytes × List Bytes),
    s.foldl (seekStep k) init = some r →
    (∀ b, init = some b → bytesLe b.1 r.1 = true) ∧
    (∀ e ∈ s, bytesLe e.1 k = true → bytesLe e.1 r.1 = true)
  | [], init, r, h => by
    simp only [List.foldl_nil] at h
    exact ⟨fun b hb => by rw [h] at hb; cases hb; exact bytesLe_refl _, fun e he => by simp at he⟩
  | e :: s, init, r, h => by
    rw [List.foldl_cons] at h
    obtain ⟨h1, h2⟩ := foldl_seek_max k s _ r h
    rcases seekStep_cases k init e with ⟨hs, hc⟩ | ⟨hs, hle, hlt⟩
    · rw [hs] at h1
      refine ⟨h1, fun e' he' hle' => ?_⟩
      rcases List.mem_cons.1 he' with rfl | he'
      · rcases hc with hc | ⟨b, hb, hbe⟩
        · rw [hc] at hle'; cases hle'
        · exact bytesLe_trans (bytesLe_iff.2 hbe) (h1 b hb)
      · exact h2 e' he' hle'
    · rw [hs] at h1
      have her := h1 e rfl
      refine ⟨fun b hb => bytesLe_trans (bytesLe_of_lt (hlt b hb)) her, fun e' he' hle' => ?_⟩
      rcases List.mem_cons.1 he' with rfl | he'
      · exact her
      · exact h2 e' he' hle'

theorem get_of_find {s : Store} {r : Bytes × List Bytes} (h : s.find? (·.1 = r.1) = some r) :
    s.get r.1 = r.2 := by
  unfold Store.get; rw [h]

theorem seekForPrev_none {s : Store} {k : Bytes} :
    s.seekForPrev k = none ↔ ∀ e ∈ s, bytesLe e.1 k = false := by
  rw [seekForPrev_eq, foldl_seek_none]; simp

/-- `SeekForPrev` returns the greatest key `≤ k`, with that key's values -/
theorem seekForPrev_some {s : Store} {k : Bytes} {r : Bytes × List Bytes} (h : s.seekForPrev k = some r) :
    r ∈ s ∧ bytesLe r.1 k = true ∧ s.get r.1 = r.2 ∧
    ∀ e ∈ s, bytesLe e.1 k = true → bytesLe e.1 r.1 = true := by
  rw [seekForPrev_eq] at h
  rcases foldl_seek_first k s none r h with h0 | ⟨hfind, hle, _⟩
  · cases h0
  · exact ⟨List.mem_of_find?_eq_some hfind, hle, get_of_find hfind, (foldl_seek_max k s none r h).2⟩

theorem get_ne_nil_mem {s : Store} {k : Bytes} (h : s.get k ≠ []) : ∃ e ∈ s, e.1 = k := by
  unfold Store.get at h
  cases hf : s.find? (·.1 = k) with
  | none => rw [hf] at h; exact absurd rfl h
  | some e =>
    refine ⟨e, List.mem_of_find?_eq_some hf, ?_⟩
    have := List.find?_some hf
    simpa using this

/-- a key that is present is found by seeking it -/
theorem seekForPrev_of_mem {s : Store} {k : Bytes} (h : ∃ e ∈ s, e.1 = k) :
    ∃ vals, s.seekForPrev k = some (k, vals) ∧ s.get k = vals := by
  obtain ⟨e, he, hek⟩ := h
  cases hs : s.seekForPrev k with
  | none =>
    have := seekForPrev_none.1 hs e he
    rw [hek, bytesLe_refl] at this; cases this
  | some r =>
    obtain ⟨_, hle, hget, hmax⟩ := seekForPrev_some hs
    have h1 := hmax e he (by rw [hek]; exact bytesLe_refl _)
    rw [hek] at h1
    have : r.1 = k := bytesLe_antisymm hle h1
    refine ⟨r.2, ?_, by rw [← this]; exact hget⟩
    rw [← this]

/-- a key that is absent is not what seeking it returns -/
theorem seekForPrev_key_mem {s : Store} {k : Bytes} {r : Bytes × List Bytes}
    (h : s.seekForPrev k = some r) : ∃ e ∈ s, e.1 = r.1 :=
  ⟨r, (seekForPrev_some h).1, rfl⟩

theorem get_eq_nil_of_not_mem {s : Store} {k : Bytes} (h : ∀ e ∈ s, e.1 ≠ k) : s.get k = [] := by
  unfold Store.get
  have : s.find? (·.1 = k) = none := by
    rw [List.find?_eq_none]; intro e he; simpa using h e he
  rw [this]

/-- keys with a common prefix form an interval of the byte order -/
theorem prefix_convex : ∀ (P x z y : Bytes), bytesLe (P ++ x) y = true → bytesLe y (P ++ z) = true →
    ∃ w, y = P ++ w
  | [], _, _, y, _, _ => ⟨y, rfl⟩
  | a :: P, x, z, [], h1, _ => by
    rw [bytesLe_iff] at h1; simp [bytesLt] at h1
  | a :: P, x, z, b :: y, h1, h2 => by
    rw [bytesLe_iff] at h1 h2
    simp only [List.cons_append, bytesLt] at h1 h2
    by_cases hba : b.toNat < a.toNat
    · rw [if_pos hba] at h1; cases h1
    · by_cases hab : a.toNat < b.toNat
      · rw [if_pos hab] at h2; cases h2
      · rw [if_neg hba, if_neg hab] at h1
        rw [if_neg hab, if_neg hba] at h2
        have : a = b := UInt8.toNat_inj.1 (by omega)
        subst this
        obtain ⟨w, hw⟩ := prefix_convex P x z y (bytesLe_iff.2 h1) (bytesLe_iff.2 h2)
        exact ⟨w, by rw [hw]; rfl⟩

theorem take_prefix_of_length {P w : Bytes} {j : Nat} (h : P.length = j) : (P ++ w).take j = P := by
  rw [← h]; simp

/-! ### name → map: the two layouts -/

/-- the last byte of a map key: `*` for a wildcard map, `=` for an exact one -/
def sfx (w : Bool) : UInt8 := if w then 0x2a else 0x3d

/-- map declarations: owner (labels, in query order) → wildcard? → map id -/
abbrev Maps := List Bytes → Bool → Option Bytes

/-- the v1 store holds exactly the declared maps under `mtype` (other keys are arbitrary) -/
def RepMapsV1 (s : Store) (mtype : Bytes) (maps : Maps) : Prop :=
  ∀ z w, NameOK z → Loc.first s (mtype ++ pack z ++ [sfx w]) = maps z w

/-- the v2 store: every key that starts with `mtype` is a map key of a well-formed owner holding a
single value, and the declared maps are exactly these; keys that do not start with `mtype`
(resource records, the other map type, range points, features) are arbitrary -/
structure RepMapsV2 (s : Store) (mtype : Bytes) (maps : Maps) : Prop where
  keys : ∀ e ∈ s, e.1.take 2 = mtype →
    ∃ z w v, NameOK z ∧ e.1 = K mtype (List.reverse z) [sfx w] ∧ e.2 = [v]
  get : ∀ z w, NameOK z → s.get (K mtype (List.reverse z) [sfx w]) = (maps z w).toList

/-- wildcard maps from `z` upwards -/
def wildUp (maps : Maps) : List Bytes → Option Bytes
  | [] => maps [] true
  | x :: z => match maps (x :: z) true with
    | some v => some v
    | none => wildUp maps z

/-- the label-by-label search, on declarations -/
def mapSpec (maps : Maps) (ql : List Bytes) : Option Bytes :=
  match maps ql false with
  | some v => some v
  | none => match ql with
    | [] => none
    | _ :: z => wildUp maps z

theorem drop_tok_pack (x : Bytes) (hx : LabelOK x) (R : Bytes) :
    (x ++ R).drop (UInt8.ofNat x.length).toNat = R := by
  rw [hx.toNat]; simp

theorem take_tok_pack (x : Bytes) (hx : LabelOK x) (R : Bytes) :
    (x ++ R).take (UInt8.ofNat x.length).toNat = x := by
  rw [hx.toNat]; simp

theorem mapKeys_wild {s : Store} {mtype : Bytes} {maps : Maps} (hrep : RepMapsV1 s mtype maps) :
    ∀ (z : List Bytes) (fuel : Nat), NameOK z → z.length < fuel →
      (Loc.mapKeys mtype fuel (pack z) false).findSome? (Loc.first s) = wildUp maps z
  | [], fuel, hz, hf => by
    obtain ⟨f, rfl⟩ : ∃ f, fuel = f + 1 := ⟨fuel - 1, by simp at hf; omega⟩
    have := hrep [] true hz
    simp only [sfx, if_true] at this
    simp only [Loc.mapKeys, pack_nil, wildUp, List.findSome?_cons, if_true, List.findSome?_nil,
      Bool.false_eq_true, if_false]
    rw [pack_nil] at this
    rw [this]
    cases maps [] true <;> rfl
  | x :: z, fuel, hz, hf => by
    obtain ⟨f, rfl⟩ : ∃ f, fuel = f + 1 := ⟨fuel - 1, by simp at hf; omega⟩
    have hx := hz.head
    have h1 := hrep (x :: z) true hz
    simp only [sfx, if_true] at h1
    have ih := mapKeys_wild hrep z f hz.tail (by simp at hf; omega)
    have e : pack (x :: z) = UInt8.ofNat x.length :: (x ++ pack z) := by rw [pack_cons]; rfl
    rw [e]
    simp only [Loc.mapKeys]
    rw [if_neg (ofNat_len_ne_zero hx), drop_tok_pack x hx, List.findSome?_cons, ← e]
    simp only [Bool.false_eq_true, if_false]
    rw [h1, ih]
    simp only [wildUp]
    cases maps (x :: z) true <;> rfl

theorem findMapV1_eq_spec {s : Store} {mtype : Bytes} {maps : Maps} (hrep : RepMapsV1 s mtype maps)
    (ql : List Bytes) (hq : NameOK ql) : Loc.findMapV1 s (pack ql) mtype = mapSpec maps ql := by
  unfold Loc.findMapV1
  have h0 := hrep ql false hq
  simp only [sfx, Bool.false_eq_true, if_false] at h0
  cases ql with
  | nil =>
    simp only [pack_nil, List.length_cons, List.length_nil, Loc.mapKeys, if_true]
    simp only [pack_nil] at h0
    simp only [List.findSome?_cons, List.findSome?_nil, mapSpec]
    rw [h0]
    cases maps [] false <;> rfl
  | cons x z =>
    have hx := hq.head
    have e : pack (x :: z) = UInt8.ofNat x.length :: (x ++ pack z) := by rw [pack_cons]; rfl
    have hlen : (pack (x :: z)).length + 1 = ((pack (x :: z)).length) + 1 := rfl
    rw [e]
    simp only [Loc.mapKeys]
    rw [if_neg (ofNat_len_ne_zero hx), drop_tok_pack x hx, List.findSome?_cons, ← e]
    simp only [if_true]
    rw [h0, mapKeys_wild hrep z _ hq.tail (by
      have := length_le_flat_length z
      rw [e, List.length_cons, List.length_append, pack_length]; omega)]
    simp only [mapSpec]
    cases maps (x :: z) false <;> rfl

theorem sfx_cases (w : Bool) : sfx w = 0x2a ∨ sfx w = 0x3d := by cases w <;> simp [sfx]

theorem unpack_pack : ∀ (ql : List Bytes) (fuel : Nat), NameOK ql → ql.length < fuel →
    labels fuel (pack ql) = some ql
  | [], fuel, _, hf => by
    obtain ⟨f, rfl⟩ : ∃ f, fuel = f + 1 := ⟨fuel - 1, by simp at hf; omega⟩
    simp [labels, pack_nil]
  | x :: z, fuel, hq, hf => by
    obtain ⟨f, rfl⟩ : ∃ f, fuel = f + 1 := ⟨fuel - 1, by simp at hf; omega⟩
    have hx := hq.head
    have e : pack (x :: z) = UInt8.ofNat x.length :: (x ++ pack z) := by rw [pack_cons]; rfl
    rw [e]
    simp only [labels]
    rw [if_neg (ofNat_len_ne_zero hx), drop_tok_pack x hx, take_tok_pack x hx,
      unpack_pack z f hq.tail (by simp at hf; omega)]
    rw [if_neg (by rw [hx.toNat]; simp)]

theorem reverseWire_pack (ql : List Bytes) (hq : NameOK ql) :
    reverseWire (pack ql) = some (pack ql.reverse) := by
  unfold reverseWire unpack
  rw [unpack_pack ql _ hq (by have := length_le_flat_length ql; rw [pack_length]; omega)]
  rfl

section MapsV2
variable {s : Store} {mtype : Bytes} {maps : Maps}

theorem RepMapsV2.get_rev (hrep : RepMapsV2 s mtype maps) {a : List Bytes} (ha : NameOK a) (w : Bool) :
    s.get (K mtype a [sfx w]) = (maps a.reverse w).toList := by
  have := hrep.get a.reverse w ha.reverse
  rwa [List.reverse_reverse] at this

theorem RepMapsV2.absent (hrep : RepMapsV2 s mtype maps) {a : List Bytes} (ha : NameOK a) (w : Bool)
    (h : ∀ e ∈ s, e.1 ≠ K mtype a [sfx w]) : maps a.reverse w = none := by
  have h1 := hrep.get_rev ha w
  rw [get_eq_nil_of_not_mem h] at h1
  cases hm : maps a.reverse w with
  | none => rfl
  | some v => rw [hm] at h1; simp at h1

theorem RepMapsV2.present (hrep : RepMapsV2 s mtype maps) {a : List Bytes} (ha : NameOK a) (w : Bool)
    (h : maps a.reverse w ≠ none) : ∃ e ∈ s, e.1 = K mtype a [sfx w] := by
  apply get_ne_nil_mem
  rw [hrep.get_rev ha w]
  cases hm : maps a.reverse w with
  | none => exact absurd hm h
  | some v => simp

/-- what a seek at a key under `mtype` can return -/
theorem map_seek_cases (hrep : RepMapsV2 s mtype maps) (hmt : mtype.length = 2) (k : Bytes)
    (hk' : ∃ x, k = mtype ++ x) :
    -- nothing at or below: every declared map key `≤ k` is absent
    ((s.seekForPrev k = none ∨
        ∃ fk vals, s.seekForPrev k = some (fk, vals) ∧ fk ≠ k ∧ fk.take 2 ≠ mtype) ∧
      ∀ a w, NameOK a → bytesLe (K mtype a [sfx w]) k = true → maps a.reverse w = none) ∨
    -- the key itself
    (∃ vals, s.seekForPrev k = some (k, vals) ∧ (k, vals) ∈ s) ∨
    -- another map key, which is then above every present map key `≤ k`
    (∃ m w' vals, NameOK m ∧ s.seekForPrev k = some (K mtype m [sfx w'], vals) ∧
      K mtype m [sfx w'] ≠ k ∧ bytesLe (K mtype m [sfx w']) k = true ∧
      ∀ a w, NameOK a → bytesLe (K mtype a [sfx w]) k = true → maps a.reverse w ≠ none →
        bytesLe (K mtype a [sfx w]) (K mtype m [sfx w']) = true) := by
  cases hs : s.seekForPrev k with
  | none =>
    left
    refine ⟨Or.inl rfl, fun a w ha hle => hrep.absent ha w fun e he heq => ?_⟩
    have := seekForPrev_none.1 hs e he
    rw [heq, hle] at this; cases this
  | some r =>
    obtain ⟨hmem, hle, hget, hmax⟩ := seekForPrev_some hs
    by_cases hk : r.1 = k
    · right; left
      refine ⟨r.2, ?_, by rw [← hk]; exact hmem⟩
      rw [← hk]
    · by_cases hpre : r.1.take 2 = mtype
      · right; right
        obtain ⟨z, w', v, hz, hkey, _⟩ := hrep.keys r hmem hpre
        refine ⟨z.reverse, w', r.2, hz.reverse, ?_, by rw [← hkey]; exact hk, by rw [← hkey]; exact hle,
          fun a w ha hale hne => ?_⟩
        · rw [← hkey]
        · obtain ⟨e, he, heq⟩ := hrep.present ha w hne
          have := hmax e he (by rw [heq]; exact hale)
          rw [heq, hkey] at this; exact this
      · left
        refine ⟨Or.inr ⟨r.1, r.2, rfl, hk, hpre⟩, fun a w ha hale => ?_⟩
        cases hm : maps a.reverse w with
        | none => rfl
        | some v =>
          exfalso
          obtain ⟨e, he, heq⟩ := hrep.present ha w (by rw [hm]; simp)
          have h1 := hmax e he (by rw [heq]; exact hale)
          rw [heq] at h1
          have e1 : K mtype a [sfx w] = mtype ++ (pack a ++ [sfx w]) := by simp [K]
          rw [e1] at h1
          obtain ⟨x, rfl⟩ := hk'
          obtain ⟨w2, hw2⟩ := prefix_convex mtype _ _ _ h1 hle
          apply hpre
          rw [hw2]; exact take_prefix_of_length hmt

end MapsV2

theorem flat_length_le_of_prefix {a n : List Bytes} (h : a <+: n) : (flat a).length ≤ (flat n).length := by
  obtain ⟨t, rfl⟩ := h; rw [flat_append, List.length_append]; omega

theorem K_le_of_prefix (pre : Bytes) {a p : List Bytes} (hp : NameOK p) (h : a <+: p) {s1 s2 : Bytes}
    (hs : a = p → bytesLe s1 s2 = true) : bytesLe (K pre a s1) (K pre p s2) = true := by
  by_cases hap : a = p
  · subst hap; rw [key_le_same_name]; exact hs rfl
  · obtain ⟨x, t, rfl⟩ := proper_prefix_of h hap
    exact bytesLe_of_lt (key_lt_of_proper_prefix pre a x t hp.of_append_right.head _ _)

theorem K_lt_of_proper_prefix (pre : Bytes) {a p : List Bytes} (hp : NameOK p) (h : a <+: p) (hne : a ≠ p)
    (s1 s2 : Bytes) : bytesLt (K pre a s1) (K pre p s2) = true := by
  obtain ⟨x, t, rfl⟩ := proper_prefix_of h hne
  exact key_lt_of_proper_prefix pre a x t hp.of_append_right.head _ _

theorem prefix_antisymm' {a b : List Bytes} (h1 : a <+: b) (h2 : b <+: a) : a = b :=
  h1.eq_of_length (Nat.le_antisymm h1.length_le h2.length_le)

theorem prefix_dropLast_of_proper {a n : List Bytes} (h : a <+: n) (hne : a ≠ n) : a <+: n.dropLast := by
  have hl : a.length < n.length := by
    rcases Nat.lt_or_ge a.length n.length with h' | h'
    · exact h'
    · exact absurd (h.eq_of_length (Nat.le_antisymm h.length_le h')) hne
  exact List.prefix_of_prefix_length_le h (List.dropLast_prefix n) (by simp; omega)

theorem wildUp_hit {maps : Maps} {z : List Bytes} {v : Bytes} (h : maps z true = some v) :
    wildUp maps z = some v := by
  cases z with
  | nil => exact h
  | cons x z => simp only [wildUp]; rw [h]

theorem wildUp_skip {maps : Maps} : ∀ (t z : List Bytes),
    (∀ t1 t2, t = t1 ++ t2 → t2 ≠ [] → maps (t2 ++ z) true = none) → wildUp maps (t ++ z) = wildUp maps z
  | [], z, _ => rfl
  | x :: t, z, h => by
    have h1 := h [] (x :: t) rfl (by simp)
    simp only [List.cons_append] at h1 ⊢
    simp only [wildUp]; rw [h1]
    exact wildUp_skip t z fun t1 t2 ht hne => h (x :: t1) t2 (by rw [ht]; rfl) hne

/-- no wildcard map between `p'` and `q`: the upward search from `q` continues from `p'` -/
theorem wild_skip {maps : Maps} {q p' : List Bytes} (hp : p' <+: q)
    (h : ∀ a, a <+: q → maps a.reverse true ≠ none → a <+: p') :
    wildUp maps q.reverse = wildUp maps p'.reverse := by
  obtain ⟨u, rfl⟩ := hp
  rw [List.reverse_append]
  apply wildUp_skip
  intro t1 t2 ht hne
  cases hm : maps (t2 ++ p'.reverse) true with
  | none => rfl
  | some v =>
    exfalso
    have hu : u = t2.reverse ++ t1.reverse := by
      have := congrArg List.reverse ht; simpa using this
    have ha : (p' ++ t2.reverse) <+: (p' ++ u) := by
      rw [hu, ← List.append_assoc]; exact List.prefix_append _ _
    have := h (p' ++ t2.reverse) ha (by simp [hm])
    have hl := this.length_le
    simp at hl
    exact hne (List.eq_nil_of_length_eq_zero (by omega))

theorem wildUp_none {maps : Maps} : ∀ (z : List Bytes),
    (∀ t1 t2, z = t1 ++ t2 → maps t2 true = none) → wildUp maps z = none
  | [], h => h [] [] rfl
  | x :: z, h => by
    simp only [wildUp]; rw [h [] (x :: z) rfl]
    exact wildUp_none z fun t1 t2 ht => h (x :: t1) t2 (by rw [ht]; rfl)

theorem wild_none {maps : Maps} {q : List Bytes} (h : ∀ a, a <+: q → maps a.reverse true = none) :
    wildUp maps q.reverse = none := by
  apply wildUp_none
  intro t1 t2 ht
  have hq : q = t2.reverse ++ t1.reverse := by
    have := congrArg List.reverse ht; simpa using this
  have := h t2.reverse (by rw [hq]; exact List.prefix_append _ _)
  rwa [List.reverse_reverse] at this

theorem mapSpec_eq (maps : Maps) (ql : List Bytes) :
    mapSpec maps ql = match maps ql false with
      | some v => some v
      | none => if ql = [] then none else wildUp maps ql.tail := by
  unfold mapSpec
  cases maps ql false with
  | some v => rfl
  | none => cases ql <;> simp

section GoV2
variable {s : Store} {mtype : Bytes} {maps : Maps}

theorem go_stop {rev : Bytes} {cap f : Nat} {kBody : Bytes} {c : UInt8}
    (h : s.seekForPrev (kBody ++ [c]) = none ∨ ∃ fk vals, s.seekForPrev (kBody ++ [c]) = some (fk, vals) ∧
      fk ≠ kBody ++ [c] ∧ fk.take 2 ≠ mtype) :
    Loc.findMapSorted.go s mtype rev cap (f + 1) kBody c = .ok none := by
  rw [Loc.findMapSorted.go]
  rcases h with h | ⟨fk, vals, h, hne, hpre⟩
  · simp only [h]
  · simp only [h]; rw [if_neg hne, if_pos (Or.inr hpre)]

theorem go_hit {rev : Bytes} {cap f : Nat} {kBody : Bytes} {c : UInt8} {v : Bytes}
    (h : s.seekForPrev (kBody ++ [c]) = some (kBody ++ [c], [v])) :
    Loc.findMapSorted.go s mtype rev cap (f + 1) kBody c = .ok (some v) := by
  rw [Loc.findMapSorted.go]
  simp only [h]
  rw [if_pos trivial]
  have : Loc.rawValue [v] = le32 v.length ++ v := by simp [Loc.rawValue, appendValues]
  rw [this, if_neg (by simp [le32_length])]
  have : (le32 v.length ++ v).drop 4 = v := by
    rw [List.drop_append_of_le_length (by simp [le32_length])]; simp [le32]
  rw [this]

theorem mapkey_parts (hmt : mtype.length = 2) (m : List Bytes) (c' : UInt8) :
    ¬ ((K mtype m [c']).length < 2 ∨ (K mtype m [c']).take 2 ≠ mtype) ∧
    ((K mtype m [c']).drop 2).take ((K mtype m [c']).length - 3) = pack m := by
  have e : K mtype m [c'] = mtype ++ (pack m ++ [c']) := by simp [K]
  refine ⟨?_, ?_⟩
  · rw [e]
    intro h
    rcases h with h | h
    · simp [hmt] at h; omega
    · exact h (take_prefix_of_length hmt)
  · rw [e, ← hmt, List.drop_left]
    have : (mtype ++ (pack m ++ [c'])).length - 3 = (pack m).length := by simp [hmt]; omega
    rw [this]; simp

theorem go_after {rev : Bytes} {cap f : Nat} {kBody : Bytes} {c c' : UInt8} {m : List Bytes}
    {vals : List Bytes} {length0 length : Nat} (hmt : mtype.length = 2)
    (h : s.seekForPrev (kBody ++ [c]) = some (K mtype m [c'], vals))
    (hne : K mtype m [c'] ≠ kBody ++ [c])
    (hcp : Loc.commonPrefix rev (pack m) (rev.length + 1) 0 = some length0)
    (hlen : (if length0 = rev.length then (Loc.lengthWithoutLastLabel rev length0 256 0 0).map (· - 1)
      else some length0) = some length) :
    Loc.findMapSorted.go s mtype rev cap (f + 1) kBody c =
      if length = 0 ∧ kBody.length = 3 then .ok none
      else if 2 + length + 2 > cap then .panic
      else Loc.findMapSorted.go s mtype rev cap f (mtype ++ rev.take length ++ [0]) 0x2a := by
  rw [Loc.findMapSorted.go]
  simp only [h]
  obtain ⟨h1, h2⟩ := mapkey_parts hmt m c'
  rw [if_neg hne, if_neg h1, h2, hcp]
  simp only []
  rw [hlen]

theorem go_next {rev : Bytes} {cap f : Nat} {kBody : Bytes} {c c' : UInt8} {m : List Bytes}
    {vals : List Bytes} {length0 length : Nat} (hmt : mtype.length = 2)
    (h : s.seekForPrev (kBody ++ [c]) = some (K mtype m [c'], vals))
    (hne : K mtype m [c'] ≠ kBody ++ [c])
    (hcp : Loc.commonPrefix rev (pack m) (rev.length + 1) 0 = some length0)
    (hlen : (if length0 = rev.length then (Loc.lengthWithoutLastLabel rev length0 256 0 0).map (· - 1)
      else some length0) = some length)
    (h3 : ¬ (length = 0 ∧ kBody.length = 3)) (hcap : ¬ (2 + length + 2 > cap)) :
    Loc.findMapSorted.go s mtype rev cap (f + 1) kBody c =
      Loc.findMapSorted.go s mtype rev cap f (mtype ++ rev.take length ++ [0]) 0x2a := by
  rw [go_after hmt h hne hcp hlen, if_neg h3, if_neg hcap]

end GoV2

section MainV2
variable {s : Store} {mtype : Bytes} {maps : Maps}

theorem sfx_true : sfx true = 0x2a := rfl
theorem sfx_false : sfx false = 0x3d := rfl

/-- a present wildcard key at a prefix `a` of both `q` and `n`, below `k = K q [c]`, when the seek at
`k` found the key of `m`: then `a` is a prefix of `lcp n m` -/
theorem cand_prefix (hn : NameOK n) {q a m : List Bytes} (hq : q <+: n) (hm : NameOK m) (ha : a <+: q)
    {c : UInt8} {w' : Bool}
    (hle : bytesLe (K mtype m [sfx w']) (K mtype q [c]) = true)
    (hak : bytesLe (K mtype a [sfx true]) (K mtype q [c]) = true)
    (hmax : ∀ a w, NameOK a → bytesLe (K mtype a [sfx w]) (K mtype q [c]) = true → maps a.reverse w ≠ none →
        bytesLe (K mtype a [sfx w]) (K mtype m [sfx w']) = true)
    (hpres : maps a.reverse true ≠ none) : a <+: lcp n m := by
  have hqn : NameOK q := hn.prefix hq
  have h1 := hmax a true (hqn.prefix ha) hak hpres
  have h2 : a <+: m := key_sandwich mtype hqn hm ha h1 hle
  exact prefix_lcp (ha.trans hq) h2

theorem go_wild (hrep : RepMapsV2 s mtype maps) (hmt : mtype.length = 2) {n : List Bytes} (hn : NameOK n) :
    ∀ (fuel : Nat) (p : List Bytes), p <+: n → p ≠ n → p.length < fuel →
      Loc.findMapSorted.go s mtype (pack n) ((pack n).length + 3) fuel (mtype ++ pack p) 0x2a =
        .ok (wildUp maps p.reverse) := by
  intro fuel
  induction fuel with
  | zero => intro p _ _ h; simp at h
  | succ f ih =>
    intro p hp hpn hpf
    have hpo : NameOK p := hn.prefix hp
    have hk : mtype ++ pack p ++ [0x2a] = K mtype p [sfx true] := rfl
    rcases map_seek_cases hrep hmt (mtype ++ pack p ++ [0x2a]) ⟨pack p ++ [0x2a], by simp⟩ with
      ⟨hA, habs⟩ | ⟨vals, hB, hmem⟩ | ⟨m, w', vals, hm, hC, hne, hle, hmax⟩
    · rw [go_stop hA]
      rw [wild_none]
      intro a ha
      exact habs a true (hpo.prefix ha) (by rw [hk]; exact K_le_of_prefix mtype hpo ha fun _ => bytesLe_refl _)
    · obtain ⟨z, w, v, hz, _, hv⟩ := hrep.keys _ hmem (by
        show (mtype ++ pack p ++ [0x2a]).take 2 = mtype
        rw [List.append_assoc]; exact take_prefix_of_length hmt)
      simp only at hv
      subst hv
      rw [go_hit hB]
      have h1 := hrep.get_rev hpo true
      obtain ⟨vals', hs', hg'⟩ := seekForPrev_of_mem ⟨_, hmem, rfl⟩
      rw [hB] at hs'
      cases hs'
      rw [← hk, hg'] at h1
      cases hm : maps p.reverse true with
      | none => rw [hm] at h1; simp at h1
      | some v' =>
        rw [hm] at h1; simp at h1; subst h1
        rw [wildUp_hit hm]
    · rw [hk] at hC hne hle hmax
      -- `p` is not a prefix of `m`
      have hpm : ¬ p <+: m := by
        intro hpm
        by_cases he : p = m
        · subst he
          rw [key_le_same_name] at hle
          rcases sfx_cases w' with h | h
          · rw [h] at hne; exact hne rfl
          · rw [h] at hle; revert hle; decide
        · have := K_lt_of_proper_prefix mtype hm hpm he [sfx true] [sfx w']
          rw [bytesLe_iff.1 hle] at this; cases this
      have hmn : n ≠ m := fun e => hpm (e ▸ hp)
      have hp'p : lcp n m <+: p := by
        rcases prefix_total (lcp_prefix_left n m) hp with h | h
        · exact h
        · exact absurd (h.trans (lcp_prefix_right n m)) hpm
      have hp'ne : lcp n m ≠ p := fun e => hpm (e ▸ lcp_prefix_right n m)
      have hp'n : lcp n m <+: n := lcp_prefix_left n m
      obtain ⟨t, ht⟩ := hp'n
      have hcp := commonPrefix_spec n m [] [] ((pack n).length + 1) hn hm rfl
        (by have := length_le_flat_length n; rw [pack_length]; omega)
      simp only [List.nil_append, List.length_nil, Nat.zero_add] at hcp
      rw [if_neg hmn] at hcp
      have hfl : (flat (lcp n m)).length ≤ (flat n).length := flat_length_le_of_prefix (lcp_prefix_left n m)
      have hplen : 1 ≤ (flat p).length := by
        have h1 := length_le_flat_length p
        have h2 : (lcp n m).length < p.length := by
          rcases Nat.lt_or_ge (lcp n m).length p.length with h | h
          · exact h
          · exact absurd (hp'p.eq_of_length (Nat.le_antisymm hp'p.length_le h)) hp'ne
        omega
      rw [go_next (rev := pack n) (cap := (pack n).length + 3) (f := f) (kBody := mtype ++ pack p)
        (c := 0x2a) hmt hC hne hcp (length := (flat (lcp n m)).length)
        (by rw [if_neg (by rw [pack_length]; omega)])
        (by rw [List.length_append, hmt, pack_length]; omega)
        (by rw [pack_length]; omega)]
      have e1 : (pack n).take (flat (lcp n m)).length = flat (lcp n m) := by
        have : pack n = flat (lcp n m) ++ pack t := by rw [← pack_append, ht]
        rw [this]; simp
      have e2 : mtype ++ flat (lcp n m) ++ [0] = mtype ++ pack (lcp n m) := by
        rw [pack_eq, List.append_assoc]
      rw [e1, e2]
      have hlt : (lcp n m).length < f := by
        have h2 : (lcp n m).length < p.length := by
          rcases Nat.lt_or_ge (lcp n m).length p.length with h | h
          · exact h
          · exact absurd (hp'p.eq_of_length (Nat.le_antisymm hp'p.length_le h)) hp'ne
        omega
      rw [ih (lcp n m) (lcp_prefix_left n m) (fun e => hpn (prefix_antisymm' hp (e ▸ hp'p))) hlt]
      rw [wild_skip hp'p]
      intro a ha hpres
      exact cand_prefix hn hp hm ha hle (K_le_of_prefix mtype hpo ha fun _ => bytesLe_refl _) hmax hpres

end MainV2

theorem flat_reverse_length : ∀ (ls : List Bytes), (flat ls.reverse).length = (flat ls).length
  | [] => rfl
  | x :: ls => by
    rw [List.reverse_cons, flat_append, flat_cons, flat_cons, flat_nil, List.append_nil,
      List.length_append, List.length_append, flat_reverse_length ls]; omega

theorem pack_reverse_length (ls : List Bytes) : (pack ls.reverse).length = (pack ls).length := by
  rw [pack_length, pack_length, flat_reverse_length]

section FirstV2
variable {s : Store} {mtype : Bytes} {maps : Maps}

theorem go_first (hrep : RepMapsV2 s mtype maps) (hmt : mtype.length = 2) {n : List Bytes} (hn : NameOK n)
    (hlen : (pack n).length ≤ 256) :
    Loc.findMapSorted.go s mtype (pack n) ((pack n).length + 3) ((pack n).length + 2) (mtype ++ pack n) 0x3d =
      .ok (mapSpec maps n.reverse) := by
  have hk : mtype ++ pack n ++ [0x3d] = K mtype n [sfx false] := rfl
  have hfuel : ∀ p : List Bytes, p <+: n → p.length < (pack n).length + 1 := fun p hp => by
    have h1 := hp.length_le
    have h2 := length_le_flat_length n
    rw [pack_length]; omega
  have hdl : ∀ a : List Bytes, n ≠ [] → a <+: n.dropLast → a <+: n ∧ a ≠ n := fun a hne ha => by
    refine ⟨ha.trans (List.dropLast_prefix n), fun e => ?_⟩
    have h1 := ha.length_le
    have h2 : n.length ≠ 0 := fun h => hne (List.eq_nil_of_length_eq_zero h)
    rw [e] at h1; simp at h1; omega
  rw [mapSpec_eq, List.tail_reverse]
  rcases map_seek_cases hrep hmt (mtype ++ pack n ++ [0x3d]) ⟨pack n ++ [0x3d], by simp⟩ with
    ⟨hA, habs⟩ | ⟨vals, hB, hmem⟩ | ⟨m, w', vals, hm, hC, hne, hle, hmax⟩
  · rw [go_stop hA, habs n false hn (by rw [hk]; exact bytesLe_refl _)]
    simp only []
    by_cases hnil : n.reverse = []
    · rw [if_pos hnil]
    · rw [if_neg hnil]
      have hne : n ≠ [] := fun e => hnil (by rw [e]; rfl)
      rw [wild_none]
      intro a ha
      obtain ⟨h1, h2⟩ := hdl a hne ha
      exact habs a true (hn.prefix h1) (by
        rw [hk]; exact bytesLe_of_lt (K_lt_of_proper_prefix mtype hn h1 h2 _ _))
  · obtain ⟨z, w, v, hz, _, hv⟩ := hrep.keys _ hmem (by
      show (mtype ++ pack n ++ [0x3d]).take 2 = mtype
      rw [List.append_assoc]; exact take_prefix_of_length hmt)
    simp only at hv
    subst hv
    rw [go_hit hB]
    have h1 := hrep.get_rev hn false
    obtain ⟨vals', hs', hg'⟩ := seekForPrev_of_mem ⟨_, hmem, rfl⟩
    rw [hB] at hs'
    cases hs'
    rw [← hk, hg'] at h1
    cases hm : maps n.reverse false with
    | none => rw [hm] at h1; simp at h1
    | some v' => rw [hm] at h1; simp at h1; subst h1; rfl
  · rw [hk] at hC hne hle hmax
    have hexact : maps n.reverse false = none := by
      cases hmm : maps n.reverse false with
      | none => rfl
      | some v =>
        exfalso
        have := hmax n false hn (bytesLe_refl _) (by rw [hmm]; simp)
        exact hne (bytesLe_antisymm hle this)
    rw [hexact]
    simp only []
    have hcp := commonPrefix_spec n m [] [] ((pack n).length + 1) hn hm rfl
      (by have := length_le_flat_length n; rw [pack_length]; omega)
    simp only [List.nil_append, List.length_nil, Nat.zero_add] at hcp
    by_cases hmn : n = m
    · subst hmn
      rw [if_pos rfl] at hcp
      by_cases hnil : n = []
      · subst hnil
        rw [go_after (rev := pack []) (cap := (pack ([] : List Bytes)).length + 3)
          (f := (pack ([] : List Bytes)).length + 1)
          (kBody := mtype ++ pack []) (c := 0x3d) hmt hC hne hcp (length := 0) (by decide)]
        rw [if_pos ⟨rfl, by simp [hmt, pack_nil]⟩]
        rfl
      · have hrn : n.reverse ≠ [] := fun e => hnil (by simpa using e)
        rw [if_neg hrn]
        have hl := lwl_prefix (c := n) (t := []) hn hnil hlen
        rw [List.append_nil] at hl
        have h1flat : 1 ≤ (flat n).length := by
          have := length_le_flat_length n
          have h2 : n.length ≠ 0 := fun h => hnil (List.eq_nil_of_length_eq_zero h)
          omega
        rw [go_next (rev := pack n) (cap := (pack n).length + 3) (f := (pack n).length + 1)
          (kBody := mtype ++ pack n) (c := 0x3d) hmt hC hne hcp (length := (flat n.dropLast).length)
          (by rw [if_pos rfl, hl]; simp [pack_length])
          (by rw [List.length_append, hmt, pack_length]; omega)
          (by have := flat_length_le_of_prefix (List.dropLast_prefix n); rw [pack_length]; omega)]
        have e1 : (pack n).take (flat n.dropLast).length = flat n.dropLast := by
          have : pack n = flat n.dropLast ++ pack [n.getLast hnil] := by
            rw [← pack_append, List.dropLast_concat_getLast]
          rw [this]; simp
        have e2 : mtype ++ flat n.dropLast ++ [0] = mtype ++ pack n.dropLast := by
          rw [pack_eq, List.append_assoc]
        rw [e1, e2]
        obtain ⟨h1, h2⟩ := hdl n.dropLast hnil (List.prefix_refl _)
        rw [go_wild hrep hmt hn _ _ h1 h2 (hfuel _ h1)]
    · have hp'ne : lcp n m ≠ n := by
        intro e
        have hnm : n <+: m := e ▸ lcp_prefix_right n m
        have := K_lt_of_proper_prefix mtype hm hnm hmn [sfx false] [sfx w']
        rw [bytesLe_iff.1 hle] at this; cases this
      have hnil : n ≠ [] := by
        intro e; apply hp'ne; rw [e]; rfl
      have hrn : n.reverse ≠ [] := fun e => hnil (by simpa using e)
      rw [if_neg hrn]
      rw [if_neg hmn] at hcp
      have hp'n := lcp_prefix_left n m
      obtain ⟨t, ht⟩ := hp'n
      have hfl : (flat (lcp n m)).length ≤ (flat n).length := flat_length_le_of_prefix (lcp_prefix_left n m)
      have h1flat : 1 ≤ (flat n).length := by
        have := length_le_flat_length n
        have h2 : n.length ≠ 0 := fun h => hnil (List.eq_nil_of_length_eq_zero h)
        omega
      rw [go_next (rev := pack n) (cap := (pack n).length + 3) (f := (pack n).length + 1)
        (kBody := mtype ++ pack n) (c := 0x3d) hmt hC hne hcp (length := (flat (lcp n m)).length)
        (by rw [if_neg (by rw [pack_length]; omega)])
        (by rw [List.length_append, hmt, pack_length]; omega)
        (by rw [pack_length]; omega)]
      have e1 : (pack n).take (flat (lcp n m)).length = flat (lcp n m) := by
        have : pack n = flat (lcp n m) ++ pack t := by rw [← pack_append, ht]
        rw [this]; simp
      have e2 : mtype ++ flat (lcp n m) ++ [0] = mtype ++ pack (lcp n m) := by
        rw [pack_eq, List.append_assoc]
      rw [e1, e2]
      rw [go_wild hrep hmt hn _ _ (lcp_prefix_left n m) hp'ne (hfuel _ (lcp_prefix_left n m))]
      have hp'd : lcp n m <+: n.dropLast := prefix_dropLast_of_proper (lcp_prefix_left n m) hp'ne
      rw [wild_skip hp'd]
      intro a ha hpres
      obtain ⟨h1, h2⟩ := hdl a hnil ha
      exact cand_prefix hn (List.prefix_refl n) hm h1 hle
        (bytesLe_of_lt (K_lt_of_proper_prefix mtype hn h1 h2 _ _)) hmax hpres

/-- the two map searches on the declarations -/
theorem findMapSorted_eq_spec (hrep : RepMapsV2 s mtype maps) (hmt : mtype.length = 2) (ql : List Bytes)
    (hq : NameOK ql) (hlen : (pack ql).length ≤ 256) :
    Loc.findMapSorted s (pack ql) mtype = .ok (mapSpec maps ql) := by
  unfold Loc.findMapSorted
  rw [reverseWire_pack ql hq]
  simp only []
  have := go_first hrep hmt hq.reverse (by rw [pack_reverse_length]; exact hlen)
  rw [List.reverse_reverse] at this
  exact this

end FirstV2

/-! ### resource records: the two layouts -/

abbrev marker : Bytes := Generated.dnsdata_ResourceRecordsKeyMarker

theorem marker_length : marker.length = 2 := rfl

/-- rows of an owner (labels in query order) for a location -/
abbrev Rows := List Bytes → Bytes → List Bytes

/-- v1 layout: `loc ++ pack owner` -/
def RepRRV1 (s : Store) (rows : Rows) : Prop :=
  ∀ z loc, NameOK z → loc.length = 2 → s.get (loc ++ pack z) = rows z loc

/-- v2 layout: every key that starts with the marker is a resource-record key
`marker ++ pack (reverse owner) ++ loc` of a well-formed owner with a 2-byte location, or has a byte
`≥ 64` right after the marker (the features key `\000o_features`: `'_' = 95`); keys that do not
start with the marker are arbitrary -/
structure RepRRV2 (s : Store) (rows : Rows) : Prop where
  keys : ∀ e ∈ s, e.1.take 2 = marker →
    (∃ z loc, NameOK z ∧ loc.length = 2 ∧ e.1 = Key (List.reverse z) loc) ∨
    (∃ b rest, e.1 = marker ++ b :: rest ∧ 64 ≤ b.toNat)
  get : ∀ z loc, NameOK z → loc.length = 2 → s.get (Key (List.reverse z) loc) = rows z loc

/-- labels of a query name: 1…63 bytes -/
def NameOK64 (ls : List Bytes) : Prop := ∀ l ∈ ls, 0 < l.length ∧ l.length < 64

instance (ls : List Bytes) : Decidable (NameOK64 ls) := by unfold NameOK64; infer_instance

theorem NameOK64.ok {ls : List Bytes} (h : NameOK64 ls) : NameOK ls :=
  fun l hl => ⟨(h l hl).1, by have := (h l hl).2; omega⟩

theorem NameOK64.prefix {a n : List Bytes} (h : NameOK64 n) (hp : a <+: n) : NameOK64 a := by
  obtain ⟨t, rfl⟩ := hp; exact fun l hl => h l (List.mem_append_left _ hl)

/-- a resource-record key of a query-like name is below every "junk" key under the marker -/
theorem key_lt_junk {c : List Bytes} (hc : NameOK64 c) (L : Bytes) {b : UInt8} (rest : Bytes)
    (hb : 64 ≤ b.toNat) : bytesLt (Key c L) (marker ++ b :: rest) = true := by
  unfold Key K
  rw [List.append_assoc, bytesLt_append_left]
  cases c with
  | nil => exact bytesLt_cons_of_lt (by show (0 : UInt8).toNat < b.toNat; have : (0 : UInt8).toNat = 0 := rfl; omega) _ _
  | cons x c =>
    rw [pack_cons]
    have hx := hc x (List.mem_cons_self ..)
    have h1 : (UInt8.ofNat x.length).toNat = x.length := by
      rw [UInt8.toNat_ofNat']; exact Nat.mod_eq_of_lt (by omega)
    exact bytesLt_cons_of_lt (by rw [h1]; omega) _ _

section RR
variable {s : Store} {rows : Rows}

theorem RepRRV2.get_rev (hrep : RepRRV2 s rows) {a : List Bytes} (ha : NameOK a) {loc : Bytes}
    (hl : loc.length = 2) : s.get (Key a loc) = rows a.reverse loc := by
  have := hrep.get a.reverse loc ha.reverse hl
  rwa [List.reverse_reverse] at this

theorem RepRRV2.present (hrep : RepRRV2 s rows) {a : List Bytes} (ha : NameOK a) {loc : Bytes}
    (hl : loc.length = 2) (h : rows a.reverse loc ≠ []) : ∃ e ∈ s, e.1 = Key a loc := by
  apply get_ne_nil_mem; rw [hrep.get_rev ha hl]; exact h

theorem RepRRV2.absent (hrep : RepRRV2 s rows) {a : List Bytes} (ha : NameOK a) {loc : Bytes}
    (hl : loc.length = 2) (h : ∀ e ∈ s, e.1 ≠ Key a loc) : rows a.reverse loc = [] := by
  rw [← hrep.get_rev ha hl]; exact get_eq_nil_of_not_mem h

/-- what a seek at the resource-record key of a query-like name can return -/
theorem rr_seek_cases (hrep : RepRRV2 s rows) {c : List Bytes} (hc : NameOK64 c) {L : Bytes} (hL : L.length = 2) :
    ((s.seekForPrev (Key c L) = none ∨
        ∃ fk vals, s.seekForPrev (Key c L) = some (fk, vals) ∧ fk ≠ Key c L ∧ fk.take 2 ≠ marker) ∧
      ∀ a loc, NameOK a → loc.length = 2 → bytesLe (Key a loc) (Key c L) = true → rows a.reverse loc = []) ∨
    (s.seekForPrev (Key c L) = some (Key c L, rows c.reverse L)) ∨
    (∃ m l'' vals, NameOK m ∧ l''.length = 2 ∧ s.seekForPrev (Key c L) = some (Key m l'', vals) ∧
      Key m l'' ≠ Key c L ∧ bytesLe (Key m l'') (Key c L) = true ∧ rows c.reverse L = [] ∧
      ∀ a loc, NameOK a → loc.length = 2 → bytesLe (Key a loc) (Key c L) = true → rows a.reverse loc ≠ [] →
        bytesLe (Key a loc) (Key m l'') = true) := by
  cases hs : s.seekForPrev (Key c L) with
  | none =>
    left
    refine ⟨Or.inl rfl, fun a loc ha hl hle => hrep.absent ha hl fun e he heq => ?_⟩
    have := seekForPrev_none.1 hs e he
    rw [heq, hle] at this; cases this
  | some r =>
    obtain ⟨hmem, hle, hget, hmax⟩ := seekForPrev_some hs
    by_cases hk : r.1 = Key c L
    · right; left
      have : r = (Key c L, rows c.reverse L) := by
        rw [← hrep.get_rev hc.ok hL, ← hk, hget]
      rw [this]
    · have hmax' : ∀ a loc, NameOK a → loc.length = 2 → bytesLe (Key a loc) (Key c L) = true →
          rows a.reverse loc ≠ [] → bytesLe (Key a loc) r.1 = true := by
        intro a loc ha hl hale hne
        obtain ⟨e, he, heq⟩ := hrep.present ha hl hne
        have := hmax e he (by rw [heq]; exact hale)
        rwa [heq] at this
      by_cases hpre : r.1.take 2 = marker
      · rcases hrep.keys r hmem hpre with ⟨z, loc, hz, hl, hkey⟩ | ⟨b, rest, hkey, hb⟩
        · right; right
          refine ⟨z.reverse, loc, r.2, hz.reverse, hl, by rw [← hkey], by rw [← hkey]; exact hk,
            by rw [← hkey]; exact hle, ?_, by rw [← hkey]; exact hmax'⟩
          cases hrw : rows c.reverse L with
          | nil => rfl
          | cons x xs =>
            exfalso
            have := hmax' c L hc.ok hL (bytesLe_refl _) (by rw [hrw]; simp)
            exact hk (bytesLe_antisymm hle this)
        · exfalso
          have := key_lt_junk hc L rest hb
          rw [← hkey] at this
          rw [bytesLe_iff.1 hle] at this; cases this
      · left
        refine ⟨Or.inr ⟨r.1, r.2, rfl, hk, hpre⟩, fun a loc ha hl hale => ?_⟩
        cases hrw : rows a.reverse loc with
        | nil => rfl
        | cons x xs =>
          exfalso
          have h1 := hmax' a loc ha hl hale (by rw [hrw]; simp)
          have e1 : Key a loc = marker ++ (pack a ++ loc) := by simp [Key, K]
          have e2 : Key c L = marker ++ (pack c ++ L) := by simp [Key, K]
          rw [e1] at h1; rw [e2] at hle
          obtain ⟨w2, hw2⟩ := prefix_convex marker _ _ _ h1 hle
          apply hpre
          rw [hw2]; exact take_prefix_of_length marker_length

/-- **Skip lemma.** Let `Key m l''` be the greatest key `≤ Key c L` (`c` a prefix of the reversed
query). Every name strictly between the common label prefix of `c` and `m` and `c` itself owns no
rows at all, for any location; and if `m ≠ c`, `c` owns no rows for a location `≤ L`. -/
theorem skip_lemma {c m : List Bytes} (hc : NameOK c) (hm : NameOK m)
    {L l'' : Bytes}
    (hle : bytesLe (Key m l'') (Key c L) = true)
    (hmax : ∀ a loc, NameOK a → loc.length = 2 → bytesLe (Key a loc) (Key c L) = true →
      rows a.reverse loc ≠ [] → bytesLe (Key a loc) (Key m l'') = true) :
    (∀ a, a <+: c → a ≠ c → ¬ a <+: lcp c m → ∀ loc, loc.length = 2 → rows a.reverse loc = []) ∧
    (m ≠ c → ∀ loc, loc.length = 2 → bytesLe loc L = true → rows c.reverse loc = []) := by
  have key : ∀ a, a <+: c → ∀ loc, loc.length = 2 → bytesLe (Key a loc) (Key c L) = true →
      rows a.reverse loc ≠ [] → a <+: m := by
    intro a ha loc hl hale hne
    have h1 := hmax a loc (hc.prefix ha) hl hale hne
    exact key_sandwich marker hc hm ha h1 hle
  refine ⟨fun a ha hne hnp loc hl => ?_, fun hmc loc hl hloc => ?_⟩
  · cases hrw : rows a.reverse loc with
    | nil => rfl
    | cons x xs =>
      exfalso
      have := key a ha loc hl (bytesLe_of_lt (K_lt_of_proper_prefix marker hc ha hne _ _)) (by rw [hrw]; simp)
      exact hnp (prefix_lcp ha this)
  · cases hrw : rows c.reverse loc with
    | nil => rfl
    | cons x xs =>
      exfalso
      have hcm := key c (List.prefix_refl c) loc hl (by
        show bytesLe (K marker c loc) (K marker c L) = true
        rw [key_le_same_name]; exact hloc) (by rw [hrw]; simp)
      have := K_lt_of_proper_prefix marker hm hcm (fun e => hmc e.symm) L l''
      rw [show K marker c L = Key c L from rfl, show K marker m l'' = Key m l'' from rfl,
        bytesLe_iff.1 hle] at this
      cases this

end RR

/-! ### the closest-key search `find` -/

/-- `tryForEach` of `find` -/
def tryFE {σ : Type} (s : Store) (onRows : List Bytes → σ → σ) (k : Bytes) (st : σ) : Option Bytes × σ :=
  match s.seekForPrev k with
  | none => (none, st)
  | some (fk, vals) => if fk = k then (some fk, onRows vals st) else (some fk, st)

/-- the part of one `find` iteration after `postIterationCheck` allowed to continue -/
def afterPost {σ : Type} (v : View) (rev : Bytes) (pre : Nat → σ → Option σ) (onRows : List Bytes → σ → σ)
    (post : σ → σ × Bool) (fuel qLength : Nat) (k : Option Bytes) (st4 : σ) : R σ :=
  let kk := k.getD []
  if kk.length < 2 ∨ kk.take 2 ≠ marker then .ok st4
  else if qLength = 1 then .ok st4
  else
    if kk.length < 4 then .panic else
    let foundLabel := (kk.drop 2).take (kk.length - 4)
    if foundLabel.isEmpty then .panic else
    let next : Option Nat :=
      if rev.take (qLength - 1) = foundLabel.take (foundLabel.length - 1) then
        lengthWithoutLastLabel rev qLength 256 0 0
      else (commonPrefix rev foundLabel (rev.length + 1) 0).map (· + 1)
    match next with
    | none => .panic
    | some nl => findGo v rev pre onRows post fuel nl st4

/-- the "same name, other location" second lookup of `find` -/
def secondTry {σ : Type} (v : View) (onRows : List Bytes → σ → σ) (nameKey key : Bytes)
    (r1 : Option Bytes × σ) : Option Bytes × σ :=
  match r1.1 with
  | some fk =>
    if v.loc ≠ [0, 0] ∧ fk.length = key.length ∧ fk.take (key.length - 2) = nameKey then
      tryFE v.store onRows (nameKey ++ [0, 0]) r1.2
    else r1
  | none => r1

theorem findGo_succ {σ : Type} (v : View) (rev : Bytes) (pre : Nat → σ → Option σ)
    (onRows : List Bytes → σ → σ) (post : σ → σ × Bool) (fuel qLength : Nat) (st : σ) :
    findGo v rev pre onRows post (fuel + 1) qLength st =
      match pre qLength st with
      | none => .ok st
      | some st1 =>
        if qLength = 0 then .panic else
        let nameKey := marker ++ rev.take (qLength - 1) ++ [0]
        let key := nameKey ++ v.loc
        let r2 := secondTry v onRows nameKey key (tryFE v.store onRows key st1)
        let p := post r2.2
        if ¬ p.2 then .ok p.1 else afterPost v rev pre onRows post fuel qLength r2.1 p.1 := by
  rw [findGo]
  rfl

theorem tryFE_fst {σ : Type} (s : Store) (onRows : List Bytes → σ → σ) (k : Bytes) (st : σ) :
    (tryFE s onRows k st).1 = (s.seekForPrev k).map (·.1) := by
  unfold tryFE
  cases s.seekForPrev k with
  | none => rfl
  | some r => obtain ⟨fk, vals⟩ := r; by_cases h : fk = k <;> simp [h]

theorem tryFE_snd {σ : Type} (s : Store) (onRows : List Bytes → σ → σ) (honil : ∀ st, onRows [] st = st)
    (k : Bytes) (st : σ) : (tryFE s onRows k st).2 = onRows (s.get k) st := by
  unfold tryFE
  cases hs : s.seekForPrev k with
  | none =>
    have : s.get k = [] := get_eq_nil_of_not_mem fun e he heq => by
      have := seekForPrev_none.1 hs e he
      rw [heq, bytesLe_refl] at this; cases this
    rw [this, honil]
  | some r =>
    obtain ⟨fk, vals⟩ := r
    by_cases h : fk = k
    · subst h
      have := (seekForPrev_some hs).2.2.1
      simp only at this
      simp [this]
    · have : s.get k = [] := get_eq_nil_of_not_mem fun e he heq => by
        obtain ⟨vals', hs', _⟩ := seekForPrev_of_mem ⟨e, he, heq⟩
        rw [hs] at hs'; cases hs'; exact h rfl
      simp [h, this, honil]

theorem rrkey_parts (m : List Bytes) {l : Bytes} (hl : l.length = 2) :
    ¬ ((Key m l).length < 2 ∨ (Key m l).take 2 ≠ marker) ∧ ¬ (Key m l).length < 4 ∧
    ((Key m l).drop 2).take ((Key m l).length - 4) = pack m := by
  have e : Key m l = marker ++ (pack m ++ l) := by simp [Key, K]
  have hlen : (Key m l).length = 2 + ((pack m).length + 2) := by
    rw [e, List.length_append, List.length_append, hl]; rfl
  refine ⟨?_, by omega, ?_⟩
  · intro h
    rcases h with h | h
    · omega
    · exact h (by rw [e]; exact take_prefix_of_length marker_length)
  · rw [hlen, e]
    have : (marker ++ (pack m ++ l)).drop 2 = pack m ++ l := List.drop_left' marker_length
    rw [this]
    have : 2 + ((pack m).length + 2) - 4 = (pack m).length := by omega
    rw [this]; simp

theorem pack_inj {a b : List Bytes} (ha : NameOK a) (hb : NameOK b) (h : pack a = pack b) : a = b := by
  have h1 := unpack_pack a (a.length + b.length + 1) ha (by omega)
  have h2 := unpack_pack b (a.length + b.length + 1) hb (by omega)
  rw [h, h2] at h1
  exact (Option.some.inj h1).symm

theorem flat_inj {a b : List Bytes} (ha : NameOK a) (hb : NameOK b) (h : flat a = flat b) : a = b :=
  pack_inj ha hb (by rw [pack_eq, pack_eq, h])

theorem take_flat_of_prefix {c n : List Bytes} (hc : c <+: n) :
    (pack n).take ((pack c).length - 1) = flat c := by
  obtain ⟨t, rfl⟩ := hc
  rw [pack_append, pack_length]; simp

section Tail
variable {σ : Type} {s : Store} {rows : Rows}

theorem afterPost_stop (v : View) (rev : Bytes) (pre : Nat → σ → Option σ) (onRows : List Bytes → σ → σ)
    (post : σ → σ × Bool) (fuel qLength : Nat) (st4 : σ) {k : Option Bytes}
    (h : k = none ∨ ∃ fk, k = some fk ∧ fk.take 2 ≠ marker) :
    afterPost v rev pre onRows post fuel qLength k st4 = .ok st4 := by
  unfold afterPost
  rcases h with rfl | ⟨fk, rfl, h⟩
  · simp
  · simp only [Option.getD_some]; rw [if_pos (Or.inr h)]

theorem afterPost_root (v : View) (rev : Bytes) (pre : Nat → σ → Option σ) (onRows : List Bytes → σ → σ)
    (post : σ → σ × Bool) (fuel : Nat) (st4 : σ) {m : List Bytes} {l : Bytes} (hl : l.length = 2) :
    afterPost v rev pre onRows post fuel 1 (some (Key m l)) st4 = .ok st4 := by
  unfold afterPost
  simp only [Option.getD_some]
  rw [if_neg (rrkey_parts m hl).1, if_pos trivial]

theorem afterPost_same (v : View) (pre : Nat → σ → Option σ) (onRows : List Bytes → σ → σ)
    (post : σ → σ × Bool) (fuel : Nat) (st4 : σ) {n c : List Bytes} {l : Bytes} (hl : l.length = 2)
    (hn : NameOK n) (hlen : (pack n).length ≤ 256) (hc : c <+: n) (hne : c ≠ []) :
    afterPost v (pack n) pre onRows post fuel (pack c).length (some (Key c l)) st4 =
      findGo v (pack n) pre onRows post fuel (pack c.dropLast).length st4 := by
  unfold afterPost
  simp only [Option.getD_some]
  obtain ⟨h1, h2, h3⟩ := rrkey_parts c hl
  have hc1 : (pack c).length ≠ 1 := by
    have := length_le_flat_length c
    have h2 : c.length ≠ 0 := fun h => hne (List.eq_nil_of_length_eq_zero h)
    rw [pack_length]; omega
  rw [if_neg h1, if_neg hc1, if_neg h2, h3]
  have hemp : (pack c).isEmpty = false := by rw [pack_eq]; simp
  rw [hemp]
  simp only [Bool.false_eq_true, if_false]
  rw [take_flat_of_prefix hc]
  have : (pack c).take ((pack c).length - 1) = flat c := take_flat_of_prefix (List.prefix_refl c)
  rw [this, if_pos rfl]
  obtain ⟨t, rfl⟩ := hc
  have hcl : (pack c).length ≤ 256 := by
    have := flat_length_le_of_prefix (List.prefix_append c t)
    rw [pack_length] at hlen ⊢; omega
  rw [lwl_prefix hn.of_append_left hne hcl]

theorem afterPost_other (v : View) (pre : Nat → σ → Option σ) (onRows : List Bytes → σ → σ)
    (post : σ → σ × Bool) (fuel : Nat) (st4 : σ) {n c m : List Bytes} {l : Bytes} (hl : l.length = 2)
    (hn : NameOK n) (hm : NameOK m) (hc : c <+: n) (hne : c ≠ []) (hcm : c ≠ m) (hnm : n ≠ m) :
    afterPost v (pack n) pre onRows post fuel (pack c).length (some (Key m l)) st4 =
      findGo v (pack n) pre onRows post fuel (pack (lcp n m)).length st4 := by
  unfold afterPost
  simp only [Option.getD_some]
  obtain ⟨h1, h2, h3⟩ := rrkey_parts m hl
  have hc1 : (pack c).length ≠ 1 := by
    have := length_le_flat_length c
    have h2 : c.length ≠ 0 := fun h => hne (List.eq_nil_of_length_eq_zero h)
    rw [pack_length]; omega
  rw [if_neg h1, if_neg hc1, if_neg h2, h3]
  have hemp : (pack m).isEmpty = false := by rw [pack_eq]; simp
  rw [hemp]
  simp only [Bool.false_eq_true, if_false]
  rw [take_flat_of_prefix hc]
  have : (pack m).take ((pack m).length - 1) = flat m := take_flat_of_prefix (List.prefix_refl m)
  rw [this, if_neg (fun e => hcm (flat_inj (hn.prefix hc) hm e))]
  have hcp := commonPrefix_spec n m [] [] ((pack n).length + 1) hn hm rfl
    (by have := length_le_flat_length n; rw [pack_length]; omega)
  simp only [List.nil_append, List.length_nil, Nat.zero_add] at hcp
  rw [if_neg hnm] at hcp
  rw [hcp]
  simp only [Option.map_some, pack_length]

end Tail


/-- names with no rows at all, for any 2-byte location -/
def NoRows (rows : Rows) (a : List Bytes) : Prop := ∀ loc : Bytes, loc.length = 2 → rows a.reverse loc = []

section Sem
variable {σ : Type} {s : Store} {rows : Rows}

/-- what happens after `postIterationCheck` said "continue", in terms of the seek at `Key c Ls` that
produced the last key: either the search stops and no proper ancestor of `c` owns rows, or it goes on
at a proper ancestor `c'` of `c` and every name strictly between owns no rows -/
theorem afterPost_sem (hrep : RepRRV2 s rows) (v : View) (pre : Nat → σ → Option σ)
    (onRows : List Bytes → σ → σ) (post : σ → σ × Bool) (fuel : Nat) (st4 : σ)
    {n c : List Bytes} (hn : NameOK64 n) (hlen : (pack n).length ≤ 256) (hc : c <+: n)
    {Ls : Bytes} (hLs : Ls.length = 2) :
    (afterPost v (pack n) pre onRows post fuel (pack c).length ((s.seekForPrev (Key c Ls)).map (·.1)) st4 = .ok st4 ∧
      ∀ a, a <+: c → a ≠ c → NoRows rows a) ∨
    ∃ c', c' <+: c ∧ c' ≠ c ∧ (∀ a, a <+: c → a ≠ c → ¬ a <+: c' → NoRows rows a) ∧
      afterPost v (pack n) pre onRows post fuel (pack c).length ((s.seekForPrev (Key c Ls)).map (·.1)) st4 =
        findGo v (pack n) pre onRows post fuel (pack c').length st4 := by
  have hco : NameOK c := hn.ok.prefix hc
  by_cases hnil : c = []
  · -- the root: whatever was found, the search stops
    left
    subst hnil
    refine ⟨?_, fun a ha hne => absurd (List.prefix_nil.1 ha) hne⟩
    rcases rr_seek_cases hrep (hn.prefix hc) hLs with ⟨hA, _⟩ | hB | ⟨m, l'', vals, hm, hl'', hC, _⟩
    · apply afterPost_stop
      rcases hA with h | ⟨fk, vals, h, _, hpre⟩
      · left; rw [h]; rfl
      · right; exact ⟨fk, by rw [h]; rfl, hpre⟩
    · rw [hB]; exact afterPost_root v _ pre onRows post fuel st4 hLs
    · rw [hC]; exact afterPost_root v _ pre onRows post fuel st4 hl''
  · have hdrop : ∃ c', c' = c.dropLast ∧ c' <+: c ∧ c' ≠ c ∧ ∀ a, a <+: c → a ≠ c → a <+: c' :=
      ⟨_, rfl, List.dropLast_prefix c, fun e => by
        have := congrArg List.length e; simp at this
        have h2 : c.length ≠ 0 := fun h => hnil (List.eq_nil_of_length_eq_zero h)
        omega, fun a ha hne => prefix_dropLast_of_proper ha hne⟩
    rcases rr_seek_cases hrep (hn.prefix hc) hLs with ⟨hA, habs⟩ | hB | ⟨m, l'', vals, hm, hl'', hC, hne, hle, _, hmax⟩
    · left
      refine ⟨?_, fun a ha hne loc hl => habs a loc (hco.prefix ha) hl
        (bytesLe_of_lt (K_lt_of_proper_prefix marker hco ha hne _ _))⟩
      apply afterPost_stop
      rcases hA with h | ⟨fk, vals, h, _, hpre⟩
      · left; rw [h]; rfl
      · right; exact ⟨fk, by rw [h]; rfl, hpre⟩
    · right
      obtain ⟨c', rfl, h1, h2, h3⟩ := hdrop
      refine ⟨_, h1, h2, fun a ha hne hnp => absurd (h3 a ha hne) hnp, ?_⟩
      rw [hB]
      exact afterPost_same v pre onRows post fuel st4 hLs hn.ok hlen hc hnil
    · right
      by_cases hcm : c = m
      · subst hcm
        obtain ⟨c', rfl, h1, h2, h3⟩ := hdrop
        refine ⟨_, h1, h2, fun a ha hne hnp => absurd (h3 a ha hne) hnp, ?_⟩
        rw [hC]
        exact afterPost_same v pre onRows post fuel st4 hl'' hn.ok hlen hc hnil
      · -- `c` is not a prefix of `m`
        have hpm : ¬ c <+: m := fun h => by
          have := K_lt_of_proper_prefix marker hm h hcm Ls l''
          rw [show K marker c Ls = Key c Ls from rfl, show K marker m l'' = Key m l'' from rfl,
            bytesLe_iff.1 hle] at this
          cases this
        have hnm : n ≠ m := fun e => hpm (e ▸ hc)
        have hp'c : lcp n m <+: c := by
          rcases prefix_total (lcp_prefix_left n m) hc with h | h
          · exact h
          · exact absurd (h.trans (lcp_prefix_right n m)) hpm
        have hp'ne : lcp n m ≠ c := fun e => hpm (e ▸ lcp_prefix_right n m)
        refine ⟨lcp n m, hp'c, hp'ne, fun a ha hne hnp => ?_, ?_⟩
        · have hsk := (skip_lemma (rows := rows) hco hm hle hmax).1 a ha hne fun h =>
            hnp (prefix_lcp ((lcp_prefix_left c m).trans hc |> fun h' => h.trans h') (h.trans (lcp_prefix_right c m)))
          exact hsk
        · rw [hC]
          exact afterPost_other v pre onRows post fuel st4 hl'' hn.ok hm hc hnil hcm hnm

end Sem


theorem zero_loc_le {L : Bytes} (hL : L.length = 2) : bytesLe [0, 0] L = true := by
  match L, hL with
  | [a, b], _ =>
    rw [bytesLe_iff]
    simp only [bytesLt]
    have h0 : (0 : UInt8).toNat = 0 := rfl
    rw [h0]
    by_cases ha : a.toNat < 0
    · omega
    · rw [if_neg ha]
      by_cases ha' : 0 < a.toNat
      · rw [if_pos ha']
      · rw [if_neg ha']
        by_cases hb : b.toNat < 0
        · omega
        · rw [if_neg hb]
          by_cases hb' : 0 < b.toNat
          · rw [if_pos hb']
          · rw [if_neg hb']

theorem same_name_cond {m c : List Bytes} (hm : NameOK m) (hc : NameOK c) {l L : Bytes}
    (hl : l.length = 2) (hL : L.length = 2) :
    ((Key m l).length = (Key c L).length ∧ (Key m l).take ((Key c L).length - 2) = marker ++ pack c) ↔ m = c := by
  have em : Key m l = (marker ++ pack m) ++ l := rfl
  have ec : Key c L = (marker ++ pack c) ++ L := rfl
  constructor
  · rintro ⟨h1, h2⟩
    rw [em, ec] at h1
    simp only [List.length_append, hl, hL] at h1
    have hlen : (pack m).length = (pack c).length := by omega
    have e3 : (Key c L).length - 2 = (marker ++ pack m).length := by
      rw [ec]; simp only [List.length_append, hL]; omega
    rw [e3, em, List.take_left'  rfl] at h2
    exact pack_inj hm hc (List.append_cancel_left h2)
  · rintro rfl
    refine ⟨by rw [em, ec]; simp [hl, hL], ?_⟩
    have e3 : (Key m L).length - 2 = (marker ++ pack m).length := by
      rw [ec]; simp only [List.length_append, hL]; omega
    rw [e3, em, List.take_left' rfl]

section Step
variable {σ : Type} {s : Store} {rows : Rows}

/-- the state after the row callbacks of one iteration at the name `c` -/
def st3Of (rows : Rows) (onRows : List Bytes → σ → σ) (L : Bytes) (c : List Bytes) (st1 : σ) : σ :=
  if L = [0, 0] then onRows (rows c.reverse [0, 0]) st1
  else onRows (rows c.reverse [0, 0]) (onRows (rows c.reverse L) st1)

theorem r2_sem (hrep : RepRRV2 s rows) (v : View) (hv : v.store = s) (hvl : v.loc.length = 2)
    (onRows : List Bytes → σ → σ) (honil : ∀ st, onRows [] st = st) (st1 : σ)
    {c : List Bytes} (hc : NameOK64 c) :
    ∃ Ls : Bytes, Ls.length = 2 ∧
      (secondTry v onRows (marker ++ pack c) (Key c v.loc) (tryFE v.store onRows (Key c v.loc) st1)).1 =
        (s.seekForPrev (Key c Ls)).map (·.1) ∧
      (secondTry v onRows (marker ++ pack c) (Key c v.loc) (tryFE v.store onRows (Key c v.loc) st1)).2 =
        st3Of rows onRows v.loc c st1 := by
  subst hv
  have hco := hc.ok
  have h1fst := tryFE_fst v.store onRows (Key c v.loc) st1
  have h1snd := tryFE_snd v.store onRows honil (Key c v.loc) st1
  rw [hrep.get_rev hco hvl] at h1snd
  have hk0 : marker ++ pack c ++ [0, 0] = Key c [0, 0] := rfl
  have h00 : ([0, 0] : Bytes).length = 2 := rfl
  by_cases hL : v.loc = [0, 0]
  · refine ⟨[0, 0], rfl, ?_, ?_⟩
    · have : secondTry v onRows (marker ++ pack c) (Key c v.loc) (tryFE v.store onRows (Key c v.loc) st1) =
          tryFE v.store onRows (Key c v.loc) st1 := by
        unfold secondTry
        cases (tryFE v.store onRows (Key c v.loc) st1).1 with
        | none => rfl
        | some fk => simp only []; rw [if_neg (fun h => h.1 hL)]
      rw [this, h1fst, hL]
    · have : secondTry v onRows (marker ++ pack c) (Key c v.loc) (tryFE v.store onRows (Key c v.loc) st1) =
          tryFE v.store onRows (Key c v.loc) st1 := by
        unfold secondTry
        cases (tryFE v.store onRows (Key c v.loc) st1).1 with
        | none => rfl
        | some fk => simp only []; rw [if_neg (fun h => h.1 hL)]
      rw [this, h1snd]
      unfold st3Of; rw [if_pos hL, hL]
  · -- second lookup performed
    have second : (tryFE v.store onRows (Key c v.loc) st1).1 = some (Key c v.loc) ∨
        (∃ l, l.length = 2 ∧ (tryFE v.store onRows (Key c v.loc) st1).1 = some (Key c l)) →
        ∃ Ls : Bytes, Ls.length = 2 ∧
        (secondTry v onRows (marker ++ pack c) (Key c v.loc) (tryFE v.store onRows (Key c v.loc) st1)).1 =
          (v.store.seekForPrev (Key c Ls)).map (·.1) ∧
        (secondTry v onRows (marker ++ pack c) (Key c v.loc) (tryFE v.store onRows (Key c v.loc) st1)).2 =
          st3Of rows onRows v.loc c st1 := by
      intro h
      obtain ⟨l, hl, hfk⟩ : ∃ l, l.length = 2 ∧ (tryFE v.store onRows (Key c v.loc) st1).1 = some (Key c l) := by
        rcases h with h | h
        · exact ⟨v.loc, hvl, h⟩
        · exact h
      have : secondTry v onRows (marker ++ pack c) (Key c v.loc) (tryFE v.store onRows (Key c v.loc) st1) =
          tryFE v.store onRows (Key c [0, 0]) (tryFE v.store onRows (Key c v.loc) st1).2 := by
        unfold secondTry
        rw [hfk]
        simp only []
        rw [if_pos ⟨hL, (same_name_cond hco hco hl hvl).2 rfl⟩]
        rfl
      refine ⟨[0, 0], rfl, ?_, ?_⟩
      · rw [this, tryFE_fst]
      · rw [this, tryFE_snd _ _ honil, hrep.get_rev hco h00, h1snd]
        unfold st3Of; rw [if_neg hL]
    -- no second lookup: `r2 = r1`, and `c` has no rows for `[0,0]` and `v.loc`
    have nosecond : (∀ fk, (tryFE v.store onRows (Key c v.loc) st1).1 = some fk →
          ¬ (fk.length = (Key c v.loc).length ∧ fk.take ((Key c v.loc).length - 2) = marker ++ pack c)) →
        rows c.reverse v.loc = [] → rows c.reverse [0, 0] = [] →
        ∃ Ls : Bytes, Ls.length = 2 ∧
        (secondTry v onRows (marker ++ pack c) (Key c v.loc) (tryFE v.store onRows (Key c v.loc) st1)).1 =
          (v.store.seekForPrev (Key c Ls)).map (·.1) ∧
        (secondTry v onRows (marker ++ pack c) (Key c v.loc) (tryFE v.store onRows (Key c v.loc) st1)).2 =
          st3Of rows onRows v.loc c st1 := by
      intro hcond hr1 hr0
      have : secondTry v onRows (marker ++ pack c) (Key c v.loc) (tryFE v.store onRows (Key c v.loc) st1) =
          tryFE v.store onRows (Key c v.loc) st1 := by
        unfold secondTry
        cases hh : (tryFE v.store onRows (Key c v.loc) st1).1 with
        | none => rfl
        | some fk => simp only []; rw [if_neg (fun h => hcond fk hh h.2)]
      refine ⟨v.loc, hvl, ?_, ?_⟩
      · rw [this, h1fst]
      · rw [this, h1snd]
        unfold st3Of; rw [if_neg hL, hr1, hr0, honil, honil]
    rcases rr_seek_cases hrep hc hvl with ⟨hA, habs⟩ | hB | ⟨m, l'', vals, hm, hl'', hC, hne, hle, hrl, hmax⟩
    · apply nosecond
      · intro fk hfk hcond
        rw [h1fst] at hfk
        rcases hA with h | ⟨fk', vals, h, _, hpre⟩
        · rw [h] at hfk; cases hfk
        · rw [h] at hfk; cases hfk
          apply hpre
          have h2 := congrArg (List.take 2) hcond.2
          rw [List.take_take] at h2
          have hmin : min 2 ((Key c v.loc).length - 2) = 2 := by
            have : (Key c v.loc).length = 2 + ((pack c).length + 2) := by
              show (marker ++ pack c ++ v.loc).length = _
              rw [List.length_append, List.length_append, hvl, marker_length]; omega
            rw [this, pack_length]; omega
          rw [hmin] at h2
          rw [h2]; exact take_prefix_of_length marker_length
      · exact habs c v.loc hco hvl (bytesLe_refl _)
      · exact habs c [0, 0] hco h00 (by
          show bytesLe (K marker c [0, 0]) (K marker c v.loc) = true
          rw [key_le_same_name]; exact zero_loc_le hvl)
    · apply second
      left; rw [h1fst, hB]; rfl
    · by_cases hmc : m = c
      · apply second
        right; exact ⟨l'', hl'', by rw [h1fst, hC, hmc]; rfl⟩
      · apply nosecond
        · intro fk hfk hcond
          rw [h1fst, hC] at hfk
          cases hfk
          exact hmc ((same_name_cond hm hco hl'' hvl).1 hcond)
        · exact hrl
        · exact (skip_lemma (rows := rows) hco hm hle hmax).2 hmc [0, 0] h00 (zero_loc_le hvl)

end Step


section StepMain
variable {σ : Type} {rows : Rows}

theorem findGo_pre_none (v : View) (rev : Bytes) (pre : Nat → σ → Option σ) (onRows : List Bytes → σ → σ)
    (post : σ → σ × Bool) (fuel qLength : Nat) (st : σ) (h : pre qLength st = none) :
    findGo v rev pre onRows post (fuel + 1) qLength st = .ok st := by
  rw [findGo_succ, h]

theorem findGo_succ' (v : View) (pre : Nat → σ → Option σ) (onRows : List Bytes → σ → σ)
    (post : σ → σ × Bool) (fuel : Nat) (st st1 : σ) {n c : List Bytes} (hc : c <+: n)
    (hpre : pre (pack c).length st = some st1) :
    findGo v (pack n) pre onRows post (fuel + 1) (pack c).length st =
      if ¬ (post (secondTry v onRows (marker ++ pack c) (Key c v.loc)
          (tryFE v.store onRows (Key c v.loc) st1)).2).2 then
        .ok (post (secondTry v onRows (marker ++ pack c) (Key c v.loc)
          (tryFE v.store onRows (Key c v.loc) st1)).2).1
      else afterPost v (pack n) pre onRows post fuel (pack c).length
        (secondTry v onRows (marker ++ pack c) (Key c v.loc) (tryFE v.store onRows (Key c v.loc) st1)).1
        (post (secondTry v onRows (marker ++ pack c) (Key c v.loc)
          (tryFE v.store onRows (Key c v.loc) st1)).2).1 := by
  rw [findGo_succ, hpre]
  dsimp only
  rw [if_neg (by rw [pack_length]; omega), take_flat_of_prefix hc]
  have : marker ++ flat c ++ [0] = marker ++ pack c := by rw [pack_eq, List.append_assoc]
  rw [this]
  rfl

/-- **Single-step lemma.** One iteration of `find` at the prefix `c` of the reversed query: the row
callbacks are those of the label walk at `c` (the rows for the client's location, then the untagged
rows); then either `postIterationCheck` stops the search, or the search stops because nothing is left
below and no proper ancestor of `c` owns rows, or it goes on at a proper ancestor `c'` and every name
strictly between `c'` and `c` owns no rows — exactly the names the label walk visits in between. -/
theorem findGo_step (v : View) (hrep : RepRRV2 v.store rows) (hvl : v.loc.length = 2)
    (pre : Nat → σ → Option σ) (onRows : List Bytes → σ → σ) (post : σ → σ × Bool)
    (honil : ∀ st, onRows [] st = st) (fuel : Nat) (st st1 : σ) {n c : List Bytes}
    (hn : NameOK64 n) (hlen : (pack n).length ≤ 256) (hc : c <+: n)
    (hpre : pre (pack c).length st = some st1) :
    ((post (st3Of rows onRows v.loc c st1)).2 = false ∧
      findGo v (pack n) pre onRows post (fuel + 1) (pack c).length st = .ok (post (st3Of rows onRows v.loc c st1)).1) ∨
    ((post (st3Of rows onRows v.loc c st1)).2 = true ∧
      findGo v (pack n) pre onRows post (fuel + 1) (pack c).length st = .ok (post (st3Of rows onRows v.loc c st1)).1 ∧
      ∀ a, a <+: c → a ≠ c → NoRows rows a) ∨
    ((post (st3Of rows onRows v.loc c st1)).2 = true ∧
      ∃ c', c' <+: c ∧ c' ≠ c ∧ (∀ a, a <+: c → a ≠ c → ¬ a <+: c' → NoRows rows a) ∧
        findGo v (pack n) pre onRows post (fuel + 1) (pack c).length st =
          findGo v (pack n) pre onRows post fuel (pack c').length (post (st3Of rows onRows v.loc c st1)).1) := by
  rw [findGo_succ' v pre onRows post fuel st st1 hc hpre]
  obtain ⟨Ls, hLs, h1, h2⟩ := r2_sem hrep v rfl hvl onRows honil st1 (hn.prefix hc)
  rw [h1, h2]
  cases hp : (post (st3Of rows onRows v.loc c st1)).2 with
  | false =>
    left
    exact ⟨rfl, by simp⟩
  | true =>
    right
    simp only [not_true_eq_false, if_false]
    rcases afterPost_sem hrep v pre onRows post fuel (post (st3Of rows onRows v.loc c st1)).1 hn hlen hc hLs with
      ⟨h, hno⟩ | ⟨c', hc1, hc2, hsk, h⟩
    · left; exact ⟨trivial, h, hno⟩
    · right; exact ⟨trivial, c', hc1, hc2, hsk, h⟩

end StepMain


/-! ### `IsAuthoritative`: the two clients -/

abbrev SA := Bool × Bool × Nat × Bool

def preA (qLength : Nat) (st : SA) : Option SA := some (st.1, st.2.1, qLength, st.2.2.2)
def onRowsA (rows : List Bytes) (st : SA) : SA :=
  match scanCut rows st.1 st.2.1 with
  | some (ns, auth) => (ns, auth, st.2.2.1, st.2.2.2)
  | none => (st.1, st.2.1, st.2.2.1, true)
def postA (st : SA) : SA × Bool := (st, !st.1)

theorem isAuthoritativeV2_unfold (v : View) (q : Bytes) :
    isAuthoritativeV2 v q =
      match reverseWire q with
      | none => .panic
      | some rev =>
        match findGo v rev preA onRowsA postA (rev.length + 2) rev.length (false, false, 0, false) with
        | .ok (ns, auth, zl, _) => .ok ⟨ns, auth, q.drop (q.length - (if ns then zl else 1))⟩
        | .err => .err
        | .panic => .panic := rfl

def rowOK (row : Bytes) : Bool := match extractRR row false with | .panic => false | _ => true
def isNS (row : Bytes) : Bool := match extractRR row false with | .row r => decide (r.qtype = 2) | _ => false
def isSOA (row : Bytes) : Bool := match extractRR row false with | .row r => decide (r.qtype = 6) | _ => false
def hasNS (rs : List Bytes) : Bool := rs.any isNS
def hasSOA (rs : List Bytes) : Bool := rs.any isSOA
/-- no row makes `ExtractRRFromRow` panic -/
def RowsOK (rs : List Bytes) : Prop := ∀ row ∈ rs, rowOK row = true

theorem scanCut_ok : ∀ (rs : List Bytes) (ns auth : Bool), RowsOK rs →
    scanCut rs ns auth = some (ns || hasNS rs, auth || hasSOA rs)
  | [], ns, auth, _ => by simp [scanCut, hasNS, hasSOA]
  | row :: rs, ns, auth, h => by
    have hrow := h row (List.mem_cons_self ..)
    have ih := fun ns auth => scanCut_ok rs ns auth fun r hr => h r (List.mem_cons_of_mem _ hr)
    unfold scanCut at ih ⊢
    rw [List.foldlM_cons]
    unfold rowOK at hrow
    cases he : extractRR row false with
    | panic => rw [he] at hrow; cases hrow
    | mismatch =>
      simp only [he]
      show (List.foldlM _ (ns, auth) rs) = _
      rw [ih]
      simp [hasNS, hasSOA, isNS, isSOA, he]
    | row r =>
      simp only [he]
      show (List.foldlM _ (ns || decide (r.qtype = 2), auth || decide (r.qtype = 6)) rs) = _
      rw [ih]
      simp [hasNS, hasSOA, isNS, isSOA, he, Bool.or_assoc]

theorem onRowsA_nil (st : SA) : onRowsA [] st = st := rfl

theorem onRowsA_ok {rs : List Bytes} (h : RowsOK rs) (ns auth : Bool) (zl : Nat) (pan : Bool) :
    onRowsA rs (ns, auth, zl, pan) = (ns || hasNS rs, auth || hasSOA rs, zl, pan) := by
  unfold onRowsA; simp only []; rw [scanCut_ok rs ns auth h]

/-- `(ns, auth)` after the rows of the name `z` visible to a client at `L` -/
def cutAt (rows : Rows) (L : Bytes) (z : List Bytes) (ns auth : Bool) : Bool × Bool :=
  if L = [0, 0] then (ns || hasNS (rows z [0, 0]), auth || hasSOA (rows z [0, 0]))
  else (ns || hasNS (rows z L) || hasNS (rows z [0, 0]), auth || hasSOA (rows z L) || hasSOA (rows z [0, 0]))

/-- the rows of well-formed owners that a client at `L` can see (its own and the untagged ones) never
make `ExtractRRFromRow` panic -/
def RowsOKAt (rows : Rows) (L : Bytes) : Prop :=
  ∀ z, NameOK z → ∀ loc, loc = L ∨ loc = [0, 0] → RowsOK (rows z loc)

theorem RowsOKAt.of_all {rows : Rows} (h : ∀ z loc, RowsOK (rows z loc)) (L : Bytes) : RowsOKAt rows L :=
  fun z _ loc _ => h z loc

theorem st3Of_A {rows : Rows} (L : Bytes) (hok : RowsOKAt rows L) (c : List Bytes) (hc : NameOK c)
    (ns auth : Bool) (zl : Nat) (pan : Bool) :
    st3Of rows onRowsA L c (ns, auth, zl, pan) =
      ((cutAt rows L c.reverse ns auth).1, (cutAt rows L c.reverse ns auth).2, zl, pan) := by
  unfold st3Of cutAt
  by_cases hL : L = [0, 0]
  · rw [if_pos hL, if_pos hL, onRowsA_ok (hok _ hc.reverse _ (Or.inr rfl))]
  · rw [if_neg hL, if_neg hL, onRowsA_ok (hok _ hc.reverse _ (Or.inl rfl)), onRowsA_ok (hok _ hc.reverse _ (Or.inr rfl))]

theorem cutAt_empty {rows : Rows} {L : Bytes} {z : List Bytes} (h1 : rows z L = []) (h0 : rows z [0, 0] = [])
    (ns auth : Bool) : cutAt rows L z ns auth = (ns, auth) := by
  unfold cutAt; rw [h1, h0]; simp [hasNS, hasSOA]

section V1A
variable {s₁ : Store} {rows : Rows}

theorem isAuthV1_step (hrep : RepRRV1 s₁ rows) {L : Bytes} (hok : RowsOKAt rows L) (b : Backend)
    (hL : L.length = 2) (z : List Bytes) (hz : NameOK z) (fuel : Nat) (ns auth : Bool) :
    isAuthoritativeV1 ⟨b, s₁, L⟩ (fuel + 1) (pack z) ns auth =
      if (cutAt rows L z ns auth).1 = true then
        .ok ⟨(cutAt rows L z ns auth).1, (cutAt rows L z ns auth).2, pack z⟩
      else match z with
        | [] => .ok ⟨(cutAt rows L z ns auth).1, (cutAt rows L z ns auth).2, pack []⟩
        | _ :: z' => isAuthoritativeV1 ⟨b, s₁, L⟩ fuel (pack z') (cutAt rows L z ns auth).1
            (cutAt rows L z ns auth).2 := by
  have h00 : ([0, 0] : Bytes).length = 2 := rfl
  have g0 : s₁.get ([0, 0] ++ pack z) = rows z [0, 0] := hrep z [0, 0] hz h00
  have gL : s₁.get (L ++ pack z) = rows z L := hrep z L hz hL
  rw [isAuthoritativeV1]
  simp only []
  -- the two scans
  have hscan : ∀ (ns1 auth1 : Bool),
      (if ¬ (auth1 = true ∧ ns1 = true) then scanCut (s₁.get ([0, 0] ++ pack z)) ns1 auth1 else some (ns1, auth1)) =
        some (ns1 || hasNS (rows z [0, 0]), auth1 || hasSOA (rows z [0, 0])) := by
    intro ns1 auth1
    by_cases h : auth1 = true ∧ ns1 = true
    · rw [if_neg (by simpa using h)]; obtain ⟨h1, h2⟩ := h; subst h1; subst h2; simp
    · rw [if_pos h, g0, scanCut_ok _ _ _ (hok _ hz _ (Or.inr rfl))]
  have hcut : ∃ ns1 auth1, scanCut (if L ≠ [0, 0] then s₁.get (L ++ pack z) else []) ns auth = some (ns1, auth1) ∧
      cutAt rows L z ns auth = (ns1 || hasNS (rows z [0, 0]), auth1 || hasSOA (rows z [0, 0])) := by
    unfold cutAt
    by_cases hL0 : L = [0, 0]
    · refine ⟨ns, auth, ?_, by rw [if_pos hL0]⟩
      rw [if_neg (by simpa using hL0)]; rfl
    · refine ⟨ns || hasNS (rows z L), auth || hasSOA (rows z L), ?_, by rw [if_neg hL0]⟩
      rw [if_pos hL0, gL, scanCut_ok _ _ _ (hok _ hz _ (Or.inl rfl))]
  obtain ⟨ns1, auth1, hs1, hc⟩ := hcut
  rw [hs1]
  simp only []
  rw [hscan ns1 auth1, hc]
  simp only []
  by_cases hns : (ns1 || hasNS (rows z [0, 0])) = true
  · rw [if_pos hns, if_pos hns]
  · rw [if_neg hns, if_neg hns]
    cases z with
    | nil => simp [pack_nil]
    | cons x z' =>
      have hx := hz.head
      have e : pack (x :: z') = UInt8.ofNat x.length :: (x ++ pack z') := by rw [pack_cons]; rfl
      rw [e]
      simp only []
      rw [if_neg (ofNat_len_ne_zero hx), drop_tok_pack x hx]

theorem isAuthV1_step_nil (hrep : RepRRV1 s₁ rows) {L : Bytes} (hok : RowsOKAt rows L) (b : Backend)
    (hL : L.length = 2) (fuel : Nat) (ns auth : Bool) :
    isAuthoritativeV1 ⟨b, s₁, L⟩ (fuel + 1) (pack []) ns auth =
      .ok ⟨(cutAt rows L [] ns auth).1, (cutAt rows L [] ns auth).2, [0]⟩ := by
  rw [isAuthV1_step hrep hok b hL [] NameOK.nil]
  by_cases h : (cutAt rows L [] ns auth).1 = true
  · rw [if_pos h]; rfl
  · rw [if_neg h]; rfl

theorem isAuthV1_step_cons (hrep : RepRRV1 s₁ rows) {L : Bytes} (hok : RowsOKAt rows L) (b : Backend)
    (hL : L.length = 2) (x : Bytes) (z : List Bytes) (hz : NameOK (x :: z)) (fuel : Nat)
    (ns auth : Bool) :
    isAuthoritativeV1 ⟨b, s₁, L⟩ (fuel + 1) (pack (x :: z)) ns auth =
      if (cutAt rows L (x :: z) ns auth).1 = true then
        .ok ⟨(cutAt rows L (x :: z) ns auth).1, (cutAt rows L (x :: z) ns auth).2, pack (x :: z)⟩
      else isAuthoritativeV1 ⟨b, s₁, L⟩ fuel (pack z) (cutAt rows L (x :: z) ns auth).1
        (cutAt rows L (x :: z) ns auth).2 := by
  rw [isAuthV1_step hrep hok b hL (x :: z) hz]

end V1A

section V1Walk
variable {s₁ : Store} {rows : Rows}

/-- the name `z` (query order) owns no rows for any 2-byte location -/
def NoRowsF (rows : Rows) (z : List Bytes) : Prop := ∀ loc : Bytes, loc.length = 2 → rows z loc = []

theorem isAuthV1_all_empty (hrep : RepRRV1 s₁ rows) {L : Bytes} (hok : RowsOKAt rows L) (b : Backend)
    (hL : L.length = 2) : ∀ (z : List Bytes) (fuel : Nat) (auth : Bool), NameOK z →
    z.length < fuel → (∀ t1 t2, z = t1 ++ t2 → NoRowsF rows t2) →
    isAuthoritativeV1 ⟨b, s₁, L⟩ fuel (pack z) false auth = .ok ⟨false, auth, [0]⟩
  | [], fuel, auth, hz, hf, h => by
    obtain ⟨f, rfl⟩ : ∃ f, fuel = f + 1 := ⟨fuel - 1, by simp at hf; omega⟩
    rw [isAuthV1_step_nil hrep hok b hL, cutAt_empty (h [] [] rfl L hL) (h [] [] rfl [0, 0] rfl)]
  | x :: z, fuel, auth, hz, hf, h => by
    obtain ⟨f, rfl⟩ : ∃ f, fuel = f + 1 := ⟨fuel - 1, by simp at hf; omega⟩
    rw [isAuthV1_step_cons hrep hok b hL x z hz,
      cutAt_empty (h [] (x :: z) rfl L hL) (h [] (x :: z) rfl [0, 0] rfl)]
    simp only [Bool.false_eq_true, if_false]
    exact isAuthV1_all_empty hrep hok b hL z f auth hz.tail (by simp at hf; omega)
      fun t1 t2 ht => h (x :: t1) t2 (by rw [ht]; rfl)

theorem isAuthV1_skip (hrep : RepRRV1 s₁ rows) {L : Bytes} (hok : RowsOKAt rows L) (b : Backend)
    (hL : L.length = 2) : ∀ (t z : List Bytes) (fuel : Nat) (auth : Bool), NameOK (t ++ z) →
    (∀ t1 t2, t = t1 ++ t2 → t2 ≠ [] → NoRowsF rows (t2 ++ z)) →
    isAuthoritativeV1 ⟨b, s₁, L⟩ (fuel + t.length) (pack (t ++ z)) false auth =
      isAuthoritativeV1 ⟨b, s₁, L⟩ fuel (pack z) false auth
  | [], z, fuel, auth, _, _ => rfl
  | x :: t, z, fuel, auth, hz, h => by
    have hn : NoRowsF rows (x :: (t ++ z)) := h [] (x :: t) rfl (by simp)
    show isAuthoritativeV1 ⟨b, s₁, L⟩ (fuel + t.length + 1) (pack (x :: (t ++ z))) false auth = _
    rw [isAuthV1_step_cons hrep hok b hL x (t ++ z) hz, cutAt_empty (hn L hL) (hn [0, 0] rfl)]
    simp only [Bool.false_eq_true, if_false]
    exact isAuthV1_skip hrep hok b hL t z fuel auth hz.tail fun t1 t2 ht hne => h (x :: t1) t2 (by rw [ht]; rfl) hne

end V1Walk


section AuthMain
variable {s₁ s₂ : Store} {rows : Rows}

theorem isAuth_walk (hrep1 : RepRRV1 s₁ rows) (hrep2 : RepRRV2 s₂ rows) {L : Bytes} (hok : RowsOKAt rows L)
    (b1 b2 : Backend) (hL : L.length = 2) {n : List Bytes} (hn : NameOK64 n)
    (hlen : (pack n).length ≤ 256) :
    ∀ (fuel2 : Nat) (c : List Bytes) (auth : Bool) (zl : Nat) (pan : Bool) (fuel1 : Nat),
      c <+: n → c.length < fuel2 → c.length < fuel1 →
      ∃ (N A : Bool) (c0 : List Bytes) (pan' : Bool), c0 <+: c ∧
        findGo ⟨b2, s₂, L⟩ (pack n) preA onRowsA postA fuel2 (pack c).length (false, auth, zl, pan) =
          .ok (N, A, (pack c0).length, pan') ∧
        isAuthoritativeV1 ⟨b1, s₁, L⟩ fuel1 (pack c.reverse) false auth =
          .ok ⟨N, A, if N = true then pack c0.reverse else [0]⟩ ∧
        (N = false → ∀ a, a <+: c0 → a ≠ c0 → NoRows rows a) := by
  intro fuel2
  induction fuel2 with
  | zero => intro c _ _ _ _ _ h _; simp at h
  | succ f ih =>
    intro c auth zl pan fuel1 hc hf2 hf1
    obtain ⟨g, rfl⟩ : ∃ g, fuel1 = g + 1 := ⟨fuel1 - 1, by omega⟩
    have hco : NameOK c := hn.ok.prefix hc
    have hcr : NameOK c.reverse := hco.reverse
    have hst3 := st3Of_A L hok c (hn.ok.prefix hc) false auth (pack c).length pan
    have hstep := findGo_step (rows := rows) ⟨b2, s₂, L⟩ hrep2 hL preA onRowsA postA onRowsA_nil f
      (false, auth, zl, pan) (false, auth, (pack c).length, pan) hn hlen hc rfl
    simp only [hst3, postA] at hstep
    -- abbreviations
    generalize hN : (cutAt rows L c.reverse false auth).1 = N at hstep
    generalize hA : (cutAt rows L c.reverse false auth).2 = A at hstep
    have hv1 := isAuthV1_step hrep1 hok b1 hL c.reverse hcr g false auth
    rw [hN, hA] at hv1
    rcases hstep with ⟨hcont, hgo⟩ | ⟨hcont, hgo, hno⟩ | ⟨hcont, c', hc'1, hc'2, hsk, hgo⟩
    · -- NS found at `c`
      have hNt : N = true := by cases N <;> simp_all
      subst hNt
      refine ⟨true, A, c, pan, List.prefix_refl c, hgo, ?_, fun h => by cases h⟩
      rw [hv1, if_pos rfl, if_pos rfl]
    · have hNf : N = false := by cases N <;> simp_all
      subst hNf
      refine ⟨false, A, c, pan, List.prefix_refl c, hgo, ?_, fun _ => hno⟩
      rw [if_neg (by simp)]
      cases hz : c.reverse with
      | nil =>
        have := isAuthV1_step_nil hrep1 hok b1 hL g false auth
        rw [← hz, hN, hA] at this
        rw [← hz]; exact this
      | cons x z' =>
        have hcx : c = z'.reverse ++ [x] := List.reverse_eq_cons_iff.1 hz
        have hzz : NameOK (x :: z') := hz ▸ hcr
        have := isAuthV1_step_cons hrep1 hok b1 hL x z' hzz g false auth
        rw [← hz, hN, hA, if_neg (by simp)] at this
        rw [← hz, this]
        apply isAuthV1_all_empty hrep1 hok b1 hL z' g A hzz.tail
        · have := congrArg List.length hcx; simp at this; omega
        · intro t1 t2 ht loc hl
          have ha : t2.reverse <+: c := by
            rw [hcx, ht, List.reverse_append, List.append_assoc]; exact List.prefix_append _ _
          have hne : t2.reverse ≠ c := by
            intro e; have := congrArg List.length e
            rw [hcx, ht] at this; simp at this
          have := hno t2.reverse ha hne loc hl
          rwa [List.reverse_reverse] at this
    · have hNf : N = false := by cases N <;> simp_all
      subst hNf
      obtain ⟨u, hu⟩ := hc'1
      have hune : u ≠ [] := fun e => hc'2 (by rw [← hu, e]; simp)
      -- `u.reverse = x :: t`
      obtain ⟨x, t, hxt⟩ : ∃ x t, u.reverse = x :: t := by
        cases hur : u.reverse with
        | nil => exact absurd (by simpa using hur) hune
        | cons x t => exact ⟨x, t, rfl⟩
      have hu' : u = t.reverse ++ [x] := List.reverse_eq_cons_iff.1 hxt
      have hz : c.reverse = x :: (t ++ c'.reverse) := by
        rw [← hu, List.reverse_append, hxt]; rfl
      have hzz : NameOK (x :: (t ++ c'.reverse)) := hz ▸ hcr
      have hclen : c.length = c'.length + t.length + 1 := by
        rw [← hu, hu']; simp; omega
      have hv := isAuthV1_step_cons hrep1 hok b1 hL x (t ++ c'.reverse) hzz g false auth
      rw [← hz, hN, hA, if_neg (by simp)] at hv
      obtain ⟨g', rfl⟩ : ∃ g', g = g' + t.length := ⟨g - t.length, by omega⟩
      rw [isAuthV1_skip hrep1 hok b1 hL t c'.reverse g' A hzz.tail (by
        intro t1 t2 ht hne loc hl
        have ha : (c' ++ t2.reverse) <+: c := by
          rw [← hu, hu', ht, List.reverse_append, List.append_assoc, ← List.append_assoc c']
          exact List.prefix_append _ _
        have hne' : c' ++ t2.reverse ≠ c := by
          intro e; have := congrArg List.length e
          rw [hclen, ht] at this; simp at this; omega
        have hnp : ¬ (c' ++ t2.reverse) <+: c' := by
          intro h; have := h.length_le; simp at this
          exact hne (List.eq_nil_of_length_eq_zero (by omega))
        have := hsk _ ha hne' hnp loc hl
        simpa using this)] at hv
      have hc'c : c' <+: c := ⟨u, hu⟩
      have hc'n : c' <+: n := hc'c.trans hc
      obtain ⟨N', A', c0, pan', hc0, hgo', hv1', hno'⟩ :=
        ih c' A (pack c).length pan g' hc'n (by omega) (by omega)
      refine ⟨N', A', c0, pan', hc0.trans hc'c, ?_, ?_, hno'⟩
      · rw [hgo]; exact hgo'
      · rw [hv]; exact hv1'

end AuthMain


theorem drop_pack_suffix {ql c0 : List Bytes} (h : c0 <+: ql.reverse) :
    (pack ql).drop ((pack ql).length - (pack c0).length) = pack c0.reverse := by
  obtain ⟨t, ht⟩ := h
  have hq : ql = t.reverse ++ c0.reverse := by
    have := congrArg List.reverse ht; simpa using this.symm
  rw [hq, pack_append]
  have : (flat t.reverse ++ pack c0.reverse).length - (pack c0).length = (flat t.reverse).length := by
    rw [List.length_append, pack_reverse_length]; omega
  rw [this]; simp

theorem drop_pack_root (ql : List Bytes) : (pack ql).drop ((pack ql).length - 1) = [0] :=
  drop_pack_suffix (ql := ql) (c0 := []) List.nil_prefix

/-- **`IsAuthoritative`, v2 = v1** (after the repair of `sortedDataReader.IsAuthoritative`: with no NS
on the path the zone cut is the root in both). Both return `.ok` with the same `Cut`, whose zone cut
is the packed form of a suffix `z1` of the query; when no NS was found it is the root. -/
theorem isAuthoritativeV2_eq_V1_cut {s₁ s₂ : Store} {rows : Rows} (hrep1 : RepRRV1 s₁ rows)
    (hrep2 : RepRRV2 s₂ rows) {L : Bytes} (hok : RowsOKAt rows L) (hL : L.length = 2)
    (ql : List Bytes) (hq : NameOK64 ql) (hlen : (pack ql).length ≤ 256) :
    ∃ (N A : Bool) (z1 : List Bytes), z1 <:+ ql ∧ (N = false → z1 = []) ∧
      isAuthoritativeV2 ⟨.rdbV2, s₂, L⟩ (pack ql) = .ok ⟨N, A, pack z1⟩ ∧
      isAuthoritativeV1 ⟨.rdbV1, s₁, L⟩ ((pack ql).length + 1) (pack ql) false false = .ok ⟨N, A, pack z1⟩ := by
  have hn : NameOK64 ql.reverse := fun l hl => hq l (List.mem_reverse.1 hl)
  obtain ⟨N, A, c0, pan', hc0, hgo, hv1, _⟩ :=
    isAuth_walk hrep1 hrep2 hok .rdbV1 .rdbV2 hL hn (by rw [pack_reverse_length]; exact hlen)
      ((pack ql.reverse).length + 2) ql.reverse false 0 false ((pack ql).length + 1) (List.prefix_refl _)
      (by have := length_le_flat_length ql.reverse; rw [pack_length]; omega)
      (by have := length_le_flat_length ql; rw [pack_length]; simp; omega)
  rw [List.reverse_reverse] at hv1
  rw [isAuthoritativeV2_unfold, reverseWire_pack ql hq.ok]
  simp only []
  rw [hgo]
  simp only []
  have hsuf : c0.reverse <:+ ql := by
    have := List.reverse_suffix.2 hc0
    rwa [List.reverse_reverse] at this
  cases N with
  | true =>
    refine ⟨true, A, c0.reverse, hsuf, fun h => (by cases h), ?_, ?_⟩
    · rw [if_pos rfl, drop_pack_suffix hc0]
    · rw [hv1, if_pos rfl]
  | false =>
    refine ⟨false, A, [], List.nil_suffix, fun _ => rfl, ?_, ?_⟩
    · rw [if_neg (by simp), drop_pack_root]; rfl
    · rw [hv1, if_neg (by simp)]; rfl

theorem isAuthoritativeV2_eq_V1' {s₁ s₂ : Store} {rows : Rows} (hrep1 : RepRRV1 s₁ rows)
    (hrep2 : RepRRV2 s₂ rows) {L : Bytes} (hok : RowsOKAt rows L) (hL : L.length = 2)
    (ql : List Bytes) (hq : NameOK64 ql) (hlen : (pack ql).length ≤ 256) :
    isAuthoritativeV2 ⟨.rdbV2, s₂, L⟩ (pack ql) =
      isAuthoritativeV1 ⟨.rdbV1, s₁, L⟩ ((pack ql).length + 1) (pack ql) false false := by
  obtain ⟨N, A, z1, _, _, h2, h1⟩ := isAuthoritativeV2_eq_V1_cut hrep1 hrep2 hok hL ql hq hlen
  rw [h2, h1]


/-! ### `FindAnswer`: the two clients -/

abbrev SF := Ans × Bool × Nat

def preF (control rev : Bytes) (length : Nat) (st : SF) : Option SF :=
  if length < control.length then none
  else if findAnswerV2.chk rev st (rev.length + 1) length then some (st.1, st.2.1, length) else none

def onRowsF (qnameOut : Bytes) (qtype : Nat) (rows : List Bytes) (st : SF) : SF :=
  ((scanAnswer rows st.2.1 qnameOut qtype st.1).getD st.1, st.2.1, st.2.2)

def postF (st : SF) : SF × Bool :=
  if st.1.recordFound then (st, false) else ((st.1, true, st.2.2), true)

theorem findAnswerV2_unfold (v : View) (q control qnameOut : Bytes) (qtype : Nat) :
    findAnswerV2 v q control qnameOut qtype =
      match reverseWire q with
      | none => .panic
      | some rev =>
        match findGo v rev (preF control rev) (onRowsF qnameOut qtype) postF (rev.length + 2) rev.length
            ({}, false, rev.length) with
        | .ok (a, _, _) => .ok a
        | .err => .err
        | .panic => .panic := rfl

theorem onRowsF_nil (qnameOut : Bytes) (qtype : Nat) (st : SF) : onRowsF qnameOut qtype [] st = st := rfl

theorem chk_zero (rev : Bytes) (st : SF) (i : Nat) : findAnswerV2.chk rev st 0 i = true := by
  rw [findAnswerV2.chk]

theorem chk_succ (rev : Bytes) (st : SF) (fuel i : Nat) : findAnswerV2.chk rev st (fuel + 1) i =
    if i < st.2.2 then
      match rev[i - 1]? with
      | none => true
      | some ll => if wildsafe ((rev.drop i).take ll.toNat) then findAnswerV2.chk rev st fuel (i + ll.toNat + 1) else false
    else true := by
  rw [findAnswerV2.chk]; rfl


theorem chk_spec : ∀ (u d rest : List Bytes) (st : SF) (fuel : Nat), NameOK (d ++ u ++ rest) →
    st.2.2 = (flat (d ++ u)).length + 1 → u.length < fuel →
    findAnswerV2.chk (pack (d ++ u ++ rest)) st fuel ((flat d).length + 1) = u.all wildsafe
  | [], d, rest, st, fuel, _, hll, hf => by
    obtain ⟨f, rfl⟩ : ∃ f, fuel = f + 1 := ⟨fuel - 1, by simp at hf; omega⟩
    rw [chk_succ, if_neg (by rw [hll]; simp)]
    rfl
  | y :: u, d, rest, st, fuel, hok, hll, hf => by
    obtain ⟨f, rfl⟩ : ∃ f, fuel = f + 1 := ⟨fuel - 1, by simp at hf; omega⟩
    have hy : LabelOK y := hok y (by simp)
    have hrev : pack (d ++ y :: u ++ rest) = flat d ++ UInt8.ofNat y.length :: (y ++ pack (u ++ rest)) := by
      rw [List.append_assoc, pack_append, List.cons_append, pack_cons]; rfl
    have hlt : (flat d).length + 1 < st.2.2 := by
      rw [hll, flat_append, flat_cons, List.length_append, List.length_append, tok_length]; omega
    rw [chk_succ, if_pos hlt]
    have e1 : (pack (d ++ y :: u ++ rest))[(flat d).length + 1 - 1]? = some (UInt8.ofNat y.length) := by
      rw [hrev]; simp
    rw [e1]
    simp only []
    have e2 : ((pack (d ++ y :: u ++ rest)).drop ((flat d).length + 1)).take (UInt8.ofNat y.length).toNat = y := by
      rw [hrev, hy.toNat]
      have : (flat d ++ UInt8.ofNat y.length :: (y ++ pack (u ++ rest))) =
          (flat d ++ [UInt8.ofNat y.length]) ++ (y ++ pack (u ++ rest)) := by simp
      rw [this, List.drop_left' (by simp)]; simp
    rw [e2]
    have e3 : d ++ y :: u ++ rest = (d ++ [y]) ++ u ++ rest := by simp
    have e4 : (flat d).length + 1 + (UInt8.ofNat y.length).toNat + 1 = (flat (d ++ [y])).length + 1 := by
      rw [hy.toNat, flat_append, flat_cons, flat_nil, List.append_nil, List.length_append, tok_length]; omega
    rw [e4]
    by_cases hw : wildsafe y = true
    · rw [if_pos hw, e3, chk_spec u (d ++ [y]) rest st f (by rw [← e3]; exact hok)
        (by rw [hll]; congr 2; simp) (by simp at hf; omega)]
      simp [hw]
    · rw [if_neg hw]; simp [hw]


theorem flat_length_lt_of_proper_prefix {a n : List Bytes} (h : a <+: n) (hne : a ≠ n) :
    (flat a).length < (flat n).length := by
  obtain ⟨x, t, rfl⟩ := proper_prefix_of h hne
  rw [flat_append, flat_cons, List.length_append, List.length_append, tok_length]; omega

section FA
variable (control qnameOut : Bytes) (qtype : Nat)

/-- the answer accumulator after the rows of the name `z` visible to a client at `L` -/
def ansAt (rows : Rows) (L : Bytes) (z : List Bytes) (wc : Bool) (acc : Ans) : Ans :=
  (scanAnswer (rows z [0, 0]) wc qnameOut qtype
    (if L = [0, 0] then acc else (scanAnswer (rows z L) wc qnameOut qtype acc).getD acc)).getD
    (if L = [0, 0] then acc else (scanAnswer (rows z L) wc qnameOut qtype acc).getD acc)

/-- the label walk after the name `z` (query order) yielded no record -/
def upV1 (v : View) (fuel : Nat) (z : List Bytes) (acc : Ans) : Ans :=
  if pack z = control then acc
  else match z with
    | [] => acc
    | x :: z' => if ¬ (wildsafe x = true) then acc else findAnswerV1 v control qnameOut qtype fuel (pack z') true acc

theorem st3Of_F (rows : Rows) (L : Bytes) (c : List Bytes) (acc : Ans) (wc : Bool) (ll : Nat) :
    st3Of rows (onRowsF qnameOut qtype) L c (acc, wc, ll) = (ansAt qnameOut qtype rows L c.reverse wc acc, wc, ll) := by
  unfold st3Of ansAt onRowsF
  by_cases hL : L = [0, 0]
  · rw [if_pos hL, if_pos hL]
  · rw [if_neg hL, if_neg hL]

theorem ansAt_empty {rows : Rows} {L : Bytes} {z : List Bytes} (h1 : rows z L = []) (h0 : rows z [0, 0] = [])
    (wc : Bool) (acc : Ans) : ansAt qnameOut qtype rows L z wc acc = acc := by
  unfold ansAt; rw [h1, h0]
  by_cases hL : L = [0, 0]
  · rw [if_pos hL]; rfl
  · rw [if_neg hL]; rfl

variable {s₁ : Store} {rows : Rows}

theorem findAnswerV1_step (hrep : RepRRV1 s₁ rows) (b : Backend) {L : Bytes} (hL : L.length = 2)
    (z : List Bytes) (hz : NameOK z) (fuel : Nat) (wc : Bool) (acc : Ans) :
    findAnswerV1 ⟨b, s₁, L⟩ control qnameOut qtype (fuel + 1) (pack z) wc acc =
      if (ansAt qnameOut qtype rows L z wc acc).recordFound = true then ansAt qnameOut qtype rows L z wc acc
      else upV1 control qnameOut qtype ⟨b, s₁, L⟩ fuel z (ansAt qnameOut qtype rows L z wc acc) := by
  have g0 : s₁.get ([0, 0] ++ pack z) = rows z [0, 0] := hrep z [0, 0] hz rfl
  have gL : s₁.get (L ++ pack z) = rows z L := hrep z L hz hL
  have hacc1 : (scanAnswer (if L ≠ [0, 0] then s₁.get (L ++ pack z) else []) wc qnameOut qtype acc).getD acc =
      (if L = [0, 0] then acc else (scanAnswer (rows z L) wc qnameOut qtype acc).getD acc) := by
    by_cases hL0 : L = [0, 0]
    · rw [if_neg (by simpa using hL0), if_pos hL0]; rfl
    · rw [if_pos hL0, if_neg hL0, gL]
  simp only [findAnswerV1]
  rw [hacc1, g0]
  show (if (ansAt qnameOut qtype rows L z wc acc).recordFound = true then _ else _) = _
  by_cases hrf : (ansAt qnameOut qtype rows L z wc acc).recordFound = true
  · rw [if_pos hrf, if_pos hrf]; rfl
  · rw [if_neg hrf, if_neg hrf]
    unfold upV1
    by_cases hctl : pack z = control
    · rw [if_pos hctl, if_pos hctl]; rfl
    · rw [if_neg hctl, if_neg hctl]
      cases z with
      | nil => rfl
      | cons x z' =>
        have hx := hz.head
        have e : pack (x :: z') = UInt8.ofNat x.length :: (x ++ pack z') := by rw [pack_cons]; rfl
        rw [e]
        simp only []
        rw [if_neg (ofNat_len_ne_zero hx), drop_tok_pack x hx, take_tok_pack x hx]
        rfl

/-- the walk meets neither the control name nor a label that is not wild-safe between `x :: t ++ z'` and `z'` -/
def goodUp (z' : List Bytes) : List Bytes → Prop
  | [] => True
  | x :: t => pack (x :: (t ++ z')) ≠ control ∧ wildsafe x = true ∧ goodUp z' t

theorem goodUp_iff (z' : List Bytes) : ∀ (t : List Bytes), goodUp control z' t ↔
    (∀ y ∈ t, wildsafe y = true) ∧ (∀ t1 t2, t = t1 ++ t2 → t2 ≠ [] → pack (t2 ++ z') ≠ control)
  | [] => by simp [goodUp]
  | x :: t => by
    simp only [goodUp, goodUp_iff z' t]
    constructor
    · rintro ⟨h1, h2, h3, h4⟩
      refine ⟨fun y hy => ?_, fun t1 t2 ht hne => ?_⟩
      · rcases List.mem_cons.1 hy with rfl | hy
        · exact h2
        · exact h3 y hy
      · cases t1 with
        | nil => simp at ht; subst ht; exact h1
        | cons a t1 =>
          simp at ht
          exact h4 t1 t2 ht.2 hne
    · rintro ⟨h1, h2⟩
      refine ⟨h2 [] (x :: t) rfl (by simp), h1 x (by simp), fun y hy => h1 y (by simp [hy]),
        fun t1 t2 ht hne => h2 (x :: t1) t2 (by rw [ht]; rfl) hne⟩

theorem upV1_good (hrep : RepRRV1 s₁ rows) (b : Backend) {L : Bytes} (hL : L.length = 2) (z' : List Bytes) :
    ∀ (t : List Bytes) (x : Bytes) (fuel : Nat) (acc : Ans), NameOK (x :: (t ++ z')) → acc.recordFound = false →
    (∀ t1 t2, t = t1 ++ t2 → t2 ≠ [] → NoRowsF rows (t2 ++ z')) → goodUp control z' (x :: t) →
    upV1 control qnameOut qtype ⟨b, s₁, L⟩ (fuel + t.length) (x :: (t ++ z')) acc =
      findAnswerV1 ⟨b, s₁, L⟩ control qnameOut qtype fuel (pack z') true acc
  | [], x, fuel, acc, _, _, _, hg => by
    unfold upV1
    rw [if_neg hg.1]
    simp only []
    rw [if_neg (by simp [hg.2.1])]
    rfl
  | y :: t, x, fuel, acc, hok, hacc, hno, hg => by
    unfold upV1
    rw [if_neg hg.1]
    simp only []
    rw [if_neg (by simp [hg.2.1])]
    have hn : NoRowsF rows (y :: (t ++ z')) := hno [] (y :: t) rfl (by simp)
    show findAnswerV1 ⟨b, s₁, L⟩ control qnameOut qtype (fuel + t.length + 1) (pack (y :: (t ++ z'))) true acc = _
    rw [findAnswerV1_step control qnameOut qtype hrep b hL (y :: (t ++ z')) hok.tail,
      ansAt_empty qnameOut qtype (hn L hL) (hn [0, 0] rfl), if_neg (by simp [hacc])]
    exact upV1_good hrep b hL z' t y fuel acc hok.tail hacc
      (fun t1 t2 ht hne => hno (y :: t1) t2 (by rw [ht]; rfl) hne) hg.2.2

theorem upV1_bad (hrep : RepRRV1 s₁ rows) (b : Backend) {L : Bytes} (hL : L.length = 2) (z' : List Bytes)
    (t : List Bytes) : ∀ (x : Bytes) (fuel : Nat) (acc : Ans), NameOK (x :: (t ++ z')) → acc.recordFound = false →
    (∀ t1 t2, t = t1 ++ t2 → t2 ≠ [] → NoRowsF rows (t2 ++ z')) → ¬ goodUp control z' (x :: t) →
    upV1 control qnameOut qtype ⟨b, s₁, L⟩ fuel (x :: (t ++ z')) acc = acc := by
  induction t with
  | nil =>
    intro x fuel acc hok hacc hno hg
    unfold upV1
    by_cases h1 : pack (x :: ([] ++ z')) = control
    · rw [if_pos h1]
    · rw [if_neg h1]
      simp only []
      by_cases h2 : wildsafe x = true
      · exact absurd ⟨h1, h2, trivial⟩ hg
      · rw [if_pos h2]
  | cons y t ih =>
    intro x fuel acc hok hacc hno hg
    unfold upV1
    by_cases h1 : pack (x :: (y :: t ++ z')) = control
    · rw [if_pos h1]
    · rw [if_neg h1]
      simp only []
      by_cases h2 : wildsafe x = true
      · rw [if_neg (by simp [h2])]
        have hg' : ¬ goodUp control z' (y :: t) := fun h => hg ⟨h1, h2, h⟩
        cases fuel with
        | zero => rfl
        | succ f =>
          have hn : NoRowsF rows (y :: (t ++ z')) := hno [] (y :: t) rfl (by simp)
          show findAnswerV1 ⟨b, s₁, L⟩ control qnameOut qtype (f + 1) (pack (y :: (t ++ z'))) true acc = _
          rw [findAnswerV1_step control qnameOut qtype hrep b hL (y :: (t ++ z')) hok.tail,
            ansAt_empty qnameOut qtype (hn L hL) (hn [0, 0] rfl), if_neg (by simp [hacc])]
          exact ih y f acc hok.tail hacc
            (fun t1 t2 ht hne => hno (y :: t1) t2 (by rw [ht]; rfl) hne) hg'
      · rw [if_pos h2]

theorem upV1_all_empty (hrep : RepRRV1 s₁ rows) (b : Backend) {L : Bytes} (hL : L.length = 2) :
    ∀ (z : List Bytes) (fuel : Nat) (acc : Ans), NameOK z → acc.recordFound = false →
    (∀ t1 t2, z = t1 ++ t2 → t1 ≠ [] → NoRowsF rows t2) →
    upV1 control qnameOut qtype ⟨b, s₁, L⟩ fuel z acc = acc
  | [], fuel, acc, _, _, _ => by
    unfold upV1
    by_cases h1 : pack [] = control
    · rw [if_pos h1]
    · rw [if_neg h1]
  | x :: z', fuel, acc, hok, hacc, hno => by
    unfold upV1
    by_cases h1 : pack (x :: z') = control
    · rw [if_pos h1]
    · rw [if_neg h1]
      simp only []
      by_cases h2 : wildsafe x = true
      · rw [if_neg (by simp [h2])]
        cases fuel with
        | zero => rfl
        | succ f =>
          have hn := hno [x] z' rfl (by simp)
          rw [findAnswerV1_step control qnameOut qtype hrep b hL z' hok.tail,
            ansAt_empty qnameOut qtype (hn L hL) (hn [0, 0] rfl), if_neg (by simp [hacc])]
          exact upV1_all_empty hrep b hL z' f acc hok.tail hacc
            fun t1 t2 ht hne => hno (x :: t1) t2 (by rw [ht]; rfl) (by simp)
      · rw [if_pos h2]

end FA


section FAMain
variable {s₁ s₂ : Store} {rows : Rows} (qnameOut : Bytes) (qtype : Nat)

/-- the continuation statement: the closest-key search entering `c'` after `cprev` yielded nothing
equals the label walk going up from `cprev` -/
def MStmt (s₁ s₂ : Store) (rows : Rows) (qnameOut : Bytes) (qtype : Nat) (b1 b2 : Backend) (L : Bytes)
    (n cc : List Bytes) (f : Nat) : Prop :=
  ∀ (c' cprev : List Bytes) (acc : Ans) (fuel1 : Nat), cprev <+: n → c' <+: cprev → c' ≠ cprev → cc <+: cprev →
    (∀ a, a <+: cprev → a ≠ cprev → ¬ a <+: c' → NoRows rows a) → acc.recordFound = false →
    c'.length < f → cprev.length ≤ fuel1 →
    ∃ (r : Ans) (wc' : Bool) (ll' : Nat),
      findGo ⟨b2, s₂, L⟩ (pack n) (preF (pack cc.reverse) (pack n)) (onRowsF qnameOut qtype) postF f
        (pack c').length (acc, true, (pack cprev).length) = .ok (r, wc', ll') ∧
      upV1 (pack cc.reverse) qnameOut qtype ⟨b1, s₁, L⟩ fuel1 cprev.reverse acc = r

theorem fa_visit (hrep1 : RepRRV1 s₁ rows) (hrep2 : RepRRV2 s₂ rows) (b1 b2 : Backend) {L : Bytes}
    (hL : L.length = 2) {n cc : List Bytes} (hn : NameOK64 n) (hlen : (pack n).length ≤ 256) {f : Nat}
    (hM : MStmt s₁ s₂ rows qnameOut qtype b1 b2 L n cc f)
    (c' : List Bytes) (st : SF) (acc : Ans) (wc : Bool) (g : Nat) (hc' : c' <+: n) (hcc : cc <+: c')
    (hpre : preF (pack cc.reverse) (pack n) (pack c').length st = some (acc, wc, (pack c').length))
    (hg : c'.length ≤ g) (hf : c'.length ≤ f) :
    ∃ (r : Ans) (wc' : Bool) (ll' : Nat),
      findGo ⟨b2, s₂, L⟩ (pack n) (preF (pack cc.reverse) (pack n)) (onRowsF qnameOut qtype) postF (f + 1)
        (pack c').length st = .ok (r, wc', ll') ∧
      findAnswerV1 ⟨b1, s₁, L⟩ (pack cc.reverse) qnameOut qtype (g + 1) (pack c'.reverse) wc acc = r := by
  have hco : NameOK c' := hn.ok.prefix hc'
  have hstep := findGo_step (rows := rows) ⟨b2, s₂, L⟩ hrep2 hL (preF (pack cc.reverse) (pack n))
    (onRowsF qnameOut qtype) postF (onRowsF_nil qnameOut qtype) f st (acc, wc, (pack c').length) hn hlen hc' hpre
  rw [st3Of_F] at hstep
  simp only [] at hstep
  rw [findAnswerV1_step (pack cc.reverse) qnameOut qtype hrep1 b1 hL c'.reverse hco.reverse]
  generalize ansAt qnameOut qtype rows L c'.reverse wc acc = a at hstep ⊢
  by_cases hrf : a.recordFound = true
  · have hp : postF (a, wc, (pack c').length) = ((a, wc, (pack c').length), false) := by
      unfold postF; rw [if_pos hrf]
    rw [hp] at hstep
    rw [if_pos hrf]
    rcases hstep with ⟨_, hgo⟩ | ⟨h, _⟩ | ⟨h, _⟩
    · exact ⟨a, wc, _, hgo, rfl⟩
    · cases h
    · cases h
  · have hrf' : a.recordFound = false := by simpa using hrf
    have hp : postF (a, wc, (pack c').length) = ((a, true, (pack c').length), true) := by
      unfold postF; rw [if_neg hrf]
    rw [hp] at hstep
    rw [if_neg hrf]
    rcases hstep with ⟨h, _⟩ | ⟨_, hgo, hno⟩ | ⟨_, c'', h1, h2, hsk, hgo⟩
    · cases h
    · refine ⟨a, true, _, hgo, ?_⟩
      apply upV1_all_empty (pack cc.reverse) qnameOut qtype hrep1 b1 hL c'.reverse g a hco.reverse hrf'
      intro t1 t2 ht hne loc hl
      have hc'e : c' = t2.reverse ++ t1.reverse := by
        have := congrArg List.reverse ht; simpa using this
      have ha : t2.reverse <+: c' := by rw [hc'e]; exact List.prefix_append _ _
      have hne' : t2.reverse ≠ c' := by
        intro e; have := congrArg List.length e
        rw [hc'e] at this; simp at this
        exact hne this
      have := hno t2.reverse ha hne' loc hl
      rwa [List.reverse_reverse] at this
    · have hlt : c''.length < c'.length := by
        rcases Nat.lt_or_ge c''.length c'.length with h | h
        · exact h
        · exact absurd (h1.eq_of_length (Nat.le_antisymm h1.length_le h)) h2
      obtain ⟨r, wc', ll', hgo', hup⟩ := hM c'' c' a g hc' h1 h2 hcc hsk hrf' (by omega) hg
      exact ⟨r, wc', ll', by rw [hgo]; exact hgo', hup⟩

end FAMain


section FAInd
variable {s₁ s₂ : Store} {rows : Rows} (qnameOut : Bytes) (qtype : Nat)

theorem fa_cont (hrep1 : RepRRV1 s₁ rows) (hrep2 : RepRRV2 s₂ rows) (b1 b2 : Backend) {L : Bytes}
    (hL : L.length = 2) {n cc : List Bytes} (hn : NameOK64 n) (hlen : (pack n).length ≤ 256) :
    ∀ f, MStmt s₁ s₂ rows qnameOut qtype b1 b2 L n cc f := by
  intro f
  induction f with
  | zero => intro c' _ _ _ _ _ _ _ _ _ h _; simp at h
  | succ f ih =>
    intro c' cprev acc fuel1 hcp hc'p hne hcc hsk hacc hf hf1
    have hc'n : c' <+: n := hc'p.trans hcp
    have hcpo : NameOK cprev := hn.ok.prefix hcp
    obtain ⟨u, hu⟩ := hc'p
    obtain ⟨rest, hrest⟩ := hcp
    have hune : u ≠ [] := fun e => hne (by rw [← hu, e]; simp)
    obtain ⟨x, t, hxt⟩ : ∃ x t, u.reverse = x :: t := by
      cases hur : u.reverse with
      | nil => exact absurd (by simpa using hur) hune
      | cons x t => exact ⟨x, t, rfl⟩
    have hu' : u = t.reverse ++ [x] := List.reverse_eq_cons_iff.1 hxt
    have hz : cprev.reverse = x :: (t ++ c'.reverse) := by
      rw [← hu, List.reverse_append, hxt]; rfl
    have hzz : NameOK (x :: (t ++ c'.reverse)) := hz ▸ hcpo.reverse
    have hclen : cprev.length = c'.length + t.length + 1 := by
      rw [← hu, hu']; simp; omega
    -- names strictly between own no rows (query order)
    have hno : ∀ t1 t2, t = t1 ++ t2 → t2 ≠ [] → NoRowsF rows (t2 ++ c'.reverse) := by
      intro t1 t2 ht hne2 loc hl
      have ha : (c' ++ t2.reverse) <+: cprev := by
        rw [← hu, hu', ht, List.reverse_append, List.append_assoc, ← List.append_assoc c']
        exact List.prefix_append _ _
      have hne' : c' ++ t2.reverse ≠ cprev := by
        intro e; have := congrArg List.length e
        rw [hclen, ht] at this; simp at this; omega
      have hnp : ¬ (c' ++ t2.reverse) <+: c' := by
        intro h; have := h.length_le; simp at this
        exact hne2 (List.eq_nil_of_length_eq_zero (by omega))
      have := hsk _ ha hne' hnp loc hl
      simpa using this
    rw [hz]
    by_cases hcc' : cc <+: c'
    · -- the zone cut is at or above `c'`
      have hlen1 : ¬ (pack c').length < (pack cc.reverse).length := by
        have := flat_length_le_of_prefix hcc'
        rw [pack_reverse_length, pack_length, pack_length]; omega
      have hchk : findAnswerV2.chk (pack n) (acc, true, (pack cprev).length) ((pack n).length + 1) (pack c').length =
          u.all wildsafe := by
        have hnn : n = c' ++ u ++ rest := by rw [hu, hrest]
        have := chk_spec u c' rest (acc, true, (pack cprev).length) ((pack n).length + 1)
          (by rw [← hnn]; exact hn.ok) (by rw [hu, pack_length]) (by
            have h1 := length_le_flat_length n
            have h2 : u.length ≤ n.length := by rw [hnn]; simp; omega
            rw [pack_length]; omega)
        rw [← hnn, ← pack_length] at this
        exact this
      have hall : u.all wildsafe = true ↔ ∀ y ∈ x :: t, wildsafe y = true := by
        rw [← hxt]; simp
      by_cases hw : u.all wildsafe = true
      · -- enter `c'`
        have hpre : preF (pack cc.reverse) (pack n) (pack c').length (acc, true, (pack cprev).length) =
            some (acc, true, (pack c').length) := by
          unfold preF; rw [if_neg hlen1, hchk, if_pos hw]
        have hgood : goodUp (pack cc.reverse) c'.reverse (x :: t) := by
          rw [goodUp_iff]
          refine ⟨hall.1 hw, fun t1 t2 ht hne2 heq => ?_⟩
          have hok2 : NameOK (t2 ++ c'.reverse) := by
            intro l hl; apply hzz l
            have : x :: (t ++ c'.reverse) = t1 ++ (t2 ++ c'.reverse) := by
              rw [← List.append_assoc, ← ht]; rfl
            rw [this]; exact List.mem_append_right _ hl
          have := pack_inj hok2 (hn.ok.prefix (hcc'.trans hc'n)).reverse heq
          have h2 := congrArg List.length this
          have h3 := hcc'.length_le
          simp at h2
          exact hne2 (List.eq_nil_of_length_eq_zero (by omega))
        obtain ⟨g', rfl⟩ : ∃ g', fuel1 = g' + t.length := ⟨fuel1 - t.length, by omega⟩
        obtain ⟨g, rfl⟩ : ∃ g, g' = g + 1 := ⟨g' - 1, by omega⟩
        rw [upV1_good (pack cc.reverse) qnameOut qtype hrep1 b1 hL c'.reverse t x (g + 1) acc hzz hacc hno hgood]
        exact fa_visit qnameOut qtype hrep1 hrep2 b1 b2 hL hn hlen ih c' _ acc true g hc'n hcc' hpre
          (by omega) (by omega)
      · have hpre : preF (pack cc.reverse) (pack n) (pack c').length (acc, true, (pack cprev).length) = none := by
          unfold preF; rw [if_neg hlen1, hchk, if_neg hw]
        refine ⟨acc, true, _, findGo_pre_none _ _ _ _ _ f _ _ hpre, ?_⟩
        apply upV1_bad (pack cc.reverse) qnameOut qtype hrep1 b1 hL c'.reverse t x fuel1 acc hzz hacc hno
        intro hg
        exact hw (hall.2 ((goodUp_iff _ _ _).1 hg).1)
    · -- the zone cut lies strictly between `c'` and `cprev` (or is `cprev`): both stop
      have hc'cc : c' <+: cc := by
        rcases prefix_total hcc ⟨u, hu⟩ with h | h
        · exact absurd h hcc'
        · exact h
      have hne3 : c' ≠ cc := fun e => hcc' (e ▸ List.prefix_refl _)
      have hlen1 : (pack c').length < (pack cc.reverse).length := by
        have := flat_length_lt_of_proper_prefix hc'cc hne3
        rw [pack_reverse_length, pack_length, pack_length]; omega
      have hpre : preF (pack cc.reverse) (pack n) (pack c').length (acc, true, (pack cprev).length) = none := by
        unfold preF; rw [if_pos hlen1]
      refine ⟨acc, true, _, findGo_pre_none _ _ _ _ _ f _ _ hpre, ?_⟩
      apply upV1_bad (pack cc.reverse) qnameOut qtype hrep1 b1 hL c'.reverse t x fuel1 acc hzz hacc hno
      intro hg
      obtain ⟨w1, hw1⟩ := hc'cc
      obtain ⟨w2, hw2⟩ := hcc
      have hw1ne : w1 ≠ [] := fun e => hne3 (by rw [← hw1, e]; simp)
      have huw : u = w1 ++ w2 := by
        have : c' ++ u = c' ++ (w1 ++ w2) := by rw [hu, ← List.append_assoc, hw1, hw2]
        exact List.append_cancel_left this
      have hsplit : x :: t = w2.reverse ++ w1.reverse := by rw [← hxt, huw, List.reverse_append]
      have := ((goodUp_iff _ _ _).1 hg).2 w2.reverse w1.reverse hsplit (by simpa using hw1ne)
      apply this
      rw [← hw1, List.reverse_append]

/-- `sortedDataReader.FindAnswer` equals `DataReader.FindAnswer` -/
theorem findAnswerV2_eq_V1' (hrep1 : RepRRV1 s₁ rows) (hrep2 : RepRRV2 s₂ rows) {L : Bytes}
    (hL : L.length = 2) (ql zc : List Bytes) (hq : NameOK64 ql) (hlen : (pack ql).length ≤ 256)
    (hzc : zc <:+ ql) :
    findAnswerV2 ⟨.rdbV2, s₂, L⟩ (pack ql) (pack zc) qnameOut qtype =
      .ok (findAnswerV1 ⟨.rdbV1, s₁, L⟩ (pack zc) qnameOut qtype ((pack ql).length + 1) (pack ql) false {}) := by
  have hn : NameOK64 ql.reverse := fun l hl => hq l (List.mem_reverse.1 hl)
  have hlen' : (pack ql.reverse).length ≤ 256 := by rw [pack_reverse_length]; exact hlen
  have hcc : zc.reverse <+: ql.reverse := List.reverse_prefix.2 hzc
  rw [findAnswerV2_unfold, reverseWire_pack ql hq.ok]
  simp only []
  have hpre : preF (pack zc.reverse.reverse) (pack ql.reverse) (pack ql.reverse).length
      ({}, false, (pack ql.reverse).length) = some ({}, false, (pack ql.reverse).length) := by
    unfold preF
    have h1 := flat_length_le_of_prefix hcc
    have h2 : (pack zc.reverse.reverse).length = (pack zc.reverse).length := pack_reverse_length _
    have hlt : ¬ (pack ql.reverse).length < (pack zc.reverse.reverse).length := by
      rw [h2, pack_length, pack_length]; omega
    have hchk : findAnswerV2.chk (pack ql.reverse) (({} : Ans), false, (pack ql.reverse).length)
        ((pack ql.reverse).length + 1) (pack ql.reverse).length = true := by
      rw [chk_succ, if_neg (Nat.lt_irrefl _)]
    rw [if_neg hlt, hchk, if_pos rfl]
  have hll : ql.reverse.length ≤ (pack ql).length := by
    have := length_le_flat_length ql; rw [pack_length]; simp; omega
  obtain ⟨r, wc', ll', hgo, hv1⟩ := fa_visit qnameOut qtype hrep1 hrep2 .rdbV1 .rdbV2 hL hn hlen'
    (fa_cont qnameOut qtype hrep1 hrep2 .rdbV1 .rdbV2 hL hn hlen' ((pack ql.reverse).length + 1))
    ql.reverse _ {} false (pack ql).length (List.prefix_refl _) hcc hpre hll
    (by rw [pack_reverse_length]; omega)
  simp only [List.reverse_reverse] at hgo hv1
  rw [hgo, hv1]

end FAInd



/-! ### rows of a name: the two layouts -/

theorem rowsOf_v2_eq_v1' {s₁ s₂ : Store} {rows : Rows} (hrep1 : RepRRV1 s₁ rows) (hrep2 : RepRRV2 s₂ rows)
    {L : Bytes} (hL : L.length = 2) (z : List Bytes) (hz : NameOK z) :
    rowsOf ⟨.rdbV2, s₂, L⟩ (pack z) = rowsOf ⟨.rdbV1, s₁, L⟩ (pack z) := by
  have h2 : ∀ loc, rrKey ⟨.rdbV2, s₂, L⟩ (pack z) loc = some (Key z.reverse loc) := by
    intro loc
    show (if (View.v2 ⟨.rdbV2, s₂, L⟩) = true then _ else _) = _
    have hv : View.v2 ⟨.rdbV2, s₂, L⟩ = true := by simp [View.v2]
    rw [if_pos hv, reverseWire_pack z hz]; rfl
  have h1 : ∀ loc, rrKey ⟨.rdbV1, s₁, L⟩ (pack z) loc = some (loc ++ pack z) := by
    intro loc
    show (if (View.v2 ⟨.rdbV1, s₁, L⟩) = true then _ else _) = _
    have hv : ¬ View.v2 ⟨.rdbV1, s₁, L⟩ = true := by simp [View.v2]
    rw [if_neg hv]
  unfold rowsOf
  simp only [h1, h2, Option.map_some, Option.getD_some]
  rw [hrep2.get z [0, 0] hz rfl, hrep1 z [0, 0] hz rfl, hrep2.get z L hz hL, hrep1 z L hz hL]

end DnsVerif.RevOrder
